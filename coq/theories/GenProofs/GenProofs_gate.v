(* C10 -- the entry gate of the causal estimators as regenerated on every run from zepid.causal.utils.check_input_data
   (ZepidGen.Gen_gate_Q: which rows each branch of `if drop_censoring:` counts and keeps -- read off the dropna subsets -- and
   when the missing-outcome flag is raised) is the model Model.Gate: gate true / gate false / miss_flag. *)
From Coq Require Import QArith List Bool Arith Lia.
From Zepid Require Import Model.Gate.
From ZepidGen Require Import Gen_gate_Q.
Import ListNotations.

Lemma gen_gate_drop_all rows : gate_drop_all_Q rows = gate true rows.
Proof.
  unfold gate_drop_all_Q, gate. apply filter_ext. intros r. unfold complete, keepY, cov_ok. reflexivity.
Qed.

Lemma gen_gate_keep rows : gate_keep_Q rows = gate false rows.
Proof.
  unfold gate_keep_Q, gate. apply filter_ext. intros r. unfold keepY, cov_ok. reflexivity.
Qed.

Lemma filter_len_le {A} (p : A -> bool) l : (length (filter p l) <= length l)%nat.
Proof. induction l as [|x xs IH]; cbn [filter length]; [lia|]. destruct (p x); cbn [length]; lia. Qed.

Lemma len_filter_all {A} (p : A -> bool) l : Nat.eqb (length l) (length (filter p l)) = forallb p l.
Proof.
  induction l as [|x xs IH]; cbn [filter length forallb]; [reflexivity|].
  destruct (p x); cbn [length andb].
  - cbn [Nat.eqb]. exact IH.
  - apply Nat.eqb_neq. pose proof (filter_len_le p xs). lia.
Qed.

Lemma existsb_negb_forallb {A} (p : A -> bool) l : existsb (fun x => negb (p x)) l = negb (forallb p l).
Proof. induction l as [|x xs IH]; cbn [existsb forallb]; [reflexivity|]. rewrite IH. destruct (p x); reflexivity. Qed.

Lemma gen_miss_flag rows : miss_flag_Q rows = miss_flag rows.
Proof.
  unfold miss_flag_Q, miss_flag. rewrite gen_gate_keep. rewrite len_filter_all.
  rewrite (existsb_negb_forallb (fun r => is_some (ry r))). reflexivity.
Qed.
