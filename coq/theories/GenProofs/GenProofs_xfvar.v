(* C06 -- the per-partition variance of the cross-fit AIPTW difference measures, regenerated on every run from the `splits`
   branch of aipw_calculator (ZepidGen.Gen_xfvar_Q: per-part aggregate np.var(.., ddof=1) of which elementwise expression,
   np.mean over the parts, divided by the number of rows), is the model Model.Variance.xf_aipw_var; it is non-negative. *)
From Coq Require Import QArith List Bool Lia Lra Lqa.
From Zepid Require Import Base.QSum Base.QUtil Base.QAgg Base.Rows Model.Estimators Model.Variance Proofs.VarianceProofs
     GenProofs.GenProofs_pool.
From ZepidGen Require Import Gen_xfvar_Q.
Import ListNotations.
Open Scope Q_scope.

Lemma Forall2_Qeq_length (l l' : list Q) : Forall2 Qeq l l' -> length l = length l'.
Proof. intros H; induction H; cbn; congruence. Qed.

Lemma Qsum_Forall2 (f g : Q -> Q) l l' : (forall x y, x == y -> f x == g y) -> Forall2 Qeq l l' -> Qsum f l == Qsum g l'.
Proof. intros Hf H. induction H as [|x y xs ys Hxy _ IH]; cbn [Qsum]; [reflexivity|]. rewrite (Hf x y Hxy), IH. reflexivity. Qed.

Lemma Qmean_list_ext l l' : Forall2 Qeq l l' -> Qmean_list l == Qmean_list l'.
Proof.
  intros H. rewrite !Qmean_list_eq. unfold Qlen. rewrite (Forall2_Qeq_length _ _ H).
  rewrite (Qsum_Forall2 (fun x => x) (fun x => x) l l'); [reflexivity| |exact H]. intros x y E; exact E.
Qed.

Lemma var_ddof1_ext l l' : Forall2 Qeq l l' -> var_ddof1 l == var_ddof1 l'.
Proof.
  intros H. rewrite !var_ddof1_eq. unfold Qlen. rewrite (Forall2_Qeq_length _ _ H).
  pose proof (Qmean_list_ext l l' H) as Hm.
  rewrite (Qsum_Forall2 (fun x => (x - Qmean_list l) * (x - Qmean_list l)) (fun x => (x - Qmean_list l') * (x - Qmean_list l')) l l');
    [reflexivity| |exact H].
  intros x y E. rewrite E, Hm. reflexivity.
Qed.

Lemma map_Forall2_ext {A} (f g : A -> Q) l : (forall x, f x == g x) -> Forall2 Qeq (map f l) (map g l).
Proof. intros H. induction l as [|x xs IH]; cbn [map]; constructor; auto. Qed.

Lemma gen_xf_aipw_var est parts n : xf_aipw_var_Q est parts n == xf_aipw_var est parts n.
Proof.
  unfold xf_aipw_var_Q, xf_aipw_var. apply Qdiv_comp; [|reflexivity].
  apply meanq_ext. apply map_Forall2_ext. intros part. unfold xf_part_var.
  apply var_ddof1_ext. apply map_Forall2_ext. intros [y1 y0]. unfold xf_term_Q. cbn [fst snd]. ring.
Qed.

(* the variance of a partition is non-negative when every part has at least two rows and there is at least one part *)
Lemma meanq_nonneg l : Forall (fun x => 0 <= x) l -> l <> [] -> 0 <= meanq l.
Proof.
  intros H Hne. unfold meanq. apply Qle_shift_div_l; [apply Qlen_pos; exact Hne|]. rewrite Qmult_0_l.
  apply Qsum_nonneg. intros x Hx. rewrite Forall_forall in H. exact (H x Hx).
Qed.

Lemma xf_aipw_var_nonneg est parts n : parts <> [] -> Forall (fun p => (2 <= length p)%nat) parts -> 0 < n ->
  0 <= xf_aipw_var est parts n.
Proof.
  intros Hne Hp Hn. unfold xf_aipw_var. apply Qle_shift_div_l; [exact Hn|]. rewrite Qmult_0_l.
  apply meanq_nonneg.
  - rewrite Forall_forall. intros v Hv. apply in_map_iff in Hv. destruct Hv as [p [Ep Hin]]. subst v.
    unfold xf_part_var. apply var_ddof1_nonneg. rewrite map_length. rewrite Forall_forall in Hp. exact (Hp p Hin).
  - destruct parts; [contradiction|discriminate].
Qed.
