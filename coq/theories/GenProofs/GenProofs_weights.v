(* C05 -- the weight formulas translated from zepid/causal/utils.py:iptw_calculator on every run
   (ZepidGen.Gen_weights_Q) equal the docstring specification Spec.WeightSpec.spec_iptw, for every received
   treatment a, every denominator probability d and numerator probability n with the non-zero side conditions
   that make the documented quotient meaningful. *)
From Coq Require Import QArith List Lra Lqa.
From Zepid Require Import Base.QUtil Spec.WeightSpec.
From ZepidGen Require Import Gen_weights_Q.
Import ListNotations.
Open Scope Q_scope.

Ltac wfin := unfold spec_iptw, pr_received, odds; cbv zeta;
  match goal with a : bool |- _ => destruct a end; try reflexivity; field; repeat split; assumption.

Lemma gen_unstab_population a d : ~ d == 0 -> ~ 1 - d == 0 ->
  exists x, iptw_unstab_population_Q a d = [Some x] /\ x == spec_iptw false Population a d 1.
Proof. intros H1 H2. eexists. split; [reflexivity|]. wfin. Qed.

Lemma gen_unstab_exposed a d : ~ 1 - d == 0 ->
  exists x, iptw_unstab_exposed_Q a d = [Some x] /\ x == spec_iptw false Exposed a d 1.
Proof. intros H2. eexists. split; [reflexivity|]. wfin. Qed.

Lemma gen_unstab_unexposed a d : ~ d == 0 ->
  exists x, iptw_unstab_unexposed_Q a d = [Some x] /\ x == spec_iptw false Unexposed a d 1.
Proof. intros H1. eexists. split; [reflexivity|]. wfin. Qed.

Lemma gen_stab_population a d n : ~ d == 0 -> ~ 1 - d == 0 ->
  exists x, iptw_stab_population_Q a d n = [Some x] /\ x == spec_iptw true Population a d n.
Proof. intros H1 H2. eexists. split; [reflexivity|]. wfin. Qed.

Lemma gen_stab_exposed a d n : ~ 1 - d == 0 -> ~ n == 0 ->
  exists x, iptw_stab_exposed_Q a d n = [Some x] /\ x == spec_iptw true Exposed a d n.
Proof. intros H2 H3. eexists. split; [reflexivity|]. wfin. Qed.

Lemma gen_stab_unexposed a d n : ~ d == 0 -> ~ 1 - n == 0 ->
  exists x, iptw_stab_unexposed_Q a d n = [Some x] /\ x == spec_iptw true Unexposed a d n.
Proof. intros H1 H4. eexists. split; [reflexivity|]. wfin. Qed.
