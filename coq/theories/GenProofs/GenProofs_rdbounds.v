(* The two bound expressions translated from RiskDifference.fit (ZepidGen.Gen_rdbounds_Q), evaluated at the
   risks and counts the method feeds them, are the closed-form Manski bounds of Model.RdBounds. *)
From Coq Require Import QArith List Lra Lqa.
From Zepid Require Import Base.QSum Base.QUtil Model.RdBounds Proofs.RdBoundsProofs.
From ZepidGen Require Import Gen_rdbounds_Q.
Import ListNotations.
Open Scope Q_scope.

Lemma gen_lower_is_spec a b c d : 0 < a + b -> 0 < c + d ->
  exists x, rdbounds_fr_lower_Q a b (a + b + c + d) (c / (c + d)) (a / (a + b)) = [Some x] /\
            x == lower_counts a b c d.
Proof.
  intros H1 H2. eexists. split; [reflexivity|]. unfold lower_counts. cbv zeta.
  field. repeat split; apply pos_nz; lra.
Qed.

Lemma gen_upper_is_spec a b c d : 0 < a + b -> 0 < c + d ->
  exists x, rdbounds_fr_upper_Q a b (a + b + c + d) (c / (c + d)) (a / (a + b)) = [Some x] /\
            x == upper_counts a b c d.
Proof.
  intros H1 H2. eexists. split; [reflexivity|]. unfold upper_counts. cbv zeta.
  field. repeat split; apply pos_nz; lra.
Qed.
