(* C06 / C01 / C09 -- the per-row weight IPTW.fit hands to the GEE (df['_ipfw_'], regenerated on every run for the four
   configurations: missing-outcome weights present or not x user weights column given or not) is the model's total weight
   Model.Estimators.total_w = user weight x treatment weight x missingness weight, an absent factor being 1. *)
From Coq Require Import QArith List Lra Lqa.
From Zepid Require Import Base.QSum Base.QUtil Base.Rows Model.Estimators.
From ZepidGen Require Import Gen_wprod_Q.
Import ListNotations.
Open Scope Q_scope.

Definition is_w (g : list (option Q)) (w : Q) : Prop := exists x, g = [Some x] /\ x == w.

Lemma gen_fit_weight_full stab t n c1 c0 r :
  is_w (iptw_fit_weight_ipmw_w_Q (iptw_w stab t n r) (ipmw_w c1 c0 r) (wt r)) (total_w stab t n c1 c0 r).
Proof. eexists; split; [reflexivity|]. unfold total_w. ring. Qed.

Lemma gen_fit_weight_no_user stab t n c1 c0 r junk : wt r == 1 ->
  is_w (iptw_fit_weight_ipmw_now_Q (iptw_w stab t n r) (ipmw_w c1 c0 r) junk) (total_w stab t n c1 c0 r).
Proof. intros H. eexists; split; [reflexivity|]. unfold total_w. rewrite H. ring. Qed.

Lemma gen_fit_weight_no_missing stab t n c1 c0 r junk : ipmw_w c1 c0 r == 1 ->
  is_w (iptw_fit_weight_noipmw_w_Q (iptw_w stab t n r) junk (wt r)) (total_w stab t n c1 c0 r).
Proof. intros H. eexists; split; [reflexivity|]. unfold total_w. rewrite H. ring. Qed.

Lemma gen_fit_weight_plain stab t n c1 c0 r junk1 junk2 : wt r == 1 -> ipmw_w c1 c0 r == 1 ->
  is_w (iptw_fit_weight_noipmw_now_Q (iptw_w stab t n r) junk1 junk2) (total_w stab t n c1 c0 r).
Proof. intros H1 H2. eexists; split; [reflexivity|]. unfold total_w. rewrite H1, H2. ring. Qed.
