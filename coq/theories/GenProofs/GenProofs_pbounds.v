(* C17 -- zepid.calc.utils.probability_bounds as regenerated on every run (ZepidGen.Gen_pbounds_Q: the rejection tests of
   the float and the pair branch and the two masked assignments, per element) is the model Model.Bounds (validate +
   seq_clip1), hence -- by BoundsProofs -- the elementwise clip. *)
From Coq Require Import QArith List Bool Lra Lqa.
From Zepid Require Import Base.QUtil Model.Bounds Proofs.BoundsProofs.
From ZepidGen Require Import Gen_pbounds_Q.
Import ListNotations.
Open Scope Q_scope.

Definition oeq (a b : option Q) : Prop :=
  match a, b with Some x, Some y => x == y | None, None => True | _, _ => False end.

Definition model_elem (s : bspec) (v : Q) : option Q :=
  match validate s with Some (lo, hi) => Some (seq_clip1 lo hi v) | None => None end.

Lemma gen_pb_float b v : oeq (pb_float_Q b v) (model_elem (BFloat b) v).
Proof.
  unfold pb_float_Q, model_elem, validate, seq_clip1, oeq.
  change (0 # 1) with 0. change (1 # 1) with 1.
  destruct (Qlt_bool b 0 || Qlt_bool 1 b); [exact I|]. cbv zeta.
  destruct (Qlt_bool v b); destruct (Qlt_bool (1 - b) _); reflexivity.
Qed.

Lemma gen_pb_pair lo hi v : oeq (pb_pair_Q lo hi v) (model_elem (BPair lo hi) v).
Proof.
  unfold pb_pair_Q, model_elem, validate, seq_clip1, oeq.
  change (0 # 1) with 0. change (1 # 1) with 1.
  destruct (Qlt_bool hi lo); [exact I|].
  destruct (Qlt_bool lo 0); destruct (Qlt_bool 1 hi); cbn [orb]; try exact I. cbv zeta.
  destruct (Qlt_bool v lo); destruct (Qlt_bool hi _); reflexivity.
Qed.

(* consequently, on accepted bounds the translated function is the elementwise clip *)
Lemma gen_pb_float_is_clip b v : 0 <= b -> b <= 1 - b ->
  exists x, pb_float_Q b v = Some x /\ x == clip1 b (1 - b) v.
Proof.
  intros H0 H1. pose proof (gen_pb_float b v) as H. unfold model_elem, validate in H.
  assert (Hb : Qlt_bool b 0 || Qlt_bool 1 b = false).
  { apply orb_false_iff; split; unfold Qlt_bool; apply negb_false_iff; apply Qle_bool_iff; lra. }
  rewrite Hb in H. destruct (pb_float_Q b v) as [x|]; [|contradiction]. exists x. split; [reflexivity|].
  unfold oeq in H. rewrite H. apply seq_clip1_is_clip. exact H1.
Qed.
