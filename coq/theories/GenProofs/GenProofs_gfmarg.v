(* C01 / C09 / C14 -- the marginalisation branches of TimeFixedGFormula.fit and of every Monte-Carlo replicate of
   TimeFixedGFormula.fit_stochastic, regenerated on every run (ZepidGen.Gen_gfmarg_Q: which aggregate, over which rows -- the
   mask on the OBSERVED exposure --, of which columns), are the model Model.Estimators.gf_marginal on the rows'
   (observed exposure, prediction, weight); the unweighted branches are the weighted ones with every weight equal to one. *)
From Coq Require Import QArith List Bool Lra Lqa.
From Zepid Require Import Base.QSum Base.QUtil Base.QAgg Base.Rows Model.Estimators.
From ZepidGen Require Import Gen_gfmarg_Q.
Import ListNotations.
Open Scope Q_scope.

(* rows as the code sees them, for an arbitrary per-row prediction f (qa a: the deterministic plans of fit; the prediction
   at a replicate's random assignment: fit_stochastic) *)
Definition viewf (f : row -> Q) (l : list row) : list (bool * Q * Q) := map (fun r => (trt r, f r, wt r)) l.
Definition view (a : bool) (l : list row) : list (bool * Q * Q) := viewf (qa a) l.
Definition gf_marginal_f (t : target) (f : row -> Q) (l : list row) : Q :=
  Qsum (fun r => wt r * f r) (filter (in_target t) l) / Qsum wt (filter (in_target t) l).
Lemma gf_marginal_is_f t a l : gf_marginal t a l = gf_marginal_f t (qa a) l.
Proof. reflexivity. Qed.

Lemma filter_viewf (p : bool -> bool) f l :
  filter (fun x => p (fst (fst x))) (viewf f l) = viewf f (filter (fun r => p (trt r)) l).
Proof.
  unfold viewf. induction l as [|r rs IH]; cbn [map filter fst]; [reflexivity|].
  destruct (p (trt r)); cbn [map]; rewrite IH; reflexivity.
Qed.
Lemma wsum_viewf f l : Qsum (fun x => snd x * snd (fst x)) (viewf f l) == Qsum (fun r => wt r * f r) l.
Proof. unfold viewf. rewrite Qsum_map. apply Qsum_ext_all. intros r. cbn [fst snd]. reflexivity. Qed.
Lemma wtot_viewf f l : Qsum (fun x => snd x) (viewf f l) == Qsum wt l.
Proof. unfold viewf. rewrite Qsum_map. apply Qsum_ext_all. intros r. reflexivity. Qed.
Lemma psum_viewf f l : Qsum (fun x => snd (fst x)) (viewf f l) == Qsum f l.
Proof. unfold viewf. rewrite Qsum_map. apply Qsum_ext_all. intros r. reflexivity. Qed.
Lemma len_viewf f l : Qlen (viewf f l) = Qlen l.
Proof. unfold Qlen, viewf. rewrite map_length. reflexivity. Qed.
Lemma filter_all l : filter (in_target TAll) l = l.
Proof. induction l as [|r rs IH]; cbn; [reflexivity|rewrite IH; reflexivity]. Qed.

Lemma unit_weights_f t f l : (forall r, In r l -> wt r == 1) ->
  Qsum (fun r => wt r * f r) (filter (in_target t) l) == Qsum f (filter (in_target t) l) /\
  Qsum wt (filter (in_target t) l) == Qlen (filter (in_target t) l).
Proof.
  intros H.
  assert (Hs : forall r, In r (filter (in_target t) l) -> wt r == 1) by (intros r Hr; apply H; apply filter_In in Hr; tauto).
  split.
  - apply Qsum_ext. intros r Hr. rewrite (Hs r Hr). ring.
  - rewrite <- Qsum_one. apply Qsum_ext. intros r Hr. exact (Hs r Hr).
Qed.

(* ---- TimeFixedGFormula.fit *)
Lemma gen_fit_w t f l :
  (match t with TAll => gf_fit_population_w_Q | TExposed => gf_fit_exposed_w_Q | TUnexposed => gf_fit_unexposed_w_Q end) (viewf f l)
  == gf_marginal_f t f l.
Proof.
  unfold gf_marginal_f.
  destruct t; [unfold gf_fit_population_w_Q|unfold gf_fit_exposed_w_Q|unfold gf_fit_unexposed_w_Q]; cbv zeta.
  - rewrite filter_all, wsum_viewf, wtot_viewf. reflexivity.
  - rewrite (filter_viewf (fun b => b) f l), wsum_viewf, wtot_viewf. reflexivity.
  - rewrite (filter_viewf negb f l), wsum_viewf, wtot_viewf. reflexivity.
Qed.

Lemma gen_fit_now t f l : (forall r, In r l -> wt r == 1) ->
  (match t with TAll => gf_fit_population_now_Q | TExposed => gf_fit_exposed_now_Q | TUnexposed => gf_fit_unexposed_now_Q end) (viewf f l)
  == gf_marginal_f t f l.
Proof.
  intros H. unfold gf_marginal_f. destruct (unit_weights_f t f l H) as [E1 E2]. rewrite E1, E2.
  destruct t; [unfold gf_fit_population_now_Q|unfold gf_fit_exposed_now_Q|unfold gf_fit_unexposed_now_Q]; cbv zeta.
  - rewrite filter_all, psum_viewf, len_viewf. reflexivity.
  - rewrite (filter_viewf (fun b => b) f l), psum_viewf, len_viewf. reflexivity.
  - rewrite (filter_viewf negb f l), psum_viewf, len_viewf. reflexivity.
Qed.

Lemma gen_gf_population_w a l : gf_fit_population_w_Q (view a l) == gf_marginal TAll a l.
Proof. exact (gen_fit_w TAll (qa a) l). Qed.
Lemma gen_gf_exposed_w a l : gf_fit_exposed_w_Q (view a l) == gf_marginal TExposed a l.
Proof. exact (gen_fit_w TExposed (qa a) l). Qed.
Lemma gen_gf_unexposed_w a l : gf_fit_unexposed_w_Q (view a l) == gf_marginal TUnexposed a l.
Proof. exact (gen_fit_w TUnexposed (qa a) l). Qed.
Lemma gen_gf_now t a l : (forall r, In r l -> wt r == 1) ->
  (match t with TAll => gf_fit_population_now_Q | TExposed => gf_fit_exposed_now_Q | TUnexposed => gf_fit_unexposed_now_Q end) (view a l)
  == gf_marginal t a l.
Proof. exact (gen_fit_now t (qa a) l). Qed.

(* ---- TimeFixedGFormula.fit_stochastic: every replicate is marginalised in the same way, whatever its predictions f *)
Lemma gen_sto_w t f l :
  (match t with TAll => gf_sto_population_w_Q | TExposed => gf_sto_exposed_w_Q | TUnexposed => gf_sto_unexposed_w_Q end) (viewf f l)
  == gf_marginal_f t f l.
Proof.
  unfold gf_marginal_f.
  destruct t; [unfold gf_sto_population_w_Q|unfold gf_sto_exposed_w_Q|unfold gf_sto_unexposed_w_Q]; cbv zeta.
  - rewrite filter_all, wsum_viewf, wtot_viewf. reflexivity.
  - rewrite (filter_viewf (fun b => b) f l), wsum_viewf, wtot_viewf. reflexivity.
  - rewrite (filter_viewf negb f l), wsum_viewf, wtot_viewf. reflexivity.
Qed.

Lemma gen_sto_now t f l : (forall r, In r l -> wt r == 1) ->
  (match t with TAll => gf_sto_population_now_Q | TExposed => gf_sto_exposed_now_Q | TUnexposed => gf_sto_unexposed_now_Q end) (viewf f l)
  == gf_marginal_f t f l.
Proof.
  intros H. unfold gf_marginal_f. destruct (unit_weights_f t f l H) as [E1 E2]. rewrite E1, E2.
  destruct t; [unfold gf_sto_population_now_Q|unfold gf_sto_exposed_now_Q|unfold gf_sto_unexposed_now_Q]; cbv zeta.
  - rewrite filter_all, psum_viewf, len_viewf. reflexivity.
  - rewrite (filter_viewf (fun b => b) f l), psum_viewf, len_viewf. reflexivity.
  - rewrite (filter_viewf negb f l), psum_viewf, len_viewf. reflexivity.
Qed.

(* a replicate that assigns everybody to a (probability 1 or 0) is marginalised to the deterministic plan's value *)
Corollary gen_sto_degenerate_w t a l :
  (match t with TAll => gf_sto_population_w_Q | TExposed => gf_sto_exposed_w_Q | TUnexposed => gf_sto_unexposed_w_Q end) (view a l)
  == gf_marginal t a l.
Proof. exact (gen_sto_w t (qa a) l). Qed.
Corollary gen_sto_degenerate_now t a l : (forall r, In r l -> wt r == 1) ->
  (match t with TAll => gf_sto_population_now_Q | TExposed => gf_sto_exposed_now_Q | TUnexposed => gf_sto_unexposed_now_Q end) (view a l)
  == gf_marginal t a l.
Proof. exact (gen_sto_now t (qa a) l). Qed.
