(* C01 / C09 / C14 -- the six marginalisation branches of TimeFixedGFormula.fit, regenerated on every run
   (ZepidGen.Gen_gfmarg_Q: which aggregate, over which rows -- the mask on the OBSERVED exposure --, of which columns)
   are the model Model.Estimators.gf_marginal on the rows' (observed exposure, prediction under the plan, weight);
   the unweighted branches are the weighted ones with every weight equal to one. *)
From Coq Require Import QArith List Bool Lra Lqa.
From Zepid Require Import Base.QSum Base.QUtil Base.QAgg Base.Rows Model.Estimators.
From ZepidGen Require Import Gen_gfmarg_Q.
Import ListNotations.
Open Scope Q_scope.

Definition view (a : bool) (l : list row) : list (bool * Q * Q) := map (fun r => (trt r, qa a r, wt r)) l.

Lemma filter_view (p : bool -> bool) a l :
  filter (fun x => p (fst (fst x))) (view a l) = view a (filter (fun r => p (trt r)) l).
Proof.
  unfold view. induction l as [|r rs IH]; cbn [map filter fst]; [reflexivity|].
  destruct (p (trt r)); cbn [map]; rewrite IH; reflexivity.
Qed.

Lemma wsum_view a l : Qsum (fun x => snd x * snd (fst x)) (view a l) == Qsum (fun r => wt r * qa a r) l.
Proof. unfold view. rewrite Qsum_map. apply Qsum_ext_all. intros r. cbn [fst snd]. reflexivity. Qed.
Lemma wtot_view a l : Qsum (fun x => snd x) (view a l) == Qsum wt l.
Proof. unfold view. rewrite Qsum_map. apply Qsum_ext_all. intros r. reflexivity. Qed.
Lemma psum_view a l : Qsum (fun x => snd (fst x)) (view a l) == Qsum (qa a) l.
Proof. unfold view. rewrite Qsum_map. apply Qsum_ext_all. intros r. reflexivity. Qed.
Lemma len_view a l : Qlen (view a l) = Qlen l.
Proof. unfold Qlen, view. rewrite map_length. reflexivity. Qed.

Lemma gen_gf_population_w a l : gf_fit_population_w_Q (view a l) == gf_marginal TAll a l.
Proof.
  unfold gf_fit_population_w_Q, gf_marginal. cbv zeta.
  assert (E : filter (in_target TAll) l = l) by (induction l as [|r rs IH]; cbn; [reflexivity|rewrite IH; reflexivity]).
  rewrite E, wsum_view, wtot_view. reflexivity.
Qed.

Lemma gen_gf_exposed_w a l : gf_fit_exposed_w_Q (view a l) == gf_marginal TExposed a l.
Proof.
  unfold gf_fit_exposed_w_Q, gf_marginal. cbv zeta.
  rewrite (filter_view (fun b => b) a l), wsum_view, wtot_view. reflexivity.
Qed.

Lemma gen_gf_unexposed_w a l : gf_fit_unexposed_w_Q (view a l) == gf_marginal TUnexposed a l.
Proof.
  unfold gf_fit_unexposed_w_Q, gf_marginal. cbv zeta.
  rewrite (filter_view negb a l), wsum_view, wtot_view. reflexivity.
Qed.

(* unweighted branches: np.mean over the same rows = the weighted mean when every weight is one *)
Lemma unit_weights_sum a (s : list row) : (forall r, In r s -> wt r == 1) ->
  Qsum (fun r => wt r * qa a r) s == Qsum (qa a) s /\ Qsum wt s == Qlen s.
Proof.
  intros H. split.
  - apply Qsum_ext. intros r Hr. rewrite (H r Hr). ring.
  - rewrite <- Qsum_one. apply Qsum_ext. intros r Hr. exact (H r Hr).
Qed.

Lemma gen_gf_now t a l : (forall r, In r l -> wt r == 1) ->
  (match t with TAll => gf_fit_population_now_Q | TExposed => gf_fit_exposed_now_Q | TUnexposed => gf_fit_unexposed_now_Q end) (view a l)
  == gf_marginal t a l.
Proof.
  intros H. unfold gf_marginal.
  assert (Hs : forall r, In r (filter (in_target t) l) -> wt r == 1) by (intros r Hr; apply H; apply filter_In in Hr; tauto).
  destruct (unit_weights_sum a _ Hs) as [E1 E2]. rewrite E1, E2.
  destruct t; [unfold gf_fit_population_now_Q|unfold gf_fit_exposed_now_Q|unfold gf_fit_unexposed_now_Q]; cbv zeta.
  - assert (E : filter (in_target TAll) l = l) by (clear; induction l as [|r rs IH]; cbn; [reflexivity|rewrite IH; reflexivity]).
    rewrite E, psum_view, len_view. reflexivity.
  - rewrite (filter_view (fun b => b) a l), psum_view, len_view. reflexivity.
  - rewrite (filter_view negb a l), psum_view, len_view. reflexivity.
Qed.
