(* C06 / C14 -- StochasticTMLE as regenerated on every run (ZepidGen.Gen_stmle_Q / Gen_stmle_R): the clever covariate is the
   model's stmle_haw (same numerator loop as StochasticIPTW, without the user weight); the two variance estimators are the mean
   of the squared influence values (Model.Variance.mean_sq of stmle_ic / stmle_ic_cond); the reported standard error squared is
   that mean over n (stmle_var) and the limits are the Wald interval of Base.Wald for every alpha. *)
From Coq Require Import QArith List Bool Reals Lra.
From Zepid Require Import Base.QSum Base.QUtil Base.QAgg Base.Rows Model.Estimators Model.Variance Model.Stochastic Base.Wald
     GenProofs.Tac.
From ZepidGen Require Import Gen_stmle_Q Gen_stmle_R.
Import ListNotations.

Section Q.
Open Scope Q_scope.

Definition at_row (r : row) (pl : list (cond * Q)) : list (bool * Q) := map (fun cp => (fst cp r, snd cp)) pl.
Definition src_stmle_numer (pl : plan) (r : row) : option Q :=
  match pl with
  | Uncond p => Some (stmle_numer_marginal_Q (trt r) p)
  | Cond cs ps => fold_left (stmle_numer_step_Q (trt r)) (at_row r (combine cs ps)) None
  end.
Definition src_stmle_haw (pl : plan) (r : row) : option Q :=
  match src_stmle_numer pl r with
  | Some nu => Some (stmle_haw_Q nu (stmle_denominator_Q (trt r) (g1 r)))
  | None => None
  end.

Lemma fold_at_row r pl cur :
  fold_left (stmle_numer_step_Q (trt r)) (at_row r pl) cur = fold_left (numer_step r) pl cur.
Proof.
  revert cur. induction pl as [|cp tl IH]; intros cur; cbn [at_row map fold_left]; [reflexivity|].
  fold (at_row r tl). rewrite IH. reflexivity.
Qed.

Lemma gen_stmle_haw pl r : src_stmle_haw pl r = stmle_haw pl r.
Proof.
  unfold src_stmle_haw, stmle_haw.
  assert (E : src_stmle_numer pl r = stoch_numer pl r).
  { destruct pl as [p|cs ps]; [reflexivity|]. unfold src_stmle_numer, stoch_numer, numer_loop. apply fold_at_row. }
  rewrite E. reflexivity.
Qed.

Lemma gen_stmle_marginal_variance rows psi : stmle_marginal_variance_Q rows psi == mean_sq (map (stmle_ic psi) rows).
Proof.
  unfold stmle_marginal_variance_Q, mean_sq. unfold Qlen. rewrite map_length. apply Qdiv_comp; [|reflexivity].
  rewrite Qsum_map. apply Qsum_ext_all. intros r. unfold stmle_ic. ring.
Qed.
Lemma gen_stmle_conditional_variance rows psi : stmle_conditional_variance_Q rows psi == mean_sq (map stmle_ic_cond rows).
Proof.
  unfold stmle_conditional_variance_Q, mean_sq. unfold Qlen. rewrite map_length. apply Qdiv_comp; [|reflexivity].
  rewrite Qsum_map. apply Qsum_ext_all. intros r. unfold stmle_ic_cond. ring.
Qed.
(* hence SE^2 = variance / n is the model's stmle_var *)
Lemma gen_stmle_var rows psi :
  stmle_marginal_variance_Q rows psi / Qlen rows == stmle_var (map (stmle_ic psi) rows).
Proof. unfold stmle_var. rewrite gen_stmle_marginal_variance. unfold Qlen. rewrite map_length. reflexivity. Qed.
End Q.

Section R.
Open Scope R_scope.
Variable zq : R -> R.

Lemma gen_stmle_se v n : 0 <= v -> 0 < n ->
  stmle_marginal_se_R v n * stmle_marginal_se_R v n = v / n /\ stmle_conditional_se_R v n = stmle_marginal_se_R v n /\
  0 <= stmle_marginal_se_R v n.
Proof.
  intros Hv Hn. unfold stmle_marginal_se_R, stmle_conditional_se_R.
  assert (Hs : 0 < sqrt n) by (apply sqrt_lt_R0; exact Hn).
  repeat split.
  - replace (sqrt v / sqrt n * (sqrt v / sqrt n)) with ((sqrt v * sqrt v) / (sqrt n * sqrt n)) by (field; lra).
    rewrite !sqrt_sqrt by lra. reflexivity.
  - apply Rmult_le_pos; [apply sqrt_pos|]. left. apply Rinv_0_lt_compat. exact Hs.
Qed.

Lemma gen_stmle_ci al est se :
  stmle_marginal_ci_R zq al est se = wald_lin zq est se al /\ stmle_conditional_ci_R zq al est se = wald_lin zq est se al.
Proof. unfold stmle_marginal_ci_R, stmle_conditional_ci_R, wald_lin, zcrit. split; req. Qed.
End R.
