(* Tactics used by the theorems about translated (generated) definitions. *)
From Coq Require Import Reals Lra.
Open Scope R_scope.

(* structural equality of real expressions: descend through sqrt/exp/ln/zq and binary operations,
   close rational leaves with field.  Tolerates algebraic rewrites inside the rational leaves. *)
Ltac req :=
  first
    [ reflexivity
    | solve [ field; repeat split; lra ]
    | match goal with
      | |- sqrt _ = sqrt _ => apply f_equal; req
      | |- exp _ = exp _ => apply f_equal; req
      | |- ln _ = ln _ => apply f_equal; req
      | |- ?f ?x = ?f ?y => apply f_equal; req
      | |- ?a + ?b = ?c + ?d => apply f_equal2; req
      | |- ?a - ?b = ?c - ?d => apply f_equal2; req
      | |- ?a * ?b = ?c * ?d => apply f_equal2; req
      | |- ?a / ?b = ?c / ?d => apply f_equal2; req
      | |- (_, _) = (_, _) => apply f_equal2; req
      end ].
