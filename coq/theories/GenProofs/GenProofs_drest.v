(* C01 / C02 -- the point-estimate lines of aipw_calculator and TMLE.fit as regenerated on every run (ZepidGen.Gen_drest_Q) are
   the models of Model.Estimators: the AIPTW difference (weighted or not) is aipw_rd -- over the rows with an observed outcome,
   because y1 - y0 is NaN as soon as one pseudo-outcome is; the AIPTW ratio is aipw_rr WHEN NO OUTCOME IS MISSING (np.nanmean(y1)
   and np.nanmean(y0) are taken over different row sets otherwise: explicit example below); TMLE's plug-ins are tmle_rd / rr / or. *)
From Coq Require Import QArith List Bool Lra Lqa.
From Zepid Require Import Base.QSum Base.QUtil Base.QAgg Base.Rows Model.Estimators.
From ZepidGen Require Import Gen_drest_Q.
Import ListNotations.
Open Scope Q_scope.

(* a row's pseudo-outcome is NaN exactly when its outcome is missing and the row is in that arm (np.where picks the branch that
   contains y) *)
Definition pview (l : list row) : list prow :=
  map (fun r => {| p_y1 := if trt r && negb (obs r) then None else Some (aipw_y1 r);
                   p_y0 := if negb (trt r) && negb (obs r) then None else Some (aipw_y0 r); p_w := wt r |}) l.

Lemma filter_map' {A B} (f : A -> B) (p : B -> bool) l : filter p (map f l) = map f (filter (fun x => p (f x)) l).
Proof. induction l as [|x xs IH]; cbn [map filter]; [reflexivity|]. destruct (p (f x)); cbn [map]; rewrite IH; reflexivity. Qed.

Lemma both_view l : filter (fun r => both r) (pview l) = pview (obs_rows l).
Proof.
  unfold pview, obs_rows. rewrite filter_map'. f_equal. apply filter_ext. intros r. unfold both, has1, has0. cbn.
  destruct (trt r), (obs r); reflexivity.
Qed.

Lemma sum_view_obs (f : prow -> Q) (g : row -> Q) l :
  (forall r, obs r = true -> f {| p_y1 := if trt r && negb (obs r) then None else Some (aipw_y1 r);
                                   p_y0 := if negb (trt r) && negb (obs r) then None else Some (aipw_y0 r); p_w := wt r |} == g r) ->
  Qsum f (pview (obs_rows l)) == Qsum g (obs_rows l).
Proof.
  intros H. unfold pview. rewrite Qsum_map. apply Qsum_ext. intros r Hr. apply H.
  unfold obs_rows in Hr. apply filter_In in Hr. tauto.
Qed.

Lemma gen_aipw_diff_w l : aipw_est_diff_w_Q (pview l) == aipw_rd l.
Proof.
  unfold aipw_est_diff_w_Q, aipw_rd, aipw_mean. rewrite both_view.
  rewrite (sum_view_obs (fun r => p_w r * v1 r) (fun r => wt r * aipw_y1 r)), (sum_view_obs (fun r => p_w r * v0 r) (fun r => wt r * aipw_y0 r)),
          (sum_view_obs (fun r => p_w r) wt); try reflexivity;
    intros r Ho; unfold v1, v0; cbn; rewrite Ho, ?andb_false_r; reflexivity.
Qed.

Lemma gen_aipw_diff_now l : (forall r, In r l -> wt r == 1) -> ~ Qlen (obs_rows l) == 0 -> aipw_est_diff_now_Q (pview l) == aipw_rd l.
Proof.
  intros Hw Hn. unfold aipw_est_diff_now_Q, aipw_rd, aipw_mean. rewrite both_view.
  assert (Hw' : forall r, In r (obs_rows l) -> wt r == 1) by (intros r Hr; apply Hw; unfold obs_rows in Hr; apply filter_In in Hr; tauto).
  rewrite (sum_view_obs (fun r => v1 r - v0 r) (fun r => aipw_y1 r - aipw_y0 r)) by (intros r Ho; unfold v1, v0; cbn; rewrite Ho, ?andb_false_r; reflexivity).
  assert (L : Qlen (pview (obs_rows l)) = Qlen (obs_rows l)) by (unfold Qlen, pview; rewrite map_length; reflexivity). rewrite L.
  assert (E1 : Qsum (fun r => wt r * aipw_y1 r) (obs_rows l) == Qsum aipw_y1 (obs_rows l)) by (apply Qsum_ext; intros r Hr; rewrite (Hw' r Hr); ring).
  assert (E0 : Qsum (fun r => wt r * aipw_y0 r) (obs_rows l) == Qsum aipw_y0 (obs_rows l)) by (apply Qsum_ext; intros r Hr; rewrite (Hw' r Hr); ring).
  assert (EW : Qsum wt (obs_rows l) == Qlen (obs_rows l)) by (rewrite <- Qsum_one; apply Qsum_ext; intros r Hr; exact (Hw' r Hr)).
  rewrite E1, E0, EW, Qsum_minus. field. exact Hn.
Qed.

(* ratio: with every outcome observed both nan-means run over all rows *)
Lemma all_view (p : prow -> bool) l : (forall r, In r l -> obs r = true) -> (forall x, has1 x && has0 x = true -> p x = true) ->
  filter p (pview l) = pview l.
Proof.
  intros Ho Hp. unfold pview. rewrite filter_map'. f_equal.
  induction l as [|r rs IH]; cbn [filter]; [reflexivity|].
  rewrite Hp; [rewrite IH; [reflexivity|intros x Hx; apply Ho; right; exact Hx]|].
  unfold has1, has0. cbn. rewrite (Ho r (or_introl eq_refl)), !andb_false_r. reflexivity.
Qed.
Lemma obs_all l : (forall r, In r l -> obs r = true) -> obs_rows l = l.
Proof.
  intros H. unfold obs_rows. induction l as [|r rs IH]; cbn [filter]; [reflexivity|].
  rewrite (H r (or_introl eq_refl)), IH; [reflexivity|intros x Hx; apply H; right; exact Hx].
Qed.
Lemma sum_view_all (f : prow -> Q) (g : row -> Q) l : (forall r, In r l -> obs r = true) ->
  (forall r, obs r = true -> f {| p_y1 := if trt r && negb (obs r) then None else Some (aipw_y1 r);
                                   p_y0 := if negb (trt r) && negb (obs r) then None else Some (aipw_y0 r); p_w := wt r |} == g r) ->
  Qsum f (pview l) == Qsum g l.
Proof. intros Ho H. unfold pview. rewrite Qsum_map. apply Qsum_ext. intros r Hr. apply H. exact (Ho r Hr). Qed.

Lemma gen_aipw_ratio_w l : (forall r, In r l -> obs r = true) -> aipw_est_ratio_w_Q (pview l) == aipw_rr l.
Proof.
  intros Ho. unfold aipw_est_ratio_w_Q, aipw_rr, aipw_mean.
  rewrite (all_view (fun r => has1 r) l Ho) by (intros x H; apply andb_prop in H; tauto).
  rewrite (all_view (fun r => has0 r) l Ho) by (intros x H; apply andb_prop in H; tauto).
  rewrite (obs_all l Ho).
  rewrite (sum_view_all (fun r => p_w r * v1 r) (fun r => wt r * aipw_y1 r) l Ho), (sum_view_all (fun r => p_w r * v0 r) (fun r => wt r * aipw_y0 r) l Ho),
          (sum_view_all (fun r => p_w r) wt l Ho); try reflexivity;
    intros r Hr; unfold v1, v0; cbn; rewrite Hr, ?andb_false_r; reflexivity.
Qed.

Lemma gen_aipw_ratio_now l : (forall r, In r l -> obs r = true) -> (forall r, In r l -> wt r == 1) ->
  aipw_est_ratio_now_Q (pview l) == aipw_rr l.
Proof.
  intros Ho Hw. unfold aipw_est_ratio_now_Q, aipw_rr, aipw_mean.
  rewrite (all_view (fun r => has1 r) l Ho) by (intros x H; apply andb_prop in H; tauto).
  rewrite (all_view (fun r => has0 r) l Ho) by (intros x H; apply andb_prop in H; tauto).
  rewrite (obs_all l Ho).
  rewrite (sum_view_all (fun r => v1 r) aipw_y1 l Ho), (sum_view_all (fun r => v0 r) aipw_y0 l Ho);
    try (intros r Hr; unfold v1, v0; cbn; rewrite Hr, ?andb_false_r; reflexivity).
  assert (L : Qlen (pview l) = Qlen l) by (unfold Qlen, pview; rewrite map_length; reflexivity). rewrite L.
  assert (E1 : Qsum (fun r => wt r * aipw_y1 r) l == Qsum aipw_y1 l) by (apply Qsum_ext; intros r Hr; rewrite (Hw r Hr); ring).
  assert (E0 : Qsum (fun r => wt r * aipw_y0 r) l == Qsum aipw_y0 l) by (apply Qsum_ext; intros r Hr; rewrite (Hw r Hr); ring).
  assert (EW : Qsum wt l == Qlen l) by (rewrite <- Qsum_one; apply Qsum_ext; intros r Hr; exact (Hw r Hr)).
  rewrite E1, E0, EW. reflexivity.
Qed.

(* with a missing outcome the ratio line averages y1 and y0 over DIFFERENT rows (observed + the other arm's missing rows), so it
   is not the ratio of the two means whose difference the difference line reports: three rows, one missing *)
Definition ratio_example : list row :=
  [ {| st := 0; trt := true;  yv := Some 1; wt := 1; g1 := 1 # 2; q1 := 1 # 2; q0 := 1 # 4; m1 := 1; m0 := 1 |};
    {| st := 0; trt := false; yv := Some 1; wt := 1; g1 := 1 # 2; q1 := 1 # 2; q0 := 1 # 4; m1 := 1; m0 := 1 |};
    {| st := 0; trt := false; yv := None;   wt := 1; g1 := 1 # 2; q1 := 3 # 4; q0 := 1 # 4; m1 := 1; m0 := 1 |} ].
Lemma aipw_ratio_missing_differs : ~ aipw_est_ratio_now_Q (pview ratio_example) == aipw_rr ratio_example.
Proof. intros H. apply Qeq_bool_iff in H. vm_compute in H. discriminate. Qed.

(* ---- TMLE.fit plug-ins *)
Definition tview (l : list row) : list (Q * Q) := map (fun r => (q1 r, q0 r)) l.
Lemma tsum1 l : Qsum (fun r : Q * Q => fst r) (tview l) == Qsum (qa true) l.
Proof. unfold tview. rewrite Qsum_map. apply Qsum_ext_all. intros r. reflexivity. Qed.
Lemma tsum0 l : Qsum (fun r : Q * Q => snd r) (tview l) == Qsum (qa false) l.
Proof. unfold tview. rewrite Qsum_map. apply Qsum_ext_all. intros r. reflexivity. Qed.
Lemma tlen l : Qlen (tview l) = Qlen l.
Proof. unfold Qlen, tview. rewrite map_length. reflexivity. Qed.

Lemma gen_tmle_est l : ~ Qlen l == 0 ->
  tmle_est_rd_Q (tview l) == tmle_rd l /\ tmle_est_ate_Q (tview l) == tmle_rd l /\
  tmle_est_rr_Q (tview l) == tmle_rr l /\ tmle_est_or_Q (tview l) == tmle_or l.
Proof.
  intros Hn. unfold tmle_est_rd_Q, tmle_est_ate_Q, tmle_est_rr_Q, tmle_est_or_Q, tmle_rd, tmle_rr, tmle_or, tmle_mean, odds.
  rewrite !tlen, !tsum1, !tsum0.
  assert (E : Qsum (fun r : Q * Q => fst r - snd r) (tview l) == Qsum (qa true) l - Qsum (qa false) l).
  { rewrite Qsum_minus, tsum1, tsum0. reflexivity. }
  rewrite E. repeat split; try reflexivity; field; exact Hn.
Qed.
