(* C06 -- cross-fit pooling: the function regenerated on every run from
   zepid.causal.doublyrobust.crossfit.calculate_joint_estimate (ZepidGen.Gen_pool_Q: which numpy aggregate each `method`
   takes, and the elementwise term whose aggregate is the pooled variance) is the model Model.Variance.pool, for all
   lists of partition estimates and variances.  Aggregates respect ==, so an algebraic rewrite of the term still proves. *)
From Coq Require Import QArith List Bool Lia Lqa.
From Zepid Require Import Base.QSum Base.QUtil Base.QAgg Base.Rows Model.Estimators Model.Variance.
From ZepidGen Require Import Gen_pool_Q.
Import ListNotations.
Open Scope Q_scope.

Lemma Qle_bool_compat x x' y y' : x == x' -> y == y' -> Qle_bool x y = Qle_bool x' y'.
Proof.
  intros Hx Hy. destruct (Qle_bool x y) eqn:E; symmetry.
  - apply Qle_bool_iff. apply Qle_bool_iff in E. rewrite <- Hx, <- Hy. exact E.
  - destruct (Qle_bool x' y') eqn:E'; [|reflexivity]. apply Qle_bool_iff in E'. rewrite <- Hx, <- Hy in E'.
    apply Qle_bool_iff in E'. congruence.
Qed.

Lemma insertq_ext x x' l l' : x == x' -> Forall2 Qeq l l' -> Forall2 Qeq (insertq x l) (insertq x' l').
Proof.
  intros Hx H. induction H as [|y y' ys ys' Hy Hys IH]; cbn [insertq].
  - constructor; [exact Hx|constructor].
  - rewrite (Qle_bool_compat x x' y y' Hx Hy). destruct (Qle_bool x' y').
    + constructor; [exact Hx|]. constructor; assumption.
    + constructor; [exact Hy|exact IH].
Qed.

Lemma sortq_ext l l' : Forall2 Qeq l l' -> Forall2 Qeq (sortq l) (sortq l').
Proof.
  intros H. induction H as [|y y' ys ys' Hy Hys IH]; cbn [sortq fold_right]; [constructor|].
  apply insertq_ext; assumption.
Qed.

Lemma nth_ext n l l' : Forall2 Qeq l l' -> nth n l 0 == nth n l' 0.
Proof.
  intros H. revert n. induction H as [|y y' ys ys' Hy Hys IH]; intros [|n]; cbn [nth]; try reflexivity; auto.
Qed.

Lemma Forall2_length_q (l l' : list Q) : Forall2 Qeq l l' -> length l = length l'.
Proof. intros H; induction H; cbn; congruence. Qed.

Lemma median_ext l l' : Forall2 Qeq l l' -> median l == median l'.
Proof.
  intros H. unfold median. cbv zeta. pose proof (sortq_ext l l' H) as Hs.
  rewrite (Forall2_length_q _ _ Hs). destruct (Nat.even (length (sortq l'))).
  - rewrite (nth_ext _ _ _ Hs), (nth_ext (length (sortq l') / 2) _ _ Hs). reflexivity.
  - apply nth_ext; exact Hs.
Qed.

Lemma meanq_ext l l' : Forall2 Qeq l l' -> meanq l == meanq l'.
Proof.
  intros H. unfold meanq, Qlen. rewrite (Forall2_length_q _ _ H).
  assert (Hsum : Qsum (fun x => x) l == Qsum (fun x => x) l').
  { induction H as [|y y' ys ys' Hy Hys IH]; cbn [Qsum]; [reflexivity|]. rewrite Hy, IH. reflexivity. }
  rewrite Hsum. reflexivity.
Qed.

Lemma map_terms_ext (f g : Q * Q -> Q) l : (forall pv, f pv == g pv) -> Forall2 Qeq (map f l) (map g l).
Proof. intros H. induction l as [|x xs IH]; cbn [map]; constructor; auto. Qed.

Lemma gen_pool_median pts vars :
  fst (pool_median_Q pts vars) = fst (pool true pts vars) /\ snd (pool_median_Q pts vars) == snd (pool true pts vars).
Proof.
  unfold pool_median_Q, pool. cbv zeta. cbn [fst snd]. split; [reflexivity|].
  apply median_ext. apply map_terms_ext. intros [p v]. unfold pool_median_term_Q. cbn [fst snd]. ring.
Qed.

Lemma gen_pool_mean pts vars :
  fst (pool_mean_Q pts vars) = fst (pool false pts vars) /\ snd (pool_mean_Q pts vars) == snd (pool false pts vars).
Proof.
  unfold pool_mean_Q, pool. cbv zeta. cbn [fst snd]. split; [reflexivity|].
  apply meanq_ext. apply map_terms_ext. intros [p v]. unfold pool_mean_term_Q. cbn [fst snd]. ring.
Qed.
