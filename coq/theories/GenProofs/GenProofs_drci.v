(* C06 -- the confidence limits of AIPTW.fit and TMLE.fit as regenerated on every run (ZepidGen.Gen_drci_R) ARE the Wald
   intervals of Base.Wald at the reported estimate and standard error, for every alpha -- except that TMLE.fit replaces the
   quantile by the literal 1.96 when alpha == 0.05, which is a Wald interval iff the quantile function returns exactly 1.96
   there (the recorded finding TMLE.*.z196). *)
From Coq Require Import Reals Lra.
From Zepid Require Import Base.Wald GenProofs.Tac.
From ZepidGen Require Import Gen_drci_R.
Open Scope R_scope.

Section DrCi.
Variable zq : R -> R.

Lemma gen_aiptw_ate al est v : aiptw_ci_ate_R zq al est v = wald_lin zq est (sqrt v) al.
Proof. unfold aiptw_ci_ate_R, wald_lin, zcrit. req. Qed.
Lemma gen_aiptw_rd al est v : aiptw_ci_rd_R zq al est v = wald_lin zq est (sqrt v) al.
Proof. unfold aiptw_ci_rd_R, wald_lin, zcrit. req. Qed.
Lemma gen_aiptw_rr al est se : aiptw_ci_rr_R zq al est se = wald_log zq est se al.
Proof. unfold aiptw_ci_rr_R, wald_log, zcrit. req. Qed.

Lemma gen_tmle_ate al est se : tmle_ci_ate_R zq al est se = wald_lin zq est se al.
Proof. unfold tmle_ci_ate_R, wald_lin, zcrit. req. Qed.
Lemma gen_tmle_rd al est se : tmle_ci_rd_R zq al est se = wald_lin zq est se al.
Proof. unfold tmle_ci_rd_R, wald_lin, zcrit. req. Qed.
Lemma gen_tmle_rr al est se : tmle_ci_rr_R zq al est se = wald_log zq est se al.
Proof. unfold tmle_ci_rr_R, wald_log, zcrit. req. Qed.
Lemma gen_tmle_or al est se : tmle_ci_or_R zq al est se = wald_log zq est se al.
Proof. unfold tmle_ci_or_R, wald_log, zcrit. req. Qed.

(* the special case at alpha = 0.05 *)
Lemma gen_tmle_rd_at005 est se : se <> 0 ->
  (tmle_ci_rd_at005_R est se = wald_lin zq est se (5 / 100) <-> zcrit zq (5 / 100) = 196 / 100).
Proof.
  intros Hse. unfold tmle_ci_rd_at005_R, wald_lin. split.
  - intros H. injection H as H1 _.
    assert (E : IZR 49 / IZR 25 * se = zcrit zq (5 / 100) * se) by lra.
    apply Rmult_eq_reg_r in E; [|exact Hse]. lra.
  - intros H. rewrite H. f_equal; lra.
Qed.
End DrCi.
