(* C16 / C02 / C17 -- zepid.causal.generalize.estimators as regenerated on every run (ZepidGen.Gen_gener_Q) IS Model.Generalize:
   the sampling weight of IPSW.sampling_model / AIPSW.sampling_model in each configuration is samp_w (inverse probability for
   generalize, inverse odds for transport; truncation applied to the denominator always and to the numerator exactly when it
   is a fitted probability), the total weight of .fit is tot_w, the arm risks of IPSW.fit are ipsw_risk on the rows with
   selection == 1, the per-row terms and aggregates of AIPSW.fit are aipsw_risk, and the four averaging branches of
   GTransportFormula.fit are gt_risk over the stated target rows (all rows / the rows with selection == 0). *)
From Coq Require Import QArith List Bool Lra Lqa.
From Zepid Require Import Base.QSum Base.QUtil Base.QAgg Base.Rows Model.Estimators Model.Generalize.
From ZepidGen Require Import Gen_gener_Q.
Import ListNotations.
Open Scope Q_scope.

(* ---- sampling weights *)
Definition src_ipsw_samp (gn stab : bool) : Q -> Q -> Q :=
  match gn, stab with
  | true, true => ipsw_samp_gen_stab_Q | true, false => ipsw_samp_gen_unstab_Q
  | false, true => ipsw_samp_trn_stab_Q | false, false => ipsw_samp_trn_unstab_Q
  end.
Definition src_ipsw_samp_b (gn stab : bool) : (Q -> Q) -> Q -> Q -> Q :=
  match gn, stab with
  | true, true => ipsw_samp_gen_stab_b_Q | true, false => ipsw_samp_gen_unstab_b_Q
  | false, true => ipsw_samp_trn_stab_b_Q | false, false => ipsw_samp_trn_unstab_b_Q
  end.
Definition src_aipsw_samp (gn stab : bool) : bool -> Q -> Q -> Q :=
  match gn, stab with
  | true, true => aipsw_samp_gen_stab_Q | true, false => aipsw_samp_gen_unstab_Q
  | false, true => aipsw_samp_trn_stab_Q | false, false => aipsw_samp_trn_unstab_Q
  end.

Lemma gen_ipsw_samp gn stab n d : src_ipsw_samp gn stab n d == samp_w gn stab n d.
Proof. destruct gn, stab; reflexivity. Qed.

(* with bound=...: the fitted probabilities are truncated BEFORE the weight is formed; an unstabilised weight has no
   fitted numerator and depends on the truncated denominator only *)
Lemma gen_ipsw_samp_bounded gn stab pb n d :
  src_ipsw_samp_b gn stab pb n d == samp_w gn stab (if stab then pb n else n) (pb d).
Proof. destruct gn, stab; reflexivity. Qed.
Lemma gen_ipsw_samp_unstab_ignores_numerator gn pb n n' d :
  src_ipsw_samp_b gn false pb n d == src_ipsw_samp_b gn false pb n' d.
Proof. destruct gn; reflexivity. Qed.

Lemma gen_aipsw_samp_sampled gn stab n d : src_aipsw_samp gn stab true n d == samp_w gn stab n d.
Proof. destruct gn, stab; reflexivity. Qed.
(* outside the study sample the weight is 0 except for unstabilised transport, where the rows are excluded by the mask of
   AIPSW.fit instead (gen_aipsw_fit below does not depend on the weight of a non-sampled row) *)
Lemma gen_aipsw_samp_outside gn stab n d : (gn = true \/ stab = true) -> src_aipsw_samp gn stab false n d == 0.
Proof.
  intros H. destruct gn, stab; try (destruct H; discriminate);
    unfold src_aipsw_samp, aipsw_samp_gen_stab_Q, aipsw_samp_gen_unstab_Q, aipsw_samp_trn_stab_Q, Qdiv; ring.
Qed.

Lemma gen_sample_keeps s : ipsw_sample_keeps_Q s = s /\ aipsw_sample_keeps_Q s = s.
Proof. split; reflexivity. Qed.

(* ---- total weight of fit *)
Lemma gen_ipsw_fit_ipw c r w :
  (if rx c then ipsw_fit_ipw_iptw_now_Q else ipsw_fit_ipw_noiptw_now_Q)
     (samp_w (gen c) (stabS c) (nS c) (ps r)) (trt_w true (stabA c) (nA c) (ga r) (pa r)) w == tot_w c r /\
  (if rx c then ipsw_fit_ipw_iptw_w_Q else ipsw_fit_ipw_noiptw_w_Q)
     (samp_w (gen c) (stabS c) (nS c) (ps r)) (trt_w true (stabA c) (nA c) (ga r) (pa r)) w == tot_w c r * w.
Proof.
  unfold tot_w. destruct (rx c);
    unfold ipsw_fit_ipw_iptw_now_Q, ipsw_fit_ipw_noiptw_now_Q, ipsw_fit_ipw_iptw_w_Q, ipsw_fit_ipw_noiptw_w_Q, trt_w; split; ring.
Qed.
Lemma gen_aipsw_fit_ipw c r w :
  (if rx c then aipsw_fit_ipw_iptw_now_Q else aipsw_fit_ipw_noiptw_now_Q)
     (samp_w (gen c) (stabS c) (nS c) (ps r)) (trt_w true (stabA c) (nA c) (ga r) (pa r)) w == tot_w c r /\
  (if rx c then aipsw_fit_ipw_iptw_w_Q else aipsw_fit_ipw_noiptw_w_Q)
     (samp_w (gen c) (stabS c) (nS c) (ps r)) (trt_w true (stabA c) (nA c) (ga r) (pa r)) w == tot_w c r * w.
Proof.
  unfold tot_w. destruct (rx c);
    unfold aipsw_fit_ipw_iptw_now_Q, aipsw_fit_ipw_noiptw_now_Q, aipsw_fit_ipw_iptw_w_Q, aipsw_fit_ipw_noiptw_w_Q, trt_w; split; ring.
Qed.

(* ---- IPSW.fit *)
Lemma filter_map {A B} (f : A -> B) (p : B -> bool) l : filter p (map f l) = map f (filter (fun x => p (f x)) l).
Proof. induction l as [|x xs IH]; cbn [map filter]; [reflexivity|]. destruct (p (f x)); cbn [map]; rewrite IH; reflexivity. Qed.

Definition sview (c : gcfg) (l : list grow) : list scol :=
  map (fun r => {| sc_a := ga r; sc_y := gy r; sc_ipw := tot_w c r |}) (filter (fun r => ipsw_sample_keeps_Q (smp r)) l).

Lemma arm_sum (a : bool) (f : grow -> Q) l :
  Qsum f (filter (fun r => if a then ga r else negb (ga r)) (filter (fun r => ipsw_sample_keeps_Q (smp r)) l))
  == Qsum (fun r => ind (smp r) * ind (g_arm a r) * f r) l.
Proof.
  rewrite !Qsum_filter_ind. apply Qsum_ext_all. intros r. unfold ipsw_sample_keeps_Q, g_arm, ind.
  destruct a, (smp r), (ga r); cbn; ring.
Qed.

Lemma gen_ipsw_fit_risk c (a : bool) l : (if a then ipsw_fit_r1_Q else ipsw_fit_r0_Q) (sview c l) == ipsw_risk c a l.
Proof.
  unfold ipsw_risk, ipsw_num, ipsw_den, sview.
  destruct a; [unfold ipsw_fit_r1_Q|unfold ipsw_fit_r0_Q]; cbv zeta; rewrite filter_map; cbn [sc_a]; rewrite !Qsum_map; cbn [sc_ipw sc_y].
  - apply Qdiv_comp.
    + rewrite (arm_sum true (fun r => tot_w c r * gy r) l). apply Qsum_ext_all. intros r. ring.
    + rewrite (arm_sum true (fun r => tot_w c r) l). reflexivity.
  - apply Qdiv_comp.
    + rewrite (arm_sum false (fun r => tot_w c r * gy r) l). apply Qsum_ext_all. intros r. ring.
    + rewrite (arm_sum false (fun r => tot_w c r) l). reflexivity.
Qed.

(* ---- AIPSW.fit: the weight column may hold anything outside the study sample (NaN in the code): the mask selects 0 there *)
Definition aview (c : gcfg) (junk : grow -> Q) (l : list grow) : list acol :=
  map (fun r => {| ac_s := aipsw_sample_keeps_Q (smp r); ac_a := ga r; ac_S := ind (smp r); ac_y := gy r;
                   ac_ipw := if smp r then tot_w c r else junk r; ac_q1 := gq1 r; ac_q0 := gq0 r |}) l.

Lemma len_map {A B} (f : A -> B) l : Qlen (map f l) = Qlen l.
Proof. unfold Qlen. rewrite map_length. reflexivity. Qed.

Lemma gen_aipsw_fit c junk a l :
  (match gen c, a with
   | true, true => aipsw_fit_gen_r1_Q | true, false => aipsw_fit_gen_r0_Q
   | false, true => aipsw_fit_trn_r1_Q | false, false => aipsw_fit_trn_r0_Q end) (aview c junk l) == aipsw_risk c a l.
Proof.
  unfold aipsw_risk, aview. destruct (gen c) eqn:Eg, a;
    [unfold aipsw_fit_gen_r1_Q|unfold aipsw_fit_gen_r0_Q|unfold aipsw_fit_trn_r1_Q|unfold aipsw_fit_trn_r0_Q];
    rewrite ?len_map, !Qsum_map; cbn [ac_s ac_a ac_S ac_y ac_ipw ac_q1 ac_q0]; apply Qdiv_comp.
  all: try (rewrite <- Qsum_one).
  all: apply Qsum_ext_all; intros r; unfold aug, in_tgt, gqa, aipsw_sample_keeps_Q, g_arm, ind;
    destruct (smp r), (ga r); cbn; ring.
Qed.

(* ---- GTransportFormula.fit *)
Definition tview (w : grow -> Q) (l : list grow) : list tcol :=
  map (fun r => {| tc_s := smp r; tc_q1 := gq1 r; tc_q0 := gq0 r; tc_w := w r |}) l.
Definition gt_risk_w (w : grow -> Q) (gn a : bool) (l : list grow) : Q :=
  Qsum (fun r => ind (in_tgt gn r) * (w r * gqa a r)) l / Qsum (fun r => ind (in_tgt gn r) * w r) l.
Lemma gt_risk_w_unit gn a l : gt_risk_w (fun _ => 1) gn a l == gt_risk gn a l.
Proof. unfold gt_risk_w, gt_risk. apply Qdiv_comp; apply Qsum_ext_all; intros r; ring. Qed.

Lemma filter_true {A} (l : list A) : filter (fun _ => true) l = l.
Proof. induction l as [|x xs IH]; cbn; [reflexivity|rewrite IH; reflexivity]. Qed.

Lemma gen_gt_fit_weighted w gn a l :
  (match gn, a with
   | true, true => gt_fit_gen_w_r1_Q | true, false => gt_fit_gen_w_r0_Q
   | false, true => gt_fit_trn_w_r1_Q | false, false => gt_fit_trn_w_r0_Q end) (tview w l) == gt_risk_w w gn a l.
Proof.
  unfold gt_risk_w, tview. destruct gn, a;
    [unfold gt_fit_gen_w_r1_Q|unfold gt_fit_gen_w_r0_Q|unfold gt_fit_trn_w_r1_Q|unfold gt_fit_trn_w_r0_Q]; cbv zeta;
    rewrite ?filter_map; cbn [tc_s]; rewrite !Qsum_map; cbn [tc_w tc_q1 tc_q0]; rewrite ?Qsum_filter_ind;
    apply Qdiv_comp; apply Qsum_ext_all; intros r; unfold in_tgt, gqa, ind; destruct (smp r); cbn; ring.
Qed.

Lemma gen_gt_fit_unweighted w gn a l :
  (match gn, a with
   | true, true => gt_fit_gen_now_r1_Q | true, false => gt_fit_gen_now_r0_Q
   | false, true => gt_fit_trn_now_r1_Q | false, false => gt_fit_trn_now_r0_Q end) (tview w l) == gt_risk gn a l.
Proof.
  unfold gt_risk, tview. destruct gn, a;
    [unfold gt_fit_gen_now_r1_Q|unfold gt_fit_gen_now_r0_Q|unfold gt_fit_trn_now_r1_Q|unfold gt_fit_trn_now_r0_Q]; cbv zeta;
    rewrite ?filter_map; cbn [tc_s]; rewrite ?len_map, <- ?Qsum_ind_count, ?Qsum_map; cbn [tc_q1 tc_q0]; rewrite ?Qsum_filter_ind;
    apply Qdiv_comp; try (rewrite <- Qsum_one); apply Qsum_ext_all; intros r; unfold in_tgt, gqa, ind; destruct (smp r); cbn; ring.
Qed.
