(* Theorems about the definitions translated from zepid/calc/utils.py (ZepidGen.Gen_calc_R), stated
   against textbook right-hand sides.  All real arguments (hence all counts). *)
From Coq Require Import Reals Lra.
From Zepid Require Import Base.Wald GenProofs.Tac.
From ZepidGen Require Import Gen_calc_R.
Open Scope R_scope.

Definition p4_1 {A B C D} (t : A * B * C * D) : A := fst (fst (fst t)).
Definition p4_2 {A B C D} (t : A * B * C * D) : B := snd (fst (fst t)).
Definition p4_3 {A B C D} (t : A * B * C * D) : C := snd (fst t).
Definition p4_4 {A B C D} (t : A * B * C * D) : D := snd t.

Section Calc.
Variable zq : R -> R.

(* textbook definitions *)
Definition RR a b c d := (a / (a + b)) / (c / (c + d)).
Definition RD a b c d := a / (a + b) - c / (c + d).
Definition OR a b c d := (a * d) / (b * c).
Definition IRR a c t1 t2 := (a / t1) / (c / t2).
Definition IRD a c t1 t2 := a / t1 - c / t2.
Definition ACR a b c d := (a + c) / (a + b + c + d) - c / (c + d).
Definition PAF a b c d := ((a + c) / (a + b + c + d) - c / (c + d)) / ((a + c) / (a + b + c + d)).
Definition var_lnRR a b c d := 1 / a - 1 / (a + b) + 1 / c - 1 / (c + d).
Definition var_RD a b c d :=
  (a / (a + b)) * (1 - a / (a + b)) / (a + b) + (c / (c + d)) * (1 - c / (c + d)) / (c + d).
Definition var_lnOR a b c d := 1 / a + 1 / b + 1 / c + 1 / d.
Definition var_lnIRR (a c : R) := 1 / a + 1 / c.
Definition var_IRD a c t1 t2 := a / (t1 * t1) + c / (t2 * t2).
Definition var_risk e t := (e / t) * (1 - e / t) / t.
Definition var_risk_hyper e t := e * (t - e) / (t * t * (t - 1)).
Definition var_IR (e t : R) := e / (t * t).

Definition pos4 (a b c d : R) := 0 < a /\ 0 < b /\ 0 < c /\ 0 < d.

Ltac open_def f := unfold f, p4_1, p4_2, p4_3, p4_4; cbv zeta; cbn [fst snd].
Ltac pos := unfold pos4 in *; repeat match goal with H : _ /\ _ |- _ => destruct H end.

(* ---------------------------------------------------------------- risk ratio *)
Lemma rr_point a b c d al : pos4 a b c d -> p4_1 (risk_ratio_R zq a b c d al) = RR a b c d.
Proof. intros H. open_def risk_ratio_R. unfold RR. pos; req. Qed.
Lemma rr_sd a b c d al : pos4 a b c d -> p4_4 (risk_ratio_R zq a b c d al) = sqrt (var_lnRR a b c d).
Proof. intros H. open_def risk_ratio_R. unfold var_lnRR. pos; req. Qed.
Lemma rr_ci a b c d al : pos4 a b c d ->
  (p4_2 (risk_ratio_R zq a b c d al), p4_3 (risk_ratio_R zq a b c d al)) =
  wald_log zq (p4_1 (risk_ratio_R zq a b c d al)) (p4_4 (risk_ratio_R zq a b c d al)) al.
Proof. intros H. open_def risk_ratio_R. unfold wald_log, zcrit. pos; req. Qed.
Lemma rr_guard a b c d al : risk_ratio_guard_R a b c d al <-> pos4 a b c d.
Proof. unfold risk_ratio_guard_R, pos4. tauto. Qed.

(* ---------------------------------------------------------------- risk difference *)
Lemma rd_point a b c d al : pos4 a b c d -> p4_1 (risk_difference_R zq a b c d al) = RD a b c d.
Proof. intros H. open_def risk_difference_R. unfold RD. pos; req. Qed.
Lemma rd_sd a b c d al : pos4 a b c d -> p4_4 (risk_difference_R zq a b c d al) = sqrt (var_RD a b c d).
Proof. intros H. open_def risk_difference_R. unfold var_RD. pos; req. Qed.
Lemma rd_ci a b c d al : pos4 a b c d ->
  (p4_2 (risk_difference_R zq a b c d al), p4_3 (risk_difference_R zq a b c d al)) =
  wald_lin zq (p4_1 (risk_difference_R zq a b c d al)) (p4_4 (risk_difference_R zq a b c d al)) al.
Proof. intros H. open_def risk_difference_R. unfold wald_lin, zcrit. pos; req. Qed.
Lemma rd_guard a b c d al : risk_difference_guard_R a b c d al <-> pos4 a b c d.
Proof. unfold risk_difference_guard_R, pos4. tauto. Qed.

(* ---------------------------------------------------------------- odds ratio *)
Lemma or_point a b c d al : pos4 a b c d -> p4_1 (odds_ratio_R zq a b c d al) = OR a b c d.
Proof. intros H. open_def odds_ratio_R. unfold OR. pos; req. Qed.
Lemma or_sd a b c d al : pos4 a b c d -> p4_4 (odds_ratio_R zq a b c d al) = sqrt (var_lnOR a b c d).
Proof. intros H. open_def odds_ratio_R. unfold var_lnOR. pos; req. Qed.
Lemma or_ci a b c d al : pos4 a b c d ->
  (p4_2 (odds_ratio_R zq a b c d al), p4_3 (odds_ratio_R zq a b c d al)) =
  wald_log zq (p4_1 (odds_ratio_R zq a b c d al)) (p4_4 (odds_ratio_R zq a b c d al)) al.
Proof. intros H. open_def odds_ratio_R. unfold wald_log, zcrit. pos; req. Qed.
Lemma or_guard a b c d al : odds_ratio_guard_R a b c d al <-> pos4 a b c d.
Proof. unfold odds_ratio_guard_R, pos4. tauto. Qed.

(* ---------------------------------------------------------------- NNT *)
Lemma nnt_point a b c d al : pos4 a b c d -> RD a b c d <> 0 ->
  p4_1 (number_needed_to_treat_R zq a b c d al) = Some (1 / RD a b c d).
Proof.
  intros H Hne. open_def number_needed_to_treat_R. unfold RD in *.
  destruct (Req_EM_T _ 0) as [e|ne]; [exfalso; apply Hne; rewrite <- e; pos; req|].
  apply f_equal. pos; req.
Qed.
Lemma nnt_point_inf a b c d al : pos4 a b c d -> RD a b c d = 0 ->
  p4_1 (number_needed_to_treat_R zq a b c d al) = None.
Proof.
  intros H He. open_def number_needed_to_treat_R. unfold RD in *.
  destruct (Req_EM_T _ 0) as [e|ne]; [reflexivity|]. exfalso; apply ne. rewrite <- He. pos; req.
Qed.
(* the limits are the reciprocals of the risk-difference limits (None = infinity when a limit is 0) *)
Definition inv_opt (x : R) : option R := if Req_EM_T x 0 then None else Some (1 / x).
Lemma nnt_limits a b c d al : pos4 a b c d ->
  p4_2 (number_needed_to_treat_R zq a b c d al) = inv_opt (p4_2 (risk_difference_R zq a b c d al)) /\
  p4_3 (number_needed_to_treat_R zq a b c d al) = inv_opt (p4_3 (risk_difference_R zq a b c d al)) /\
  p4_4 (number_needed_to_treat_R zq a b c d al) = p4_4 (risk_difference_R zq a b c d al).
Proof.
  intros H. open_def number_needed_to_treat_R. open_def risk_difference_R. unfold inv_opt.
  repeat split; reflexivity.
Qed.
Lemma nnt_guard a b c d al : number_needed_to_treat_guard_R a b c d al <-> pos4 a b c d.
Proof. unfold number_needed_to_treat_guard_R, pos4. tauto. Qed.

(* ---------------------------------------------------------------- incidence rates *)
Lemma irr_point a c t1 t2 al : 0 < a -> 0 < c -> 0 < t1 -> 0 < t2 ->
  p4_1 (incidence_rate_ratio_R zq a c t1 t2 al) = IRR a c t1 t2.
Proof. intros. open_def incidence_rate_ratio_R. unfold IRR. req. Qed.
Lemma irr_sd a c t1 t2 al : 0 < a -> 0 < c ->
  p4_4 (incidence_rate_ratio_R zq a c t1 t2 al) = sqrt (var_lnIRR a c).
Proof. intros. open_def incidence_rate_ratio_R. unfold var_lnIRR. req. Qed.
Lemma irr_ci a c t1 t2 al :
  (p4_2 (incidence_rate_ratio_R zq a c t1 t2 al), p4_3 (incidence_rate_ratio_R zq a c t1 t2 al)) =
  wald_log zq (p4_1 (incidence_rate_ratio_R zq a c t1 t2 al)) (p4_4 (incidence_rate_ratio_R zq a c t1 t2 al)) al.
Proof. open_def incidence_rate_ratio_R. unfold wald_log, zcrit. req. Qed.
Lemma irr_guard a c t1 t2 al : incidence_rate_ratio_guard_R a c t1 t2 al <-> (0 < a /\ 0 < c /\ 0 <= t2 /\ 0 <= t1).
Proof. unfold incidence_rate_ratio_guard_R. tauto. Qed.

Lemma ird_point a c t1 t2 al : 0 < t1 -> 0 < t2 ->
  p4_1 (incidence_rate_difference_R zq a c t1 t2 al) = IRD a c t1 t2.
Proof. intros. open_def incidence_rate_difference_R. unfold IRD. req. Qed.
Lemma ird_sd a c t1 t2 al : 0 < t1 -> 0 < t2 ->
  p4_4 (incidence_rate_difference_R zq a c t1 t2 al) = sqrt (var_IRD a c t1 t2).
Proof. intros. open_def incidence_rate_difference_R. unfold var_IRD. req. Qed.
Lemma ird_ci a c t1 t2 al :
  (p4_2 (incidence_rate_difference_R zq a c t1 t2 al), p4_3 (incidence_rate_difference_R zq a c t1 t2 al)) =
  wald_lin zq (p4_1 (incidence_rate_difference_R zq a c t1 t2 al)) (p4_4 (incidence_rate_difference_R zq a c t1 t2 al)) al.
Proof. open_def incidence_rate_difference_R. unfold wald_lin, zcrit. req. Qed.
Lemma ird_guard a c t1 t2 al : incidence_rate_difference_guard_R a c t1 t2 al <-> (0 < a /\ 0 < c /\ 0 <= t2 /\ 0 <= t1).
Proof. unfold incidence_rate_difference_guard_R. tauto. Qed.

(* ---------------------------------------------------------------- ACR, PAF *)
Lemma acr_point a b c d : pos4 a b c d -> attributable_community_risk_R a b c d = ACR a b c d.
Proof. intros H. unfold attributable_community_risk_R, ACR. cbv zeta. pos; req. Qed.
Lemma paf_point a b c d : pos4 a b c d -> population_attributable_fraction_R a b c d = PAF a b c d.
Proof. intros H. unfold population_attributable_fraction_R, PAF. cbv zeta. pos; req. Qed.
Lemma acr_guard a b c d : attributable_community_risk_guard_R a b c d <-> pos4 a b c d.
Proof. unfold attributable_community_risk_guard_R, pos4. tauto. Qed.
Lemma paf_guard a b c d : population_attributable_fraction_guard_R a b c d <-> pos4 a b c d.
Proof. unfold population_attributable_fraction_guard_R, pos4. tauto. Qed.

(* ---------------------------------------------------------------- risk / incidence rate with CI *)
Lemma risk_wald_point e t al : p4_1 (risk_ci_wald_R zq e t al) = e / t.
Proof. open_def risk_ci_wald_R. req. Qed.
Lemma risk_wald_sd e t al : 0 < t -> p4_4 (risk_ci_wald_R zq e t al) = sqrt (var_risk e t).
Proof. intros. open_def risk_ci_wald_R. unfold var_risk. req. Qed.
Lemma risk_wald_ci e t al :
  (p4_2 (risk_ci_wald_R zq e t al), p4_3 (risk_ci_wald_R zq e t al)) =
  wald_lin zq (p4_1 (risk_ci_wald_R zq e t al)) (p4_4 (risk_ci_wald_R zq e t al)) al.
Proof. open_def risk_ci_wald_R. unfold wald_lin, zcrit. req. Qed.
Lemma risk_hyper_sd e t al : 0 < t -> 1 < t -> p4_4 (risk_ci_hypergeometric_R zq e t al) = sqrt (var_risk_hyper e t).
Proof. intros. open_def risk_ci_hypergeometric_R. unfold var_risk_hyper. req. Qed.
Lemma risk_hyper_ci e t al :
  (p4_2 (risk_ci_hypergeometric_R zq e t al), p4_3 (risk_ci_hypergeometric_R zq e t al)) =
  wald_lin zq (p4_1 (risk_ci_hypergeometric_R zq e t al)) (p4_4 (risk_ci_hypergeometric_R zq e t al)) al.
Proof. open_def risk_ci_hypergeometric_R. unfold wald_lin, zcrit. req. Qed.
Lemma ir_point e t al : p4_1 (incidence_rate_ci_R zq e t al) = e / t.
Proof. open_def incidence_rate_ci_R. req. Qed.
Lemma ir_sd e t al : 0 < t -> p4_4 (incidence_rate_ci_R zq e t al) = sqrt (var_IR e t).
Proof. intros. open_def incidence_rate_ci_R. unfold var_IR. req. Qed.
Lemma ir_ci e t al :
  (p4_2 (incidence_rate_ci_R zq e t al), p4_3 (incidence_rate_ci_R zq e t al)) =
  wald_lin zq (p4_1 (incidence_rate_ci_R zq e t al)) (p4_4 (incidence_rate_ci_R zq e t al)) al.
Proof. open_def incidence_rate_ci_R. unfold wald_lin, zcrit. req. Qed.
Lemma sens_ci e t al :
  (p4_2 (sensitivity_wald_R zq e t al), p4_3 (sensitivity_wald_R zq e t al)) =
  wald_lin zq (p4_1 (sensitivity_wald_R zq e t al)) (p4_4 (sensitivity_wald_R zq e t al)) al.
Proof. open_def sensitivity_wald_R. unfold wald_lin, zcrit. req. Qed.
Lemma spec_ci e t al :
  (p4_2 (specificity_wald_R zq e t al), p4_3 (specificity_wald_R zq e t al)) =
  wald_lin zq (p4_1 (specificity_wald_R zq e t al)) (p4_4 (specificity_wald_R zq e t al)) al.
Proof. open_def specificity_wald_R. unfold wald_lin, zcrit. req. Qed.

(* ---------------------------------------------------------------- symmetries *)
Lemma RD_swap a b c d : RD c d a b = - RD a b c d.
Proof. unfold RD. lra. Qed.
Lemma var_RD_swap a b c d : var_RD c d a b = var_RD a b c d.
Proof. unfold var_RD. lra. Qed.
Lemma RR_swap a b c d : pos4 a b c d -> RR c d a b = / RR a b c d.
Proof. intros H. unfold RR. pos. field; repeat split; lra. Qed.
Lemma var_lnRR_swap a b c d : var_lnRR c d a b = var_lnRR a b c d.
Proof. unfold var_lnRR. lra. Qed.
Lemma OR_swap a b c d : pos4 a b c d -> OR c d a b = / OR a b c d.
Proof. intros H. unfold OR. pos. field; repeat split; lra. Qed.
Lemma var_lnOR_swap a b c d : var_lnOR c d a b = var_lnOR a b c d.
Proof. unfold var_lnOR. lra. Qed.
Lemma OR_transpose a b c d : pos4 a b c d -> OR a c b d = OR a b c d.
Proof. intros H. unfold OR. pos. field; repeat split; lra. Qed.
Lemma var_lnOR_transpose a b c d : var_lnOR a c b d = var_lnOR a b c d.
Proof. unfold var_lnOR. lra. Qed.
Lemma IRR_swap a c t1 t2 : 0 < a -> 0 < c -> 0 < t1 -> 0 < t2 -> IRR c a t2 t1 = / IRR a c t1 t2.
Proof. intros. unfold IRR. field; repeat split; lra. Qed.
Lemma IRD_swap a c t1 t2 : IRD c a t2 t1 = - IRD a c t1 t2.
Proof. unfold IRD. lra. Qed.
Lemma var_lnIRR_swap a c : var_lnIRR c a = var_lnIRR a c.
Proof. unfold var_lnIRR. lra. Qed.
Lemma var_IRD_swap a c t1 t2 : var_IRD c a t2 t1 = var_IRD a c t1 t2.
Proof. unfold var_IRD. lra. Qed.

(* swapping the exposure groups through the translated functions themselves *)
Lemma rd_swap_groups a b c d al : pos4 a b c d ->
  p4_1 (risk_difference_R zq c d a b al) = - p4_1 (risk_difference_R zq a b c d al) /\
  p4_4 (risk_difference_R zq c d a b al) = p4_4 (risk_difference_R zq a b c d al).
Proof.
  intros H. assert (H' : pos4 c d a b) by (unfold pos4 in *; tauto).
  rewrite !rd_point, !rd_sd by assumption. rewrite RD_swap, var_RD_swap. split; reflexivity.
Qed.
Lemma rr_swap_groups a b c d al : pos4 a b c d ->
  p4_1 (risk_ratio_R zq c d a b al) = / p4_1 (risk_ratio_R zq a b c d al) /\
  p4_4 (risk_ratio_R zq c d a b al) = p4_4 (risk_ratio_R zq a b c d al).
Proof.
  intros H. assert (H' : pos4 c d a b) by (unfold pos4 in *; tauto).
  rewrite !rr_point, !rr_sd by assumption. rewrite RR_swap, var_lnRR_swap by assumption. split; reflexivity.
Qed.
Lemma or_swap_groups a b c d al : pos4 a b c d ->
  p4_1 (odds_ratio_R zq c d a b al) = / p4_1 (odds_ratio_R zq a b c d al) /\
  p4_4 (odds_ratio_R zq c d a b al) = p4_4 (odds_ratio_R zq a b c d al).
Proof.
  intros H. assert (H' : pos4 c d a b) by (unfold pos4 in *; tauto).
  rewrite !or_point, !or_sd by assumption. rewrite OR_swap, var_lnOR_swap by assumption. split; reflexivity.
Qed.
Lemma or_transpose a b c d al : pos4 a b c d ->
  p4_1 (odds_ratio_R zq a c b d al) = p4_1 (odds_ratio_R zq a b c d al) /\
  p4_4 (odds_ratio_R zq a c b d al) = p4_4 (odds_ratio_R zq a b c d al).
Proof.
  intros H. assert (H' : pos4 a c b d) by (unfold pos4 in *; tauto).
  rewrite !or_point, !or_sd by assumption. rewrite OR_transpose, var_lnOR_transpose by assumption. split; reflexivity.
Qed.
Lemma irr_swap_groups a c t1 t2 al : 0 < a -> 0 < c -> 0 < t1 -> 0 < t2 ->
  p4_1 (incidence_rate_ratio_R zq c a t2 t1 al) = / p4_1 (incidence_rate_ratio_R zq a c t1 t2 al) /\
  p4_4 (incidence_rate_ratio_R zq c a t2 t1 al) = p4_4 (incidence_rate_ratio_R zq a c t1 t2 al).
Proof.
  intros. rewrite !irr_point, !irr_sd by assumption. rewrite IRR_swap, var_lnIRR_swap by assumption. split; reflexivity.
Qed.
Lemma ird_swap_groups a c t1 t2 al : 0 < t1 -> 0 < t2 ->
  p4_1 (incidence_rate_difference_R zq c a t2 t1 al) = - p4_1 (incidence_rate_difference_R zq a c t1 t2 al) /\
  p4_4 (incidence_rate_difference_R zq c a t2 t1 al) = p4_4 (incidence_rate_difference_R zq a c t1 t2 al).
Proof.
  intros. rewrite !ird_point, !ird_sd by assumption. rewrite IRD_swap, var_IRD_swap. split; reflexivity.
Qed.

(* the point estimates do not depend on alpha *)
Lemma points_indep_alpha a b c d al al' : pos4 a b c d ->
  p4_1 (risk_ratio_R zq a b c d al) = p4_1 (risk_ratio_R zq a b c d al') /\
  p4_1 (risk_difference_R zq a b c d al) = p4_1 (risk_difference_R zq a b c d al') /\
  p4_1 (odds_ratio_R zq a b c d al) = p4_1 (odds_ratio_R zq a b c d al') /\
  p4_4 (risk_ratio_R zq a b c d al) = p4_4 (risk_ratio_R zq a b c d al') /\
  p4_4 (risk_difference_R zq a b c d al) = p4_4 (risk_difference_R zq a b c d al') /\
  p4_4 (odds_ratio_R zq a b c d al) = p4_4 (odds_ratio_R zq a b c d al').
Proof. intros H. rewrite !rr_point, !rd_point, !or_point, !rr_sd, !rd_sd, !or_sd by assumption. tauto. Qed.

(* the variances under the square roots are non-negative, so sd is a genuine standard error *)
Lemma var_lnRR_nonneg a b c d : pos4 a b c d -> 0 <= var_lnRR a b c d.
Proof.
  intros H. unfold var_lnRR. pos.
  assert (1 / (a + b) <= 1 / a).
  { unfold Rdiv. rewrite !Rmult_1_l. apply Rinv_le_contravar; lra. }
  assert (1 / (c + d) <= 1 / c).
  { unfold Rdiv. rewrite !Rmult_1_l. apply Rinv_le_contravar; lra. }
  lra.
Qed.
Lemma var_lnOR_pos a b c d : pos4 a b c d -> 0 < var_lnOR a b c d.
Proof.
  intros H. unfold var_lnOR. pos.
  assert (0 < 1 / a) by (apply Rdiv_lt_0_compat; lra).
  assert (0 < 1 / b) by (apply Rdiv_lt_0_compat; lra).
  assert (0 < 1 / c) by (apply Rdiv_lt_0_compat; lra).
  assert (0 < 1 / d) by (apply Rdiv_lt_0_compat; lra). lra.
Qed.
Lemma var_RD_nonneg a b c d : pos4 a b c d -> 0 <= var_RD a b c d.
Proof.
  intros H. unfold var_RD. pos.
  assert (Ha : 0 <= (a / (a + b)) * (1 - a / (a + b)) / (a + b)).
  { replace ((a / (a + b)) * (1 - a / (a + b)) / (a + b)) with (a * b / ((a + b) * (a + b) * (a + b))) by (field; lra).
    apply Rlt_le, Rdiv_lt_0_compat; [apply Rmult_lt_0_compat; lra|repeat apply Rmult_lt_0_compat; lra]. }
  assert (Hc : 0 <= (c / (c + d)) * (1 - c / (c + d)) / (c + d)).
  { replace ((c / (c + d)) * (1 - c / (c + d)) / (c + d)) with (c * d / ((c + d) * (c + d) * (c + d))) by (field; lra).
    apply Rlt_le, Rdiv_lt_0_compat; [apply Rmult_lt_0_compat; lra|repeat apply Rmult_lt_0_compat; lra]. }
  lra.
Qed.

End Calc.
