(* C06 -- crossfit.tmle_calculator and the clever covariates of crossfit.targeting_step as regenerated on every run
   (ZepidGen.Gen_xftmle_Q): the point estimates are the plug-ins, the risk-difference / ATE and the odds-ratio variances ARE the
   influence-curve variances of Model.Variance (per part, ddof 1, mean over the parts, over n), whose influence values are the
   expressions of TMLE.fit; the risk-ratio variance is NOT (explicit witness) -- it is xf_tmle_var_rr_code, in which the centred
   prediction is not divided by the mean. *)
From Coq Require Import QArith List Bool Lia Lra Lqa.
From Zepid Require Import Base.QSum Base.QUtil Base.QAgg Base.Rows Model.Estimators Model.Variance Proofs.VarianceProofs
     GenProofs.GenProofs_pool GenProofs.GenProofs_xfvar.
From ZepidGen Require Import Gen_xftmle_Q.
Import ListNotations.
Open Scope Q_scope.

Lemma over_parts_ext (f g : list xrow -> Q) parts n : (forall p, f p == g p) ->
  meanq (map f parts) / n == xf_over_parts g parts n.
Proof. intros H. unfold xf_over_parts. apply Qdiv_comp; [|reflexivity]. apply meanq_ext. apply map_Forall2_ext. exact H. Qed.

Lemma gen_xf_tmle_est all :
  xf_tmle_est_rd_Q all = xf_tmle_est_rd all /\ xf_tmle_est_rr_Q all = xf_tmle_est_rr all /\ xf_tmle_est_or_Q all = xf_tmle_est_or all.
Proof. repeat split; reflexivity. Qed.

Lemma gen_xf_tmle_var_rd est parts n : xf_tmle_var_rd_Q est parts n == xf_tmle_var_rd est parts n.
Proof.
  unfold xf_tmle_var_rd_Q, xf_tmle_var_rd. apply over_parts_ext. intros p. unfold xf_tmle_part_var_rd_Q.
  apply var_ddof1_ext. apply map_Forall2_ext. intros r. unfold xf_ic_rd. ring.
Qed.

Lemma gen_xf_tmle_var_or est parts n : xf_tmle_var_or_Q est parts n == xf_tmle_var_or parts n.
Proof.
  unfold xf_tmle_var_or_Q, xf_tmle_var_or. apply over_parts_ext. intros p. unfold xf_tmle_part_var_or_Q. cbv zeta.
  apply var_ddof1_ext. apply map_Forall2_ext. intros r. unfold xf_ic_or, Qdiv. ring.
Qed.

Lemma gen_xf_tmle_var_rr_is_code est parts n : xf_tmle_var_rr_Q est parts n == xf_tmle_var_rr_code parts n.
Proof.
  unfold xf_tmle_var_rr_Q, xf_tmle_var_rr_code. apply over_parts_ext. intros p. unfold xf_tmle_part_var_rr_Q. cbv zeta.
  apply var_ddof1_ext. apply map_Forall2_ext. intros r. unfold xf_ic_rr_code, Qdiv. ring.
Qed.

(* two rows, one part: the risk-ratio variance the source computes differs from the influence-curve variance *)
Definition rr_witness : list (list xrow) :=
  [[ {| x_y := 1; x_q1 := 1 # 2; x_q0 := 1 # 4; x_qa := 1 # 2; x_h1 := 2; x_h0 := 0; x_ha := 2 |};
     {| x_y := 0; x_q1 := 1 # 4; x_q0 := 1 # 4; x_qa := 1 # 4; x_h1 := 0; x_h0 := (-2); x_ha := (-2) |} ]].
Lemma gen_xf_tmle_var_rr_refuted : exists parts n est, 0 < n /\ ~ xf_tmle_var_rr_Q est parts n == xf_tmle_var_rr parts n.
Proof.
  exists rr_witness, 2, 0. split; [reflexivity|]. intros H. apply Qeq_bool_iff in H. vm_compute in H. discriminate.
Qed.

(* the influence values of the model are those of TMLE.fit (the tmle_ic definitions) on a row with an observed outcome *)
Definition to_x (r : row) : xrow :=
  {| x_y := yval r; x_q1 := q1 r; x_q0 := q0 r; x_qa := qs r; x_h1 := h1 r; x_h0 := h0 r; x_ha := h1 r + h0 r |}.
Lemma xf_ic_is_tmle_ic est m1 m0 r : obs r = true ->
  tmle_ic_rd est r = Some (xf_ic_rd est (to_x r)) /\ tmle_ic_rr m1 m0 r = Some (xf_ic_rr m1 m0 (to_x r)) /\
  tmle_ic_or m1 m0 r = Some (xf_ic_or m1 m0 (to_x r)).
Proof. intros H. unfold tmle_ic_rd, tmle_ic_rr, tmle_ic_or. rewrite H. repeat split; reflexivity. Qed.

(* crossfit.targeting_step: clever covariates as in TMLE.fit *)
Lemma gen_xf_targeting (a : bool) pa1 pa0 h1w h0w pya pyn :
  xf_ts_h1w_Q a pa1 == ind a / pa1 /\ xf_ts_h0w_Q a pa0 == - (1 - ind a) / pa0 /\
  xf_ts_haw_Q a h0w h1w == h1w + h0w /\ xf_ts_py_o_Q a pya pyn == (if a then pya else pyn).
Proof.
  unfold xf_ts_h1w_Q, xf_ts_h0w_Q, xf_ts_haw_Q, xf_ts_py_o_Q, ind, Qdiv. destruct a; repeat split; ring.
Qed.

(* non-negativity: at least one part, every part at least two rows *)
Lemma xf_over_parts_nonneg pv parts n : (forall p, In p parts -> 0 <= pv p) -> parts <> [] -> 0 < n ->
  0 <= xf_over_parts pv parts n.
Proof.
  intros Hp Hne Hn. unfold xf_over_parts. apply Qle_shift_div_l; [exact Hn|]. rewrite Qmult_0_l. apply meanq_nonneg.
  - rewrite Forall_forall. intros v Hv. apply in_map_iff in Hv. destruct Hv as [p [Ep Hin]]. subst v. exact (Hp p Hin).
  - destruct parts; [contradiction|discriminate].
Qed.
Lemma xf_tmle_var_nonneg est parts n : parts <> [] -> Forall (fun p => (2 <= length p)%nat) parts -> 0 < n ->
  0 <= xf_tmle_var_rd est parts n /\ 0 <= xf_tmle_var_rr parts n /\ 0 <= xf_tmle_var_or parts n /\ 0 <= xf_tmle_var_rr_code parts n.
Proof.
  intros Hne Hp Hn. rewrite Forall_forall in Hp.
  repeat split; apply xf_over_parts_nonneg; try assumption; intros p Hin; apply var_ddof1_nonneg; rewrite map_length; exact (Hp p Hin).
Qed.
