(* C20 -- what SuperLearner.fit does with the nnls output and what SuperLearner.predict combines, as regenerated on every run
   (ZepidGen.Gen_slcoef_Q), IS Model.SuperLearner: threshold at sqrt(eps), normalisation by the sum, one-hot overwrite at the
   argmax for the discrete learner, the refit decision, the L2 cross-validated error, the zeroed columns and the dot product
   of predict.  Hence the convexity theorems of the model are theorems about the coefficients the source computes. *)
From Coq Require Import QArith ZArith List Bool Arith Lra Lqa.
From Zepid Require Import Base.QUtil Base.QSum Base.QAgg Model.Bounds Model.SuperLearner Proofs.SuperLearnerProofs.
From ZepidGen Require Import Gen_slcoef_Q.
Import ListNotations.
Open Scope Q_scope.

Lemma gen_sl_threshold raw : map sl_threshold_elem_Q raw = threshold raw.
Proof. reflexivity. Qed.

Definition src_coefficients (raw : list Q) : option (list Q) :=
  let t := map sl_threshold_elem_Q raw in
  if Qeq_bool (Qsum (fun x => x) t) 0 then None (* 0/0: NaN coefficients *) else Some (sl_normalise_Q t).

Lemma gen_sl_normalise raw : src_coefficients raw = normalise raw.
Proof. reflexivity. Qed.

Lemma gen_sl_discrete m sel : map (fun i => sl_discrete_elem_Q i sel) (seq 0 m) = one_hot m sel.
Proof. reflexivity. Qed.

Lemma gen_sl_refit discrete norm c :
  retained_of discrete norm c = if discrete then sl_discrete_refit_Q c (argmax norm) else sl_refit_Q (nth c norm 0).
Proof.
  unfold retained_of, sl_discrete_refit_Q, sl_refit_Q. destruct discrete.
  - destruct (c =? argmax norm)%nat; reflexivity.
  - destruct (Qlt_bool 0 (nth c norm 0)); reflexivity.
Qed.

Lemma gen_sl_cv_error y p : sl_cv_error_l2_Q y p = cv_error_l2 y p.
Proof. reflexivity. Qed.

Lemma dot_swap (a b : list Q) :
  Qsum (fun vc : Q * Q => fst vc * snd vc) (combine a b) == Qsum (fun cv : Q * Q => fst cv * snd cv) (combine b a).
Proof.
  revert b. induction a as [|x a IH]; intros [|y b]; cbn [combine Qsum]; try reflexivity.
  cbn [fst snd]. rewrite (IH b). ring.
Qed.

Lemma gen_sl_used coefs preds :
  map (fun cp => sl_used_pred_Q (fst cp) (snd cp)) (combine coefs preds) = used_preds coefs preds.
Proof. reflexivity. Qed.

Lemma gen_sl_predict coefs preds :
  sl_dot_Q (map (fun cp => sl_used_pred_Q (fst cp) (snd cp)) (combine coefs preds)) coefs == sl_predict_l2 coefs preds.
Proof. rewrite gen_sl_used. unfold sl_dot_Q, sl_predict_l2, lincomb. apply dot_swap. Qed.

(* the coefficients the source stores are convex weights (or NaN exactly when every nnls coefficient is below the threshold) *)
Lemma src_coefficients_convex raw c : src_coefficients raw = Some c ->
  length c = length raw /\ Forall (fun x => 0 <= x) c /\ Qtotal c == 1.
Proof. rewrite gen_sl_normalise. apply coef_convex. Qed.
