(* Theorems about the lines of TMLE.fit translated on every run (ZepidGen.Gen_tmle_R): clever covariates,
   targeting update, back-transformation; plus uniqueness of the root of the efficient score in epsilon. *)
From Coq Require Import Reals Lra Psatz List.
From Zepid Require Import Base.Expit.
From ZepidGen Require Import Gen_tmle_R.
Import ListNotations.
Open Scope R_scope.

Definition indR (b : bool) : R := if b then 1 else 0.

(* the clever covariates are A/g1 and -(1-A)/g0 *)
Lemma clever_covariates a g1 g0 :
  tmle_H1W_R a g1 = indR a / g1 /\ tmle_H0W_R a g0 = - (1 - indR a) / g0.
Proof. unfold tmle_H1W_R, tmle_H0W_R, indR. destruct a; split; unfold Rdiv; ring. Qed.

(* the hand-computed Qstar1/Qstar0 and the prediction of the fluctuation model (offset logit Q_A plus
   epsilon . (H1W, H0W)) are the same function on the rows of the respective arm: a flipped sign or a swapped
   epsilon index in either place breaks this *)
Lemma update_consistent_treated q1 e0 e1 g1 g0 :
  expit (logit q1 + (e0 * tmle_H1W_R true g1 + e1 * tmle_H0W_R true g0)) = tmle_Qstar1_R q1 e0 g1.
Proof.
  unfold tmle_H1W_R, tmle_H0W_R, tmle_Qstar1_R, logit. f_equal. unfold Rdiv. ring.
Qed.
Lemma update_consistent_untreated q0 e0 e1 g1 g0 :
  expit (logit q0 + (e0 * tmle_H1W_R false g1 + e1 * tmle_H0W_R false g0)) = tmle_Qstar0_R q0 e1 g0.
Proof.
  unfold tmle_H1W_R, tmle_H0W_R, tmle_Qstar0_R, logit. f_equal. unfold Rdiv. ring.
Qed.

(* targeted predictions of a binary outcome stay strictly inside (0,1) whatever epsilon and g are *)
Lemma qstar_range q e g : 0 < tmle_Qstar1_R q e g < 1 /\ 0 < tmle_Qstar0_R q e g < 1.
Proof. unfold tmle_Qstar1_R, tmle_Qstar0_R. split; apply expit_range. Qed.

(* epsilon = 0 leaves the initial predictions untouched *)
Lemma qstar_eps0 q g : 0 < q -> q < 1 -> tmle_Qstar1_R q 0 g = q /\ tmle_Qstar0_R q 0 g = q.
Proof.
  intros H0 H1. unfold tmle_Qstar1_R, tmle_Qstar0_R.
  replace (ln (q / (IZR 1 - q)) + 0 / g) with (logit q) by (unfold logit, Rdiv; ring).
  replace (ln (q / (IZR 1 - q)) - 0 / g) with (logit q) by (unfold logit, Rdiv; ring).
  split; apply expit_logit; assumption.
Qed.

(* back-transformed continuous predictions stay within the observed outcome range *)
Lemma unbound_range ystar mini maxi : 0 <= ystar -> ystar <= 1 -> mini <= maxi ->
  mini <= tmle_unit_unbound_R ystar mini maxi <= maxi.
Proof.
  intros H0 H1 Hm. unfold tmle_unit_unbound_R.
  assert (0 <= ystar * (maxi - mini)) by (apply Rmult_le_pos; lra).
  assert (ystar * (maxi - mini) <= 1 * (maxi - mini)) by (apply Rmult_le_compat_r; lra).
  lra.
Qed.
Lemma unbound_range_strict q e g mini maxi : mini <= maxi ->
  mini <= tmle_unit_unbound_R (tmle_Qstar1_R q e g) mini maxi <= maxi.
Proof.
  intros Hm. destruct (qstar_range q e g) as [[A B] _]. apply unbound_range; lra.
Qed.

(* ---- uniqueness of the root of the efficient score in epsilon (one-parameter sub-model of an arm):
   rows are (h, l, y) = clever covariate, logit of the initial prediction, outcome *)
Definition score_term (eps : R) (r : R * R * R) : R :=
  let '(h, l, y) := r in h * (y - expit (l + eps * h)).
Fixpoint score (eps : R) (rows : list (R * R * R)) : R :=
  match rows with [] => 0 | r :: rs => score_term eps r + score eps rs end.

Lemma term_antitone e1 e2 r : e1 <= e2 -> score_term e2 r <= score_term e1 r.
Proof.
  intros He. destruct r as [[h l] y]. unfold score_term.
  destruct (Rlt_le_dec h 0) as [Hn|Hp].
  - assert (H : l + e2 * h <= l + e1 * h) by nra.
    pose proof (expit_mono _ _ H) as M. nra.
  - assert (H : l + e1 * h <= l + e2 * h) by nra.
    pose proof (expit_mono _ _ H) as M. nra.
Qed.
Lemma term_strict e1 e2 r : e1 < e2 -> fst (fst r) <> 0 -> score_term e2 r < score_term e1 r.
Proof.
  intros He. destruct r as [[h l] y]. simpl. intros Hh. unfold score_term.
  destruct (Rlt_le_dec h 0) as [Hn|Hp].
  - assert (H : l + e2 * h < l + e1 * h) by nra.
    pose proof (expit_incr _ _ H) as M. nra.
  - assert (Hpos : 0 < h) by lra.
    assert (H : l + e1 * h < l + e2 * h) by nra.
    pose proof (expit_incr _ _ H) as M. nra.
Qed.
Lemma score_antitone e1 e2 rows : e1 <= e2 -> score e2 rows <= score e1 rows.
Proof. intros He. induction rows as [|r rs IH]; simpl; [lra|]. pose proof (term_antitone e1 e2 r He). lra. Qed.
Lemma score_strict e1 e2 rows : e1 < e2 -> (exists r, In r rows /\ fst (fst r) <> 0) -> score e2 rows < score e1 rows.
Proof.
  intros He [r [Hin Hh]]. induction rows as [|x xs IH]; [contradiction|]. simpl.
  destruct Hin as [->|Hin].
  - pose proof (term_strict e1 e2 r He Hh). pose proof (score_antitone e1 e2 xs (Rlt_le _ _ He)). lra.
  - pose proof (term_antitone e1 e2 x (Rlt_le _ _ He)). specialize (IH Hin). lra.
Qed.
Theorem score_root_unique e1 e2 rows : (exists r, In r rows /\ fst (fst r) <> 0) ->
  score e1 rows = 0 -> score e2 rows = 0 -> e1 = e2.
Proof.
  intros Hex H1 H2. destruct (Rtotal_order e1 e2) as [Hlt|[Heq|Hgt]]; [|exact Heq|].
  - pose proof (score_strict e1 e2 rows Hlt Hex). lra.
  - pose proof (score_strict e2 e1 rows Hgt Hex). lra.
Qed.

(* ---- the two score equations solved by the fluctuation model ARE the efficient-score equations:
   rows are (a, g1, g0, resid) with resid = y - Qstar on rows with an observed outcome *)
Fixpoint sumR (f : bool * R * R * R -> R) (rows : list (bool * R * R * R)) : R :=
  match rows with [] => 0 | r :: rs => f r + sumR f rs end.
Lemma sumR_ext f h rows : (forall r, f r = h r) -> sumR f rows = sumR h rows.
Proof. intros H. induction rows as [|r rs IH]; simpl; [reflexivity|]. rewrite H, IH. reflexivity. Qed.
Lemma sumR_opp f rows : sumR (fun r => - f r) rows = - sumR f rows.
Proof. induction rows as [|r rs IH]; simpl; [lra|]. rewrite IH. lra. Qed.

Theorem scores_are_efficient_scores rows :
  sumR (fun '(a, g1, g0, res) => tmle_H1W_R a g1 * res) rows = 0 ->
  sumR (fun '(a, g1, g0, res) => tmle_H0W_R a g0 * res) rows = 0 ->
  sumR (fun '(a, g1, g0, res) => indR a / g1 * res) rows = 0 /\
  sumR (fun '(a, g1, g0, res) => (1 - indR a) / g0 * res) rows = 0.
Proof.
  intros H1 H0. split.
  - rewrite <- H1. apply sumR_ext. intros [[[a g1] g0] res]. destruct (clever_covariates a g1 g0) as [-> _]. reflexivity.
  - assert (E : sumR (fun '(a, g1, g0, res) => tmle_H0W_R a g0 * res) rows =
                - sumR (fun '(a, g1, g0, res) => (1 - indR a) / g0 * res) rows).
    { rewrite <- sumR_opp. apply sumR_ext. intros [[[a g1] g0] res].
      destruct (clever_covariates a g1 g0) as [_ ->]. unfold Rdiv. ring. }
    rewrite E in H0. lra.
Qed.

(* ---- tmle_unit_bounds (translated): the bounded outcome lies in [bound, 1 - bound], is the unit-scale outcome
   whenever that is already inside, and bounding followed by the back-transformation returns a value in
   [mini, maxi] that equals y for every y strictly inside the truncation band *)
Lemma unit_bounds_range y mini maxi b : b <= 1 / 2 ->
  b <= tmle_unit_bounds_R y mini maxi b <= 1 - b.
Proof.
  intros Hb. unfold tmle_unit_bounds_R. cbv zeta.
  destruct (Rlt_dec ((y - mini) / (maxi - mini)) b) as [H1|H1];
    match goal with |- context [Rlt_dec ?a ?c] => destruct (Rlt_dec a c) as [H2|H2] end; lra.
Qed.
Lemma unit_bounds_id y mini maxi b :
  b <= (y - mini) / (maxi - mini) -> (y - mini) / (maxi - mini) <= 1 - b ->
  tmle_unit_bounds_R y mini maxi b = (y - mini) / (maxi - mini).
Proof.
  intros H1 H2. unfold tmle_unit_bounds_R. cbv zeta.
  destruct (Rlt_dec ((y - mini) / (maxi - mini)) b) as [H3|H3]; [lra|].
  destruct (Rlt_dec (IZR 1 - b) ((y - mini) / (maxi - mini))) as [H4|H4]; [lra|reflexivity].
Qed.
Lemma bounds_unbound_roundtrip y mini maxi b : mini < maxi ->
  b <= (y - mini) / (maxi - mini) -> (y - mini) / (maxi - mini) <= 1 - b ->
  tmle_unit_unbound_R (tmle_unit_bounds_R y mini maxi b) mini maxi = y.
Proof.
  intros Hm H1 H2. rewrite (unit_bounds_id y mini maxi b H1 H2). unfold tmle_unit_unbound_R. field. lra.
Qed.
Lemma bounds_unbound_range y mini maxi b : mini <= maxi -> 0 <= b -> b <= 1 / 2 ->
  mini <= tmle_unit_unbound_R (tmle_unit_bounds_R y mini maxi b) mini maxi <= maxi.
Proof.
  intros Hm Hb0 Hb. destruct (unit_bounds_range y mini maxi b Hb) as [A B]. apply unbound_range; lra.
Qed.
