(* C14 -- StochasticIPTW.fit as regenerated on every run (ZepidGen.Gen_siptw_Q) IS the model of Model.Stochastic (the one the
   C14 theorems are about): numerator loop, denominator, weight. *)
From Coq Require Import QArith List Bool.
From Zepid Require Import Base.QSum Base.QUtil Base.Rows Model.Stochastic.
From ZepidGen Require Import Gen_siptw_Q.
Import ListNotations.
Open Scope Q_scope.

(* the (condition, probability) pairs as one row sees them: eval(c) on that row *)
Definition at_row (r : row) (pl : list (cond * Q)) : list (bool * Q) := map (fun cp => (fst cp r, snd cp)) pl.

Definition src_stoch_numer (pl : plan) (r : row) : option Q :=
  match pl with
  | Uncond p => Some (siptw_numer_marginal_Q (trt r) p)
  | Cond cs ps => fold_left (siptw_numer_step_Q (trt r)) (at_row r (combine cs ps)) siptw_numer_start_Q
  end.
Definition src_siptw_weight (pl : plan) (r : row) : option Q :=
  match src_stoch_numer pl r with
  | Some nu => Some (siptw_ipw_w_Q (siptw_ipw_Q nu (siptw_denom_Q (trt r) (g1 r))) (wt r))
  | None => None
  end.

Lemma fold_at_row r pl cur :
  fold_left (siptw_numer_step_Q (trt r)) (at_row r pl) cur = fold_left (numer_step r) pl cur.
Proof.
  revert cur. induction pl as [|cp tl IH]; intros cur; cbn [at_row map fold_left]; [reflexivity|].
  fold (at_row r tl). rewrite IH. reflexivity.
Qed.

Lemma gen14_numer pl r : src_stoch_numer pl r = stoch_numer pl r.
Proof. destruct pl as [p|cs ps]; [reflexivity|]. unfold src_stoch_numer, stoch_numer, numer_loop. apply fold_at_row. Qed.

Lemma gen14_weight pl r : src_siptw_weight pl r = siptw_weight pl r.
Proof. unfold src_siptw_weight, siptw_weight. rewrite gen14_numer. reflexivity. Qed.
