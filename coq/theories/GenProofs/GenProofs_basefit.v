(* C07 / C10 / C19 -- the cross-tabulation of the six effect-measure classes of zepid/base.py as regenerated on every run
   (ZepidGen.Gen_basefit_Q: which row mask is counted -- or which person-time summed -- for which parameter of the
   calculator, and the three missing-data counts) IS Model.Frames: table4 / the rate table / missing_counts. *)
From Coq Require Import QArith ZArith List Bool Lia Lra Lqa.
From Zepid Require Import Base.QSum Base.QUtil Spec.Measures Model.Frames.
From ZepidGen Require Import Gen_basefit_Q.
Import ListNotations.
Open Scope Q_scope.

Lemma gen_base_tables rows rf l :
  base_rr_call_Q rows rf l = table4 rows rf l /\ base_rd_call_Q rows rf l = table4 rows rf l /\
  base_nnt_call_Q rows rf l = table4 rows rf l /\ base_or_call_Q rows rf l = table4 rows rf l.
Proof. repeat split; reflexivity. Qed.

Lemma gen_base_rate_tables rows rf l :
  base_irr_call_Q rows rf l = (ncell rows l true, ptime rows l, ncell rows rf true, ptime rows rf) /\
  base_ird_call_Q rows rf l = (ncell rows l true, ptime rows l, ncell rows rf true, ptime rows rf).
Proof. split; reflexivity. Qed.

(* counting: rows missing the exposure = those missing only the exposure + those missing both *)
Lemma Qlen_split {A} (p q : A -> bool) (l : list A) :
  Qlen (filter p l) == Qlen (filter (fun x => p x && q x) l) + Qlen (filter (fun x => p x && negb (q x)) l).
Proof.
  rewrite <- !Qsum_ind_count. rewrite <- Qsum_plus. apply Qsum_ext_all. intros x. unfold ind.
  destruct (p x), (q x); cbn; ring.
Qed.

Lemma Qlen_filter_ext {A} (p q : A -> bool) (l : list A) : (forall x, p x = q x) -> Qlen (filter p l) = Qlen (filter q l).
Proof. intros H. rewrite (filter_ext p q H). reflexivity. Qed.

Lemma gen_base_missing_rr rows : Forall2 Qeq (base_rr_missing_Q rows) (missing_counts rows).
Proof.
  unfold base_rr_missing_Q, missing_counts, miss_e, miss_d, miss_ed.
  repeat constructor.
  - rewrite (Qlen_split (fun r => negb (e_obs r)) y_obs rows). ring.
  - rewrite (Qlen_split (fun r => negb (y_obs r)) e_obs rows).
    rewrite (Qlen_filter_ext (fun x => negb (y_obs x) && e_obs x) (fun r => e_obs r && negb (y_obs r)) rows) by (intros x; apply andb_comm).
    rewrite (Qlen_filter_ext (fun x => negb (y_obs x) && negb (e_obs x)) (fun r => negb (e_obs r) && negb (y_obs r)) rows) by (intros x; apply andb_comm).
    ring.
Qed.

Lemma gen_base_missing rows :
  base_rd_missing_Q rows = base_rr_missing_Q rows /\ base_nnt_missing_Q rows = base_rr_missing_Q rows /\
  base_or_missing_Q rows = base_rr_missing_Q rows /\ base_irr_missing_Q rows = base_rr_missing_Q rows /\
  base_ird_missing_Q rows = base_rr_missing_Q rows.
Proof. repeat split; reflexivity. Qed.

(* n of RiskDifference's no-assumption bounds: the rows that enter some cell when the outcome is binary *)
Lemma gen_base_rd_n rows : base_rd_n_Q rows = Qlen (filter complete rows).
Proof. reflexivity. Qed.
