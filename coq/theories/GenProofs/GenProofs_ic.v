(* C06 / C08 -- the per-row influence-curve expressions translated on every run from TMLE.fit and aipw_calculator
   (ZepidGen.Gen_ic_Q) and the AIPTW pseudo-outcomes (ZepidGen.Gen_aipw_Q) are the ones the variance model
   Model.Variance / Model.Estimators is written in.  In the TMLE expressions the generated boolean `v_a` is the
   source's `delta == 1` (outcome observed); in the AIPTW expressions it is the treatment indicator. *)
From Coq Require Import QArith List Lra Lqa.
From Zepid Require Import Base.QSum Base.QUtil Base.Rows Model.Estimators Model.Variance.
From ZepidGen Require Import Gen_ic_Q Gen_aipw_Q.
Import ListNotations.
Open Scope Q_scope.

Definition same (g : list (option Q)) (m : option Q) : Prop :=
  exists x y, g = [Some x] /\ m = Some y /\ x == y.

Ltac icfin := eexists; eexists; split; [reflexivity|split; [reflexivity|]];
  unfold h1, h0, qs, ind; repeat match goal with |- context [if ?b then _ else _] => destruct b end;
  try reflexivity; field; repeat split; assumption.

(* TMLE, risk difference / ATE: HAW = H1W + H0W *)
Lemma gen_tmle_ic_rd psi r : ~ pa1 r == 0 -> ~ pa0 r == 0 ->
  same (tmle_ic_rd_Q (obs r) (h1 r + h0 r) (qs r) (q0 r) (q1 r) (yval r) psi) (tmle_ic_rd psi r).
Proof. intros H1 H0. unfold same, tmle_ic_rd_Q, tmle_ic_rd. icfin. Qed.

Lemma gen_tmle_ic_ate psi r : ~ pa1 r == 0 -> ~ pa0 r == 0 ->
  same (tmle_ic_ate_Q (obs r) (h1 r + h0 r) (qs r) (q0 r) (q1 r) (yval r) psi) (tmle_ic_rd psi r).
Proof. intros H1 H0. unfold same, tmle_ic_ate_Q, tmle_ic_rd. icfin. Qed.

Lemma gen_tmle_ic_rr mq1 mq0 r : ~ pa1 r == 0 -> ~ pa0 r == 0 -> ~ mq1 == 0 -> ~ mq0 == 0 ->
  same (tmle_ic_rr_Q (obs r) (h0 r) (h1 r) (qs r) (q0 r) (q1 r) mq0 mq1 (yval r)) (tmle_ic_rr mq1 mq0 r).
Proof. intros H1 H0 M1 M0. unfold same, tmle_ic_rr_Q, tmle_ic_rr. icfin. Qed.

Lemma gen_tmle_ic_or mq1 mq0 r : ~ pa1 r == 0 -> ~ pa0 r == 0 ->
  ~ mq1 == 0 -> ~ mq0 == 0 -> ~ 1 - mq1 == 0 -> ~ 1 - mq0 == 0 ->
  same (tmle_ic_or_Q (obs r) (h0 r) (h1 r) (qs r) (q0 r) (q1 r) mq0 mq1 (yval r)) (tmle_ic_or mq1 mq0 r).
Proof. intros H1 H0 M1 M0 N1 N0. unfold same, tmle_ic_or_Q, tmle_ic_or. icfin. Qed.

(* AIPTW pseudo-outcomes *)
Lemma gen_aipw_y1 r : ~ pa1 r == 0 ->
  exists x, aipw_y1_Q (trt r) (pa1 r) (q1 r) (yval r) = [Some x] /\ x == aipw_y1 r.
Proof. intros H. eexists. split; [reflexivity|]. unfold aipw_y1. destruct (trt r); try reflexivity; field; assumption. Qed.

Lemma gen_aipw_y0 r : ~ pa0 r == 0 ->
  exists x, aipw_y0_Q (trt r) (pa0 r) (q0 r) (yval r) = [Some x] /\ x == aipw_y0 r.
Proof. intros H. eexists. split; [reflexivity|]. unfold aipw_y0. destruct (trt r); try reflexivity; field; assumption. Qed.

(* AIPTW influence values on rows with an observed outcome (the source computes them on every row and
   np.nanvar drops the rows whose y is nan; the model returns None there) *)
Lemma gen_aipw_ic_rd est r : obs r = true ->
  same (aipw_ic_rd_Q est (aipw_y0 r) (aipw_y1 r)) (aipw_ic_rd est r).
Proof. intros Ho. unfold same, aipw_ic_rd_Q, aipw_ic_rd. rewrite Ho. eexists; eexists; split; [reflexivity|split; [reflexivity|]]. reflexivity. Qed.

Lemma gen_aipw_ic_rr mq1 mq0 r : obs r = true -> ~ pa1 r == 0 -> ~ pa0 r == 0 -> ~ mq1 == 0 -> ~ mq0 == 0 ->
  same (aipw_ic_rr_Q (trt r) mq1 mq0 (pa0 r) (pa1 r) (q1 r) (q0 r) (yval r)) (aipw_ic_rr mq1 mq0 r).
Proof. intros Ho H1 H0 M1 M0. unfold same, aipw_ic_rr_Q, aipw_ic_rr. rewrite Ho. cbv zeta.
  eexists; eexists; split; [reflexivity|split; [reflexivity|]].
  unfold ind. destruct (trt r); field; repeat split; assumption. Qed.
