(* C14 / C05 -- StochasticIPTW.fit as regenerated on every run (ZepidGen.Gen_siptw_Q) IS Model.Ipw: the numerator under a
   marginal plan, the NaN start and the in-order overwrite loop of a conditional plan (hence: the LAST listed condition that
   holds on a row decides, a row no condition covers keeps NaN), the denominator, the weight with and without a weights
   column, and the weighted average that is the marginal outcome. *)
From Coq Require Import QArith List Bool Lra Lqa.
From Zepid Require Import Base.QSum Base.QUtil Base.QAgg Model.Ipw.
From ZepidGen Require Import Gen_siptw_Q.
Import ListNotations.
Open Scope Q_scope.

Definition src_numer (a : bool) (pl : plan) : option Q :=
  match pl with
  | Marginal p => Some (siptw_numer_marginal_Q a p)
  | Conditional cs => fold_left (siptw_numer_step_Q a) cs siptw_numer_start_Q
  end.
Definition src_weight (r : srow) : option Q :=
  match src_numer (s_a r) (s_plan r) with
  | Some nu => Some (siptw_ipw_w_Q (siptw_ipw_Q nu (siptw_denom_Q (s_a r) (s_pd r))) (s_w r))
  | None => None
  end.

Lemma gen_siptw_numer a pl : src_numer a pl = stoch_numer a pl.
Proof. destruct pl as [p|cs]; reflexivity. Qed.

Lemma gen_siptw_weight r : src_weight r = stoch_weight r.
Proof. unfold src_weight, stoch_weight. rewrite gen_siptw_numer. reflexivity. Qed.

(* without a weights column the product step is skipped: the model's unit weight *)
Lemma gen_siptw_unweighted ipw : siptw_ipw_w_Q ipw 1 == ipw.
Proof. unfold siptw_ipw_w_Q. ring. Qed.

Lemma all_some_length {A} (l : list (option A)) ws : all_some l = Some ws -> length ws = length l.
Proof.
  revert ws. induction l as [|[x|] tl IH]; cbn [all_some]; intros ws H; [inversion H; reflexivity| |discriminate].
  destruct (all_some tl) as [r|]; [|discriminate]. inversion H; subst. cbn [length]. rewrite (IH r eq_refl). reflexivity.
Qed.
Lemma Qsum_fst_combine (ws ys : list Q) : length ws = length ys ->
  Qsum (fun r : Q * Q => fst r) (combine ws ys) == Qsum (fun w => w) ws.
Proof.
  revert ys. induction ws as [|w ws IH]; intros [|y ys] H; cbn [combine Qsum length] in *; try reflexivity; try discriminate.
  cbn [fst]. rewrite (IH ys); [reflexivity|]. injection H as H. exact H.
Qed.

Lemma gen_siptw_marginal rows :
  match all_some (map src_weight rows), stoch_marginal rows with
  | Some ws, Some m => siptw_marginal_Q (combine ws (map s_y rows)) == m
  | None, None => True
  | _, _ => False
  end.
Proof.
  unfold stoch_marginal. rewrite (map_ext src_weight stoch_weight gen_siptw_weight).
  destruct (all_some (map stoch_weight rows)) as [ws|] eqn:E; [|exact I].
  unfold siptw_marginal_Q. apply Qdiv_comp; [reflexivity|].
  apply Qsum_fst_combine. rewrite (all_some_length _ _ E), !map_length. reflexivity.
Qed.

(* consequence read off the loop: the last listed condition that holds decides *)
Lemma gen_siptw_last_match a cs :
  fold_left (siptw_numer_step_Q a) cs siptw_numer_start_Q =
  match last_match cs with Some p => Some (if a then p else 1 - p) | None => None end.
Proof.
  change (fold_left (siptw_numer_step_Q a) cs siptw_numer_start_Q) with (stoch_numer_cond a cs).
  unfold stoch_numer_cond.
  assert (G : forall cs cur, fold_left (stoch_step a) cs cur =
            match last_match cs with Some p => Some (if a then p else 1 - p) | None => cur end).
  { clear cs. induction cs as [|[c p] tl IH]; intros cur; cbn [fold_left last_match]; [reflexivity|].
    rewrite IH. destruct (last_match tl); [reflexivity|]. unfold stoch_step; cbn [fst snd]. destruct c; reflexivity. }
  apply G.
Qed.
