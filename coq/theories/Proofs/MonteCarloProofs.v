(* C13 -- invariants of the Monte-Carlo g-formula time loop, by induction over time, for every draw stream.
   Part 1: columns, one step, the per-unit trajectory and the decomposition of the population loop. *)
From Coq Require Import QArith ZArith List Bool Arith Lia Permutation Sorting.Sorted.
From Zepid Require Import Model.MonteCarlo.
Import ListNotations.
Open Scope Z_scope.

(* ------------------------------------------------------------------------------------------------ columns *)
Lemma get_set_same : forall v x e, get v (set v x e) = x.
Proof.
  induction e as [|[k y] e IH]; simpl.
  - now rewrite Nat.eqb_refl.
  - destruct (Nat.eqb k v) eqn:E; simpl.
    + now rewrite Nat.eqb_refl.
    + now rewrite E.
Qed.

Lemma get_set_other : forall v w x e, v <> w -> get w (set v x e) = get w e.
Proof.
  induction e as [|[k y] e IH]; simpl; intro H.
  - destruct (Nat.eqb v w) eqn:E; [apply Nat.eqb_eq in E; contradiction | reflexivity].
  - destruct (Nat.eqb k v) eqn:E; simpl.
    + apply Nat.eqb_eq in E; subst k.
      destruct (Nat.eqb v w) eqn:E2; [apply Nat.eqb_eq in E2; contradiction | reflexivity].
    + destruct (Nat.eqb k w); auto.
Qed.

Lemma set_set : forall v x y e, set v y (set v x e) = set v y e.
Proof.
  induction e as [|[k z] e IH]; simpl.
  - now rewrite Nat.eqb_refl.
  - destruct (Nat.eqb k v) eqn:E; simpl.
    + now rewrite Nat.eqb_refl.
    + now rewrite E, IH.
Qed.

Lemma set_covs_other : forall cs ds e w, ~ In w cs -> get w (set_covs cs ds e) = get w e.
Proof.
  induction cs as [|v cs IH]; simpl; intros ds e w H; [reflexivity|].
  destruct ds as [|d ds]; rewrite IH by tauto; apply get_set_other; tauto.
Qed.

Lemma apply_plan_other : forall p a i d e w, a <> w -> get w (apply_plan p a i d e) = get w e.
Proof.
  intros [| | |rule] a i d e w H; simpl; rewrite ?get_set_other by assumption; reflexivity.
Qed.

Lemma shift_cons : forall k v rest e, shift ((k, v) :: rest) e = shift rest (set v (get k e) e).
Proof. reflexivity. Qed.

Lemma shift_other : forall lags e w, ~ In w (map snd lags) -> get w (shift lags e) = get w e.
Proof.
  induction lags as [|[k v] rest IH]; intros e w H; [reflexivity|].
  rewrite shift_cons, IH by (simpl in H; tauto).
  apply get_set_other. simpl in H; tauto.
Qed.

Lemma lags_ok_src : forall lags done k v, lags_ok done lags -> In (k, v) lags -> ~ In k done.
Proof.
  induction lags as [|[k0 v0] rest IH]; simpl; intros done k v H Hin; [contradiction|].
  destruct H as (H1 & H2 & H3). destruct Hin as [E|Hin].
  - now inversion E; subst.
  - intro Hd. apply (IH _ _ _ H3 Hin). now right.
Qed.

(* under lags_ok the sequential assignments are the simultaneous one *)
Lemma shift_lag : forall lags done e k v, lags_ok done lags -> In (k, v) lags -> get v (shift lags e) = get k e.
Proof.
  induction lags as [|[k0 v0] rest IH]; simpl; intros done e k v H Hin; [contradiction|].
  destruct H as (H1 & H2 & H3). fold (shift rest (set v0 (get k0 e) e)).
  destruct Hin as [E|Hin].
  - inversion E; subst. rewrite shift_other by assumption. apply get_set_same.
  - rewrite (IH _ _ _ _ H3 Hin). apply get_set_other.
    intro; subst. apply (lags_ok_src _ _ _ _ H3 Hin). now left.
Qed.

Lemma lags_okb_ok : forall lags done, lags_okb done lags = true -> lags_ok done lags.
Proof.
  induction lags as [|[k v] rest IH]; simpl; intros done H; [exact I|].
  apply andb_true_iff in H as [H H3]. apply andb_true_iff in H as [H1 H2].
  apply negb_true_iff in H1, H2. repeat split.
  - intro Hin. assert (existsb (Nat.eqb k) done = true); [|congruence].
    apply existsb_exists. exists k. split; [assumption | apply Nat.eqb_refl].
  - intro Hin. assert (existsb (Nat.eqb v) (map snd rest) = true); [|congruence].
    apply existsb_exists. exists v. split; [assumption | apply Nat.eqb_refl].
  - now apply IH.
Qed.

(* ------------------------------------------------------------------------------------------------ one step *)
Lemma at_risk_terminal : forall u, at_risk u = negb (terminal u).
Proof. intros u; unfold at_risk, terminal. destruct (outc u), (unc u); reflexivity. Qed.

Section Step.
Variable c : cfg.

Lemma step1_uid : forall i u d, ruid (step1 c i u d) = uid u.
Proof. reflexivity. Qed.
Lemma step1_oid : forall i u d, oid (r_unit (step1 c i u d)) = oid u.
Proof. reflexivity. Qed.
Lemma step1_tin : forall i u d, rtin (step1 c i u d) = i.
Proof. reflexivity. Qed.
Lemma step1_tout : forall i u d, rtout (step1 c i u d) = i + 1.
Proof. reflexivity. Qed.
Lemma step1_env : forall i u d, uenv (r_unit (step1 c i u d)) = shift (c_lags c) (r_seen (step1 c i u d)).
Proof. reflexivity. Qed.

Lemma step1_last_terminal : forall i u d, is_last c i = true -> rterminal (step1 c i u d) = true /\ runc (step1 c i u d) = false.
Proof.
  intros i u d H. unfold rterminal, runc, terminal, step1; simpl. rewrite H. split; [apply orb_true_r | reflexivity].
Qed.

Lemma event_terminal : forall r, routc r = true -> rterminal r = true.
Proof. intros r H. unfold rterminal, terminal. unfold routc in H. now rewrite H. Qed.

(* the columns the step's models saw keep the value the row entered the step with, except covariates and exposure *)
Lemma step1_seen_other : forall i u d w, ~ In w (cov_order c) -> c_expo c <> w ->
  get w (r_seen (step1 c i u d)) = get w (uenv u).
Proof.
  intros i u d w H1 H2. unfold step1; simpl. rewrite apply_plan_other by assumption. now apply set_covs_other.
Qed.

(* ------------------------------------------------------------------------------------------------ map_draw *)
Lemma map_draw_in : forall (f : unit -> udraw -> record) us ds r, In r (map_draw d0 f us ds) -> exists u d, In u us /\ r = f u d.
Proof.
  induction us as [|a us IH]; simpl; intros ds r H; [contradiction|].
  destruct ds as [|d ds]; destruct H as [H|H].
  - exists a, d0; auto.
  - destruct (IH _ _ H) as (u & d' & ? & ?). exists u, d'; auto.
  - exists a, d; auto.
  - destruct (IH _ _ H) as (u & d' & ? & ?). exists u, d'; auto.
Qed.

Lemma map_draw_uids : forall (f : unit -> udraw -> record), (forall u d, ruid (f u d) = uid u) ->
  forall us ds, map ruid (map_draw d0 f us ds) = map uid us.
Proof.
  intros f Hf; induction us as [|a us IH]; simpl; intros ds; [reflexivity|].
  destruct ds; simpl; now rewrite Hf, IH.
Qed.

Lemma map_draw_absent : forall (f : unit -> udraw -> record), (forall u d, ruid (f u d) = uid u) ->
  forall x us ds, (forall a, In a us -> uid a <> x) -> history x (map_draw d0 f us ds) = [].
Proof.
  intros f Hf x; induction us as [|a us IH]; simpl; intros ds H; [reflexivity|].
  assert (Ha : uid a <> x) by (apply H; auto).
  assert (Hr : forall a0, In a0 us -> uid a0 <> x) by (intros; apply H; auto).
  destruct ds; simpl; unfold has_uid at 1; rewrite Hf;
    (destruct (Z.eqb_spec (uid a) x); [contradiction|]); now apply IH.
Qed.

Lemma map_draw_one : forall (f : unit -> udraw -> record), (forall u d, ruid (f u d) = uid u) ->
  forall us ds u, NoDup (map uid us) -> In u us -> exists d, history (uid u) (map_draw d0 f us ds) = [f u d].
Proof.
  intros f Hf; induction us as [|a us IH]; simpl; intros ds u Hnd Hin; [contradiction|].
  inversion Hnd as [|? ? Hna Hnd']; subst.
  destruct Hin as [E|Hin].
  - subst a.
    assert (Habs : forall a0, In a0 us -> uid a0 <> uid u).
    { intros a0 H0 E. apply Hna. rewrite <- E. now apply in_map. }
    destruct ds as [|d ds]; [exists d0 | exists d]; simpl; unfold has_uid at 1; rewrite Hf, Z.eqb_refl;
      f_equal; now apply (map_draw_absent f Hf).
  - assert (Hne : uid a <> uid u).
    { intro E. apply Hna. rewrite E. now apply in_map. }
    destruct ds as [|d ds]; simpl; unfold has_uid at 1; rewrite Hf;
      (destruct (Z.eqb_spec (uid a) (uid u)); [contradiction|]); now apply IH.
Qed.

(* ------------------------------------------------------------------------------------------------ list helpers *)
Lemma NoDup_map_inj : forall (A B : Type) (f : A -> B) l a b, NoDup (map f l) -> In a l -> In b l -> f a = f b -> a = b.
Proof.
  induction l as [|x l IH]; simpl; intros a b Hnd Ha Hb E; [contradiction|].
  inversion Hnd as [|? ? Hn Hnd']; subst.
  destruct Ha as [Ha|Ha], Hb as [Hb|Hb]; subst; auto.
  - exfalso. apply Hn. rewrite E. now apply in_map.
  - exfalso. apply Hn. rewrite <- E. now apply in_map.
Qed.

Lemma NoDup_map_filter : forall (A B : Type) (f : A -> B) p l, NoDup (map f l) -> NoDup (map f (filter p l)).
Proof.
  induction l as [|x l IH]; simpl; intros H; [constructor|].
  inversion H as [|? ? Hn Hnd]; subst.
  destruct (p x); simpl; [constructor|]; auto.
  intro Hin. apply Hn. apply in_map_iff in Hin as (y & E & Hy). apply filter_In in Hy as [Hy _].
  rewrite <- E. now apply in_map.
Qed.

Lemma history_app : forall x l1 l2, history x (l1 ++ l2) = history x l1 ++ history x l2.
Proof. intros; unfold history; apply filter_app. Qed.

(* ------------------------------------------------------------------------------------------------ per-unit trajectory *)
(* what the loop does to ONE row, given the draws that row receives *)
Fixpoint traj (fuel : nat) (i : Z) (u : unit) (ds : list udraw) : list record :=
  match fuel with
  | O => []
  | S f => if at_risk u
           then let r := step1 c i u (hd d0 ds) in r :: traj f (i + 1) (r_unit r) (tl ds)
           else []
  end.

Lemma loop_uids : forall fuel i pop draws r, In r (concat (loop c fuel i pop draws)) -> In (ruid r) (map uid pop).
Proof.
  induction fuel as [|f IH]; simpl; intros i pop draws r H; [contradiction|].
  set (recs := map_draw d0 (step1 c i) (filter at_risk pop) (hd [] draws)) in *.
  assert (Hu : map ruid recs = map uid (filter at_risk pop)) by (apply map_draw_uids; reflexivity).
  assert (Hsub : forall x, In x (map uid (filter at_risk pop)) -> In x (map uid pop)).
  { intros x Hx. apply in_map_iff in Hx as (y & E & Hy). apply filter_In in Hy as [Hy _]. rewrite <- E. now apply in_map. }
  apply in_app_or in H as [H|H].
  - apply Hsub. rewrite <- Hu. now apply in_map.
  - apply IH in H. rewrite map_map in H. change (fun x => uid (r_unit x)) with ruid in H. rewrite Hu in H. now apply Hsub.
Qed.

Lemma loop_absent : forall fuel i pop draws x, ~ In x (map uid pop) -> history x (concat (loop c fuel i pop draws)) = [].
Proof.
  intros fuel i pop draws x H. unfold history.
  destruct (filter (has_uid x) (concat (loop c fuel i pop draws))) as [|r l] eqn:E; [reflexivity|].
  assert (Hr : In r (filter (has_uid x) (concat (loop c fuel i pop draws)))) by (rewrite E; now left).
  apply filter_In in Hr as [Hr Hx]. apply loop_uids in Hr. unfold has_uid in Hx. apply Z.eqb_eq in Hx. now subst.
Qed.

(* the records of one unit in the population loop are its trajectory under SOME draws *)
Lemma loop_decompose : forall fuel i pop draws u, NoDup (map uid pop) -> In u pop ->
  exists ds, history (uid u) (concat (loop c fuel i pop draws)) = traj fuel i u ds.
Proof.
  induction fuel as [|f IH]; intros i pop draws u Hnd Hin; [exists []; reflexivity|].
  simpl loop. simpl concat.
  set (g := filter at_risk pop).
  set (recs := map_draw d0 (step1 c i) g (hd [] draws)).
  assert (Hu : map ruid recs = map uid g) by (apply map_draw_uids; reflexivity).
  assert (Hndg : NoDup (map uid g)) by (now apply NoDup_map_filter).
  rewrite history_app.
  destruct (at_risk u) eqn:Har.
  - assert (Hing : In u g) by (apply filter_In; auto).
    destruct (map_draw_one (step1 c i) (fun _ _ => eq_refl) g (hd [] draws) u Hndg Hing) as (d & Hd).
    fold recs in Hd.
    assert (Hr : In (step1 c i u d) recs).
    { assert (H : In (step1 c i u d) (history (uid u) recs)) by (rewrite Hd; now left).
      now apply filter_In in H. }
    assert (Hnd' : NoDup (map uid (map r_unit recs))).
    { rewrite map_map. change (fun x => uid (r_unit x)) with ruid. now rewrite Hu. }
    destruct (IH (i + 1) (map r_unit recs) (tl draws) (r_unit (step1 c i u d)) Hnd' (in_map r_unit _ _ Hr)) as (ds' & Hds).
    exists (d :: ds'). rewrite Hd. simpl traj. rewrite Har. simpl.
    change (uid (r_unit (step1 c i u d))) with (uid u) in Hds. now rewrite Hds.
  - exists []. simpl traj. rewrite Har.
    assert (Hnot : ~ In (uid u) (map uid g)).
    { intro H. apply in_map_iff in H as (a & E & Ha).
      assert (a = u).
      { apply (NoDup_map_inj _ _ uid pop); auto. apply filter_In in Ha; tauto. }
      subst a. apply filter_In in Ha as [_ Ha]. congruence. }
    replace (history (uid u) recs) with (@nil record).
    + simpl. apply loop_absent. rewrite map_map. change (fun x => uid (r_unit x)) with ruid. now rewrite Hu.
    + symmetry. apply map_draw_absent; [reflexivity|].
      intros a Ha E. apply Hnot. rewrite <- E. now apply in_map.
Qed.

(* every record is one step applied to some row with some draw, at a time inside the loop's range *)
Lemma loop_records : forall fuel i pop draws r, In r (concat (loop c fuel i pop draws)) ->
  exists j u d, r = step1 c j u d /\ i <= j < i + Z.of_nat fuel.
Proof.
  induction fuel as [|f IH]; simpl; intros i pop draws r H; [contradiction|].
  apply in_app_or in H as [H|H].
  - apply map_draw_in in H as (u & d & _ & E). exists i, u, d. split; [assumption | lia].
  - apply IH in H as (j & u & d & E & Hj). exists j, u, d. split; [assumption | lia].
Qed.

End Step.

(* ================================================================================================
   Part 2: shape of one trajectory *)
Definition zfrom (i : Z) (k : nat) : list Z := map (fun j => i + Z.of_nat j) (seq 0 k).

Lemma zfrom_S : forall i k, zfrom i (S k) = i :: zfrom (i + 1) k.
Proof.
  intros i k. unfold zfrom. simpl. f_equal; [lia|].
  rewrite <- seq_shift, map_map. apply map_ext. intros; lia.
Qed.

Lemma zfrom_last : forall i k, zfrom i (S k) = zfrom i k ++ [i + Z.of_nat k].
Proof. intros i k. unfold zfrom. rewrite seq_S, map_app. reflexivity. Qed.

Lemma zfrom_in : forall i k x, In x (zfrom i k) -> i <= x < i + Z.of_nat k.
Proof.
  intros i k x H. unfold zfrom in H. apply in_map_iff in H as (j & E & Hj). apply in_seq in Hj. lia.
Qed.

Lemma zseq_zfrom : forall k, zseq k = zfrom 0 k.
Proof. intros; unfold zseq, zfrom. apply map_ext. intros; lia. Qed.

Definition tin_lt (a b : record) : Prop := rtin a < rtin b.

Lemma tins_sorted : forall h i, map rtin h = zfrom i (length h) -> StronglySorted tin_lt h.
Proof.
  induction h as [|a h IH]; intros i H; [constructor|].
  simpl length in H. rewrite zfrom_S in H. simpl in H. injection H as Ha Hh.
  constructor; [eapply IH; exact Hh|].
  apply Forall_forall. intros b Hb. unfold tin_lt.
  assert (H0 : In (rtin b) (zfrom (i + 1) (length h))) by (rewrite <- Hh; now apply in_map).
  apply zfrom_in in H0. lia.
Qed.

Section Traj.
Variable c : cfg.
Notation T := (Z.of_nat (c_tmax c)).

Lemma traj_ids : forall fuel i u ds r, In r (traj c fuel i u ds) -> ruid r = uid u /\ oid (r_unit r) = oid u.
Proof.
  induction fuel as [|f IH]; simpl; intros i u ds r H; [contradiction|].
  destruct (at_risk u); [|contradiction]. destruct H as [H|H].
  - subst r. split; reflexivity.
  - apply IH in H. simpl in H. exact H.
Qed.

Lemma traj_tins : forall fuel i u ds, map rtin (traj c fuel i u ds) = zfrom i (length (traj c fuel i u ds)).
Proof.
  induction fuel as [|f IH]; simpl; intros i u ds; [reflexivity|].
  destruct (at_risk u); [|reflexivity]. simpl length. rewrite zfrom_S. simpl. f_equal. apply IH.
Qed.

Lemma traj_length : forall fuel i u ds, (length (traj c fuel i u ds) <= fuel)%nat.
Proof.
  induction fuel as [|f IH]; intros i u ds; [simpl; lia|].
  cbn [traj]. destruct (at_risk u); [|simpl; lia]. cbn zeta. cbn [length].
  specialize (IH (i + 1) (r_unit (step1 c i u (hd d0 ds))) (tl ds)). lia.
Qed.

(* a trajectory started at risk is a run of non-terminal records closed by one last record, which is terminal
   when the loop runs to t_max *)
Lemma traj_shape : forall fuel i u ds, at_risk u = true -> (1 <= fuel)%nat ->
  exists pre r, traj c fuel i u ds = pre ++ [r]
                /\ Forall (fun x => rterminal x = false) pre
                /\ (i + Z.of_nat fuel = T -> rterminal r = true /\ (rtout r = T -> runc r = false)).
Proof.
  induction fuel as [|f IH]; intros i u ds Har Hf; [lia|].
  cbn [traj]. rewrite Har. cbn zeta. set (r := step1 c i u (hd d0 ds)).
  destruct (at_risk (r_unit r)) eqn:Har'.
  - destruct f as [|f'].
    + exists [], r. simpl. split; [reflexivity|]. split; [constructor|].
      intros H. assert (El : is_last c i = true) by (unfold is_last; apply Z.eqb_eq; lia).
      split; [|intros _]; now apply step1_last_terminal.
    + destruct (IH (i + 1) (r_unit r) (tl ds) Har') as (pre & r' & E & Hpre & Hlast); [lia|].
      exists (r :: pre), r'. rewrite E. split; [reflexivity|]. split.
      * constructor; [|assumption]. unfold rterminal. rewrite at_risk_terminal in Har'. now apply negb_true_iff in Har'.
      * intros H. apply Hlast. lia.
  - exists [], r.
    assert (Hterm : rterminal r = true).
    { unfold rterminal. rewrite at_risk_terminal in Har'. now apply negb_false_iff in Har'. }
    assert (E0 : traj c f (i + 1) (r_unit r) (tl ds) = []).
    { destruct f; cbn [traj]; [reflexivity|]. now rewrite Har'. }
    rewrite E0.
    split; [reflexivity|]. split; [constructor|].
    intros _. split; [assumption|].
    intros HT. destruct (is_last c i) eqn:El; [now apply step1_last_terminal|].
    exfalso. unfold is_last in El. apply Z.eqb_neq in El. change (rtout r) with (i + 1) in HT. lia.
Qed.

Lemma filter_all_false : forall (A : Type) (p : A -> bool) l, Forall (fun x => p x = false) l -> filter p l = [].
Proof.
  induction l as [|a l IH]; simpl; intros H; [reflexivity|]. inversion H; subst. rewrite H2. auto.
Qed.

Lemma shape_terminal_filter : forall pre r, Forall (fun x => rterminal x = false) pre -> rterminal r = true ->
  filter rterminal (pre ++ [r]) = [r].
Proof. intros pre r Hp Hr. rewrite filter_app, filter_all_false by assumption. simpl. now rewrite Hr. Qed.

Lemma shape_events : forall pre r, Forall (fun x => rterminal x = false) pre -> (length (filter routc (pre ++ [r])) <= 1)%nat.
Proof.
  intros pre r Hp. rewrite filter_app, filter_all_false.
  - simpl. destruct (routc r); simpl; lia.
  - eapply Forall_impl; [|exact Hp]. intros a Ha. destruct (routc a) eqn:E; [|reflexivity].
    apply event_terminal in E. congruence.
Qed.

Lemma last_of_snoc : forall pre r, last_of (pre ++ [r]) = [r].
Proof. intros. unfold last_of. rewrite rev_app_distr. reflexivity. Qed.

(* ------------------------------------------------------------------------------------------------ lags along a trajectory *)
Fixpoint lag_chain (lags : list (var * var)) (prev : env) (h : list record) : Prop :=
  match h with
  | [] => True
  | r :: h' => (forall k v, In (k, v) lags -> get v (r_seen r) = get k prev) /\ lag_chain lags (r_seen r) h'
  end.
Definition lag_first (lags : list (var * var)) (b : env) (h : list record) : Prop :=
  match h with
  | [] => True
  | r :: h' => (forall k v, In (k, v) lags -> get v (r_seen r) = get v b) /\ lag_chain lags (r_seen r) h'
  end.

Definition lag_targets_free : Prop :=
  forall k v, In (k, v) (c_lags c) -> ~ In v (cov_order c) /\ c_expo c <> v.

Lemma traj_lags : lags_ok [] (c_lags c) -> lag_targets_free ->
  forall fuel i u ds, lag_first (c_lags c) (uenv u) (traj c fuel i u ds).
Proof.
  intros Hok Hfree. induction fuel as [|f IH]; intros i u ds; [exact I|].
  cbn [traj]. destruct (at_risk u); [|exact I]. cbn zeta.
  set (r := step1 c i u (hd d0 ds)).
  specialize (IH (i + 1) (r_unit r) (tl ds)).
  remember (traj c f (i + 1) (r_unit r) (tl ds)) as rest eqn:Er. clear Er.
  cbn [lag_first]. split.
  - intros k v Hin. destruct (Hfree k v Hin). now apply step1_seen_other.
  - destruct rest as [|r' h']; [exact I|].
    cbn [lag_first] in IH. cbn [lag_chain]. destruct IH as [H1 H2]. split; [|assumption].
    intros k v Hin. rewrite (H1 k v Hin). unfold r. rewrite step1_env. now apply (shift_lag _ []).
Qed.

Lemma lag_chain_nth : forall lags h prev j r r', lag_chain lags prev h ->
  nth_error h j = Some r -> nth_error h (S j) = Some r' ->
  forall k v, In (k, v) lags -> get v (r_seen r') = get k (r_seen r).
Proof.
  induction h as [|a h IH]; intros prev j r r' Hc Hj Hj'; [destruct j; discriminate|].
  destruct Hc as [_ Hc]. destruct j as [|j].
  - simpl in Hj. inversion Hj; subst. simpl in Hj'. destruct h as [|b h]; [discriminate|].
    simpl in Hj'. inversion Hj'; subst. destruct Hc as [Hc _]. exact Hc.
  - simpl in Hj, Hj'. eapply IH; eauto.
Qed.

End Traj.

(* ================================================================================================
   Part 3: sorting, and lists in general *)
Section Sorting.
Variable A : Type.
Variable leb : A -> A -> bool.
Hypothesis leb_total : forall a b, leb a b = true \/ leb b a = true.
Hypothesis leb_trans : forall a b d, leb a b = true -> leb b d = true -> leb a d = true.
Let R (a b : A) : Prop := leb a b = true.

Lemma insert_perm : forall a l, Permutation (insert leb a l) (a :: l).
Proof.
  induction l as [|y l IH]; simpl; [apply Permutation_refl|].
  destruct (leb a y); [apply Permutation_refl|].
  eapply perm_trans; [apply perm_skip, IH | apply perm_swap].
Qed.

Lemma isort_perm : forall l, Permutation (isort leb l) l.
Proof.
  induction l as [|a l IH]; simpl; [constructor|].
  eapply perm_trans; [apply insert_perm | now apply perm_skip].
Qed.

Lemma insert_sorted : forall a l, StronglySorted R l -> StronglySorted R (insert leb a l).
Proof.
  induction l as [|y l IH]; simpl; intros H; [repeat constructor|].
  inversion H as [|? ? Hs Hf]; subst.
  destruct (leb a y) eqn:E.
  - constructor; [assumption|]. constructor; [exact E|].
    eapply Forall_impl; [|exact Hf]. intros z Hz. unfold R in *. eapply leb_trans; eauto.
  - constructor; [auto|].
    apply Forall_forall. intros z Hz.
    apply (Permutation_in _ (insert_perm a l)) in Hz. destruct Hz as [Hz|Hz].
    + subst z. unfold R. destruct (leb_total a y); congruence.
    + rewrite Forall_forall in Hf. auto.
Qed.

Lemma isort_sorted : forall l, StronglySorted R (isort leb l).
Proof. induction l as [|a l IH]; simpl; [constructor | now apply insert_sorted]. Qed.
End Sorting.

Lemma SS_filter : forall (A : Type) (R : A -> A -> Prop) p l, StronglySorted R l -> StronglySorted R (filter p l).
Proof.
  induction l as [|a l IH]; simpl; intros H; [constructor|].
  inversion H as [|? ? Hs Hf]; subst. destruct (p a); auto.
  constructor; auto. apply Forall_forall. intros b Hb. apply filter_In in Hb as [Hb _].
  rewrite Forall_forall in Hf. auto.
Qed.

Lemma SS_impl_in : forall (A : Type) (R R' : A -> A -> Prop) l,
  (forall a b, In a l -> In b l -> R a b -> R' a b) -> StronglySorted R l -> StronglySorted R' l.
Proof.
  induction l as [|a l IH]; intros Himp H; [constructor|].
  inversion H as [|? ? Hs Hf]; subst. constructor.
  - apply IH; [|assumption]. intros; apply Himp; simpl; auto.
  - apply Forall_forall. intros b Hb. rewrite Forall_forall in Hf. apply Himp; simpl; auto.
Qed.

Lemma SS_app : forall (A : Type) (R : A -> A -> Prop) l1 l2,
  StronglySorted R l1 -> StronglySorted R l2 -> (forall a b, In a l1 -> In b l2 -> R a b) -> StronglySorted R (l1 ++ l2).
Proof.
  induction l1 as [|a l1 IH]; simpl; intros l2 H1 H2 H; [assumption|].
  inversion H1 as [|? ? Hs Hf]; subst. constructor.
  - apply IH; auto.
  - apply Forall_forall. intros b Hb. apply in_app_or in Hb as [Hb|Hb].
    + rewrite Forall_forall in Hf. auto.
    + apply H; auto.
Qed.

Lemma perm_filter : forall (A : Type) (p : A -> bool) l l', Permutation l l' -> Permutation (filter p l) (filter p l').
Proof.
  induction 1; simpl.
  - constructor.
  - destruct (p x); [now apply perm_skip | assumption].
  - destruct (p x), (p y); try apply Permutation_refl. apply perm_swap.
  - eapply perm_trans; eauto.
Qed.

Lemma filter_partition_perm : forall (A : Type) (p : A -> bool) l,
  Permutation (filter p l ++ filter (fun x => negb (p x)) l) l.
Proof.
  induction l as [|a l IH]; simpl; [constructor|].
  destruct (p a); simpl.
  - now apply perm_skip.
  - eapply perm_trans; [apply Permutation_sym, Permutation_middle | now apply perm_skip].
Qed.

Lemma filter_comm : forall (A : Type) (p q : A -> bool) l, filter p (filter q l) = filter q (filter p l).
Proof.
  induction l as [|a l IH]; simpl; [reflexivity|].
  destruct (p a) eqn:Ep, (q a) eqn:Eq; simpl; rewrite ?Ep, ?Eq, IH; reflexivity.
Qed.

Lemma filter_andb : forall (A : Type) (p q : A -> bool) l, filter (fun x => p x && q x) l = filter q (filter p l).
Proof.
  induction l as [|a l IH]; simpl; [reflexivity|].
  destruct (p a); simpl; [destruct (q a)|]; rewrite IH; reflexivity.
Qed.

Lemma filter_implied : forall (A : Type) (p q : A -> bool) l, (forall x, p x = true -> q x = true) ->
  filter p (filter q l) = filter p l.
Proof.
  induction l as [|a l IH]; simpl; intros H; [reflexivity|].
  destruct (q a) eqn:Eq; simpl.
  - now rewrite IH.
  - destruct (p a) eqn:Ep; [apply H in Ep; congruence | now apply IH].
Qed.

Lemma concat_filter : forall (A : Type) (p : A -> bool) ls, concat (map (filter p) ls) = filter p (concat ls).
Proof. induction ls as [|l ls IH]; simpl; [reflexivity|]. now rewrite filter_app, IH. Qed.

Lemma flat_map_ext_in : forall (A B : Type) (f g : A -> list B) l, (forall a, In a l -> f a = g a) -> flat_map f l = flat_map g l.
Proof.
  induction l as [|a l IH]; simpl; intros H; [reflexivity|].
  rewrite H by auto. f_equal. apply IH. auto.
Qed.

(* ------------------------------------------------------------------------------------------------ order on records *)
Definition rle (a b : record) : Prop := ruid a < ruid b \/ (ruid a = ruid b /\ rtin a <= rtin b).
Definition rlt (a b : record) : Prop := ruid a < ruid b \/ (ruid a = ruid b /\ rtin a < rtin b).

Lemma rec_leb_spec : forall a b, rec_leb a b = true <-> rle a b.
Proof.
  intros a b. unfold rec_leb, rle.
  rewrite orb_true_iff, andb_true_iff, Z.ltb_lt, Z.eqb_eq, Z.leb_le. reflexivity.
Qed.

Lemma rec_leb_total : forall a b, rec_leb a b = true \/ rec_leb b a = true.
Proof. intros a b. rewrite !rec_leb_spec. unfold rle. lia. Qed.

Lemma rec_leb_trans : forall a b d, rec_leb a b = true -> rec_leb b d = true -> rec_leb a d = true.
Proof. intros a b d. rewrite !rec_leb_spec. unfold rle. lia. Qed.

Lemma output_perm : forall l, Permutation (isort rec_leb l) l.
Proof. apply isort_perm. Qed.

Lemma output_sorted : forall l, StronglySorted rle (isort rec_leb l).
Proof.
  intros l. eapply SS_impl_in; [|apply (isort_sorted _ rec_leb rec_leb_total rec_leb_trans)].
  intros a b _ _ H. now apply rec_leb_spec.
Qed.

(* a sorted permutation of a strictly sorted list is that list *)
Lemma sorted_unique : forall l1 l2, Permutation l1 l2 -> StronglySorted rle l1 -> StronglySorted rlt l2 -> l1 = l2.
Proof.
  induction l1 as [|a l1 IH]; intros l2 Hp H1 H2.
  - apply Permutation_nil in Hp. now subst.
  - destruct l2 as [|b l2]; [apply Permutation_sym, Permutation_nil in Hp; discriminate|].
    inversion H1 as [|? ? Hs1 Hf1]; subst. inversion H2 as [|? ? Hs2 Hf2]; subst.
    rewrite Forall_forall in Hf1, Hf2.
    assert (E : a = b).
    { assert (Ha : In a (b :: l2)) by (eapply Permutation_in; [exact Hp | now left]).
      assert (Hb : In b (a :: l1)) by (eapply Permutation_in; [apply Permutation_sym; exact Hp | now left]).
      destruct Ha as [Ha|Ha]; [now subst|]. destruct Hb as [Hb|Hb]; [now subst|].
      apply Hf2 in Ha. apply Hf1 in Hb. unfold rle, rlt in *. lia. }
    subst b. f_equal. apply IH; auto. eapply Permutation_cons_inv; exact Hp.
Qed.

Lemma history_in : forall x l r, In r (history x l) -> In r l /\ ruid r = x.
Proof. intros x l r H. apply filter_In in H as [H E]. split; [assumption|]. now apply Z.eqb_eq in E. Qed.

(* sorting does not disturb a history that is already in time order *)
Lemma history_sorted_eq : forall x l, StronglySorted tin_lt (history x l) -> history x (isort rec_leb l) = history x l.
Proof.
  intros x l H. apply sorted_unique.
  - apply perm_filter, output_perm.
  - apply SS_filter, output_sorted.
  - eapply SS_impl_in; [|exact H]. intros a b Ha Hb Hab.
    apply history_in in Ha as [_ Ha]. apply history_in in Hb as [_ Hb]. unfold rlt, tin_lt in *. lia.
Qed.

(* ------------------------------------------------------------------------------------------------ buckets *)
Definition buckets (n : nat) (l : list record) : list record := flat_map (fun u => history (Z.of_nat u) l) (seq 0 n).

Lemma buckets_perm_gen : forall n s l, (forall r, In r l -> Z.of_nat s <= ruid r < Z.of_nat (s + n)) ->
  Permutation (flat_map (fun u => history (Z.of_nat u) l) (seq s n)) l.
Proof.
  induction n as [|n IH]; intros s l H.
  - destruct l as [|r l]; [constructor|]. exfalso. specialize (H r (or_introl eq_refl)). lia.
  - simpl.
    set (l' := filter (fun r => negb (has_uid (Z.of_nat s) r)) l).
    assert (E : flat_map (fun u => history (Z.of_nat u) l) (seq (S s) n)
                = flat_map (fun u => history (Z.of_nat u) l') (seq (S s) n)).
    { apply flat_map_ext_in. intros u Hu. apply in_seq in Hu. unfold history, l'. symmetry. apply filter_implied.
      intros r Hr. unfold has_uid in *. apply Z.eqb_eq in Hr. apply negb_true_iff, Z.eqb_neq. lia. }
    rewrite E.
    eapply perm_trans; [|apply (filter_partition_perm _ (has_uid (Z.of_nat s)) l)].
    apply Permutation_app_head. apply IH.
    intros r Hr. apply filter_In in Hr as [Hr Hne]. apply H in Hr.
    apply negb_true_iff in Hne. unfold has_uid in Hne. apply Z.eqb_neq in Hne. lia.
Qed.

Lemma buckets_perm : forall n l, (forall r, In r l -> 0 <= ruid r < Z.of_nat n) -> Permutation (buckets n l) l.
Proof. intros n l H. apply buckets_perm_gen. intros r Hr. apply H in Hr. simpl. lia. Qed.

Lemma buckets_sorted_gen : forall l n s,
  (forall u, In u (seq s n) -> StronglySorted tin_lt (history (Z.of_nat u) l)) ->
  StronglySorted rlt (flat_map (fun u => history (Z.of_nat u) l) (seq s n)).
Proof.
  induction n as [|n IH]; intros s H; simpl; [constructor|].
  apply SS_app.
  - eapply SS_impl_in; [|apply H; now left]. intros a b Ha Hb Hab.
    apply history_in in Ha as [_ Ha]. apply history_in in Hb as [_ Hb]. unfold rlt, tin_lt in *. lia.
  - apply IH. intros u Hu. apply H. now right.
  - intros a b Ha Hb. apply history_in in Ha as [_ Ha].
    apply in_flat_map in Hb as (u & Hu & Hb). apply history_in in Hb as [_ Hb]. apply in_seq in Hu.
    unfold rlt. lia.
Qed.

Lemma sort_is_buckets : forall n l, (forall r, In r l -> 0 <= ruid r < Z.of_nat n) ->
  (forall u, (u < n)%nat -> StronglySorted tin_lt (history (Z.of_nat u) l)) ->
  isort rec_leb l = buckets n l.
Proof.
  intros n l Hr Hs. apply sorted_unique.
  - eapply perm_trans; [apply output_perm | apply Permutation_sym, buckets_perm; assumption].
  - apply output_sorted.
  - apply buckets_sorted_gen. intros u Hu. apply in_seq in Hu. apply Hs. lia.
Qed.

Lemma map_ruid_singletons : forall (f : nat -> list record) l,
  (forall u, In u l -> exists r, f u = [r] /\ ruid r = Z.of_nat u) -> map ruid (flat_map f l) = map Z.of_nat l.
Proof.
  induction l as [|u l IH]; simpl; intros H; [reflexivity|].
  destruct (H u (or_introl eq_refl)) as (r & E & Hr). rewrite E. simpl. rewrite Hr. f_equal. apply IH. auto.
Qed.

(* ================================================================================================
   Part 4: the whole run *)
Definition plan_spec (c : cfg) (r : record) : Prop :=
  match c_plan c with
  | PAll => get (c_expo c) (r_seen r) = 1%Q
  | PNone => get (c_expo c) (r_seen r) = 0%Q
  | PNatural => exists d, get (c_expo c) (r_seen r) = b2q d
  | PCustom rule => exists d, get (c_expo c) (r_seen r) = b2q (rule (rtin r) (set (c_expo c) (b2q d) (r_seen r)))
  end.

Lemma step1_plan : forall c i u d, plan_spec c (step1 c i u d).
Proof.
  intros c i u d. unfold plan_spec, step1; simpl. unfold apply_plan. destruct (c_plan c) as [| | |rule].
  - apply get_set_same.
  - apply get_set_same.
  - exists (d_exp d). apply get_set_same.
  - exists (d_exp d). rewrite get_set_same, !set_set. reflexivity.
Qed.

Lemma firsts_incl : forall l prev b, In b (firsts prev l) -> In b l.
Proof.
  induction l as [|r l IH]; simpl; intros prev b H; [contradiction|].
  destruct prev as [p|].
  - destruct (p =? l_id r); [right; eauto|]. destruct H as [H|H]; [now left | right; eauto].
  - destruct H as [H|H]; [now left | right; eauto].
Qed.

Lemma baseline_incl : forall long b, In b (baseline long) -> In b long.
Proof.
  intros long b H. unfold baseline in H. apply firsts_incl in H.
  eapply Permutation_in; [apply isort_perm | exact H].
Qed.

Section Run.
Variables (c : cfg) (n : nat) (picks : list nat) (long : list lrow) (draws : list (list udraw)).
Notation base := (baseline long).
Notation pop := (init_pop n picks (baseline long)).
Notation T := (c_tmax c).
Notation full := (stacked false c pop draws).
Notation brow u := (nth (nth u picks O) (baseline long) row0).

Lemma pop_uids : map uid pop = zseq n.
Proof. unfold init_pop, zseq. rewrite map_map. reflexivity. Qed.

Lemma zseq_in : forall x, In x (zseq n) <-> exists u, (u < n)%nat /\ x = Z.of_nat u.
Proof.
  intros x. unfold zseq. rewrite in_map_iff. split.
  - intros (u & E & Hu). apply in_seq in Hu. exists u. split; [lia | now symmetry].
  - intros (u & Hu & E). exists u. split; [now symmetry | apply in_seq; lia].
Qed.

Lemma pop_nodup : NoDup (map uid pop).
Proof.
  rewrite pop_uids. unfold zseq. apply FinFun.Injective_map_NoDup; [|apply seq_NoDup].
  intros a b. apply Nat2Z.inj.
Qed.

Lemma full_concat : full = concat (steps c pop draws).
Proof. unfold stacked. now rewrite map_id. Qed.

Lemma low_filter : stacked true c pop draws = filter rterminal full.
Proof. rewrite full_concat. unfold stacked. apply concat_filter. Qed.

Lemma stacked_in_full : forall lm r, In r (stacked lm c pop draws) -> In r full.
Proof. intros [|] r H; [|assumption]. rewrite low_filter in H. now apply filter_In in H. Qed.

Lemma full_uid_range : forall r, In r full -> exists u, (u < n)%nat /\ ruid r = Z.of_nat u.
Proof.
  intros r H. rewrite full_concat in H. unfold steps in H. apply loop_uids in H. rewrite pop_uids in H. now apply zseq_in.
Qed.

Lemma full_history : forall u, (u < n)%nat ->
  exists ds, history (Z.of_nat u) full = traj c T 0 (init_unit base picks u) ds.
Proof.
  intros u Hu. rewrite full_concat. unfold steps.
  assert (Hin : In (init_unit base picks u) pop) by (unfold init_pop; apply in_map, in_seq; lia).
  destruct (loop_decompose c T 0 pop draws _ pop_nodup Hin) as (ds & E). now exists ds.
Qed.

Lemma full_history_sorted : forall u, (u < n)%nat -> StronglySorted tin_lt (history (Z.of_nat u) full).
Proof. intros u Hu. destruct (full_history u Hu) as (ds & E). rewrite E. eapply tins_sorted, traj_tins. Qed.

Lemma stacked_history : forall lm x,
  history x (stacked lm c pop draws) = if lm then filter rterminal (history x full) else history x full.
Proof. intros [|] x; [|reflexivity]. rewrite low_filter. unfold history. apply filter_comm. Qed.

Lemma stacked_history_sorted : forall lm u, (u < n)%nat -> StronglySorted tin_lt (history (Z.of_nat u) (stacked lm c pop draws)).
Proof.
  intros lm u Hu. rewrite stacked_history. destruct lm; [apply SS_filter|]; now apply full_history_sorted.
Qed.

Lemma run_in_full : forall lm r, In r (run lm c n picks long draws) -> In r full.
Proof.
  intros lm r H. unfold run, output in H. apply (Permutation_in _ (output_perm _)) in H. now apply stacked_in_full in H.
Qed.

(* histories of the output = histories of the stacked frames *)
Lemma run_history : forall lm u, (u < n)%nat ->
  history (Z.of_nat u) (run lm c n picks long draws) = if lm then filter rterminal (history (Z.of_nat u) full) else history (Z.of_nat u) full.
Proof.
  intros lm u Hu. unfold run, output. rewrite history_sorted_eq by now apply stacked_history_sorted.
  apply stacked_history.
Qed.

Lemma run_history_absent : forall lm x, ~ In x (zseq n) -> history x (run lm c n picks long draws) = [].
Proof.
  intros lm x H. destruct (history x (run lm c n picks long draws)) as [|r l] eqn:E; [reflexivity|].
  assert (Hr : In r (history x (run lm c n picks long draws))) by (rewrite E; now left).
  apply history_in in Hr as [Hr Hx]. apply run_in_full, full_uid_range in Hr as (u & Hu & Eu).
  exfalso. apply H. apply zseq_in. exists u. split; [assumption | congruence].
Qed.

Lemma run_is_buckets : forall lm, run lm c n picks long draws = buckets n (stacked lm c pop draws).
Proof.
  intros lm. unfold run, output. apply sort_is_buckets.
  - intros r Hr. apply stacked_in_full, full_uid_range in Hr as (u & Hu & E). lia.
  - intros u Hu. now apply stacked_history_sorted.
Qed.

Lemma init_at_risk : forall u, at_risk (init_unit base picks u) = true.
Proof. reflexivity. Qed.

(* the shape of every history of the stacked frames *)
Lemma full_shape : (1 <= T)%nat -> forall u, (u < n)%nat ->
  exists pre r, history (Z.of_nat u) full = pre ++ [r]
                /\ Forall (fun x => rterminal x = false) pre /\ rterminal r = true.
Proof.
  intros HT u Hu. destruct (full_history u Hu) as (ds & E).
  destruct (traj_shape c T 0 (init_unit base picks u) ds (init_at_risk u) HT) as (pre & r & E' & Hp & Hl).
  exists pre, r. rewrite E, E'. repeat split; auto. apply Hl. lia.
Qed.

(* ---------------------------------------------------------------------------------------------- the invariants *)
Theorem exactly_sample_units : (1 <= T)%nat -> forall lm,
  (forall r, In r (run lm c n picks long draws) ->
     exists u, (u < n)%nat /\ ruid r = Z.of_nat u /\ oid (r_unit r) = l_id (brow u)) /\
  (forall u, (u < n)%nat -> exists r, In r (run lm c n picks long draws) /\ ruid r = Z.of_nat u) /\
  map ruid (run true c n picks long draws) = zseq n.
Proof.
  intros HT lm. split; [|split].
  - intros r Hr. assert (Hf := run_in_full _ _ Hr). destruct (full_uid_range _ Hf) as (u & Hu & E).
    exists u. repeat split; auto.
    assert (Hh : In r (history (Z.of_nat u) full)).
    { apply filter_In. split; [assumption|]. unfold has_uid. now apply Z.eqb_eq. }
    destruct (full_history u Hu) as (ds & Ed). rewrite Ed in Hh. apply traj_ids in Hh as [_ Ho]. exact Ho.
  - intros u Hu. destruct (full_shape HT u Hu) as (pre & r & E & Hp & Hr).
    assert (Hin : In r (history (Z.of_nat u) (run lm c n picks long draws))).
    { rewrite run_history by assumption. rewrite E. destruct lm.
      - rewrite shape_terminal_filter by assumption. now left.
      - apply in_or_app. right. now left. }
    apply history_in in Hin. exists r. exact Hin.
  - rewrite run_is_buckets. unfold buckets, zseq. apply map_ruid_singletons.
    intros u Hu. apply in_seq in Hu. assert (Hu' : (u < n)%nat) by lia.
    destruct (full_shape HT u Hu') as (pre & r & E & Hp & Hr).
    exists r. rewrite stacked_history, E, shape_terminal_filter by assumption. split; [reflexivity|].
    assert (Hin : In r (history (Z.of_nat u) full)) by (rewrite E; apply in_or_app; right; now left).
    now apply history_in in Hin.
Qed.

Theorem at_most_one_event : (1 <= T)%nat -> forall lm x,
  (length (filter (fun r => has_uid x r && routc r) (run lm c n picks long draws)) <= 1)%nat.
Proof.
  intros HT lm x. rewrite filter_andb. fold (history x (run lm c n picks long draws)).
  destruct (in_dec Z.eq_dec x (zseq n)) as [Hx|Hx].
  - apply zseq_in in Hx as (u & Hu & E). subst x. rewrite run_history by assumption.
    destruct (full_shape HT u Hu) as (pre & r & E & Hp & Hr). rewrite E. destruct lm.
    + rewrite shape_terminal_filter by assumption. simpl. destruct (routc r); simpl; lia.
    + now apply shape_events.
  - rewrite run_history_absent by assumption. simpl. lia.
Qed.

Lemma in_snoc_tin : forall (h pre : list record) r x, h = pre ++ [r] -> map rtin h = zfrom 0 (length h) -> In x h -> rtin x <= rtin r.
Proof.
  intros h pre r x E Ht Hx. subst h. rewrite app_length in Ht. simpl in Ht.
  replace (length pre + 1)%nat with (S (length pre)) in Ht by lia.
  assert (Hx' : In (rtin x) (zfrom 0 (S (length pre)))) by (rewrite <- Ht; now apply in_map).
  apply zfrom_in in Hx'. rewrite zfrom_last, map_app in Ht. simpl in Ht. apply app_inj_tail in Ht as [_ Ht]. lia.
Qed.

Theorem no_record_after_event_or_censor : (1 <= T)%nat -> forall lm r1 r2,
  In r1 (run lm c n picks long draws) -> In r2 (run lm c n picks long draws) ->
  ruid r1 = ruid r2 -> rterminal r1 = true -> rtin r2 <= rtin r1.
Proof.
  intros HT lm r1 r2 H1 H2 E Hterm.
  destruct (full_uid_range _ (run_in_full _ _ H1)) as (u & Hu & Eu).
  assert (Hh : forall r, In r (run lm c n picks long draws) -> ruid r = Z.of_nat u -> In r (history (Z.of_nat u) full)).
  { intros r Hr Er. apply filter_In. split; [now apply run_in_full in Hr|]. unfold has_uid. now apply Z.eqb_eq. }
  assert (G1 := Hh r1 H1 Eu). assert (G2 := Hh r2 H2 ltac:(congruence)).
  destruct (full_history u Hu) as (ds & Ed).
  destruct (full_shape HT u Hu) as (pre & r & Es & Hp & Hr).
  assert (r1 = r).
  { rewrite Es in G1. apply in_app_or in G1 as [G1|[G1|[]]]; [|now symmetry].
    rewrite Forall_forall in Hp. apply Hp in G1. congruence. }
  subst r1. eapply in_snoc_tin; [exact Es | | exact G2]. rewrite Ed. apply traj_tins.
Qed.

Theorem record_times : forall lm r, In r (run lm c n picks long draws) ->
  0 <= rtin r /\ rtout r = rtin r + 1 /\ rtout r <= Z.of_nat T /\ (rtout r = Z.of_nat T -> runc r = false).
Proof.
  intros lm r H. apply run_in_full in H. rewrite full_concat in H. unfold steps in H.
  apply loop_records in H as (j & u & d & E & Hj). subst r.
  rewrite step1_tin, step1_tout. repeat split; try lia.
  intros HT. apply step1_last_terminal. unfold is_last. apply Z.eqb_eq. lia.
Qed.

Theorem intervals_consecutive_from_0 : (1 <= T)%nat -> forall u, (u < n)%nat ->
  exists k, (1 <= k <= T)%nat /\ map rtin (history (Z.of_nat u) (run false c n picks long draws)) = zseq k.
Proof.
  intros HT u Hu. rewrite run_history by assumption. destruct (full_history u Hu) as (ds & E). rewrite E.
  exists (length (traj c T 0 (init_unit base picks u) ds)). split.
  - split; [|apply traj_length].
    destruct (traj_shape c T 0 (init_unit base picks u) ds (init_at_risk u) HT) as (pre & r & E' & _).
    rewrite E', app_length. simpl. lia.
  - rewrite zseq_zfrom. apply traj_tins.
Qed.

Theorem plan_obeyed : forall lm r, In r (run lm c n picks long draws) -> plan_spec c r.
Proof.
  intros lm r H. apply run_in_full in H. rewrite full_concat in H. unfold steps in H.
  apply loop_records in H as (j & u & d & E & _). subst r. apply step1_plan.
Qed.

(* the exposure column of the stacked row is the exposure the plan produced, unless the user lags INTO it *)
Theorem stacked_exposure : ~ In (c_expo c) (map snd (c_lags c)) ->
  forall lm r, In r (run lm c n picks long draws) -> rexpo c r = get (c_expo c) (r_seen r).
Proof.
  intros Hn lm r H. apply run_in_full in H. rewrite full_concat in H. unfold steps in H.
  apply loop_records in H as (j & u & d & E & _). subst r. unfold rexpo. rewrite step1_env. now apply shift_other.
Qed.

Theorem lags_are_previous : lags_ok [] (c_lags c) -> lag_targets_free c -> forall u, (u < n)%nat ->
  lag_first (c_lags c) (l_env (brow u)) (history (Z.of_nat u) (run false c n picks long draws)).
Proof.
  intros Hok Hfree u Hu. rewrite run_history by assumption. destruct (full_history u Hu) as (ds & E). rewrite E.
  apply (traj_lags c Hok Hfree T 0 (init_unit base picks u) ds).
Qed.

Theorem low_memory_is_last_of_full : (1 <= T)%nat ->
  run true c n picks long draws = lasts n (run false c n picks long draws).
Proof.
  intros HT. rewrite run_is_buckets. unfold buckets, lasts. apply flat_map_ext_in.
  intros u Hu. apply in_seq in Hu. assert (Hu' : (u < n)%nat) by lia.
  rewrite stacked_history, run_history by assumption.
  destruct (full_shape HT u Hu') as (pre & r & E & Hp & Hr). rewrite E.
  now rewrite shape_terminal_filter, last_of_snoc.
Qed.

Theorem output_is_sorted_stack : forall lm,
  Permutation (run lm c n picks long draws) (stacked lm c pop draws) /\ StronglySorted rle (run lm c n picks long draws).
Proof. intros lm. split; [apply output_perm | apply output_sorted]. Qed.

End Run.

(* ---------------------------------------------------------------------------------------------- corollaries in pairwise form *)
Lemma tins_nth : forall h i j r, map rtin h = zfrom i (length h) -> nth_error h j = Some r -> rtin r = i + Z.of_nat j.
Proof.
  induction h as [|a h IH]; intros i j r Ht Hj; [destruct j; discriminate|].
  simpl length in Ht. rewrite zfrom_S in Ht. simpl in Ht. injection Ht as Ha Hh.
  destruct j as [|j]; simpl in Hj.
  - inversion Hj; subst. lia.
  - rewrite (IH (i + 1) j r Hh Hj). lia.
Qed.

Lemma lag_first_pairs : forall lags b h, lag_first lags b h -> map rtin h = zfrom 0 (length h) ->
  (forall r, In r h -> rtin r = 0 -> forall k v, In (k, v) lags -> get v (r_seen r) = get v b) /\
  (forall r r', In r h -> In r' h -> rtin r' = rtin r + 1 -> forall k v, In (k, v) lags -> get v (r_seen r') = get k (r_seen r)).
Proof.
  intros lags b h Hl Ht. split.
  - intros r Hr H0 k v Hin. apply In_nth_error in Hr as (j & Hj).
    assert (Ej := tins_nth _ _ _ _ Ht Hj). assert (j = O) by lia. subst j.
    destruct h as [|a h]; [discriminate|]. simpl in Hj. inversion Hj; subst. destruct Hl as [Hl _]. exact (Hl k v Hin).
  - intros r r' Hr Hr' Hs k v Hin.
    apply In_nth_error in Hr as (j & Hj). apply In_nth_error in Hr' as (j' & Hj').
    assert (Ej := tins_nth _ _ _ _ Ht Hj). assert (Ej' := tins_nth _ _ _ _ Ht Hj'). assert (j' = S j) by lia. subst j'.
    destruct h as [|a h]; [destruct j; discriminate|]. destruct Hl as [_ Hl].
    destruct j as [|j].
    + simpl in Hj. inversion Hj; subst. simpl in Hj'. destruct h as [|a' h]; [discriminate|].
      simpl in Hj'. inversion Hj'; subst. destruct Hl as [Hl _]. exact (Hl k v Hin).
    + simpl in Hj, Hj'. eapply lag_chain_nth; eauto.
Qed.

Definition lag_targets_freeb (c : cfg) : bool :=
  forallb (fun kv : var * var => negb (existsb (Nat.eqb (snd kv)) (cov_order c)) && negb (Nat.eqb (c_expo c) (snd kv))) (c_lags c).

Lemma lag_targets_freeb_ok : forall c, lag_targets_freeb c = true -> lag_targets_free c.
Proof.
  intros c H k v Hin. unfold lag_targets_freeb in H. rewrite forallb_forall in H. specialize (H _ Hin). simpl in H.
  apply andb_true_iff in H as [H1 H2]. apply negb_true_iff in H1, H2. split.
  - intro Hc. assert (existsb (Nat.eqb v) (cov_order c) = true); [|congruence].
    apply existsb_exists. exists v. split; [assumption | apply Nat.eqb_refl].
  - apply Nat.eqb_neq in H2. exact H2.
Qed.

Section Run2.
Variables (c : cfg) (n : nat) (picks : list nat) (long : list lrow) (draws : list (list udraw)).
Notation T := (c_tmax c).
Notation brow u := (nth (nth u picks O) (baseline long) row0).

Lemma run_history_tins : forall u, (u < n)%nat ->
  let h := history (Z.of_nat u) (run false c n picks long draws) in map rtin h = zfrom 0 (length h).
Proof.
  intros u Hu h. unfold h. rewrite run_history by assumption.
  destruct (full_history c n picks long draws u Hu) as (ds & E). rewrite E. apply traj_tins.
Qed.

(* each lagged variable equals the previous interval's value of its source; the sampled row's value in the first interval *)
Theorem lags_are_previous_pairs : lags_ok [] (c_lags c) -> lag_targets_free c ->
  forall r, In r (run false c n picks long draws) -> forall k v, In (k, v) (c_lags c) ->
    (rtin r = 0 -> exists u, (u < n)%nat /\ ruid r = Z.of_nat u /\ get v (r_seen r) = get v (l_env (brow u))) /\
    (forall r', In r' (run false c n picks long draws) -> ruid r' = ruid r -> rtin r' = rtin r + 1 ->
       get v (r_seen r') = get k (r_seen r)).
Proof.
  intros Hok Hfree r Hr k v Hin.
  destruct (full_uid_range c n picks long draws r (run_in_full _ _ _ _ _ _ _ Hr)) as (u & Hu & Eu).
  assert (Hh : forall x, In x (run false c n picks long draws) -> ruid x = Z.of_nat u ->
                         In x (history (Z.of_nat u) (run false c n picks long draws))).
  { intros x Hx Ex. apply filter_In. split; [assumption|]. unfold has_uid. now apply Z.eqb_eq. }
  destruct (lag_first_pairs _ _ _ (lags_are_previous c n picks long draws Hok Hfree u Hu) (run_history_tins u Hu)) as [P1 P2].
  split.
  - intros H0. exists u. repeat split; auto. apply (P1 r (Hh r Hr Eu) H0 k v Hin).
  - intros r' Hr' Eu' Hs. apply (P2 r r' (Hh r Hr Eu) (Hh r' Hr' ltac:(congruence)) Hs k v Hin).
Qed.

(* a custom rule that does not read the exposure column holds row by row on the simulated columns *)
Theorem custom_rule_obeyed : forall rule, c_plan c = PCustom rule ->
  (forall i e x, rule i (set (c_expo c) x e) = rule i e) ->
  forall lm r, In r (run lm c n picks long draws) -> get (c_expo c) (r_seen r) = b2q (rule (rtin r) (r_seen r)).
Proof.
  intros rule Hp Hind lm r Hr. assert (H := plan_obeyed c n picks long draws lm r Hr).
  unfold plan_spec in H. rewrite Hp in H. destruct H as (d & H). now rewrite Hind in H.
Qed.

End Run2.
