(* C12 -- proofs about Model.Icg: the backward loop with saturated sequential regressions computes the
   nonparametric g-formula; one time point = TimeFixedGFormula = standardisation; plan shape irrelevant. *)
From Coq Require Import QArith ZArith List Bool Arith Lia Lra Lqa Setoid Morphisms.
From Zepid Require Import Base.QSum Base.QUtil Model.Icg.
Import ListNotations.
Open Scope Q_scope.

(* ------------------------------------------------------------------------------------------------ lists *)
Lemma combine_map_r {A B} (g : A -> B) (l : list A) : combine l (map g l) = map (fun x => (x, g x)) l.
Proof. induction l as [|x xs IH]; simpl; [reflexivity|]. rewrite IH. reflexivity. Qed.

Lemma combine_repeat {A B} (l : list A) (p : B) : combine l (repeat p (length l)) = map (fun x => (x, p)) l.
Proof. induction l as [|x xs IH]; simpl; [reflexivity|]. rewrite IH. reflexivity. Qed.

Lemma repeat_map_const {A B} (l : list A) (p : B) : repeat p (length l) = map (fun _ => p) l.
Proof. induction l as [|x xs IH]; simpl; [reflexivity|]. rewrite IH. reflexivity. Qed.

Lemma filter_map_comm {A B} (p : B -> bool) (g : A -> B) (l : list A) :
  filter p (map g l) = map g (filter (fun x => p (g x)) l).
Proof. induction l as [|x xs IH]; simpl; [reflexivity|]. destruct (p (g x)); simpl; rewrite IH; reflexivity. Qed.

Lemma filter_and {A} (p q : A -> bool) (l : list A) : filter q (filter p l) = filter (fun x => p x && q x) l.
Proof. induction l as [|x xs IH]; simpl; [reflexivity|]. destruct (p x); simpl; [destruct (q x); simpl|]; rewrite IH; reflexivity. Qed.

Lemma filter_all {A} (p : A -> bool) (l : list A) : (forall x, In x l -> p x = true) -> filter p l = l.
Proof.
  induction l as [|x xs IH]; simpl; intros H; [reflexivity|].
  rewrite (H x (or_introl eq_refl)), IH; [reflexivity|]. intros y Hy. apply H. right. exact Hy.
Qed.

Lemma existsb_filter_nonempty {A} (p : A -> bool) (l : list A) : existsb p l = true -> filter p l <> [].
Proof.
  intros H. apply existsb_exists in H. destruct H as [x [Hx Hp]].
  intros E. assert (Hin : In x (filter p l)) by (apply filter_In; split; assumption). rewrite E in Hin. exact Hin.
Qed.

Lemma Qlen_map {A B} (g : A -> B) (l : list A) : Qlen (map g l) = Qlen l.
Proof. unfold Qlen. rewrite map_length. reflexivity. Qed.

Lemma Qlen_filter_split {A} (p q : A -> bool) (l : list A) :
  Qlen (filter p l) == Qlen (filter (fun x => p x && q x) l) + Qlen (filter (fun x => p x && negb (q x)) l).
Proof.
  rewrite <- !Qsum_one. rewrite (Qsum_filter_split q (fun _ => 1) (filter p l)). rewrite !filter_and. reflexivity.
Qed.

Lemma Qsum_filter_split2 {A} (p q : A -> bool) (f : A -> Q) (l : list A) :
  Qsum f (filter p l) == Qsum f (filter (fun x => p x && q x) l) + Qsum f (filter (fun x => p x && negb (q x)) l).
Proof. rewrite (Qsum_filter_split q f (filter p l)). rewrite !filter_and. reflexivity. Qed.

Lemma Qlen_nonempty {A} (l : list A) : l <> [] -> ~ Qlen l == 0.
Proof. intros H E. apply Qlen_pos in H. rewrite E in H. apply (Qlt_irrefl 0). exact H. Qed.

(* a sum whose summand depends on the row only through a boolean key *)
Definition okey {A} (key : A -> option bool) (b : bool) (x : A) : bool :=
  match key x with Some c => Bool.eqb c b | None => false end.

Lemma Qsum_by_bool {A} (key : A -> option bool) (g : bool -> Q) (f : A -> Q) (C : list A) :
  (forall x, In x C -> exists b, key x = Some b /\ f x == g b) ->
  Qsum f C == Qlen (filter (okey key false) C) * g false + Qlen (filter (okey key true) C) * g true.
Proof.
  induction C as [|x xs IH]; intros H.
  - simpl. unfold Qlen. simpl. ring.
  - destruct (H x (or_introl eq_refl)) as [b [Hk Hf]].
    assert (E0 : okey key false x = negb b) by (unfold okey; rewrite Hk; destruct b; reflexivity).
    assert (E1 : okey key true x = b) by (unfold okey; rewrite Hk; destruct b; reflexivity).
    cbn [Qsum filter]. rewrite IH by (intros y Hy; apply H; right; exact Hy). rewrite Hf, E0, E1.
    unfold Qlen.
    destruct b; cbn [negb length]; rewrite Nat2Z.inj_succ; unfold Z.succ; rewrite inject_Z_plus; ring.
Qed.

Lemma Qlen_by_bool {A} (key : A -> option bool) (C : list A) :
  (forall x, In x C -> exists b, key x = Some b) ->
  Qlen C == Qlen (filter (okey key false) C) + Qlen (filter (okey key true) C).
Proof.
  intros H. rewrite <- (Qsum_one C). rewrite (Qsum_by_bool key (fun _ => 1) (fun _ => 1) C); [ring|].
  intros x Hx. destruct (H x Hx) as [b Hb]. exists b. split; [exact Hb|reflexivity].
Qed.

(* ------------------------------------------------------------------------------------------------ histories *)
Lemma lb_eqb_eq a b : lb_eqb a b = true <-> a = b.
Proof.
  revert b. induction a as [|x xs IH]; intros [|y ys]; simpl; split; intros H; try reflexivity; try discriminate.
  - apply andb_true_iff in H. destruct H as [H1 H2]. apply eqb_prop in H1. apply IH in H2. subst. reflexivity.
  - inversion H; subst. apply andb_true_iff. split; [apply eqb_reflx|apply IH; reflexivity].
Qed.

Lemma lb_eqb_refl a : lb_eqb a a = true.
Proof. apply lb_eqb_eq. reflexivity. Qed.

Lemma oeqb_eq o l : oeqb o l = true <-> o = Some l.
Proof.
  destruct o as [x|]; simpl; [|split; discriminate].
  rewrite lb_eqb_eq. split; intros H; [subst; reflexivity|inversion H; reflexivity].
Qed.

Lemma bool_eq_iff (a b : bool) : (a = true <-> b = true) -> a = b.
Proof. destruct a, b; intros [H1 H2]; try reflexivity; [symmetry; apply H1|apply H2]; reflexivity. Qed.

Lemma opt_all_snoc l x :
  opt_all (l ++ [x]) = match opt_all l, x with Some h, Some b => Some (h ++ [b]) | _, _ => None end.
Proof.
  induction l as [|y ys IH]; simpl.
  - destruct x; reflexivity.
  - rewrite IH. destruct y; [|reflexivity]. destruct (opt_all ys); [|reflexivity]. destruct x; reflexivity.
Qed.

Lemma opt_all_length l h : opt_all l = Some h -> length h = length l.
Proof.
  revert h. induction l as [|y ys IH]; simpl; intros h H.
  - inversion H. reflexivity.
  - destruct y; [|discriminate]. destruct (opt_all ys) as [bs|]; [|discriminate]. inversion H. simpl. rewrite (IH bs eq_refl). reflexivity.
Qed.

Lemma firstn_S_snoc {A} (d : A) (l : list A) m : (m < length l)%nat -> firstn (S m) l = firstn m l ++ [nth m l d].
Proof.
  revert m. induction l as [|x xs IH]; intros m H; [simpl in H; lia|].
  destruct m as [|m]; [reflexivity|]. simpl in H. cbn [firstn nth app]. f_equal.
  apply IH. lia.
Qed.

Lemma histn_S f r m : (m < length r)%nat ->
  histn f r (S m) = match histn f r m, f (ob r m) with Some h, Some b => Some (h ++ [b]) | _, _ => None end.
Proof.
  intros H. unfold histn, ob. rewrite (firstn_S_snoc nob r m H), map_app. simpl map. apply opt_all_snoc.
Qed.

Lemma histn_length f r m h : histn f r m = Some h -> (m <= length r)%nat -> length h = m.
Proof.
  unfold histn. intros H Hm. apply opt_all_length in H. rewrite map_length, firstn_length in H. lia.
Qed.

Lemma histn_0 f r : histn f r 0 = Some [].
Proof. reflexivity. Qed.

Lemma oeqb_histn_S f r m lh l : (m < length r)%nat ->
  oeqb (histn f r (S m)) (lh ++ [l]) = oeqb (histn f r m) lh && okey (fun r => f (ob r m)) l r.
Proof.
  intros H. rewrite (histn_S f r m H). unfold okey. apply bool_eq_iff.
  destruct (histn f r m) as [h|]; simpl; [|split; discriminate].
  destruct (f (ob r m)) as [b|]; simpl.
  - rewrite andb_true_iff, !lb_eqb_eq. split.
    + intros E. apply app_inj_tail in E. destruct E; subst. split; [reflexivity|apply eqb_reflx].
    + intros [E1 E2]. apply eqb_prop in E2. subst. reflexivity.
  - rewrite andb_false_r. split; discriminate.
Qed.

(* ------------------------------------------------------------------------------------------------ the loop as a function of the row *)
Section Functional.
Variable reg : regressor.
Variable rps : list rp.

Definition pseudoF (k : nat) (F : rp -> option Q) (x : rp) : option Q := pseudo k (fst x) (F x).
Definition trainF (k : nat) (F : rp -> option Q) : list trainrow :=
  map (fun x => (tcell (fst x) (S k), pseudoF k F x)) rps.
Definition stepF (k : nat) (F : rp -> option Q) (x : rp) : option Q :=
  predict_row (reg (trainF k F)) k (x, pseudoF k F x).

Lemma icg_step_map k F : icg_step reg k rps (map F rps) = map (stepF k F) rps.
Proof.
  unfold icg_step, pseudo_col, train_of.
  rewrite combine_map_r, map_map. cbn [fst snd].
  change (map (fun x : rp => pseudo k (fst x) (F x)) rps) with (map (pseudoF k F) rps).
  rewrite combine_map_r, !map_map. cbn [fst snd]. reflexivity.
Qed.

(* d passes done, the next regression is for time point k-1 *)
Fixpoint FF (d k : nat) : rp -> option Q :=
  match d with O => fun _ => None | S d' => stepF k (FF d' (S k)) end.

Lemma icg_loop_map k : forall d, icg_loop reg k rps (map (FF d k) rps) = map (FF (d + k) 0) rps.
Proof.
  induction k as [|k IH]; intros d; cbn [icg_loop].
  - rewrite Nat.add_0_r. reflexivity.
  - rewrite icg_step_map. change (stepF k (FF d (S k))) with (FF (S d) k). rewrite IH.
    replace (S d + k)%nat with (d + S k)%nat by lia. reflexivity.
Qed.

Lemma icg_loop_FF K : icg_loop reg K rps (repeat None (length rps)) = map (FF K 0) rps.
Proof.
  rewrite repeat_map_const. change (map (fun _ : rp => None) rps) with (map (FF 0 K) rps).
  rewrite icg_loop_map. reflexivity.
Qed.
End Functional.

(* ------------------------------------------------------------------------------------------------ survival-type rows *)
Definition atrisk (r : row) (k : nat) : bool := is_some (out (ob r k)).

Lemma survivedb_S r k : survivedb r (S k) = survivedb r k && event_free (out (ob r k)).
Proof. unfold survivedb. rewrite seq_S, forallb_app. simpl. rewrite andb_true_r. reflexivity. Qed.

Record wf_facts (K : nat) (r : row) : Prop := {
  wf_len : length r = K;
  wf_risk : forall k, (k < K)%nat -> atrisk r k = survivedb r k;
  wf_bin : forall k y, (k < K)%nat -> out (ob r k) = Some y -> y == 0 \/ y == 1;
  wf_obs : forall k, (k < K)%nat -> atrisk r k = true -> is_some (tr (ob r k)) = true /\ is_some (cov (ob r k)) = true }.

Lemma surv_wfb_facts K r : surv_wfb K r = true -> wf_facts K r.
Proof.
  unfold surv_wfb. rewrite andb_true_iff, Nat.eqb_eq, forallb_forall. intros [Hl H].
  assert (H' : forall k, (k < K)%nat ->
     Bool.eqb (is_some (out (ob r k))) (survivedb r k) = true /\
     match out (ob r k) with Some y => Qeq_bool y 0 || Qeq_bool y 1 | None => true end = true /\
     (negb (is_some (out (ob r k))) || (is_some (tr (ob r k)) && is_some (cov (ob r k)))) = true).
  { intros k Hk. specialize (H k). rewrite in_seq in H. specialize (H ltac:(lia)).
    rewrite !andb_true_iff in H. tauto. }
  split.
  - exact Hl.
  - intros k Hk. apply eqb_prop. apply (H' k Hk).
  - intros k y Hk E. destruct (H' k Hk) as [_ [Hb _]]. rewrite E in Hb. apply orb_true_iff in Hb.
    destruct Hb as [Hb|Hb]; apply Qeq_bool_iff in Hb; [left|right]; exact Hb.
  - intros k Hk Ha. destruct (H' k Hk) as [_ [_ Ho]]. unfold atrisk in Ha. rewrite Ha in Ho. simpl in Ho.
    apply andb_true_iff in Ho. exact Ho.
Qed.

Section WF.
Variable K : nat.
Variable r : row.
Hypothesis W : wf_facts K r.

Lemma atrisk_overflow k : (K <= k)%nat -> atrisk r k = false.
Proof. intros H. unfold atrisk, ob. rewrite nth_overflow; [reflexivity|]. rewrite (wf_len K r W). exact H. Qed.

Lemma atrisk_lt k : atrisk r k = true -> (k < K)%nat.
Proof. intros H. destruct (le_lt_dec K k) as [L|L]; [|exact L]. rewrite (atrisk_overflow k L) in H. discriminate. Qed.

Lemma atrisk_mono k : atrisk r (S k) = true -> atrisk r k = true.
Proof.
  intros H. pose proof (atrisk_lt _ H) as L.
  rewrite (wf_risk K r W (S k) L), survivedb_S, andb_true_iff in H.
  rewrite (wf_risk K r W k ltac:(lia)). apply H.
Qed.

Lemma alive_zero k : atrisk r (S k) = true -> exists y, out (ob r k) = Some y /\ y == 0.
Proof.
  intros H. pose proof (atrisk_lt _ H) as L.
  rewrite (wf_risk K r W (S k) L), survivedb_S, andb_true_iff in H. destruct H as [_ H].
  unfold event_free in H. destruct (out (ob r k)) as [y|]; [|discriminate]. exists y. split; [reflexivity|].
  apply Qeq_bool_iff. exact H.
Qed.

Lemma dead_one k : (S k < K)%nat -> atrisk r k = true -> atrisk r (S k) = false ->
  exists y, out (ob r k) = Some y /\ y == 1.
Proof.
  intros L H1 H2. rewrite (wf_risk K r W (S k) L), survivedb_S in H2.
  rewrite <- (wf_risk K r W k ltac:(lia)), H1 in H2. simpl in H2.
  unfold atrisk in H1. destruct (out (ob r k)) as [y|] eqn:E; [|discriminate]. exists y. split; [reflexivity|].
  destruct (wf_bin K r W k y ltac:(lia) E) as [Z|Z]; [|exact Z].
  unfold event_free in H2. apply Qeq_bool_iff in Z. rewrite Z in H2. discriminate.
Qed.

Lemma hist_some k : atrisk r k = true ->
  (exists ah, histn tr r (S k) = Some ah) /\ (exists lh, histn cov r (S k) = Some lh).
Proof.
  induction k as [|k IH]; intros H; pose proof (atrisk_lt _ H) as L;
    destruct (wf_obs K r W _ L H) as [Ha Hl];
    rewrite (histn_S tr r _), (histn_S cov r _) by (rewrite (wf_len K r W); lia).
  - rewrite !histn_0. destruct (tr (ob r 0)), (cov (ob r 0)); try discriminate. split; eexists; reflexivity.
  - destruct (IH (atrisk_mono _ H)) as [[ah Ea] [lh El]]. rewrite Ea, El.
    destruct (tr (ob r (S k))), (cov (ob r (S k))); try discriminate. split; eexists; reflexivity.
Qed.
End WF.

(* ------------------------------------------------------------------------------------------------ main induction *)
Section Main.
Variable K : nat.
Variable plan : planrow.
Variable rows : list row.
Hypothesis Hplan : length plan = K.
Hypothesis Hwf : forall r, In r rows -> wf_facts K r.
Hypothesis Hpos : forall k r lh, (k < K)%nat -> In r rows -> atrisk r k = true -> histn cov r (S k) = Some lh ->
  filter (riskset k (firstn (S k) plan) lh) rows <> [].

Definition rps_of : list rp := map (fun r => (r, plan)) rows.

Definition G (d k : nat) (lh : list bool) : Q :=
  match d with
  | O => 0
  | S d' => haz plan rows k lh + (1 - haz plan rows k lh) * np_rec plan rows d' (S k) lh
  end.

Lemma firstn_plan_length k : (k <= K)%nat -> length (firstn k plan) = k.
Proof. intros H. rewrite firstn_length. lia. Qed.

Lemma in_train_riskset k lh r (y : option Q) : In r rows -> (k < K)%nat -> length lh = S k ->
  is_some y = atrisk r k ->
  in_train (firstn (S k) plan, lh) (tcell r (S k), y) = riskset k (firstn (S k) plan) lh r.
Proof.
  intros Hr Hk Hl Hy. unfold in_train, riskset, tcell. cbn [fst snd].
  rewrite (firstn_plan_length (S k)) by lia. rewrite Hl.
  rewrite <- (wf_risk K r (Hwf r Hr) k Hk), <- Hy.
  destruct (histn tr r (S k)) as [a|], (histn cov r (S k)) as [l|], y as [v|]; simpl; unfold cell_eqb; simpl;
    rewrite ?andb_false_r; reflexivity.
Qed.

(* next risk set = current cell, still event-free *)
Lemma riskset_S k lh r : In r rows -> (S k < K)%nat -> length lh = S k ->
  riskset (S k) (firstn (S k) plan) lh r = riskset k (firstn (S k) plan) lh r && atrisk r (S k).
Proof.
  intros Hr Hk Hl. unfold riskset. rewrite (wf_risk K r (Hwf r Hr) (S k) Hk), survivedb_S.
  destruct (survivedb r k), (event_free (out (ob r k))),
    (oeqb (histn tr r (length (firstn (S k) plan))) (firstn (S k) plan)), (oeqb (histn cov r (length lh)) lh); reflexivity.
Qed.

Lemma riskset_S_snoc k lh b r : In r rows -> (S k < K)%nat -> length lh = S k ->
  riskset (S k) (firstn (S k) plan) (lh ++ [b]) r =
  (riskset k (firstn (S k) plan) lh r && atrisk r (S k)) && okey (fun r => cov (ob r (S k))) b r.
Proof.
  intros Hr Hk Hl. rewrite <- (riskset_S k lh r Hr Hk Hl). unfold riskset.
  rewrite app_length, Hl. cbn [length]. replace (S k + 1)%nat with (S (S k)) by lia.
  rewrite (oeqb_histn_S cov r (S k) lh b) by (rewrite (wf_len K r (Hwf r Hr)); exact Hk).
  rewrite andb_assoc. reflexivity.
Qed.

Lemma FF_char : forall d k, (d + k = K)%nat -> forall r, In r rows ->
  (atrisk r k = false -> FF cellmean_reg rps_of d k (r, plan) = None) /\
  (atrisk r k = true -> exists v lh, FF cellmean_reg rps_of d k (r, plan) = Some v /\
                                     histn cov r (S k) = Some lh /\ v == G d k lh).
Proof.
  induction d as [|d IH]; intros k Hk r Hr.
  { split; [reflexivity|]. intros H. rewrite (atrisk_overflow K r (Hwf r Hr) k) in H by lia. discriminate. }
  assert (Lk : (k < K)%nat) by lia.
  specialize (IH (S k) ltac:(lia)).
  cbn [FF]. unfold stepF. set (Fn := FF cellmean_reg rps_of d (S k)) in *.
  assert (P1 : forall r', In r' rows -> is_some (pseudoF k Fn (r', plan)) = atrisk r' k).
  { intros r' Hr'. unfold pseudoF, pseudo. cbn [fst]. destruct (IH r' Hr') as [IHn IHs].
    destruct (atrisk r' (S k)) eqn:Ea.
    - destruct (IHs eq_refl) as (v & lh & E & _). rewrite E. simpl. symmetry.
      apply (atrisk_mono K r' (Hwf r' Hr')). exact Ea.
    - rewrite (IHn eq_refl). reflexivity. }
  split.
  { intros Hn. unfold predict_row. cbn [snd]. specialize (P1 r Hr). rewrite Hn in P1.
    destruct (pseudoF k Fn (r, plan)); [discriminate|reflexivity]. }
  intros Hs. destruct (hist_some K r (Hwf r Hr) k Hs) as [_ [lh Hlh]].
  assert (Hll : length lh = S k).
  { apply (histn_length cov r (S k) lh Hlh). rewrite (wf_len K r (Hwf r Hr)). lia. }
  unfold predict_row. cbn [fst snd]. specialize (P1 r Hr) as P1r. rewrite Hs in P1r.
  destruct (pseudoF k Fn (r, plan)) as [pv|]; [clear P1r|discriminate]. rewrite Hlh.
  set (pa := firstn (S k) plan). set (C := filter (riskset k pa lh) rows).
  set (g := fun r' : row => (tcell r' (S k), pseudoF k Fn (r', plan))).
  assert (Esel : filter (in_train (pa, lh)) (trainF rps_of k Fn) = map g C).
  { unfold trainF, rps_of. rewrite map_map. cbn [fst]. rewrite filter_map_comm. unfold C. f_equal.
    apply filter_ext_in. intros r' Hr'. apply in_train_riskset; auto. }
  assert (HC : C <> []) by (apply (Hpos k r lh); assumption).
  unfold cellmean_reg. rewrite Esel.
  destruct (map g C) eqn:Emap; [destruct C; [congruence|discriminate]|]. rewrite <- Emap. clear Emap.
  eexists. exists lh. split; [reflexivity|]. split; [reflexivity|].
  rewrite Qred_correct, Qsumr_eq, Qsum_map, Qlen_map. cbn [snd g].
  assert (NC : ~ Qlen C == 0) by (apply Qlen_nonempty; exact HC).
  unfold G, haz. fold pa. fold C.
  destruct d as [|d'].
  { (* last time point: the response is the observed outcome *)
    cbn [np_rec]. unfold Fn, pseudoF, pseudo. cbn [FF fst]. field. exact NC. }
  assert (Lk' : (S k < K)%nat) by lia.
  set (alive := fun r' : row => atrisk r' (S k)).
  set (CA := filter (fun r' => riskset k pa lh r' && alive r') rows).
  set (CD := filter (fun r' => riskset k pa lh r' && negb (alive r')) rows).
  set (key := fun r' : row => cov (ob r' (S k))).
  set (Gn := fun b : bool => G (S d') (S k) (lh ++ [b])).
  assert (InCA : forall r', In r' CA -> In r' rows /\ riskset k pa lh r' = true /\ atrisk r' (S k) = true).
  { intros r' H. apply filter_In in H. destruct H as [H1 H2]. apply andb_true_iff in H2. tauto. }
  assert (InCD : forall r', In r' CD -> In r' rows /\ riskset k pa lh r' = true /\ atrisk r' (S k) = false).
  { intros r' H. apply filter_In in H. destruct H as [H1 H2]. apply andb_true_iff in H2. destruct H2 as [H2 H3].
    apply negb_true_iff in H3. tauto. }
  assert (RiskAt : forall r', In r' rows -> riskset k pa lh r' = true -> atrisk r' k = true /\ histn cov r' (S k) = Some lh).
  { intros r' Hr' H. unfold riskset in H. rewrite !andb_true_iff in H. destruct H as [[H1 _] H3].
    rewrite (wf_risk K r' (Hwf r' Hr') k Lk). split; [exact H1|]. rewrite Hll in H3. apply oeqb_eq. exact H3. }
  (* the two halves of the cell *)
  assert (SumD : Qsum (fun r' => oval (pseudoF k Fn (r', plan))) CD == Qlen CD).
  { rewrite <- Qsum_one. apply Qsum_ext. intros r' H. destruct (InCD r' H) as (Hr' & Hrs & Hd).
    destruct (RiskAt r' Hr' Hrs) as [Hat _].
    unfold pseudoF, pseudo. cbn [fst]. destruct (IH r' Hr') as [IHn _]. rewrite (IHn Hd).
    destruct (dead_one K r' (Hwf r' Hr') k Lk' Hat Hd) as (y & E & Hy). rewrite E. exact Hy. }
  assert (SumA : Qsum (fun r' => oval (pseudoF k Fn (r', plan))) CA ==
                 Qlen (filter (okey key false) CA) * Gn false + Qlen (filter (okey key true) CA) * Gn true).
  { apply Qsum_by_bool. intros r' H. destruct (InCA r' H) as (Hr' & Hrs & Ha).
    destruct (RiskAt r' Hr' Hrs) as [_ Hh].
    destruct (IH r' Hr') as [_ IHs]. destruct (IHs Ha) as (v & lh' & E & Eh & Ev).
    rewrite (histn_S cov r' (S k)) in Eh by (rewrite (wf_len K r' (Hwf r' Hr')); exact Lk').
    rewrite Hh in Eh. unfold key. destruct (cov (ob r' (S k))) as [b|]; [|discriminate].
    exists b. split; [reflexivity|]. inversion Eh; subst lh'.
    unfold pseudoF, pseudo. cbn [fst]. rewrite E. exact Ev. }
  assert (YD : Qsum (fun r' => oval (out (ob r' k))) CD == Qlen CD).
  { rewrite <- Qsum_one. apply Qsum_ext. intros r' H. destruct (InCD r' H) as (Hr' & Hrs & Hd).
    destruct (RiskAt r' Hr' Hrs) as [Hat _].
    destruct (dead_one K r' (Hwf r' Hr') k Lk' Hat Hd) as (y & E & Hy). rewrite E. exact Hy. }
  assert (YA : Qsum (fun r' => oval (out (ob r' k))) CA == 0).
  { apply Qsum_zero. intros r' H. destruct (InCA r' H) as (Hr' & Hrs & Ha).
    destruct (alive_zero K r' (Hwf r' Hr') k Ha) as (y & E & Hy). rewrite E. exact Hy. }
  assert (LenC : Qlen C == Qlen CA + Qlen CD) by (apply Qlen_filter_split).
  assert (LenA : Qlen CA == Qlen (filter (okey key false) CA) + Qlen (filter (okey key true) CA)).
  { apply Qlen_by_bool. intros r' H. destruct (InCA r' H) as (Hr' & Hrs & Ha).
    destruct (wf_obs K r' (Hwf r' Hr') (S k) Lk' Ha) as [_ Hc]. unfold key.
    destruct (cov (ob r' (S k))) as [b|]; [exists b; reflexivity|discriminate]. }
  assert (Nden : Ncell rows (S k) (firstn (S k) plan) lh = Qlen CA).
  { unfold Ncell, CA. f_equal. apply filter_ext_in. intros r' Hr'. apply riskset_S; assumption. }
  assert (Nnum : forall b, Ncell rows (S k) (firstn (S k) plan) (lh ++ [b]) = Qlen (filter (okey key b) CA)).
  { intros b. unfold Ncell, CA. rewrite filter_and. f_equal. apply filter_ext_in. intros r' Hr'.
    apply riskset_S_snoc; assumption. }
  (* assemble *)
  assert (SplitP : Qsum (fun r' => oval (pseudoF k Fn (r', plan))) C ==
                   Qsum (fun r' => oval (pseudoF k Fn (r', plan))) CA + Qsum (fun r' => oval (pseudoF k Fn (r', plan))) CD)
    by (apply Qsum_filter_split2).
  assert (SplitY : Qsum (fun r' => oval (out (ob r' k))) C ==
                   Qsum (fun r' => oval (out (ob r' k))) CA + Qsum (fun r' => oval (out (ob r' k))) CD)
    by (apply Qsum_filter_split2).
  rewrite SplitP, SplitY, SumA, SumD, YA, YD.
  change (np_rec plan rows (S d') (S k) lh) with
    (Qsum (fun l => fprop plan rows (S k) lh l * Gn l) [false; true]).
  cbn [Qsum]. unfold fprop. rewrite Nden, !Nnum.
  set (nf := Qlen (filter (okey key false) CA)) in *. set (nt := Qlen (filter (okey key true) CA)) in *.
  set (M := Qlen CA) in *. set (E := Qlen CD) in *. set (N := Qlen C) in *.
  assert (Hnf : 0 <= nf) by apply Qlen_nonneg. assert (Hnt : 0 <= nt) by apply Qlen_nonneg.
  clearbody nf nt M E N. clear - NC LenC LenA Hnf Hnt.
  destruct (Qeq_dec M 0) as [M0|M0].
  - assert (Zf : nf == 0) by lra. assert (Zt : nt == 0) by lra.
    rewrite Zf, Zt. setoid_replace (0 / M) with 0 by (unfold Qdiv; ring). field. exact NC.
  - rewrite LenA in M0. rewrite LenC, LenA in NC. rewrite LenC, LenA. field. split; assumption.
Qed.
End Main.

(* ------------------------------------------------------------------------------------------------ general K *)
Lemma somes_all_some {A} (f : A -> option Q) (l : list A) :
  (forall x, In x l -> is_some (f x) = true) -> somes (map f l) = map (fun x => oval (f x)) l.
Proof.
  induction l as [|x xs IH]; intros H; [reflexivity|]. cbn [map somes].
  pose proof (H x (or_introl eq_refl)) as Hx. destruct (f x) as [v|]; [|discriminate].
  cbn [oval]. rewrite IH by (intros y Hy; apply H; right; exact Hy). reflexivity.
Qed.

Lemma mean_skipna_all {A} (f : A -> option Q) (l : list A) : l <> [] ->
  (forall x, In x l -> is_some (f x) = true) ->
  exists v, mean_skipna (map f l) = Some v /\ v == Qsum (fun x => oval (f x)) l / Qlen l.
Proof.
  intros Hne H. unfold mean_skipna. rewrite (somes_all_some f l H).
  destruct l as [|x xs]; [congruence|]. cbn [map]. eexists. split; [reflexivity|].
  rewrite Qred_correct, Qsumr_eq.
  change (oval (f x) :: map (fun x0 => oval (f x0)) xs) with (map (fun x0 => oval (f x0)) (x :: xs)).
  rewrite Qsum_map, Qlen_map. reflexivity.
Qed.

Lemma positivityb_facts K plan rows : length plan = K -> (forall r, In r rows -> wf_facts K r) ->
  positivityb plan rows = true ->
  forall k r lh, (k < K)%nat -> In r rows -> atrisk r k = true -> histn cov r (S k) = Some lh ->
  filter (riskset k (firstn (S k) plan) lh) rows <> [].
Proof.
  intros Hp Hwf H k r lh Hk Hr Ha Hh. unfold positivityb in H. rewrite forallb_forall in H.
  specialize (H k). rewrite in_seq, Hp in H. specialize (H ltac:(lia)). rewrite forallb_forall in H.
  specialize (H r Hr). rewrite <- (wf_risk K r (Hwf r Hr) k Hk), Ha, Hh in H. simpl in H.
  apply existsb_filter_nonempty. exact H.
Qed.

(* THE MAIN THEOREM: for every number of time points K >= 1, every static plan, every survival-type wide data set
   satisfying positivity for the plan, the backward loop with saturated (cell-mean) sequential regressions
   returns a number, and that number is the nonparametric g-formula cumulative risk by direct stratification *)
Theorem icg_eq_np_gformula : forall K (plan : planrow) rows, (0 < K)%nat -> length plan = K -> rows <> [] ->
  forallb (surv_wfb K) rows = true -> positivityb plan rows = true ->
  exists v, icg_fit K (PlanRow plan) rows = Some (Some v) /\ v == np_gformula plan rows.
Proof.
  intros K plan rows HK Hp Hne Hwfb Hposb.
  assert (Hwf : forall r, In r rows -> wf_facts K r).
  { intros r Hr. apply surv_wfb_facts. rewrite forallb_forall in Hwfb. apply Hwfb. exact Hr. }
  pose proof (positivityb_facts K plan rows Hp Hwf Hposb) as Hpos.
  unfold icg_fit, icg_fit_gen, expand_plan. rewrite Hp, Nat.eqb_refl, combine_repeat.
  change (map (fun x : row => (x, plan)) rows) with (rps_of plan rows).
  replace (length rows) with (length (rps_of plan rows)) by (unfold rps_of; apply map_length).
  rewrite icg_loop_FF. unfold rps_of at 2. rewrite map_map.
  assert (Hat0 : forall r, In r rows -> atrisk r 0 = true).
  { intros r Hr. rewrite (wf_risk K r (Hwf r Hr) 0 HK). reflexivity. }
  pose proof (FF_char K plan rows Hp Hwf Hpos K 0 ltac:(lia)) as Ch.
  destruct (mean_skipna_all (fun r => FF cellmean_reg (rps_of plan rows) K 0 (r, plan)) rows Hne) as (v & Ev & Hv).
  { intros r Hr. destruct (Ch r Hr) as [_ Cs]. destruct (Cs (Hat0 r Hr)) as (w & lh & E & _). cbv beta. rewrite E. reflexivity. }
  exists v. split; [rewrite Ev; reflexivity|]. rewrite Hv. clear Ev Hv v.
  unfold np_gformula. rewrite Hp. destruct K as [|d]; [lia|].
  set (key := fun r : row => cov (ob r 0)).
  set (Gn := fun b : bool => G plan rows (S d) 0 ([] ++ [b])).
  change (np_rec plan rows (S d) 0 []) with (Qsum (fun l => fprop plan rows 0 [] l * Gn l) [false; true]).
  rewrite (Qsum_by_bool key Gn).
  2:{ intros r Hr. destruct (Ch r Hr) as [_ Cs]. destruct (Cs (Hat0 r Hr)) as (w & lh & E & Eh & Ew).
      rewrite (histn_S cov r 0) in Eh by (rewrite (wf_len _ r (Hwf r Hr)); lia). rewrite histn_0 in Eh.
      unfold key. destruct (cov (ob r 0)) as [b|]; [|discriminate]. exists b. split; [reflexivity|].
      inversion Eh; subst lh. rewrite E. exact Ew. }
  assert (Nden : Ncell rows 0 (firstn 0 plan) [] = Qlen rows).
  { unfold Ncell. f_equal. apply filter_all. intros r _. reflexivity. }
  assert (Nnum : forall b, Ncell rows 0 (firstn 0 plan) ([] ++ [b]) = Qlen (filter (okey key b) rows)).
  { intros b. unfold Ncell. f_equal. apply filter_ext_in. intros r Hr. unfold riskset.
    cbn [firstn length survivedb seq forallb]. rewrite app_length. cbn [length plus].
    rewrite (oeqb_histn_S cov r 0 [] b) by (rewrite (wf_len _ r (Hwf r Hr)); lia). reflexivity. }
  cbn [Qsum]. unfold fprop. rewrite Nden, !Nnum.
  assert (NC : ~ Qlen rows == 0) by (apply Qlen_nonempty; exact Hne).
  field. exact NC.
Qed.

(* the same statement for K = 2 and K = 3 (instances, kept because the property names these sizes) *)
Corollary icg_eq_np_gformula_K2 : forall a0 a1 rows, rows <> [] ->
  forallb (surv_wfb 2) rows = true -> positivityb [a0; a1] rows = true ->
  exists v, icg_fit 2 (PlanRow [a0; a1]) rows = Some (Some v) /\ v == np_gformula [a0; a1] rows.
Proof. intros. apply icg_eq_np_gformula; auto. Qed.

Corollary icg_eq_np_gformula_K3 : forall a0 a1 a2 rows, rows <> [] ->
  forallb (surv_wfb 3) rows = true -> positivityb [a0; a1; a2] rows = true ->
  exists v, icg_fit 3 (PlanRow [a0; a1; a2]) rows = Some (Some v) /\ v == np_gformula [a0; a1; a2] rows.
Proof. intros. apply icg_eq_np_gformula; auto. Qed.

(* ------------------------------------------------------------------------------------------------ plan shape *)
Theorem icg_plan_rows_irrelevant : forall reg K p ps rows, length p = K -> length ps = length rows ->
  Forall (eq p) ps -> icg_fit_gen reg K (PlanRows ps) rows = icg_fit_gen reg K (PlanRow p) rows.
Proof.
  intros reg K p ps rows Hp Hl Hall.
  assert (E : ps = repeat p (length rows)).
  { rewrite <- Hl. clear Hl. induction Hall as [|x xs Hx _ IH]; [reflexivity|]. simpl. subst x. rewrite <- IH. reflexivity. }
  unfold icg_fit_gen, expand_plan. rewrite Hp, Nat.eqb_refl.
  assert (V : (length ps =? length rows) && forallb (fun q : planrow => length q =? K) ps = true).
  { rewrite Hl, Nat.eqb_refl. simpl. apply forallb_forall. intros q Hq. rewrite Forall_forall in Hall.
    rewrite <- (Hall q Hq), Hp. apply Nat.eqb_refl. }
  match goal with |- match (if ?b then _ else _) with _ => _ end = _ => replace b with true by (symmetry; exact V) end.
  rewrite E. reflexivity.
Qed.

(* ------------------------------------------------------------------------------------------------ one time point *)
Definition complete1 (r : row) : bool :=
  match r with [o] => is_some (tr o) && is_some (cov o) && is_some (out o) | _ => false end.

Lemma tfg_kept_all os : (forall o, In o os -> is_some (tr o) && is_some (cov o) = true) ->
  filter (fun o => is_some (tr o) && is_some (cov o)) os = os.
Proof. intros H. apply filter_all. exact H. Qed.

(* K = 1: IterativeCondGFormula and TimeFixedGFormula with the same regression (ANY regression oracle, any
   outcome values) return the same thing, NaN included *)
Theorem icg_K1_eq_timefixed : forall reg a rows, forallb complete1 rows = true ->
  icg_fit_gen reg 1 (PlanRow [a]) rows = Some (tfg_fit reg a (map (fun r => ob r 0) rows)).
Proof.
  intros reg a rows H. rewrite forallb_forall in H.
  assert (Hc : forall r, In r rows -> exists x l y, r = [mkObs (Some x) (Some l) (Some y)]).
  { intros r Hr. specialize (H r Hr). unfold complete1 in H. destruct r as [|o [|? ?]]; try discriminate.
    destruct o as [[x|] [l|] [y|]]; try discriminate. exists x, l, y. reflexivity. }
  unfold icg_fit_gen, expand_plan. cbn [length Nat.eqb]. f_equal. rewrite combine_repeat.
  set (rps := map (fun x : row => (x, [a])) rows).
  replace (length rows) with (length rps) by (apply map_length).
  rewrite icg_loop_FF. cbn [FF]. unfold tfg_fit.
  rewrite tfg_kept_all.
  2:{ intros o Ho. apply in_map_iff in Ho. destruct Ho as (r & E & Hr). destruct (Hc r Hr) as (x & l & y & Er).
      subst r o. reflexivity. }
  assert (Et : trainF rps 0 (fun _ => None) =
               map (fun o : obs => (match tr o, cov o with Some x0, Some l => Some ([x0], [l]) | _, _ => None end, out o))
                   (map (fun r : row => ob r 0) rows)).
  { unfold trainF, rps. rewrite !map_map. apply map_ext_in. intros r Hr.
    destruct (Hc r Hr) as (x & l & y & Er). subst r. reflexivity. }
  unfold stepF. rewrite Et. unfold rps. rewrite !map_map. f_equal. apply map_ext_in. intros r Hr.
  destruct (Hc r Hr) as (x & l & y & Er). subst r. reflexivity.
Qed.

(* ... and with the saturated model that common value is the standardised mean over the covariate strata *)
Theorem tfg_saturated_is_standardisation : forall a os, os <> [] ->
  (forall o, In o os -> is_some (tr o) && is_some (cov o) && is_some (out o) = true) ->
  (forall o, In o os -> exists o', In o' os /\ tr o' = Some a /\ cov o' = cov o) ->
  exists v, tfg_fit cellmean_reg a os = Some v /\ v == std1 a os.
Proof.
  intros a os Hne Hc Hpos. unfold tfg_fit. rewrite tfg_kept_all.
  2:{ intros o Ho. specialize (Hc o Ho). rewrite !andb_true_iff in Hc. apply andb_true_iff. tauto. }
  set (train := map (fun o => (match tr o, cov o with Some x, Some l => Some ([x], [l]) | _, _ => None end, out o)) os).
  set (cellL := fun l : bool => filter (fun o => oeqb (opt_all [tr o]) [a]) (filter (fun o => oeqb (opt_all [cov o]) [l]) os)).
  assert (Esel : forall l, filter (in_train ([a], [l])) train =
                           map (fun o => (match tr o, cov o with Some x, Some l => Some ([x], [l]) | _, _ => None end, out o)) (cellL l)).
  { intros l. unfold train, cellL. rewrite filter_map_comm, filter_and. f_equal. apply filter_ext_in.
    intros o Ho. specialize (Hc o Ho). destruct o as [[x|] [c|] [y|]]; try discriminate.
    unfold in_train, cell_eqb. cbn. rewrite !andb_true_r. apply andb_comm. }
  assert (Hcell : forall o l, In o os -> cov o = Some l -> cellL l <> []).
  { intros o l Ho El. destruct (Hpos o Ho) as (o' & Ho' & Ea & Ec). intros E.
    assert (Hin : In o' (cellL l)).
    { unfold cellL. apply filter_In. split; [apply filter_In; split; [exact Ho'|]|].
      - rewrite Ec, El. cbn. rewrite eqb_reflx. reflexivity.
      - rewrite Ea. cbn. rewrite eqb_reflx. reflexivity. }
    rewrite E in Hin. exact Hin. }
  set (mu := fun l : bool => Qsum (fun o => oval (out o)) (cellL l) / Qlen (cellL l)).
  assert (Hpred : forall o, In o os -> exists l w, cov o = Some l /\ cellmean_reg train ([a], [l]) = Some w /\ w == mu l).
  { intros o Ho. pose proof (Hc o Ho) as Hco. destruct (cov o) as [l|] eqn:El; [|rewrite andb_false_r in Hco; discriminate].
    exists l. unfold cellmean_reg. rewrite Esel. pose proof (Hcell o l Ho El) as Hn.
    match goal with |- context [map ?g (cellL l)] => set (gg := g) end.
    destruct (map gg (cellL l)) eqn:Em; [destruct (cellL l); [congruence|discriminate]|]. rewrite <- Em. clear Em.
    eexists. split; [reflexivity|]. split; [reflexivity|].
    rewrite Qred_correct, Qsumr_eq, Qsum_map, Qlen_map. unfold gg. cbn [snd]. reflexivity. }
  destruct (mean_skipna_all (fun o => match cov o with Some l => cellmean_reg train ([a], [l]) | None => None end) os Hne) as (v & Ev & Hv).
  { intros o Ho. destruct (Hpred o Ho) as (l & w & El & Ew & _). rewrite El, Ew. reflexivity. }
  exists v. split; [exact Ev|]. rewrite Hv. unfold std1.
  rewrite (Qsum_by_bool cov mu).
  2:{ intros o Ho. destruct (Hpred o Ho) as (l & w & El & Ew & Hw). exists l. split; [exact El|]. rewrite El, Ew. exact Hw. }
  assert (Ef : forall l, filter (okey cov l) os = filter (fun o => oeqb (opt_all [cov o]) [l]) os).
  { intros l. apply filter_ext. intros o. unfold okey. destruct (cov o) as [c|]; cbn; [rewrite andb_true_r|]; reflexivity. }
  cbn [Qsum]. fold (cellL false) (cellL true). fold (mu false) (mu true). rewrite !Ef.
  assert (NC : ~ Qlen os == 0) by (apply Qlen_nonempty; exact Hne).
  field. exact NC.
Qed.

(* ------------------------------------------------------------------------------------------------ nested form = textbook form *)
Section Flat.
Variable plan : planrow.
Variable rows : list row.

Definition fterm (k m : nat) (H : list bool) : Q :=
  Qprod (fun j => fprop plan rows j (firstn j H) (nth j H false)) (seq k (S m)) *
  Qprod (fun j => 1 - haz plan rows j (firstn (S j) H)) (seq k m) *
  haz plan rows (k + m) H.

Lemma firstn_app_exact {A} (l x : list A) k : length l = k -> firstn k (l ++ x) = l.
Proof. intros H. rewrite firstn_app, H, Nat.sub_diag, firstn_O, app_nil_r. apply firstn_all2. lia. Qed.

Lemma nth_app_exact {A} (l x : list A) (a d : A) k : length l = k -> nth k (l ++ a :: x) d = a.
Proof. intros H. rewrite app_nth2 by lia. rewrite H, Nat.sub_diag. reflexivity. Qed.

Lemma fterm_0 k lh l : length lh = k ->
  fterm k 0 (lh ++ [l]) == fprop plan rows k lh l * haz plan rows k (lh ++ [l]).
Proof.
  intros H. unfold fterm. cbn [seq Qprod]. rewrite (firstn_app_exact lh [l] k H), (nth_app_exact lh [] l false k H).
  rewrite Nat.add_0_r. ring.
Qed.

Lemma fterm_S k m lh l e : length lh = k ->
  fterm k (S m) (lh ++ l :: e) ==
  fprop plan rows k lh l * (1 - haz plan rows k (lh ++ [l])) * fterm (S k) m ((lh ++ [l]) ++ e).
Proof.
  intros H. unfold fterm. rewrite <- app_assoc. cbn [app].
  change (seq k (S (S m))) with (k :: seq (S k) (S m)). change (seq k (S m)) with (k :: seq (S k) m).
  cbn [Qprod]. rewrite (firstn_app_exact lh (l :: e) k H), (nth_app_exact lh e l false k H).
  replace (firstn (S k) (lh ++ l :: e)) with (lh ++ [l]).
  2:{ change (lh ++ l :: e) with (lh ++ [l] ++ e). rewrite app_assoc. symmetry. apply firstn_app_exact.
      rewrite app_length, H. simpl. lia. }
  replace (k + S m)%nat with (S k + m)%nat by lia. ring.
Qed.

Lemma np_rec_flat : forall d k lh, length lh = k ->
  np_rec plan rows d k lh == Qsum (fun m => Qsum (fun e => fterm k m (lh ++ e)) (all_hists (S m))) (seq 0 d).
Proof.
  induction d as [|d IH]; intros k lh H; [reflexivity|].
  change (seq 0 (S d)) with (0%nat :: seq 1 d). rewrite <- seq_shift. cbn [Qsum np_rec]. rewrite (Qsum_map S).
  (* m = 0 *)
  change (all_hists 1) with [[false]; [true]]. cbn [Qsum].
  rewrite !(fterm_0 k lh _ H).
  (* m >= 1 *)
  assert (E : forall m, Qsum (fun e => fterm k (S m) (lh ++ e)) (all_hists (S (S m))) ==
              fprop plan rows k lh false * (1 - haz plan rows k (lh ++ [false])) *
                Qsum (fun e => fterm (S k) m ((lh ++ [false]) ++ e)) (all_hists (S m)) +
              fprop plan rows k lh true * (1 - haz plan rows k (lh ++ [true])) *
                Qsum (fun e => fterm (S k) m ((lh ++ [true]) ++ e)) (all_hists (S m))).
  { intros m. change (all_hists (S (S m))) with (map (cons false) (all_hists (S m)) ++ map (cons true) (all_hists (S m))).
    rewrite Qsum_app, !Qsum_map, <- !Qsum_scal. apply Qplus_comp; apply Qsum_ext_all; intros e; apply fterm_S; exact H. }
  rewrite (Qsum_ext_all _ _ (seq 0 d) E), Qsum_plus, !Qsum_scal.
  assert (Hl : forall l, length (lh ++ [l]) = S k) by (intros l; rewrite app_length, H; simpl; lia).
  rewrite <- (IH (S k) (lh ++ [false]) (Hl false)), <- (IH (S k) (lh ++ [true]) (Hl true)). ring.
Qed.

Theorem np_nested_eq_flat : np_gformula plan rows == np_gformula_flat plan rows.
Proof. unfold np_gformula, np_gformula_flat. rewrite (np_rec_flat (length plan) 0 [] eq_refl). reflexivity. Qed.
End Flat.
