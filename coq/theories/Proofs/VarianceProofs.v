From Coq Require Import QArith List Bool Lia Lra Lqa Psatz Permutation Arith.
From Zepid Require Import Base.QSum Base.QUtil Base.Rows Model.Estimators Model.Variance.
Import ListNotations.
Open Scope Q_scope.

Lemma Qsq_nonneg x : 0 <= x * x.
Proof. nra. Qed.

Lemma Qmean_list_eq v : Qmean_list v == Qsum (fun x => x) v / Qlen v.
Proof. unfold Qmean_list. rewrite Qred_correct, Qsumr_eq. reflexivity. Qed.
Lemma var_ddof1_eq v :
  var_ddof1 v == Qsum (fun x => (x - Qmean_list v) * (x - Qmean_list v)) v / (Qlen v - 1).
Proof.
  unfold var_ddof1. cbv zeta. rewrite Qred_correct, Qsumr_eq.
  apply Qdiv_comp; [|reflexivity]. apply Qsum_ext_all. intros x. apply Qred_correct.
Qed.

(* the sample variance is non-negative whenever it is defined (two or more values) *)
Theorem var_ddof1_nonneg v : (2 <= length v)%nat -> 0 <= var_ddof1 v.
Proof.
  intros Hn. rewrite var_ddof1_eq. apply Qle_shift_div_l.
  - unfold Qlen. assert (H : inject_Z 2 <= inject_Z (Z.of_nat (length v))) by (rewrite <- Zle_Qle; lia).
    change (inject_Z 2) with 2 in H. lra.
  - rewrite Qmult_0_l. apply Qsum_nonneg. intros x _. apply Qsq_nonneg.
Qed.
Theorem ic_var_nonneg v n : (2 <= length (keep_some v))%nat -> 0 < n -> 0 <= ic_var v n.
Proof.
  intros Hv Hn. unfold ic_var. apply Qle_shift_div_l; [exact Hn|]. rewrite Qmult_0_l. apply var_ddof1_nonneg.
  rewrite map_length. exact Hv.
Qed.

(* shifting every influence value by a constant (e.g. centring at the estimate) does not change the variance *)
Lemma Qmean_list_shift c v : v <> [] -> Qmean_list (map (fun x => x + c) v) == Qmean_list v + c.
Proof.
  intros Hne. rewrite !Qmean_list_eq. rewrite Qsum_map. unfold Qlen. rewrite map_length.
  rewrite (Qsum_plus (fun x => x) (fun _ => c)), Qsum_const.
  assert (Hp : 0 < inject_Z (Z.of_nat (length v))).
  { pose proof (Qlen_pos v Hne) as H. unfold Qlen in H. exact H. }
  field. intros E. rewrite E in Hp. lra.
Qed.
Theorem var_shift c v : v <> [] -> var_ddof1 (map (fun x => x + c) v) == var_ddof1 v.
Proof.
  intros Hne. rewrite !var_ddof1_eq.
  assert (EL : Qlen (map (fun x => x + c) v) = Qlen v) by (unfold Qlen; rewrite map_length; reflexivity).
  rewrite EL. apply Qdiv_comp; [|reflexivity]. rewrite Qsum_map. apply Qsum_ext_all. intros x.
  rewrite (Qmean_list_shift c v Hne). ring.
Qed.

Theorem stmle_var_nonneg v : v <> [] -> 0 <= stmle_var v.
Proof.
  intros Hne. pose proof (Qlen_pos v Hne) as Hp. unfold stmle_var, mean_sq.
  apply Qle_shift_div_l; [exact Hp|]. rewrite Qmult_0_l. apply Qle_shift_div_l; [exact Hp|]. rewrite Qmult_0_l.
  apply Qsum_nonneg. intros x _. apply Qsq_nonneg.
Qed.

(* sandwich: non-negative *)
Lemma div_nonneg x y : 0 <= x -> 0 <= y -> 0 <= x / y.
Proof.
  intros Hx Hy. destruct (Qeq_dec y 0) as [E|NE].
  - rewrite E. unfold Qdiv. setoid_replace (/ 0) with 0 by reflexivity. rewrite Qmult_0_r. apply Qle_refl.
  - apply Qle_shift_div_l; [|rewrite Qmult_0_l; exact Hx].
    destruct (Qlt_le_dec 0 y) as [H|H]; [exact H|]. exfalso. apply NE. apply Qle_antisym; assumption.
Qed.
Theorem sw_var_mu_nonneg W a l : 0 <= sw_var_mu W a l.
Proof.
  unfold sw_var_mu. cbv zeta. apply div_nonneg; [|apply Qsq_nonneg].
  unfold sw_num. apply Qsum_nonneg. intros r _.
  pose proof (Qsq_nonneg (W r)) as HA. pose proof (Qsq_nonneg (yval r - arm_mean W a l)) as HB.
  set (A := W r * W r) in *. set (B := (yval r - arm_mean W a l) * (yval r - arm_mean W a l)) in *.
  unfold ind. destruct (arm a r), (obs r); nra.
Qed.
Theorem sw_var_rd_nonneg W l : 0 <= sw_var_rd W l.
Proof. unfold sw_var_rd. pose proof (sw_var_mu_nonneg W true l). pose proof (sw_var_mu_nonneg W false l). lra. Qed.

(* ---------------------------------------------------------------------------- pooling *)
Lemma insertq_perm x l : Permutation (x :: l) (insertq x l).
Proof.
  induction l as [|y ys IH]; simpl; [apply Permutation_refl|].
  destruct (Qle_bool x y); [apply Permutation_refl|].
  eapply perm_trans; [apply perm_swap|]. apply perm_skip. exact IH.
Qed.
Lemma sortq_perm l : Permutation l (sortq l).
Proof.
  induction l as [|x xs IH]; simpl; [apply perm_nil|].
  eapply perm_trans; [apply perm_skip; exact IH|]. apply insertq_perm.
Qed.
Lemma sortq_length l : length (sortq l) = length l.
Proof. symmetry. apply Permutation_length. apply sortq_perm. Qed.

Lemma nth_Forall (P : Q -> Prop) l i : P 0 -> Forall P l -> P (nth i l 0).
Proof.
  intros H0 Hl. revert i. induction Hl as [|x xs Hx _ IH]; intros i; destruct i; simpl; auto.
Qed.

Theorem median_nonneg l : Forall (fun x => 0 <= x) l -> 0 <= median l.
Proof.
  intros H. assert (Hs : Forall (fun x => 0 <= x) (sortq l)).
  { eapply Permutation_Forall; [apply sortq_perm|exact H]. }
  unfold median. cbv zeta. destruct (Nat.even (length (sortq l))).
  - pose proof (nth_Forall (fun x => 0 <= x) (sortq l) (length (sortq l) / 2 - 1) (Qle_refl 0) Hs) as A.
    pose proof (nth_Forall (fun x => 0 <= x) (sortq l) (length (sortq l) / 2) (Qle_refl 0) Hs) as B.
    cbv beta in A, B. apply Qle_shift_div_l; [reflexivity|]. lra.
  - apply (nth_Forall (fun x => 0 <= x) (sortq l) _ (Qle_refl 0) Hs).
Qed.
Theorem meanq_nonneg l : Forall (fun x => 0 <= x) l -> 0 <= meanq l.
Proof.
  intros H. unfold meanq. destruct l as [|x xs]; [vm_compute; discriminate|].
  apply Qle_shift_div_l; [apply Qlen_pos; discriminate|]. rewrite Qmult_0_l.
  apply Qsum_nonneg. intros y Hy. rewrite Forall_forall in H. apply H. exact Hy.
Qed.

(* the pooled variance is non-negative whenever the within-partition variances are *)
Theorem pool_var_nonneg use_median pts vars :
  Forall (fun x => 0 <= x) vars -> 0 <= snd (pool use_median pts vars).
Proof.
  intros Hv. unfold pool. cbv zeta. cbn [snd].
  set (c := if use_median then median pts else meanq pts).
  assert (Hall : Forall (fun x => 0 <= x) (map (fun pv : Q * Q => snd pv + (fst pv - c) * (fst pv - c)) (combine pts vars))).
  { apply Forall_map. apply Forall_forall. intros [p v] Hin. cbn [fst snd].
    apply in_combine_r in Hin. rewrite Forall_forall in Hv. specialize (Hv v Hin). cbv beta in Hv. pose proof (Qsq_nonneg (p - c)). lra. }
  destruct use_median; [apply median_nonneg|apply meanq_nonneg]; exact Hall.
Qed.

Lemma combine_sum c pts : forall vars, length pts = length vars ->
  Qsum (fun b : Q * Q => snd b + (fst b - c) * (fst b - c)) (combine pts vars) ==
  Qsum (fun x => x) vars + Qsum (fun p => (p - c) * (p - c)) pts.
Proof.
  induction pts as [|p ps IH]; intros [|v vs] Hl; simpl in *; try discriminate; [ring|].
  rewrite (IH vs) by lia. ring.
Qed.

(* mean pooling: the documented formula *)
Theorem pool_mean_formula pts vars : length pts = length vars -> pts <> [] ->
  snd (pool false pts vars) == meanq vars + meanq (map (fun p => (p - meanq pts) * (p - meanq pts)) pts).
Proof.
  intros Hlen Hne. unfold pool. cbv zeta. cbn [snd].
  set (c := meanq pts). unfold meanq at 1 2 3. unfold Qlen. rewrite !map_length, combine_length, <- Hlen, Nat.min_id.
  rewrite !Qsum_map. cbv beta. rewrite (combine_sum c pts vars Hlen).
  assert (Hp : 0 < inject_Z (Z.of_nat (length pts))).
  { pose proof (Qlen_pos pts Hne) as H. unfold Qlen in H. exact H. }
  field. intros Z. rewrite Z in Hp. lra.
Qed.
