(* C18, bounded part: on EVERY graph over {0 (exposure), 1 (outcome), 2, 3, 4} containing 0 -> 1 -- all 3^9 = 19683
   orientation vectors of the 9 remaining node pairs, of which 8816 are acyclic -- and EVERY candidate set
   Z <= {2,3,4}, the (repaired) algorithm, the executable active-walk specification and the textbook
   path-by-path specification agree.  Proof by computation in the kernel's VM, lifted with forallb_forall.
   Kept in its own file so that it builds in parallel with the unbounded development. *)
From Coq Require Import List Arith Bool PeanoNat Lia NArith.
Import ListNotations.
From Zepid Require Import Model.Dag.

Definition check5 (os : list nat) : bool :=
  let g := graph5 os in
  let RG := reach_tbl (nodes g) (edges g) in
  if is_dag_tbl (nodes g) RG then
    let RH := reach_tbl (nodes g) (drop_out 0 (edges g)) in
    forallb (fun Z => Bool.eqb (valid_core false RG (nodes g) (edges g) 0 1 Z)
                               (valid_spec_core RG RH (nodes g) (edges g) 0 1 Z) &&
                      Bool.eqb (valid_path_core RG RH (nodes g) (edges g) 0 1 Z)
                               (valid_spec_core RG RH (nodes g) (edges g) 0 1 Z))
            (all_subsets [2; 3; 4])
  else true.

Lemma check5_all : forallb check5 all_orient5 = true.
Proof. vm_compute. reflexivity. Qed.

Lemma dag5_count : N.of_nat (length (filter (fun os => is_dag (graph5 os)) all_orient5)) = 8816%N /\
                    N.of_nat (length all_orient5) = 19683%N.
Proof. vm_compute. split; reflexivity. Qed.

(* the enumeration is complete: every vector of 9 digits below 3 is listed *)
Lemma orient_vectors_complete n os : length os = n -> Forall (fun o => o < 3) os -> In os (orient_vectors n).
Proof.
  revert os; induction n as [|n IH]; intros [|o os] Hl Hf; try discriminate; [left; reflexivity|].
  inversion Hf as [|? ? Ho Hf']; subst. injection Hl as Hl.
  change (In (o :: os) (flat_map (fun o => map (cons o) (orient_vectors n)) [0; 1; 2])).
  apply in_flat_map. exists o. split.
  - destruct o as [|[|[|o]]]; simpl; auto; lia.
  - apply in_map. apply IH; auto.
Qed.

(* the candidate sets of graph5 are exactly the sub-lists of [2;3;4] *)
Lemma candidates5 os : candidates (graph5 os) 0 1 = all_subsets [2; 3; 4].
Proof. reflexivity. Qed.

Theorem alg_eq_spec_upto5 : forall os, In os all_orient5 -> is_dag (graph5 os) = true ->
  forall Z, In Z (candidates (graph5 os) 0 1) ->
    valid_alg (graph5 os) 0 1 Z = valid_specb (graph5 os) 0 1 Z /\
    valid_pathb (graph5 os) 0 1 Z = valid_specb (graph5 os) 0 1 Z.
Proof.
  intros os Hin Hdag Z HZ.
  pose proof check5_all as H. rewrite forallb_forall in H. specialize (H os Hin).
  unfold check5 in H. cbv zeta in H.
  change (is_dag_tbl (nodes (graph5 os)) (reach_tbl (nodes (graph5 os)) (edges (graph5 os)))) with (is_dag (graph5 os)) in H.
  rewrite Hdag in H. rewrite forallb_forall in H. rewrite candidates5 in HZ. specialize (H Z HZ).
  apply andb_true_iff in H. destruct H as [H1 H2].
  apply eqb_prop in H1. apply eqb_prop in H2. split; [exact H1 | exact H2].
Qed.

(* the moralisation loop as shipped (directed marriage arrows appended to the graph being iterated) loses an
   admissible set: X <- C -> B -> Y <- A, with X -> Y; {B} is admissible, the shipped loop marries C and A *)
Definition d8_prog : list op := [AddArrows [(4, 0); (2, 1); (3, 1); (4, 3)]].
Theorem old_moralisation_refuted :
  let g := run_prog 0 1 d8_prog in
  is_dag g = true /\ valid_specb g 0 1 [3] = true /\ valid_pathb g 0 1 [3] = true /\
  valid_alg g 0 1 [3] = true /\ valid_old g 0 1 [3] = false.
Proof. vm_compute. repeat split; reflexivity. Qed.

(* on the 5-node universe in canonical insertion order the shipped loop is never unsound and loses sets on
   exactly 22 of the 8816 DAGs *)
Definition old_loses (os : list nat) : bool :=
  let g := graph5 os in
  is_dag g && negb (forallb (fun Z => Bool.eqb (valid_old g 0 1 Z) (valid_alg g 0 1 Z)) (all_subsets [2; 3; 4])).
Definition old_sound (os : list nat) : bool :=
  let g := graph5 os in
  negb (is_dag g) || forallb (fun Z => implb (valid_old g 0 1 Z) (valid_alg g 0 1 Z)) (all_subsets [2; 3; 4]).
Theorem old_moralisation_upto5 :
  length (filter old_loses all_orient5) = 22 /\ forallb old_sound all_orient5 = true.
Proof. vm_compute. split; reflexivity. Qed.
