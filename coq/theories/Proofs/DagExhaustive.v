(* C18, bounded part: on EVERY graph over {0 (exposure), 1 (outcome), 2, 3, 4} containing 0 -> 1 -- all 3^9 = 19683
   orientation vectors of the 9 remaining node pairs, of which 8816 are acyclic -- and EVERY candidate set
   Z <= {2,3,4}, the (repaired) algorithm, the executable active-walk specification and the textbook
   path-by-path specification agree.  Proof by computation in the kernel's VM, lifted with forallb_forall.
   Kept in its own file so that it builds in parallel with the unbounded development. *)
From Coq Require Import List Arith Bool PeanoNat Lia NArith.
Import ListNotations.
From Zepid Require Import Model.Dag.

Definition check_graph (g : graph) (x y : nat) : bool :=
  let RG := reach_tbl (nodes g) (edges g) in
  if is_dag_tbl (nodes g) RG then
    let RH := reach_tbl (nodes g) (drop_out x (edges g)) in
    forallb (fun Z => Bool.eqb (valid_core false RG (nodes g) (edges g) x y Z)
                               (valid_spec_core RG RH (nodes g) (edges g) x y Z) &&
                      Bool.eqb (valid_path_core RG RH (nodes g) (edges g) x y Z)
                               (valid_spec_core RG RH (nodes g) (edges g) x y Z))
            (candidates g x y)
  else true.

(* generic in g: nothing concrete to unfold, so every conversion below is immediate *)
Lemma check_graph_elim g x y : check_graph g x y = true -> is_dag g = true ->
  forall Z, In Z (candidates g x y) ->
    valid_alg g x y Z = valid_specb g x y Z /\ valid_pathb g x y Z = valid_specb g x y Z.
Proof.
  unfold check_graph, is_dag, valid_alg, valid_specb, valid_pathb.
  intros H Hd Z HZ. cbv zeta in H. rewrite Hd in H.
  rewrite forallb_forall in H. specialize (H Z HZ).
  apply andb_true_iff in H. destruct H as [H1 H2].
  apply eqb_prop in H1. apply eqb_prop in H2. split; [exact H1 | exact H2].
Qed.

Notation check5 := (fun os : list nat => check_graph (graph5 os) 0 1).

(* vm_cast_no_check: the term is checked (by the kernel's VM) once, at Qed, instead of twice *)
Lemma check5_all : forallb check5 all_orient5 = true.
Proof. vm_cast_no_check (eq_refl true). Qed.

Lemma dag5_count : N.of_nat (length (filter (fun os => is_dag (graph5 os)) all_orient5)) = 8816%N /\
                    N.of_nat (length all_orient5) = 19683%N.
Proof. vm_compute. split; reflexivity. Qed.

(* the enumeration is complete: every vector of 9 digits below 3 is listed *)
Lemma orient_vectors_complete n os : length os = n -> Forall (fun o => o < 3) os -> In os (orient_vectors n).
Proof.
  revert os; induction n as [|n IH]; intros [|o os] Hl Hf; try discriminate; [left; reflexivity|].
  inversion Hf as [|? ? Ho Hf']; subst. injection Hl as Hl.
  change (In (o :: os) (flat_map (fun o => map (cons o) (orient_vectors n)) [0; 1; 2])).
  apply in_flat_map. exists o. split.
  - destruct o as [|[|[|o]]]; simpl; auto; lia.
  - apply in_map. apply IH; auto.
Qed.

Theorem alg_eq_spec_upto5 : forall os, In os all_orient5 -> is_dag (graph5 os) = true ->
  forall Z, In Z (candidates (graph5 os) 0 1) ->
    valid_alg (graph5 os) 0 1 Z = valid_specb (graph5 os) 0 1 Z /\
    valid_pathb (graph5 os) 0 1 Z = valid_specb (graph5 os) 0 1 Z.
Proof.
  intros os Hin Hdag.
  pose proof (proj1 (forallb_forall check5 all_orient5) check5_all os Hin) as H. cbv beta in H.
  exact (check_graph_elim (graph5 os) 0 1 H Hdag).
Qed.

(* the moralisation loop as shipped (directed marriage arrows appended to the graph being iterated) loses an
   admissible set: X <- C -> B -> Y <- A, with X -> Y; {B} is admissible, the shipped loop marries C and A *)
Definition d8_prog : list op := [AddArrows [(4, 0); (2, 1); (3, 1); (4, 3)]].
Theorem old_moralisation_refuted :
  let g := run_prog 0 1 d8_prog in
  is_dag g = true /\ valid_specb g 0 1 [3] = true /\ valid_pathb g 0 1 [3] = true /\
  valid_alg g 0 1 [3] = true /\ valid_old g 0 1 [3] = false.
Proof. vm_compute. repeat split; reflexivity. Qed.

(* on the 5-node universe in canonical insertion order the shipped loop is never unsound and loses sets on
   exactly 22 of the 8816 DAGs *)
Definition old_stat (os : list nat) : bool * bool :=      (* (never lists a set the repaired algorithm rejects, loses a set) *)
  let g := graph5 os in
  let R := reach_tbl (nodes g) (edges g) in
  if is_dag_tbl (nodes g) R then
    let new := map (valid_core false R (nodes g) (edges g) 0 1) (all_subsets [2; 3; 4]) in
    let old := map (valid_core true R (nodes g) (edges_view g) 0 1) (all_subsets [2; 3; 4]) in
    (forallb (fun p => implb (fst p) (snd p)) (combine old new),
     existsb (fun p => negb (Bool.eqb (fst p) (snd p))) (combine old new))
  else (true, false).
Theorem old_moralisation_upto5 :
  (forallb (fun os => fst (old_stat os)) all_orient5,
   N.of_nat (length (filter (fun os => snd (old_stat os)) all_orient5))) = (true, 22%N).
Proof. vm_cast_no_check (eq_refl (true, 22%N)). Qed.
