(* Proofs about stochastic / conditional treatment plans (C14). *)
From Coq Require Import QArith Qround List Bool Arith ZArith Lia Lra Lqa Permutation.
From Zepid Require Import Base.QSum Base.QUtil Base.Rows Proofs.RowsProofs Model.Estimators Proofs.EstimatorsProofs
  Model.Stochastic.
Import ListNotations.
Open Scope Q_scope.

(* =================================================================================================
   1. the overwrite loop *)

Lemma last_opt_cons {A} (x : A) l : last_opt (x :: l) = match last_opt l with Some y => Some y | None => Some x end.
Proof.
  destruct l as [|y l]; [reflexivity|]. cbn [last_opt].
  assert (H : exists z, last_opt (y :: l) = Some z).
  { clear x. revert y. induction l as [|a l IH]; intros y; [exists y; reflexivity|].
    destruct (IH a) as [z Hz]. exists z. cbn [last_opt] in *. exact Hz. }
  destruct H as [z Hz]. cbn [last_opt] in Hz. rewrite Hz. reflexivity.
Qed.

(* generic form of all the loops of this file:  cur := if g x then Some (v x) else cur *)
Lemma overwrite_fold {X V} (g : X -> bool) (v : X -> V) (xs : list X) (init : option V) :
  fold_left (fun cur x => if g x then Some (v x) else cur) xs init =
  match last_opt (filter g xs) with Some x => Some (v x) | None => init end.
Proof.
  revert init. induction xs as [|x xs IH]; intros init; [reflexivity|].
  cbn [fold_left filter]. rewrite IH. destruct (g x) eqn:E.
  - rewrite last_opt_cons. destruct (last_opt (filter g xs)); reflexivity.
  - reflexivity.
Qed.

Lemma overwrite_init {X V} (g : X -> bool) (v : X -> V) (xs : list X) (init : option V) :
  fold_left (fun cur x => if g x then Some (v x) else cur) xs init =
  match fold_left (fun cur x => if g x then Some (v x) else cur) xs None with Some y => Some y | None => init end.
Proof. rewrite !overwrite_fold. destruct (last_opt (filter g xs)); reflexivity. Qed.

Theorem assign_pl_value pl r : assign_pl pl r = plan_value pl r.
Proof.
  unfold assign_pl, plan_value, matching, assign_step.
  rewrite (overwrite_fold (fun cp : cond * Q => fst cp r) snd pl None).
  destruct (last_opt _); reflexivity.
Qed.

Lemma matching_perm pl pl' r : Permutation pl pl' -> Permutation (matching pl r) (matching pl' r).
Proof.
  unfold matching. induction 1 as [|x l l' _ IH|x y l|l l' l'' _ IH1 _ IH2]; cbn [filter]; cbn beta.
  - constructor.
  - destruct (fst x r); [apply perm_skip|]; exact IH.
  - destruct (fst x r), (fst y r); try apply Permutation_refl. apply perm_swap.
  - eapply Permutation_trans; eassumption.
Qed.

Lemma n_true_matching pl r : n_true (map fst pl) r = length (matching pl r).
Proof.
  unfold n_true, matching. induction pl as [|cp pl IH]; [reflexivity|].
  cbn [map filter]. destruct (fst cp r); cbn [length]; rewrite IH; reflexivity.
Qed.

(* order invariance: with pairwise-exclusive conditions (at most one holds on the row) the value the loop
   leaves on the row is the same for every listing order of the (condition, probability) pairs *)
Theorem assign_p_perm pl pl' r :
  Permutation pl pl' -> exclusive_at (map fst pl) r -> assign_pl pl r = assign_pl pl' r.
Proof.
  intros HP Hex. rewrite !assign_pl_value. unfold plan_value.
  pose proof (matching_perm pl pl' r HP) as HM.
  unfold exclusive_at in Hex. rewrite n_true_matching in Hex.
  destruct (matching pl r) as [|x [|y m]] eqn:E.
  - apply Permutation_nil in HM. rewrite HM. reflexivity.
  - apply Permutation_length_1_inv in HM. rewrite HM. reflexivity.
  - cbn [length] in Hex. lia.
Qed.

(* ... and that value is the probability of THE condition that holds *)
Theorem assign_is_the_match pl r c p :
  exclusive_at (map fst pl) r -> In (c, p) pl -> c r = true -> assign_pl pl r = Some p.
Proof.
  intros Hex Hin Hc. rewrite assign_pl_value. unfold plan_value.
  unfold exclusive_at in Hex. rewrite n_true_matching in Hex.
  assert (Hm : In (c, p) (matching pl r)) by (unfold matching; apply filter_In; split; [exact Hin|exact Hc]).
  destruct (matching pl r) as [|x [|y m]].
  - contradiction.
  - destruct Hm as [->|[]]. reflexivity.
  - cbn [length] in Hex. lia.
Qed.

Theorem assign_exhaustive pl r : exhaustive_at (map fst pl) r -> exists p, assign_pl pl r = Some p.
Proof.
  unfold exhaustive_at. rewrite n_true_matching, assign_pl_value. unfold plan_value. intros H.
  destruct (matching pl r) as [|x m] eqn:E; [cbn in H; lia|].
  rewrite last_opt_cons. destruct (last_opt m) as [y|]; eexists; reflexivity.
Qed.

Theorem assign_none pl r : n_true (map fst pl) r = 0%nat -> assign_pl pl r = None.
Proof.
  rewrite n_true_matching, assign_pl_value. unfold plan_value. intros H.
  destruct (matching pl r); [reflexivity|discriminate].
Qed.

(* the numerator loop as written (value already specialised to the row's treatment) is the plan's
   probability of the treatment the row received *)
Theorem numer_loop_is_assign conds ps r : numer_loop conds ps r = option_map (own (trt r)) (assign_p conds ps r).
Proof.
  unfold numer_loop, assign_p, assign_pl, numer_step, assign_step.
  rewrite (overwrite_fold (fun cp : cond * Q => fst cp r) (fun cp => own (trt r) (snd cp))).
  rewrite (overwrite_fold (fun cp : cond * Q => fst cp r) snd).
  destruct (last_opt _); reflexivity.
Qed.

Corollary stoch_numer_is_plan pl r : stoch_numer pl r = option_map (own (trt r)) (plan_p pl r).
Proof. destruct pl as [p|cs ps]; [reflexivity|]. apply numer_loop_is_assign. Qed.

Corollary numer_loop_perm conds ps conds' ps' r :
  Permutation (combine conds ps) (combine conds' ps') -> exclusive_at (map fst (combine conds ps)) r ->
  numer_loop conds ps r = numer_loop conds' ps' r.
Proof.
  intros HP Hex. rewrite !numer_loop_is_assign. unfold assign_p. rewrite (assign_p_perm _ _ r HP Hex). reflexivity.
Qed.

(* the data-level checks *)
Theorem check_exclusive_spec conds l : check_exclusive conds l = true <-> forall r, In r l -> exclusive_at conds r.
Proof.
  unfold check_exclusive, exclusive_at. rewrite forallb_forall.
  split; intros H r Hr; specialize (H r Hr); [apply Nat.leb_le|apply Nat.leb_le]; exact H.
Qed.
Theorem check_exhaustive_spec conds l : check_exhaustive conds l = true <-> forall r, In r l -> exhaustive_at conds r.
Proof.
  unfold check_exhaustive, exhaustive_at. rewrite forallb_forall.
  split; intros H r Hr; specialize (H r Hr); [apply Nat.leb_le|apply Nat.leb_le]; exact H.
Qed.

(* =================================================================================================
   2. StochasticIPTW: exact mixture under a saturated treatment model *)

Lemma mixture_p1 l : mixture (fun _ => 1) l == std TAll true l.
Proof.
  unfold mixture, std. cbn [tw]. apply Qdiv_comp; [|reflexivity]. apply Qsum_ext_all. intros s. ring.
Qed.
Lemma mixture_p0 l : mixture (fun _ => 0) l == std TAll false l.
Proof.
  unfold mixture, std. cbn [tw]. apply Qdiv_comp; [|reflexivity]. apply Qsum_ext_all. intros s. ring.
Qed.
Lemma mixture_ext ps ps' l : (forall s, In s (strata l) -> ps s == ps' s) -> mixture ps l == mixture ps' l.
Proof.
  intros H. unfold mixture. apply Qdiv_comp; [|reflexivity]. apply Qsum_ext. intros s Hs. rewrite (H s Hs). reflexivity.
Qed.

Section SIPTW.
Variable l : list row.
Variable ps : nat -> Q.                 (* plan probability of each covariate stratum *)
Variable P : row -> Q.                  (* per-row plan probability produced by the loop *)
Hypothesis HP : forall r, In r l -> P r == ps (st r).
Hypothesis Hpos : positivity l.
Hypothesis Hc : complete l.             (* StochasticIPTW drops rows with a missing outcome *)
Hypothesis Hg : sat_g l.

Let W (a : bool) (r : row) : Q := own a (P r) / own a (g1 r) * wt r.
Let kk (a : bool) (s : nat) : Q := own a (ps s) / own a (Naw s true l / Nw s l).

Lemma sW_is_k a r : In r l -> trt r = a -> obs r = true -> W a r == wt r * kk a (st r).
Proof.
  intros Hr _ _. unfold W, kk. pose proof (Hg r Hr) as Eg. pose proof (HP r Hr) as Ep.
  destruct a; unfold own; rewrite Eg, Ep; unfold Qdiv; ring.
Qed.

Lemma sw_split_num : Qsum (fun r => sw P r * yval r) l == arm_num (W true) true l + arm_num (W false) false l.
Proof.
  unfold arm_num. rewrite <- Qsum_plus. apply Qsum_ext. intros r Hr.
  unfold sw, W, stoch_denom, arm. rewrite (Hc r Hr). destruct (trt r); cbn [Bool.eqb ind]; ring.
Qed.
Lemma sw_split_den : Qsum (sw P) l == arm_den (W true) true l + arm_den (W false) false l.
Proof.
  unfold arm_den. rewrite <- Qsum_plus. apply Qsum_ext. intros r Hr.
  unfold sw, W, stoch_denom, arm. rewrite (Hc r Hr). destruct (trt r); cbn [Bool.eqb ind]; ring.
Qed.

Lemma Nw_pos s : In s (strata l) -> 0 < Nw s l.
Proof. intros Hs. destruct (Hpos s Hs) as [P1 [P0 _]]. rewrite <- (Naw_split s l). lra. Qed.

Lemma k_Ysum a s : In s (strata l) -> kk a s * Ysum s a l == Nw s l * (own a (ps s) * ybar s a l).
Proof.
  intros Hs. destruct (Hpos s Hs) as [P1 [P0 [O1 O0]]]. pose proof (Nw_pos s Hs) as Hn.
  unfold kk, ybar. rewrite (Nobs_complete s a l Hc). pose proof (Naw_split s l) as E.
  destruct a; unfold own.
  - field. split; apply Qpos_nz; assumption.
  - setoid_replace (1 - Naw s true l / Nw s l) with (Naw s false l / Nw s l)
      by (rewrite <- E; field; rewrite E; apply Qpos_nz; exact Hn).
    field. split; apply Qpos_nz; assumption.
Qed.
Lemma k_Nobs a s : In s (strata l) -> kk a s * Nobs s a l == Nw s l * own a (ps s).
Proof.
  intros Hs. destruct (Hpos s Hs) as [P1 [P0 [O1 O0]]]. pose proof (Nw_pos s Hs) as Hn.
  unfold kk. rewrite (Nobs_complete s a l Hc). pose proof (Naw_split s l) as E.
  destruct a; unfold own.
  - field. split; apply Qpos_nz; assumption.
  - setoid_replace (1 - Naw s true l / Nw s l) with (Naw s false l / Nw s l)
      by (rewrite <- E; field; rewrite E; apply Qpos_nz; exact Hn).
    field. split; apply Qpos_nz; assumption.
Qed.

(* the weights sum to the (weighted) number of rows ... *)
Theorem siptw_weights_sum : Qsum (sw P) l == Qsum wt l.
Proof.
  rewrite sw_split_den.
  rewrite (arm_den_strata (W true) (kk true) true l (sW_is_k true)).
  rewrite (arm_den_strata (W false) (kk false) false l (sW_is_k false)).
  rewrite <- Qsum_plus, total_weight. apply Qsum_ext. intros s Hs.
  rewrite (k_Nobs true s Hs), (k_Nobs false s Hs). unfold own. ring.
Qed.

(* ... and the weighted mean of the outcome is the stratum-by-stratum mixture, exactly *)
Theorem stoch_iptw_mixture : siptw_mean P l == mixture ps l.
Proof.
  unfold siptw_mean, mixture. apply Qdiv_comp.
  - rewrite sw_split_num.
    rewrite (arm_num_strata (W true) (kk true) true l (sW_is_k true)).
    rewrite (arm_num_strata (W false) (kk false) false l (sW_is_k false)).
    rewrite <- Qsum_plus. apply Qsum_ext. intros s Hs.
    rewrite (k_Ysum true s Hs), (k_Ysum false s Hs). unfold own. ring.
  - rewrite siptw_weights_sum. apply total_weight.
Qed.
End SIPTW.

(* probabilities 1 and 0 everywhere: the treat-all / treat-none standardised means *)
Corollary stoch_iptw_p1_is_all l : positivity l -> complete l -> sat_g l -> siptw_mean (pconst 1) l == std TAll true l.
Proof.
  intros Hpos Hc Hg. rewrite <- mixture_p1.
  apply (stoch_iptw_mixture l (fun _ => 1) (pconst 1)); try assumption. intros; reflexivity.
Qed.
Corollary stoch_iptw_p0_is_none l : positivity l -> complete l -> sat_g l -> siptw_mean (pconst 0) l == std TAll false l.
Proof.
  intros Hpos Hc Hg. rewrite <- mixture_p0.
  apply (stoch_iptw_mixture l (fun _ => 0) (pconst 0)); try assumption. intros; reflexivity.
Qed.

(* For ANY fitted propensities (no saturation): StochasticIPTW with p = 1 (p = 0) is the arm mean of the
   unstabilised IPTW marginal structural model saturated in A *)
Theorem siptw_p1_is_iptw_arm l n : complete l -> no_miss_model l ->
  siptw_mean (pconst 1) l == iptw_mu false TAll n 1 1 true l.
Proof.
  intros Hc Hnm. unfold siptw_mean, iptw_mu, arm_mean, arm_num, arm_den.
  apply Qdiv_comp; apply Qsum_ext; intros r Hr; destruct (Hnm r Hr) as [M1 M0];
    unfold sw, pconst, stoch_denom, total_w, iptw_w, ipmw_w, m_own, arm, own; rewrite (Hc r Hr);
    destruct (trt r); cbn [Bool.eqb ind ipw_formula]; rewrite ?M1; unfold Qdiv;
    try setoid_replace (/ 1) with 1 by reflexivity; ring.
Qed.
Theorem siptw_p0_is_iptw_arm l n : complete l -> no_miss_model l ->
  siptw_mean (pconst 0) l == iptw_mu false TAll n 1 1 false l.
Proof.
  intros Hc Hnm. unfold siptw_mean, iptw_mu, arm_mean, arm_num, arm_den.
  apply Qdiv_comp; apply Qsum_ext; intros r Hr; destruct (Hnm r Hr) as [M1 M0];
    unfold sw, pconst, stoch_denom, total_w, iptw_w, ipmw_w, m_own, arm, own; rewrite (Hc r Hr);
    destruct (trt r); cbn [Bool.eqb ind ipw_formula]; rewrite ?M0; unfold Qdiv;
    try setoid_replace (/ 1) with 1 by reflexivity; ring.
Qed.

(* =================================================================================================
   3. simulating estimators: one Monte-Carlo sample depends on the drawn treatments only through the
      per-stratum treated counts (saturated outcome model) *)

Lemma in_combine_row (l : list row) (tr : list bool) x : In x (combine l tr) -> In (fst x) l.
Proof. destruct x as [r b]. apply in_combine_l. Qed.

Theorem stoch_gformula_counts l tr : sat_q l ->
  draw_marginal l tr == counts_marginal (fun s a => kcount s a l tr) l.
Proof.
  intros Hq. unfold draw_marginal, counts_marginal. apply Qdiv_comp; [|reflexivity].
  rewrite (Qsum_by_key (fun x : row * bool => st (fst x)) (strata l) _ (combine l tr) (strata_nodup l))
    by (intros x Hx; apply strata_cover; apply (in_combine_row l tr x Hx)).
  apply Qsum_ext. intros s Hs. rewrite Qsum_filter_ind. unfold kcount.
  rewrite <- !Qsum_scal_r, <- Qsum_plus. apply Qsum_ext. intros x Hx.
  destruct (Hq (fst x) (in_combine_row l tr x Hx)) as [E1 E0].
  unfold ind, qa. destruct (Nat.eqb_spec (st (fst x)) s) as [e|ne]; [|ring].
  rewrite <- e. destruct (snd x); cbn [Bool.eqb]; rewrite ?E1, ?E0; ring.
Qed.

Corollary stoch_same_counts l tr tr' : sat_q l ->
  (forall s a, In s (strata l) -> kcount s a l tr == kcount s a l tr') ->
  draw_marginal l tr == draw_marginal l tr'.
Proof.
  intros Hq H. rewrite !(stoch_gformula_counts l _ Hq). unfold counts_marginal.
  apply Qdiv_comp; [|reflexivity]. apply Qsum_ext. intros s Hs. rewrite (H s true Hs), (H s false Hs). reflexivity.
Qed.

(* the Monte-Carlo mean over samples only depends on the per-stratum counts of each sample *)
Corollary stoch_mc_counts l draws : sat_q l ->
  mc_marginal l draws == Qsum (fun tr => counts_marginal (fun s a => kcount s a l tr) l) draws / Qlen draws.
Proof.
  intros Hq. unfold mc_marginal. apply Qdiv_comp; [|reflexivity]. apply Qsum_ext. intros tr _.
  apply stoch_gformula_counts. exact Hq.
Qed.

(* everyone / no-one drawn: the deterministic treat-all / treat-none g-formula, for ANY outcome model *)
Lemma Qsum_combine_const {A} (f : A * bool -> Q) (l : list A) b :
  Qsum f (combine l (map (fun _ => b) l)) == Qsum (fun r => f (r, b)) l.
Proof. induction l as [|x xs IH]; [reflexivity|]. cbn [map combine Qsum]. rewrite IH. reflexivity. Qed.
Lemma filter_all_true {A} (l : list A) : filter (fun _ => true) l = l.
Proof. induction l as [|x xs IH]; [reflexivity|]. cbn [filter]. rewrite IH. reflexivity. Qed.

Theorem draw_all_is_gformula l a : draw_marginal l (map (fun _ => a) l) == gf_marginal TAll a l.
Proof.
  unfold draw_marginal, gf_marginal. change (in_target TAll) with (fun _ : row => true).
  rewrite (filter_all_true l), (Qsum_combine_const (fun x => wt (fst x) * qa (snd x) (fst x)) l a). reflexivity.
Qed.

Lemma ntrue_le tr : (ntrue tr <= length tr)%nat.
Proof. unfold ntrue. induction tr as [|b tr IH]; [apply Nat.le_refl|]. cbn [filter length]. destruct b; cbn [length]; lia. Qed.
Lemma all_drawn {A} (l : list A) tr : length tr = length l -> ntrue tr = length l -> tr = map (fun _ => true) l.
Proof.
  revert l. induction tr as [|b tr IH]; intros [|x l] HL HN; try discriminate; [reflexivity|].
  cbn [length] in HL. injection HL as HL. unfold ntrue in HN. cbn [filter] in HN. destruct b.
  - cbn [length] in HN. injection HN as HN. cbn [map]. f_equal. apply IH; assumption.
  - pose proof (ntrue_le tr) as H. unfold ntrue in H. cbn [length] in HN. lia.
Qed.
Lemma none_drawn {A} (l : list A) tr : length tr = length l -> ntrue tr = 0%nat -> tr = map (fun _ => false) l.
Proof.
  revert l. induction tr as [|b tr IH]; intros [|x l] HL HN; try discriminate; [reflexivity|].
  cbn [length] in HL. injection HL as HL. unfold ntrue in HN. cbn [filter] in HN. destruct b.
  - discriminate.
  - cbn [map]. f_equal. apply IH; assumption.
Qed.

(* int(p * n) selected rows *)
Lemma treated_count_1 n : treated_count 1 n = Z.of_nat n.
Proof.
  unfold treated_count, Qnat. rewrite (Qfloor_comp (1 * inject_Z (Z.of_nat n)) (inject_Z (Z.of_nat n))) by ring.
  apply Qfloor_Z.
Qed.
Lemma treated_count_0 n : treated_count 0 n = 0%Z.
Proof.
  unfold treated_count, Qnat. rewrite (Qfloor_comp (0 * inject_Z (Z.of_nat n)) (inject_Z 0)) by ring.
  apply Qfloor_Z.
Qed.
Lemma treated_count_bounds p n :
  inject_Z (treated_count p n) <= p * Qnat n /\ p * Qnat n < inject_Z (treated_count p n) + 1.
Proof.
  unfold treated_count. split; [apply Qfloor_le|].
  pose proof (Qlt_floor (p * Qnat n)) as H. rewrite inject_Z_plus in H. exact H.
Qed.

(* fit_stochastic with p = 1.0 (0.0): int(1.0 * n) = n rows are selected, so every draw is the treat-all
   (treat-none) g-formula *)
Theorem stoch_gf_p1_is_all l tr : length tr = length l -> Z.of_nat (ntrue tr) = treated_count 1 (length l) ->
  draw_marginal l tr == gf_marginal TAll true l.
Proof.
  intros HL HN. rewrite treated_count_1 in HN. apply Nat2Z.inj in HN.
  rewrite (all_drawn l tr HL HN). apply draw_all_is_gformula.
Qed.
Theorem stoch_gf_p0_is_none l tr : length tr = length l -> Z.of_nat (ntrue tr) = treated_count 0 (length l) ->
  draw_marginal l tr == gf_marginal TAll false l.
Proof.
  intros HL HN. rewrite treated_count_0 in HN. change 0%Z with (Z.of_nat 0) in HN. apply Nat2Z.inj in HN.
  rewrite (none_drawn l tr HL HN). apply draw_all_is_gformula.
Qed.
Corollary stoch_gf_p1_mc l draws : draws <> [] ->
  (forall tr, In tr draws -> length tr = length l /\ Z.of_nat (ntrue tr) = treated_count 1 (length l)) ->
  mc_marginal l draws == gf_marginal TAll true l.
Proof.
  intros Hne H. unfold mc_marginal.
  rewrite (Qsum_ext (draw_marginal l) (fun _ => gf_marginal TAll true l) draws)
    by (intros tr Htr; destruct (H tr Htr); apply stoch_gf_p1_is_all; assumption).
  rewrite Qsum_const. fold (Qlen draws). field. apply Qpos_nz. apply Qlen_pos. exact Hne.
Qed.
Corollary stoch_gf_p0_mc l draws : draws <> [] ->
  (forall tr, In tr draws -> length tr = length l /\ Z.of_nat (ntrue tr) = treated_count 0 (length l)) ->
  mc_marginal l draws == gf_marginal TAll false l.
Proof.
  intros Hne H. unfold mc_marginal.
  rewrite (Qsum_ext (draw_marginal l) (fun _ => gf_marginal TAll false l) draws)
    by (intros tr Htr; destruct (H tr Htr); apply stoch_gf_p0_is_none; assumption).
  rewrite Qsum_const. fold (Qlen draws). field. apply Qpos_nz. apply Qlen_pos. exact Hne.
Qed.

(* =================================================================================================
   4. expectation over independent Bernoulli draws *)

Lemma expect_ext {A} (law : list (A * Q)) f g : (forall x, f x == g x) -> expect law f == expect law g.
Proof. intros H. unfold expect. apply Qsum_ext_all. intros xw. rewrite (H (fst xw)). reflexivity. Qed.
Lemma expect_plus {A} (law : list (A * Q)) f g : expect law (fun x => f x + g x) == expect law f + expect law g.
Proof. unfold expect. rewrite <- Qsum_plus. apply Qsum_ext_all. intros xw. ring. Qed.
Lemma expect_scal {A} (law : list (A * Q)) c f : expect law (fun x => c * f x) == c * expect law f.
Proof. unfold expect. rewrite <- Qsum_scal. apply Qsum_ext_all. intros xw. ring. Qed.
Lemma expect_const {A} (law : list (A * Q)) c : expect law (fun _ => c) == c * expect law (fun _ => 1).
Proof. rewrite <- expect_scal. apply expect_ext. intros x. ring. Qed.

Lemma expect_cons p tl (F : list bool -> Q) :
  expect (prod_law (p :: tl)) F ==
  p * expect (prod_law tl) (fun ds => F (true :: ds)) + (1 - p) * expect (prod_law tl) (fun ds => F (false :: ds)).
Proof.
  unfold expect. cbn [prod_law bern flat_map]. rewrite app_nil_r, Qsum_app, !Qsum_map. cbn [fst snd].
  rewrite <- !Qsum_scal. apply Qplus_comp; apply Qsum_ext_all; intros dw; ring.
Qed.

Lemma prod_law_mass ps : expect (prod_law ps) (fun _ => 1) == 1.
Proof.
  induction ps as [|p tl IH]; [unfold expect; cbn; ring|]. rewrite expect_cons, IH. ring.
Qed.

(* linearity of expectation: a sum of per-row terms each depending on that row's own draw *)
Lemma expect_additive {A} (f : A * bool -> Q) (P : A -> Q) (l : list A) :
  expect (prod_law (map P l)) (fun tr => Qsum f (combine l tr)) ==
  Qsum (fun r => P r * f (r, true) + (1 - P r) * f (r, false)) l.
Proof.
  induction l as [|r l IH].
  - cbn [map prod_law]. unfold expect. cbn. ring.
  - cbn [map]. rewrite expect_cons. cbn [combine Qsum].
    rewrite !expect_plus, (expect_const _ (f (r, true))), (expect_const _ (f (r, false))), !prod_law_mass, IH. ring.
Qed.

(* the expected marginal of one Monte-Carlo sample when rows are treated independently with probability P r *)
Theorem expected_draw_is_plan_mean (P : row -> Q) l :
  expect (prod_law (map P l)) (draw_marginal l) == plan_mean P l.
Proof.
  unfold draw_marginal, plan_mean.
  rewrite (expect_ext _ _ (fun tr => / Qsum wt l * Qsum (fun x => wt (fst x) * qa (snd x) (fst x)) (combine l tr)))
    by (intros tr; unfold Qdiv; ring).
  rewrite expect_scal, (expect_additive (fun x => wt (fst x) * qa (snd x) (fst x)) P l).
  unfold Qdiv. rewrite Qmult_comm. apply Qmult_comp; [|reflexivity].
  apply Qsum_ext_all. intros r. cbn [fst snd qa]. ring.
Qed.

(* with a saturated outcome model (and predictions left untouched by the targeting step) that expectation is the
   mixture: this is what "equals the mixture within Monte-Carlo error" means for the simulating estimators *)
Theorem plan_mean_is_mixture (ps : nat -> Q) (P : row -> Q) l :
  sat_q l -> (forall r, In r l -> P r == ps (st r)) -> plan_mean P l == mixture ps l.
Proof.
  intros Hq HP. unfold plan_mean, mixture. rewrite total_weight. apply Qdiv_comp; [|reflexivity].
  rewrite <- (Qsum_ext_all (fun s => (ps s * ybar s true l + (1 - ps s) * ybar s false l) * Qsum wt (cellrows s l)))
    by (intros s; unfold Nw; ring).
  rewrite <- (regroup_kappa (fun s => ps s * ybar s true l + (1 - ps s) * ybar s false l) wt l).
  apply Qsum_ext. intros r Hr. destruct (Hq r Hr) as [E1 E0]. rewrite E1, E0, (HP r Hr). ring.
Qed.

Corollary stoch_expected_is_mixture (ps : nat -> Q) (P : row -> Q) l :
  sat_q l -> (forall r, In r l -> P r == ps (st r)) ->
  expect (prod_law (map P l)) (draw_marginal l) == mixture ps l.
Proof. intros Hq HP. rewrite expected_draw_is_plan_mean. apply plan_mean_is_mixture; assumption. Qed.

(* =================================================================================================
   5. the Monte-Carlo assignment of StochasticTMLE: law of the specified loop and of the loop as written *)

Lemma assign_step_init r pl init :
  fold_left (assign_step r) pl init =
  match fold_left (assign_step r) pl None with Some q => Some q | None => init end.
Proof. unfold assign_step. apply (overwrite_init (fun cp : cond * Q => fst cp r) snd pl init). Qed.

(* generalised to any starting state: the probability of ending up treated *)
Lemma spec_law_gen r ps : forall conds init,
  expect (prod_law ps) (fun ds => ind (is_treated (fold_left (mc_spec_step r) (combine conds ds) init))) ==
  match assign_p conds ps r with Some q => q | None => ind (is_treated init) end.
Proof.
  induction ps as [|p tl IH]; intros conds init.
  - unfold assign_p, assign_pl. rewrite combine_nil. cbn [prod_law]. unfold expect. cbn [Qsum fst snd].
    rewrite combine_nil. cbn [fold_left]. ring.
  - destruct conds as [|c cs].
    + unfold assign_p, assign_pl. cbn [combine fold_left]. rewrite (expect_const _ (ind (is_treated init))), prod_law_mass. ring.
    + rewrite expect_cons. cbn [combine fold_left]. rewrite !IH.
      unfold assign_p, assign_pl. cbn [combine fold_left].
      rewrite (assign_step_init r (combine cs tl) (assign_step r None (c, p))).
      fold (assign_pl (combine cs tl) r). fold (assign_p cs tl r).
      destruct (assign_p cs tl r) as [q|]; [ring|].
      unfold mc_spec_step, assign_step. cbn [fst snd]. destruct (c r); cbn [is_treated ind]; ring.
Qed.

(* AS SPECIFIED: a row is treated with the probability its condition carries *)
Theorem stmle_spec_law conds ps r : mc_spec_prob conds ps r == oget (assign_p conds ps r).
Proof.
  unfold mc_spec_prob, law_treated, mc_spec. rewrite spec_law_gen. unfold oget.
  destruct (assign_p conds ps r); [reflexivity|]. reflexivity.
Qed.

(* hence, by assign_p_perm, the specified assignment law does not depend on the listing order *)
Corollary stmle_spec_perm conds ps conds' ps' r :
  Permutation (combine conds ps) (combine conds' ps') -> exclusive_at (map fst (combine conds ps)) r ->
  mc_spec_prob conds ps r == mc_spec_prob conds' ps' r.
Proof.
  intros HP Hex. rewrite !stmle_spec_law. unfold assign_p. rewrite (assign_p_perm _ _ r HP Hex). reflexivity.
Qed.

(* AS WRITTEN: the loop is the specified loop with every condition replaced by `True` ... *)
Definition always : cond := fun _ => true.
Lemma mc_code_is_spec_always conds ds r : mc_code conds ds r = mc_spec (map (fun _ : cond => always) conds) ds r.
Proof.
  unfold mc_code, mc_spec. generalize (@None bool) as init. revert ds.
  induction conds as [|c cs IH]; intros ds init; [reflexivity|].
  destruct ds as [|d ds]; [reflexivity|]. cbn [map combine fold_left]. apply IH.
Qed.

Lemma assign_always conds ps r : length conds = length ps ->
  assign_p (map (fun _ : cond => always) conds) ps r = last_opt ps.
Proof.
  unfold assign_p. rewrite assign_pl_value. unfold plan_value, matching. revert ps.
  induction conds as [|c cs IH]; intros [|p ps] HL; try discriminate; [reflexivity|].
  cbn [length] in HL. injection HL as HL. cbn [map combine filter fst always].
  rewrite !last_opt_cons. specialize (IH ps HL).
  destruct (last_opt ps) as [q|]; destruct (last_opt (filter _ _)) as [cq|]; cbn [option_map] in *;
    try discriminate; try (injection IH as ->); reflexivity.
Qed.

(* ... so EVERY row is treated with the LAST listed probability, whatever the conditions are *)
Theorem stmle_code_law conds ps r : length conds = length ps -> mc_code_prob conds ps r == oget (last_opt ps).
Proof.
  intros HL. unfold mc_code_prob, law_treated.
  rewrite (expect_ext _ _ (fun ds => ind (is_treated (mc_spec (map (fun _ : cond => always) conds) ds r))))
    by (intros ds; rewrite mc_code_is_spec_always; reflexivity).
  fold (law_treated mc_spec (map (fun _ : cond => always) conds) ps r). fold (mc_spec_prob (map (fun _ : cond => always) conds) ps r).
  rewrite stmle_spec_law, (assign_always conds ps r HL). reflexivity.
Qed.

(* REFUTATION of order-independence for the loop as written: two exclusive, exhaustive conditions with different
   probabilities give different assignment laws in the two listing orders, on every row *)
Theorem stmle_code_order_dependent (c1 c2 : cond) p1 p2 r : ~ p1 == p2 ->
  ~ mc_code_prob [c1; c2] [p1; p2] r == mc_code_prob [c2; c1] [p2; p1] r.
Proof.
  intros Hne. rewrite !stmle_code_law by reflexivity. cbn [last_opt oget]. intros E. apply Hne. symmetry. exact E.
Qed.

(* a concrete witness, by computation: strata 0 / 1, plan "treat 1/5 of stratum 0 and 9/10 of stratum 1" *)
Definition wrow (s : nat) : row :=
  {| st := s; trt := false; yv := Some 0; wt := 1; g1 := 1#2; q1 := 0; q0 := 0; m1 := 1; m0 := 1 |}.
Theorem stmle_mc_refuted :
  let c0 := c_in [0%nat] in let c1 := c_in [1%nat] in
  (forall s, (s < 2)%nat -> exclusive_at [c0; c1] (wrow s) /\ exhaustive_at [c0; c1] (wrow s)) /\
  (* specification: same law in both orders, the plan's probability *)
  mc_spec_prob [c0; c1] [1#5; 9#10] (wrow 0) == 1#5 /\ mc_spec_prob [c1; c0] [9#10; 1#5] (wrow 0) == 1#5 /\
  mc_spec_prob [c0; c1] [1#5; 9#10] (wrow 1) == 9#10 /\ mc_spec_prob [c1; c0] [9#10; 1#5] (wrow 1) == 9#10 /\
  (* code: the last probability for everyone, hence order-dependent and wrong for one stratum in each order *)
  mc_code_prob [c0; c1] [1#5; 9#10] (wrow 0) == 9#10 /\ mc_code_prob [c1; c0] [9#10; 1#5] (wrow 0) == 1#5 /\
  mc_code_prob [c0; c1] [1#5; 9#10] (wrow 1) == 9#10 /\ mc_code_prob [c1; c0] [9#10; 1#5] (wrow 1) == 1#5 /\
  ~ mc_code_prob [c0; c1] [1#5; 9#10] (wrow 0) == mc_code_prob [c1; c0] [9#10; 1#5] (wrow 0).
Proof.
  cbv zeta. split.
  - intros s Hs. destruct s as [|[|s]]; [| |lia]; unfold exclusive_at, exhaustive_at; vm_compute; split; lia.
  - vm_compute. repeat split; discriminate.
Qed.

(* =================================================================================================
   6. StochasticTMLE targeting step: with a saturated outcome model epsilon = 0 solves the weighted
      intercept-only score equation, for ANY clever covariate that is a function of stratum and arm
      (so the targeted predictions are the cell means and a sample's marginal is a function of counts) *)
Theorem stmle_score_zero (h : nat -> bool -> Q) (H : row -> Q) l :
  positivity l -> complete l -> sat_q l -> (forall r, In r l -> H r == h (st r) (trt r)) ->
  Qsum (fun r => H r * wt r * (yval r - qa (trt r) r)) l == 0.
Proof.
  intros Hpos Hc Hq HH.
  assert (E : forall r, In r l ->
     H r * wt r * (yval r - qa (trt r) r) ==
     h (st r) true * (ind (arm true r) * ind (obs r) * wt r * yval r - ybar (st r) true l * (ind (arm true r) * ind (obs r) * wt r)) +
     h (st r) false * (ind (arm false r) * ind (obs r) * wt r * yval r - ybar (st r) false l * (ind (arm false r) * ind (obs r) * wt r))).
  { intros r Hr. destruct (Hq r Hr) as [E1 E0]. rewrite (HH r Hr), (Hc r Hr). unfold arm, qa.
    destruct (trt r); cbn [Bool.eqb ind]; rewrite ?E1, ?E0; ring. }
  rewrite (Qsum_ext _ _ l E), Qsum_plus.
  assert (Z : forall a, Qsum (fun r => h (st r) a * (ind (arm a r) * ind (obs r) * wt r * yval r -
                 ybar (st r) a l * (ind (arm a r) * ind (obs r) * wt r))) l == 0).
  { intros a. rewrite regroup. apply Qsum_zero. intros s Hs.
    rewrite (cell_ext s _ (fun r => h s a * (ind (arm a r) * ind (obs r) * wt r * yval r) -
                                    h s a * ybar s a l * (ind (arm a r) * ind (obs r) * wt r)) l)
      by (intros r _ ->; ring).
    rewrite Qsum_minus, !Qsum_scal. fold (Ysum s a l). fold (Nobs s a l).
    destruct (Hpos s Hs) as [_ [_ [O1 O0]]].
    rewrite <- (ybar_Nobs s a l) by (destruct a; apply Qpos_nz; assumption). ring. }
  rewrite (Z true), (Z false). ring.
Qed.

(* =================================================================================================
   combined statements cited by Properties/C14.v *)
Theorem numer_loop_perm_value conds ps conds' ps' r :
  Permutation (combine conds ps) (combine conds' ps') -> exclusive_at (map fst (combine conds ps)) r ->
  numer_loop conds ps r = numer_loop conds' ps' r /\
  numer_loop conds ps r = option_map (own (trt r)) (assign_p conds ps r).
Proof. intros. split; [apply numer_loop_perm; assumption|apply numer_loop_is_assign]. Qed.

Theorem stoch_iptw_mixture_full (l : list row) (ps : nat -> Q) (P : row -> Q) :
  (forall r, In r l -> P r == ps (st r)) -> positivity l -> complete l -> sat_g l ->
  siptw_mean P l == mixture ps l /\ Qsum (sw P) l == Qsum wt l.
Proof. intros HP Hpos Hc Hg. split; [apply stoch_iptw_mixture|apply (siptw_weights_sum l ps)]; assumption. Qed.

Theorem stoch_iptw_p01 l : positivity l -> complete l -> sat_g l ->
  siptw_mean (pconst 1) l == std TAll true l /\ siptw_mean (pconst 0) l == std TAll false l.
Proof. intros. split; [apply stoch_iptw_p1_is_all|apply stoch_iptw_p0_is_none]; assumption. Qed.

Theorem siptw_p01_is_iptw_arm l n : complete l -> no_miss_model l ->
  siptw_mean (pconst 1) l == iptw_mu false TAll n 1 1 true l /\
  siptw_mean (pconst 0) l == iptw_mu false TAll n 1 1 false l.
Proof. intros. split; [apply siptw_p1_is_iptw_arm|apply siptw_p0_is_iptw_arm]; assumption. Qed.
