From Coq Require Import QArith List Bool Lia Lra Psatz.
From Zepid Require Import Base.QSum Base.QUtil Model.RdBounds.
Import ListNotations.
Open Scope Q_scope.

(* per-unit contributions *)
Definition lo_u (u : unit) : Q := - (ind (is_b u) + ind (is_c u)).
Definition hi_u (u : unit) : Q := ind (is_a u) + ind (is_d u).

Lemma unit_bounds (c : cunit) : lo_u (fst c) <= ind (Y1 c) - ind (Y0 c) <= hi_u (fst c).
Proof.
  destruct c as [[a y] m]. unfold lo_u, hi_u, Y1, Y0, is_a, is_b, is_c, is_d; simpl.
  destruct a, y, m; simpl; split; lra.
Qed.

Lemma sum_lo (us : list unit) : Qsum lo_u us == - (cell is_b us + cell is_c us).
Proof.
  unfold lo_u, cell. rewrite Qsum_opp, Qsum_plus, !Qsum_ind_count. reflexivity.
Qed.
Lemma sum_hi (us : list unit) : Qsum hi_u us == cell is_a us + cell is_d us.
Proof. unfold hi_u, cell. rewrite Qsum_plus, !Qsum_ind_count. reflexivity. Qed.

Lemma Qlen_map {A B} (f : A -> B) l : Qlen (map f l) = Qlen l.
Proof. unfold Qlen. rewrite map_length. reflexivity. Qed.

Lemma causal_num (cs : list cunit) :
  Qsum (fun c => ind (Y1 c)) cs - Qsum (fun c => ind (Y0 c)) cs == Qsum (fun c => ind (Y1 c) - ind (Y0 c)) cs.
Proof. rewrite Qsum_minus. reflexivity. Qed.

Lemma div_le_compat x y n : 0 < n -> x <= y -> x / n <= y / n.
Proof.
  intros Hn H. unfold Qdiv. apply Qmult_le_compat_r; [exact H|]. apply Qlt_le_weak, Qinv_lt_0_compat, Hn.
Qed.

Theorem bounds_valid (cs : list cunit) : cs <> [] ->
  lower (map fst cs) <= causal_rd cs /\ causal_rd cs <= upper (map fst cs).
Proof.
  intros Hne. assert (Hn : 0 < Qlen cs) by (apply Qlen_pos; exact Hne).
  unfold lower, upper, causal_rd. rewrite Qlen_map, causal_num, <- sum_lo, <- sum_hi, !Qsum_map.
  split; apply div_le_compat; try exact Hn; apply Qsum_le; intros c _; apply unit_bounds.
Qed.

Lemma low_unit u : ind (Y1 (u, ua u)) - ind (Y0 (u, ua u)) == lo_u u.
Proof. destruct u as [a y]. unfold lo_u, Y1, Y0, is_b, is_c; simpl. destruct a, y; simpl; ring. Qed.
Lemma high_unit u : ind (Y1 (u, negb (ua u))) - ind (Y0 (u, negb (ua u))) == hi_u u.
Proof. destruct u as [a y]. unfold hi_u, Y1, Y0, is_a, is_d; simpl. destruct a, y; simpl; ring. Qed.

Theorem lower_attained (us : list unit) :
  map fst (complete_low us) = us /\ causal_rd (complete_low us) == lower us.
Proof.
  split.
  - unfold complete_low. rewrite map_map. simpl. apply map_id.
  - unfold causal_rd, lower, complete_low. rewrite Qlen_map, causal_num, Qsum_map, <- sum_lo.
    apply Qdiv_comp; [|reflexivity]. apply Qsum_ext_all. intros u. apply low_unit.
Qed.

Theorem upper_attained (us : list unit) :
  map fst (complete_high us) = us /\ causal_rd (complete_high us) == upper us.
Proof.
  split.
  - unfold complete_high. rewrite map_map. simpl. apply map_id.
  - unfold causal_rd, upper, complete_high. rewrite Qlen_map, causal_num, Qsum_map, <- sum_hi.
    apply Qdiv_comp; [|reflexivity]. apply Qsum_ext_all. intros u. apply high_unit.
Qed.

Lemma cells_partition (us : list unit) : cell is_a us + cell is_b us + cell is_c us + cell is_d us == Qlen us.
Proof.
  unfold cell. rewrite <- !Qsum_ind_count, <- !Qsum_plus, <- Qsum_one.
  apply Qsum_ext_all. intros [a y]. unfold is_a, is_b, is_c, is_d; simpl. destruct a, y; simpl; ring.
Qed.

Theorem width_one (us : list unit) : us <> [] -> upper us - lower us == 1.
Proof.
  intros Hne. assert (Hn : 0 < Qlen us) by (apply Qlen_pos; exact Hne).
  assert (E := cells_partition us).
  assert (Hnz : ~ Qlen us == 0) by (intros H; rewrite H in Hn; apply (Qlt_irrefl 0); exact Hn).
  unfold upper, lower.
  setoid_replace ((cell is_a us + cell is_d us) / Qlen us - - (cell is_b us + cell is_c us) / Qlen us)
    with ((cell is_a us + cell is_b us + cell is_c us + cell is_d us) / Qlen us) by (field; exact Hnz).
  rewrite E. field. exact Hnz.
Qed.

Lemma cell_nonneg p us : 0 <= cell p us.
Proof. apply Qlen_nonneg. Qed.

(* closed forms in the four counts *)
Lemma pos_nz x : 0 < x -> ~ x == 0.
Proof. intros H E. rewrite E in H. apply (Qlt_irrefl 0). exact H. Qed.
Lemma lower_counts_closed a b c d : 0 < a + b -> 0 < c + d ->
  lower_counts a b c d == - (b + c) / (a + b + c + d).
Proof. intros H1 H2. unfold lower_counts. cbv zeta. field. repeat split; apply pos_nz; lra. Qed.
Lemma upper_counts_closed a b c d : 0 < a + b -> 0 < c + d ->
  upper_counts a b c d == (a + d) / (a + b + c + d).
Proof. intros H1 H2. unfold upper_counts. cbv zeta. field. repeat split; apply pos_nz; lra. Qed.

Theorem counts_are_bounds (us : list unit) :
  0 < cell is_a us + cell is_b us -> 0 < cell is_c us + cell is_d us ->
  lower_counts (cell is_a us) (cell is_b us) (cell is_c us) (cell is_d us) == lower us /\
  upper_counts (cell is_a us) (cell is_b us) (cell is_c us) (cell is_d us) == upper us.
Proof.
  intros H1 H2. rewrite lower_counts_closed, upper_counts_closed by assumption.
  unfold lower, upper. rewrite cells_partition. split; reflexivity.
Qed.

(* the interval contains the observed (associational) risk difference *)
Theorem contains_rd a b c d : 0 < a -> 0 < b -> 0 < c -> 0 < d ->
  lower_counts a b c d <= a / (a + b) - c / (c + d) /\ a / (a + b) - c / (c + d) <= upper_counts a b c d.
Proof.
  intros Ha Hb Hc Hd.
  assert (Hab : 0 < a + b) by lra. assert (Hcd : 0 < c + d) by lra.
  assert (Hn : 0 < a + b + c + d) by lra.
  set (r1 := a / (a + b)). set (r0 := c / (c + d)). set (p := (a + b) / (a + b + c + d)).
  assert (Hr1 : 0 <= r1 /\ r1 <= 1).
  { unfold r1. split; [apply Qle_shift_div_l; lra | apply Qle_shift_div_r; lra]. }
  assert (Hr0 : 0 <= r0 /\ r0 <= 1).
  { unfold r0. split; [apply Qle_shift_div_l; lra | apply Qle_shift_div_r; lra]. }
  assert (Hp : 0 <= p /\ p <= 1).
  { unfold p. split; [apply Qle_shift_div_l; lra | apply Qle_shift_div_r; lra]. }
  unfold lower_counts, upper_counts. cbv zeta. fold r1 r0 p.
  destruct Hr1, Hr0, Hp. split; nra.
Qed.

(* the formula that shipped before the repair is not a valid bound *)
Theorem old_bounds_refuted :
  exists cs : list cunit, cs <> [] /\
    let us := map fst cs in
    causal_rd cs < old_lower_counts (cell is_a us) (cell is_b us) (cell is_c us) (cell is_d us).
Proof.
  exists (complete_low (table 3 1 3 1)). split; [discriminate|]. vm_compute. reflexivity.
Qed.
