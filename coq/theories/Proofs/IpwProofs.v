(* C05 -- lemmas about Model.Ipw (inverse probability weights). *)
From Coq Require Import QArith ZArith List Bool Lia Lra Lqa Permutation Sorted Setoid Morphisms.
From Zepid Require Import Base.QSum Base.QUtil Model.Bounds Proofs.BoundsProofs Spec.WeightSpec Model.Ipw
  GenProofs.GenProofs_weights.
From ZepidGen Require Import Gen_weights_Q.
Import ListNotations.
Open Scope Q_scope.

(* ------------------------------------------------------------------------------------------ products *)
Section QProd.
Context {A : Type}.

Lemma Qprod_ext (f g : A -> Q) l : (forall x, In x l -> f x == g x) -> Qprod f l == Qprod g l.
Proof.
  induction l as [|x xs IH]; simpl; intros H; [reflexivity|].
  rewrite (H x (or_introl eq_refl)), IH; [reflexivity|]. intros y Hy. apply H. right; exact Hy.
Qed.

Lemma Qprod_app (f : A -> Q) l1 l2 : Qprod f (l1 ++ l2) == Qprod f l1 * Qprod f l2.
Proof. induction l1 as [|x xs IH]; simpl; [ring|]. rewrite IH. ring. Qed.

Lemma Qprod_mult (f g : A -> Q) l : Qprod (fun x => f x * g x) l == Qprod f l * Qprod g l.
Proof. induction l as [|x xs IH]; simpl; [ring|]. rewrite IH. ring. Qed.

Lemma Qprod_inv (f : A -> Q) l : Qprod (fun x => / f x) l == / Qprod f l.
Proof.
  induction l as [|x xs IH]; simpl; [reflexivity|]. rewrite IH, Qinv_mult_distr. reflexivity.
Qed.

Lemma Qprod_div (f g : A -> Q) l : Qprod (fun x => f x / g x) l == Qprod f l / Qprod g l.
Proof. unfold Qdiv. rewrite Qprod_mult, Qprod_inv. reflexivity. Qed.

Lemma Qprod_one (f : A -> Q) l : (forall x, In x l -> f x == 1) -> Qprod f l == 1.
Proof.
  induction l as [|x xs IH]; simpl; intros H; [reflexivity|].
  rewrite (H x (or_introl eq_refl)), IH; [ring|]. intros y Hy. apply H. right; exact Hy.
Qed.

Lemma Qprod_Permutation (f : A -> Q) l l' : Permutation l l' -> Qprod f l == Qprod f l'.
Proof.
  induction 1 as [|x l l' _ IH|x y l|l l' l'' _ IH1 _ IH2]; simpl.
  - reflexivity.
  - rewrite IH; reflexivity.
  - ring.
  - rewrite IH1; exact IH2.
Qed.

Lemma Qprod_nonzero (f : A -> Q) l : (forall x, In x l -> ~ f x == 0) -> ~ Qprod f l == 0.
Proof.
  induction l as [|x xs IH]; simpl; intros H.
  - intros E. discriminate E.
  - intros E. apply Qmult_integral in E. destruct E as [E|E].
    + exact (H x (or_introl eq_refl) E).
    + apply IH; [|exact E]. intros y Hy. apply H. right; exact Hy.
Qed.

Lemma Qprod_list_map (f : A -> Q) l : Qprod_list (map f l) == Qprod f l.
Proof. induction l as [|x xs IH]; simpl; [reflexivity|]. rewrite IH. reflexivity. Qed.
End QProd.

Lemma Qprod_seq_S (f : nat -> Q) K : Qprod f (seq 0 (S K)) == Qprod f (seq 0 K) * f K.
Proof. rewrite seq_S, Qprod_app. simpl. ring. Qed.

(* ------------------------------------------------------------------------------------------------ IPTW *)
Lemma pos_ne0 x : 0 < x -> ~ x == 0.
Proof. intros H E. rewrite E in H. apply (Qlt_irrefl 0 H). Qed.

Theorem iptw_is_ip_of_received stab t a d n :
  0 < d -> d < 1 -> (stab = true -> 0 < n /\ n < 1) ->
  exists x, iptw_weight stab t a d n = Some x /\ x == spec_iptw stab t a d n.
Proof.
  intros Hd0 Hd1 Hn.
  assert (D0 : ~ d == 0) by (apply pos_ne0; exact Hd0).
  assert (D1 : ~ 1 - d == 0) by (apply pos_ne0; lra).
  unfold iptw_weight, iptw_code. destruct stab.
  - destruct (Hn eq_refl) as [Hn0 Hn1].
    assert (N0 : ~ n == 0) by (apply pos_ne0; exact Hn0).
    assert (N1 : ~ 1 - n == 0) by (apply pos_ne0; lra).
    destruct t.
    + destruct (gen_stab_population a d n D0 D1) as [x [E H]]. rewrite E. exists x. split; [reflexivity|exact H].
    + destruct (gen_stab_exposed a d n D1 N0) as [x [E H]]. rewrite E. exists x. split; [reflexivity|exact H].
    + destruct (gen_stab_unexposed a d n D0 N1) as [x [E H]]. rewrite E. exists x. split; [reflexivity|exact H].
  - destruct t.
    + destruct (gen_unstab_population a d D0 D1) as [x [E H]]. rewrite E. exists x. split; [reflexivity|exact H].
    + destruct (gen_unstab_exposed a d D1) as [x [E H]]. rewrite E. exists x. split; [reflexivity|exact H].
    + destruct (gen_unstab_unexposed a d D0) as [x [E H]]. rewrite E. exists x. split; [reflexivity|exact H].
Qed.

(* the readable faces of the specification *)
Lemma spec_iptw_population_unstab a d n : spec_iptw false Population a d n == 1 / pr_received a d.
Proof. reflexivity. Qed.
Lemma spec_iptw_population_stab a d n : spec_iptw true Population a d n == pr_received a n / pr_received a d.
Proof. reflexivity. Qed.
Lemma spec_iptw_exposed_treated stab d n : spec_iptw stab Exposed true d n == 1.
Proof. reflexivity. Qed.
Lemma spec_iptw_exposed_untreated_unstab d n : spec_iptw false Exposed false d n == d / (1 - d).
Proof. unfold spec_iptw, odds. ring. Qed.
Lemma spec_iptw_exposed_untreated_stab d n : spec_iptw true Exposed false d n == (d / (1 - d)) * ((1 - n) / n).
Proof. reflexivity. Qed.
Lemma spec_iptw_unexposed_untreated stab d n : spec_iptw stab Unexposed false d n == 1.
Proof. reflexivity. Qed.
Lemma spec_iptw_unexposed_treated_unstab d n : spec_iptw false Unexposed true d n == (1 - d) / d.
Proof. unfold spec_iptw. ring. Qed.
Lemma spec_iptw_unexposed_treated_stab d n : spec_iptw true Unexposed true d n == ((1 - d) / d) * (n / (1 - n)).
Proof. reflexivity. Qed.

(* with `bound`: the weight is the specification at the CLIPPED probabilities, whatever the raw ones are *)
Theorem iptw_bounded_is_spec stab t lo hi a d n : 0 < lo -> lo <= hi -> hi < 1 ->
  exists x, iptw_row stab t (Some (lo, hi)) (a, d, n) = (seq_clip1 lo hi d, seq_clip1 lo hi n, Some x) /\
            seq_clip1 lo hi d == clip1 lo hi d /\ seq_clip1 lo hi n == clip1 lo hi n /\
            x == spec_iptw stab t a (clip1 lo hi d) (clip1 lo hi n).
Proof.
  intros H0 Hle H1.
  assert (Ed := seq_clip1_is_clip lo hi d Hle). assert (En := seq_clip1_is_clip lo hi n Hle).
  destruct (clip1_range lo hi d Hle) as [Rd0 Rd1]. destruct (clip1_range lo hi n Hle) as [Rn0 Rn1].
  destruct (iptw_is_ip_of_received stab t a (seq_clip1 lo hi d) (seq_clip1 lo hi n)) as [x [E H]].
  - rewrite Ed. lra.
  - rewrite Ed. lra.
  - intros _. rewrite En. split; lra.
  - exists x. unfold iptw_row, bound1. rewrite E. split; [reflexivity|]. split; [exact Ed|]. split; [exact En|].
    rewrite H. destruct stab, t, a; unfold spec_iptw, pr_received, odds; rewrite ?Ed, ?En; reflexivity.
Qed.

Theorem iptw_unbounded_row stab t a d n :
  iptw_row stab t None (a, d, n) = (d, n, iptw_weight stab t a d n).
Proof. reflexivity. Qed.

(* ------------------------------------------------------------------------------------- StochasticIPTW *)
Lemma stoch_fold a conds : forall cur,
  fold_left (stoch_step a) conds cur =
  match last_match conds with Some q => Some (pr_received a q) | None => cur end.
Proof.
  induction conds as [|[c p] tl IH]; intros cur; simpl; [reflexivity|].
  rewrite IH. destruct (last_match tl); [reflexivity|]. unfold stoch_step; simpl. destruct c; reflexivity.
Qed.

Lemma stoch_numer_cond_last a conds :
  stoch_numer_cond a conds = option_map (pr_received a) (last_match conds).
Proof. unfold stoch_numer_cond. rewrite stoch_fold. destruct (last_match conds); reflexivity. Qed.

(* first-to-last overwrite: a condition that holds, followed only by conditions that do not, decides *)
Lemma last_match_decides l1 p l2 :
  forallb (fun cp => negb (fst cp)) l2 = true -> last_match (l1 ++ (true, p) :: l2) = Some p.
Proof.
  intros H. assert (E : last_match l2 = None).
  { induction l2 as [|[c q] tl IH]; [reflexivity|]. simpl in H. apply andb_prop in H. destruct H as [Hc Ht].
    simpl. rewrite (IH Ht). destruct c; [discriminate|reflexivity]. }
  induction l1 as [|[c q] tl IH]; simpl.
  - rewrite E. reflexivity.
  - rewrite IH. reflexivity.
Qed.

Lemma last_match_none conds : forallb (fun cp => negb (fst cp)) conds = true -> last_match conds = None.
Proof.
  induction conds as [|[c q] tl IH]; [reflexivity|]. simpl. intros H. apply andb_prop in H. destruct H as [Hc Ht].
  rewrite (IH Ht). destruct c; [discriminate|reflexivity].
Qed.

Definition plan_prob (pl : plan) : option Q :=
  match pl with Marginal p => Some p | Conditional cs => last_match cs end.

Theorem stochastic_weight r :
  match plan_prob (s_plan r) with
  | Some pbar => exists w, stoch_weight r = Some w /\ w == spec_stochastic (s_a r) pbar (s_pd r) * s_w r
  | None => stoch_weight r = None
  end.
Proof.
  unfold stoch_weight, stoch_numer, plan_prob. destruct (s_plan r) as [p|cs].
  - eexists. split; [reflexivity|]. unfold spec_stochastic, stoch_denom, pr_received. reflexivity.
  - rewrite stoch_numer_cond_last. destruct (last_match cs) as [q|]; simpl; [|reflexivity].
    eexists. split; [reflexivity|]. unfold spec_stochastic, stoch_denom, pr_received. reflexivity.
Qed.

(* exclusive conditions: the one condition that holds on the row supplies the plan probability *)
Corollary stochastic_weight_exclusive r l1 p l2 :
  s_plan r = Conditional (l1 ++ (true, p) :: l2) ->
  forallb (fun cp => negb (fst cp)) l1 = true -> forallb (fun cp => negb (fst cp)) l2 = true ->
  exists w, stoch_weight r = Some w /\ w == pr_received (s_a r) p / pr_received (s_a r) (s_pd r) * s_w r.
Proof.
  intros E _ H2. generalize (stochastic_weight r). rewrite E. simpl. rewrite (last_match_decides l1 p l2 H2).
  intros H; exact H.
Qed.

(* ------------------------------------------------------------------------------------------------ IPMW *)
Definition oQeq (x y : option Q) : Prop :=
  match x, y with Some a, Some b => a == b | None, None => True | _, _ => False end.

Lemma oQeq_trans x y z : oQeq x y -> oQeq y z -> oQeq x z.
Proof. destruct x, y, z; simpl; try tauto. intros H1 H2. rewrite H1. exact H2. Qed.
Lemma oQeq_sym x y : oQeq x y -> oQeq y x.
Proof. destruct x, y; simpl; try tauto. intros H. symmetry. exact H. Qed.

Lemma monotone_step rows K r j :
  monotone_ok rows K = true -> In r rows -> (S j < K)%nat -> obs (S j) r = true -> obs j r = true.
Proof.
  unfold monotone_ok. intros H Hin Hj Ho. rewrite forallb_forall in H. specialize (H r Hin).
  rewrite forallb_forall in H. specialize (H j). rewrite Ho in H. simpl in H. apply H. apply in_seq. lia.
Qed.

Lemma monotone_down rows K r : monotone_ok rows K = true -> In r rows ->
  forall m k, (k + m < K)%nat -> obs (k + m) r = true -> obs k r = true.
Proof.
  intros H Hin. induction m as [|m IH]; intros k Hk Ho.
  - rewrite Nat.add_0_r in Ho. exact Ho.
  - apply IH; [lia|]. apply (monotone_step rows K r (k + m) H Hin); [lia|].
    replace (S (k + m)) with (k + S m)%nat by lia. exact Ho.
Qed.

Lemma monotone_last_all rows K r : monotone_ok rows K = true -> In r rows -> (0 < K)%nat ->
  obs (K - 1) r = forallb (fun k => obs k r) (seq 0 K).
Proof.
  intros H Hin HK. destruct (obs (K - 1) r) eqn:E.
  - symmetry. apply forallb_forall. intros k Hk. apply in_seq in Hk.
    apply (monotone_down rows K r H Hin (K - 1 - k) k); [lia|].
    replace (k + (K - 1 - k))%nat with (K - 1)%nat by lia. exact E.
  - symmetry. apply not_true_is_false. intros F. rewrite forallb_forall in F.
    rewrite (F (K - 1)%nat) in E; [discriminate|]. apply in_seq. lia.
Qed.

(* the documented weight: inverse of the product over ALL variables of the conditional observation
   probabilities.  A variable whose pattern is uniform with its predecessor gets no model; its conditional
   observation probability is 1 on the training rows (all of them are observed) -- hypothesis Hd/Hn. *)
Theorem ipmw_monotone_product stab rows K r :
  (forall k, (k < K)%nat -> fitted rows k = false -> den_at k r == 1) ->
  (stab = true -> forall k, (k < K)%nat -> fitted rows k = false -> num_at k r == 1) ->
  oQeq (ipmw_monotone stab rows K r)
       (spec_ipmw stab (obs (K - 1) r) (map (fun k => num_at k r) (seq 0 K)) (map (fun k => den_at k r) (seq 0 K))).
Proof.
  intros Hd Hn. unfold ipmw_monotone, spec_ipmw. destruct (obs (K - 1) r); simpl; [|exact I].
  assert (P : forall sel, (forall k, (k < K)%nat -> fitted rows k = false -> sel k r == 1) ->
              prod_fitted sel rows K r == Qprod_list (map (fun k => sel k r) (seq 0 K))).
  { intros sel Hs. unfold prod_fitted. rewrite Qprod_list_map. apply Qprod_ext. intros k Hk. apply in_seq in Hk.
    destruct (fitted rows k) eqn:F; [reflexivity|]. symmetry. apply Hs; [lia|exact F]. }
  rewrite (P den_at Hd). destruct stab; [rewrite (P num_at (Hn eq_refl))|]; reflexivity.
Qed.

Corollary ipmw_monotone_unstab_inverse_product rows K r :
  (forall k, (k < K)%nat -> fitted rows k = false -> den_at k r == 1) -> obs (K - 1) r = true ->
  exists w, ipmw_monotone false rows K r = Some w /\ w == 1 / Qprod (fun k => den_at k r) (seq 0 K).
Proof.
  intros Hd Ho. assert (Hn : false = true -> forall k, (k < K)%nat -> fitted rows k = false -> num_at k r == 1) by discriminate.
  generalize (ipmw_monotone_product false rows K r Hd Hn).
  unfold ipmw_monotone, spec_ipmw. rewrite Ho. simpl. intros H. eexists. split; [reflexivity|].
  rewrite H, Qprod_list_map. reflexivity.
Qed.

(* overall-uniform data: the single-variable path gives what the general path would give *)
Lemma overall_uniform_row rows K r : overall_uniform rows K = true -> In r rows ->
  forallb (fun k => obs k r) (seq 0 K) = obs 0 r.
Proof.
  unfold overall_uniform. intros H Hin. rewrite forallb_forall in H. specialize (H r Hin).
  apply eqb_prop in H. exact H.
Qed.

Lemma overall_uniform_not_fitted rows K j : monotone_ok rows K = true -> overall_uniform rows K = true ->
  (S j < K)%nat -> fitted rows (S j) = false.
Proof.
  intros Hm Hu Hj. unfold fitted. apply negb_false_iff. unfold uniform_pair. apply forallb_forall. intros r Hin.
  destruct (obs j r) eqn:Ej; simpl; [|reflexivity].
  assert (E0 : obs 0 r = true).
  { apply (monotone_down rows K r Hm Hin j 0%nat); [lia|exact Ej]. }
  pose proof (overall_uniform_row rows K r Hu Hin) as Ha. rewrite E0 in Ha. rewrite forallb_forall in Ha.
  rewrite (Ha (S j)); [reflexivity|]. apply in_seq. lia.
Qed.

Lemma prod_fitted_uniform sel rows K r : monotone_ok rows K = true -> overall_uniform rows K = true ->
  (0 < K)%nat -> prod_fitted sel rows K r == sel 0%nat r.
Proof.
  intros Hm Hu HK. unfold prod_fitted. destruct K as [|K]; [lia|]. cbn [seq Qprod fitted].
  rewrite Qprod_one; [ring|]. intros k Hk. apply in_seq in Hk. destruct k as [|j]; [lia|].
  rewrite (overall_uniform_not_fitted rows (S K) j Hm Hu); [reflexivity|lia].
Qed.

Lemma ipmw_paths_agree stab rows K r : monotone_ok rows K = true -> overall_uniform rows K = true ->
  (0 < K)%nat -> In r rows -> oQeq (ipmw_single stab r) (ipmw_monotone stab rows K r).
Proof.
  intros Hm Hu HK Hin. unfold ipmw_single, ipmw_monotone.
  rewrite (monotone_last_all rows K r Hm Hin HK), (overall_uniform_row rows K r Hu Hin).
  destruct (obs 0 r); simpl; [|exact I].
  rewrite (prod_fitted_uniform den_at rows K r Hm Hu HK).
  destruct stab; [rewrite (prod_fitted_uniform num_at rows K r Hm Hu HK)|]; reflexivity.
Qed.

(* what IPMW.Weight is, on either path, for monotone data *)
Theorem ipmw_code_is_spec stab rows K r :
  monotone_ok rows K = true -> (0 < K)%nat -> In r rows ->
  (forall k, (k < K)%nat -> fitted rows k = false -> den_at k r == 1) ->
  (stab = true -> forall k, (k < K)%nat -> fitted rows k = false -> num_at k r == 1) ->
  oQeq (ipmw_code stab rows K r)
       (spec_ipmw stab (forallb (fun k => obs k r) (seq 0 K))
                  (map (fun k => num_at k r) (seq 0 K)) (map (fun k => den_at k r) (seq 0 K))).
Proof.
  intros Hm HK Hin Hd Hn. rewrite <- (monotone_last_all rows K r Hm Hin HK).
  apply (oQeq_trans _ (ipmw_monotone stab rows K r)); [|apply ipmw_monotone_product; assumption].
  unfold ipmw_code. destruct (overall_uniform rows K) eqn:Hu.
  - apply ipmw_paths_agree; assumption.
  - destruct (ipmw_monotone stab rows K r); simpl; [reflexivity|exact I].
Qed.

Theorem ipmw_unobserved_none stab rows K r :
  monotone_ok rows K = true -> (0 < K)%nat -> In r rows ->
  (ipmw_code stab rows K r = None <-> exists k, (k < K)%nat /\ obs k r = false).
Proof.
  intros Hm HK Hin.
  assert (E : ipmw_code stab rows K r = None <-> forallb (fun k => obs k r) (seq 0 K) = false).
  { unfold ipmw_code. destruct (overall_uniform rows K) eqn:Hu.
    - unfold ipmw_single. rewrite (overall_uniform_row rows K r Hu Hin). destruct (obs 0 r); split; intros; try discriminate; reflexivity.
    - unfold ipmw_monotone. rewrite (monotone_last_all rows K r Hm Hin HK).
      destruct (forallb (fun k => obs k r) (seq 0 K)); split; intros; try discriminate; reflexivity. }
  rewrite E. split.
  - intros F. destruct (forallb (fun k => obs k r) (seq 0 K)) eqn:G; [discriminate|].
    assert (X : existsb (fun k => negb (obs k r)) (seq 0 K) = true).
    { clear -G. induction (seq 0 K) as [|k l IH]; [discriminate|]. simpl in *. destruct (obs k r); simpl in *; [apply IH; exact G|reflexivity]. }
    apply existsb_exists in X. destruct X as [k [Hk Ho]]. exists k. apply in_seq in Hk. split; [lia|].
    apply negb_true_iff. exact Ho.
  - intros [k [Hk Ho]]. apply not_true_is_false. intros F. rewrite forallb_forall in F.
    rewrite F in Ho; [discriminate|]. apply in_seq. lia.
Qed.

(* telescoping: models saturated in a common stratum code *)
Lemma filter_len_ext {A} (p q : A -> bool) l : (forall x, In x l -> p x = q x) -> Qlen (filter p l) == Qlen (filter q l).
Proof. intros H. rewrite (filter_ext_in p q l H). reflexivity. Qed.

Lemma filter_filter {A} (p q : A -> bool) l : filter p (filter q l) = filter (fun x => q x && p x) l.
Proof. induction l as [|x xs IH]; [reflexivity|]. simpl. destruct (q x); simpl; [destruct (p x)|]; rewrite IH; reflexivity. Qed.

(* size of the training set of variable k within stratum s *)
Definition ntrain (rows : list mrow) (s k : nat) : Q := Qlen (filter (in_s s) (train rows k)).

Lemma ntrain_0 rows s : ntrain rows s 0 == cnt_all rows s.
Proof. reflexivity. Qed.
Lemma ntrain_S rows s j : ntrain rows s (S j) == cnt_obs rows s j.
Proof.
  unfold ntrain, cnt_obs, train. rewrite filter_filter. apply filter_len_ext. intros x _. apply andb_comm.
Qed.

(* SatFit: the prediction of the model of variable k on row r is the proportion observed on k among the
   training rows of r's stratum (the logistic MLE of a design saturated in the stratum) *)
Definition sat_fit (sel : nat -> mrow -> Q) (rows : list mrow) (K : nat) (r : mrow) : Prop :=
  forall k, (k < K)%nat -> fitted rows k = true ->
    sel k r * ntrain rows (m_s r) k == Qlen (filter (fun x => in_s (m_s r) x && obs k x) (train rows k)).

Lemma telescope_prefix rows Kall r : monotone_ok rows Kall = true -> sat_fit den_at rows Kall r ->
  forall K, (K <= Kall)%nat ->
  prod_fitted den_at rows K r * cnt_all rows (m_s r) == ntrain rows (m_s r) K.
Proof.
  intros Hm Hs. induction K as [|K IH]; intros HK.
  - unfold prod_fitted. simpl. rewrite ntrain_0. ring.
  - unfold prod_fitted in *. rewrite Qprod_seq_S.
    transitivity ((if fitted rows K then den_at K r else 1) * ntrain rows (m_s r) K).
    { rewrite <- IH by lia. ring. }
    rewrite ntrain_S. destruct (fitted rows K) eqn:F.
    + rewrite (Hs K) by (try lia; exact F). unfold cnt_obs. destruct K as [|j].
      * reflexivity.
      * unfold train. rewrite filter_filter. apply filter_len_ext. intros x Hx.
        destruct (obs (S j) x) eqn:Eo; [|rewrite !andb_false_r; reflexivity].
        rewrite (monotone_step rows Kall x j Hm Hx); [reflexivity|lia|exact Eo].
    + (* skipped variable: uniform with its predecessor, so the two counts coincide *)
      destruct K as [|j]; [discriminate|]. rewrite ntrain_S. rewrite Qmult_1_l.
      unfold cnt_obs. apply filter_len_ext. intros x Hx. f_equal.
      unfold fitted in F. apply negb_false_iff in F. unfold uniform_pair in F. rewrite forallb_forall in F.
      specialize (F x Hx). apply eqb_prop in F.
      destruct (obs (S j) x) eqn:Eo.
      * apply (monotone_step rows Kall x j Hm Hx); [lia|exact Eo].
      * destruct (obs j x); [rewrite andb_false_r in F; discriminate|reflexivity].
Qed.

Theorem ipmw_telescopes rows K r :
  monotone_ok rows K = true -> (0 < K)%nat -> In r rows -> sat_fit den_at rows K r ->
  0 < cnt_obs rows (m_s r) (K - 1) -> obs (K - 1) r = true ->
  exists w, ipmw_monotone false rows K r = Some w /\ w == cnt_all rows (m_s r) / cnt_obs rows (m_s r) (K - 1).
Proof.
  intros Hm HK Hin Hs Hpos Ho. unfold ipmw_monotone. rewrite Ho. eexists. split; [reflexivity|].
  pose proof (telescope_prefix rows K r Hm Hs K (le_n K)) as T.
  destruct K as [|j]; [lia|]. rewrite ntrain_S in T. replace (S j - 1)%nat with j in * by lia.
  assert (Hall : 0 < cnt_all rows (m_s r)).
  { unfold cnt_all. apply Qlen_pos. intros E. 
    assert (In r (filter (in_s (m_s r)) rows)). { apply filter_In. split; [exact Hin|]. unfold in_s. apply Nat.eqb_refl. }
    rewrite E in H. exact H. }
  assert (P : ~ prod_fitted den_at rows (S j) r == 0).
  { intros E. rewrite E in T. assert (cnt_obs rows (m_s r) j == 0) by (rewrite <- T; ring). lra. }
  field_simplify_eq; [|split; [lra|exact P]]. rewrite <- T. ring.
Qed.

(* ------------------------------------------------------------------------------------------------ IPCW *)
Definition sameid (r x : crow) : bool := (c_id x =? c_id r)%Z.

Lemma lookup_cons k k' v acc : lookup k ((k', v) :: acc) = if (k =? k')%Z then v else lookup k acc.
Proof. reflexivity. Qed.

(* the running product at a row = (what the accumulator held for its id) * product of f over the rows of the
   same id up to and including it *)
Lemma cumprod_split f : forall l1 acc r l2,
  exists v, nth_error (cumprod_by_id f acc (l1 ++ r :: l2)) (length l1) = Some v /\
            v == lookup (c_id r) acc * Qprod f (filter (sameid r) (l1 ++ [r])).
Proof.
  induction l1 as [|r0 l1 IH]; intros acc r l2.
  - simpl. eexists. split; [reflexivity|]. unfold sameid. rewrite Z.eqb_refl. simpl. ring.
  - cbn [app cumprod_by_id length nth_error].
    destruct (IH ((c_id r0, lookup (c_id r0) acc * f r0) :: acc) r l2) as [v [E H]].
    exists v. split; [exact E|]. rewrite H, lookup_cons. cbn [filter]. unfold sameid at 2.
    rewrite (Z.eqb_sym (c_id r0) (c_id r)). destruct (c_id r =? c_id r0)%Z eqn:Eid.
    + apply Z.eqb_eq in Eid. rewrite Eid. cbn [Qprod]. ring.
    + reflexivity.
Qed.

Lemma cumprod_length f : forall l acc, length (cumprod_by_id f acc l) = length l.
Proof. induction l as [|r l IH]; intros acc; simpl; [reflexivity|]. rewrite IH. reflexivity. Qed.

Lemma map2_nth {A B C} (f : A -> B -> C) : forall la lb i a b,
  nth_error la i = Some a -> nth_error lb i = Some b -> nth_error (map2 f la lb) i = Some (f a b).
Proof.
  induction la as [|x la IH]; intros lb i a b Ha Hb; [destruct i; discriminate|].
  destruct lb as [|y lb]; [destruct i; discriminate|]. destruct i as [|i]; simpl in *.
  - inversion Ha; inversion Hb; reflexivity.
  - apply IH; assumption.
Qed.

Lemma sorted_split_before R (l1 : list crow) r l2 : StronglySorted R (l1 ++ r :: l2) -> Forall (fun x => R x r) l1.
Proof.
  induction l1 as [|x l1 IH]; intros H; [constructor|]. simpl in H. apply StronglySorted_inv in H.
  destruct H as [Hs Hf]. constructor; [|apply IH; exact Hs].
  rewrite Forall_forall in Hf. apply Hf. apply in_or_app. right. left. reflexivity.
Qed.
Lemma sorted_split_after R (l1 : list crow) r l2 : StronglySorted R (l1 ++ r :: l2) -> Forall (R r) l2.
Proof.
  induction l1 as [|x l1 IH]; intros H; simpl in H; apply StronglySorted_inv in H; destruct H as [Hs Hf].
  - exact Hf.
  - apply IH. exact Hs.
Qed.

Lemma Qle_bool_false x y : y < x -> Qle_bool x y = false.
Proof. intros H. apply not_true_is_false. intros E. apply Qle_bool_iff in E. lra. Qed.
Lemma Qle_bool_true x y : x <= y -> Qle_bool x y = true.
Proof. intros H. apply Qle_bool_iff. exact H. Qed.

(* on a strictly (id,time)-sorted list, "rows of the same subject up to here" = "rows of the same subject with
   time <= this row's time" *)
Lemma upto_after r l2 : Forall (key_lt r) l2 -> filter (upto c_id c_time r) l2 = [].
Proof.
  induction l2 as [|x l2 IH]; intros Ha; [reflexivity|]. inversion Ha as [|x' l' Hx Hl]; subst.
  cbn [filter]. unfold upto at 1. destruct (c_id x =? c_id r)%Z eqn:E; cbn [andb].
  - apply Z.eqb_eq in E. destruct Hx as [Hlt|[_ Ht]]; [lia|]. rewrite (Qle_bool_false _ _ Ht). apply IH; exact Hl.
  - apply IH; exact Hl.
Qed.

Lemma upto_before r l1 : Forall (fun x => key_lt x r) l1 -> filter (upto c_id c_time r) l1 = filter (sameid r) l1.
Proof.
  intros Hb. apply filter_ext_in. intros x Hx. rewrite Forall_forall in Hb. specialize (Hb x Hx).
  unfold upto, sameid. destruct (c_id x =? c_id r)%Z eqn:E; [|reflexivity]. cbn [andb].
  apply Z.eqb_eq in E. destruct Hb as [Hlt|[_ Ht]]; [lia|]. apply Qle_bool_true. lra.
Qed.

Lemma upto_self r : upto c_id c_time r r = true /\ sameid r r = true.
Proof. unfold upto, sameid. rewrite Z.eqb_refl, (Qle_bool_true _ _ (Qle_refl _)). split; reflexivity. Qed.

Lemma upto_filter_sorted l1 r l2 : StronglySorted key_lt (l1 ++ r :: l2) ->
  filter (upto c_id c_time r) (l1 ++ r :: l2) = filter (sameid r) (l1 ++ [r]).
Proof.
  intros Hs. pose proof (sorted_split_before _ _ _ _ Hs) as Hb. pose proof (sorted_split_after _ _ _ _ Hs) as Ha.
  rewrite !filter_app. cbn [filter]. destruct (upto_self r) as [E1 E2]. rewrite E1, E2.
  rewrite (upto_after r l2 Ha), (upto_before r l1 Hb). reflexivity.
Qed.

Theorem ipcw_running_product l i r : StronglySorted key_lt l -> nth_error l i = Some r ->
  exists w, nth_error (ipcw_weights l) i = Some w /\ w == cspec_weight l r.
Proof.
  intros Hs Hn. destruct (nth_error_split l i Hn) as [l1 [l2 [El Hi]]]. subst l i.
  destruct (cumprod_split c_num l1 [] r l2) as [vn [En Hvn]].
  destruct (cumprod_split c_den l1 [] r l2) as [vd [Ed Hvd]].
  exists (vn / vd). split.
  - unfold ipcw_weights. apply map2_nth; assumption.
  - unfold cspec_weight, spec_ipcw. rewrite (upto_filter_sorted l1 r l2 Hs), Qprod_list_map, Qprod_div.
    rewrite Hvn, Hvd. simpl. rewrite !Qmult_1_l. reflexivity.
Qed.

(* the specification does not depend on the order of the rows *)
Lemma filter_Permutation {A} (p : A -> bool) l l' : Permutation l l' -> Permutation (filter p l) (filter p l').
Proof.
  induction 1 as [|x l l' _ IH|x y l|l l' l'' _ IH1 _ IH2]; simpl.
  - constructor.
  - destruct (p x); [constructor|]; exact IH.
  - destruct (p x), (p y); try apply perm_swap; try apply Permutation_refl.
  - eapply Permutation_trans; eassumption.
Qed.

Lemma cspec_weight_perm l l' r : Permutation l l' -> cspec_weight l r == cspec_weight l' r.
Proof.
  intros H. unfold cspec_weight, spec_ipcw. rewrite !Qprod_list_map.
  apply Qprod_Permutation. apply filter_Permutation. exact H.
Qed.

Lemma nth_error_combine {A B} : forall (la : list A) (lb : list B) i a b,
  nth_error (combine la lb) i = Some (a, b) -> nth_error la i = Some a /\ nth_error lb i = Some b.
Proof.
  induction la as [|x la IH]; intros lb i a b H; [destruct i; discriminate|].
  destruct lb as [|y lb]; [destruct i; discriminate|]. destruct i as [|i]; simpl in *.
  - inversion H; split; reflexivity.
  - apply IH; exact H.
Qed.

Lemma ipcw_In_spec s r w : StronglySorted key_lt s -> In (r, w) (combine s (ipcw_weights s)) -> w == cspec_weight s r.
Proof.
  intros Hs Hin. apply In_nth_error in Hin. destruct Hin as [i Hi].
  apply nth_error_combine in Hi. destruct Hi as [Hr Hw].
  destruct (ipcw_running_product s i r Hs Hr) as [w' [E H]]. rewrite E in Hw. inversion Hw; subst. exact H.
Qed.

(* the weights of the sorted frame are the order-free specification evaluated on the caller's (unsorted) rows *)
Theorem ipcw_weight_is_spec_of_input input s r w :
  Permutation s input -> StronglySorted key_lt s -> In (r, w) (combine s (ipcw_weights s)) ->
  w == cspec_weight input r.
Proof. intros Hp Hs Hin. rewrite (ipcw_In_spec s r w Hs Hin). apply cspec_weight_perm. exact Hp. Qed.

(* any two sorted permutations of permuted inputs carry the same weight on every row *)
Theorem ipcw_sort_invariant s1 s2 r w1 w2 :
  Permutation s1 s2 -> StronglySorted key_lt s1 -> StronglySorted key_lt s2 ->
  In (r, w1) (combine s1 (ipcw_weights s1)) -> In (r, w2) (combine s2 (ipcw_weights s2)) -> w1 == w2.
Proof.
  intros Hp H1 H2 I1 I2. rewrite (ipcw_In_spec s1 r w1 H1 I1), (ipcw_In_spec s2 r w2 H2 I2).
  apply cspec_weight_perm. exact Hp.
Qed.

(* uncensored indicator *)
Lemma key_lt_tail_ids r r' tl : (c_id r < c_id r')%Z -> StronglySorted key_lt (r' :: tl) ->
  forall x, In x (r' :: tl) -> (c_id r < c_id x)%Z.
Proof.
  intros Hlt Hs x [E|Hx]; [subst; exact Hlt|]. apply StronglySorted_inv in Hs. destruct Hs as [_ Hf].
  rewrite Forall_forall in Hf. destruct (Hf x Hx) as [H|[H _]]; lia.
Qed.

Lemma uncensored_nth tmax : forall l, StronglySorted key_lt l -> forall i r, nth_error l i = Some r ->
  nth_error (uncensored_code tmax l) i = Some (spec_uncensored c_id c_time c_event tmax l r).
Proof.
  induction l as [|r0 tl IH]; intros Hs i r Hn; [destruct i; discriminate|].
  pose proof (StronglySorted_inv Hs) as [Hst Hf]. rewrite Forall_forall in Hf.
  destruct i as [|i].
  - simpl in Hn. inversion Hn; subst r0. cbn [uncensored_code nth_error]. f_equal.
    unfold spec_uncensored, is_last. cbn [forallb]. rewrite Z.eqb_refl. cbn [implb].
    rewrite (Qle_bool_true _ _ (Qle_refl _)). cbn [andb].
    assert (L : (match tl with [] => true | r' :: _ => negb (c_id r =? c_id r')%Z end) =
                forallb (fun x => implb (c_id x =? c_id r)%Z (Qle_bool (c_time x) (c_time r))) tl).
    { destruct tl as [|r' tl']; [reflexivity|].
      destruct (c_id r =? c_id r')%Z eqn:E.
      - apply Z.eqb_eq in E. cbn [negb forallb]. rewrite E, Z.eqb_refl. cbn [implb].
        destruct (Hf r' (or_introl eq_refl)) as [H|[_ H]]; [lia|]. rewrite (Qle_bool_false _ _ H). reflexivity.
      - apply Z.eqb_neq in E. cbn [negb]. symmetry. apply forallb_forall. intros x Hx.
        assert (Hlt : (c_id r < c_id r')%Z). { destruct (Hf r' (or_introl eq_refl)) as [H|[H _]]; [exact H|congruence]. }
        pose proof (key_lt_tail_ids r r' tl' Hlt Hst x Hx) as Hx'.
        destruct (c_id x =? c_id r)%Z eqn:E'; [apply Z.eqb_eq in E'; lia|reflexivity]. }
    rewrite L. destruct (Qeq_bool (c_time r) tmax); [rewrite andb_false_r; reflexivity|].
    rewrite andb_true_r. reflexivity.
  - cbn [uncensored_code nth_error]. simpl in Hn. rewrite (IH Hst i r Hn). f_equal.
    unfold spec_uncensored, is_last. cbn [forallb].
    assert (Hin : In r tl) by (eapply nth_error_In; exact Hn).
    assert (E : implb (c_id r0 =? c_id r)%Z (Qle_bool (c_time r0) (c_time r)) = true).
    { destruct (Hf r Hin) as [H|[H Ht]].
      - destruct (c_id r0 =? c_id r)%Z eqn:E'; [apply Z.eqb_eq in E'; lia|reflexivity].
      - rewrite (Qle_bool_true (c_time r0) (c_time r)) by lra. destruct (c_id r0 =? c_id r)%Z; reflexivity. }
    rewrite E. reflexivity.
Qed.

(* the documented indicator, in words *)
Lemma spec_uncensored_false_iff tmax l r :
  spec_uncensored c_id c_time c_event tmax l r = false <->
  (forall x, In x l -> c_id x = c_id r -> c_time x <= c_time r) /\ c_event r = false /\ ~ c_time r == tmax.
Proof.
  unfold spec_uncensored. rewrite negb_false_iff, !andb_true_iff, !negb_true_iff. unfold is_last.
  rewrite forallb_forall. split.
  - intros [[H1 H2] H3]. split; [|split; [exact H2|]].
    + intros x Hx Hid. specialize (H1 x Hx). rewrite Hid, Z.eqb_refl in H1. simpl in H1. apply Qle_bool_iff. exact H1.
    + intros E. apply Qeq_bool_iff in E. congruence.
  - intros [H1 [H2 H3]]. split; [split; [|exact H2]|].
    + intros x Hx. destruct (c_id x =? c_id r)%Z eqn:E; [|reflexivity]. apply Z.eqb_eq in E. simpl.
      apply Qle_bool_iff. apply H1; assumption.
    + apply not_true_is_false. intros E. apply H3. apply Qeq_bool_iff. exact E.
Qed.

Theorem uncensored_spec tmax l i r : StronglySorted key_lt l -> nth_error l i = Some r ->
  exists u, nth_error (uncensored_code tmax l) i = Some u /\
    (u = false <-> (forall x, In x l -> c_id x = c_id r -> c_time x <= c_time r) /\ c_event r = false /\ ~ c_time r == tmax).
Proof.
  intros Hs Hn. eexists. split; [apply uncensored_nth; eassumption|]. apply spec_uncensored_false_iff.
Qed.

Lemma forallb_Permutation {A} (p : A -> bool) l l' : Permutation l l' -> forallb p l = forallb p l'.
Proof.
  induction 1 as [|x l l' _ IH|x y l|l l' l'' _ IH1 _ IH2]; simpl.
  - reflexivity.
  - rewrite IH; reflexivity.
  - destruct (p x), (p y); reflexivity.
  - rewrite IH1; exact IH2.
Qed.

(* ... and it may be evaluated on the caller's unsorted rows *)
Theorem uncensored_of_input tmax input s i r : Permutation s input -> StronglySorted key_lt s ->
  nth_error s i = Some r ->
  nth_error (uncensored_code tmax s) i = Some (spec_uncensored c_id c_time c_event tmax input r).
Proof.
  intros Hp Hs Hn. rewrite (uncensored_nth tmax s Hs i r Hn). f_equal. unfold spec_uncensored, is_last.
  rewrite (forallb_Permutation _ s input Hp). reflexivity.
Qed.

(* executable sortedness test used by the run (non-strict order) is sound *)
Lemma key_le_bool_iff r r' : key_le_bool r r' = true <-> key_le r r'.
Proof.
  unfold key_le_bool, key_le. rewrite orb_true_iff, andb_true_iff, Z.ltb_lt, Z.eqb_eq, Qle_bool_iff. tauto.
Qed.
