(* C12 -- proofs about Model.Survival: with hazards saturated in arm x period the per-row and marginal
   cumulative incidence are the discrete-time product limit; for ANY hazards in [0,1] every individual's
   cumulative incidence is non-decreasing in time and within [0,1]. *)
From Coq Require Import QArith ZArith List Bool Arith Lia Lra Lqa Setoid Morphisms.
From Zepid Require Import Base.QSum Base.QUtil Model.Icg Proofs.IcgProofs Model.Survival.
Import ListNotations.
Open Scope Q_scope.

(* ------------------------------------------------------------------------------------------------ products *)
Lemma Qprod_ext {A} (f g : A -> Q) l : (forall x, In x l -> f x == g x) -> Qprod f l == Qprod g l.
Proof.
  induction l as [|x xs IH]; simpl; intros H; [reflexivity|].
  rewrite (H x (or_introl eq_refl)), IH; [reflexivity|]. intros y Hy. apply H. right. exact Hy.
Qed.

Lemma Qprod_map {A B} (g : B -> A) (f : A -> Q) (l : list B) : Qprod f (map g l) = Qprod (fun b => f (g b)) l.
Proof. induction l as [|x xs IH]; simpl; [reflexivity|]. rewrite IH. reflexivity. Qed.

Lemma Qprod_app {A} (f : A -> Q) l1 l2 : Qprod f (l1 ++ l2) == Qprod f l1 * Qprod f l2.
Proof. induction l1 as [|x xs IH]; simpl; [ring|]. rewrite IH. ring. Qed.

Lemma Qprod_unit {A} (f : A -> Q) l : (forall x, In x l -> 0 <= f x /\ f x <= 1) -> 0 <= Qprod f l /\ Qprod f l <= 1.
Proof.
  induction l as [|x xs IH]; simpl; intros H; [split; lra|].
  destruct (H x (or_introl eq_refl)) as [H0 H1].
  destruct IH as [I0 I1]; [intros y Hy; apply H; right; exact Hy|].
  split; [apply Qmult_le_0_compat; assumption|].
  setoid_replace 1 with (1 * 1) by ring. apply Qmult_le_compat_nonneg; split; assumption.
Qed.

Lemma firstn_map' {A B} (g : A -> B) (l : list A) n : firstn n (map g l) = map g (firstn n l).
Proof. revert l. induction n as [|n IH]; intros [|x xs]; simpl; try reflexivity. rewrite IH. reflexivity. Qed.

Lemma ln_eqb_eq a b : ln_eqb a b = true <-> a = b.
Proof.
  revert b. induction a as [|x xs IH]; intros [|y ys]; simpl; split; intros H; try reflexivity; try discriminate.
  - apply andb_true_iff in H. destruct H as [H1 H2]. apply Nat.eqb_eq in H1. apply IH in H2. subst. reflexivity.
  - inversion H; subst. apply andb_true_iff. split; [apply Nat.eqb_refl|apply IH; reflexivity].
Qed.

(* ------------------------------------------------------------------------------------------------ executable form = definition *)
Lemma cuminc_fac_at hz tr s i : (i < length s)%nat -> cuminc_fac (factors hz tr s) i = cuminc_at hz tr s i.
Proof.
  intros Hi. unfold cuminc_fac, cuminc_at, factors. rewrite combine_map_r.
  set (g := fun x : pprow => (x, 1 - hz (assign tr x) (ptime x))).
  rewrite (nth_indep (map g s) (pp0, 0) (g pp0)) by (rewrite map_length; exact Hi).
  rewrite (map_nth g s pp0 i). cbn [g fst].
  rewrite firstn_map', filter_map_comm, Qprod_map. reflexivity.
Qed.

Lemma predicted_eq hz tr s : predicted hz tr s = map (cuminc_at hz tr s) (seq 0 (length s)).
Proof.
  unfold predicted. apply map_ext_in. intros i Hi. apply in_seq in Hi. apply cuminc_fac_at. lia.
Qed.

(* ------------------------------------------------------------------------------------------------ product limit *)
Lemma pp_wf_at_facts s i : pp_wf_at s i = true ->
  let r := nth i s pp0 in
  let own := filter (same_id r) (firstn (S i) s) in
  map ptime own = seq 1 (ptime r) /\ (forall x, In x own -> parm x = parm r).
Proof.
  unfold pp_wf_at. intros H. apply andb_true_iff in H. destruct H as [H1 H2]. cbv zeta. split.
  - apply ln_eqb_eq. exact H1.
  - intros x Hx. rewrite forallb_forall in H2. apply eqb_prop. apply H2. exact Hx.
Qed.

(* each individual's value at its j-th period is 1 - prod_{k<=j} (1 - h_{a,k}), a = the arm the plan assigns *)
Theorem survival_is_product_limit_row : forall hz tr s i, pp_wf_at s i = true ->
  cuminc_at hz tr s i ==
  1 - Qprod (fun k => 1 - hz (assign tr (nth i s pp0)) k) (seq 1 (ptime (nth i s pp0))).
Proof.
  intros hz tr s i H. destruct (pp_wf_at_facts s i H) as [Ht Ha]. unfold cuminc_at.
  set (r := nth i s pp0) in *. set (own := filter (same_id r) (firstn (S i) s)) in *.
  rewrite <- Ht, Qprod_map.
  rewrite (Qprod_ext (fun x => 1 - hz (assign tr x) (ptime x)) (fun b => 1 - hz (assign tr r) (ptime b)) own); [reflexivity|].
  intros x Hx. destruct tr; cbn [assign]; try reflexivity. rewrite (Ha x Hx). reflexivity.
Qed.

Lemma mean_const {A} (f : A -> Q) (c : Q) (l : list A) : l <> [] -> (forall x, In x l -> f x == c) ->
  Qsum f l / Qlen l == c.
Proof.
  intros Hne H. rewrite (Qsum_ext f (fun _ => c) l H), Qsum_const. fold (Qlen l).
  field. apply Qlen_nonempty. exact Hne.
Qed.

Lemma In_combine_seq {A} (d : A) (l : list A) (f : nat -> Q) p :
  In p (combine l (map f (seq 0 (length l)))) -> exists i, (i < length l)%nat /\ fst p = nth i l d /\ snd p = f i.
Proof.
  assert (G : forall (off : nat) (l : list A), In p (combine l (map f (seq off (length l)))) ->
              exists i, (i < length l)%nat /\ fst p = nth i l d /\ snd p = f (off + i)%nat).
  { intros off l0. revert off. induction l0 as [|x xs IH]; intros off H; [contradiction|].
    cbn [length seq map combine] in H. destruct H as [E|H].
    - exists 0%nat. subst p. cbn. rewrite Nat.add_0_r. split; [lia|split; reflexivity].
    - destruct (IH (S off) H) as (i & Hi & E1 & E2). exists (S i). cbn [length nth]. split; [lia|].
      split; [exact E1|]. rewrite E2. f_equal. lia. }
  intros H. destruct (G 0%nat l H) as (i & Hi & E1 & E2). exists i. split; [exact Hi|]. split; [exact E1|exact E2].
Qed.

(* the marginal at period t (treat-all / treat-none): the same product *)
Theorem survival_is_product_limit_marginal : forall hz tr s t v, tr <> TNatural -> pp_wfb s = true ->
  marginal_at hz tr s t = Some v ->
  v == 1 - Qprod (fun k => 1 - hz (assign tr pp0) k) (seq 1 t).
Proof.
  intros hz tr s t v Htr Hwf Hm. unfold marginal_at, marginal_of in Hm. rewrite predicted_eq in Hm.
  set (sel := filter (fun p : pprow * Q => ptime (fst p) =? t) (combine s (map (cuminc_at hz tr s) (seq 0 (length s))))) in *.
  destruct sel as [|p0 ps] eqn:Es; [discriminate|]. rewrite <- Es in Hm. inversion Hm; subst v. clear Hm.
  apply mean_const; [rewrite Es; discriminate|].
  intros p Hp. unfold sel in Hp. apply filter_In in Hp. destruct Hp as [Hin Hpt]. apply Nat.eqb_eq in Hpt.
  destruct (In_combine_seq pp0 s (cuminc_at hz tr s) p Hin) as (i & Hi & E1 & E2).
  rewrite E2. unfold pp_wfb in Hwf. rewrite forallb_forall in Hwf.
  rewrite (survival_is_product_limit_row hz tr s i) by (apply Hwf; apply in_seq; lia).
  rewrite <- E1, Hpt. destruct tr; [reflexivity|reflexivity|congruence].
Qed.

(* the saturated cell hazard is events / at risk *)
Lemma cell_haz_is_d_over_n rows a k : pp_binaryb rows = true -> cell_haz rows a k == d_at rows a k / n_at rows a k.
Proof.
  intros Hb. unfold cell_haz, d_at, n_at. rewrite <- filter_and.
  set (c := filter (pp_cell a k) rows).
  assert (Hc : forall r, In r c -> pev r == 0 \/ pev r == 1).
  { intros r Hr. unfold c in Hr. apply filter_In in Hr. destruct Hr as [Hr _]. unfold pp_binaryb in Hb.
    rewrite forallb_forall in Hb. specialize (Hb r Hr). apply orb_true_iff in Hb.
    destruct Hb as [Hb|Hb]; apply Qeq_bool_iff in Hb; [left|right]; exact Hb. }
  apply Qdiv_comp; [|reflexivity]. rewrite <- Qsum_ind_count. apply Qsum_ext. intros r Hr.
  destruct (Hc r Hr) as [E|E].
  - destruct (Qeq_bool (pev r) 1) eqn:B; [apply Qeq_bool_iff in B; rewrite E in B; discriminate B|]. exact E.
  - assert (B : Qeq_bool (pev r) 1 = true) by (apply Qeq_bool_iff; exact E). rewrite B. exact E.
Qed.

Lemma product_limit_cell_haz rows a t : pp_binaryb rows = true ->
  1 - Qprod (fun k => 1 - cell_haz rows a k) (seq 1 t) == product_limit rows a t.
Proof.
  intros Hb. unfold product_limit. apply Qplus_comp; [reflexivity|]. apply Qopp_comp. apply Qprod_ext.
  intros k _. rewrite (cell_haz_is_d_over_n rows a k Hb). reflexivity.
Qed.

(* SurvivalGFormula with the hazard model saturated in arm x period: every row of the sorted frame, and the
   marginal at every period, is the product-limit cumulative incidence of the assigned arm *)
Theorem survival_is_product_limit : forall tr rows, tr <> TNatural ->
  let s := sort_pp rows in
  pp_wfb s = true -> pp_binaryb s = true ->
  (forall i, (i < length s)%nat ->
     nth i (surv_predicted tr rows) 0 == product_limit s (assign tr pp0) (ptime (nth i s pp0))) /\
  (forall t v, surv_marginal tr rows t = Some v -> v == product_limit s (assign tr pp0) t).
Proof.
  intros tr rows Htr s Hwf Hb. split.
  - intros i Hi. unfold surv_predicted. fold s. rewrite predicted_eq.
    rewrite (nth_indep _ 0 (cuminc_at (cell_haz s) tr s 0)) by (rewrite map_length, seq_length; exact Hi).
    rewrite (map_nth (cuminc_at (cell_haz s) tr s) (seq 0 (length s)) 0%nat i), seq_nth by exact Hi. cbn [plus].
    unfold pp_wfb in Hwf. rewrite forallb_forall in Hwf.
    rewrite (survival_is_product_limit_row (cell_haz s) tr s i) by (apply Hwf; apply in_seq; lia).
    replace (assign tr (nth i s pp0)) with (assign tr pp0) by (destruct tr; [reflexivity|reflexivity|congruence]).
    apply product_limit_cell_haz. exact Hb.
  - intros t v Hm. unfold surv_marginal in Hm. fold s in Hm.
    rewrite (survival_is_product_limit_marginal (cell_haz s) tr s t v Htr Hwf Hm).
    apply product_limit_cell_haz. exact Hb.
Qed.

Lemma surv_marginals_eq tr rows ts : surv_marginals tr rows ts = map (surv_marginal tr rows) ts.
Proof. reflexivity. Qed.

(* ------------------------------------------------------------------------------------------------ monotone, bounded *)
Theorem survival_monotone_bounded : forall (hz : hazard) tr s i j,
  (forall a t, 0 <= hz a t /\ hz a t <= 1) -> (i <= j)%nat -> (j < length s)%nat ->
  pid (nth i s pp0) = pid (nth j s pp0) ->
  0 <= cuminc_at hz tr s i /\ cuminc_at hz tr s i <= cuminc_at hz tr s j /\ cuminc_at hz tr s j <= 1.
Proof.
  intros hz tr s i j Hh Hij Hj Hid. unfold cuminc_at.
  set (f := fun x : pprow => 1 - hz (assign tr x) (ptime x)).
  assert (Hf : forall x, 0 <= f x /\ f x <= 1).
  { intros x. unfold f. destruct (Hh (assign tr x) (ptime x)). split; lra. }
  assert (Esame : same_id (nth j s pp0) = same_id (nth i s pp0)).
  { unfold same_id. rewrite Hid. reflexivity. }
  rewrite Esame.
  assert (Esplit : firstn (S j) s = firstn (S i) s ++ skipn (S i) (firstn (S j) s)).
  { rewrite <- (firstn_skipn (S i) (firstn (S j) s)) at 1. f_equal. rewrite firstn_firstn. f_equal. lia. }
  rewrite Esplit, filter_app, Qprod_app.
  set (P := Qprod f (filter (same_id (nth i s pp0)) (firstn (S i) s))).
  set (R := Qprod f (filter (same_id (nth i s pp0)) (skipn (S i) (firstn (S j) s)))).
  destruct (Qprod_unit f (filter (same_id (nth i s pp0)) (firstn (S i) s))) as [P0 P1]; [intros; apply Hf|].
  destruct (Qprod_unit f (filter (same_id (nth i s pp0)) (skipn (S i) (firstn (S j) s)))) as [R0 R1]; [intros; apply Hf|].
  fold P in P0, P1. fold R in R0, R1.
  assert (PR0 : 0 <= P * R) by (apply Qmult_le_0_compat; assumption).
  assert (PR1 : P * R <= P).
  { setoid_replace P with (P * 1) at 2 by ring. apply Qmult_le_compat_nonneg; split; try assumption; apply Qle_refl. }
  repeat split; lra.
Qed.
