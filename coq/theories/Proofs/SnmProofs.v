(* Theorems about Model.Snm: the closed-form g-estimator solves the estimating equations (any number of structural
   parameters), the one-parameter closed form, the saturated-exposure-model weighted average, and the link between
   the search solver's target (coefficient 0 on the H(psi) terms) and the closed-form equations. *)
From Coq Require Import QArith List Bool Arith Lia Lra Lqa.
From Zepid Require Import Base.QSum Base.QUtil Base.Rows Proofs.RowsProofs Model.Estimators Proofs.EstimatorsProofs Model.Snm.
Import ListNotations.
Open Scope Q_scope.

(* (lhm psi)_j, row by row: sum_i d_i (a_i v_ij) (a_i psi.v_i) *)
Lemma Mpsi_rows dim psi j l :
  Mpsi dim psi j l == Qsum (fun r => sd r * av j r * (ind (sa r) * dotn dim psi (sv r))) l.
Proof.
  unfold Mpsi, Mjk.
  rewrite (Qsum_ext_all (fun k => Qsum (fun r => sd r * av j r * av k r) l * nth k psi 0)
                        (fun k => Qsum (fun r => sd r * av j r * av k r * nth k psi 0) l))
    by (intros k; rewrite Qsum_scal_r; reflexivity).
  rewrite Qsum_swap. apply Qsum_ext_all. intros r. unfold dotn.
  rewrite <- (Qsum_scal (ind (sa r))), <- (Qsum_scal (sd r * av j r)).
  apply Qsum_ext_all. intros k. unfold av, vj. ring.
Qed.

(* the estimating function is the residual of the linear system, identically (uses a in {0,1}: a*a = a) *)
Lemma esteq_identity dim psi j l : esteq dim psi j l == rj j l - Mpsi dim psi j l.
Proof.
  unfold esteq. rewrite Mpsi_rows. unfold rj. rewrite <- Qsum_minus. apply Qsum_ext_all. intros r.
  unfold Hpsi, yvj, av. destruct (sa r); cbn [ind]; ring.
Qed.

Theorem snm_estimating_eq dim psi l : solves dim psi l -> forall j, (j < dim)%nat -> esteq dim psi j l == 0.
Proof. intros H j Hj. rewrite esteq_identity, (H j Hj). ring. Qed.

Theorem snm_root_solves dim psi l : (forall j, (j < dim)%nat -> esteq dim psi j l == 0) -> solves dim psi l.
Proof. intros H j Hj. specialize (H j Hj). rewrite esteq_identity in H. lra. Qed.

(* the search solver looks for psi such that the exposure model augmented with the terms H(psi) V_j has coefficient 0
   on them.  The score equations of that logistic model (frequency weights w) for the added columns read
   sum_i w_i (a_i - p_i) H_i(psi) v_ij = 0, p = its fitted probabilities; with coefficient 0 on the added columns its
   linear predictor is the base model's, so p = pi (hypothesis Hp; validated numerically in the run).  Then psi solves
   the closed-form equations -- the two solvers share their root. *)
Theorem snm_search_root dim psi l (p : srow -> Q) :
  (forall r, In r l -> p r == spi r) ->
  (forall j, (j < dim)%nat -> Qsum (fun r => sw r * (ind (sa r) - p r) * (Hpsi dim psi r * vj j r)) l == 0) ->
  solves dim psi l.
Proof.
  intros Hp Hs. apply snm_root_solves. intros j Hj. rewrite <- (Hs j Hj). unfold esteq, sd.
  apply Qsum_ext. intros r Hr. rewrite (Hp r Hr). ring.
Qed.

(* ------------------------------------------------------------------------------------------------ one parameter *)
Theorem snm_one_param psi l :
  (forall r, In r l -> vj 0 r == 1) -> solves 1 psi l -> ~ snm1_den l == 0 ->
  nth 0 psi 0 == snm1_num l / snm1_den l.
Proof.
  intros Hv Hs Hd. specialize (Hs 0%nat (Nat.lt_0_succ 0)). unfold Mpsi in Hs. cbn [seq Qsum] in Hs.
  assert (EM : Mjk 0 0 l == snm1_den l).
  { unfold Mjk, snm1_den. apply Qsum_ext. intros r Hr. unfold av. rewrite (Hv r Hr). destruct (sa r); cbn [ind]; ring. }
  assert (ER : rj 0 l == snm1_num l).
  { unfold rj, snm1_num. apply Qsum_ext. intros r Hr. unfold yvj. rewrite (Hv r Hr). ring. }
  rewrite EM, ER in Hs.
  assert (E : snm1_den l * nth 0 psi 0 == snm1_num l) by lra.
  rewrite <- E. field. exact Hd.
Qed.

(* ------------------------------------------------------------------------------------------------
   saturated exposure model: psi is the n p (1-p)-weighted average of the stratum mean differences *)
Lemma base_complete l : complete (base_rows l).
Proof. intros r Hr. unfold base_rows in Hr. apply in_map_iff in Hr as [x [<- _]]. reflexivity. Qed.

Lemma num_base l : snm1_num l == Qsum (fun r => wt r * (ind (trt r) - g1 r) * yval r) (base_rows l).
Proof. unfold snm1_num, base_rows. rewrite Qsum_map. apply Qsum_ext_all. intros r. unfold sd. reflexivity. Qed.
Lemma den_base l : snm1_den l == Qsum (fun r => wt r * (ind (trt r) - g1 r) * ind (trt r)) (base_rows l).
Proof. unfold snm1_den, base_rows. rewrite Qsum_map. apply Qsum_ext_all. intros r. unfold sd. reflexivity. Qed.

Lemma Qsum_pos {A} (f : A -> Q) (l : list A) : l <> [] -> (forall x, In x l -> 0 < f x) -> 0 < Qsum f l.
Proof.
  intros Hl H. destruct l as [|x xs]; [congruence|]. cbn [Qsum].
  assert (0 < f x) by (apply H; left; reflexivity).
  assert (0 <= Qsum f xs) by (apply Qsum_nonneg; intros y Hy; apply Qlt_le_weak; apply H; right; exact Hy).
  lra.
Qed.

Section Saturated.
Variable L : list row.
Hypothesis Hc : complete L.
Hypothesis Hpos : positivity L.
Hypothesis Hg : sat_g L.

Lemma cell_facts s : In s (strata L) ->
  0 < Naw s true L /\ 0 < Naw s false L /\ Nw s L == Naw s true L + Naw s false L /\
  Ysum s true L == ybar s true L * Naw s true L /\ Ysum s false L == ybar s false L * Naw s false L.
Proof.
  intros Hs. destruct (Hpos s Hs) as [P1 [P0 [O1 O0]]]. pose proof (Naw_split s L) as E.
  repeat split; try assumption.
  - rewrite E. reflexivity.
  - rewrite <- (Nobs_complete s true L Hc). symmetry. apply ybar_Nobs. apply Qpos_nz. exact O1.
  - rewrite <- (Nobs_complete s false L Hc). symmetry. apply ybar_Nobs. apply Qpos_nz. exact O0.
Qed.

Lemma num_cell s : In s (strata L) ->
  Qsum (fun r => wt r * (ind (trt r) - g1 r) * yval r) (cellrows s L) ==
  wavg_w s L * (ybar s true L - ybar s false L).
Proof.
  intros Hs. destruct (cell_facts s Hs) as [P1 [P0 [EN [E1 E0]]]].
  rewrite (cell_ext s _ (fun r => ind (arm true r) * ind (obs r) * wt r * yval r
                                  - pS s L * (ind (arm true r) * ind (obs r) * wt r * yval r
                                              + ind (arm false r) * ind (obs r) * wt r * yval r)) L).
  - rewrite Qsum_minus, Qsum_scal, Qsum_plus. fold (Ysum s true L). fold (Ysum s false L).
    rewrite E1, E0. unfold wavg_w, pS. rewrite EN. field. apply Qpos_nz. lra.
  - intros r Hr Hsr. rewrite (Hg r Hr), Hsr, (Hc r Hr). unfold pS, arm. destruct (trt r); cbn [Bool.eqb ind]; ring.
Qed.

Lemma den_cell s : In s (strata L) ->
  Qsum (fun r => wt r * (ind (trt r) - g1 r) * ind (trt r)) (cellrows s L) == wavg_w s L.
Proof.
  intros Hs. destruct (cell_facts s Hs) as [P1 [P0 [EN _]]].
  rewrite (cell_ext s _ (fun r => (1 - pS s L) * (ind (arm true r) * wt r)) L).
  - rewrite Qsum_scal. fold (Naw s true L). unfold wavg_w, pS. rewrite EN. field. apply Qpos_nz. lra.
  - intros r Hr Hsr. rewrite (Hg r Hr), Hsr. unfold pS, arm. destruct (trt r); cbn [Bool.eqb ind]; ring.
Qed.

Lemma wavg_w_pos s : In s (strata L) -> 0 < wavg_w s L.
Proof.
  intros Hs. destruct (cell_facts s Hs) as [P1 [P0 [EN _]]]. unfold wavg_w, pS.
  setoid_replace (Nw s L * (Naw s true L / Nw s L) * (1 - Naw s true L / Nw s L))
    with (Naw s true L * Naw s false L / Nw s L) by (rewrite EN; field; apply Qpos_nz; lra).
  apply Qlt_shift_div_l; [lra|]. rewrite Qmult_0_l. apply Qmult_lt_0_compat; assumption.
Qed.
End Saturated.

Theorem snm_saturated_weighted_avg psi l :
  l <> [] -> (forall r, In r l -> vj 0 r == 1) -> solves 1 psi l ->
  positivity (base_rows l) -> sat_g (base_rows l) ->
  nth 0 psi 0 == snm_wavg (base_rows l).
Proof.
  intros Hl Hv Hs Hpos Hg. set (L := base_rows l) in *.
  assert (Hc : complete L) by apply base_complete.
  assert (En : snm1_num l == Qsum (fun s => wavg_w s L * (ybar s true L - ybar s false L)) (strata L)).
  { rewrite num_base. fold L. rewrite regroup. apply Qsum_ext. intros s Hs'. apply num_cell; assumption. }
  assert (Ed : snm1_den l == Qsum (fun s => wavg_w s L) (strata L)).
  { rewrite den_base. fold L. rewrite regroup. apply Qsum_ext. intros s Hs'. apply den_cell; assumption. }
  assert (Hd : 0 < Qsum (fun s => wavg_w s L) (strata L)).
  { apply Qsum_pos.
    - destruct l as [|r rs]; [congruence|]. intros E.
      assert (Hin : In (st (to_row r)) (strata L)) by (apply strata_cover; left; reflexivity).
      rewrite E in Hin. exact Hin.
    - intros s Hs'. apply wavg_w_pos; assumption. }
  rewrite (snm_one_param psi l Hv Hs) by (rewrite Ed; apply Qpos_nz; exact Hd).
  unfold snm_wavg. rewrite En, Ed. reflexivity.
Qed.

(* the twins evaluated by the run *)
Theorem snm_exec_twins dim psi j k l :
  esteq_x dim psi j l == esteq dim psi j l /\ rj_x j l == rj j l /\ Mjk_x j k l == Mjk j k l.
Proof. unfold esteq_x, esteq, rj_x, rj, Mjk_x, Mjk. rewrite !Qsumr_eq. repeat split; reflexivity. Qed.
