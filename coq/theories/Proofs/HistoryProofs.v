(* C11 -- theorems about the object state machine of Model/History.v.  Everything is stated for ALL call lists
   (no bound on length, repetitions, order) and for an arbitrary pure result function `compute`. *)
From Coq Require Import List Bool Arith ZArith Lia.
From Zepid Require Import Model.History.
Import ListNotations.

Section HistoryProofs.
Variables frame spec args out dout : Type.
Variable nslots : nat.
Variable required : list nat.
Variable diag_required : nat -> list nat.
Variable diag_needs_results : nat -> bool.
Variable compute : frame -> list (option spec) -> args -> out.
Variable diagf : nat -> frame -> list (option spec) -> option out -> dout.

Notation state := (state frame spec out).
Notation op := (@op spec args).
Notation step := (step frame spec args out dout nslots required diag_required diag_needs_results compute diagf).
Notation run := (run frame spec args out dout nslots required diag_required diag_needs_results compute diagf).
Notation trace := (trace frame spec args out dout nslots required diag_required diag_needs_results compute diagf).
Notation wrun := (wrun frame spec args out dout nslots required diag_required diag_needs_results compute diagf).
Notation wstep := (wstep frame spec args out dout nslots required diag_required diag_needs_results compute diagf).
Notation init := (init frame spec out nslots).
Notation construct := (construct frame spec out nslots).
Notation last_specified := (@last_specified spec args).
Notation spec_table := (@spec_table spec args nslots).
Notation last_fit := (@last_fit spec args).
Notation results_spec := (results_spec frame spec args out nslots required compute).
Notation canon := (@canon spec args nslots).
Notation normal_form := (@normal_form spec args nslots).
Notation ready := (@ready spec required).
Notation specified := (@specified spec).
Notation mutating := (@mutating spec args).
Notation pure_op := (@pure_op spec args).

(* ------------------------------------------------------------------ lists *)
Lemma set_nth_length (A : Type) n (x : A) l : length (set_nth n x l) = length l.
Proof. revert n; induction l as [|h t IH]; intros [|n]; simpl; auto. Qed.

Lemma nth_set_nth_eq (A : Type) n (x d : A) l : n < length l -> nth n (set_nth n x l) d = x.
Proof. revert n; induction l as [|h t IH]; intros [|n] H; simpl in *; try lia; auto. apply IH; lia. Qed.

Lemma nth_set_nth_neq (A : Type) n m (x d : A) l : n <> m -> nth m (set_nth n x l) d = nth m l d.
Proof.
  revert n m; induction l as [|h t IH]; intros [|n] [|m] H; simpl; auto; try congruence.
Qed.

Lemma state_eta (st : state) : st = mkState frame spec out (stored _ _ _ st) (specs _ _ _ st) (results _ _ _ st).
Proof. destruct st; reflexivity. Qed.

(* ------------------------------------------------------------------ run *)
Lemma run_app st a b : run st (a ++ b) = run (run st a) b.
Proof. unfold History.run. apply fold_left_app. Qed.

Lemma run_snoc st a o : run st (a ++ [o]) = fst (step (run st a) o).
Proof. rewrite run_app. reflexivity. Qed.

Lemma stored_step st o : stored _ _ _ (fst (step st o)) = stored _ _ _ st.
Proof.
  destruct o; simpl.
  - destruct (s <? nslots); reflexivity.
  - destruct (ready (specs _ _ _ st)); reflexivity.
  - destruct (results _ _ _ st); reflexivity.
  - destruct (diag_ready _ _ _ _ _ st d); reflexivity.
Qed.

Lemma stored_run st ops : stored _ _ _ (run st ops) = stored _ _ _ st.
Proof.
  revert st; induction ops as [|o t IH]; intros st; simpl; auto.
  change (stored _ _ _ (run (fst (step st o)) t) = stored _ _ _ st). rewrite IH. apply stored_step.
Qed.

Lemma specs_length_step st o : length (specs _ _ _ (fst (step st o))) = length (specs _ _ _ st).
Proof.
  destruct o; simpl.
  - destruct (s <? nslots); simpl; auto. apply set_nth_length.
  - destruct (ready (specs _ _ _ st)); reflexivity.
  - destruct (results _ _ _ st); reflexivity.
  - destruct (diag_ready _ _ _ _ _ st d); reflexivity.
Qed.

Lemma specs_length_run st ops : length (specs _ _ _ (run st ops)) = length (specs _ _ _ st).
Proof.
  revert st; induction ops as [|o t IH]; intros st; simpl; auto.
  change (length (specs _ _ _ (run (fst (step st o)) t)) = length (specs _ _ _ st)). rewrite IH. apply specs_length_step.
Qed.

Lemma specs_length_init fr ops : length (specs _ _ _ (run (init fr) ops)) = nslots.
Proof. rewrite specs_length_run. simpl. apply repeat_length. Qed.

(* ------------------------------------------------------------------ last specification per slot *)
Lemma last_specified_snoc s ops o :
  last_specified s (ops ++ [o]) =
  match o with Specify s' v => if s' =? s then Some v else last_specified s ops | _ => last_specified s ops end.
Proof. unfold History.last_specified. rewrite fold_left_app. simpl. destruct o; reflexivity. Qed.

Lemma last_specified_app s a b :
  last_specified s (a ++ b) = match last_specified s b with Some v => Some v | None => last_specified s a end.
Proof.
  induction b as [|o b IH] using rev_ind.
  - rewrite app_nil_r. reflexivity.
  - rewrite app_assoc, !last_specified_snoc. destruct o; auto. destruct (s0 =? s); auto.
Qed.

Lemma specified_mono s pre post : last_specified s pre <> None -> last_specified s (pre ++ post) <> None.
Proof. intros H. rewrite last_specified_app. destruct (last_specified s post); congruence. Qed.

Lemma nth_init fr s : nth s (specs _ _ _ (init fr)) None = None.
Proof.
  simpl. generalize nslots. intros n. revert s. induction n; intros [|s]; simpl; auto.
Qed.

Lemma specs_run_nth fr ops s : s < nslots -> nth s (specs _ _ _ (run (init fr) ops)) None = last_specified s ops.
Proof.
  intros Hs. induction ops as [|o ops IH] using rev_ind.
  - apply nth_init.
  - rewrite run_snoc, last_specified_snoc. destruct o; simpl.
    + destruct (s0 <? nslots) eqn:E; simpl.
      * destruct (Nat.eqb_spec s0 s) as [->|Hne].
        -- apply nth_set_nth_eq. rewrite specs_length_init. exact Hs.
        -- rewrite nth_set_nth_neq by exact Hne. exact IH.
      * apply Nat.ltb_ge in E. destruct (Nat.eqb_spec s0 s); [lia|exact IH].
    + destruct (ready _); exact IH.
    + destruct (results _ _ _ _); exact IH.
    + destruct (diag_ready _ _ _ _ _ _ d); exact IH.
Qed.

Lemma spec_table_length ops : length (spec_table ops) = nslots.
Proof. unfold History.spec_table. rewrite map_length, seq_length. reflexivity. Qed.

Lemma spec_table_nth ops s : s < nslots -> nth s (spec_table ops) None = last_specified s ops.
Proof.
  intros Hs. unfold History.spec_table.
  rewrite nth_indep with (d' := last_specified 0 ops) by (rewrite map_length, seq_length; exact Hs).
  rewrite map_nth with (d := 0). rewrite seq_nth by exact Hs. reflexivity.
Qed.

Lemma spec_table_nth_out ops s : nslots <= s -> nth s (spec_table ops) None = None.
Proof. intros H. apply nth_overflow. rewrite spec_table_length. exact H. Qed.

(* the object's specification components are exactly "the last specification per slot" *)
Theorem specs_run fr ops : specs _ _ _ (run (init fr) ops) = spec_table ops.
Proof.
  apply nth_ext with (d := None) (d' := None).
  - rewrite specs_length_init, spec_table_length. reflexivity.
  - intros s Hs. rewrite specs_length_init in Hs. rewrite specs_run_nth, spec_table_nth by exact Hs. reflexivity.
Qed.

Lemma specified_table ops s : specified (spec_table ops) s = (s <? nslots) && is_some (last_specified s ops).
Proof.
  unfold History.specified. destruct (Nat.ltb_spec s nslots) as [H|H].
  - rewrite spec_table_nth by exact H. reflexivity.
  - rewrite spec_table_nth_out by exact H. reflexivity.
Qed.

Lemma specified_table_mono pre post s : specified (spec_table pre) s = true -> specified (spec_table (pre ++ post)) s = true.
Proof.
  rewrite !specified_table. intros H. apply andb_true_iff in H as [H1 H2]. rewrite H1. simpl.
  pose proof (specified_mono s pre post) as M. destruct (last_specified s pre); [|discriminate].
  destruct (last_specified s (pre ++ post)); [reflexivity|]. exfalso. apply M; congruence.
Qed.

Lemma ready_mono pre post : ready (spec_table pre) = true -> ready (spec_table (pre ++ post)) = true.
Proof.
  unfold History.ready. rewrite !forallb_forall. intros H s Hs. apply specified_table_mono. apply H. exact Hs.
Qed.

(* ------------------------------------------------------------------ the last fit *)
Lemma last_fit_snoc_fit ops a : last_fit (ops ++ [Fit a]) = Some (ops, a).
Proof. induction ops as [|o t IH]; simpl; [reflexivity|]. rewrite IH. reflexivity. Qed.

Lemma last_fit_snoc_other ops o : (forall a, o <> Fit a) -> last_fit (ops ++ [o]) = last_fit ops.
Proof.
  intros H. induction ops as [|h t IH]; simpl.
  - destruct o; auto. exfalso. eapply H. reflexivity.
  - rewrite IH. reflexivity.
Qed.

Lemma last_fit_split ops pre a : last_fit ops = Some (pre, a) -> exists post, ops = pre ++ Fit a :: post.
Proof.
  revert pre. induction ops as [|o t IH]; simpl; intros pre H; [discriminate|].
  destruct (last_fit t) as [[p a']|] eqn:E.
  - inversion H; subst. destruct (IH p eq_refl) as [post ->]. exists post. reflexivity.
  - destruct o; try discriminate. inversion H; subst. exists t. reflexivity.
Qed.

Lemma last_fit_after l1 a l2 : last_fit l2 = None -> last_fit (l1 ++ Fit a :: l2) = Some (l1, a).
Proof. intros H. induction l1 as [|o t IH]; simpl; [rewrite H; reflexivity|]. rewrite IH. reflexivity. Qed.

Lemma last_fit_none l : (forall a, ~ In (Fit a) l) -> last_fit l = None.
Proof.
  induction l as [|o t IH]; simpl; intros H; [reflexivity|].
  rewrite IH by (intros a Ha; apply (H a); right; exact Ha).
  destruct o; auto. exfalso. apply (H a). left. reflexivity.
Qed.

Lemma step_pure st o : pure_op o -> fst (step st o) = st.
Proof.
  unfold History.pure_op. destruct o; simpl; try discriminate; intros _.
  - destruct (results _ _ _ st); reflexivity.
  - destruct (diag_ready _ _ _ _ _ st d); reflexivity.
Qed.

(* the result component is the pure result function applied to the stored frame, the specifications in force at
   the last fit and that fit's arguments -- nothing else of the history enters *)
Theorem results_run fr ops : results _ _ _ (run (init fr) ops) = results_spec fr ops.
Proof.
  induction ops as [|o ops IH] using rev_ind; [reflexivity|].
  rewrite run_snoc. unfold History.results_spec in *. destruct o.
  - rewrite last_fit_snoc_other by discriminate. simpl. destruct (s <? nslots); exact IH.
  - rewrite last_fit_snoc_fit. simpl. rewrite specs_run, stored_run. simpl.
    destruct (ready (spec_table ops)) eqn:R; simpl; [reflexivity|].
    rewrite IH. destruct (last_fit ops) as [[pre a']|] eqn:E; [|reflexivity].
    destruct (ready (spec_table pre)) eqn:R'; [|reflexivity].
    destruct (last_fit_split _ _ _ E) as [post ->]. rewrite (ready_mono pre (Fit a' :: post) R') in R. discriminate.
  - rewrite last_fit_snoc_other by discriminate. rewrite step_pure by reflexivity. exact IH.
  - rewrite last_fit_snoc_other by discriminate. rewrite step_pure by reflexivity. exact IH.
Qed.

(* ------------------------------------------------------------------ the fresh object *)
Lemma canon_no_fit tbl a : ~ In (Fit a) (canon tbl).
Proof.
  unfold History.canon. rewrite in_flat_map. intros [s [_ H]]. destruct (nth s tbl None); simpl in H; [|exact H].
  destruct H as [H|H]; [discriminate|exact H].
Qed.

Lemma last_fit_canon tbl : last_fit (canon tbl) = None.
Proof. apply last_fit_none. intros a. apply canon_no_fit. Qed.

Lemma last_specified_flat tbl s l :
  last_specified s (flat_map (fun k => match nth k tbl None with Some v => [Specify k v] | None => [] end) l) =
  if existsb (fun k => k =? s) l then nth s tbl None else None.
Proof.
  induction l as [|k l IH] using rev_ind; [reflexivity|].
  rewrite flat_map_app, existsb_app, last_specified_app. simpl. rewrite app_nil_r, orb_false_r.
  destruct (nth k tbl None) as [v|] eqn:E.
  - unfold History.last_specified at 1. simpl. destruct (Nat.eqb_spec k s) as [->|Hne].
    + rewrite orb_true_r. symmetry. exact E.
    + rewrite orb_false_r. exact IH.
  - unfold History.last_specified at 1. simpl. rewrite IH. destruct (Nat.eqb_spec k s) as [->|Hne].
    + rewrite orb_true_r. destruct (existsb _ l); congruence.
    + rewrite orb_false_r. reflexivity.
Qed.

Lemma existsb_seq s n : existsb (fun k => k =? s) (seq 0 n) = (s <? n).
Proof.
  destruct (Nat.ltb_spec s n) as [H|H].
  - apply existsb_exists. exists s. split; [apply in_seq; lia|apply Nat.eqb_refl].
  - destruct (existsb _ _) eqn:E; [|reflexivity]. apply existsb_exists in E as [k [Hk Hks]].
    apply in_seq in Hk. apply Nat.eqb_eq in Hks. lia.
Qed.

Lemma last_specified_canon tbl s : s < nslots -> last_specified s (canon tbl) = nth s tbl None.
Proof.
  intros H. unfold History.canon. rewrite last_specified_flat, existsb_seq.
  apply Nat.ltb_lt in H. rewrite H. reflexivity.
Qed.

Lemma spec_table_canon tbl : length tbl = nslots -> spec_table (canon tbl) = tbl.
Proof.
  intros L. apply nth_ext with (d := None) (d' := None).
  - rewrite spec_table_length. symmetry. exact L.
  - intros s Hs. rewrite spec_table_length in Hs. rewrite spec_table_nth by exact Hs. apply last_specified_canon. exact Hs.
Qed.

Lemma spec_table_normal ops : spec_table (normal_form ops) = spec_table ops.
Proof.
  unfold History.normal_form. destruct (last_fit ops) as [[pre a]|] eqn:E.
  - apply nth_ext with (d := None) (d' := None); [rewrite !spec_table_length; reflexivity|].
    intros s Hs. rewrite spec_table_length in Hs. rewrite !spec_table_nth by exact Hs.
    rewrite last_specified_app, last_specified_app.
    rewrite !last_specified_canon by exact Hs. rewrite !spec_table_nth by exact Hs.
    destruct (last_specified s ops) eqn:L; [reflexivity|].
    unfold History.last_specified at 1. simpl.
    destruct (last_fit_split _ _ _ E) as [post ->].
    destruct (last_specified s pre) eqn:P; [|reflexivity].
    exfalso. apply (specified_mono s pre (Fit a :: post)); congruence.
  - apply spec_table_canon. apply spec_table_length.
Qed.

Lemma results_spec_normal fr ops : results_spec fr (normal_form ops) = results_spec fr ops.
Proof.
  unfold History.results_spec, History.normal_form. destruct (last_fit ops) as [[pre a]|] eqn:E.
  - simpl. rewrite last_fit_after by apply last_fit_canon.
    rewrite spec_table_canon by apply spec_table_length. reflexivity.
  - rewrite last_fit_canon. reflexivity.
Qed.

(* MAIN: after ANY call list the whole object state (stored data, every specification component, results) is the
   state of a freshly constructed object that is given, per slot, only the specification in force at the last fit,
   that fit's arguments, and then the specifications in force at the end *)
Theorem refit_history_independent fr ops : run (init fr) ops = run (init fr) (normal_form ops).
Proof.
  rewrite (state_eta (run (init fr) ops)), (state_eta (run (init fr) (normal_form ops))).
  rewrite !stored_run, !specs_run, !results_run, spec_table_normal, results_spec_normal. reflexivity.
Qed.

(* the form quoted in the property: refitting after any history = fitting a fresh object that received only the last
   specification per slot *)
Theorem refit_result_fresh fr ops a :
  results _ _ _ (run (init fr) (ops ++ [Fit a])) = results _ _ _ (run (init fr) (canon (spec_table ops) ++ [Fit a])).
Proof.
  rewrite !results_run. unfold History.results_spec. rewrite !last_fit_snoc_fit.
  rewrite spec_table_canon by apply spec_table_length. reflexivity.
Qed.

Theorem fit_output_fresh fr ops a :
  snd (step (run (init fr) ops) (Fit a)) = snd (step (run (init fr) (canon (spec_table ops))) (Fit a)).
Proof.
  simpl. rewrite !specs_run, !stored_run. rewrite spec_table_canon by apply spec_table_length.
  destruct (ready (spec_table ops)); reflexivity.
Qed.

(* ------------------------------------------------------------------ guards *)
Theorem unspecified_raises fr ops s a :
  In s required -> last_specified s ops = None ->
  snd (step (run (init fr) ops) (Fit a)) = OErr /\ snd (step (run (init fr) ops) Summary) = OErr /\
  fst (step (run (init fr) ops) (Fit a)) = run (init fr) ops.
Proof.
  intros Hin Hnone.
  assert (R : forall pre post, ops = pre ++ post -> ready (spec_table pre) = false).
  { intros pre post ->. destruct (ready (spec_table pre)) eqn:R; [|reflexivity].
    unfold History.ready in R. rewrite forallb_forall in R. specialize (R s Hin). rewrite specified_table in R.
    apply andb_true_iff in R as [_ R]. pose proof (specified_mono s pre post) as M.
    destruct (last_specified s pre); [|discriminate]. exfalso. apply M; congruence. }
  assert (R0 : ready (spec_table ops) = false) by (apply (R ops []); rewrite app_nil_r; reflexivity).
  simpl. rewrite specs_run, R0. simpl. split; [reflexivity|]. split; [|reflexivity].
  rewrite results_run. unfold History.results_spec. destruct (last_fit ops) as [[pre a']|] eqn:E; [|reflexivity].
  destruct (last_fit_split _ _ _ E) as [post Hp]. rewrite (R pre _ Hp). reflexivity.
Qed.

(* ------------------------------------------------------------------ the caller's frame *)
Theorem user_frame_const w ops : fst (wrun w ops) = fst w.
Proof. revert w; induction ops as [|o t IH]; intros w; simpl; [reflexivity|]. rewrite IH. reflexivity. Qed.

Lemma wrun_snd w ops : snd (wrun w ops) = run (snd w) ops.
Proof. revert w; induction ops as [|o t IH]; intros w; simpl; [reflexivity|]. rewrite IH. reflexivity. Qed.

Theorem construct_then_calls_leave_user_frame user ops :
  fst (wrun (construct user) ops) = user /\ stored _ _ _ (snd (wrun (construct user) ops)) = user.
Proof. split; [apply user_frame_const|]. rewrite wrun_snd, stored_run. reflexivity. Qed.

(* ------------------------------------------------------------------ summary / diagnostics are pure *)
Lemma run_pure st obs : Forall pure_op obs -> run st obs = st.
Proof.
  induction 1 as [|o t Ho _ IH]; simpl; [reflexivity|].
  change (run (fst (step st o)) t = st). rewrite step_pure by exact Ho. exact IH.
Qed.

Theorem run_filter_mutating st ops : run st ops = run st (filter mutating ops).
Proof.
  revert st; induction ops as [|o t IH]; intros st; simpl; [reflexivity|].
  change (run (fst (step st o)) t = run st (if mutating o then o :: filter mutating t else filter mutating t)).
  destruct (mutating o) eqn:M.
  - simpl. apply IH.
  - rewrite step_pure by exact M. apply IH.
Qed.

(* interleaving summary()/diagnostic calls anywhere changes neither the state nor the output of any later call *)
Theorem summary_diagnostics_pure st pre obs post :
  Forall pure_op obs ->
  run st (pre ++ obs ++ post) = run st (pre ++ post) /\
  trace (run st (pre ++ obs)) post = trace (run st pre) post.
Proof.
  intros H. rewrite !run_app, (run_pure _ obs H). split; reflexivity.
Qed.

End HistoryProofs.
