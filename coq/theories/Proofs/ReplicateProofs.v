(* C09 -- an integer weights column is equivalent to physically replicating rows.
   `with_w m l` : the analysis rows with the weight column set to the multiplicity m r;
   `replicate_rows m l` : every row repeated m r times (weight 1).  The rows carry the same nuisance values in
   both lists: a fit with freq_weights = m solves the score equations of the replicated data (oracle, validated). *)
From Coq Require Import QArith List Bool Arith Lia Lra Lqa.
From Zepid Require Import Base.QSum Base.QUtil Base.Rows Proofs.RowsProofs Model.Estimators Proofs.EstimatorsProofs.
Import ListNotations.
Open Scope Q_scope.

Definition set_wt (r : row) (w : Q) : row :=
  {| st := st r; trt := trt r; yv := yv r; wt := w; g1 := g1 r; q1 := q1 r; q0 := q0 r; m1 := m1 r; m0 := m0 r |}.
Definition with_w (m : row -> nat) (l : list row) : list row := map (fun r => set_wt r (Qnat (m r))) l.

(* a summand is weight-linear when scaling the weight of a unit-weight row scales it *)
Definition wlinear (F : row -> Q) (l : list row) : Prop :=
  forall r w, In r l -> F (set_wt r w) == w * F r.
(* a row predicate does not look at the weight *)
Definition wfree (p : row -> bool) : Prop := forall r w, p (set_wt r w) = p r.

Lemma filter_with_w p m l : wfree p -> filter p (with_w m l) = with_w m (filter p l).
Proof.
  intros Hp. unfold with_w. induction l as [|r l IH]; simpl; [reflexivity|].
  rewrite Hp. destruct (p r); simpl; rewrite IH; reflexivity.
Qed.
Lemma filter_repeat {A} (p : A -> bool) x n : filter p (repeat x n) = if p x then repeat x n else [].
Proof. induction n as [|n IH]; simpl; [destruct (p x); reflexivity|]. destruct (p x) eqn:E; simpl; rewrite IH, ?E; reflexivity. Qed.
Lemma filter_replicate p m (l : list row) : filter p (replicate_rows m l) = replicate_rows m (filter p l).
Proof.
  unfold replicate_rows. induction l as [|r l IH]; simpl; [reflexivity|].
  rewrite filter_app, filter_repeat, IH. destruct (p r); reflexivity.
Qed.

(* the key identity: a weight-linear sum over the weighted rows equals the sum over the replicated rows *)
Lemma sum_weighted_eq_replicated F m l : wlinear F l ->
  Qsum F (with_w m l) == Qsum F (replicate_rows m l).
Proof.
  intros HF. unfold with_w. rewrite Qsum_map, Qsum_replicate. apply Qsum_ext. intros r Hr.
  rewrite (HF r (Qnat (m r)) Hr). reflexivity.
Qed.
Lemma sum_filter_weighted_eq_replicated F p m l : wfree p -> wlinear F l ->
  Qsum F (filter p (with_w m l)) == Qsum F (filter p (replicate_rows m l)).
Proof.
  intros Hp HF. rewrite filter_with_w, filter_replicate by exact Hp.
  apply sum_weighted_eq_replicated. intros r w Hr. apply HF. apply filter_In in Hr. tauto.
Qed.

Section Replicate.
Variable l : list row.
Variable m : row -> nat.
Hypothesis Hu : unit_weights l.

(* IPTW marginal structural model: arm means, hence RD / RR / OR *)
Theorem iptw_weighted_eq_rep stab t n c1 c0 a :
  iptw_mu stab t n c1 c0 a (with_w m l) == iptw_mu stab t n c1 c0 a (replicate_rows m l).
Proof.
  unfold iptw_mu, arm_mean, arm_num, arm_den.
  apply Qdiv_comp; apply sum_weighted_eq_replicated; intros r w Hr;
    unfold total_w, iptw_w, ipmw_w, m_own, arm, obs, yval; cbn [wt trt yv g1 m1 m0 set_wt];
    rewrite (Hu r Hr); ring.
Qed.

(* g-formula, every standardisation target *)
Theorem gformula_weighted_eq_rep t a :
  gf_marginal t a (with_w m l) == gf_marginal t a (replicate_rows m l).
Proof.
  unfold gf_marginal. apply Qdiv_comp; apply sum_filter_weighted_eq_replicated.
  - intros r w. destruct t; reflexivity.
  - intros r w Hr. unfold qa. cbn [wt q1 q0 set_wt]. rewrite (Hu r Hr). ring.
  - intros r w. destruct t; reflexivity.
  - intros r w Hr. cbn [wt set_wt]. rewrite (Hu r Hr). ring.
Qed.

(* AIPTW: weighted means of the pseudo-outcomes over rows with an observed outcome *)
Theorem aipw_weighted_eq_rep (f : row -> Q) : (forall r w, f (set_wt r w) = f r) ->
  aipw_mean f (with_w m l) == aipw_mean f (replicate_rows m l).
Proof.
  intros Hf. unfold aipw_mean, obs_rows. apply Qdiv_comp; apply sum_filter_weighted_eq_replicated.
  - intros r w. reflexivity.
  - intros r w Hr. rewrite Hf. cbn [wt set_wt]. rewrite (Hu r Hr). ring.
  - intros r w. reflexivity.
  - intros r w Hr. cbn [wt set_wt]. rewrite (Hu r Hr). ring.
Qed.
Corollary aipw_rd_weighted_eq_rep : aipw_rd (with_w m l) == aipw_rd (replicate_rows m l).
Proof.
  unfold aipw_rd. rewrite (aipw_weighted_eq_rep aipw_y1), (aipw_weighted_eq_rep aipw_y0); try reflexivity; intros; reflexivity.
Qed.

(* the cell aggregates, hence the standardisation specification itself *)
Theorem aggregates_weighted_eq_rep s a :
  Nw s (with_w m l) == Nw s (replicate_rows m l) /\ Naw s a (with_w m l) == Naw s a (replicate_rows m l) /\
  Nobs s a (with_w m l) == Nobs s a (replicate_rows m l) /\ Ysum s a (with_w m l) == Ysum s a (replicate_rows m l).
Proof.
  unfold Nw, Naw, Nobs, Ysum, cellrows. repeat split; apply sum_filter_weighted_eq_replicated;
    try (intros r w; reflexivity); intros r w Hr; cbn [wt set_wt]; unfold arm, obs, yval; cbn [trt yv set_wt];
    rewrite (Hu r Hr); ring.
Qed.
End Replicate.

(* the weighted score equation of a frequency-weighted fit is the score equation of the replicated data *)
Theorem score_eq_replicate (x res : row -> Q) (m : row -> nat) (l : list row) :
  (forall r w, x (set_wt r w) = x r) -> (forall r w, res (set_wt r w) = res r) -> unit_weights l ->
  Qsum (fun r => wt r * (x r * res r)) (with_w m l) == Qsum (fun r => wt r * (x r * res r)) (replicate_rows m l).
Proof.
  intros Hx Hr Hu. apply sum_weighted_eq_replicated. intros r w Hin. rewrite Hx, Hr. cbn [wt set_wt].
  rewrite (Hu r Hin). ring.
Qed.
