(* C20 -- proofs about Model.Stepwise: for every AIC oracle the search never ends above its starting AIC,
   ends in a model no single admissible step improves (or ties), and never runs out of fuel. *)
From Coq Require Import QArith List Bool Arith Lia.
From Zepid Require Import Base.QUtil Model.Stepwise.
Import ListNotations.
Open Scope Q_scope.

Lemma Qlt_bool_true a b : Qlt_bool a b = true -> a < b.
Proof.
  unfold Qlt_bool. rewrite negb_true_iff. intros H. apply Qnot_le_lt. intro Hle.
  apply Qle_bool_iff in Hle. congruence.
Qed.
Lemma Qlt_bool_false a b : Qlt_bool a b = false -> b <= a.
Proof. unfold Qlt_bool. rewrite negb_false_iff. apply Qle_bool_iff. Qed.

Section Proofs.
  Variable aic : list nat -> option Q.

  (* alt is no worse than every alternative seen (NaN alternatives are never chosen) *)
  Definition min_over (seen : list (list nat)) (best : option (list nat * Q)) : Prop :=
    match best with
    | None => forall alt, In alt seen -> aic alt = None
    | Some (alt, a) => In alt seen /\ aic alt = Some a /\
                       forall alt', In alt' seen -> match aic alt' with Some b => a <= b | None => True end
    end.

  Lemma sweep_inv : forall alts acc seen,
    min_over seen acc -> min_over (seen ++ alts) (fold_left (sweep_step aic) alts acc).
  Proof.
    induction alts as [|x alts IH]; intros acc seen Hinv; simpl.
    - rewrite app_nil_r. exact Hinv.
    - replace (seen ++ x :: alts) with ((seen ++ [x]) ++ alts) by (rewrite <- app_assoc; reflexivity).
      apply IH. unfold sweep_step. destruct (aic x) as [a|] eqn:Ex.
      + destruct acc as [[alt b]|].
        * destruct Hinv as [Hin [Hb Hall]]. destruct (Qlt_bool a b) eqn:Elt.
          -- apply Qlt_bool_true in Elt. simpl. split; [apply in_or_app; right; left; reflexivity|].
             split; [exact Ex|]. intros alt' Hin'. apply in_app_or in Hin'. destruct Hin' as [Hin'|[<-|[]]].
             ++ specialize (Hall alt' Hin'). destruct (aic alt'); [|exact I].
                apply Qle_trans with b; [apply Qlt_le_weak; exact Elt | exact Hall].
             ++ rewrite Ex. apply Qle_refl.
          -- apply Qlt_bool_false in Elt. simpl. split; [apply in_or_app; left; exact Hin|].
             split; [exact Hb|]. intros alt' Hin'. apply in_app_or in Hin'. destruct Hin' as [Hin'|[<-|[]]].
             ++ apply Hall. exact Hin'.
             ++ rewrite Ex. exact Elt.
        * simpl in Hinv. simpl. split; [apply in_or_app; right; left; reflexivity|]. split; [exact Ex|].
          intros alt' Hin'. apply in_app_or in Hin'. destruct Hin' as [Hin'|[<-|[]]].
          -- rewrite (Hinv alt' Hin'). exact I.
          -- rewrite Ex. apply Qle_refl.
      + destruct acc as [[alt b]|]; simpl in *.
        * destruct Hinv as [Hin [Hb Hall]]. split; [apply in_or_app; left; exact Hin|]. split; [exact Hb|].
          intros alt' Hin'. apply in_app_or in Hin'. destruct Hin' as [Hin'|[<-|[]]].
          -- apply Hall. exact Hin'.
          -- rewrite Ex. exact I.
        * intros alt' Hin'. apply in_app_or in Hin'. destruct Hin' as [Hin'|[<-|[]]]; [apply Hinv; exact Hin' | exact Ex].
  Qed.
  Lemma sweep_spec alts : min_over alts (sweep aic alts).
  Proof. unfold sweep. apply (sweep_inv alts None []). simpl. intros alt []. Qed.

  (* no single admissible step reaches an AIC that is lower or equal *)
  Definition local_min (alts : list (list nat)) (a : Q) : Prop :=
    forall alt, In alt alts -> match aic alt with Some b => a < b | None => True end.

  (* ---------------------------------------------------------------- backward *)
  Lemma remove_nth_length : forall l i, (i < length l)%nat -> length (remove_nth i l) = (length l - 1)%nat.
  Proof.
    induction l as [|x l IH]; intros i Hi; simpl in *; [lia|].
    destruct i; simpl; [lia|]. rewrite IH by lia. lia.
  Qed.
  Lemma deletions_length cols alt : In alt (deletions cols) -> length alt = (length cols - 1)%nat.
  Proof.
    unfold deletions. rewrite in_map_iff. intros [i [<- Hi]]. apply in_rev in Hi. apply in_seq in Hi.
    apply remove_nth_length. lia.
  Qed.

  Lemma backward_loop_sound : forall fuel cur cur_aic c a,
    aic cur = Some cur_aic -> backward_loop aic fuel cur cur_aic = Some (c, a) ->
    a <= cur_aic /\ aic c = Some a /\ local_min (deletions c) a.
  Proof.
    induction fuel as [|fuel IH]; intros cur cur_aic c a Hc H; simpl in H; [discriminate|].
    destruct cur as [|x cur'].
    - inversion H; subst. split; [apply Qle_refl|]. split; [exact Hc|]. intros alt [].
    - pose proof (sweep_spec (deletions (x :: cur'))) as Hs.
      destruct (sweep aic (deletions (x :: cur'))) as [[alt a']|].
      + destruct Hs as [Hin [Ha Hall]]. destruct (Qle_bool a' cur_aic) eqn:Ele.
        * apply Qle_bool_iff in Ele. destruct (IH alt a' c a Ha H) as [H1 [H2 H3]].
          split; [apply Qle_trans with a'; assumption|]. split; assumption.
        * inversion H; subst. split; [apply Qle_refl|]. split; [exact Hc|].
          intros alt' Hin'. specialize (Hall alt' Hin'). destruct (aic alt') as [b|]; [|exact I].
          apply Qlt_le_trans with a'; [|exact Hall]. apply Qnot_le_lt. intro Hle. apply Qle_bool_iff in Hle. congruence.
      + inversion H; subst. split; [apply Qle_refl|]. split; [exact Hc|].
        intros alt' Hin'. rewrite (Hs alt' Hin'). exact I.
  Qed.
  Lemma backward_loop_fuel : forall fuel cur cur_aic,
    (length cur < fuel)%nat -> backward_loop aic fuel cur cur_aic <> None.
  Proof.
    induction fuel as [|fuel IH]; intros cur cur_aic Hl; [lia|]. simpl.
    destruct cur as [|x cur']; [discriminate|].
    pose proof (sweep_spec (deletions (x :: cur'))) as Hs.
    destruct (sweep aic (deletions (x :: cur'))) as [[alt a']|]; [|discriminate].
    destruct Hs as [Hin _]. destruct (Qle_bool a' cur_aic); [|discriminate].
    apply IH. rewrite (deletions_length _ _ Hin). simpl in *. lia.
  Qed.

  Theorem backward_sound p :
    match backward aic p with
    | StepOk c a => exists a0, aic (seq 0 p) = Some a0 /\ a <= a0 /\ aic c = Some a /\ local_min (deletions c) a
    | StepValueError => aic (seq 0 p) = None
    | StepCrash | StepFuel => False
    end.
  Proof.
    unfold backward. destruct (aic (seq 0 p)) as [a0|] eqn:E0; [|reflexivity].
    destruct (backward_loop aic (S p) (seq 0 p) a0) as [[c a]|] eqn:El.
    - exists a0. split; [reflexivity|]. exact (backward_loop_sound _ _ _ _ _ E0 El).
    - apply (backward_loop_fuel (S p) (seq 0 p) a0); [rewrite seq_length; lia | exact El].
  Qed.

  (* ---------------------------------------------------------------- forward *)
  Lemma remove_var_In v vars x : In x (remove_var v vars) <-> In x vars /\ x <> v.
  Proof.
    unfold remove_var. rewrite filter_In, negb_true_iff, Nat.eqb_neq. tauto.
  Qed.
  Lemma filter_len_le {A} (f : A -> bool) l : (length (filter f l) <= length l)%nat.
  Proof. induction l as [|x l IH]; simpl; [lia|]. destruct (f x); simpl; lia. Qed.
  Lemma remove_var_length v vars : In v vars -> (length (remove_var v vars) < length vars)%nat.
  Proof.
    unfold remove_var. induction vars as [|y vars IH]; intros Hin; [destruct Hin|]. simpl.
    destruct (Nat.eqb_spec y v) as [->|Hne]; simpl.
    - pose proof (filter_len_le (fun x => negb (x =? v)%nat) vars). lia.
    - destruct Hin as [->|Hin]; [congruence|]. specialize (IH Hin). lia.
  Qed.
  Lemma additions_In cols vars alt : In alt (additions cols vars) -> exists v, In v vars /\ alt = cols ++ [v].
  Proof. unfold additions. rewrite in_map_iff. intros [v [<- Hv]]. exists v. split; [exact Hv | reflexivity]. Qed.
  Lemma last_snoc (l : list nat) v d : last (l ++ [v]) d = v.
  Proof. induction l as [|x l IH]; [reflexivity|]. simpl. destruct (l ++ [v]) eqn:E; [destruct l; discriminate | exact IH]. Qed.

  Lemma forward_loop_sound p : forall fuel cur vars cur_aic c a,
    aic cur = Some cur_aic ->
    (forall v, In v vars <-> (v < p)%nat /\ ~ In v cur) ->
    forward_loop aic fuel cur vars cur_aic = Some (c, a) ->
    a <= cur_aic /\ aic c = Some a /\
    forall v, (v < p)%nat -> ~ In v c -> match aic (c ++ [v]) with Some b => a < b | None => True end.
  Proof.
    induction fuel as [|fuel IH]; intros cur vars cur_aic c a Hc Hv H; simpl in H; [discriminate|].
    destruct vars as [|v0 vars'].
    - inversion H; subst. split; [apply Qle_refl|]. split; [exact Hc|].
      intros v Hvp Hnin. exfalso. apply (proj2 (Hv v)) in Hnin; [destruct Hnin | exact Hvp] || (destruct (proj2 (Hv v) (conj Hvp Hnin))).
    - set (vars := v0 :: vars') in *. pose proof (sweep_spec (additions cur vars)) as Hs.
      destruct (sweep aic (additions cur vars)) as [[alt a']|].
      + destruct Hs as [Hin [Ha Hall]]. destruct (additions_In _ _ _ Hin) as [w [Hw ->]].
        destruct (Qle_bool a' cur_aic) eqn:Ele.
        * apply Qle_bool_iff in Ele. rewrite last_snoc in H.
          assert (Hv' : forall v, In v (remove_var w vars) <-> (v < p)%nat /\ ~ In v (cur ++ [w])).
          { intros v. rewrite remove_var_In, Hv, in_app_iff. simpl. split.
            - intros [[H1 H2] H3]. split; [exact H1|]. intros [H4|[H4|[]]]; [exact (H2 H4) | exact (H3 (eq_sym H4))].
            - intros [H1 H2]. split; [split; [exact H1|]|].
              + intro H4. apply H2. left. exact H4.
              + intro H4. apply H2. right. left. symmetry. exact H4. }
          destruct (IH (cur ++ [w]) (remove_var w vars) a' c a Ha Hv' H) as [H1 [H2 H3]].
          split; [apply Qle_trans with a'; assumption|]. split; assumption.
        * inversion H; subst. split; [apply Qle_refl|]. split; [exact Hc|].
          intros v Hvp Hnin. assert (Hinv : In (c ++ [v]) (additions c vars)).
          { unfold additions. apply (in_map (fun v1 => c ++ [v1])). apply Hv. split; assumption. }
          specialize (Hall _ Hinv). destruct (aic (c ++ [v])) as [b|]; [|exact I].
          apply Qlt_le_trans with a'; [|exact Hall]. apply Qnot_le_lt. intro Hle. apply Qle_bool_iff in Hle. congruence.
      + inversion H; subst. split; [apply Qle_refl|]. split; [exact Hc|].
        intros v Hvp Hnin. assert (Hinv : In (c ++ [v]) (additions c vars)).
        { unfold additions. apply (in_map (fun v1 => c ++ [v1])). apply Hv. split; assumption. }
        rewrite (Hs _ Hinv). exact I.
  Qed.
  Lemma forward_loop_fuel : forall fuel cur vars cur_aic,
    (length vars < fuel)%nat -> forward_loop aic fuel cur vars cur_aic <> None.
  Proof.
    induction fuel as [|fuel IH]; intros cur vars cur_aic Hl; [lia|]. simpl.
    destruct vars as [|v0 vars']; [discriminate|]. set (vars := v0 :: vars') in *.
    pose proof (sweep_spec (additions cur vars)) as Hs.
    destruct (sweep aic (additions cur vars)) as [[alt a']|]; [|discriminate].
    destruct Hs as [Hin _]. destruct (additions_In _ _ _ Hin) as [w [Hw ->]].
    destruct (Qle_bool a' cur_aic); [|discriminate]. rewrite last_snoc.
    apply IH. pose proof (remove_var_length w vars Hw). lia.
  Qed.

  Theorem forward_sound p :
    match forward aic p with
    | StepOk c a => exists a0, aic [] = Some a0 /\ a <= a0 /\ aic c = Some a /\
                    forall v, (v < p)%nat -> ~ In v c -> match aic (c ++ [v]) with Some b => a < b | None => True end
    | StepCrash => aic [] = None
    | StepValueError | StepFuel => False
    end.
  Proof.
    unfold forward. destruct (aic []) as [a0|] eqn:E0; [|reflexivity].
    destruct (forward_loop aic (S p) [] (seq 0 p) a0) as [[c a]|] eqn:El.
    - exists a0. split; [reflexivity|]. apply (forward_loop_sound p _ _ _ _ _ _ E0) in El; [exact El|].
      intros v. rewrite in_seq. simpl. split; [intros H; split; [lia | tauto] | intros [H _]; lia].
    - apply (forward_loop_fuel (S p) [] (seq 0 p) a0); [rewrite seq_length; lia | exact El].
  Qed.
End Proofs.

(* ------------------------------------------------------------------ the three claims of the property *)
Theorem stepwise_terminates aic fwd p : stepwise aic fwd p <> StepFuel.
Proof.
  destruct fwd; simpl; [pose proof (forward_sound aic p) as H | pose proof (backward_sound aic p) as H]; intro E; rewrite E in H; exact H.
Qed.
Theorem stepwise_not_worse aic fwd p c a :
  stepwise aic fwd p = StepOk c a ->
  exists a0, aic (if fwd then [] else seq 0 p) = Some a0 /\ aic c = Some a /\ a <= a0.
Proof.
  intros E. destruct fwd; simpl in E;
    [pose proof (forward_sound aic p) as H | pose proof (backward_sound aic p) as H]; rewrite E in H;
    destruct H as [a0 [H0 [H1 [H2 _]]]]; exists a0; auto.
Qed.
Theorem stepwise_local_min aic fwd p c a :
  stepwise aic fwd p = StepOk c a ->
  if fwd then forall v, (v < p)%nat -> ~ In v c -> match aic (c ++ [v]) with Some b => a < b | None => True end
  else forall alt, In alt (deletions c) -> match aic alt with Some b => a < b | None => True end.
Proof.
  intros E. destruct fwd; simpl in E;
    [pose proof (forward_sound aic p) as H | pose proof (backward_sound aic p) as H]; rewrite E in H;
    destruct H as [a0 [H0 [H1 [H2 H3]]]]; exact H3.
Qed.
