(* C20 -- proofs about Model.SuperLearner *)
From Coq Require Import QArith ZArith List Bool Arith Lia Lqa Permutation.
From Zepid Require Import Base.QUtil Base.QSum Model.Bounds Model.SuperLearner.
Import ListNotations.

(* ------------------------------------------------------------------ generic list facts *)
Lemma flat_map_comp {A B C} (g : B -> list C) (h : A -> list B) (l : list A) :
  flat_map g (flat_map h l) = flat_map (fun x => flat_map g (h x)) l.
Proof. induction l as [|x l IH]; simpl; [reflexivity|]. rewrite flat_map_app, IH. reflexivity. Qed.
Lemma flat_map_nil {A B} (g : A -> list B) (l : list A) : (forall x, In x l -> g x = []) -> flat_map g l = [].
Proof.
  induction l as [|x l IH]; intros H; simpl; [reflexivity|].
  rewrite (H x) by (left; reflexivity). simpl. apply IH. intros y Hy. apply H. right. exact Hy.
Qed.
Lemma flat_map_single {A B} (g : A -> list B) (l : list A) (x0 : A) :
  NoDup l -> In x0 l -> (forall x, In x l -> x <> x0 -> g x = []) -> flat_map g l = g x0.
Proof.
  induction l as [|x l IH]; intros Hn Hin Hz; [destruct Hin|]. simpl.
  inversion Hn as [|? ? Hx Hl]; subst. destruct Hin as [->|Hin].
  - rewrite (flat_map_nil g l), app_nil_r; [reflexivity|].
    intros y Hy. apply Hz; [right; exact Hy|]. intro E. subst. exact (Hx Hy).
  - rewrite (Hz x); [|left; reflexivity | intro; subst; exact (Hx Hin)]. simpl.
    apply IH; [exact Hl | exact Hin |]. intros z Hzin. apply Hz. right. exact Hzin.
Qed.
Lemma flat_map_prod {A B C} (g : A * B -> list C) (la : list A) (lb : list B) :
  flat_map g (list_prod la lb) = flat_map (fun a => flat_map (fun b => g (a, b)) lb) la.
Proof.
  assert (Hm : forall (h : B -> A * B) (l : list B), flat_map g (map h l) = flat_map (fun x => g (h x)) l).
  { intros h l. induction l as [|b l IHb]; simpl; [reflexivity|]. rewrite IHb. reflexivity. }
  induction la as [|a la IH]; simpl; [reflexivity|]. rewrite flat_map_app, IH, Hm. reflexivity.
Qed.
Lemma NoDup_app_intro' {A} (a b : list A) :
  NoDup a -> NoDup b -> (forall x, In x a -> ~ In x b) -> NoDup (a ++ b).
Proof.
  induction a as [|y a IH]; simpl; intros Ha Hb Hd; [exact Hb|].
  inversion Ha as [|? ? Hy Hr]; subst. constructor.
  - intro Hi. apply in_app_or in Hi. destruct Hi as [Hi|Hi]; [exact (Hy Hi)|].
    apply (Hd y); [left; reflexivity | exact Hi].
  - apply IH; [exact Hr | exact Hb |]. intros x Hx. apply Hd. right. exact Hx.
Qed.
Lemma NoDup_prod {A B} (la : list A) (lb : list B) : NoDup la -> NoDup lb -> NoDup (list_prod la lb).
Proof.
  intros Ha Hb. induction la as [|a la IH]; simpl; [constructor|].
  inversion Ha as [|? ? Hx Hl]; subst. apply NoDup_app_intro'.
  - clear -Hb. induction lb as [|b lb IHb]; simpl; [constructor|]. inversion Hb; subst.
    constructor; [|apply IHb; assumption]. rewrite in_map_iff. intros [y [Hy Hin]]. inversion Hy; subst. contradiction.
  - apply IH. exact Hl.
  - intros [x y] Hin Hin'. apply in_map_iff in Hin. destruct Hin as [z [Hz _]]. inversion Hz; subst.
    apply in_prod_iff in Hin'. tauto.
Qed.
Lemma nth_seq_all' {A} (l : list A) d : map (fun i => nth i l d) (seq 0 (length l)) = l.
Proof.
  induction l as [|a l IH]; simpl; [reflexivity|]. f_equal.
  rewrite <- seq_shift, map_map. exact IH.
Qed.

Lemma nth_map_lt {A B} (g : A -> B) (l : list A) d d' i :
  (i < length l)%nat -> nth i (map g l) d = g (nth i l d').
Proof.
  intros Hi. rewrite (nth_indep _ d (g d')) by (rewrite map_length; exact Hi). apply map_nth.
Qed.

Lemma nmem_In x l : nmem x l = true <-> In x l.
Proof.
  unfold nmem. rewrite existsb_exists. split.
  - intros [y [H1 H2]]. apply Nat.eqb_eq in H2. subst. exact H1.
  - intros H. exists x. split; [exact H | apply Nat.eqb_refl].
Qed.
Lemma nmem_false x l : nmem x l = false <-> ~ In x l.
Proof.
  rewrite <- nmem_In. destruct (nmem x l); split; intro H; try reflexivity; try discriminate.
  exfalso. apply H. reflexivity.
Qed.
Lemma ncount_notin x l : ~ In x l -> ncount x l = 0%nat.
Proof.
  induction l as [|y t IH]; simpl; intros H; [reflexivity|].
  destruct (Nat.eqb_spec x y) as [->|Hn].
  - exfalso. apply H. left. reflexivity.
  - simpl. apply IH. intro Hi. apply H. right. exact Hi.
Qed.
Lemma ncount_NoDup x l : NoDup l -> In x l -> ncount x l = 1%nat.
Proof.
  induction l as [|y t IH]; simpl; intros Hn Hi; [contradiction|].
  inversion Hn as [|? ? Hy Ht]; subst.
  destruct (Nat.eqb_spec x y) as [->|Hne].
  - rewrite (ncount_notin y t Hy). reflexivity.
  - destruct Hi as [->|Hi]; [congruence|]. simpl. apply IH; assumption.
Qed.

(* ------------------------------------------------------------------ KFold *)
Fixpoint nsum (l : list nat) : nat := match l with [] => O | x :: t => (x + nsum t)%nat end.
Lemma nsum_app a b : nsum (a ++ b) = (nsum a + nsum b)%nat.
Proof. induction a as [|x a IH]; simpl; [reflexivity | rewrite IH; lia]. Qed.
Lemma nsum_fold_sizes_gen q r k :
  nsum (map (fun f => q + (if f <? r then 1 else 0))%nat (seq 0 k)) = (k * q + Nat.min r k)%nat.
Proof.
  induction k as [|k IH]; [simpl; lia|].
  rewrite seq_S, map_app, nsum_app, IH. simpl. destruct (Nat.ltb_spec k r); lia.
Qed.
Lemma nsum_fold_sizes n k : (1 <= k)%nat -> nsum (fold_sizes n k) = n.
Proof.
  intros Hk. unfold fold_sizes. rewrite nsum_fold_sizes_gen.
  pose proof (Nat.mod_upper_bound n k ltac:(lia)). pose proof (Nat.div_mod_eq n k). lia.
Qed.
Lemma blocks_concat sizes : forall start, concat (blocks start sizes) = seq start (nsum sizes).
Proof.
  induction sizes as [|s t IH]; intros start; simpl; [reflexivity|].
  rewrite IH, <- seq_app. reflexivity.
Qed.
Lemma blocks_length sizes : forall start, length (blocks start sizes) = length sizes.
Proof. induction sizes as [|s t IH]; intros start; simpl; [reflexivity | rewrite IH; reflexivity]. Qed.
Lemma blocks_nth_length sizes : forall start f, length (nth f (blocks start sizes) []) = nth f sizes 0%nat.
Proof.
  induction sizes as [|s t IH]; intros start f; simpl; [destruct f; reflexivity|].
  destruct f; [apply seq_length | apply IH].
Qed.

Lemma complement_spec n t i : In i (complement n t) <-> (i < n)%nat /\ ~ In i t.
Proof. unfold complement. rewrite filter_In, in_seq, negb_true_iff, nmem_false. simpl. intuition lia. Qed.

(* every row is in exactly one test block; blocks are consecutive, sizes n/k (+1 for the first n mod k);
   each training set is the complement of its test block *)
Theorem kfold_partition n k : (1 <= k)%nat ->
  length (kfold_tests n k) = k /\
  concat (kfold_tests n k) = seq 0 n /\
  (forall i, (i < n)%nat -> ncount i (concat (kfold_tests n k)) = 1%nat) /\
  (forall f, (f < k)%nat -> length (nth f (kfold_tests n k) []) = (n / k + (if f <? n mod k then 1 else 0))%nat) /\
  (forall f, (f < k)%nat -> forall i,
      In i (fst (nth f (kfold n k) ([], []))) <-> (i < n)%nat /\ ~ In i (snd (nth f (kfold n k) ([], [])))).
Proof.
  intros Hk. unfold kfold_tests.
  assert (Hlen : length (blocks 0 (fold_sizes n k)) = k)
    by (rewrite blocks_length; unfold fold_sizes; rewrite map_length, seq_length; reflexivity).
  assert (Hc : concat (blocks 0 (fold_sizes n k)) = seq 0 n)
    by (rewrite blocks_concat, nsum_fold_sizes by exact Hk; reflexivity).
  split; [exact Hlen|]. split; [exact Hc|]. split; [|split].
  - intros i Hi. rewrite Hc. apply ncount_NoDup; [apply seq_NoDup | apply in_seq; lia].
  - intros f Hf. rewrite blocks_nth_length. unfold fold_sizes.
    rewrite (nth_map_lt _ _ _ 0%nat) by (rewrite seq_length; exact Hf).
    rewrite seq_nth by exact Hf. reflexivity.
  - intros f Hf i. unfold kfold, kfold_tests.
    rewrite (nth_map_lt _ _ _ []) by (rewrite Hlen; exact Hf). simpl. apply complement_spec.
Qed.

Lemma kfold_length n k : length (kfold n k) = k.
Proof.
  unfold kfold, kfold_tests. rewrite map_length, blocks_length. unfold fold_sizes.
  rewrite map_length, seq_length. reflexivity.
Qed.
Lemma kfold_nth n k f : (f < k)%nat ->
  nth f (kfold n k) ([], []) = (complement n (nth f (kfold_tests n k) []), nth f (kfold_tests n k) []).
Proof.
  intros Hf. unfold kfold.
  assert (Hl : length (kfold_tests n k) = k).
  { unfold kfold_tests. rewrite blocks_length. unfold fold_sizes. rewrite map_length, seq_length. reflexivity. }
  rewrite (nth_map_lt _ _ _ []) by (rewrite Hl; exact Hf). reflexivity.
Qed.

(* ------------------------------------------------------------------ hold-out discipline of the CV schedule *)
Lemma fm_inj m f c f' c' : (c < m)%nat -> (c' < m)%nat -> (f * m + c = f' * m + c')%nat -> f = f' /\ c = c'.
Proof.
  intros Hc Hc' E. destruct (Nat.lt_trichotomy f f') as [H|[H|H]].
  - exfalso. assert ((f + 1) * m <= f' * m)%nat by (apply Nat.mul_le_mono_r; lia). lia.
  - subst. split; [reflexivity | lia].
  - exfalso. assert ((f' + 1) * m <= f * m)%nat by (apply Nat.mul_le_mono_r; lia). lia.
Qed.

Section CV.
  Variables (m : nat) (folds : list (list nat * list nat)).
  Let k := length folds.
  Let idx := list_prod (seq 0 k) (seq 0 m).
  Let tr (f : nat) := fst (nth f folds ([], [])).
  Let te (f : nat) := snd (nth f folds ([], [])).

  Lemma idx_NoDup : NoDup idx.
  Proof. apply NoDup_prod; apply seq_NoDup. Qed.
  Lemma idx_In f c : In (f, c) idx <-> (f < k)%nat /\ (c < m)%nat.
  Proof. unfold idx. rewrite in_prod_iff, !in_seq. lia. Qed.

  Lemma cv_step_eq f c :
    cv_step m folds (f, c) = [Clone (f * m + c) c; FitC (f * m + c) c (tr f); PredC (f * m + c) c (te f)].
  Proof. unfold cv_step, tr, te. destruct (nth f folds ([], [])) as [a b]. reflexivity. Qed.

  Lemma cv_fit_rows f c : (f < k)%nat -> (c < m)%nat -> fit_rows (f * m + c) (cv_schedule m folds) = [tr f].
  Proof.
    intros Hf Hc. unfold cv_schedule, fit_rows. rewrite flat_map_comp. fold k. fold idx.
    rewrite (flat_map_single _ idx (f, c) idx_NoDup (proj2 (idx_In f c) (conj Hf Hc))).
    - rewrite cv_step_eq. simpl. rewrite Nat.eqb_refl. reflexivity.
    - intros [f' c'] Hin Hne. apply idx_In in Hin. rewrite cv_step_eq. simpl.
      destruct (Nat.eqb_spec (f * m + c) (f' * m + c')) as [E|E]; [|reflexivity].
      exfalso. apply Hne. destruct (fm_inj m f c f' c' Hc (proj2 Hin) E). subst. reflexivity.
  Qed.
  Lemma cv_clones_of f c : (f < k)%nat -> (c < m)%nat -> clones_of (f * m + c) (cv_schedule m folds) = [c].
  Proof.
    intros Hf Hc. unfold cv_schedule, clones_of. rewrite flat_map_comp. fold k. fold idx.
    rewrite (flat_map_single _ idx (f, c) idx_NoDup (proj2 (idx_In f c) (conj Hf Hc))).
    - rewrite cv_step_eq. simpl. rewrite Nat.eqb_refl. reflexivity.
    - intros [f' c'] Hin Hne. apply idx_In in Hin. rewrite cv_step_eq. simpl.
      destruct (Nat.eqb_spec (f * m + c) (f' * m + c')) as [E|E]; [|reflexivity].
      exfalso. apply Hne. destruct (fm_inj m f c f' c' Hc (proj2 Hin) E). subst. reflexivity.
  Qed.
  (* column c of cv_pred is filled block after block: the predicted rows, in call order, are the test blocks *)
  Lemma cv_pred_rows_eq c : (c < m)%nat -> cv_pred_rows c (cv_schedule m folds) = concat (map snd folds).
  Proof.
    intros Hc. unfold cv_schedule, cv_pred_rows. rewrite flat_map_comp. fold k. fold idx. unfold idx.
    rewrite flat_map_prod.
    assert (Hin : forall f, flat_map (fun b => flat_map (fun e => match e with PredC _ c' rows => if (c =? c')%nat then rows else [] | _ => [] end)
                                                  (cv_step m folds (f, b))) (seq 0 m) = te f).
    { intros f. rewrite (flat_map_single _ (seq 0 m) c (seq_NoDup _ _)).
      - rewrite cv_step_eq. simpl. rewrite Nat.eqb_refl, app_nil_r. reflexivity.
      - apply in_seq. lia.
      - intros c' _ Hne. rewrite cv_step_eq. simpl. destruct (Nat.eqb_spec c c'); [congruence | reflexivity]. }
    rewrite (flat_map_ext _ _ Hin). rewrite flat_map_concat_map. f_equal. unfold te, k.
    transitivity (map (fun i => nth i (map snd folds) []) (seq 0 (length (map snd folds)))); [|apply nth_seq_all'].
    rewrite map_length. apply map_ext_in.
    intros f Hf. apply in_seq in Hf. symmetry. apply (nth_map_lt snd folds [] ([], [])). lia.
  Qed.
  Lemma cv_pred_inv t c rows : In (PredC t c rows) (cv_schedule m folds) ->
    exists f, (f < k)%nat /\ (c < m)%nat /\ t = (f * m + c)%nat /\ rows = te f.
  Proof.
    unfold cv_schedule. fold k. fold idx. rewrite in_flat_map. intros [[f c'] [Hin H]].
    apply idx_In in Hin. rewrite cv_step_eq in H. simpl in H.
    destruct H as [H|[H|[H|[]]]]; try discriminate. inversion H; subst. exists f. tauto.
  Qed.
End CV.

Theorem holdout_discipline n m k : (1 <= k)%nat -> Holdout (cv_schedule m (kfold n k)) n m.
Proof.
  intros Hk i c Hi Hc. destruct (kfold_partition n k Hk) as [Hlen [Hcat [Hcnt [_ Hcompl]]]].
  assert (Hsnd : map snd (kfold n k) = kfold_tests n k).
  { unfold kfold. rewrite map_map. simpl. apply map_id. }
  split.
  - rewrite cv_pred_rows_eq by exact Hc. rewrite Hsnd. apply Hcnt. exact Hi.
  - intros t rows Hin Hir. apply cv_pred_inv in Hin. rewrite kfold_length in Hin.
    destruct Hin as [f [Hf [_ [-> ->]]]].
    split; [apply cv_clones_of; [rewrite kfold_length; exact Hf | exact Hc]|].
    exists (fst (nth f (kfold n k) ([], []))). split; [apply cv_fit_rows; [rewrite kfold_length; exact Hf | exact Hc]|].
    split.
    + intro Hc'. apply (Hcompl f Hf i) in Hc'. tauto.
    + intros j Hj. rewrite (Hcompl f Hf j). tauto.
Qed.

(* the executable specification evaluated on the implementation's call log is sound *)
Theorem holdout_b_sound evs n m : holdout_b evs n m = true -> Holdout evs n m.
Proof.
  unfold holdout_b. rewrite forallb_forall. intros H i c Hi Hc.
  specialize (H i ltac:(apply in_seq; lia)). rewrite forallb_forall in H.
  specialize (H c ltac:(apply in_seq; lia)). rewrite andb_true_iff, Nat.eqb_eq, forallb_forall in H.
  destruct H as [H1 H2]. split; [exact H1|]. intros t rows Hin Hir. specialize (H2 _ Hin). simpl in H2.
  rewrite Nat.eqb_refl, (proj2 (nmem_In i rows) Hir) in H2. simpl in H2.
  destruct (clones_of t evs) as [|c'' [|? ?]]; try discriminate.
  destruct (fit_rows t evs) as [|tr0 [|? ?]]; try discriminate.
  rewrite !andb_true_iff, Nat.eqb_eq, negb_true_iff, nmem_false in H2. destruct H2 as [[-> Hni] Hcov].
  split; [reflexivity|]. exists tr0. split; [reflexivity|]. split; [exact Hni|].
  intros j Hj. unfold nlist_disjoint_cover in Hcov. rewrite forallb_forall in Hcov.
  specialize (Hcov j ltac:(apply in_seq; lia)).
  destruct (nmem j tr0) eqn:E1; destruct (nmem j rows) eqn:E2; simpl in Hcov; try discriminate.
  - apply nmem_In in E1. apply nmem_false in E2. tauto.
  - apply nmem_false in E1. apply nmem_In in E2. tauto.
Qed.

(* refit: only retained candidates are fitted again, each on all rows, each exactly by its own fresh clone *)
Theorem refit_all_rows n m t0 retained t c rows :
  In (FitC t c rows) (refit_schedule n m t0 retained) ->
  rows = seq 0 n /\ (c < m)%nat /\ t = (t0 + c)%nat /\ retained c = true.
Proof.
  unfold refit_schedule. rewrite in_flat_map. intros [c' [Hc' H]]. apply in_seq in Hc'.
  destruct H as [H|H]; [discriminate|]. destruct (retained c') eqn:E; [|destruct H].
  destruct H as [H|[]]. inversion H; subst. repeat split; try assumption; lia.
Qed.
Theorem refit_retained n m t0 retained c :
  (c < m)%nat -> retained c = true -> In (FitC (t0 + c) c (seq 0 n)) (refit_schedule n m t0 retained).
Proof.
  intros Hc Hr. unfold refit_schedule. apply in_flat_map. exists c. split; [apply in_seq; lia|].
  right. rewrite Hr. left. reflexivity.
Qed.

(* ------------------------------------------------------------------ coefficients *)
Open Scope Q_scope.

Lemma Qlt_bool_t a b : Qlt_bool a b = true -> a < b.
Proof.
  unfold Qlt_bool. rewrite negb_true_iff. intros H. apply Qnot_le_lt. intro Hle.
  apply Qle_bool_iff in Hle. congruence.
Qed.
Lemma Qlt_bool_f a b : Qlt_bool a b = false -> b <= a.
Proof. unfold Qlt_bool. rewrite negb_false_iff. apply Qle_bool_iff. Qed.
Lemma thr_pos : 0 < thr.
Proof. reflexivity. Qed.

Lemma threshold_entry c : let t := (if Qlt_bool c thr then 0 else c) in 0 <= t /\ (t == 0 <-> c < thr).
Proof.
  simpl. destruct (Qlt_bool c thr) eqn:E.
  - apply Qlt_bool_t in E. split; [apply Qle_refl|]. split; [intros _; exact E | intros _; reflexivity].
  - apply Qlt_bool_f in E. pose proof thr_pos. split; [lra|]. split; intro; lra.
Qed.
Lemma threshold_nonneg raw : Forall (fun c => 0 <= c) (threshold raw).
Proof.
  unfold threshold. apply Forall_forall. intros x Hx. apply in_map_iff in Hx. destruct Hx as [c [<- _]].
  apply (threshold_entry c).
Qed.
Lemma Qtotal_nonneg l : Forall (fun c => 0 <= c) l -> 0 <= Qtotal l.
Proof. intros H. unfold Qtotal. apply Qsum_nonneg. intros x Hx. rewrite Forall_forall in H. apply H. exact Hx. Qed.
Lemma Qtotal_zero_all l : Forall (fun c => 0 <= c) l -> Qtotal l == 0 -> Forall (fun c => c == 0) l.
Proof.
  induction l as [|x l IH]; intros Hn Hs; [constructor|].
  inversion Hn as [|? ? Hx Hl]; subst. unfold Qtotal in *. simpl in Hs.
  pose proof (Qtotal_nonneg l Hl) as Ht. unfold Qtotal in Ht.
  constructor; [lra|]. apply IH; [exact Hl | lra].
Qed.

(* whatever nnls returned: after thresholding and normalising the weights are >= 0 and sum to one *)
Theorem coef_convex raw c :
  normalise raw = Some c -> length c = length raw /\ Forall (fun x => 0 <= x) c /\ Qtotal c == 1.
Proof.
  unfold normalise. destruct (Qeq_bool (Qtotal (threshold raw)) 0) eqn:E; [discriminate|].
  intros H. inversion H; subst; clear H.
  assert (Hne : ~ Qtotal (threshold raw) == 0) by (apply Qeq_bool_neq; exact E).
  pose proof (Qtotal_nonneg _ (threshold_nonneg raw)) as Hs.
  assert (Hpos : 0 < Qtotal (threshold raw)) by lra.
  split; [unfold threshold; rewrite !map_length; reflexivity|]. split.
  - apply Forall_forall. intros x Hx. apply in_map_iff in Hx. destruct Hx as [y [<- Hy]].
    pose proof (threshold_nonneg raw) as Hn. rewrite Forall_forall in Hn. specialize (Hn y Hy).
    apply Qle_shift_div_l; [exact Hpos | lra].
  - unfold Qtotal at 1. rewrite Qsum_map.
    rewrite (Qsum_ext_all _ (fun b => b * / Qtotal (threshold raw))) by (intros; reflexivity).
    rewrite Qsum_scal_r. fold (Qtotal (threshold raw)). field. exact Hne.
Qed.
(* ... unless every nnls coefficient is below sqrt(eps): then (and only then) they are 0/0 = NaN *)
Theorem normalise_none_iff raw : normalise raw = None <-> Forall (fun c => c < thr) raw.
Proof.
  unfold normalise. split.
  - destruct (Qeq_bool (Qtotal (threshold raw)) 0) eqn:E; [|discriminate]. intros _.
    apply Qeq_bool_iff in E. pose proof (Qtotal_zero_all _ (threshold_nonneg raw) E) as Hz.
    apply Forall_forall. intros c Hc. rewrite Forall_forall in Hz.
    apply (threshold_entry c). apply Hz. unfold threshold. apply (in_map (fun c0 => if Qlt_bool c0 thr then 0 else c0)). exact Hc.
  - intros H. assert (Hz : Qtotal (threshold raw) == 0).
    { unfold Qtotal, threshold. rewrite Qsum_map. apply Qsum_zero. intros c Hc. rewrite Forall_forall in H.
      apply (threshold_entry c). apply H. exact Hc. }
    apply Qeq_bool_iff in Hz. rewrite Hz. reflexivity.
Qed.

(* ------------------------------------------------------------------ one-hot / argmax *)
Lemma one_hot_nth m j i : (i < m)%nat -> nth i (one_hot m j) 0 = if (i =? j)%nat then 1 else 0.
Proof.
  intros Hi. unfold one_hot. rewrite (nth_map_lt _ _ _ 0%nat) by (rewrite seq_length; exact Hi).
  rewrite seq_nth by exact Hi. reflexivity.
Qed.
Lemma one_hot_nonneg m j : Forall (fun x => 0 <= x) (one_hot m j).
Proof.
  apply Forall_forall. intros x Hx. unfold one_hot in Hx. apply in_map_iff in Hx. destruct Hx as [i [<- _]].
  destruct (i =? j)%nat; lra.
Qed.
Lemma Qsum_ind_seq (g : nat -> Q) j : forall m s, (s <= j < s + m)%nat ->
  Qsum (fun i => (if (i =? j)%nat then 1 else 0) * g i) (seq s m) == g j.
Proof.
  induction m as [|m IH]; intros s Hj; [lia|]. simpl.
  destruct (Nat.eqb_spec s j) as [->|Hne].
  - rewrite Qsum_zero; [ring|]. intros i Hi. apply in_seq in Hi.
    destruct (Nat.eqb_spec i j); [lia | ring].
  - rewrite IH by lia. ring.
Qed.
Lemma one_hot_total m j : (j < m)%nat -> Qtotal (one_hot m j) == 1.
Proof.
  intros Hj. unfold Qtotal, one_hot. rewrite Qsum_map.
  rewrite (Qsum_ext_all _ (fun i => (if (i =? j)%nat then 1 else 0) * 1)) by (intros; ring).
  apply (Qsum_ind_seq (fun _ => 1) j m 0%nat). lia.
Qed.

Lemma argmax_from_spec : forall l pre bi b,
  (bi < length pre)%nat -> nth bi pre 0 = b ->
  (forall j, (j < length pre)%nat -> nth j pre 0 <= b) ->
  (forall j, (j < bi)%nat -> nth j pre 0 < b) ->
  let r := argmax_from bi b (length pre) l in
  (r < length (pre ++ l))%nat /\
  (forall j, (j < length (pre ++ l))%nat -> nth j (pre ++ l) 0 <= nth r (pre ++ l) 0) /\
  (forall j, (j < r)%nat -> nth j (pre ++ l) 0 < nth r (pre ++ l) 0).
Proof.
  induction l as [|x l IH]; intros pre bi b Hbi Hb Hle Hlt; simpl.
  - rewrite app_nil_r. rewrite Hb. repeat split; assumption.
  - assert (Hlen : length (pre ++ [x]) = S (length pre)) by (rewrite app_length; simpl; lia).
    replace (pre ++ x :: l) with ((pre ++ [x]) ++ l) by (rewrite <- app_assoc; reflexivity).
    destruct (Qlt_bool b x) eqn:E.
    + apply Qlt_bool_t in E. rewrite <- Hlen.
      apply (IH (pre ++ [x]) (length pre) x).
      * lia.
      * rewrite app_nth2 by lia. rewrite Nat.sub_diag. reflexivity.
      * intros j Hj. rewrite Hlen in Hj. destruct (Nat.eq_dec j (length pre)) as [->|Hne].
        -- rewrite app_nth2 by lia. rewrite Nat.sub_diag. simpl. lra.
        -- rewrite app_nth1 by lia. specialize (Hle j ltac:(lia)). lra.
      * intros j Hj. rewrite app_nth1 by lia. specialize (Hle j Hj). lra.
    + apply Qlt_bool_f in E. rewrite <- Hlen.
      apply (IH (pre ++ [x]) bi b).
      * lia.
      * rewrite app_nth1 by lia. exact Hb.
      * intros j Hj. rewrite Hlen in Hj. destruct (Nat.eq_dec j (length pre)) as [->|Hne].
        -- rewrite app_nth2 by lia. rewrite Nat.sub_diag. simpl. exact E.
        -- rewrite app_nth1 by lia. apply Hle. lia.
      * intros j Hj. rewrite app_nth1 by lia. apply Hlt. exact Hj.
Qed.
(* np.argmax: a position of the maximum, and the first such *)
Theorem argmax_spec l : l <> [] ->
  (argmax l < length l)%nat /\
  (forall j, (j < length l)%nat -> nth j l 0 <= nth (argmax l) l 0) /\
  (forall j, (j < argmax l)%nat -> nth j l 0 < nth (argmax l) l 0).
Proof.
  destruct l as [|x l]; [congruence|]. intros _. unfold argmax.
  apply (argmax_from_spec l [x] 0%nat x); simpl.
  - lia.
  - reflexivity.
  - intros j Hj. assert (j = 0)%nat by lia. subst. lra.
  - intros j Hj. lia.
Qed.

(* SuperLearner.coefficients: non-negative, summing to one; discrete = a single one on the first largest weight *)
Theorem sl_coefficients_convex discrete raw c :
  sl_coefficients discrete raw = Some c ->
  length c = length raw /\ Forall (fun x => 0 <= x) c /\ Qtotal c == 1 /\
  (discrete = true -> exists norm, normalise raw = Some norm /\ c = one_hot (length norm) (argmax norm) /\
                                   (argmax norm < length norm)%nat /\
                                   (forall j, (j < length norm)%nat -> nth j norm 0 <= nth (argmax norm) norm 0) /\
                                   (forall j, (j < argmax norm)%nat -> nth j norm 0 < nth (argmax norm) norm 0)).
Proof.
  unfold sl_coefficients. destruct (normalise raw) as [norm|] eqn:E; [|discriminate].
  intros H. inversion H; subst; clear H. destruct (coef_convex raw norm E) as [Hl [Hn Ht]].
  assert (Hne : norm <> []).
  { intro Hc. subst. unfold Qtotal in Ht. simpl in Ht. lra. }
  destruct (argmax_spec norm Hne) as [A1 [A2 A3]].
  destruct discrete.
  - split; [unfold one_hot; rewrite map_length, seq_length; exact Hl|].
    split; [apply one_hot_nonneg|]. split; [apply one_hot_total; exact A1|].
    intros _. exists norm. repeat split; assumption.
  - split; [exact Hl|]. split; [exact Hn|]. split; [exact Ht|]. discriminate.
Qed.

(* ------------------------------------------------------------------ predictions *)
Lemma lincomb_cons c cs v vs : lincomb (c :: cs) (v :: vs) == c * v + lincomb cs vs.
Proof. unfold lincomb. simpl. reflexivity. Qed.

(* a convex combination stays in the hull of the values that carry weight *)
Theorem lincomb_hull : forall coefs vals lo hi,
  length coefs = length vals -> Forall (fun x => 0 <= x) coefs ->
  (forall j, (j < length coefs)%nat -> 0 < nth j coefs 0 -> lo <= nth j vals 0 <= hi) ->
  lo * Qtotal coefs <= lincomb coefs vals <= hi * Qtotal coefs.
Proof.
  induction coefs as [|c cs IH]; intros vals lo hi Hl Hn Hv.
  - unfold lincomb, Qtotal. simpl. lra.
  - destruct vals as [|v vs]; [discriminate|]. inversion Hn as [|? ? Hc Hcs]; subst.
    rewrite lincomb_cons. unfold Qtotal in *. simpl Qsum.
    assert (IH' := IH vs lo hi ltac:(simpl in Hl; lia) Hcs
                     (fun j Hj Hp => Hv (S j) ltac:(simpl; lia) Hp)).
    destruct (Qlt_le_dec 0 c) as [Hpos|Hz].
    + pose proof (Hv 0%nat ltac:(simpl; lia) Hpos) as H0. simpl in H0. nra.
    + assert (c == 0) by lra. nra.
Qed.
Lemma lincomb_one_hot : forall vals m j, length vals = m -> (j < m)%nat -> lincomb (one_hot m j) vals == nth j vals 0.
Proof.
  intros vals m j Hl Hj. unfold lincomb, one_hot.
  assert (Hc : combine (map (fun i => if (i =? j)%nat then 1 else 0) (seq 0 m)) vals =
               map (fun i => ((if (i =? j)%nat then 1 else 0), nth i vals 0)) (seq 0 m)).
  { assert (G : forall (g : nat -> Q) (l : list nat),
                 combine (map g l) (map (fun i => nth i vals 0) l) = map (fun i => (g i, nth i vals 0)) l).
    { intros g l. induction l as [|a l IHl]; simpl; [reflexivity | rewrite IHl; reflexivity]. }
    rewrite <- (G (fun i => if (i =? j)%nat then 1 else 0) (seq 0 m)). subst m. rewrite nth_seq_all'. reflexivity. }
  rewrite Hc, Qsum_map. simpl. apply (Qsum_ind_seq (fun i => nth i vals 0) j m 0%nat). lia.
Qed.

Lemma used_preds_length coefs preds : length coefs = length preds -> length (used_preds coefs preds) = length coefs.
Proof. intros H. unfold used_preds. rewrite map_length, combine_length. lia. Qed.
Lemma used_preds_nth coefs preds j : length coefs = length preds -> (j < length coefs)%nat ->
  nth j (used_preds coefs preds) 0 = if Qlt_bool 0 (nth j coefs 0) then nth j preds 0 else 0.
Proof.
  intros Hl Hj. unfold used_preds.
  rewrite (nth_map_lt _ _ _ (0, 0)) by (rewrite combine_length; lia).
  rewrite combine_nth by exact Hl. reflexivity.
Qed.

(* L2 predictions: a convex combination of the predictions of the candidates that carry weight;
   discrete: exactly the chosen candidate's prediction *)
Theorem sl_predict_is_combination coefs preds lo hi :
  length coefs = length preds -> Forall (fun x => 0 <= x) coefs -> Qtotal coefs == 1 ->
  (forall j, (j < length coefs)%nat -> 0 < nth j coefs 0 -> lo <= nth j preds 0 <= hi) ->
  lo <= sl_predict_l2 coefs preds <= hi.
Proof.
  intros Hl Hn Ht Hv. unfold sl_predict_l2.
  pose proof (lincomb_hull coefs (used_preds coefs preds) lo hi
                (eq_sym (used_preds_length coefs preds Hl)) Hn) as H.
  rewrite Ht in H. assert (forall x, x * 1 == x) as R1 by (intros; ring). rewrite !R1 in H. apply H.
  intros j Hj Hp. rewrite used_preds_nth by assumption.
  destruct (Qlt_bool 0 (nth j coefs 0)) eqn:E; [apply Hv; assumption|].
  apply Qlt_bool_f in E. lra.
Qed.
Theorem sl_predict_discrete m j preds :
  length preds = m -> (j < m)%nat -> sl_predict_l2 (one_hot m j) preds == nth j preds 0.
Proof.
  intros Hl Hj. unfold sl_predict_l2.
  assert (Hlc : length (one_hot m j) = length preds) by (unfold one_hot; rewrite map_length, seq_length; lia).
  rewrite lincomb_one_hot; [| rewrite used_preds_length by exact Hlc; unfold one_hot; rewrite map_length, seq_length; reflexivity | exact Hj].
  rewrite used_preds_nth; [| exact Hlc | rewrite Hlc; lia].
  rewrite one_hot_nth by exact Hj. rewrite Nat.eqb_refl. reflexivity.
Qed.
(* NLogLik: the combined log-odds are the same combination of the candidates' log-odds (whatever they are);
   discrete = the chosen candidate's own log-odds, hence its own (clipped) probability *)
Theorem sl_logodds_hull coefs logits lo hi :
  length coefs = length logits -> Forall (fun x => 0 <= x) coefs -> Qtotal coefs == 1 ->
  (forall j, (j < length coefs)%nat -> 0 < nth j coefs 0 -> lo <= nth j logits 0 <= hi) ->
  lo <= sl_logodds coefs logits <= hi.
Proof.
  intros Hl Hn Ht Hv. unfold sl_logodds. pose proof (lincomb_hull coefs logits lo hi Hl Hn Hv) as H.
  rewrite Ht in H. assert (forall x, x * 1 == x) as R1 by (intros; ring). rewrite !R1 in H. exact H.
Qed.
Theorem sl_logodds_discrete m j logits :
  length logits = m -> (j < m)%nat -> sl_logodds (one_hot m j) logits == nth j logits 0.
Proof. intros. unfold sl_logodds. apply lincomb_one_hot; assumption. Qed.
