From Coq Require Import QArith List Bool Arith Lia Lra Lqa.
From Zepid Require Import Base.QSum Base.QUtil Base.Rows.
Import ListNotations.
Open Scope Q_scope.

Lemma strata_nodup l : NoDup (strata l).
Proof. apply NoDup_nodup. Qed.
Lemma strata_cover l r : In r l -> In (st r) (strata l).
Proof. intros H. apply nodup_In. apply in_map. exact H. Qed.
Lemma in_cellrows s l r : In r (cellrows s l) <-> In r l /\ st r = s.
Proof. unfold cellrows, in_s. rewrite filter_In, Nat.eqb_eq. tauto. Qed.

(* regrouping a sum over rows by stratum *)
Lemma regroup (f : row -> Q) l : Qsum f l == Qsum (fun s => Qsum f (cellrows s l)) (strata l).
Proof.
  unfold cellrows, in_s. apply (Qsum_by_key st (strata l) f l); [apply strata_nodup|apply strata_cover].
Qed.

(* a factor that only depends on the stratum can be pulled out of the stratum's sum *)
Lemma regroup_kappa (k : nat -> Q) (f : row -> Q) l :
  Qsum (fun r => k (st r) * f r) l == Qsum (fun s => k s * Qsum f (cellrows s l)) (strata l).
Proof.
  rewrite regroup. apply Qsum_ext_all. intros s. rewrite <- Qsum_scal.
  apply Qsum_ext. intros r Hr. apply in_cellrows in Hr as [_ ->]. reflexivity.
Qed.

Lemma cell_ext s (f h : row -> Q) l :
  (forall r, In r l -> st r = s -> f r == h r) -> Qsum f (cellrows s l) == Qsum h (cellrows s l).
Proof. intros H. apply Qsum_ext. intros r Hr. apply in_cellrows in Hr as [Hi Hs]. apply H; assumption. Qed.

(* arms partition a stratum *)
Lemma Naw_split s l : Naw s true l + Naw s false l == Nw s l.
Proof.
  unfold Naw, Nw. rewrite <- Qsum_plus. apply Qsum_ext_all. intros r. unfold arm. destruct (trt r); simpl; ring.
Qed.

Lemma ybar_Nobs s a l : ~ Nobs s a l == 0 -> ybar s a l * Nobs s a l == Ysum s a l.
Proof. intros H. unfold ybar. field. exact H. Qed.

(* ---------------------------------------------------------------------------------------------
   Hajek (ratio) weighted arm mean with per-row total weight W, and its stratum form *)

Section Hajek.
Variable W : row -> Q.        (* total weight used by the estimator on a row *)
Variable k : nat -> Q.        (* what it must equal on arm a: wt r * k (st r) *)
Variable a : bool.
Variable l : list row.
Hypothesis HW : forall r, In r l -> trt r = a -> obs r = true -> W r == wt r * k (st r).

Lemma arm_num_strata : arm_num W a l == Qsum (fun s => k s * Ysum s a l) (strata l).
Proof.
  unfold arm_num, Ysum. rewrite <- (regroup_kappa k (fun r => ind (arm a r) * ind (obs r) * wt r * yval r) l).
  apply Qsum_ext. intros r Hr. unfold arm.
  destruct (Bool.eqb (trt r) a) eqn:Ea; [|simpl; ring].
  destruct (obs r) eqn:Eo; [|simpl; ring].
  apply eqb_prop in Ea. rewrite (HW r Hr Ea Eo). simpl. ring.
Qed.
Lemma arm_den_strata : arm_den W a l == Qsum (fun s => k s * Nobs s a l) (strata l).
Proof.
  unfold arm_den, Nobs. rewrite <- (regroup_kappa k (fun r => ind (arm a r) * ind (obs r) * wt r) l).
  apply Qsum_ext. intros r Hr. unfold arm.
  destruct (Bool.eqb (trt r) a) eqn:Ea; [|simpl; ring].
  destruct (obs r) eqn:Eo; [|simpl; ring].
  apply eqb_prop in Ea. rewrite (HW r Hr Ea Eo). simpl. ring.
Qed.

(* if k s * Nobs s a = C * T s (T the target weight of the stratum, C a non-zero constant of the arm)
   the Hajek mean is the standardised mean *)
Variable t : target.
Variable C : Q.
Hypothesis HC : ~ C == 0.
Hypothesis Hk : forall s, In s (strata l) -> k s * Nobs s a l == C * tw t s l.
Hypothesis Hpos : forall s, In s (strata l) -> ~ Nobs s a l == 0.
Hypothesis Htot : ~ Qsum (fun s => tw t s l) (strata l) == 0.

Theorem hajek_is_std : arm_mean W a l == std t a l.
Proof.
  unfold arm_mean, std. rewrite arm_num_strata, arm_den_strata.
  assert (E1 : Qsum (fun s => k s * Ysum s a l) (strata l) == C * Qsum (fun s => tw t s l * ybar s a l) (strata l)).
  { rewrite <- Qsum_scal. apply Qsum_ext. intros s Hs.
    rewrite <- (ybar_Nobs s a l (Hpos s Hs)).
    setoid_replace (k s * (ybar s a l * Nobs s a l)) with ((k s * Nobs s a l) * ybar s a l) by ring.
    rewrite (Hk s Hs). ring. }
  assert (E2 : Qsum (fun s => k s * Nobs s a l) (strata l) == C * Qsum (fun s => tw t s l) (strata l)).
  { rewrite <- Qsum_scal. apply Qsum_ext. intros s Hs. apply Hk. exact Hs. }
  rewrite E1, E2. field. split; assumption.
Qed.
End Hajek.
