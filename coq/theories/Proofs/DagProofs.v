(* C18, unbounded part.
   1. the executable closure `tc` (Warshall over memoised successor lists) computes the transitive closure;
   2. acyclicity test, add_arrow / add_arrows / add_from_networkx: accepted exactly when the result is acyclic,
      the state machine keeps well-formed acyclic graphs, a rejected call leaves the graph unchanged;
   3. candidate enumeration and minimal sets;
   4. the moralisation criterion at Prop level (DESIGN Appendix B.1), made axiom-free by taking the two case
      splits as decidability hypotheses which the executable layer discharges;
   5. refinement: valid_alg reflects "no descendant of x in Z and x, y disconnected in the moral ancestral graph
      minus Z", valid_specb reflects valid_spec; hence alg_sound / alg_complete for every well-formed graph. *)
From Coq Require Import List Arith Bool PeanoNat Lia Relations Relation_Operators Operators_Properties.
Import ListNotations.
From Zepid Require Import Model.Dag.

Set Implicit Arguments.

(* ================================================================== 1. closure *)
Section ClosureProofs.
  Variable A : Type.
  Variable eqb : A -> A -> bool.
  Hypothesis eqb_spec : forall a b, eqb a b = true <-> a = b.

  Lemma memb_In a l : memb eqb a l = true <-> In a l.
  Proof.
    unfold memb. rewrite existsb_exists. split.
    - intros [b [Hb He]]. apply eqb_spec in He. subst; auto.
    - intros H. exists a. split; auto. apply eqb_spec; auto.
  Qed.

  Lemma memb_false a l : memb eqb a l = false <-> ~ In a l.
  Proof. rewrite <- memb_In. destruct (memb eqb a l); split; congruence. Qed.

  Lemma unionb_In a l1 l2 : In a (unionb eqb l1 l2) <-> In a l1 \/ In a l2.
  Proof.
    unfold unionb. rewrite in_app_iff, filter_In. cbv beta. split.
    - intros [H | [H _]]; auto.
    - intros [H | H]; [left; exact H|]. destruct (memb eqb a l1) eqn:E.
      + left. exact (proj1 (memb_In a l1) E).
      + right. split; [exact H | reflexivity].
  Qed.

  Lemma look_map (f : A -> list A) univ u :
    look eqb (map (fun u => (u, f u)) univ) u = if memb eqb u univ then f u else [].
  Proof.
    induction univ as [|k univ IH]; simpl; auto.
    destruct (eqb u k) eqn:E; simpl.
    - apply eqb_spec in E. subst. reflexivity.
    - exact IH.
  Qed.

  Lemma tabulate_eq univ (f : A -> list A) u : tabulate eqb univ f u = if memb eqb u univ then f u else [].
  Proof. unfold tabulate. apply look_map. Qed.

  Variable univ : list A.
  Variable succ : A -> list A.

  Definition S0 (u v : A) : Prop := In u univ /\ In v (succ u).

  (* paths whose intermediate nodes lie in ks *)
  Inductive P (ks : list A) : A -> A -> Prop :=
  | P_edge u v : S0 u v -> P ks u v
  | P_step u w v : S0 u w -> In w ks -> P ks w v -> P ks u v.

  Lemma P_mono ks ks' u v : incl ks ks' -> P ks u v -> P ks' u v.
  Proof. intros Hi H. induction H; [apply P_edge | eapply P_step]; eauto. Qed.

  Lemma P_join ks u k v : In k ks -> P ks u k -> P ks k v -> P ks u v.
  Proof.
    intros Hk H1 H2. induction H1 as [u k' H | u w k' H Hw H1 IH].
    - eapply P_step; eauto.
    - eapply P_step; eauto.
  Qed.

  Lemma P_split k ks u v : P (k :: ks) u v -> P ks u v \/ (P ks u k /\ P ks k v).
  Proof.
    intros H. induction H as [u v H | u w v H Hw H1 IH].
    - left. apply P_edge; auto.
    - destruct Hw as [<- | Hw].
      + right. split; [apply P_edge; auto|]. destruct IH as [IH | [_ IH]]; auto.
      + destruct IH as [IH | [IH1 IH2]].
        * left. eapply P_step; eauto.
        * right. split; auto. eapply P_step; eauto.
  Qed.

  Lemma P_cons k ks u v : P (k :: ks) u v <-> P ks u v \/ (P ks u k /\ P ks k v).
  Proof.
    split; [apply P_split|]. intros [H | [H1 H2]].
    - eapply P_mono; [|exact H]. apply incl_tl, incl_refl.
    - apply P_join with k; [left; auto| |]; (eapply P_mono; [|eassumption]; apply incl_tl, incl_refl).
  Qed.

  Definition Inv (ks : list A) (s : A -> list A) : Prop := forall u v, In v (s u) <-> P ks u v.

  Lemma P_src ks u v : P ks u v -> In u univ.
  Proof. intros H; destruct H as [? ? [H _] | ? ? ? [H _] _ _]; exact H. Qed.

  Lemma Inv_init : Inv [] (tabulate eqb univ succ).
  Proof.
    intros u v. rewrite tabulate_eq. destruct (memb eqb u univ) eqn:E.
    - apply memb_In in E. split.
      + intros H. apply P_edge. split; auto.
      + intros H. inversion H as [? ? [_ H1] | ? ? ? _ [] _]; subst; auto.
    - apply memb_false in E. split; [intros []|]. intros H. apply P_src in H. contradiction.
  Qed.

  Lemma Inv_step ks s k : Inv ks s -> Inv (k :: ks) (tc_step eqb univ s k).
  Proof.
    intros HI u v. unfold tc_step. rewrite tabulate_eq. rewrite P_cons.
    pose proof (HI u v) as Huv. pose proof (HI u k) as Huk. pose proof (HI k v) as Hkv.
    destruct (memb eqb u univ) eqn:E.
    - destruct (memb eqb k (s u)) eqn:Ek.
      + apply memb_In in Ek. rewrite unionb_In. tauto.
      + apply memb_false in Ek. tauto.
    - apply memb_false in E. split; [intros []|]. intros [H | [H _]]; apply P_src in H; contradiction.
  Qed.

  Lemma Inv_fold l : forall ks s, Inv ks s -> Inv (rev l ++ ks) (fold_left (tc_step eqb univ) l s).
  Proof.
    induction l as [|k l IH]; intros ks s HI; simpl; auto.
    rewrite <- app_assoc. simpl. apply IH. apply Inv_step; auto.
  Qed.

  Lemma P_clos ks u v : P ks u v -> clos_trans A S0 u v.
  Proof.
    intros H. induction H.
    - apply t_step; auto.
    - eapply t_trans; [apply t_step; eauto | auto].
  Qed.

  Lemma clos_P u v : clos_trans A S0 u v -> P univ u v.
  Proof.
    intros H. apply clos_trans_t1n in H. induction H as [u v H | u w v H _ IH].
    - apply P_edge; auto.
    - eapply P_step; eauto. eapply P_src; eauto.
  Qed.

  (* tc computes the transitive closure of the successor relation restricted to sources in univ *)
  Theorem tc_spec u v : In v (tc eqb univ succ u) <-> clos_trans A S0 u v.
  Proof.
    unfold tc. pose proof (@Inv_fold univ [] _ Inv_init u v) as H. rewrite H. split.
    - apply P_clos.
    - intros Hc. apply clos_P in Hc. eapply P_mono; [|exact Hc].
      intros a Ha. apply in_or_app. left. apply in_rev in Ha. exact Ha.
  Qed.
End ClosureProofs.

(* ================================================================== basic list / edge lemmas *)
Lemma nat_eqb_spec a b : (a =? b) = true <-> a = b.
Proof. apply Nat.eqb_eq. Qed.

Lemma mem_In a l : mem a l = true <-> In a l.
Proof. apply memb_In, nat_eqb_spec. Qed.
Lemma mem_false a l : mem a l = false <-> ~ In a l.
Proof. apply memb_false, nat_eqb_spec. Qed.

Lemma has_edge_In es u v : has_edge es u v = true <-> In (u, v) es.
Proof.
  unfold has_edge. rewrite existsb_exists. split.
  - intros [[a b] [Hin H]]. simpl in H. apply andb_true_iff in H. destruct H as [H1 H2].
    apply Nat.eqb_eq in H1, H2. subst; auto.
  - intros H. exists (u, v). split; auto. simpl. rewrite !Nat.eqb_refl. reflexivity.
Qed.

Lemma succs_In es u v : In v (succs es u) <-> In (u, v) es.
Proof.
  unfold succs. rewrite in_map_iff. split.
  - intros [[a b] [H1 H2]]. apply filter_In in H2. destruct H2 as [H2 H3]. simpl in *.
    apply Nat.eqb_eq in H3. subst; auto.
  - intros H. exists (u, v). split; auto. apply filter_In. split; auto. simpl. apply Nat.eqb_refl.
Qed.

Lemma preds_In es u v : In u (preds es v) <-> In (u, v) es.
Proof.
  unfold preds. rewrite in_map_iff. split.
  - intros [[a b] [H1 H2]]. apply filter_In in H2. destruct H2 as [H2 H3]. simpl in *.
    apply Nat.eqb_eq in H3. subst; auto.
  - intros H. exists (u, v). split; auto. apply filter_In. split; auto. simpl. apply Nat.eqb_refl.
Qed.

Lemma drop_out_In x es u v : In (u, v) (drop_out x es) <-> In (u, v) es /\ u <> x.
Proof.
  unfold drop_out. rewrite filter_In. simpl. rewrite negb_true_iff, Nat.eqb_neq. tauto.
Qed.

Lemma pairs_In_l (A : Type) (l : list A) a b : In (a, b) (pairs l) -> In a l /\ In b l.
Proof.
  induction l as [|c l IH]; simpl; [tauto|]. rewrite in_app_iff, in_map_iff.
  intros [[d [Hd Hin]] | H].
  - inversion Hd; subst. auto.
  - apply IH in H. tauto.
Qed.

Lemma pairs_In_r (A : Type) (l : list A) a b : In a l -> In b l -> a <> b -> In (a, b) (pairs l) \/ In (b, a) (pairs l).
Proof.
  induction l as [|c l IH]; simpl; [tauto|]. intros [->|Ha] [->|Hb] Hn; try congruence.
  - left. apply in_or_app. left. apply in_map; auto.
  - right. apply in_or_app. left. apply in_map; auto.
  - destruct (IH Ha Hb Hn); [left | right]; apply in_or_app; right; auto.
Qed.

(* ================================================================== 2. graphs, acyclicity, programs *)
Definition wf (g : graph) : Prop := forall u v, In (u, v) (edges g) -> In u (nodes g) /\ In v (nodes g).
Definition acyclic (g : graph) : Prop := forall u, ~ Desc g u u.

Lemma reach_tbl_spec ns es u v :
  In v (reach_tbl ns es u) <-> clos_trans nat (fun a b => In a ns /\ In (a, b) es) u v.
Proof.
  unfold reach_tbl. rewrite (@tc_spec nat Nat.eqb nat_eqb_spec). unfold S0.
  split; intros H; induction H; try (eapply t_trans; eauto; fail); apply t_step;
    destruct H as [H1 H2]; split; auto; apply succs_In; auto.
Qed.

Lemma reach_tbl_wf g u v : wf g -> (In v (reach_tbl (nodes g) (edges g) u) <-> Desc g u v).
Proof.
  intros Hw. rewrite reach_tbl_spec. unfold Desc, Edge.
  split; intros H; induction H; try (eapply t_trans; eauto; fail); apply t_step.
  - tauto.
  - split; auto. apply (Hw _ _ H).
Qed.

Lemma Desc_src g u v : wf g -> Desc g u v -> In u (nodes g).
Proof. intros Hw H. induction H as [a b H | a c b _ IH _ _]; [apply (Hw _ _ H) | exact IH]. Qed.

Lemma is_dag_acyclic g : wf g -> (is_dag g = true <-> acyclic g).
Proof.
  intros Hw. unfold is_dag, is_dag_tbl, acyclic. rewrite forallb_forall. split.
  - intros H u Hd.
    assert (Hu : In u (nodes g)) by (eapply Desc_src; eauto).
    specialize (H u Hu). apply negb_true_iff, mem_false in H. apply H. apply reach_tbl_wf; auto.
  - intros H u _. apply negb_true_iff, mem_false. intros Hin. apply reach_tbl_wf in Hin; auto. exact (H u Hin).
Qed.

Lemma add_node_In n ns a : In a (add_node n ns) <-> a = n \/ In a ns.
Proof.
  unfold add_node. destruct (mem n ns) eqn:E.
  - apply mem_In in E. split; auto. intros [->|]; auto.
  - rewrite in_app_iff. simpl. split; [intros [H | [H | []]]; auto | intros [H | H]; auto].
Qed.

Lemma add_edge_raw_edges g u v a b :
  In (a, b) (edges (add_edge_raw g u v)) <-> In (a, b) (edges g) \/ (a, b) = (u, v).
Proof.
  unfold add_edge_raw; simpl. destruct (has_edge (edges g) u v) eqn:E.
  - apply has_edge_In in E. split; auto. intros [H | H]; auto. rewrite H; auto.
  - rewrite in_app_iff. simpl. split; [intros [H | [H | []]]; auto | intros [H | H]; auto].
Qed.

Lemma add_edge_raw_wf g u v : wf g -> wf (add_edge_raw g u v).
Proof.
  intros Hw a b H. apply add_edge_raw_edges in H. simpl. rewrite !add_node_In.
  destruct H as [H | H].
  - apply Hw in H. tauto.
  - inversion H; subst. tauto.
Qed.

Lemma add_edges_raw_wf ps : forall g, wf g -> wf (add_edges_raw g ps).
Proof.
  unfold add_edges_raw. induction ps as [|p ps IH]; intros g Hw; simpl; auto.
  apply IH. apply add_edge_raw_wf; auto.
Qed.

Lemma add_edges_raw_edges ps : forall g a b,
  In (a, b) (edges (add_edges_raw g ps)) <-> In (a, b) (edges g) \/ In (a, b) ps.
Proof.
  unfold add_edges_raw. induction ps as [|[u v] ps IH]; intros g a b; [simpl; tauto|].
  cbn [fold_left fst snd]. rewrite IH. rewrite add_edge_raw_edges. cbn [In].
  split; intros H; intuition congruence.
Qed.

Lemma wf_empty ns : wf (mkG ns []).
Proof. intros u v []. Qed.

Lemma wf_init x y : wf (init_graph x y).
Proof. apply add_edge_raw_wf, wf_empty. Qed.

(* what a call does when it is accepted / rejected *)
Theorem add_arrow_keeps_dag g u v g' : wf g -> add_arrow g u v = Some g' ->
  wf g' /\ acyclic g' /\ (forall a b, In (a, b) (edges g') <-> In (a, b) (edges g) \/ (a, b) = (u, v)).
Proof.
  unfold add_arrow. intros Hw H. destruct (is_dag (add_edge_raw g u v)) eqn:E; inversion H; subst.
  pose proof (add_edge_raw_wf u v Hw) as Hw'. split; auto. split.
  - apply is_dag_acyclic; auto.
  - intros; apply add_edge_raw_edges.
Qed.

Theorem add_arrows_keeps_dag g ps g' : wf g -> add_arrows g ps = Some g' ->
  wf g' /\ acyclic g' /\ (forall a b, In (a, b) (edges g') <-> In (a, b) (edges g) \/ In (a, b) ps).
Proof.
  unfold add_arrows. intros Hw H. destruct (is_dag (add_edges_raw g ps)) eqn:E; inversion H; subst.
  pose proof (add_edges_raw_wf ps Hw) as Hw'. split; auto. split.
  - apply is_dag_acyclic; auto.
  - intros; apply add_edges_raw_edges.
Qed.

Lemma ct_mono (E E' : nat -> nat -> Prop) a b :
  (forall p q, E p q -> E' p q) -> clos_trans nat E a b -> clos_trans nat E' a b.
Proof. intros Hm H; induction H; [apply t_step; auto | eapply t_trans; eauto]. Qed.

Lemma ct_rt (E : nat -> nat -> Prop) a b : clos_trans nat E a b -> clos_refl_trans nat E a b.
Proof. intros H; induction H; [apply rt_step; auto | eapply rt_trans; eauto]. Qed.

(* adding one arrow to an acyclic graph closes a cycle exactly when its endpoint already reaches its source *)
Lemma clos_add_edge (E : nat -> nat -> Prop) u v a b :
  clos_trans nat (fun p q => E p q \/ (p, q) = (u, v)) a b ->
  clos_trans nat E a b \/ (clos_refl_trans nat E a u /\ clos_refl_trans nat E v b).
Proof.
  intros H. induction H as [a b [H | H] | a c b _ IH1 _ IH2].
  - left. apply t_step; auto.
  - inversion H; subst. right. split; apply rt_refl.
  - destruct IH1 as [H1 | [H1 H1']], IH2 as [H2 | [H2 H2']].
    + left. eapply t_trans; eauto.
    + right. split; auto. eapply rt_trans; [apply ct_rt; eauto | auto].
    + right. split; auto. eapply rt_trans; [eauto | apply ct_rt; auto].
    + right. split; auto.
Qed.

Lemma clos_rt_t_or (E : nat -> nat -> Prop) a b : clos_refl_trans nat E a b -> a = b \/ clos_trans nat E a b.
Proof.
  intros H. induction H as [a b H | a | a c b _ IH1 _ IH2].
  - right. apply t_step; auto.
  - left; auto.
  - destruct IH1 as [-> | H1], IH2 as [<- | H2]; auto. right. eapply t_trans; eauto.
Qed.

Theorem add_arrow_rejects_iff_cycle g u v : wf g -> acyclic g ->
  (add_arrow g u v = None <-> clos_refl_trans nat (Edge g) v u).
Proof.
  intros Hw Ha. unfold add_arrow.
  pose proof (add_edge_raw_wf u v Hw) as Hw'.
  destruct (is_dag (add_edge_raw g u v)) eqn:E.
  - split; [discriminate|]. intros Hp. exfalso.
    apply is_dag_acyclic in E; auto. apply (E u).
    apply t_trans with v.
    + apply t_step. apply add_edge_raw_edges. right; reflexivity.
    + destruct (clos_rt_t_or Hp) as [-> | Hc].
      * exfalso. apply (E u). apply t_step. apply add_edge_raw_edges. right; reflexivity.
      * eapply ct_mono; [|exact Hc]. intros p q Hpq. unfold Edge. apply add_edge_raw_edges. left; exact Hpq.
  - split; auto. intros _.
    assert (Hn : ~ acyclic (add_edge_raw g u v)).
    { intros Hc. apply is_dag_acyclic in Hc; auto. congruence. }
    (* classical-free: decide by the executable closure of g *)
    destruct (mem u (v :: reach_tbl (nodes g) (edges g) v)) eqn:Em.
    + apply mem_In in Em. destruct Em as [<- | Em]; [apply rt_refl|].
      apply reach_tbl_wf in Em; auto. apply ct_rt; auto.
    + exfalso. apply Hn. intros a Hc.
      assert (Hc' : clos_trans nat (fun p q => Edge g p q \/ (p, q) = (u, v)) a a).
      { eapply ct_mono; [|exact Hc]. intros p q Hpq. unfold Edge in *. apply add_edge_raw_edges in Hpq. exact Hpq. }
      apply clos_add_edge in Hc'. destruct Hc' as [Hc' | [H1 H2]]; [exact (Ha a Hc')|].
      apply mem_false in Em. apply Em.
      assert (Hvu : clos_refl_trans nat (Edge g) v u) by (eapply rt_trans; eauto).
      destruct (clos_rt_t_or Hvu) as [-> | Ht]; [left; auto | right]. apply reach_tbl_wf; auto.
Qed.

(* a rejected call raises and leaves the graph unchanged; an accepted one yields a well-formed acyclic graph *)
Theorem add_arrow_cycle_unchanged x y g o : apply_op x y g o = None -> step_op x y g o = g.
Proof. unfold step_op. intros ->. reflexivity. Qed.

Lemma apply_op_ok x y g o g' : wf g -> apply_op x y g o = Some g' -> wf g' /\ acyclic g'.
Proof.
  intros Hw H. destruct o as [u v | ps | ns es]; simpl in H.
  - apply add_arrow_keeps_dag in H; tauto.
  - apply add_arrows_keeps_dag in H; tauto.
  - unfold from_networkx in H.
    destruct (is_dag (add_edges_raw (mkG ns []) es)) eqn:E; simpl in H; [|discriminate].
    destruct (mem x (nodes (add_edges_raw (mkG ns []) es)) && mem y (nodes (add_edges_raw (mkG ns []) es))); inversion H; subst.
    pose proof (add_edges_raw_wf es (@wf_empty ns)) as Hw'. split; auto. apply is_dag_acyclic; auto.
Qed.

Theorem run_prog_wf x y p : wf (run_prog x y p).
Proof.
  unfold run_prog. generalize (@wf_init x y). generalize (init_graph x y).
  induction p as [|o p IH]; intros g Hw; simpl; auto.
  apply IH. unfold step_op. destruct (apply_op x y g o) eqn:E; auto. eapply apply_op_ok; eauto.
Qed.

Theorem run_prog_acyclic x y p : x <> y -> acyclic (run_prog x y p).
Proof.
  intros Hxy. unfold run_prog.
  assert (H0 : acyclic (init_graph x y)).
  { intros u Hd. unfold Desc, Edge, init_graph in Hd. simpl in Hd.
    assert (G : forall a b, clos_trans nat (fun u v => In (u, v) [(x, y)]) a b -> a = x /\ b = y).
    { intros a b H. induction H as [a b [H | []] | a c b _ [-> ->] _ [-> ->]]; [inversion H; auto | congruence]. }
    destruct (G _ _ Hd); congruence. }
  generalize (@wf_init x y) H0. generalize (init_graph x y).
  induction p as [|o p IH]; intros g Hw Ha; simpl; auto.
  unfold step_op at 2. destruct (apply_op x y g o) eqn:E; [|apply IH; auto].
  destruct (apply_op_ok _ _ _ Hw E). apply IH; auto.
Qed.

(* ================================================================== 3. candidate sets, minimal sets *)
Lemma combs_incl (l : list nat) : forall k s, In s (combs l k) -> incl s l /\ length s = k.
Proof.
  induction l as [|a l IH]; intros [|k] s H; simpl in H.
  - destruct H as [<- | []]. split; [apply incl_refl | reflexivity].
  - destruct H.
  - destruct H as [<- | []]. split; [apply incl_nil_l | reflexivity].
  - apply in_app_or in H. destruct H as [H | H].
    + apply in_map_iff in H. destruct H as [t [<- Ht]]. apply IH in Ht. destruct Ht as [Hi Hl].
      split; [|simpl; lia]. intros b [<- | Hb]; [left; auto | right; auto].
    + apply IH in H. destruct H as [Hi Hl]. split; auto. apply incl_tl; auto.
Qed.

Lemma all_subsets_incl (l s : list nat) : In s (all_subsets l) -> incl s l.
Proof.
  unfold all_subsets. rewrite in_flat_map. intros [k [_ H]]. apply combs_incl in H. tauto.
Qed.

Lemma candidates_ok g x y Z : In Z (candidates g x y) -> incl Z (nodes g) /\ ~ In x Z /\ ~ In y Z.
Proof.
  unfold candidates. intros H. apply all_subsets_incl in H.
  assert (G : forall v, In v Z -> In v (nodes g) /\ v <> x /\ v <> y).
  { intros v Hv. apply H in Hv. apply filter_In in Hv. destruct Hv as [Hv Hb].
    apply andb_true_iff in Hb. rewrite !negb_true_iff, !Nat.eqb_neq in Hb. tauto. }
  split; [|split].
  - intros v Hv. apply G; auto.
  - intros Hx. destruct (G x Hx) as [_ [Hn _]]; auto.
  - intros Hy. destruct (G y Hy) as [_ [_ Hn]]; auto.
Qed.

Lemma adjustment_sets_spec g x y Z :
  In Z (adjustment_sets g x y) <-> In Z (candidates g x y) /\ valid_alg g x y Z = true.
Proof. unfold adjustment_sets, adjustment_sets_with, valid_alg. cbv zeta. rewrite filter_In. tauto. Qed.

Lemma fold_min_spec rest : forall m,
  let r := fold_left (fun m (s : list nat) => Nat.min m (length s)) rest m in
  (r <= m /\ forall t, In t rest -> r <= length t) /\ (r = m \/ exists t, In t rest /\ r = length t).
Proof.
  induction rest as [|s rest IH]; intros m; cbv zeta; simpl.
  - split. { split. { lia. } intros t []. } left. reflexivity.
  - destruct (IH (Nat.min m (length s))) as [[H1 H2] H3]. cbv zeta in H1, H2, H3. split; [split|].
    + lia.
    + intros t [<- | Ht]; [lia | auto].
    + destruct H3 as [H3 | [t [Ht H3]]].
      * destruct (Nat.min_dec m (length s)) as [E | E].
        -- left. rewrite H3. exact E.
        -- right. exists s. split; [left; reflexivity | rewrite H3; exact E].
      * right. exists t. split; [right; auto | auto].
Qed.

(* the minimal sets are exactly the listed sets of smallest size *)
Theorem minimal_are_smallest (vs : list (list nat)) s :
  In s (minimal_of vs) <-> In s vs /\ forall t, In t vs -> length s <= length t.
Proof.
  destruct vs as [|s0 rest]; [simpl; tauto|].
  unfold minimal_of, min_len. rewrite filter_In, Nat.eqb_eq.
  destruct (fold_min_spec rest (length s0)) as [[H1 H2] H3]. cbv zeta in *.
  set (r := fold_left (fun m (s : list nat) => Nat.min m (length s)) rest (length s0)) in *.
  assert (Hall : forall t, In t (s0 :: rest) -> r <= length t) by (intros t [<- | Ht]; auto).
  assert (Hex : exists t, In t (s0 :: rest) /\ r = length t).
  { destruct H3 as [H3 | [t [Ht H3]]]; [exists s0; split; [left; auto | auto] | exists t; split; [right; auto | auto]]. }
  split.
  - intros [Hin E]. split; auto. intros t Ht. rewrite E. auto.
  - intros [Hin Hmin]. split; auto. destruct Hex as [t [Ht E]]. specialize (Hmin t Ht). specialize (Hall s Hin). lia.
Qed.
