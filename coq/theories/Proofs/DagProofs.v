(* C18, unbounded part (under construction) *)
From Coq Require Import List Arith Bool PeanoNat Lia Relations.
Import ListNotations.
From Zepid Require Import Model.Dag.
