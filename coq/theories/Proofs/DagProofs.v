(* C18, unbounded part (no axioms: Print Assumptions reports "closed under the global context").
   1. the executable closure `tc` (Warshall over memoised successor lists) computes the transitive closure
      (tc_spec; proof by structural induction on the list of allowed intermediate nodes -- no cardinality argument);
   2. acyclicity test; add_arrow / add_arrows / add_from_networkx are accepted exactly when the result is acyclic,
      add_arrow is rejected iff its endpoint already reaches its source, every program keeps a well-formed
      acyclic graph containing exposure and outcome, a rejected call leaves the graph unchanged;
   3. candidate enumeration (sound and complete for sub-lists) and minimal sets (minimal_are_smallest);
   4. the moralisation criterion at Prop level (DESIGN Appendix B.1: chain invariant for soundness,
      descend / climb redirects for completeness); its two classical case splits are decidability hypotheses
      here, discharged in 5 from the executable closures;
   5. refinement: valid_alg = true  <->  no descendant of x in Z and x, y disconnected in the moral graph of
      the ancestral set minus Z (ancestors are taken in the ORIGINAL graph by the code and in the graph without
      x's out-arrows by the criterion: lemma AG_AH shows the two sets coincide because x itself is a target);
      valid_specb = true <-> valid_spec (closure over walk states = active walks);
   6. alg_sound, alg_complete, adjustment_sets_exact (for every well-formed graph and for every program). *)
From Coq Require Import List Arith Bool PeanoNat Lia Relations Relation_Operators Operators_Properties.
Import ListNotations.
From Zepid Require Import Model.Dag.

Set Implicit Arguments.

(* ================================================================== 1. closure *)
Section ClosureProofs.
  Variable A : Type.
  Variable eqb : A -> A -> bool.
  Hypothesis eqb_spec : forall a b, eqb a b = true <-> a = b.

  Lemma memb_In a l : memb eqb a l = true <-> In a l.
  Proof.
    unfold memb. rewrite existsb_exists. split.
    - intros [b [Hb He]]. apply eqb_spec in He. subst; auto.
    - intros H. exists a. split; auto. apply eqb_spec; auto.
  Qed.

  Lemma memb_false a l : memb eqb a l = false <-> ~ In a l.
  Proof. rewrite <- memb_In. destruct (memb eqb a l); split; congruence. Qed.

  Lemma unionb_In a l1 l2 : In a (unionb eqb l1 l2) <-> In a l1 \/ In a l2.
  Proof.
    unfold unionb. rewrite in_app_iff, filter_In. cbv beta. split.
    - intros [H | [H _]]; auto.
    - intros [H | H]; [left; exact H|]. destruct (memb eqb a l1) eqn:E.
      + left. exact (proj1 (memb_In a l1) E).
      + right. split; [exact H | reflexivity].
  Qed.

  Lemma look_map (f : A -> list A) univ u :
    look eqb (map (fun u => (u, f u)) univ) u = if memb eqb u univ then f u else [].
  Proof.
    induction univ as [|k univ IH]; simpl; auto.
    destruct (eqb u k) eqn:E; simpl.
    - apply eqb_spec in E. subst. reflexivity.
    - exact IH.
  Qed.

  Lemma tabulate_eq univ (f : A -> list A) u : tabulate eqb univ f u = if memb eqb u univ then f u else [].
  Proof. unfold tabulate. apply look_map. Qed.

  Variable univ : list A.
  Variable succ : A -> list A.

  Definition S0 (u v : A) : Prop := In u univ /\ In v (succ u).

  (* paths whose intermediate nodes lie in ks *)
  Inductive P (ks : list A) : A -> A -> Prop :=
  | P_edge u v : S0 u v -> P ks u v
  | P_step u w v : S0 u w -> In w ks -> P ks w v -> P ks u v.

  Lemma P_mono ks ks' u v : incl ks ks' -> P ks u v -> P ks' u v.
  Proof. intros Hi H. induction H; [apply P_edge | eapply P_step]; eauto. Qed.

  Lemma P_join ks u k v : In k ks -> P ks u k -> P ks k v -> P ks u v.
  Proof.
    intros Hk H1 H2. induction H1 as [u k' H | u w k' H Hw H1 IH].
    - eapply P_step; eauto.
    - eapply P_step; eauto.
  Qed.

  Lemma P_split k ks u v : P (k :: ks) u v -> P ks u v \/ (P ks u k /\ P ks k v).
  Proof.
    intros H. induction H as [u v H | u w v H Hw H1 IH].
    - left. apply P_edge; auto.
    - destruct Hw as [<- | Hw].
      + right. split; [apply P_edge; auto|]. destruct IH as [IH | [_ IH]]; auto.
      + destruct IH as [IH | [IH1 IH2]].
        * left. eapply P_step; eauto.
        * right. split; auto. eapply P_step; eauto.
  Qed.

  Lemma P_cons k ks u v : P (k :: ks) u v <-> P ks u v \/ (P ks u k /\ P ks k v).
  Proof.
    split; [apply P_split|]. intros [H | [H1 H2]].
    - eapply P_mono; [|exact H]. apply incl_tl, incl_refl.
    - apply P_join with k; [left; auto| |]; (eapply P_mono; [|eassumption]; apply incl_tl, incl_refl).
  Qed.

  Definition Inv (ks : list A) (s : A -> list A) : Prop := forall u v, In v (s u) <-> P ks u v.

  Lemma P_src ks u v : P ks u v -> In u univ.
  Proof. intros H; destruct H as [? ? [H _] | ? ? ? [H _] _ _]; exact H. Qed.

  Lemma Inv_init : Inv [] (tabulate eqb univ succ).
  Proof.
    intros u v. rewrite tabulate_eq. destruct (memb eqb u univ) eqn:E.
    - apply memb_In in E. split.
      + intros H. apply P_edge. split; auto.
      + intros H. inversion H as [? ? [_ H1] | ? ? ? _ [] _]; subst; auto.
    - apply memb_false in E. split; [intros []|]. intros H. apply P_src in H. contradiction.
  Qed.

  Lemma Inv_step ks s k : Inv ks s -> Inv (k :: ks) (tc_step eqb univ s k).
  Proof.
    intros HI u v. unfold tc_step. rewrite tabulate_eq. rewrite P_cons.
    pose proof (HI u v) as Huv. pose proof (HI u k) as Huk. pose proof (HI k v) as Hkv.
    destruct (memb eqb u univ) eqn:E.
    - destruct (memb eqb k (s u)) eqn:Ek.
      + apply memb_In in Ek. rewrite unionb_In. tauto.
      + apply memb_false in Ek. tauto.
    - apply memb_false in E. split; [intros []|]. intros [H | [H _]]; apply P_src in H; contradiction.
  Qed.

  Lemma Inv_fold l : forall ks s, Inv ks s -> Inv (rev l ++ ks) (fold_left (tc_step eqb univ) l s).
  Proof.
    induction l as [|k l IH]; intros ks s HI; simpl; auto.
    rewrite <- app_assoc. simpl. apply IH. apply Inv_step; auto.
  Qed.

  Lemma P_clos ks u v : P ks u v -> clos_trans A S0 u v.
  Proof.
    intros H. induction H.
    - apply t_step; auto.
    - eapply t_trans; [apply t_step; eauto | auto].
  Qed.

  Lemma clos_P u v : clos_trans A S0 u v -> P univ u v.
  Proof.
    intros H. apply clos_trans_t1n in H. induction H as [u v H | u w v H _ IH].
    - apply P_edge; auto.
    - eapply P_step; eauto. eapply P_src; eauto.
  Qed.

  (* tc computes the transitive closure of the successor relation restricted to sources in univ *)
  Theorem tc_spec u v : In v (tc eqb univ succ u) <-> clos_trans A S0 u v.
  Proof.
    unfold tc. pose proof (@Inv_fold univ [] _ Inv_init u v) as H. rewrite H. split.
    - apply P_clos.
    - intros Hc. apply clos_P in Hc. eapply P_mono; [|exact Hc].
      intros a Ha. apply in_or_app. left. apply in_rev in Ha. exact Ha.
  Qed.
End ClosureProofs.

(* ================================================================== basic list / edge lemmas *)
Lemma nat_eqb_spec a b : (a =? b) = true <-> a = b.
Proof. apply Nat.eqb_eq. Qed.

Lemma mem_In a l : mem a l = true <-> In a l.
Proof. apply memb_In, nat_eqb_spec. Qed.
Lemma mem_false a l : mem a l = false <-> ~ In a l.
Proof. apply memb_false, nat_eqb_spec. Qed.

Lemma has_edge_In es u v : has_edge es u v = true <-> In (u, v) es.
Proof.
  unfold has_edge. rewrite existsb_exists. split.
  - intros [[a b] [Hin H]]. simpl in H. apply andb_true_iff in H. destruct H as [H1 H2].
    apply Nat.eqb_eq in H1, H2. subst; auto.
  - intros H. exists (u, v). split; auto. simpl. rewrite !Nat.eqb_refl. reflexivity.
Qed.

Lemma succs_In es u v : In v (succs es u) <-> In (u, v) es.
Proof.
  unfold succs. rewrite in_map_iff. split.
  - intros [[a b] [H1 H2]]. apply filter_In in H2. destruct H2 as [H2 H3]. simpl in *.
    apply Nat.eqb_eq in H3. subst; auto.
  - intros H. exists (u, v). split; auto. apply filter_In. split; auto. simpl. apply Nat.eqb_refl.
Qed.

Lemma preds_In es u v : In u (preds es v) <-> In (u, v) es.
Proof.
  unfold preds. rewrite in_map_iff. split.
  - intros [[a b] [H1 H2]]. apply filter_In in H2. destruct H2 as [H2 H3]. simpl in *.
    apply Nat.eqb_eq in H3. subst; auto.
  - intros H. exists (u, v). split; auto. apply filter_In. split; auto. simpl. apply Nat.eqb_refl.
Qed.

Lemma drop_out_In x es u v : In (u, v) (drop_out x es) <-> In (u, v) es /\ u <> x.
Proof.
  unfold drop_out. rewrite filter_In. simpl. rewrite negb_true_iff, Nat.eqb_neq. tauto.
Qed.

Lemma pairs_In_l (A : Type) (l : list A) a b : In (a, b) (pairs l) -> In a l /\ In b l.
Proof.
  induction l as [|c l IH]; simpl; [tauto|]. rewrite in_app_iff, in_map_iff.
  intros [[d [Hd Hin]] | H].
  - inversion Hd; subst. auto.
  - apply IH in H. tauto.
Qed.

Lemma pairs_In_r (A : Type) (l : list A) a b : In a l -> In b l -> a <> b -> In (a, b) (pairs l) \/ In (b, a) (pairs l).
Proof.
  induction l as [|c l IH]; simpl; [tauto|]. intros [->|Ha] [->|Hb] Hn; try congruence.
  - left. apply in_or_app. left. apply in_map; auto.
  - right. apply in_or_app. left. apply in_map; auto.
  - destruct (IH Ha Hb Hn); [left | right]; apply in_or_app; right; auto.
Qed.

(* ================================================================== 2. graphs, acyclicity, programs *)
Definition wf (g : graph) : Prop := forall u v, In (u, v) (edges g) -> In u (nodes g) /\ In v (nodes g).
Definition acyclic (g : graph) : Prop := forall u, ~ Desc g u u.

Lemma reach_tbl_spec ns es u v :
  In v (reach_tbl ns es u) <-> clos_trans nat (fun a b => In a ns /\ In (a, b) es) u v.
Proof.
  unfold reach_tbl. rewrite (@tc_spec nat Nat.eqb nat_eqb_spec). unfold S0.
  split; intros H; induction H; try (eapply t_trans; eauto; fail); apply t_step;
    destruct H as [H1 H2]; split; auto; apply succs_In; auto.
Qed.

Lemma reach_tbl_wf g u v : wf g -> (In v (reach_tbl (nodes g) (edges g) u) <-> Desc g u v).
Proof.
  intros Hw. rewrite reach_tbl_spec. unfold Desc, Edge.
  split; intros H; induction H; try (eapply t_trans; eauto; fail); apply t_step.
  - tauto.
  - split; auto. apply (Hw _ _ H).
Qed.

Lemma Desc_src g u v : wf g -> Desc g u v -> In u (nodes g).
Proof. intros Hw H. induction H as [a b H | a c b _ IH _ _]; [apply (Hw _ _ H) | exact IH]. Qed.

Lemma is_dag_acyclic g : wf g -> (is_dag g = true <-> acyclic g).
Proof.
  intros Hw. unfold is_dag, is_dag_tbl, acyclic. rewrite forallb_forall. split.
  - intros H u Hd.
    assert (Hu : In u (nodes g)) by (eapply Desc_src; eauto).
    specialize (H u Hu). apply negb_true_iff, mem_false in H. apply H. apply reach_tbl_wf; auto.
  - intros H u _. apply negb_true_iff, mem_false. intros Hin. apply reach_tbl_wf in Hin; auto. exact (H u Hin).
Qed.

Lemma add_node_In n ns a : In a (add_node n ns) <-> a = n \/ In a ns.
Proof.
  unfold add_node. destruct (mem n ns) eqn:E.
  - apply mem_In in E. split; auto. intros [->|]; auto.
  - rewrite in_app_iff. simpl. split; [intros [H | [H | []]]; auto | intros [H | H]; auto].
Qed.

Lemma add_edge_raw_edges g u v a b :
  In (a, b) (edges (add_edge_raw g u v)) <-> In (a, b) (edges g) \/ (a, b) = (u, v).
Proof.
  unfold add_edge_raw; simpl. destruct (has_edge (edges g) u v) eqn:E.
  - apply has_edge_In in E. split; auto. intros [H | H]; auto. rewrite H; auto.
  - rewrite in_app_iff. simpl. split; [intros [H | [H | []]]; auto | intros [H | H]; auto].
Qed.

Lemma add_edge_raw_wf g u v : wf g -> wf (add_edge_raw g u v).
Proof.
  intros Hw a b H. apply add_edge_raw_edges in H. simpl. rewrite !add_node_In.
  destruct H as [H | H].
  - apply Hw in H. tauto.
  - inversion H; subst. tauto.
Qed.

Lemma add_edges_raw_wf ps : forall g, wf g -> wf (add_edges_raw g ps).
Proof.
  unfold add_edges_raw. induction ps as [|p ps IH]; intros g Hw; simpl; auto.
  apply IH. apply add_edge_raw_wf; auto.
Qed.

Lemma add_edges_raw_edges ps : forall g a b,
  In (a, b) (edges (add_edges_raw g ps)) <-> In (a, b) (edges g) \/ In (a, b) ps.
Proof.
  unfold add_edges_raw. induction ps as [|[u v] ps IH]; intros g a b; [simpl; tauto|].
  cbn [fold_left fst snd]. rewrite IH. rewrite add_edge_raw_edges. cbn [In].
  split; intros H; intuition congruence.
Qed.

Lemma wf_empty ns : wf (mkG ns []).
Proof. intros u v []. Qed.

Lemma wf_init x y : wf (init_graph x y).
Proof. apply add_edge_raw_wf, wf_empty. Qed.

(* what a call does when it is accepted / rejected *)
Theorem add_arrow_keeps_dag g u v g' : wf g -> add_arrow g u v = Some g' ->
  wf g' /\ acyclic g' /\ (forall a b, In (a, b) (edges g') <-> In (a, b) (edges g) \/ (a, b) = (u, v)).
Proof.
  unfold add_arrow. intros Hw H. destruct (is_dag (add_edge_raw g u v)) eqn:E; inversion H; subst.
  pose proof (add_edge_raw_wf u v Hw) as Hw'. split; auto. split.
  - apply is_dag_acyclic; auto.
  - intros; apply add_edge_raw_edges.
Qed.

Theorem add_arrows_keeps_dag g ps g' : wf g -> add_arrows g ps = Some g' ->
  wf g' /\ acyclic g' /\ (forall a b, In (a, b) (edges g') <-> In (a, b) (edges g) \/ In (a, b) ps).
Proof.
  unfold add_arrows. intros Hw H. destruct (is_dag (add_edges_raw g ps)) eqn:E; inversion H; subst.
  pose proof (add_edges_raw_wf ps Hw) as Hw'. split; auto. split.
  - apply is_dag_acyclic; auto.
  - intros; apply add_edges_raw_edges.
Qed.

Lemma ct_mono (E E' : nat -> nat -> Prop) a b :
  (forall p q, E p q -> E' p q) -> clos_trans nat E a b -> clos_trans nat E' a b.
Proof. intros Hm H; induction H; [apply t_step; auto | eapply t_trans; eauto]. Qed.

Lemma ct_rt (E : nat -> nat -> Prop) a b : clos_trans nat E a b -> clos_refl_trans nat E a b.
Proof. intros H; induction H; [apply rt_step; auto | eapply rt_trans; eauto]. Qed.

(* adding one arrow to an acyclic graph closes a cycle exactly when its endpoint already reaches its source *)
Lemma clos_add_edge (E : nat -> nat -> Prop) u v a b :
  clos_trans nat (fun p q => E p q \/ (p, q) = (u, v)) a b ->
  clos_trans nat E a b \/ (clos_refl_trans nat E a u /\ clos_refl_trans nat E v b).
Proof.
  intros H. induction H as [a b [H | H] | a c b _ IH1 _ IH2].
  - left. apply t_step; auto.
  - inversion H; subst. right. split; apply rt_refl.
  - destruct IH1 as [H1 | [H1 H1']], IH2 as [H2 | [H2 H2']].
    + left. eapply t_trans; eauto.
    + right. split; auto. eapply rt_trans; [apply ct_rt; eauto | auto].
    + right. split; auto. eapply rt_trans; [eauto | apply ct_rt; auto].
    + right. split; auto.
Qed.

Lemma clos_rt_t_or (E : nat -> nat -> Prop) a b : clos_refl_trans nat E a b -> a = b \/ clos_trans nat E a b.
Proof.
  intros H. induction H as [a b H | a | a c b _ IH1 _ IH2].
  - right. apply t_step; auto.
  - left; auto.
  - destruct IH1 as [-> | H1], IH2 as [<- | H2]; auto. right. eapply t_trans; eauto.
Qed.

Theorem add_arrow_rejects_iff_cycle g u v : wf g -> acyclic g ->
  (add_arrow g u v = None <-> clos_refl_trans nat (Edge g) v u).
Proof.
  intros Hw Ha. unfold add_arrow.
  pose proof (add_edge_raw_wf u v Hw) as Hw'.
  destruct (is_dag (add_edge_raw g u v)) eqn:E.
  - split; [discriminate|]. intros Hp. exfalso.
    apply is_dag_acyclic in E; auto. apply (E u).
    apply t_trans with v.
    + apply t_step. apply add_edge_raw_edges. right; reflexivity.
    + destruct (clos_rt_t_or Hp) as [-> | Hc].
      * exfalso. apply (E u). apply t_step. apply add_edge_raw_edges. right; reflexivity.
      * eapply ct_mono; [|exact Hc]. intros p q Hpq. unfold Edge. apply add_edge_raw_edges. left; exact Hpq.
  - split; auto. intros _.
    assert (Hn : ~ acyclic (add_edge_raw g u v)).
    { intros Hc. apply is_dag_acyclic in Hc; auto. congruence. }
    (* classical-free: decide by the executable closure of g *)
    destruct (mem u (v :: reach_tbl (nodes g) (edges g) v)) eqn:Em.
    + apply mem_In in Em. destruct Em as [<- | Em]; [apply rt_refl|].
      apply reach_tbl_wf in Em; auto. apply ct_rt; auto.
    + exfalso. apply Hn. intros a Hc.
      assert (Hc' : clos_trans nat (fun p q => Edge g p q \/ (p, q) = (u, v)) a a).
      { eapply ct_mono; [|exact Hc]. intros p q Hpq. unfold Edge in *. apply add_edge_raw_edges in Hpq. exact Hpq. }
      apply clos_add_edge in Hc'. destruct Hc' as [Hc' | [H1 H2]]; [exact (Ha a Hc')|].
      apply mem_false in Em. apply Em.
      assert (Hvu : clos_refl_trans nat (Edge g) v u) by (eapply rt_trans; eauto).
      destruct (clos_rt_t_or Hvu) as [-> | Ht]; [left; auto | right]. apply reach_tbl_wf; auto.
Qed.

(* a rejected call raises and leaves the graph unchanged; an accepted one yields a well-formed acyclic graph *)
Theorem add_arrow_cycle_unchanged x y g o : apply_op x y g o = None -> step_op x y g o = g.
Proof. unfold step_op. intros ->. reflexivity. Qed.

Lemma apply_op_ok x y g o g' : wf g -> apply_op x y g o = Some g' -> wf g' /\ acyclic g'.
Proof.
  intros Hw H. destruct o as [u v | ps | ns es]; simpl in H.
  - apply add_arrow_keeps_dag in H; tauto.
  - apply add_arrows_keeps_dag in H; tauto.
  - unfold from_networkx in H.
    destruct (is_dag (add_edges_raw (mkG ns []) es)) eqn:E; simpl in H; [|discriminate].
    destruct (mem x (nodes (add_edges_raw (mkG ns []) es)) && mem y (nodes (add_edges_raw (mkG ns []) es))); inversion H; subst.
    pose proof (add_edges_raw_wf es (@wf_empty ns)) as Hw'. split; auto. apply is_dag_acyclic; auto.
Qed.

Theorem run_prog_wf x y p : wf (run_prog x y p).
Proof.
  unfold run_prog. generalize (@wf_init x y). generalize (init_graph x y).
  induction p as [|o p IH]; intros g Hw; simpl; auto.
  apply IH. unfold step_op. destruct (apply_op x y g o) eqn:E; auto. eapply apply_op_ok; eauto.
Qed.

Theorem run_prog_acyclic x y p : x <> y -> acyclic (run_prog x y p).
Proof.
  intros Hxy. unfold run_prog.
  assert (H0 : acyclic (init_graph x y)).
  { intros u Hd. unfold Desc, Edge, init_graph in Hd. simpl in Hd.
    assert (G : forall a b, clos_trans nat (fun u v => In (u, v) [(x, y)]) a b -> a = x /\ b = y).
    { intros a b H. induction H as [a b [H | []] | a c b _ [-> ->] _ [-> ->]]; [inversion H; auto | congruence]. }
    destruct (G _ _ Hd); congruence. }
  generalize (@wf_init x y) H0. generalize (init_graph x y).
  induction p as [|o p IH]; intros g Hw Ha; simpl; auto.
  unfold step_op at 2. destruct (apply_op x y g o) eqn:E; [|apply IH; auto].
  destruct (apply_op_ok _ _ _ Hw E). apply IH; auto.
Qed.

(* ================================================================== 3. candidate sets, minimal sets *)
Lemma combs_incl (l : list nat) : forall k s, In s (combs l k) -> incl s l /\ length s = k.
Proof.
  induction l as [|a l IH]; intros [|k] s H; simpl in H.
  - destruct H as [<- | []]. split; [apply incl_refl | reflexivity].
  - destruct H.
  - destruct H as [<- | []]. split; [apply incl_nil_l | reflexivity].
  - apply in_app_or in H. destruct H as [H | H].
    + apply in_map_iff in H. destruct H as [t [<- Ht]]. apply IH in Ht. destruct Ht as [Hi Hl].
      split; [|simpl; lia]. intros b [<- | Hb]; [left; auto | right; auto].
    + apply IH in H. destruct H as [Hi Hl]. split; auto. apply incl_tl; auto.
Qed.

Lemma all_subsets_incl (l s : list nat) : In s (all_subsets l) -> incl s l.
Proof.
  unfold all_subsets. rewrite in_flat_map. intros [k [_ H]]. apply combs_incl in H. tauto.
Qed.

Lemma candidates_ok g x y Z : In Z (candidates g x y) -> incl Z (nodes g) /\ ~ In x Z /\ ~ In y Z.
Proof.
  unfold candidates. intros H. apply all_subsets_incl in H.
  assert (G : forall v, In v Z -> In v (nodes g) /\ v <> x /\ v <> y).
  { intros v Hv. apply H in Hv. apply filter_In in Hv. destruct Hv as [Hv Hb].
    apply andb_true_iff in Hb. rewrite !negb_true_iff, !Nat.eqb_neq in Hb. tauto. }
  split; [|split].
  - intros v Hv. apply G; auto.
  - intros Hx. destruct (G x Hx) as [_ [Hn _]]; auto.
  - intros Hy. destruct (G y Hy) as [_ [_ Hn]]; auto.
Qed.

Lemma adjustment_sets_spec g x y Z :
  In Z (adjustment_sets g x y) <-> In Z (candidates g x y) /\ valid_alg g x y Z = true.
Proof. unfold adjustment_sets, adjustment_sets_with, valid_alg. cbv zeta. rewrite filter_In. tauto. Qed.

Lemma fold_min_spec rest : forall m,
  let r := fold_left (fun m (s : list nat) => Nat.min m (length s)) rest m in
  (r <= m /\ forall t, In t rest -> r <= length t) /\ (r = m \/ exists t, In t rest /\ r = length t).
Proof.
  induction rest as [|s rest IH]; intros m; cbv zeta; simpl.
  - split. { split. { lia. } intros t []. } left. reflexivity.
  - destruct (IH (Nat.min m (length s))) as [[H1 H2] H3]. cbv zeta in H1, H2, H3. split; [split|].
    + lia.
    + intros t [<- | Ht]; [lia | auto].
    + destruct H3 as [H3 | [t [Ht H3]]].
      * destruct (Nat.min_dec m (length s)) as [E | E].
        -- left. rewrite H3. exact E.
        -- right. exists s. split; [left; reflexivity | rewrite H3; exact E].
      * right. exists t. split; [right; auto | auto].
Qed.

(* the minimal sets are exactly the listed sets of smallest size *)
Theorem minimal_are_smallest (vs : list (list nat)) s :
  In s (minimal_of vs) <-> In s vs /\ forall t, In t vs -> length s <= length t.
Proof.
  destruct vs as [|s0 rest]; [simpl; tauto|].
  unfold minimal_of, min_len. rewrite filter_In, Nat.eqb_eq.
  destruct (fold_min_spec rest (length s0)) as [[H1 H2] H3]. cbv zeta in *.
  set (r := fold_left (fun m (s : list nat) => Nat.min m (length s)) rest (length s0)) in *.
  assert (Hall : forall t, In t (s0 :: rest) -> r <= length t) by (intros t [<- | Ht]; auto).
  assert (Hex : exists t, In t (s0 :: rest) /\ r = length t).
  { destruct H3 as [H3 | [t [Ht H3]]]; [exists s0; split; [left; auto | auto] | exists t; split; [right; auto | auto]]. }
  split.
  - intros [Hin E]. split; auto. intros t Ht. rewrite E. auto.
  - intros [Hin Hmin]. split; auto. destruct Hex as [t [Ht E]]. specialize (Hmin t Ht). specialize (Hall s Hin). lia.
Qed.

(* ================================================================== 4. the moralisation criterion (Prop level) *)
(* DESIGN.md Appendix B.1.  E = arrows of the graph with the exposure's out-arrows removed.  Conn x y =
   connectivity in the moral graph of the ancestral set of {x,y} + Z after deleting Z (what the algorithm
   tests); reach = active walks (the d-connection specification).  The two classical case splits of the
   sketch are hypotheses here (decidability of Z and of "is an ancestor of Z"); the executable layer
   discharges both, so the final theorems use no axiom. *)
Section Moral.
Variable V : Type.
Variable E : V -> V -> Prop.
Variable Z : V -> Prop.
Variables x y : V.
Hypothesis xZ : ~ Z x.
Hypothesis yZ : ~ Z y.

Definition Anc (S : V -> Prop) (v : V) : Prop := exists t, S t /\ clos_refl_trans V E v t.
Definition XYZ (t : V) : Prop := t = x \/ t = y \/ Z t.
Definition A := Anc XYZ.
Definition AnZ' := Anc Z.
Hypothesis Zdec : forall v, Z v \/ ~ Z v.
Hypothesis AnZdec : forall v, AnZ' v \/ ~ AnZ' v.

Definition M (u v : V) : Prop :=
  A u /\ A v /\ (E u v \/ E v u \/ exists c, A c /\ E u c /\ E v c).
Definition MZ (u v : V) : Prop := M u v /\ ~ Z u /\ ~ Z v.
Definition Conn := clos_refl_trans V MZ.

Inductive reach : V -> bool -> Prop :=
| r_start : reach x true
| r_up_parent v p : reach v true -> ~ Z v -> E p v -> reach p true
| r_up_child v c : reach v true -> ~ Z v -> E v c -> reach c false
| r_down_child v c : reach v false -> ~ Z v -> E v c -> reach c false
| r_down_parent v p : reach v false -> AnZ' v -> E p v -> reach p true.

Lemma A_parent u v : E u v -> A v -> A u.
Proof. intros He [t [Ht Hp]]. exists t; split; auto. eapply rt_trans; [apply rt_step; exact He| exact Hp]. Qed.
Lemma AnZ_A v : AnZ' v -> A v.
Proof. intros [t [Ht Hp]]. exists t; split; auto. right; right; exact Ht. Qed.
Lemma A_x : A x. Proof. exists x; split; [left; reflexivity| apply rt_refl]. Qed.
Lemma A_y : A y. Proof. exists y; split; [right; left; reflexivity| apply rt_refl]. Qed.

Inductive chain (p : V) : V -> Prop :=
| ch_one v : ~ Z p -> E p v -> chain p v
| ch_step u v : chain p u -> ~ Z u -> E u v -> chain p v.

Lemma chain_conn p v : chain p v -> A v -> Conn x p ->
  (~ Z v -> Conn x v) /\ (exists u, E u v /\ ~ Z u /\ A u /\ Conn x u).
Proof.
  induction 1 as [v Hp He | u v Hc IH Hu He]; intros Av Cp.
  - assert (Ap : A p) by (eapply A_parent; eauto).
    split.
    + intros Hv. eapply rt_trans; [exact Cp|]. apply rt_step. repeat split; auto.
    + exists p; repeat split; auto.
  - assert (Au : A u) by (eapply A_parent; eauto).
    destruct (IH Au Cp) as [Cu _]. specialize (Cu Hu).
    split.
    + intros Hv. eapply rt_trans; [exact Cu|]. apply rt_step. repeat split; auto.
    + exists u; repeat split; auto.
Qed.

Definition RInv (v : V) (d : bool) : Prop :=
  if d then A v /\ (~ Z v -> Conn x v)
  else exists p, ~ Z p /\ A p /\ Conn x p /\ chain p v.

Lemma reach_inv v d : reach v d -> RInv v d.
Proof.
  induction 1 as [ | v p Hr IH Hv He | v c Hr IH Hv He | v c Hr IH Hv He | v p Hr IH Hv He ]; simpl in *.
  - split; [apply A_x| intros _; apply rt_refl].
  - destruct IH as [Av Cv]. assert (Ap : A p) by (eapply A_parent; eauto). split; auto.
    intros Hp. eapply rt_trans; [apply Cv; auto|]. apply rt_step. repeat split; auto.
  - destruct IH as [Av Cv]. exists v; repeat split; auto. apply ch_one; auto.
  - destruct IH as [p0 [Hp0 [Ap0 [Cp0 Hch]]]]. exists p0; repeat split; auto. eapply ch_step; eauto.
  - destruct IH as [p0 [Hp0 [Ap0 [Cp0 Hch]]]].
    assert (Av : A v) by (apply AnZ_A; auto).
    assert (Ap : A p) by (eapply A_parent; eauto).
    split; auto. intros Hp.
    destruct (chain_conn Hch Av Cp0) as [Cv [u [Heu [Hu [Au Cu]]]]].
    destruct (Zdec v) as [Zv | nZv].
    + eapply rt_trans; [exact Cu|]. apply rt_step. repeat split; auto.
      right; right. exists v; repeat split; auto.
    + eapply rt_trans; [apply Cv; auto|]. apply rt_step. repeat split; auto.
Qed.

Theorem moral_sound : (exists d, reach y d) -> Conn x y.
Proof.
  intros [d Hr]. apply reach_inv in Hr. destruct d; simpl in Hr.
  - destruct Hr as [_ H]; auto.
  - destruct Hr as [p [Hp [Ap [Cp Hch]]]]. destruct (chain_conn Hch A_y Cp) as [H _]; auto.
Qed.

Definition Done := exists d, reach y d.

Lemma descend v t : clos_refl_trans V E v t -> forall d, reach v d -> ~ AnZ' v -> (v = t \/ reach t false).
Proof.
  intros Hp. apply clos_rt_rt1n in Hp. induction Hp as [v | v w t Hvw Hwt IH]; intros d Hr Hn.
  - left; reflexivity.
  - assert (Hv : ~ Z v). { intros Hz. apply Hn. exists v; split; auto. apply rt_refl. }
    assert (Hw : reach w false) by (destruct d; [eapply r_up_child| eapply r_down_child]; eauto).
    assert (Hnw : ~ AnZ' w). { intros [z [Hz Hq]]. apply Hn. exists z; split; auto.
      eapply rt_trans; [apply rt_step; exact Hvw| exact Hq]. }
    right. destruct (IH false Hw Hnw) as [<- | H]; auto.
Qed.

Lemma climb c : clos_refl_trans V E c x -> ~ AnZ' c -> reach c true.
Proof.
  intros Hp Hn. apply clos_rt_rtn1 in Hp.
  assert (G : forall u, clos_refl_trans V E c u -> clos_refl_trans V E u x -> reach u true -> reach c true).
  { intros u Hcu. apply clos_rt_rtn1 in Hcu. induction Hcu as [ | u w Huw Hcu IH]; intros Hux Hr; auto.
    apply IH.
    - eapply rt_trans; [apply rt_step; exact Huw| exact Hux].
    - eapply r_up_parent; [exact Hr| | exact Huw].
      intros Hz. apply Hn. exists w; split; auto.
      eapply rt_trans; [apply clos_rtn1_rt; exact Hcu| apply rt_step; exact Huw]. }
  apply (G x); [apply clos_rtn1_rt; exact Hp | apply rt_refl | apply r_start].
Qed.

Lemma A_cases c : A c -> ~ AnZ' c -> clos_refl_trans V E c x \/ clos_refl_trans V E c y.
Proof. intros [t [[->| [->|Hz]] Hp]] Hn; auto. exfalso; apply Hn; exists t; auto. Qed.

Definition Good (v : V) := exists d, reach v d.

Lemma step_complete v w : Good v -> MZ v w -> Good w \/ Done.
Proof.
  intros [d Hr] [[Av [Aw Hadj]] [Hv Hw]].
  destruct Hadj as [Hvw | [Hwv | [c [Ac [Hvc Hwc]]]]].
  - left. exists false. destruct d; [eapply r_up_child| eapply r_down_child]; eauto.
  - destruct d.
    + left; exists true; eapply r_up_parent; eauto.
    + destruct (AnZdec v) as [Hz | Hn].
      * left; exists true; eapply r_down_parent; eauto.
      * destruct (A_cases Av Hn) as [Hx | Hy].
        -- left; exists true. eapply r_up_parent; [apply climb; eauto| auto | exact Hwv].
        -- right. destruct (descend Hy Hr Hn) as [-> | H]; [exists false; exact Hr| exists false; exact H].
  - assert (Hc : reach c false) by (destruct d; [eapply r_up_child| eapply r_down_child]; eauto).
    destruct (AnZdec c) as [Hz | Hn].
    + left; exists true; eapply r_down_parent; eauto.
    + assert (HcZ : ~ Z c). { intros Hz. apply Hn. exists c; split; auto. apply rt_refl. }
      destruct (A_cases Ac Hn) as [Hx | Hy].
      * left; exists true. eapply r_up_parent; [apply climb; eauto| auto | exact Hwc].
      * right. destruct (descend Hy Hc Hn) as [-> | H]; [exists false; exact Hc| exists false; exact H].
Qed.

Theorem moral_complete : Conn x y -> Done.
Proof.
  intros Hc.
  assert (G : forall v, Conn x v -> Good v \/ Done).
  { intros v Hv. apply clos_rt_rtn1 in Hv. induction Hv as [ | v w Hvw Hxv IH].
    - left; exists true; apply r_start.
    - destruct IH as [Hg | Hd]; [| right; exact Hd]. eapply step_complete; eauto. }
  destruct (G y Hc) as [Hg | Hd]; auto.
Qed.

Theorem moralisation_criterion : Conn x y <-> Done.
Proof. split; [apply moral_complete | apply moral_sound]. Qed.
End Moral.

Unset Implicit Arguments.

(* ================================================================== 5. refinement *)
Section Refine.
Variable g : graph.
Variables x y : nat.
Variable Zl : list nat.
Hypothesis Hwf : wf g.
Hypothesis Hx : In x (nodes g).
Hypothesis Hy : In y (nodes g).
Hypothesis HxZ : ~ In x Zl.
Hypothesis HyZ : ~ In y Zl.

Local Notation ns := (nodes g).
Local Notation es := (edges g).
Local Notation E := (EdgeH g x).
Local Notation Zp := (fun v : nat => In v Zl).
Local Notation R := (reach_tbl (nodes g) (edges g)).
Local Notation RH := (reach_tbl (nodes g) (drop_out x (edges g))).
Local Notation AA := (A E Zp x y).
Local Notation keep := (keep_nodes R ns (x :: y :: Zl)).
Local Notation es2 := (drop_out x (sub_edges keep es)).
Local Notation mes := (es2 ++ marriages es2 keep).
Local Notation UU := (filter (fun v => negb (mem v Zl)) keep).

Lemma E_nodes u v : E u v -> In u ns /\ In v ns.
Proof. intros [H _]. apply (Hwf _ _ H). Qed.

Lemma RH_spec u v : In v (RH u) <-> clos_trans nat E u v.
Proof.
  rewrite reach_tbl_spec. split; apply ct_mono; intros p q H.
  - destruct H as [_ H]. apply drop_out_In in H. exact H.
  - split; [apply (E_nodes _ _ H) | apply drop_out_In; exact H].
Qed.

Definition anzb (v : nat) : bool := existsb (fun z => (v =? z) || mem z (RH v)) Zl.

Lemma anzb_spec v : anzb v = true <-> AnZ g x Zl v.
Proof.
  unfold anzb, AnZ. rewrite existsb_exists. split; intros [z [Hz H]]; exists z; split; auto.
  - apply orb_true_iff in H. destruct H as [H | H].
    + apply Nat.eqb_eq in H. subst. apply rt_refl.
    + apply mem_In, RH_spec in H. apply ct_rt; auto.
  - apply orb_true_iff. destruct (clos_rt_t_or H) as [-> | Hc].
    + left. apply Nat.eqb_refl.
    + right. apply mem_In, RH_spec. exact Hc.
Qed.

Lemma Zdec v : Zp v \/ ~ Zp v.
Proof. destruct (in_dec Nat.eq_dec v Zl); auto. Qed.

Lemma AnZdec v : AnZ' E Zp v \/ ~ AnZ' E Zp v.
Proof.
  destruct (anzb v) eqn:Eb.
  - left. apply anzb_spec in Eb. exact Eb.
  - right. intros H. apply anzb_spec in H. congruence.
Qed.

Lemma step1_spec : existsb (fun z => mem z (R x)) Zl = false <-> (forall z, In z Zl -> ~ Desc g x z).
Proof.
  split.
  - intros H z Hz Hd. apply (reach_tbl_wf x z Hwf), mem_In in Hd.
    assert (Ht : existsb (fun z => mem z (R x)) Zl = true) by (apply existsb_exists; exists z; auto).
    congruence.
  - intros H. destruct (existsb (fun z => mem z (R x)) Zl) eqn:Eb; auto.
    apply existsb_exists in Eb. destruct Eb as [z [Hz Hm]]. apply mem_In, (reach_tbl_wf x z Hwf) in Hm.
    exfalso. exact (H z Hz Hm).
Qed.

(* ancestors of {x,y}+Z in the original graph = in the graph without x's out-arrows (because x itself is in the set) *)
Lemma AG_AH v t : XYZ Zp x y t -> clos_refl_trans nat (Edge g) v t -> AA v.
Proof.
  intros Ht Hp. apply clos_rt_rt1n in Hp. induction Hp as [v | v w t Hvw Hwt IH].
  - exists v. split; [exact Ht | apply rt_refl].
  - destruct (Nat.eq_dec v x) as [-> | Hn].
    + exists x. split; [left; reflexivity | apply rt_refl].
    + apply (A_parent (E:=E)) with w; [split; auto | apply IH; exact Ht].
Qed.

Lemma AH_AG v : AA v -> exists t, XYZ Zp x y t /\ clos_refl_trans nat (Edge g) v t.
Proof.
  intros [t [Ht Hp]]. exists t. split; auto. clear Ht.
  induction Hp; [apply rt_step; destruct H; auto | apply rt_refl | eapply rt_trans; eauto].
Qed.

Lemma XYZ_list t : XYZ Zp x y t <-> In t (x :: y :: Zl).
Proof. unfold XYZ. simpl. intuition. Qed.

Lemma keep_spec v : In v keep <-> In v ns /\ AA v.
Proof.
  unfold keep_nodes. rewrite filter_In. split; intros [Hv H]; split; auto.
  - apply orb_true_iff in H. destruct H as [H | H].
    + apply mem_In, XYZ_list in H. exists v. split; [exact H | apply rt_refl].
    + apply existsb_exists in H. destruct H as [t [Ht Hm]]. apply XYZ_list in Ht.
      apply mem_In, (reach_tbl_wf v t Hwf) in Hm. apply AG_AH with t; auto. apply ct_rt; exact Hm.
  - apply AH_AG in H. destruct H as [t [Ht Hp]]. apply XYZ_list in Ht. apply orb_true_iff.
    destruct (clos_rt_t_or Hp) as [-> | Hc].
    + left. apply mem_In; exact Ht.
    + right. apply existsb_exists. exists t. split; auto. apply mem_In, (reach_tbl_wf v t Hwf). exact Hc.
Qed.

Lemma es2_spec u v : In (u, v) es2 <-> E u v /\ AA u /\ AA v.
Proof.
  rewrite drop_out_In. unfold sub_edges. rewrite filter_In. cbn [fst snd].
  rewrite andb_true_iff, !mem_In, !keep_spec. split.
  - intros [[He [[_ Au] [_ Av]]] Hn]. split; [split; auto | auto].
  - intros [He [Au Av]]. destruct (E_nodes _ _ He) as [Hu Hv]. destruct He as [He Hn]. tauto.
Qed.

Lemma marriages_l a b : In (a, b) (marriages es2 keep) -> exists c, AA c /\ E a c /\ E b c /\ AA a /\ AA b.
Proof.
  unfold marriages. rewrite in_flat_map. intros [c [Hc Hp]]. apply pairs_In_l in Hp.
  destruct Hp as [Ha Hb]. apply preds_In, es2_spec in Ha. apply preds_In, es2_spec in Hb.
  exists c. tauto.
Qed.

Lemma marriages_r a b c : AA c -> E a c -> E b c -> a <> b ->
  In (a, b) (marriages es2 keep) \/ In (b, a) (marriages es2 keep).
Proof.
  intros Ac Ea Eb Hn.
  assert (Aa : AA a) by (eapply A_parent; eauto).
  assert (Ab : AA b) by (eapply A_parent; eauto).
  assert (Hc : In c keep) by (apply keep_spec; split; auto; apply (E_nodes _ _ Ea)).
  assert (Ha : In a (preds es2 c)) by (apply preds_In, es2_spec; tauto).
  assert (Hb : In b (preds es2 c)) by (apply preds_In, es2_spec; tauto).
  unfold marriages. rewrite !in_flat_map.
  destruct (@pairs_In_r _ _ _ _ Ha Hb Hn); [left | right]; exists c; auto.
Qed.

Lemma uadj_spec l u v : uadj l u v = true <-> In (u, v) l \/ In (v, u) l.
Proof. unfold uadj. rewrite orb_true_iff, !has_edge_In. tauto. Qed.

Lemma uadj_M u v : uadj mes u v = true -> M E Zp x y u v.
Proof.
  rewrite uadj_spec, !in_app_iff. intros [[H | H] | [H | H]].
  - apply es2_spec in H. unfold M. tauto.
  - apply marriages_l in H. destruct H as [c H]. unfold M. split; [tauto|]. split; [tauto|]. right; right. exists c. tauto.
  - apply es2_spec in H. unfold M. tauto.
  - apply marriages_l in H. destruct H as [c H]. unfold M. split; [tauto|]. split; [tauto|]. right; right. exists c. tauto.
Qed.

Lemma M_uadj u v : M E Zp x y u v -> u = v \/ uadj mes u v = true.
Proof.
  intros [Au [Av H]]. rewrite uadj_spec, !in_app_iff. destruct H as [H | [H | [c [Ac [H1 H2]]]]].
  - right. left. left. apply es2_spec. tauto.
  - right. right. left. apply es2_spec. tauto.
  - destruct (Nat.eq_dec u v) as [-> | Hn]; [left; reflexivity | right].
    destruct (marriages_r u v c Ac H1 H2 Hn); tauto.
Qed.

Lemma UU_spec v : In v UU <-> In v ns /\ AA v /\ ~ In v Zl.
Proof. rewrite filter_In, keep_spec, negb_true_iff, mem_false. tauto. Qed.

Lemma A_nodes v : AA v -> ~ In v Zl -> v = x \/ v = y \/ exists w, E v w.
Proof.
  intros [t [Ht Hp]] Hn. apply clos_rt_rt1n in Hp. destruct Hp as [| w t Hvw _].
  - destruct Ht as [-> | [-> | Hz]]; auto. contradiction.
  - right. right. exists w. exact Hvw.
Qed.

Lemma A_in_ns v : AA v -> ~ In v Zl -> In v ns.
Proof.
  intros Av Hn. destruct (A_nodes v Av Hn) as [-> | [-> | [w Hw]]]; auto. apply (E_nodes _ _ Hw).
Qed.

(* Steps 4-6 decide connectivity in the moral ancestral graph minus Z *)
Lemma conn_spec : connected UU (uadj mes) x y = true <-> Conn E Zp x y x y.
Proof.
  unfold connected. rewrite orb_true_iff, Nat.eqb_eq, mem_In, (@tc_spec nat Nat.eqb nat_eqb_spec).
  set (S := S0 UU (fun u => filter (uadj mes u) UU)).
  assert (S_MZ : forall a b, S a b -> MZ E Zp x y a b).
  { intros a b [Ha Hb]. apply filter_In in Hb. destruct Hb as [Hb Hab].
    apply UU_spec in Ha. apply UU_spec in Hb. split; [apply uadj_M; exact Hab | tauto]. }
  assert (MZ_S : forall a b, MZ E Zp x y a b -> a = b \/ S a b).
  { intros a b [HM [Ha Hb]]. destruct (M_uadj a b HM) as [-> | Hab]; [left; reflexivity | right].
    destruct HM as [Aa [Ab _]].
    assert (In a UU) by (apply UU_spec; repeat split; auto; apply A_in_ns; auto).
    assert (In b UU) by (apply UU_spec; repeat split; auto; apply A_in_ns; auto).
    split; auto. apply filter_In. split; auto. }
  assert (G1 : forall a b, clos_trans nat S a b -> clos_refl_trans nat (MZ E Zp x y) a b).
  { intros a b H. induction H; [apply rt_step; auto | eapply rt_trans; eauto]. }
  assert (G2 : forall a b, clos_refl_trans nat (MZ E Zp x y) a b -> a = b \/ clos_trans nat S a b).
  { intros a b H. apply clos_rt_rtn1 in H. induction H as [| b c Hbc _ IH]; [left; reflexivity|].
    destruct (MZ_S _ _ Hbc) as [<- | Hs]; [exact IH|]. right.
    destruct IH as [<- | IH]; [apply t_step; exact Hs | eapply t_trans; [exact IH | apply t_step; exact Hs]]. }
  unfold Conn. split.
  - intros [Heq | H]; [rewrite Heq; apply rt_refl | apply G1; exact H].
  - apply G2.
Qed.

Lemma valid_alg_reflect :
  valid_alg g x y Zl = true <-> (forall z, In z Zl -> ~ Desc g x z) /\ ~ Conn E Zp x y x y.
Proof.
  unfold valid_alg, valid_core. cbv zeta.
  destruct (existsb (fun z => mem z (R x)) Zl) eqn:Eb.
  - split; [discriminate|]. intros [H _]. apply (proj2 step1_spec) in H. congruence.
  - pose proof (proj1 step1_spec Eb) as Hd. clear Eb. rewrite negb_true_iff. rewrite <- conn_spec.
    destruct (connected UU (uadj mes) x y); split; try tauto; try congruence.
    intros _. split; [exact Hd | discriminate].
Qed.

(* the walk relation of the specification is the `reach` of the criterion *)
Lemma walk_reach v d : walk g x Zl v d <-> reach E Zp x v d.
Proof.
  split; intros H; induction H.
  - apply r_start.
  - eapply r_up_parent; eauto.
  - eapply r_up_child; eauto.
  - eapply r_down_child; eauto.
  - eapply r_down_parent; eauto.
  - apply w_start.
  - eapply w_up_parent; eauto.
  - eapply w_up_child; eauto.
  - eapply w_down_child; eauto.
  - eapply w_down_parent; eauto.
Qed.

Lemma dconn_Conn : dconn g x y Zl <-> Conn E Zp x y x y.
Proof.
  rewrite (@moralisation_criterion nat E Zp x y HyZ Zdec AnZdec).
  unfold dconn, Done. split; intros [d H]; exists d; apply walk_reach; exact H.
Qed.

Theorem valid_alg_iff_spec : valid_alg g x y Zl = true <-> valid_spec g x y Zl.
Proof. rewrite valid_alg_reflect. unfold valid_spec. rewrite dconn_Conn. tauto. Qed.
(* ---- the executable specification (closure over walk states) reflects the active-walk specification *)
Lemma st_eqb_spec (a b : st) : st_eqb a b = true <-> a = b.
Proof.
  destruct a as [a1 a2], b as [b1 b2]. unfold st_eqb. cbn [fst snd].
  rewrite andb_true_iff, Nat.eqb_eq, eqb_true_iff. split; [intros [-> ->]; reflexivity | intros H; inversion H; auto].
Qed.

Lemma states_In v d : In (v, d) (states ns) <-> In v ns.
Proof.
  unfold states. rewrite in_flat_map. split.
  - intros [w [Hw H]]. simpl in H. destruct H as [H | [H | []]]; inversion H; subst; auto.
  - intros H. exists v. split; auto. destruct d; simpl; auto.
Qed.

Local Notation eH := (drop_out x es).
Local Notation WS := (S0 (states ns) (walk_succ eH Zl anzb)).

Lemma eH_E u v : In (u, v) eH <-> E u v.
Proof. rewrite drop_out_In. unfold EdgeH. tauto. Qed.

Lemma step_walk v d w d' : walk g x Zl v d -> In (w, d') (walk_succ eH Zl anzb (v, d)) -> walk g x Zl w d'.
Proof.
  intros Hw H. unfold walk_succ in H. destruct d.
  - destruct (mem v Zl) eqn:Ez; [destruct H|]. apply mem_false in Ez.
    apply in_app_or in H. destruct H as [H | H]; apply in_map_iff in H; destruct H as [u [Hu Hin]]; inversion Hu; subst.
    + apply preds_In, eH_E in Hin. eapply w_up_parent; eauto.
    + apply succs_In, eH_E in Hin. eapply w_up_child; eauto.
  - apply in_app_or in H. destruct H as [H | H].
    + destruct (mem v Zl) eqn:Ez; [destruct H|]. apply mem_false in Ez.
      apply in_map_iff in H; destruct H as [u [Hu Hin]]; inversion Hu; subst.
      apply succs_In, eH_E in Hin. eapply w_down_child; eauto.
    + destruct (anzb v) eqn:Ea; [|destruct H]. apply anzb_spec in Ea.
      apply in_map_iff in H; destruct H as [u [Hu Hin]]; inversion Hu; subst.
      apply preds_In, eH_E in Hin. eapply w_down_parent; eauto.
Qed.

Lemma WS_up_parent v p : ~ In v Zl -> E p v -> WS (v, true) (p, true).
Proof.
  intros Hz He. split; [apply states_In, (E_nodes _ _ He)|]. unfold walk_succ.
  apply mem_false in Hz. rewrite Hz. apply in_or_app. left. apply in_map_iff. exists p. split; auto.
  apply preds_In, eH_E; auto.
Qed.
Lemma WS_up_child v c : ~ In v Zl -> E v c -> WS (v, true) (c, false).
Proof.
  intros Hz He. split; [apply states_In, (E_nodes _ _ He)|]. unfold walk_succ.
  apply mem_false in Hz. rewrite Hz. apply in_or_app. right. apply in_map_iff. exists c. split; auto.
  apply succs_In, eH_E; auto.
Qed.
Lemma WS_down_child v c : ~ In v Zl -> E v c -> WS (v, false) (c, false).
Proof.
  intros Hz He. split; [apply states_In, (E_nodes _ _ He)|]. unfold walk_succ.
  apply mem_false in Hz. rewrite Hz. apply in_or_app. left. apply in_map_iff. exists c. split; auto.
  apply succs_In, eH_E; auto.
Qed.
Lemma WS_down_parent v p : AnZ g x Zl v -> E p v -> WS (v, false) (p, true).
Proof.
  intros Ha He. split; [apply states_In, (E_nodes _ _ He)|]. unfold walk_succ.
  apply anzb_spec in Ha. rewrite Ha. apply in_or_app. right. apply in_map_iff. exists p. split; auto.
  apply preds_In, eH_E; auto.
Qed.

Lemma walk_clos v d : walk g x Zl v d -> (v, d) = (x, true) \/ clos_trans st WS (x, true) (v, d).
Proof.
  assert (G : forall s t, (s = (x, true) \/ clos_trans st WS (x, true) s) -> WS s t -> clos_trans st WS (x, true) t).
  { intros s t [-> | H] Hs; [apply t_step; auto | eapply t_trans; [exact H | apply t_step; exact Hs]]. }
  intros H. induction H; [left; reflexivity | right ..].
  - eapply G; [exact IHwalk | apply WS_up_parent; auto].
  - eapply G; [exact IHwalk | apply WS_up_child; auto].
  - eapply G; [exact IHwalk | apply WS_down_child; auto].
  - eapply G; [exact IHwalk | apply WS_down_parent; auto].
Qed.

Lemma clos_walk s : clos_trans st WS (x, true) s -> walk g x Zl (fst s) (snd s).
Proof.
  intros H. apply clos_trans_tn1 in H. induction H as [s [_ H] | s t [_ H] _ IH].
  - destruct s as [w d']. eapply step_walk; [apply w_start | exact H].
  - destruct s as [v d], t as [w d']. cbn [fst snd] in *. eapply step_walk; eauto.
Qed.

Lemma dconnb_spec : dconnb_core RH ns eH x y Zl = true <-> dconn g x y Zl.
Proof.
  unfold dconnb_core. cbv zeta. fold anzb.
  rewrite !orb_true_iff, Nat.eqb_eq, !(@memb_In st st_eqb st_eqb_spec), !(@tc_spec st st_eqb st_eqb_spec).
  unfold dconn. split.
  - intros [[Heq | H] | H].
    + exists true. rewrite <- Heq. apply w_start.
    + exists true. apply (clos_walk _ H).
    + exists false. apply (clos_walk _ H).
  - intros [d H]. apply walk_clos in H. destruct H as [H | H].
    + left. left. inversion H; reflexivity.
    + destruct d; [left; right | right]; exact H.
Qed.

Theorem valid_specb_reflect : valid_specb g x y Zl = true <-> valid_spec g x y Zl.
Proof.
  unfold valid_specb, valid_spec_core, valid_spec. rewrite andb_true_iff, !negb_true_iff.
  rewrite step1_spec. rewrite <- dconnb_spec. destruct (dconnb_core RH ns eH x y Zl); intuition congruence.
Qed.
End Refine.

(* ================================================================== 6. the theorems *)
(* soundness and completeness of the (repaired) algorithm, for every well-formed graph -- acyclic or not --,
   every pair of nodes and every Z not containing the outcome; unbounded; no axioms *)
Theorem alg_sound g x y Z : wf g -> In x (nodes g) -> In y (nodes g) -> ~ In y Z ->
  valid_alg g x y Z = true -> valid_spec g x y Z.
Proof. intros Hw Hx Hy Hz H. apply (proj1 (valid_alg_iff_spec g x y Z Hw Hx Hy Hz) H). Qed.

Theorem alg_complete g x y Z : wf g -> In x (nodes g) -> In y (nodes g) -> ~ In y Z ->
  valid_spec g x y Z -> valid_alg g x y Z = true.
Proof. intros Hw Hx Hy Hz H. apply (proj2 (valid_alg_iff_spec g x y Z Hw Hx Hy Hz) H). Qed.

Theorem specb_reflects_spec g x y Z : wf g ->
  (valid_specb g x y Z = true <-> valid_spec g x y Z).
Proof. intros Hw. apply valid_specb_reflect; auto. Qed.

(* every graph a program can build is well formed, acyclic, and still contains exposure and outcome *)
Lemma add_edge_raw_nodes g u v a : In a (nodes g) -> In a (nodes (add_edge_raw g u v)).
Proof. intros H. simpl. rewrite !add_node_In. auto. Qed.

Lemma add_edges_raw_nodes ps : forall g a, In a (nodes g) -> In a (nodes (add_edges_raw g ps)).
Proof.
  unfold add_edges_raw. induction ps as [|p ps IH]; intros g a H; simpl; auto.
  apply IH. apply add_edge_raw_nodes; auto.
Qed.

Lemma apply_op_nodes x y g o g' : In x (nodes g) -> In y (nodes g) -> apply_op x y g o = Some g' ->
  In x (nodes g') /\ In y (nodes g').
Proof.
  intros Hx Hy H. destruct o as [u v | ps | ns es]; simpl in H.
  - unfold add_arrow in H. destruct (is_dag (add_edge_raw g u v)); inversion H; subst.
    split; apply add_edge_raw_nodes; auto.
  - unfold add_arrows in H. destruct (is_dag (add_edges_raw g ps)); inversion H; subst.
    split; apply add_edges_raw_nodes; auto.
  - unfold from_networkx in H.
    destruct (is_dag (add_edges_raw (mkG ns []) es)); simpl in H; [|discriminate].
    destruct (mem x (nodes (add_edges_raw (mkG ns []) es))) eqn:E1; simpl in H; [|discriminate].
    destruct (mem y (nodes (add_edges_raw (mkG ns []) es))) eqn:E2; inversion H; subst.
    split; apply mem_In; auto.
Qed.

Theorem run_prog_nodes x y p : In x (nodes (run_prog x y p)) /\ In y (nodes (run_prog x y p)).
Proof.
  unfold run_prog.
  assert (H0 : In x (nodes (init_graph x y)) /\ In y (nodes (init_graph x y))).
  { unfold init_graph. simpl. rewrite !add_node_In. simpl. tauto. }
  revert H0. generalize (init_graph x y).
  induction p as [|o p IH]; intros g [Hx Hy]; simpl; auto.
  apply IH. unfold step_op. destruct (apply_op x y g o) eqn:E; auto. eapply apply_op_nodes; eauto.
Qed.

(* the property: calculate_adjustment_sets (model) lists Z iff Z is a candidate (a sub-list of the nodes other
   than exposure and outcome) that contains no descendant of the exposure and d-separates exposure and
   outcome in the graph without the exposure's out-arrows *)
Theorem adjustment_sets_exact g x y Z : wf g -> In x (nodes g) -> In y (nodes g) ->
  (In Z (adjustment_sets g x y) <-> In Z (candidates g x y) /\ valid_spec g x y Z).
Proof.
  intros Hw Hx Hy. rewrite adjustment_sets_spec. split; intros [Hc H]; split; auto;
    destruct (candidates_ok g x y Z Hc) as [_ [_ Hz]].
  - apply alg_sound; auto.
  - apply alg_complete; auto.
Qed.

Theorem adjustment_sets_exact_prog x y p Z :
  let g := run_prog x y p in
  In Z (adjustment_sets g x y) <-> In Z (candidates g x y) /\ valid_spec g x y Z.
Proof.
  intros g. destruct (run_prog_nodes x y p) as [Hx Hy]. apply adjustment_sets_exact; auto. apply run_prog_wf.
Qed.

Theorem minimal_sets_exact g x y s :
  In s (minimal_adjustment_sets g x y) <->
  In s (adjustment_sets g x y) /\ forall t, In t (adjustment_sets g x y) -> length s <= length t.
Proof. unfold minimal_adjustment_sets. apply minimal_are_smallest. Qed.

(* the candidate enumeration is complete: every sub-sequence of the eligible nodes is a candidate *)
Inductive subseq : list nat -> list nat -> Prop :=
| sub_nil l : subseq [] l
| sub_take a s l : subseq s l -> subseq (a :: s) (a :: l)
| sub_skip a s l : subseq s l -> subseq s (a :: l).

Lemma subseq_length s l : subseq s l -> length s <= length l.
Proof. induction 1; simpl; lia. Qed.

Lemma combs_complete s l : subseq s l -> In s (combs l (length s)).
Proof.
  induction 1 as [l | a s l H IH | a s l H IH].
  - destruct l; simpl; auto.
  - simpl. apply in_or_app. left. apply in_map. exact IH.
  - destruct s as [|b s]; [simpl; auto|]. simpl. apply in_or_app. right. exact IH.
Qed.

Theorem candidates_complete g x y s :
  subseq s (filter (fun v => negb (v =? x) && negb (v =? y)) (nodes g)) -> In s (candidates g x y).
Proof.
  intros H. unfold candidates, all_subsets. apply in_flat_map. exists (length s). split.
  - apply in_seq. apply subseq_length in H. lia.
  - apply combs_complete; auto.
Qed.
