(* C04 -- proofs about Model.Crossfit *)
From Coq Require Import ZArith List Bool Arith Permutation Lia.
From Zepid Require Import Model.Crossfit.
Import ListNotations.

(* ------------------------------------------------------------------ reflection of the list helpers *)
Lemma zmem_In x l : zmem x l = true <-> In x l.
Proof.
  unfold zmem. rewrite existsb_exists. split.
  - intros [y [H1 H2]]. apply Z.eqb_eq in H2. subst. exact H1.
  - intros H. exists x. split; [exact H | apply Z.eqb_refl].
Qed.
Lemma zmem_false x l : zmem x l = false <-> ~ In x l.
Proof.
  rewrite <- zmem_In. destruct (zmem x l); split; intro H; try reflexivity; try discriminate.
  exfalso. apply H. reflexivity.
Qed.
Lemma nodup_b_NoDup l : nodup_b l = true <-> NoDup l.
Proof.
  induction l as [|x t IH]; simpl.
  - split; [constructor | reflexivity].
  - rewrite andb_true_iff, negb_true_iff, zmem_false, IH. split.
    + intros [H1 H2]. constructor; assumption.
    + intros H. inversion H; subst. split; assumption.
Qed.
Lemma zlist_eqb_eq a : forall b, zlist_eqb a b = true <-> a = b.
Proof.
  induction a as [|x a IH]; intros [|y b]; simpl; try (split; [discriminate | discriminate]); try tauto.
  rewrite andb_true_iff, Z.eqb_eq, IH. split.
  - intros [-> ->]. reflexivity.
  - intros H. inversion H. auto.
Qed.
Lemma zcount_notin x l : ~ In x l -> zcount x l = 0.
Proof.
  induction l as [|y t IH]; simpl; intros H; [reflexivity|].
  destruct (Z.eqb_spec x y) as [->|Hn].
  - exfalso. apply H. left. reflexivity.
  - simpl. apply IH. intro Hi. apply H. right. exact Hi.
Qed.
Lemma zcount_NoDup x l : NoDup l -> In x l -> zcount x l = 1.
Proof.
  induction l as [|y t IH]; simpl; intros Hn Hi; [contradiction|].
  inversion Hn as [|? ? Hy Ht]; subst.
  destruct (Z.eqb_spec x y) as [->|Hne].
  - rewrite (zcount_notin y t Hy). reflexivity.
  - destruct Hi as [->|Hi]; [congruence|]. simpl. apply IH; assumption.
Qed.
Lemma zcount_app x a b : zcount x (a ++ b) = zcount x a + zcount x b.
Proof. induction a as [|y a IH]; simpl; [reflexivity|]. rewrite IH. lia. Qed.

Lemma NoDup_app_inv {A} (a b : list A) :
  NoDup (a ++ b) -> NoDup a /\ NoDup b /\ forall x, In x a -> ~ In x b.
Proof.
  induction a as [|y a IH]; simpl; intros H.
  - repeat split; [constructor | exact H | intros x []].
  - inversion H as [|? ? Hy Hr]; subst. destruct (IH Hr) as [Ha [Hb Hd]].
    repeat split.
    + constructor; [|exact Ha]. intro Hi. apply Hy. apply in_or_app. left. exact Hi.
    + exact Hb.
    + intros x [->|Hx]; [|apply Hd; exact Hx]. intro Hi. apply Hy. apply in_or_app. right. exact Hi.
Qed.
Lemma NoDup_app_intro {A} (a b : list A) :
  NoDup a -> NoDup b -> (forall x, In x a -> ~ In x b) -> NoDup (a ++ b).
Proof.
  induction a as [|y a IH]; simpl; intros Ha Hb Hd; [exact Hb|].
  inversion Ha as [|? ? Hy Hr]; subst. constructor.
  - intro Hi. apply in_app_or in Hi. destruct Hi as [Hi|Hi]; [exact (Hy Hi)|].
    apply (Hd y); [left; reflexivity | exact Hi].
  - apply IH; [exact Hr | exact Hb |]. intros x Hx. apply Hd. right. exact Hx.
Qed.

(* ------------------------------------------------------------------ remainder after a pick *)
Lemma remove_all_In s rem x : In x (remove_all s rem) <-> In x rem /\ ~ In x s.
Proof. unfold remove_all. rewrite filter_In, negb_true_iff, zmem_false. tauto. Qed.
Lemma remove_all_NoDup s rem : NoDup rem -> NoDup (remove_all s rem).
Proof. apply NoDup_filter. Qed.
Lemma remove_all_perm s rem :
  NoDup s -> NoDup rem -> incl s rem -> Permutation (s ++ remove_all s rem) rem.
Proof.
  intros Hs Hr Hi. apply NoDup_Permutation.
  - apply NoDup_app_intro; [exact Hs | apply remove_all_NoDup; exact Hr |].
    intros x Hx Hx'. apply remove_all_In in Hx'. tauto.
  - exact Hr.
  - intros x. rewrite in_app_iff, remove_all_In. split.
    + intros [H|[H _]]; [apply Hi; exact H | exact H].
    + intros H. destruct (in_dec Z.eq_dec x s) as [Hin|Hnin]; [left; exact Hin | right; split; assumption].
Qed.
Lemma remove_all_length s rem :
  NoDup s -> NoDup rem -> incl s rem -> length (remove_all s rem) = length rem - length s.
Proof.
  intros Hs Hr Hi. pose proof (Permutation_length (remove_all_perm s rem Hs Hr Hi)) as H.
  rewrite app_length in H. lia.
Qed.

(* ------------------------------------------------------------------ _sample_split_ is a partition *)
Lemma split_loop_spec pick (HP : PickSpec pick) :
  forall j m rem, NoDup rem -> j * m <= length rem ->
    length (split_loop pick j m rem) = S j /\
    NoDup (concat (split_loop pick j m rem)) /\
    Permutation (concat (split_loop pick j m rem)) rem /\
    (forall i, i < j -> length (nth i (split_loop pick j m rem) []) = m) /\
    length (nth j (split_loop pick j m rem) []) = length rem - j * m.
Proof.
  induction j as [|j IH]; intros m rem Hnd Hle; simpl.
  - rewrite app_nil_r. repeat split; try assumption; try reflexivity.
    + intros i Hi. lia.
    + lia.
  - assert (Hm : m <= length rem) by lia.
    destruct (HP rem m Hnd Hm) as [Hs [Hincl Hlen]].
    set (s := pick rem m) in *.
    assert (Hr' : NoDup (remove_all s rem)) by (apply remove_all_NoDup; exact Hnd).
    assert (Hl' : length (remove_all s rem) = length rem - m)
      by (rewrite remove_all_length by assumption; rewrite Hlen; reflexivity).
    assert (Hle' : j * m <= length (remove_all s rem)) by (rewrite Hl'; simpl in Hle; lia).
    destruct (IH m (remove_all s rem) Hr' Hle') as [L [N [P [Sz La]]]].
    repeat split.
    + rewrite L. reflexivity.
    + apply NoDup_app_intro; [exact Hs | exact N |].
      intros x Hx Hx'. apply (Permutation_in _ P) in Hx'. apply remove_all_In in Hx'. tauto.
    + eapply perm_trans; [apply Permutation_app_head; exact P | apply remove_all_perm; assumption].
    + intros [|i] Hi; [exact Hlen | apply Sz; lia].
    + rewrite La, Hl'. simpl. lia.
Qed.

Lemma NoDup_concat_disjoint (sp : list (list Z)) :
  NoDup (concat sp) -> forall i j x, i <> j -> In x (nth i sp []) -> In x (nth j sp []) -> False.
Proof.
  assert (Hin : forall (l : list (list Z)) j x, In x (nth j l []) -> In x (concat l)).
  { intros l j x Hx. destruct (nth_in_or_default j l []) as [H|H].
    - apply in_concat. exists (nth j l []). split; assumption.
    - rewrite H in Hx. destruct Hx. }
  induction sp as [|a sp IH]; intros Hn i j x Hij Hi Hj.
  - destruct i; destruct Hi.
  - simpl in Hn. destruct (NoDup_app_inv _ _ Hn) as [_ [Hb Hd]].
    destruct i as [|i], j as [|j]; simpl in Hi, Hj.
    + congruence.
    + apply (Hd x Hi). eapply Hin. exact Hj.
    + apply (Hd x Hj). eapply Hin. exact Hi.
    + apply (IH Hb i j x); [congruence | assumption | assumption].
Qed.

Theorem split_partition pick rows k :
  PickSpec pick -> NoDup rows -> 1 <= k -> PartitionSpec rows k (sample_split pick rows k).
Proof.
  intros HP Hnd Hk. unfold PartitionSpec, sample_split.
  assert (Hle : (k - 1) * (length rows / k) <= length rows).
  { pose proof (Nat.mul_div_le (length rows) k ltac:(lia)) as H.
    assert ((k - 1) * (length rows / k) <= k * (length rows / k)) by (apply Nat.mul_le_mono_r; lia). lia. }
  destruct (split_loop_spec pick HP (k - 1) (length rows / k) rows Hnd Hle) as [L [N [P [Sz La]]]].
  repeat split; try assumption. rewrite L. lia.
Qed.

Corollary split_disjoint pick rows k :
  PickSpec pick -> NoDup rows -> 1 <= k ->
  forall i j x, i <> j -> In x (nth i (sample_split pick rows k) []) -> In x (nth j (sample_split pick rows k) []) -> False.
Proof.
  intros HP Hnd Hk. destruct (split_partition pick rows k HP Hnd Hk) as [_ [N _]].
  apply NoDup_concat_disjoint. exact N.
Qed.

(* near-equal: the last part exceeds the others by exactly n mod k (< k) *)
Corollary split_sizes pick rows k :
  PickSpec pick -> NoDup rows -> 1 <= k ->
  length (nth (k - 1) (sample_split pick rows k) []) = length rows / k + length rows mod k /\ length rows mod k < k.
Proof.
  intros HP Hnd Hk. destruct (split_partition pick rows k HP Hnd Hk) as [_ [_ [_ [_ La]]]].
  split; [|apply Nat.mod_upper_bound; lia].
  rewrite La. pose proof (Nat.div_mod_eq (length rows) k) as H.
  set (q := length rows / k) in *. set (r := length rows mod k) in *.
  assert (k * q = (k - 1) * q + q) by (destruct k; [lia | simpl; rewrite Nat.sub_0_r; lia]). lia.
Qed.

(* the table-driven oracle satisfies PickSpec on the calls whose recorded outputs pass pick_ok_b *)
Lemma pick_ok_b_sound rem m out :
  pick_ok_b rem m out = true -> NoDup out /\ incl out rem /\ length out = m.
Proof.
  unfold pick_ok_b. rewrite !andb_true_iff, nodup_b_NoDup, forallb_forall, Nat.eqb_eq.
  intros [[H1 H2] H3]. repeat split; try assumption. intros x Hx. apply zmem_In. apply H2. exact Hx.
Qed.

(* ------------------------------------------------------------------ pairing indices *)
Definition prev1 (k i : nat) : nat := if i =? 0 then k - 1 else i - 1.
Definition prev2 (k i : nat) : nat := if i <? 2 then k + i - 2 else i - 2.
Definition pyj (double : bool) (k i : nat) : nat := if double then prev2 k i else prev1 k i.

Lemma py_index_m1 k i : 1 <= k -> i < k -> py_index k (Z.of_nat i - 1) = Some (prev1 k i).
Proof.
  intros Hk Hi. unfold py_index, prev1.
  destruct (Nat.eqb_spec i 0) as [->|Hne].
  - simpl. destruct (Z.leb_spec 0 (Z.of_nat k + -1)); [|lia]. f_equal. lia.
  - destruct (Z.leb_spec 0 (Z.of_nat i - 1)); [|lia].
    destruct (Z.ltb_spec (Z.of_nat i - 1) (Z.of_nat k)); [|lia]. f_equal. lia.
Qed.
Lemma py_index_m2 k i : 2 <= k -> i < k -> py_index k (Z.of_nat i - 2) = Some (prev2 k i).
Proof.
  intros Hk Hi. unfold py_index, prev2.
  destruct (Nat.ltb_spec i 2) as [Hlt|Hge].
  - destruct (Z.leb_spec 0 (Z.of_nat i - 2)); [lia|].
    destruct (Z.leb_spec 0 (Z.of_nat k + (Z.of_nat i - 2))); [|lia]. f_equal. lia.
  - destruct (Z.leb_spec 0 (Z.of_nat i - 2)); [|lia].
    destruct (Z.ltb_spec (Z.of_nat i - 2) (Z.of_nat k)); [|lia]. f_equal. lia.
Qed.

Theorem pair_single_ne k i : 2 <= k -> i < k ->
  exists j, py_index k (Z.of_nat i - 1) = Some j /\ j < k /\ j <> i.
Proof.
  intros Hk Hi. exists (prev1 k i). split; [apply py_index_m1; lia|].
  unfold prev1. destruct (Nat.eqb_spec i 0); lia.
Qed.
Theorem pair_double_ne k i : 3 <= k -> i < k ->
  exists ja jy, py_index k (Z.of_nat i - 1) = Some ja /\ py_index k (Z.of_nat i - 2) = Some jy /\
                ja < k /\ jy < k /\ ja <> i /\ jy <> i /\ ja <> jy.
Proof.
  intros Hk Hi. exists (prev1 k i), (prev2 k i).
  split; [apply py_index_m1; lia|]. split; [apply py_index_m2; lia|].
  unfold prev1, prev2. destruct (Nat.eqb_spec i 0); destruct (Nat.ltb_spec i 2); lia.
Qed.
(* the guards are needed: below the minimum the literal Python indexing pairs a part with itself *)
Lemma pair_single_self_k1 : py_index 1 (Z.of_nat 0 - 1) = Some 0.
Proof. reflexivity. Qed.
Lemma pair_double_self_k2 : py_index 2 (Z.of_nat 0 - 2) = Some 0.
Proof. reflexivity. Qed.

Lemma pyj_facts double k i : min_splits double <= k -> i < k ->
  prev1 k i < k /\ pyj double k i < k /\ prev1 k i <> i /\ pyj double k i <> i /\
  (double = true -> prev1 k i <> pyj double k i).
Proof.
  intros Hk Hi. unfold pyj, prev1, prev2. destruct double; simpl in Hk;
    destruct (Nat.eqb_spec i 0); destruct (Nat.ltb_spec i 2); repeat split; try lia; intros; try lia; try discriminate.
Qed.

(* ------------------------------------------------------------------ closed form of the schedule *)
Definition pred_events (double : bool) (k : nat) (sp : list (list Z)) (i : nat) : list event :=
  let s := nth i sp [] in
  [Predict PA (prev1 k i) s; Predict PY1 (pyj double k i) s; Predict PY0 (pyj double k i) s].

Definition log_of (double : bool) (k : nat) (sp : list (list Z)) : list event :=
  fits RA sp ++ fits RY sp ++ flat_map (pred_events double k sp) (seq 0 k).

Lemma combine_maps {A B C} (f : A -> B) (g : A -> C) (l : list A) :
  combine l (combine (map f l) (map g l)) = map (fun i => (i, (f i, g i))) l.
Proof. induction l as [|a l IH]; simpl; [reflexivity | rewrite IH; reflexivity]. Qed.
Lemma opt_concat_some {A B} (h : A -> list B) (l : list A) :
  opt_concat (map (fun i => Some (h i)) l) = Some (flat_map h l).
Proof. induction l as [|a l IH]; simpl; [reflexivity | rewrite IH; reflexivity]. Qed.

Lemma schedule_closed double k sp :
  min_splits double <= k -> length sp = k ->
  schedule double k sp = Some (log_of double k sp).
Proof.
  intros Hk Hl. unfold schedule.
  assert (Hc : combine (seq 0 k) (combine (pairing_exposure k) (pairing_outcome double k)) =
               map (fun i => (i, ((Z.of_nat i - 1)%Z, if double then (Z.of_nat i - 2)%Z else (Z.of_nat i - 1)%Z))) (seq 0 k)).
  { unfold pairing_outcome, pairing_exposure. destruct double; apply combine_maps. }
  rewrite Hc, map_map.
  assert (He : map (fun i => pred_step sp (i, ((Z.of_nat i - 1)%Z, if double then (Z.of_nat i - 2)%Z else (Z.of_nat i - 1)%Z))) (seq 0 k)
               = map (fun i => Some (pred_events double k sp i)) (seq 0 k)).
  { apply map_ext_in. intros i Hi. apply in_seq in Hi. unfold pred_step, pred_events. rewrite Hl.
    assert (H2 : 2 <= k) by (destruct double; simpl in Hk; lia).
    rewrite py_index_m1 by lia. unfold pyj. destruct double.
    - simpl in Hk. rewrite py_index_m2 by lia. reflexivity.
    - rewrite py_index_m1 by lia. reflexivity. }
  rewrite He, opt_concat_some. reflexivity.
Qed.

Theorem guards double pick rows k :
  k < min_splits double -> crossfit_partition double pick rows k = RValueError.
Proof.
  intros H. unfold crossfit_partition. destruct (Nat.ltb_spec k (min_splits double)); [reflexivity | lia].
Qed.

(* ------------------------------------------------------------------ reading the log *)
Lemma pred_ids_app p a b : pred_ids p (a ++ b) = pred_ids p a ++ pred_ids p b.
Proof. apply flat_map_app. Qed.
Lemma fit_sets_app r j a b : fit_sets r j (a ++ b) = fit_sets r j a ++ fit_sets r j b.
Proof. apply flat_map_app. Qed.
Lemma pred_ids_fits p r sp : forall off, pred_ids p (fits_from r off sp) = [].
Proof. induction sp as [|s t IH]; intros off; simpl; [reflexivity | apply IH]. Qed.
Lemma role_eqb_eq a b : role_eqb a b = true <-> a = b.
Proof. destruct a, b; simpl; split; intro H; try reflexivity; discriminate. Qed.
Lemma pkind_eqb_eq a b : pkind_eqb a b = true <-> a = b.
Proof. destruct a, b; simpl; split; intro H; try reflexivity; discriminate. Qed.
Lemma fit_sets_fits r r' j sp : forall off,
  fit_sets r j (fits_from r' off sp) =
  if role_eqb r r' && (off <=? j) && (j <? off + length sp) then [nth (j - off) sp []] else [].
Proof.
  induction sp as [|s t IH]; intros off.
  - simpl. destruct (role_eqb r r'); simpl; [|reflexivity].
    destruct (Nat.leb_spec off j); simpl; [|reflexivity].
    destruct (Nat.ltb_spec j (off + 0)); [lia | reflexivity].
  - simpl fits_from. change (fit_sets r j (Fit r' off s :: fits_from r' (S off) t))
      with ((if role_eqb r r' && (j =? off) then [s] else []) ++ fit_sets r j (fits_from r' (S off) t)).
    rewrite IH. change (length (s :: t)) with (S (length t)).
    destruct (role_eqb r r'); [rewrite !andb_true_l | reflexivity].
    destruct (Nat.eqb_spec j off) as [->|Hne].
    + destruct (Nat.leb_spec (S off) off); [lia|]. rewrite andb_false_l.
      rewrite Nat.leb_refl, andb_true_l. destruct (Nat.ltb_spec off (off + S (length t))); [|lia].
      rewrite Nat.sub_diag. reflexivity.
    + destruct (Nat.leb_spec (S off) j); destruct (Nat.leb_spec off j); try lia;
        rewrite ?andb_true_l, ?andb_false_l; [|reflexivity].
      destruct (Nat.ltb_spec j (S off + length t)); destruct (Nat.ltb_spec j (off + S (length t))); try lia; [|reflexivity].
      replace (j - off) with (S (j - S off)) by lia. reflexivity.
Qed.
Lemma fit_sets_preds r j double k sp l : fit_sets r j (flat_map (pred_events double k sp) l) = [].
Proof. induction l as [|i l IH]; simpl; [reflexivity | exact IH]. Qed.
Lemma pred_ids_preds p double k sp l :
  pred_ids p (flat_map (pred_events double k sp) l) = flat_map (fun i => nth i sp []) l.
Proof.
  induction l as [|i l IH]; [reflexivity|].
  change (flat_map (pred_events double k sp) (i :: l))
    with (pred_events double k sp i ++ flat_map (pred_events double k sp) l).
  rewrite pred_ids_app, IH.
  change (flat_map (fun i0 => nth i0 sp []) (i :: l)) with (nth i sp [] ++ flat_map (fun i0 => nth i0 sp []) l).
  f_equal. unfold pred_events. destruct p; simpl; rewrite ?app_nil_r; reflexivity.
Qed.
Lemma nth_seq_all {A} (l : list A) d : map (fun i => nth i l d) (seq 0 (length l)) = l.
Proof.
  induction l as [|a l IH]; simpl; [reflexivity|]. f_equal.
  rewrite <- seq_shift, map_map. exact IH.
Qed.

Lemma fits_no_predict r p j ids sp : forall off, ~ In (Predict p j ids) (fits_from r off sp).
Proof.
  induction sp as [|s t IH]; simpl; intros off H; [exact H|].
  destruct H as [H|H]; [discriminate | exact (IH _ H)].
Qed.

Lemma log_pred_ids double k sp p : length sp = k -> pred_ids p (log_of double k sp) = concat sp.
Proof.
  intros Hl. unfold log_of, fits. rewrite !pred_ids_app, !pred_ids_fits, pred_ids_preds. simpl.
  rewrite flat_map_concat_map. rewrite <- Hl, nth_seq_all. reflexivity.
Qed.
Lemma log_fit_sets double k sp r j : length sp = k -> j < k -> fit_sets r j (log_of double k sp) = [nth j sp []].
Proof.
  intros Hl Hj. unfold log_of, fits. rewrite !fit_sets_app, !fit_sets_fits, fit_sets_preds, Hl.
  simpl. rewrite Nat.sub_0_r. destruct (Nat.ltb_spec j k); [|lia].
  destruct r; simpl; reflexivity.
Qed.
Lemma log_predict_inv double k sp p j ids :
  In (Predict p j ids) (log_of double k sp) ->
  exists i, i < k /\ ids = nth i sp [] /\ j = (match p with PA => prev1 k i | _ => pyj double k i end).
Proof.
  unfold log_of, fits. rewrite !in_app_iff. intros [H|[H|H]].
  - exfalso. exact (fits_no_predict _ _ _ _ _ _ H).
  - exfalso. exact (fits_no_predict _ _ _ _ _ _ H).
  - apply in_flat_map in H. destruct H as [i [Hi H]]. apply in_seq in Hi. exists i. split; [lia|].
    unfold pred_events in H. simpl in H.
    destruct H as [H|[H|[H|[]]]]; inversion H; subst; split; reflexivity.
Qed.

(* ------------------------------------------------------------------ no leak *)
Theorem schedule_no_leak double k sp rows evs :
  min_splits double <= k -> length sp = k -> NoDup (concat sp) -> Permutation (concat sp) rows ->
  schedule double k sp = Some evs -> NoLeak evs rows.
Proof.
  intros Hk Hl Hn Hp Hs. rewrite (schedule_closed double k sp Hk Hl) in Hs. inversion Hs; subst evs; clear Hs.
  intros x Hx p. split.
  - rewrite (log_pred_ids double k sp p Hl). apply zcount_NoDup; [exact Hn|].
    apply (Permutation_in _ (Permutation_sym Hp)). exact Hx.
  - intros j ids Hin Hxi.
    destruct (log_predict_inv double k sp p j ids Hin) as [i [Hi [-> Hj]]].
    destruct (pyj_facts double k i Hk Hi) as [A1 [A2 [A3 [A4 _]]]].
    assert (Hjk : j < k /\ j <> i) by (destruct p; subst j; split; assumption).
    exists (nth j sp []). split.
    + apply log_fit_sets; [exact Hl | tauto].
    + intro Hc. apply (NoDup_concat_disjoint sp Hn i j x); [intro E; apply (proj2 Hjk); symmetry; exact E | exact Hxi | exact Hc].
Qed.

Theorem schedule_double_sep k sp evs :
  3 <= k -> length sp = k -> NoDup (concat sp) -> schedule true k sp = Some evs -> DoubleSep evs.
Proof.
  intros Hk Hl Hn Hs. rewrite (schedule_closed true k sp Hk Hl) in Hs. inversion Hs; subst evs; clear Hs.
  intros x p ja jy ia iy Hp Ha Hxa Hy Hxy.
  destruct (log_predict_inv true k sp PA ja ia Ha) as [i [Hi [-> Hja]]].
  destruct (log_predict_inv true k sp p jy iy Hy) as [i' [Hi' [-> Hjy]]].
  assert (i = i').
  { destruct (Nat.eq_dec i i') as [E|E]; [exact E|]. exfalso. exact (NoDup_concat_disjoint sp Hn i i' x E Hxa Hxy). }
  subst i'.
  assert (Hjy' : jy = pyj true k i) by (destruct p; [congruence | exact Hjy | exact Hjy]).
  destruct (pyj_facts true k i Hk Hi) as [A1 [A2 [A3 [A4 A5]]]].
  assert (Hne : ja <> jy) by (rewrite Hja, Hjy'; apply A5; reflexivity).
  split; [exact Hne|].
  intros ta ty Hta Hty z Hza Hzy.
  rewrite (log_fit_sets true k sp RA ja Hl) in Hta by (rewrite Hja; exact A1).
  rewrite (log_fit_sets true k sp RY jy Hl) in Hty by (rewrite Hjy'; exact A2).
  destruct Hta as [<-|[]]. destruct Hty as [<-|[]].
  exact (NoDup_concat_disjoint sp Hn ja jy z Hne Hza Hzy).
Qed.

(* the property for one partition: whatever DataFrame.sample returns within its contract *)
Theorem no_leak double pick rows k :
  PickSpec pick -> NoDup rows -> min_splits double <= k ->
  exists sp evs, crossfit_partition double pick rows k = ROk sp evs /\
                 PartitionSpec rows k sp /\ NoLeak evs rows /\ (double = true -> DoubleSep evs).
Proof.
  intros HP Hnd Hk.
  assert (H1 : 1 <= k) by (destruct double; simpl in Hk; lia).
  pose proof (split_partition pick rows k HP Hnd H1) as PS.
  destruct PS as [L [N [P [Sz La]]]].
  unfold crossfit_partition. destruct (Nat.ltb_spec k (min_splits double)); [lia|].
  rewrite (schedule_closed double k _ Hk L).
  eexists. eexists. split; [reflexivity|]. split; [repeat split; assumption|]. split.
  - eapply schedule_no_leak; [exact Hk | exact L | exact N | exact P | apply schedule_closed; assumption].
  - intros ->. eapply schedule_double_sep; [exact Hk | exact L | exact N | apply schedule_closed; assumption].
Qed.

(* ------------------------------------------------------------------ determinism of fit() *)
Theorem seeds_deterministic (E : Type) (choice : Z -> nat -> list Z) (pick_of : Z -> list Z -> nat -> list Z)
        (est : list (list Z) -> E) double rows k nparts rs1 rs2 :
  rs1 = rs2 ->
  crossfit_fit E choice pick_of est double rows k nparts rs1 = crossfit_fit E choice pick_of est double rows k nparts rs2.
Proof. intros ->. reflexivity. Qed.

(* each partition of fit() obeys the property, for every seed list the generator may return *)
Theorem fit_all_partitions (E : Type) choice pick_of (est : list (list Z) -> E) double rows k nparts rs :
  (forall seed, PickSpec (pick_of seed)) -> NoDup rows -> min_splits double <= k ->
  Forall (fun re => exists sp evs, fst re = ROk sp evs /\ PartitionSpec rows k sp /\ NoLeak evs rows /\
                                   (double = true -> DoubleSep evs) /\ snd re = Some (est sp))
         (crossfit_fit E choice pick_of est double rows k nparts rs).
Proof.
  intros HP Hnd Hk. unfold crossfit_fit. apply Forall_forall. intros re Hin.
  apply in_map_iff in Hin. destruct Hin as [seed [<- _]].
  destruct (no_leak double (pick_of seed) rows k (HP seed) Hnd Hk) as [sp [evs [H1 [H2 [H3 H4]]]]].
  exists sp, evs. simpl. rewrite H1. simpl.
  split; [reflexivity|]. split; [exact H2|]. split; [exact H3|]. split; [exact H4 | reflexivity].
Qed.

(* ------------------------------------------------------------------ soundness of the executable specification *)
Theorem partition_ok_b_sound rows k sp :
  NoDup rows -> partition_ok_b rows k sp = true -> PartitionSpec rows k sp.
Proof.
  intros Hnd. unfold partition_ok_b. rewrite !andb_true_iff, !Nat.eqb_eq, nodup_b_NoDup, !forallb_forall.
  intros [[[[[L N] Len] Inc] Sz] La]. unfold PartitionSpec. repeat split; try assumption.
  - apply Permutation_sym. apply NoDup_Permutation_bis; [exact Hnd | lia |].
    intros x Hx. apply zmem_In. apply Inc. exact Hx.
  - intros i Hi. apply Nat.eqb_eq. apply Sz. apply in_seq. lia.
Qed.

Theorem no_leak_b_sound evs rows : no_leak_b evs rows = true -> NoLeak evs rows.
Proof.
  unfold no_leak_b. rewrite forallb_forall. intros H x Hx p.
  specialize (H x Hx). rewrite forallb_forall in H.
  assert (Hp : In p [PA; PY1; PY0]) by (destruct p; simpl; tauto).
  specialize (H p Hp). rewrite andb_true_iff, Nat.eqb_eq, forallb_forall in H. destruct H as [H1 H2].
  split; [exact H1|]. intros j ids Hin Hxi. specialize (H2 _ Hin). simpl in H2.
  assert (Hpp : pkind_eqb p p = true) by (apply pkind_eqb_eq; reflexivity).
  assert (Hm : zmem x ids = true) by (apply zmem_In; exact Hxi).
  rewrite Hpp, Hm in H2. simpl in H2.
  destruct (fit_sets (role_of p) j evs) as [|tr [|? ?]]; try discriminate.
  exists tr. split; [reflexivity|]. apply zmem_false. apply negb_true_iff. exact H2.
Qed.

Lemma disjoint_b_spec a b : disjoint_b a b = true <-> forall z, In z a -> ~ In z b.
Proof.
  unfold disjoint_b. rewrite forallb_forall. split; intros H z Hz.
  - apply zmem_false. apply negb_true_iff. apply H. exact Hz.
  - apply negb_true_iff. apply zmem_false. apply H. exact Hz.
Qed.
Theorem double_sep_b_sound evs : double_sep_b evs = true -> DoubleSep evs.
Proof.
  unfold double_sep_b. rewrite forallb_forall. intros H x p ja jy ia iy Hp Ha Hxa Hy Hxy.
  specialize (H _ Ha). simpl in H. rewrite forallb_forall in H. specialize (H _ Hy).
  assert (Hnd : disjoint_b ia iy = false).
  { destruct (disjoint_b ia iy) eqn:E; [|reflexivity]. exfalso.
    rewrite disjoint_b_spec in E. exact (E x Hxa Hxy). }
  assert (H' : negb (ja =? jy) && forallb (fun ta => forallb (fun ty => disjoint_b ta ty) (fit_sets RY jy evs)) (fit_sets RA ja evs) = true).
  { destruct p; [congruence | |]; simpl in H; rewrite Hnd in H; exact H. }
  rewrite andb_true_iff, negb_true_iff, Nat.eqb_neq, forallb_forall in H'. destruct H' as [Hne Hf].
  split; [exact Hne|]. intros ta ty Hta Hty. specialize (Hf _ Hta). rewrite forallb_forall in Hf.
  specialize (Hf _ Hty). apply disjoint_b_spec. exact Hf.
Qed.

(* ------------------------------------------------------------------ a concrete sampler within the contract (non-vacuity) *)
Definition pick_first (rem : list Z) (m : nat) : list Z := firstn m rem.
Lemma pick_first_spec : PickSpec pick_first.
Proof.
  intros rem m Hnd Hm. unfold pick_first. repeat split.
  - rewrite <- (firstn_skipn m rem) in Hnd. apply NoDup_app_inv in Hnd. tauto.
  - intros x Hx. rewrite <- (firstn_skipn m rem). apply in_or_app. left. exact Hx.
  - apply firstn_length_le. exact Hm.
Qed.
