(* C20 -- the back-transformation used by SuperLearner.predict for the NLogLik loss, over R.
   The executable model returns the exact pre-image (coefficients, clipped probabilities); the prediction is
   expitR (sum_j coef_j * logitR q_j).  Here: expit inverts logit on (0,1), is increasing and stays in (0,1),
   so a one-hot (discrete) coefficient vector returns the chosen candidate's clipped probability itself and any
   prediction is a probability. *)
From Coq Require Import Reals Lra.
Open Scope R_scope.

Definition logitR (p : R) : R := ln (p / (1 - p)).
Definition expitR (z : R) : R := 1 / (1 + exp (- z)).

Lemma expit_logit p : 0 < p < 1 -> expitR (logitR p) = p.
Proof.
  intros [H0 H1]. unfold expitR, logitR.
  assert (Hpos : 0 < p / (1 - p)) by (apply Rdiv_lt_0_compat; lra).
  rewrite exp_Ropp, exp_ln by exact Hpos. field. lra.
Qed.
Lemma expit_range z : 0 < expitR z < 1.
Proof.
  unfold expitR. pose proof (exp_pos (- z)) as He. split.
  - apply Rdiv_lt_0_compat; lra.
  - apply (Rmult_lt_reg_r (1 + exp (- z))); [lra|]. field_simplify; lra.
Qed.
Lemma expit_increasing z1 z2 : z1 <= z2 -> expitR z1 <= expitR z2.
Proof.
  intros H. unfold expitR.
  assert (He : exp (- z2) <= exp (- z1)).
  { destruct H as [H|H]; [left; apply exp_increasing; lra | subst; right; reflexivity]. }
  pose proof (exp_pos (- z1)). pose proof (exp_pos (- z2)).
  unfold Rdiv. rewrite !Rmult_1_l. apply Rinv_le_contravar; lra.
Qed.
(* discrete super learner under NLogLik: with weight 1 on candidate j the combined log-odds are logit q_j,
   and the prediction is q_j *)
Theorem sl_nll_discrete_R q : 0 < q < 1 -> expitR (1 * logitR q + 0) = q.
Proof. intros H. rewrite Rmult_1_l, Rplus_0_r. apply expit_logit. exact H. Qed.
