(* Theorems about Model.Generalize: IPSW / GTransportFormula / AIPSW standardise the study-sample cell means to the
   stated target (C16), AIPSW is exactly doubly robust with unstabilised weights and is NOT with stabilised weights
   (C02, AIPSW clauses), and nothing stored in a non-sampled row's treatment / outcome fields matters. *)
From Coq Require Import QArith List Bool Arith Lia Lra Lqa.
From Zepid Require Import Base.QSum Base.QUtil Base.Rows Model.Estimators Model.Generalize.
Import ListNotations.
Open Scope Q_scope.

Lemma Qpos_nz' x : 0 < x -> ~ x == 0.
Proof. intros H E. rewrite E in H. apply (Qlt_irrefl 0). exact H. Qed.

(* ------------------------------------------------------------------------------------------------ regrouping *)
Lemma gstrata_nodup l : NoDup (gstrata l).
Proof. apply NoDup_nodup. Qed.
Lemma gstrata_cover l r : In r l -> In (gs r) (gstrata l).
Proof. intros H. apply nodup_In. apply in_map. exact H. Qed.

Lemma gregroup (f : grow -> Q) l :
  Qsum f l == Qsum (fun s => Qsum (fun r => ind (g_in s r) * f r) l) (gstrata l).
Proof.
  rewrite (Qsum_by_key gs (gstrata l) f l (gstrata_nodup l) (gstrata_cover l)).
  apply Qsum_ext_all. intros s. rewrite Qsum_filter_ind. apply Qsum_ext_all. intros r. reflexivity.
Qed.

Lemma gregroup_kappa (k : nat -> Q) (f : grow -> Q) l :
  Qsum (fun r => k (gs r) * f r) l == Qsum (fun s => k s * Qsum (fun r => ind (g_in s r) * f r) l) (gstrata l).
Proof.
  rewrite gregroup. apply Qsum_ext_all. intros s. rewrite <- Qsum_scal. apply Qsum_ext_all. intros r.
  unfold g_in. destruct (Nat.eqb_spec (gs r) s) as [->|ne]; simpl; ring.
Qed.

Lemma cNSa_split s l : cNSa s true l + cNSa s false l == cNS s l.
Proof.
  unfold cNSa, cNS. rewrite <- Qsum_plus. apply Qsum_ext_all. intros r. unfold g_arm.
  destruct (ga r), (smp r); simpl; ring.
Qed.

Lemma ybarS_cNSa s a l : ~ cNSa s a l == 0 -> ybarS s a l * cNSa s a l == cYS s a l.
Proof. intros H. unfold ybarS. field. exact H. Qed.

(* the rows of a stratum that belong to the target *)
Lemma tgt_cell gn s l : Qsum (fun r => ind (g_in s r) * (ind (in_tgt gn r) * 1)) l == tgt_w gn s l.
Proof.
  destruct gn; cbn [tgt_w in_tgt]; unfold cN, cNS.
  - apply Qsum_ext_all. intros r. simpl. ring.
  - rewrite <- Qsum_minus. apply Qsum_ext_all. intros r. destruct (smp r); simpl; ring.
Qed.

Lemma tgt_total gn l : Qsum (fun r => ind (in_tgt gn r) * 1) l == Qsum (fun s => tgt_w gn s l) (gstrata l).
Proof.
  rewrite (gregroup (fun r => ind (in_tgt gn r) * 1) l). apply Qsum_ext_all. intros s. apply tgt_cell.
Qed.

(* positivity of the study sample: both arms are present among the sampled rows of every modifier stratum
   (in particular the sampling probability is positive in every stratum) *)
Definition gpositivity (l : list grow) : Prop :=
  forall s, In s (gstrata l) -> 0 < cNSa s true l /\ 0 < cNSa s false l.
Definition nonempty_tgt (gn : bool) (l : list grow) : Prop := ~ Qsum (fun s => tgt_w gn s l) (gstrata l) == 0.
(* saturated sampling model: fitted Pr(S=1|W) is the stratum's sampled fraction *)
Definition sat_S (l : list grow) : Prop := forall r, In r l -> ps r == cNS (gs r) l / cN (gs r) l.
(* saturated treatment model among the sampled: fitted Pr(A=1|W) is the treated fraction of the stratum's sample
   (only the value attached to sampled rows is constrained) *)
Definition sat_A (l : list grow) : Prop :=
  forall r, In r l -> smp r = true -> pa r == cNSa (gs r) true l / cNS (gs r) l.
(* saturated outcome model among the sampled: predictions (for every row) are the sample cell means *)
Definition sat_Q (l : list grow) : Prop :=
  forall r, In r l -> gq1 r == ybarS (gs r) true l /\ gq0 r == ybarS (gs r) false l.

Lemma cN_ge_cNS s l : cNS s l <= cN s l.
Proof.
  unfold cNS, cN. apply Qsum_le. intros r _. destruct (g_in s r), (smp r); simpl; lra.
Qed.

Lemma pos_facts l s : gpositivity l -> In s (gstrata l) ->
  0 < cNSa s true l /\ 0 < cNSa s false l /\ 0 < cNS s l /\ 0 < cN s l.
Proof.
  intros Hp Hs. destruct (Hp s Hs) as [P1 P0]. pose proof (cNSa_split s l) as E. pose proof (cN_ge_cNS s l) as G.
  repeat split; lra.
Qed.

(* ------------------------------------------------------------------------------------------------
   Hajek (ratio) mean of the sampled rows of arm a with total weight W, by stratum *)
Section GHajek.
Variable W : grow -> Q.
Variable k : nat -> Q.
Variable a : bool.
Variable l : list grow.
Hypothesis HW : forall r, In r l -> smp r = true -> ga r = a -> W r == k (gs r).

Lemma gnum_strata :
  Qsum (fun r => ind (smp r) * ind (g_arm a r) * W r * gy r) l == Qsum (fun s => k s * cYS s a l) (gstrata l).
Proof.
  unfold cYS. rewrite <- (gregroup_kappa k (fun r => ind (smp r) * ind (g_arm a r) * gy r) l).
  apply Qsum_ext. intros r Hr. unfold g_arm. destruct (smp r) eqn:Es; [|simpl; ring].
  destruct (Bool.eqb (ga r) a) eqn:Ea; [|simpl; ring]. apply eqb_prop in Ea. rewrite (HW r Hr Es Ea). simpl. ring.
Qed.
Lemma gden_strata :
  Qsum (fun r => ind (smp r) * ind (g_arm a r) * W r) l == Qsum (fun s => k s * cNSa s a l) (gstrata l).
Proof.
  unfold cNSa. rewrite <- (gregroup_kappa k (fun r => ind (smp r) * ind (g_arm a r)) l).
  apply Qsum_ext. intros r Hr. unfold g_arm. destruct (smp r) eqn:Es; [|simpl; ring].
  destruct (Bool.eqb (ga r) a) eqn:Ea; [|simpl; ring]. apply eqb_prop in Ea. rewrite (HW r Hr Es Ea). simpl. ring.
Qed.

Variable T : nat -> Q.
Variable C : Q.
Hypothesis HC : ~ C == 0.
Hypothesis Hk : forall s, In s (gstrata l) -> k s * cNSa s a l == C * T s.
Hypothesis Hpos : forall s, In s (gstrata l) -> ~ cNSa s a l == 0.
Hypothesis Htot : ~ Qsum (fun s => T s) (gstrata l) == 0.

Theorem ghajek :
  Qsum (fun r => ind (smp r) * ind (g_arm a r) * W r * gy r) l / Qsum (fun r => ind (smp r) * ind (g_arm a r) * W r) l
  == Qsum (fun s => T s * ybarS s a l) (gstrata l) / Qsum (fun s => T s) (gstrata l).
Proof.
  rewrite gnum_strata, gden_strata.
  assert (E1 : Qsum (fun s => k s * cYS s a l) (gstrata l) == C * Qsum (fun s => T s * ybarS s a l) (gstrata l)).
  { rewrite <- Qsum_scal. apply Qsum_ext. intros s Hs. rewrite <- (ybarS_cNSa s a l (Hpos s Hs)).
    setoid_replace (k s * (ybarS s a l * cNSa s a l)) with ((k s * cNSa s a l) * ybarS s a l) by ring.
    rewrite (Hk s Hs). ring. }
  assert (E2 : Qsum (fun s => k s * cNSa s a l) (gstrata l) == C * Qsum (fun s => T s) (gstrata l)).
  { rewrite <- Qsum_scal. apply Qsum_ext. intros s Hs. apply Hk. exact Hs. }
  rewrite E1, E2. field. split; assumption.
Qed.
End GHajek.

(* ------------------------------------------------------------------------------------------------ IPSW *)
Section IPSW.
Variable l : list grow.
Variable c : gcfg.
Hypothesis HnS0 : 0 < nS c. Hypothesis HnS1 : nS c < 1.
Hypothesis HnA0 : 0 < nA c. Hypothesis HnA1 : nA c < 1.
Hypothesis Hpos : gpositivity l.
Hypothesis HS : sat_S l.

(* the stabilising constants *)
Definition cS : Q :=
  match gen c, stabS c with true, true => nS c | false, true => nS c / (1 - nS c) | _, _ => 1 end.
Definition cA (a : bool) : Q :=
  if rx c then (if stabA c then (if a then nA c else 1 - nA c) else 1) else 1.
Lemma cS_nz : ~ cS == 0.
Proof.
  unfold cS. assert (0 < nS c / (1 - nS c)) by (apply Qlt_shift_div_l; lra).
  destruct (gen c), (stabS c); apply Qpos_nz'; lra.
Qed.
Lemma cA_nz a : ~ cA a == 0.
Proof. unfold cA. destruct (rx c), (stabA c), a; apply Qpos_nz'; lra. Qed.

(* sampling weight of a (sampled) row of stratum s under the saturated sampling model *)
Lemma samp_w_sat r : In r l -> smp r = true ->
  samp_w (gen c) (stabS c) (nS c) (ps r) == cS * (tgt_w (gen c) (gs r) l / cNS (gs r) l).
Proof.
  intros Hr _. destruct (pos_facts l (gs r) Hpos (gstrata_cover l r Hr)) as [P1 [P0 [PS PN]]].
  pose proof (HS r Hr) as E. unfold cS, samp_w, tgt_w.
  destruct (gen c), (stabS c); rewrite E; field; repeat split; apply Qpos_nz'; lra.
Qed.

(* WITH a saturated treatment model: the weight of a sampled row of arm a is cS cA T_s / n_{s,S,a} *)
Definition kfun_rx (a : bool) (s : nat) : Q := cS * cA a * (tgt_w (gen c) s l / cNSa s a l).

Lemma tot_w_sat a r : rx c = true -> sat_A l -> In r l -> smp r = true -> ga r = a ->
  tot_w c r == kfun_rx a (gs r).
Proof.
  intros Hrx HA Hr Hs Ha. unfold tot_w. rewrite (samp_w_sat r Hr Hs).
  destruct (pos_facts l (gs r) Hpos (gstrata_cover l r Hr)) as [P1 [P0 [PS PN]]].
  pose proof (cNSa_split (gs r) l) as E.
  pose proof (HA r Hr Hs) as EA.
  unfold trt_w, kfun_rx, cA. rewrite Hrx, Ha.
  destruct (stabA c), a; cbn [ipw_formula]; rewrite EA, <- ?E; field; repeat split; apply Qpos_nz'; lra.
Qed.

Theorem ipsw_is_std a : rx c = true -> sat_A l -> nonempty_tgt (gen c) l ->
  ipsw_risk c a l == gstd (gen c) a l.
Proof.
  intros Hrx HA Ht. unfold ipsw_risk, ipsw_num, ipsw_den, gstd.
  apply (ghajek (tot_w c) (kfun_rx a) a l) with (C := cS * cA a) (T := fun s => tgt_w (gen c) s l).
  - intros r Hr Hs Ha. apply tot_w_sat; assumption.
  - intros E. apply Qmult_integral in E. destruct E as [E|E]; [exact (cS_nz E)|exact (cA_nz a E)].
  - intros s Hs. destruct (pos_facts l s Hpos Hs) as [P1 [P0 _]]. unfold kfun_rx. field.
    apply Qpos_nz'. destruct a; assumption.
  - intros s Hs. destruct (pos_facts l s Hpos Hs) as [P1 [P0 _]]. apply Qpos_nz'. destruct a; assumption.
  - exact Ht.
Qed.

(* WITHOUT a treatment model IPSW standardises only when treatment is balanced over the modifier strata of the
   sample (a marginally randomised trial with the same allocation fraction rho_a in every stratum) *)
Theorem ipsw_norx_balanced_is_std a (rho : Q) : rx c = false -> ~ rho == 0 ->
  (forall s, In s (gstrata l) -> cNSa s a l == rho * cNS s l) -> nonempty_tgt (gen c) l ->
  ipsw_risk c a l == gstd (gen c) a l.
Proof.
  intros Hrx Hrho Hbal Ht. unfold ipsw_risk, ipsw_num, ipsw_den, gstd.
  apply (ghajek (tot_w c) (fun s => cS * (tgt_w (gen c) s l / cNS s l)) a l) with (C := cS * rho) (T := fun s => tgt_w (gen c) s l).
  - intros r Hr Hs Ha. unfold tot_w, trt_w. rewrite Hrx, (samp_w_sat r Hr Hs). ring.
  - intros E. apply Qmult_integral in E. destruct E as [E|E]; [exact (cS_nz E)|exact (Hrho E)].
  - intros s Hs. destruct (pos_facts l s Hpos Hs) as [P1 [P0 [PS PN]]]. rewrite (Hbal s Hs). field. apply Qpos_nz'. exact PS.
  - intros s Hs. destruct (pos_facts l s Hpos Hs) as [P1 [P0 _]]. apply Qpos_nz'. destruct a; assumption.
  - exact Ht.
Qed.
End IPSW.

(* ------------------------------------------------------------------------------------------------ g-transport *)
Theorem gtransport_is_std gn a l : sat_Q l -> gt_risk gn a l == gstd gn a l.
Proof.
  intros HQ. unfold gt_risk, gstd. apply Qdiv_comp; [|apply tgt_total].
  rewrite <- (Qsum_ext_all (fun s => ybarS s a l * Qsum (fun r => ind (g_in s r) * (ind (in_tgt gn r) * 1)) l)
                           (fun s => tgt_w gn s l * ybarS s a l) (gstrata l))
    by (intros s; rewrite tgt_cell; ring).
  rewrite <- gregroup_kappa. apply Qsum_ext. intros r Hr. destruct (HQ r Hr) as [E1 E0].
  unfold gqa. destruct a; rewrite ?E1, ?E0; ring.
Qed.

(* ------------------------------------------------------------------------------------------------ AIPSW *)
(* numerator by stratum when, on the sampled rows of arm a, the total weight is a function kap of the stratum and
   the prediction used for arm a is a function th of the stratum *)
Lemma aipsw_num_strata c a l (kap th : nat -> Q) :
  (forall r, In r l -> smp r = true -> ga r = a -> tot_w c r == kap (gs r)) ->
  (forall r, In r l -> gqa a r == th (gs r)) ->
  Qsum (fun r => ind (in_tgt (gen c) r) * gqa a r + aug c a r) l ==
  Qsum (fun s => tgt_w (gen c) s l * th s + kap s * (cYS s a l - th s * cNSa s a l)) (gstrata l).
Proof.
  intros HW Hq.
  assert (E : Qsum (fun r => ind (in_tgt (gen c) r) * gqa a r + aug c a r) l ==
              Qsum (fun r => th (gs r) * (ind (in_tgt (gen c) r) * 1)
                             + (kap (gs r) * (ind (smp r) * ind (g_arm a r) * gy r)
                                - (kap (gs r) * th (gs r)) * (ind (smp r) * ind (g_arm a r)))) l).
  { apply Qsum_ext. intros r Hr. rewrite (Hq r Hr). unfold aug. rewrite (Hq r Hr). unfold g_arm.
    destruct (smp r) eqn:Es; [|simpl; ring].
    destruct (Bool.eqb (ga r) a) eqn:Ea; [|simpl; ring]. apply eqb_prop in Ea. rewrite (HW r Hr Es Ea). simpl. ring. }
  rewrite E, Qsum_plus, Qsum_minus.
  rewrite (gregroup_kappa th), (gregroup_kappa kap), (gregroup_kappa (fun s => kap s * th s)).
  rewrite <- Qsum_minus, <- Qsum_plus. apply Qsum_ext_all. intros s. rewrite tgt_cell. unfold cYS, cNSa. ring.
Qed.

Section AIPSW.
Variable l : list grow.
Variable c : gcfg.
Hypothesis Hpos : gpositivity l.
Hypothesis Ht : nonempty_tgt (gen c) l.

(* (i) outcome model saturated; the total weight of the sampled rows of arm a is ANY function of the stratum
   (the fit of any sub-model of the saturated sampling / treatment models, stabilised or not, with or without a
   treatment model) *)
Theorem aipsw_Qsat a (kap : nat -> Q) :
  sat_Q l -> (forall r, In r l -> smp r = true -> ga r = a -> tot_w c r == kap (gs r)) ->
  aipsw_risk c a l == gstd (gen c) a l.
Proof.
  intros HQ HW. unfold aipsw_risk, gstd. apply Qdiv_comp; [|apply tgt_total].
  rewrite (aipsw_num_strata c a l kap (fun s => ybarS s a l) HW).
  - apply Qsum_ext. intros s Hs. destruct (pos_facts l s Hpos Hs) as [P1 [P0 _]].
    rewrite (ybarS_cNSa s a l) by (apply Qpos_nz'; destruct a; assumption). ring.
  - intros r Hr. destruct (HQ r Hr) as [E1 E0]. unfold gqa. destruct a; assumption.
Qed.

(* (ii) generic weight-side statement: if the weight of the sampled rows of arm a in stratum s times their number
   is the target weight of the stratum, the outcome predictions may be ANY function of stratum and arm *)
Theorem aipsw_wsat_generic a (kap th : nat -> Q) :
  (forall r, In r l -> smp r = true -> ga r = a -> tot_w c r == kap (gs r)) ->
  (forall s, In s (gstrata l) -> kap s * cNSa s a l == tgt_w (gen c) s l) ->
  (forall r, In r l -> gqa a r == th (gs r)) ->
  aipsw_risk c a l == gstd (gen c) a l.
Proof.
  intros HW Hk Hq. unfold aipsw_risk, gstd. apply Qdiv_comp; [|apply tgt_total].
  rewrite (aipsw_num_strata c a l kap th HW Hq).
  apply Qsum_ext. intros s Hs. destruct (pos_facts l s Hpos Hs) as [P1 [P0 _]].
  rewrite <- (ybarS_cNSa s a l) by (apply Qpos_nz'; destruct a; assumption).
  setoid_replace (kap s * (ybarS s a l * cNSa s a l - th s * cNSa s a l))
    with ((kap s * cNSa s a l) * (ybarS s a l - th s)) by ring.
  rewrite (Hk s Hs). ring.
Qed.

(* (ii') the code's UNSTABILISED weights with saturated sampling and treatment models *)
Theorem aipsw_wsat a (th : nat -> bool -> Q) :
  stabS c = false -> rx c = true -> stabA c = false -> sat_S l -> sat_A l ->
  (forall r, In r l -> gq1 r == th (gs r) true /\ gq0 r == th (gs r) false) ->
  aipsw_risk c a l == gstd (gen c) a l.
Proof.
  intros HsS Hrx HsA HS HA Hq.
  apply (aipsw_wsat_generic a (fun s => tgt_w (gen c) s l / cNSa s a l) (fun s => th s a)).
  - intros r Hr Hs Ha.
    destruct (pos_facts l (gs r) Hpos (gstrata_cover l r Hr)) as [P1 [P0 [PS PN]]].
    pose proof (cNSa_split (gs r) l) as E.
    pose proof (HS r Hr) as ES. pose proof (HA r Hr Hs) as EA.
    unfold tot_w, trt_w, samp_w, tgt_w. rewrite HsS, Hrx, HsA, Ha.
    destruct (gen c), a; cbn [ipw_formula]; rewrite ES, EA, <- ?E; field; repeat split; apply Qpos_nz'; lra.
  - intros s Hs. destruct (pos_facts l s Hpos Hs) as [P1 [P0 _]]. field. apply Qpos_nz'. destruct a; assumption.
  - intros r Hr. destruct (Hq r Hr) as [E1 E0]. unfold gqa. destruct a; assumption.
Qed.

End AIPSW.

(* ------------------------------------------------------------------------------------------------
   the stated targets are non-empty *)
Lemma nonempty_tgt_generalize l : l <> [] -> nonempty_tgt true l.
Proof.
  intros Hl. unfold nonempty_tgt. rewrite <- (tgt_total true l). cbn [in_tgt ind].
  rewrite (Qsum_ext_all _ (fun _ => 1) l) by (intros; ring). rewrite Qsum_one. apply Qpos_nz'. apply Qlen_pos. exact Hl.
Qed.
Lemma nonempty_tgt_transport l : (exists r, In r l /\ smp r = false) -> nonempty_tgt false l.
Proof.
  intros [r [Hr Hs]]. unfold nonempty_tgt. rewrite <- (tgt_total false l). apply Qpos_nz'.
  induction l as [|x xs IH]; [contradiction|]. cbn [Qsum].
  assert (Hnn : 0 <= Qsum (fun r0 => ind (in_tgt false r0) * 1) xs).
  { apply Qsum_nonneg. intros y _. unfold in_tgt. destruct (smp y); simpl; lra. }
  destruct Hr as [->|Hr].
  - assert (E : ind (in_tgt false r) * 1 == 1) by (unfold in_tgt; rewrite Hs; simpl; ring). lra.
  - specialize (IH Hr). assert (0 <= ind (in_tgt false x) * 1) by (unfold in_tgt; destruct (smp x); simpl; lra). lra.
Qed.

(* ------------------------------------------------------------------------------------------------
   C16: the named statements (all nuisance models saturated) *)
Definition good_consts (c : gcfg) : Prop := 0 < nS c /\ nS c < 1 /\ 0 < nA c /\ nA c < 1.

Theorem ipsw_generalize_std l c a : good_consts c -> gpositivity l -> sat_S l -> sat_A l -> l <> [] ->
  gen c = true -> rx c = true -> ipsw_risk c a l == gstd true a l.
Proof.
  intros (H1 & H2 & H3 & H4) Hp HS HA Hl Hg Hrx. rewrite <- Hg.
  apply ipsw_is_std; try assumption. rewrite Hg. apply nonempty_tgt_generalize. exact Hl.
Qed.
Theorem ipsw_transport_std l c a : good_consts c -> gpositivity l -> sat_S l -> sat_A l ->
  (exists r, In r l /\ smp r = false) ->
  gen c = false -> rx c = true -> ipsw_risk c a l == gstd false a l.
Proof.
  intros (H1 & H2 & H3 & H4) Hp HS HA Hl Hg Hrx. rewrite <- Hg.
  apply ipsw_is_std; try assumption. rewrite Hg. apply nonempty_tgt_transport. exact Hl.
Qed.
Theorem gtransport_generalize_std l a : sat_Q l -> gt_risk true a l == gstd true a l.
Proof. apply gtransport_is_std. Qed.
Theorem gtransport_transport_std l a : sat_Q l -> gt_risk false a l == gstd false a l.
Proof. apply gtransport_is_std. Qed.

(* AIPSW with everything saturated: any stabilisation, with or without a treatment model *)
Lemma aipsw_all_sat l c a : good_consts c -> gpositivity l -> sat_S l -> (rx c = true -> sat_A l) -> sat_Q l ->
  nonempty_tgt (gen c) l -> aipsw_risk c a l == gstd (gen c) a l.
Proof.
  intros (H1 & H2 & H3 & H4) Hp HS HA HQ Ht.
  destruct (rx c) eqn:Hrx.
  - apply (aipsw_Qsat l c Hp a (kfun_rx l c a)); [exact HQ|].
    intros r Hr Hs Ha. apply tot_w_sat; auto.
  - apply (aipsw_Qsat l c Hp a (fun s => cS c * (tgt_w (gen c) s l / cNS s l))); [exact HQ|].
    intros r Hr Hs Ha. unfold tot_w, trt_w. rewrite Hrx, (samp_w_sat l c) by assumption. ring.
Qed.
Theorem aipsw_generalize_std l c a : good_consts c -> gpositivity l -> sat_S l -> (rx c = true -> sat_A l) ->
  sat_Q l -> l <> [] -> gen c = true -> aipsw_risk c a l == gstd true a l.
Proof.
  intros Hc Hp HS HA HQ Hl Hg. rewrite <- Hg. apply aipsw_all_sat; try assumption.
  rewrite Hg. apply nonempty_tgt_generalize. exact Hl.
Qed.
Theorem aipsw_transport_std l c a : good_consts c -> gpositivity l -> sat_S l -> (rx c = true -> sat_A l) ->
  sat_Q l -> (exists r, In r l /\ smp r = false) -> gen c = false -> aipsw_risk c a l == gstd false a l.
Proof.
  intros Hc Hp HS HA HQ Hl Hg. rewrite <- Hg. apply aipsw_all_sat; try assumption.
  rewrite Hg. apply nonempty_tgt_transport. exact Hl.
Qed.

(* RD / RR are the difference / ratio of the two standardised risks as soon as both arm risks are *)
Theorem measures_are_std gn (r1 r0 : Q) l : r1 == gstd gn true l -> r0 == gstd gn false l ->
  r1 - r0 == gstd_rd gn l /\ r1 / r0 == gstd_rr gn l.
Proof. intros E1 E0. unfold gstd_rd, gstd_rr. rewrite E1, E0. split; reflexivity. Qed.

(* ------------------------------------------------------------------------------------------------
   nothing stored in the treatment / outcome (/ treatment-model prediction) fields of a NON-sampled row matters *)
Definition outside_eq (r r' : grow) : Prop :=
  gs r' = gs r /\ smp r' = smp r /\ ps r' = ps r /\ gq1 r' = gq1 r /\ gq0 r' = gq0 r /\
  (smp r = true -> ga r' = ga r /\ gy r' = gy r /\ pa r' = pa r).

Lemma Qsum_F2 {A} (R : A -> A -> Prop) (f g : A -> Q) l l' :
  Forall2 R l l' -> (forall x y, R x y -> f x == g y) -> Qsum f l == Qsum g l'.
Proof. intros H E. induction H as [|x y l l' Hxy _ IH]; simpl; [reflexivity|]. rewrite (E x y Hxy), IH. reflexivity. Qed.

Lemma outside_strata l l' : Forall2 outside_eq l l' -> gstrata l' = gstrata l.
Proof.
  intros H. unfold gstrata. f_equal. induction H as [|x y l l' Hxy _ IH]; simpl; [reflexivity|].
  destruct Hxy as [E _]. rewrite E, IH. reflexivity.
Qed.

Ltac oe_tac :=
  let x := fresh "x" in let y := fresh "y" in
  let E1 := fresh in let E2 := fresh in let E3 := fresh in let E4 := fresh in let E5 := fresh in let E6 := fresh in
  let Es := fresh in let F1 := fresh in let F2 := fresh in let F3 := fresh in
  intros x y (E1 & E2 & E3 & E4 & E5 & E6);
  unfold aug, tot_w, g_arm, g_in, gqa, in_tgt; rewrite ?E1, ?E2, ?E3, ?E4, ?E5;
  destruct (smp y) eqn:Es;
  [ destruct (E6 eq_refl) as (F1 & F2 & F3); rewrite ?F1, ?F2, ?F3; reflexivity
  | try reflexivity; cbn [ind]; ring ].

Lemma outside_cells l l' : Forall2 outside_eq l l' -> forall s a gn,
  cN s l' == cN s l /\ cNS s l' == cNS s l /\ cNSa s a l' == cNSa s a l /\ cYS s a l' == cYS s a l /\
  tgt_w gn s l' == tgt_w gn s l /\ ybarS s a l' == ybarS s a l.
Proof.
  intros H s a gn.
  assert (H' : Forall2 (fun x y => outside_eq y x) l' l).
  { clear -H. induction H; constructor; assumption. }
  assert (A1 : cN s l' == cN s l) by (unfold cN; apply (Qsum_F2 _ _ _ _ _ H'); oe_tac).
  assert (A2 : cNS s l' == cNS s l) by (unfold cNS; apply (Qsum_F2 _ _ _ _ _ H'); oe_tac).
  assert (A3 : cNSa s a l' == cNSa s a l) by (unfold cNSa; apply (Qsum_F2 _ _ _ _ _ H'); oe_tac).
  assert (A4 : cYS s a l' == cYS s a l) by (unfold cYS; apply (Qsum_F2 _ _ _ _ _ H'); oe_tac).
  repeat split; try assumption.
  - unfold tgt_w. destruct gn; rewrite ?A1, ?A2; reflexivity.
  - unfold ybarS. rewrite A3, A4. reflexivity.
Qed.

Theorem outside_outcomes_irrelevant l l' : Forall2 outside_eq l l' -> forall c a,
  ipsw_risk c a l' == ipsw_risk c a l /\ gt_risk (gen c) a l' == gt_risk (gen c) a l /\
  aipsw_risk c a l' == aipsw_risk c a l /\ gstd (gen c) a l' == gstd (gen c) a l.
Proof.
  intros H c a.
  assert (H' : Forall2 (fun x y => outside_eq y x) l' l).
  { clear -H. induction H; constructor; assumption. }
  repeat split.
  - unfold ipsw_risk, ipsw_num, ipsw_den. apply Qdiv_comp; apply (Qsum_F2 _ _ _ _ _ H'); oe_tac.
  - unfold gt_risk. apply Qdiv_comp; apply (Qsum_F2 _ _ _ _ _ H'); oe_tac.
  - unfold aipsw_risk. apply Qdiv_comp; apply (Qsum_F2 _ _ _ _ _ H'); oe_tac.
  - unfold gstd. rewrite (outside_strata l l' H).
    apply Qdiv_comp; apply Qsum_ext_all; intros s;
      destruct (outside_cells l l' H s a (gen c)) as (_ & _ & _ & _ & ET & EY); rewrite ?ET, ?EY; reflexivity.
Qed.

(* ------------------------------------------------------------------------------------------------
   C02, stabilised weights: with saturated sampling and treatment models, the stabilising numerators equal to
   the marginal proportions (what the intercept-only numerator models fit) and a wrong (constant) outcome model,
   AIPSW is NOT the standardised risk -- for generalize and for transport. *)
Definition marg_S (l : list grow) : Q := Qsum (fun r => ind (smp r)) l / Qlen l.
Definition marg_A (l : list grow) : Q := Qsum (fun r => ind (smp r) * ind (ga r)) l / Qsum (fun r => ind (smp r)) l.

Definition wit_row s sm a y p_s p_a : grow :=
  {| gs := s; smp := sm; ga := a; gy := y; ps := p_s; pa := p_a; gq1 := 1#2; gq0 := 1#2 |}.
Definition wit_rows : list grow :=
  [ wit_row 0 true true 1 (3#4) (2#3); wit_row 0 true true 1 (3#4) (2#3); wit_row 0 true false 0 (3#4) (2#3);
    wit_row 0 false false 0 (3#4) (2#3);
    wit_row 1 true true 0 (1#2) (1#3); wit_row 1 true false 1 (1#2) (1#3); wit_row 1 true false 0 (1#2) (1#3);
    wit_row 1 false false 0 (1#2) (1#3); wit_row 1 false true 1 (1#2) (1#3); wit_row 1 false false 0 (1#2) (1#3) ].
Definition wit_cfg (gn stab : bool) : gcfg :=
  {| gen := gn; stabS := stab; rx := true; stabA := stab; nS := 3#5; nA := 1#2 |}.

Lemma wit_strata s : In s (gstrata wit_rows) -> s = 0%nat \/ s = 1%nat.
Proof. intros H. vm_compute in H. destruct H as [<-|[<-|[]]]; auto. Qed.

Theorem aipsw_stabilized_wsat_refuted :
  exists l, gpositivity l /\ sat_S l /\ sat_A l /\
    (forall r, In r l -> gq1 r == 1#2 /\ gq0 r == 1#2) /\
    (forall gn stab, nS (wit_cfg gn stab) == marg_S l /\ nA (wit_cfg gn stab) == marg_A l) /\
    (forall gn, nonempty_tgt gn l) /\
    (forall gn a, aipsw_risk (wit_cfg gn false) a l == gstd gn a l) /\
    (forall gn, ~ aipsw_risk (wit_cfg gn true) true l == gstd gn true l).
Proof.
  exists wit_rows.
  split; [|split; [|split; [|split; [|split; [|split; [|split]]]]]].
  - intros s Hs. destruct (wit_strata s Hs) as [->| ->]; vm_compute; split; reflexivity.
  - intros r Hr. vm_compute in Hr. repeat (destruct Hr as [<-|Hr]; [vm_compute; reflexivity|]). contradiction.
  - intros r Hr _. vm_compute in Hr. repeat (destruct Hr as [<-|Hr]; [vm_compute; reflexivity|]). contradiction.
  - intros r Hr. vm_compute in Hr. repeat (destruct Hr as [<-|Hr]; [split; vm_compute; reflexivity|]). contradiction.
  - intros gn stab. destruct gn, stab; split; vm_compute; reflexivity.
  - intros gn. destruct gn; vm_compute; discriminate.
  - intros gn a. destruct gn, a; vm_compute; reflexivity.
  - intros gn. destruct gn; vm_compute; discriminate.
Qed.

(* the same data with the outcome model saturated: stabilised AIPSW is the standardised risk (an instance of
   aipsw_Qsat, evaluated) -- so the disagreement above is due to the wrong outcome model alone *)
Definition wit_rows_Qsat : list grow :=
  map (fun r => {| gs := gs r; smp := smp r; ga := ga r; gy := gy r; ps := ps r; pa := pa r;
                   gq1 := ybarS (gs r) true wit_rows; gq0 := ybarS (gs r) false wit_rows |}) wit_rows.
Example aipsw_stabilized_Qsat_witness :
  forall gn a, aipsw_risk (wit_cfg gn true) a wit_rows_Qsat == gstd gn a wit_rows_Qsat.
Proof. intros gn a. destruct gn, a; vm_compute; reflexivity. Qed.

(* ------------------------------------------------------------------------------------------------
   the executable twins evaluated by the run are the models the theorems speak about *)
Theorem ipsw_risk_x_eq c a l : ipsw_risk_x c a l == ipsw_risk c a l.
Proof. unfold ipsw_risk_x, ipsw_risk, ipsw_num, ipsw_den. rewrite !Qsumr_eq. reflexivity. Qed.
Theorem gt_risk_x_eq gn a l : gt_risk_x gn a l == gt_risk gn a l.
Proof. unfold gt_risk_x, gt_risk. rewrite !Qsumr_eq. reflexivity. Qed.
Theorem aipsw_risk_x_eq c a l : aipsw_risk_x c a l == aipsw_risk c a l.
Proof. unfold aipsw_risk_x, aipsw_risk. rewrite !Qsumr_eq. reflexivity. Qed.

(* ------------------------------------------------------------------------------------------------
   bridge to the shared specification of Base.Rows: seen as analysis rows whose outcome is observed exactly when the
   row is sampled, the generalize target is the all-rows standardisation `std TAll` used by C01/C02 *)
Definition g_to_row (r : grow) : row :=
  {| st := gs r; trt := ga r; yv := if smp r then Some (gy r) else None; wt := 1; g1 := pa r; q1 := gq1 r; q0 := gq0 r;
     m1 := 1; m0 := 1 |}.

Lemma bridge_sum (f : row -> Q) s l :
  Qsum f (cellrows s (map g_to_row l)) == Qsum (fun r => ind (g_in s r) * f (g_to_row r)) l.
Proof. unfold cellrows. rewrite Qsum_filter_ind, Qsum_map. apply Qsum_ext_all. intros r. reflexivity. Qed.

Theorem gstd_generalize_is_std a l : gstd true a l == std TAll a (map g_to_row l).
Proof.
  unfold gstd, std. cbn [tgt_w tw].
  assert (Es : strata (map g_to_row l) = gstrata l).
  { unfold strata, gstrata. rewrite map_map. reflexivity. }
  assert (EN : forall s, Nw s (map g_to_row l) == cN s l).
  { intros s. unfold Nw, cN. rewrite bridge_sum. apply Qsum_ext_all. intros r. reflexivity. }
  assert (EY : forall s, ybar s a (map g_to_row l) == ybarS s a l).
  { intros s. unfold ybar, ybarS, Ysum, Nobs, cYS, cNSa. rewrite !bridge_sum. apply Qdiv_comp; apply Qsum_ext_all; intros r;
      unfold arm, obs, yval, g_arm; cbn [g_to_row trt yv wt]; destruct (smp r); cbn [ind]; ring. }
  rewrite Es. apply Qdiv_comp; apply Qsum_ext_all; intros s; rewrite ?EN, ?EY; reflexivity.
Qed.
