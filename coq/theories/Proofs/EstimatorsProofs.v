From Coq Require Import QArith List Bool Arith Lia Lra Lqa.
From Zepid Require Import Base.QSum Base.QUtil Base.Rows Proofs.RowsProofs Model.Estimators.
Import ListNotations.
Open Scope Q_scope.

Lemma Qpos_nz x : 0 < x -> ~ x == 0.
Proof. intros H E. rewrite E in H. apply (Qlt_irrefl 0). exact H. Qed.

(* positivity of a data set: both arms present in every stratum, with observed outcomes in both *)
Definition positivity (l : list row) : Prop :=
  forall s, In s (strata l) -> 0 < Naw s true l /\ 0 < Naw s false l /\ 0 < Nobs s true l /\ 0 < Nobs s false l.
(* saturated treatment model: fitted Pr(A=1|L) is the (weighted) stratum proportion *)
Definition sat_g (l : list row) : Prop := forall r, In r l -> g1 r == Naw (st r) true l / Nw (st r) l.
(* saturated missingness model (in stratum x arm): fitted Pr(observed | A, L) is the cell proportion.
   With no missing outcomes and no missing model (m1 = m0 = 1) this holds trivially. *)
Definition sat_m (l : list row) : Prop :=
  forall r, In r l -> m_own r == Nobs (st r) (trt r) l / Naw (st r) (trt r) l.
(* saturated outcome model (in stratum x arm): predictions are the observed-outcome cell means *)
Definition sat_q (l : list row) : Prop :=
  forall r, In r l -> q1 r == ybar (st r) true l /\ q0 r == ybar (st r) false l.
Definition nonempty_target (t : target) (l : list row) : Prop := ~ Qsum (fun s => tw t s l) (strata l) == 0.

Section IPTW.
Variable l : list row.
Variables n c1 c0 : Q.
Hypothesis Hn0 : 0 < n. Hypothesis Hn1 : n < 1.
Hypothesis Hc1 : ~ c1 == 0. Hypothesis Hc0 : ~ c0 == 0.
Hypothesis Hpos : positivity l.
Hypothesis Hg : sat_g l.
Hypothesis Hm : sat_m l.

Definition gam (s : nat) : Q := Naw s true l / Nw s l.
Definition mu (s : nat) (a : bool) : Q := Nobs s a l / Naw s a l.
Definition kfun (stab : bool) (t : target) (a : bool) (s : nat) : Q :=
  ipw_formula stab t n a (gam s) * ((if a then c1 else c0) / mu s a).

Lemma W_is_k stab t a r : In r l -> trt r = a -> obs r = true ->
  total_w stab t n c1 c0 r == wt r * kfun stab t a (st r).
Proof.
  intros Hr Ha _. unfold total_w, iptw_w, ipmw_w, kfun, gam, mu.
  pose proof (Hg r Hr) as Eg. pose proof (Hm r Hr) as Em. rewrite Ha in *.
  destruct stab, t, a; cbn [ipw_formula]; rewrite ?Eg, Em; ring.
Qed.

Definition Cconst (stab : bool) (t : target) (a : bool) : Q :=
  (if a then c1 else c0) *
  match t, stab, a with
  | TAll, true, true => n | TAll, true, false => 1 - n
  | TExposed, true, false => (1 - n) / n
  | TUnexposed, true, true => n / (1 - n)
  | _, _, _ => 1
  end.

Lemma C_nz stab t a : ~ Cconst stab t a == 0.
Proof.
  unfold Cconst. intros E.
  assert (Hn' : 0 < 1 - n) by lra.
  assert (H1 : 0 < (1 - n) / n) by (apply Qlt_shift_div_l; lra).
  assert (H2 : 0 < n / (1 - n)) by (apply Qlt_shift_div_l; lra).
  destruct stab, t, a; apply Qmult_integral in E; destruct E as [E|E]; try contradiction;
    try (rewrite E in *; lra); lra.
Qed.

Lemma k_is_target stab t a s : In s (strata l) -> kfun stab t a s * Nobs s a l == Cconst stab t a * tw t s l.
Proof.
  intros Hs. destruct (Hpos s Hs) as [P1 [P0 [O1 O0]]].
  unfold kfun, gam, mu, Cconst. pose proof (Naw_split s l) as E.
  destruct stab, t, a; cbn [ipw_formula tw]; rewrite <- ?E; field; repeat split; apply Qpos_nz; lra.
Qed.

Theorem iptw_is_std stab t a : nonempty_target t l -> iptw_mu stab t n c1 c0 a l == std t a l.
Proof.
  intros Ht. unfold iptw_mu.
  apply (hajek_is_std (total_w stab t n c1 c0) (kfun stab t a) a l) with (C := Cconst stab t a).
  - intros r Hr Ha Ho. apply W_is_k; assumption.
  - apply C_nz.
  - intros s Hs. apply k_is_target. exact Hs.
  - intros s Hs. destruct (Hpos s Hs) as [_ [_ [O1 O0]]]. destruct a; apply Qpos_nz; assumption.
  - exact Ht.
Qed.

Corollary iptw_measures_are_std stab t : nonempty_target t l ->
  iptw_rd stab t n c1 c0 l == std t true l - std t false l /\
  iptw_rr stab t n c1 c0 l == std t true l / std t false l /\
  iptw_or stab t n c1 c0 l == odds (std t true l) / odds (std t false l).
Proof.
  intros Ht. unfold iptw_rd, iptw_rr, iptw_or, odds.
  rewrite !(iptw_is_std stab t true Ht), !(iptw_is_std stab t false Ht). repeat split; reflexivity.
Qed.
End IPTW.

(* ------------------------------------------------------------------------------------------------
   parametric g-formula with a saturated outcome model *)
Lemma target_cell t s l : Qsum (fun r => ind (in_target t r) * wt r) (cellrows s l) == tw t s l.
Proof.
  destruct t; cbn [tw]; unfold Nw, Naw; apply Qsum_ext_all; intros r; unfold in_target, arm, ind.
  all: destruct (trt r); cbn [Bool.eqb negb].
  all: ring.
Qed.

Theorem gformula_is_std t a l : sat_q l -> gf_marginal t a l == std t a l.
Proof.
  intros Hq. unfold gf_marginal, std. rewrite !Qsum_filter_ind. apply Qdiv_comp.
  - rewrite <- (Qsum_ext_all (fun s => ybar s a l * Qsum (fun r => ind (in_target t r) * wt r) (cellrows s l))
                             (fun s => tw t s l * ybar s a l) (strata l))
      by (intros s; rewrite target_cell; ring).
    rewrite <- regroup_kappa. apply Qsum_ext. intros r Hr. destruct (Hq r Hr) as [E1 E0].
    unfold qa, ind. destruct a; cbv iota; rewrite ?E1, ?E0; ring.
  - rewrite <- (Qsum_ext_all (fun s => 1 * Qsum (fun r => ind (in_target t r) * wt r) (cellrows s l))
                             (fun s => tw t s l) (strata l))
      by (intros s; rewrite target_cell; ring).
    rewrite <- (regroup_kappa (fun _ => 1)). apply Qsum_ext_all. intros r. unfold ind. ring.
Qed.

(* ------------------------------------------------------------------------------------------------
   AIPTW: exact finite-sample double robustness (all outcomes observed, no missing model) *)
Definition complete (l : list row) : Prop := forall r, In r l -> obs r = true.
Definition no_miss_model (l : list row) : Prop := forall r, In r l -> m1 r == 1 /\ m0 r == 1.

Definition pa (a : bool) (r : row) : Q := if a then pa1 r else pa0 r.
Definition aipw_ya (a : bool) (r : row) : Q :=
  if Bool.eqb (trt r) a then (yval r - qa a r * (1 - pa a r)) / pa a r else qa a r.
Lemma aipw_ya_true r : aipw_ya true r = aipw_y1 r.
Proof. unfold aipw_ya, aipw_y1, pa, qa. destruct (trt r); reflexivity. Qed.
Lemma aipw_ya_false r : aipw_ya false r = aipw_y0 r.
Proof. unfold aipw_ya, aipw_y0, pa, qa. destruct (trt r); reflexivity. Qed.

Lemma Nobs_complete s a l : complete l -> Nobs s a l == Naw s a l.
Proof.
  intros Hc. unfold Nobs, Naw. apply cell_ext. intros r Hr _. rewrite (Hc r Hr). simpl. ring.
Qed.

(* the sum of the pseudo-outcome over a stratum, when the propensity and the prediction used there are
   constants p and th of the stratum *)
Lemma aipw_cell a s l p th : complete l -> ~ p == 0 ->
  (forall r, In r l -> st r = s -> pa a r == p /\ qa a r == th) ->
  Qsum (fun r => wt r * aipw_ya a r) (cellrows s l) == th * Nw s l + (Ysum s a l - th * Naw s a l) / p.
Proof.
  intros Hc Hp H.
  assert (E : forall r, In r l -> st r = s ->
            wt r * aipw_ya a r == th * wt r + (ind (arm a r) * ind (obs r) * wt r * yval r - th * (ind (arm a r) * wt r)) / p).
  { intros r Hr Hs. destruct (H r Hr Hs) as [E1 E2]. unfold aipw_ya, arm, ind. rewrite (Hc r Hr).
    destruct (Bool.eqb (trt r) a); cbv iota; rewrite ?E1, ?E2; field; exact Hp. }
  rewrite (cell_ext s _ _ l E). unfold Nw, Ysum, Naw, Qdiv.
  rewrite Qsum_plus, Qsum_scal, Qsum_scal_r, Qsum_minus, Qsum_scal. reflexivity.
Qed.

Lemma total_weight l : Qsum wt l == Qsum (fun s => Nw s l) (strata l).
Proof. unfold Nw. apply regroup. Qed.

Lemma obs_rows_complete l : complete l -> obs_rows l = l.
Proof.
  intros Hc. unfold obs_rows. induction l as [|r l IH]; [reflexivity|]. simpl.
  rewrite (Hc r (or_introl eq_refl)). f_equal. apply IH. intros x Hx. apply Hc. right; exact Hx.
Qed.

Section AIPW.
Variable l : list row.
Hypothesis Hc : complete l.
Hypothesis Hnm : no_miss_model l.
Hypothesis Hpos : positivity l.

(* (i) outcome model saturated, propensity ANY function gs of the stratum (e.g. the fit of any sub-model) *)
Theorem aipw_Qsat (gs : nat -> Q) a :
  sat_q l -> (forall r, In r l -> g1 r == gs (st r)) ->
  (forall s, In s (strata l) -> ~ gs s == 0 /\ ~ 1 - gs s == 0) ->
  aipw_mean (aipw_ya a) l == std TAll a l.
Proof.
  intros Hq Hg Hgs. unfold aipw_mean, std. rewrite (obs_rows_complete l Hc). cbn [tw].
  rewrite regroup, total_weight. apply Qdiv_comp; [|reflexivity].
  apply Qsum_ext. intros s Hs. destruct (Hgs s Hs) as [G1 G0]. destruct (Hpos s Hs) as [P1 [P0 [O1 O0]]].
  rewrite (aipw_cell a s l (if a then gs s else 1 - gs s) (ybar s a l) Hc).
  - rewrite <- (Nobs_complete s a l Hc). rewrite (ybar_Nobs s a l) by (destruct a; apply Qpos_nz; assumption).
    destruct a; field; assumption.
  - destruct a; assumption.
  - intros r Hr Hsr. destruct (Hnm r Hr) as [M1 M0]. destruct (Hq r Hr) as [Q1 Q0]. subst s.
    unfold pa, pa1, pa0, qa. destruct a; rewrite ?M1, ?M0, (Hg r Hr), ?Q1, ?Q0; split; try ring; reflexivity.
Qed.

(* (ii) treatment model saturated, outcome predictions ANY function th of stratum and arm *)
Theorem aipw_gsat (th : nat -> bool -> Q) a :
  sat_g l -> (forall r, In r l -> q1 r == th (st r) true /\ q0 r == th (st r) false) ->
  aipw_mean (aipw_ya a) l == std TAll a l.
Proof.
  intros Hg Hq. unfold aipw_mean, std. rewrite (obs_rows_complete l Hc). cbn [tw].
  rewrite regroup, total_weight. apply Qdiv_comp; [|reflexivity].
  apply Qsum_ext. intros s Hs. destruct (Hpos s Hs) as [P1 [P0 [O1 O0]]].
  pose proof (Naw_split s l) as E.
  assert (Hn : 0 < Nw s l) by (rewrite <- E; lra).
  rewrite (aipw_cell a s l (Naw s a l / Nw s l) (th s a) Hc).
  - unfold ybar. rewrite (Nobs_complete s a l Hc). field. split; apply Qpos_nz; destruct a; assumption.
  - apply Qpos_nz. apply Qlt_shift_div_l; destruct a; lra.
  - intros r Hr Hsr. destruct (Hnm r Hr) as [M1 M0]. destruct (Hq r Hr) as [Q1 Q0]. subst s.
    pose proof (Naw_split (st r) l) as E'.
    unfold pa, pa1, pa0, qa. destruct a; rewrite ?M1, ?M0, (Hg r Hr), ?Q1, ?Q0; split; try reflexivity; try ring.
    rewrite <- E'. field. rewrite E'. apply Qpos_nz.
    destruct (Hpos (st r) (strata_cover l r Hr)) as [A1 [A0 _]]. rewrite <- E'. lra.
Qed.
End AIPW.

(* ------------------------------------------------------------------------------------------------
   TMLE plug-in (rows' q1/q0 hold the targeted predictions; wt = 1) *)
Definition unit_weights (l : list row) : Prop := forall r, In r l -> wt r == 1.

Lemma Qlen_is_total l : unit_weights l -> Qlen l == Qsum wt l.
Proof. intros H. rewrite <- Qsum_one. apply Qsum_ext. intros r Hr. symmetry. apply H. exact Hr. Qed.

Definition tmle_score (a : bool) (l : list row) : Q := if a then tmle_score1 l else tmle_score0 l.

Section TMLE.
Variable l : list row.
Hypothesis Hu : unit_weights l.
Hypothesis Hpos : positivity l.

(* the plug-in numerator by stratum, when the targeted prediction is a function Qs of the stratum *)
Lemma tmle_plugin_strata a (Qs : nat -> Q) :
  (forall r, In r l -> qa a r == Qs (st r)) -> Qsum (qa a) l == Qsum (fun s => Nw s l * Qs s) (strata l).
Proof.
  intros Hq.
  rewrite <- (Qsum_ext_all (fun s => Qs s * Qsum wt (cellrows s l)) (fun s => Nw s l * Qs s)) by (intros s; unfold Nw; ring).
  rewrite <- regroup_kappa. apply Qsum_ext. intros r Hr. rewrite (Hq r Hr), (Hu r Hr). ring.
Qed.

(* the efficient-score sum by stratum, when the weight denominator pa and the targeted prediction are
   functions ps, Qs of the stratum *)
Lemma tmle_score_strata a (ps Qs : nat -> Q) :
  (forall r, In r l -> trt r = a -> pa a r == ps (st r)) ->
  (forall r, In r l -> qa a r == Qs (st r)) ->
  tmle_score a l == Qsum (fun s => (Ysum s a l - Qs s * Nobs s a l) / ps s) (strata l).
Proof.
  intros Hp Hq.
  assert (E : tmle_score a l ==
              Qsum (fun r => / ps (st r) * (ind (arm a r) * ind (obs r) * wt r * yval r - Qs (st r) * (ind (arm a r) * ind (obs r) * wt r))) l).
  { unfold tmle_score, tmle_score1, tmle_score0. destruct a; apply Qsum_ext; intros r Hr;
      pose proof (Hq r Hr) as Eq; pose proof (Hp r Hr) as Ep; pose proof (Hu r Hr) as Ew;
      unfold arm, qa, pa, ind in *; destruct (trt r); cbn [Bool.eqb negb];
      try (rewrite (Ep eq_refl)); rewrite Eq, Ew; unfold Qdiv; ring. }
  rewrite E.
  rewrite (regroup (fun r => / ps (st r) * _)). apply Qsum_ext. intros s Hs.
  rewrite (cell_ext s _ (fun r => / ps s * (ind (arm a r) * ind (obs r) * wt r * yval r - Qs s * (ind (arm a r) * ind (obs r) * wt r))) l)
    by (intros r _ ->; reflexivity).
  rewrite Qsum_scal, Qsum_minus, Qsum_scal. unfold Ysum, Nobs, Qdiv. ring.
Qed.

(* (i) treatment and missingness models saturated; targeted predictions ANY function of the stratum (they are,
   whenever the initial predictions are); the fluctuation solved its score equation for arm a *)
Theorem tmle_gsat a (Qs : nat -> Q) :
  sat_g l -> sat_m l -> (forall r, In r l -> qa a r == Qs (st r)) ->
  tmle_score a l == 0 -> tmle_mean a l == std TAll a l.
Proof.
  intros Hg Hm Hq Hsc. unfold tmle_mean, std. cbn [tw]. rewrite (Qlen_is_total l Hu), total_weight.
  apply Qdiv_comp; [|reflexivity].
  rewrite (tmle_plugin_strata a Qs Hq).
  (* score equation, regrouped, says sum_s Nw (ybar - Qs) = 0 *)
  assert (Hp : forall r, In r l -> trt r = a -> pa a r == Nobs (st r) a l / Nw (st r) l).
  { intros r Hr Ha. pose proof (Hg r Hr) as Eg. pose proof (Hm r Hr) as Em. rewrite Ha in Em.
    destruct (Hpos (st r) (strata_cover l r Hr)) as [P1 [P0 [O1 O0]]]. pose proof (Naw_split (st r) l) as E.
    unfold pa, pa1, pa0, m_own in *. rewrite Ha in Em. destruct a; rewrite Eg, Em, <- E; field;
      repeat split; apply Qpos_nz; lra. }
  rewrite (tmle_score_strata a (fun s => Nobs s a l / Nw s l) Qs Hp Hq) in Hsc.
  assert (E : Qsum (fun s => (Ysum s a l - Qs s * Nobs s a l) / (Nobs s a l / Nw s l)) (strata l) ==
              Qsum (fun s => Nw s l * ybar s a l) (strata l) - Qsum (fun s => Nw s l * Qs s) (strata l)).
  { rewrite <- Qsum_minus. apply Qsum_ext. intros s Hs. destruct (Hpos s Hs) as [P1 [P0 [O1 O0]]].
    pose proof (Naw_split s l) as E. unfold ybar. field. split; apply Qpos_nz; destruct a; lra. }
  rewrite E in Hsc. lra.
Qed.

(* (ii) outcome model saturated and left untouched by the targeting step (epsilon = 0): both score equations
   hold for ANY weight denominator that is a function of the stratum, and the plug-in is the standardised mean.
   (That epsilon = 0 is the ONLY root is the strict monotonicity of the score in epsilon, an analytic fact about
   expit that lives outside Q; the run checks it on the implementation.) *)
Theorem tmle_Qsat a (ps : nat -> Q) :
  sat_q l -> (forall r, In r l -> trt r = a -> pa a r == ps (st r)) ->
  tmle_score a l == 0 /\ tmle_mean a l == std TAll a l.
Proof.
  intros Hq Hp.
  assert (Hq' : forall r, In r l -> qa a r == ybar (st r) a l).
  { intros r Hr. destruct (Hq r Hr). unfold qa. destruct a; assumption. }
  split.
  - rewrite (tmle_score_strata a ps (fun s => ybar s a l) Hp Hq'). apply Qsum_zero. intros s Hs.
    destruct (Hpos s Hs) as [P1 [P0 [O1 O0]]].
    rewrite (ybar_Nobs s a l) by (destruct a; apply Qpos_nz; assumption). unfold Qdiv. ring.
  - unfold tmle_mean, std. cbn [tw]. rewrite (Qlen_is_total l Hu), total_weight.
    apply Qdiv_comp; [|reflexivity]. apply (tmle_plugin_strata a (fun s => ybar s a l) Hq').
Qed.
End TMLE.

(* ------------------------------------------------------------------------------------------------
   "misspecifying both sides is the only way": with both sides wrong the estimate does move *)
Definition mkrow s a y g q1v q0v : row :=
  {| st := s; trt := a; yv := Some y; wt := 1; g1 := g; q1 := q1v; q0 := q0v; m1 := 1; m0 := 1 |}.
Definition witness_rows : list row :=
  [ mkrow 0 true 1 (1#2) (1#2) (1#2); mkrow 0 true 0 (1#2) (1#2) (1#2); mkrow 0 true 1 (1#2) (1#2) (1#2);
    mkrow 0 false 0 (1#2) (1#2) (1#2);
    mkrow 1 true 1 (1#2) (1#2) (1#2); mkrow 1 false 0 (1#2) (1#2) (1#2); mkrow 1 false 1 (1#2) (1#2) (1#2);
    mkrow 1 false 0 (1#2) (1#2) (1#2) ].
Theorem aipw_both_wrong_moves :
  exists l, positivity l /\ complete l /\ ~ aipw_mean aipw_y1 l == std TAll true l.
Proof.
  exists witness_rows. split; [|split].
  - intros s Hs. vm_compute in Hs. destruct Hs as [<-|[<-|[]]]; vm_compute; repeat split; reflexivity.
  - intros r Hr. vm_compute in Hr. repeat (destruct Hr as [<-|Hr]; [reflexivity|]). contradiction.
  - vm_compute. discriminate.
Qed.
