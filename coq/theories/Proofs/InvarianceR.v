(* C08 -- TMLE's continuous-outcome path under a change of units y -> c y + d (over R, about the lines of
   zepid/causal/doublyrobust/utils.py and TMLE.fit translated on every run, ZepidGen.Gen_tmle_R):
   the unit-interval image of the rescaled outcome is v (c > 0) or 1 - v (c < 0); the symmetric clip commutes with
   the reflection; the fluctuation of the reflected problem has the negated epsilon (uniqueness of the score root);
   the targeted predictions are reflected; the back-transformed targeted predictions are c Q* + d. *)
From Coq Require Import Reals Lra Psatz List.
From Zepid Require Import Base.Expit GenProofs.GenProofs_tmle.
From ZepidGen Require Import Gen_tmle_R.
Import ListNotations.
Open Scope R_scope.

(* tmle_unit_bounds: v = (y - mini)/(maxi - mini); v = where(v < bound, bound, v); v = where(v > 1-bound, 1-bound, v) *)
Definition ubR (b v : R) : R :=
  let v1 := if Rlt_dec v b then b else v in if Rlt_dec (1 - b) v1 then 1 - b else v1.
Definition unit_boundsR (y mini maxi b : R) : R := ubR b ((y - mini) / (maxi - mini)).

Lemma unit_frac_pos c d y mini maxi : 0 < c -> mini < maxi ->
  ((c * y + d) - (c * mini + d)) / ((c * maxi + d) - (c * mini + d)) = (y - mini) / (maxi - mini).
Proof. intros Hc Hm. field. split; [lra|]. nra. Qed.
Lemma unit_frac_neg c d y mini maxi : c < 0 -> mini < maxi ->
  ((c * y + d) - (c * maxi + d)) / ((c * mini + d) - (c * maxi + d)) = 1 - (y - mini) / (maxi - mini).
Proof. intros Hc Hm. field. split; [lra|]. nra. Qed.
Lemma ubR_reflect b v : b <= 1 / 2 -> ubR b (1 - v) = 1 - ubR b v.
Proof. intros Hb. unfold ubR. cbv zeta. repeat destruct (Rlt_dec _ _); lra. Qed.

(* c > 0: minimum and maximum of the rescaled outcome are c mini + d, c maxi + d *)
Theorem unit_bounds_scale_pos c d y mini maxi b : 0 < c -> mini < maxi ->
  unit_boundsR (c * y + d) (c * mini + d) (c * maxi + d) b = unit_boundsR y mini maxi b.
Proof. intros Hc Hm. unfold unit_boundsR. rewrite (unit_frac_pos c d y mini maxi Hc Hm). reflexivity. Qed.
(* c < 0: they are c maxi + d, c mini + d; the image is reflected (the documented bound is at most 1/2) *)
Theorem unit_bounds_scale_neg c d y mini maxi b : c < 0 -> mini < maxi -> b <= 1 / 2 ->
  unit_boundsR (c * y + d) (c * maxi + d) (c * mini + d) b = 1 - unit_boundsR y mini maxi b.
Proof.
  intros Hc Hm Hb. unfold unit_boundsR. rewrite (unit_frac_neg c d y mini maxi Hc Hm). apply ubR_reflect. exact Hb.
Qed.

(* back-transformation *)
Lemma unbound_scale_pos q c d mini maxi :
  tmle_unit_unbound_R q (c * mini + d) (c * maxi + d) = c * tmle_unit_unbound_R q mini maxi + d.
Proof. unfold tmle_unit_unbound_R. ring. Qed.
Lemma unbound_scale_neg q c d mini maxi :
  tmle_unit_unbound_R (1 - q) (c * maxi + d) (c * mini + d) = c * tmle_unit_unbound_R q mini maxi + d.
Proof. unfold tmle_unit_unbound_R. ring. Qed.

(* reflection of the logistic fluctuation *)
Lemma expit_neg x : expit (- x) = 1 - expit x.
Proof.
  unfold expit. rewrite Ropp_involutive, exp_Ropp. pose proof (exp_pos x) as H. field. split; lra.
Qed.
Lemma logit_reflect q : 0 < q -> q < 1 -> ln ((1 - q) / (1 - (1 - q))) = - ln (q / (1 - q)).
Proof.
  intros H0 H1. replace ((1 - q) / (1 - (1 - q))) with (/ (q / (1 - q))) by (field; split; lra).
  apply ln_Rinv. apply Rdiv_lt_0_compat; lra.
Qed.
Lemma Qstar1_reflect q e g : 0 < q -> q < 1 -> tmle_Qstar1_R (1 - q) (- e) g = 1 - tmle_Qstar1_R q e g.
Proof.
  intros H0 H1. unfold tmle_Qstar1_R. rewrite (logit_reflect q H0 H1).
  replace (- ln (q / (1 - q)) + - e / g) with (- (ln (q / (1 - q)) + e / g)) by (unfold Rdiv; ring).
  apply expit_neg.
Qed.
Lemma Qstar0_reflect q e g : 0 < q -> q < 1 -> tmle_Qstar0_R (1 - q) (- e) g = 1 - tmle_Qstar0_R q e g.
Proof.
  intros H0 H1. unfold tmle_Qstar0_R. rewrite (logit_reflect q H0 H1).
  replace (- ln (q / (1 - q)) - - e / g) with (- (ln (q / (1 - q)) - e / g)) by (unfold Rdiv; ring).
  apply expit_neg.
Qed.

(* the one-parameter score of an arm (GenProofs_tmle.score; rows are (clever covariate, logit of the initial
   prediction, outcome)) on the reflected problem: outcome 1 - y, initial prediction 1 - q *)
Definition reflect_row (r : R * R * R) : R * R * R := let '(h, l, y) := r in (h, - l, 1 - y).
Lemma score_term_reflect eps r : score_term (- eps) (reflect_row r) = - score_term eps r.
Proof.
  destruct r as [[h l] y]. unfold score_term, reflect_row.
  replace (- l + - eps * h) with (- (l + eps * h)) by ring. rewrite expit_neg. ring.
Qed.
Lemma score_reflect eps rows : score (- eps) (map reflect_row rows) = - score eps rows.
Proof. induction rows as [|r rs IH]; simpl; [ring|]. rewrite IH, score_term_reflect. ring. Qed.
Theorem eps_reflect rows e e' : (exists r, In r rows /\ fst (fst r) <> 0) ->
  score e rows = 0 -> score e' (map reflect_row rows) = 0 -> e' = - e.
Proof.
  intros [r [Hin Hh]] He He'. apply (score_root_unique e' (- e) (map reflect_row rows)).
  - exists (reflect_row r). split; [apply in_map; exact Hin|]. destruct r as [[h l] y]. exact Hh.
  - exact He'.
  - rewrite score_reflect, He. ring.
Qed.

(* c > 0: nothing moves on the unit scale, so the same epsilon and the same targeted predictions serve both data sets *)
Theorem tmle_continuous_scale_pos c d mini maxi b : 0 < c -> mini < maxi ->
  (forall y, unit_boundsR (c * y + d) (c * mini + d) (c * maxi + d) b = unit_boundsR y mini maxi b) /\
  (forall qstar, tmle_unit_unbound_R qstar (c * mini + d) (c * maxi + d) = c * tmle_unit_unbound_R qstar mini maxi + d).
Proof.
  intros Hc Hm. split; intros.
  - apply unit_bounds_scale_pos; assumption.
  - apply unbound_scale_pos.
Qed.

(* c < 0: outcome and initial predictions are reflected on the unit scale; whatever epsilon the fluctuation of the
   reflected problem solves its score equation with, the back-transformed targeted predictions are c Q* + d *)
Theorem tmle_continuous_scale_neg c d mini maxi b : c < 0 -> mini < maxi -> b <= 1 / 2 ->
  (forall y, unit_boundsR (c * y + d) (c * maxi + d) (c * mini + d) b = 1 - unit_boundsR y mini maxi b) /\
  (forall rows e e', (exists r, In r rows /\ fst (fst r) <> 0) ->
     score e rows = 0 -> score e' (map reflect_row rows) = 0 ->
     forall q g, 0 < q -> q < 1 ->
       tmle_unit_unbound_R (tmle_Qstar1_R (1 - q) e' g) (c * maxi + d) (c * mini + d) =
         c * tmle_unit_unbound_R (tmle_Qstar1_R q e g) mini maxi + d /\
       tmle_unit_unbound_R (tmle_Qstar0_R (1 - q) e' g) (c * maxi + d) (c * mini + d) =
         c * tmle_unit_unbound_R (tmle_Qstar0_R q e g) mini maxi + d).
Proof.
  intros Hc Hm Hb. split.
  - intros y. apply unit_bounds_scale_neg; assumption.
  - intros rows e e' Hex He He' q g H0 H1. rewrite (eps_reflect rows e e' Hex He He').
    rewrite (Qstar1_reflect q e g H0 H1), (Qstar0_reflect q e g H0 H1). split; apply unbound_scale_neg.
Qed.
