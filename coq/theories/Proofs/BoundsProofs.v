From Coq Require Import QArith ZArith List Bool Lra Lqa.
From Zepid Require Import Base.QUtil Model.Bounds.
Import ListNotations.
Open Scope Q_scope.

Lemma Qlt_bool_iff x y : Qlt_bool x y = true <-> x < y.
Proof.
  unfold Qlt_bool. rewrite negb_true_iff. split.
  - intros H. apply Qnot_le_lt. intros Hle. apply Qle_bool_iff in Hle. congruence.
  - intros H. destruct (Qle_bool y x) eqn:E; [|reflexivity]. apply Qle_bool_iff in E. lra.
Qed.
Lemma Qlt_bool_false x y : Qlt_bool x y = false <-> y <= x.
Proof.
  unfold Qlt_bool. rewrite negb_false_iff. apply Qle_bool_iff.
Qed.

Lemma Qmaxq_spec x y : (x <= y /\ Qmaxq x y = y) \/ (y < x /\ Qmaxq x y = x).
Proof.
  unfold Qmaxq. destruct (Qle_bool x y) eqn:E.
  - left. split; [apply Qle_bool_iff; exact E|reflexivity].
  - right. split; [|reflexivity]. apply Qnot_le_lt. intros H. apply Qle_bool_iff in H. congruence.
Qed.
Lemma Qminq_spec x y : (x <= y /\ Qminq x y = x) \/ (y < x /\ Qminq x y = y).
Proof.
  unfold Qminq. destruct (Qle_bool x y) eqn:E.
  - left. split; [apply Qle_bool_iff; exact E|reflexivity].
  - right. split; [|reflexivity]. apply Qnot_le_lt. intros H. apply Qle_bool_iff in H. congruence.
Qed.

Ltac qmm := repeat match goal with
  | |- context [Qminq ?a ?b] => let H := fresh "Hm" in let E := fresh "Em" in
        destruct (Qminq_spec a b) as [[H E]|[H E]]; rewrite E in *
  | |- context [Qmaxq ?a ?b] => let H := fresh "Hm" in let E := fresh "Em" in
        destruct (Qmaxq_spec a b) as [[H E]|[H E]]; rewrite E in *
  end.

(* the sequential masked assignments ARE the clip whenever lo <= hi *)
Lemma seq_clip1_is_clip lo hi v : lo <= hi -> seq_clip1 lo hi v == clip1 lo hi v.
Proof.
  intros H. unfold seq_clip1, clip1.
  destruct (Qlt_bool v lo) eqn:E1.
  - apply Qlt_bool_iff in E1. destruct (Qlt_bool hi lo) eqn:E2; [apply Qlt_bool_iff in E2; lra|]. qmm; lra.
  - apply Qlt_bool_false in E1. destruct (Qlt_bool hi v) eqn:E2.
    + apply Qlt_bool_iff in E2. qmm; lra.
    + apply Qlt_bool_false in E2. qmm; lra.
Qed.

Lemma clip1_range lo hi v : lo <= hi -> lo <= clip1 lo hi v /\ clip1 lo hi v <= hi.
Proof. intros H. unfold clip1. qmm; lra. Qed.
Lemma clip1_id lo hi v : lo <= v -> v <= hi -> clip1 lo hi v == v.
Proof. intros H1 H2. unfold clip1. qmm; lra. Qed.
Lemma clip1_idem lo hi v : lo <= hi -> clip1 lo hi (clip1 lo hi v) == clip1 lo hi v.
Proof. intros H. destruct (clip1_range lo hi v H). apply clip1_id; assumption. Qed.
Lemma clip1_mono lo hi v w : v <= w -> clip1 lo hi v <= clip1 lo hi w.
Proof. intros H. unfold clip1. qmm; lra. Qed.

(* list level *)
Lemma Forall2_Qeq_map (f g : Q -> Q) l : (forall v, f v == g v) -> Forall2 Qeq (map f l) (map g l).
Proof. intros H. induction l; simpl; constructor; auto. Qed.

Theorem seq_clip_is_clip lo hi l : lo <= hi -> Forall2 Qeq (seq_clip lo hi l) (clip lo hi l).
Proof. intros H. apply Forall2_Qeq_map. intros v. apply seq_clip1_is_clip. exact H. Qed.

Theorem clip_in_range lo hi l : lo <= hi -> Forall (fun v => lo <= v /\ v <= hi) (clip lo hi l).
Proof. intros H. unfold clip. apply Forall_map. apply Forall_forall. intros v _. apply clip1_range. exact H. Qed.

Theorem clip_length lo hi l : length (clip lo hi l) = length l /\ length (seq_clip lo hi l) = length l.
Proof. unfold clip, seq_clip. rewrite !map_length. split; reflexivity. Qed.

Theorem clip_idem lo hi l : lo <= hi -> Forall2 Qeq (clip lo hi (clip lo hi l)) (clip lo hi l).
Proof.
  intros H. induction l as [|v l IH]; simpl; constructor; [apply clip1_idem; exact H|exact IH].
Qed.

(* a bound that no probability reaches changes nothing *)
Theorem clip_id_if_inside lo hi l : Forall (fun v => lo <= v /\ v <= hi) l -> Forall2 Qeq (clip lo hi l) l.
Proof.
  induction 1 as [|v l [H1 H2] _ IH]; simpl; constructor; [apply clip1_id; assumption|exact IH].
Qed.

(* weights built on clipped probabilities never exceed 1/lo resp. 1/(1-hi) *)
Theorem weights_le_inv_lo lo hi d : 0 < lo -> lo <= hi -> hi < 1 ->
  inv_w lo hi d <= 1 / lo /\ inv_w0 lo hi d <= 1 / (1 - hi) /\ 0 < inv_w lo hi d /\ 0 < inv_w0 lo hi d.
Proof.
  intros H0 H1 H2. unfold inv_w, inv_w0. destruct (clip1_range lo hi d H1) as [Ha Hb].
  set (c := clip1 lo hi d) in *.
  repeat split.
  - apply Qle_shift_div_l; [lra|]. setoid_replace (1 / c * lo) with (lo / c) by (field; lra).
    apply Qle_shift_div_r; lra.
  - apply Qle_shift_div_l; [lra|]. setoid_replace (1 / (1 - c) * (1 - hi)) with ((1 - hi) / (1 - c)) by (field; lra).
    apply Qle_shift_div_r; lra.
  - apply Qlt_shift_div_l; lra.
  - apply Qlt_shift_div_l; lra.
Qed.

(* what is accepted and what is rejected *)
Theorem validate_rejects s :
  validate s = None <->
  match s with
  | BFloat b => b < 0 \/ 1 < b
  | BStr | BInt _ | BPairStr => True
  | BPair lo hi => hi < lo \/ lo < 0 \/ 1 < hi
  end.
Proof.
  destruct s as [b| |z|lo hi|]; simpl; try tauto.
  - destruct (Qlt_bool b 0) eqn:E1; destruct (Qlt_bool 1 b) eqn:E2; simpl;
      rewrite ?Qlt_bool_iff, ?Qlt_bool_false in *;
      (split; [intros H; try discriminate; try (left; assumption); try (right; assumption)
              | intros H; try reflexivity; destruct H; exfalso; lra ]).
  - destruct (Qlt_bool hi lo) eqn:E0; [apply Qlt_bool_iff in E0; tauto|]. apply Qlt_bool_false in E0.
    destruct (Qlt_bool lo 0) eqn:E1; destruct (Qlt_bool 1 hi) eqn:E2; simpl;
      rewrite ?Qlt_bool_iff, ?Qlt_bool_false in *;
      (split; [intros H; try discriminate; tauto
              | intros H; try reflexivity; destruct H as [H|[H|H]]; exfalso; lra ]).
Qed.

Theorem validate_accepts s lo hi : validate s = Some (lo, hi) ->
  match s with
  | BFloat b => 0 <= b /\ b <= 1 /\ lo = b /\ hi = 1 - b
  | BPair l h => l <= h /\ 0 <= l /\ h <= 1 /\ lo = l /\ hi = h
  | _ => False
  end.
Proof.
  destruct s as [b| |z|l h|]; simpl; try discriminate.
  - destruct (Qlt_bool b 0) eqn:E1; destruct (Qlt_bool 1 b) eqn:E2; simpl; try discriminate.
    apply Qlt_bool_false in E1, E2. intros H; inversion H; subst. repeat split; assumption.
  - destruct (Qlt_bool h l) eqn:E0; [discriminate|]. apply Qlt_bool_false in E0.
    destruct (Qlt_bool l 0) eqn:E1; destruct (Qlt_bool 1 h) eqn:E2; simpl; try discriminate.
    apply Qlt_bool_false in E1, E2. intros H; inversion H; subst. repeat split; assumption.
Qed.

(* a symmetric float bound b <= 1/2 is the pair (b, 1-b): a genuine clip *)
Theorem symmetric_is_clip b l : 0 <= b -> b <= 1 # 2 ->
  exists r, bounded (BFloat b) l = Some r /\ Forall2 Qeq r (clip b (1 - b) l).
Proof.
  intros H0 H1. unfold bounded, validate.
  destruct (Qlt_bool b 0) eqn:E1; [apply Qlt_bool_iff in E1; lra|].
  destruct (Qlt_bool 1 b) eqn:E2; [apply Qlt_bool_iff in E2; lra|]. simpl.
  eexists; split; [reflexivity|]. apply seq_clip_is_clip. lra.
Qed.
Theorem pair_is_clip lo hi l : 0 <= lo -> lo <= hi -> hi <= 1 ->
  exists r, bounded (BPair lo hi) l = Some r /\ Forall2 Qeq r (clip lo hi l).
Proof.
  intros H0 H1 H2. unfold bounded, validate.
  destruct (Qlt_bool hi lo) eqn:E0; [apply Qlt_bool_iff in E0; lra|].
  destruct (Qlt_bool lo 0) eqn:E1; [apply Qlt_bool_iff in E1; lra|].
  destruct (Qlt_bool 1 hi) eqn:E2; [apply Qlt_bool_iff in E2; lra|]. simpl.
  eexists; split; [reflexivity|]. apply seq_clip_is_clip. exact H1.
Qed.
