(* The executable Q specification (Spec.Measures) and the textbook R right-hand sides used by the theorems
   about translated code (GenProofs_calc) are the same functions: Q2R commutes with them. *)
From Coq Require Import QArith Qreals Reals Lra Lqa.
From Zepid Require Import Spec.Measures GenProofs.GenProofs_calc.

Lemma Q2R_pos x : (0 < x)%Q -> (0 < Q2R x)%R.
Proof. intros H. replace 0%R with (Q2R 0) by (unfold Q2R; simpl; field). apply Qlt_Rlt. exact H. Qed.
Lemma Q_nz x : (0 < x)%Q -> ~ (x == 0)%Q.
Proof. intros H E. rewrite E in H. apply (Qlt_irrefl 0). exact H. Qed.
Lemma Q2R_1 : Q2R 1 = 1%R. Proof. unfold Q2R; simpl; field. Qed.

Ltac q2r := repeat first [ rewrite Q2R_div by (apply Q_nz; lra) | rewrite Q2R_plus | rewrite Q2R_minus
                         | rewrite Q2R_mult | rewrite Q2R_1 ].

Section Bridge.
Variables a b c d : Q.
Hypothesis Ha : (0 < a)%Q. Hypothesis Hb : (0 < b)%Q. Hypothesis Hc : (0 < c)%Q. Hypothesis Hd : (0 < d)%Q.

Lemma pos_div x y : (0 < x)%Q -> (0 < y)%Q -> (0 < x / y)%Q.
Proof. intros. apply Qlt_shift_div_l; lra. Qed.

Lemma bridge_rr : Q2R (rr a b c d) = RR (Q2R a) (Q2R b) (Q2R c) (Q2R d).
Proof.
  unfold rr, RR.
  assert (0 < c / (c + d))%Q by (apply pos_div; lra).
  q2r. reflexivity.
Qed.
Lemma bridge_rd : Q2R (rd a b c d) = RD (Q2R a) (Q2R b) (Q2R c) (Q2R d).
Proof. unfold rd, RD. q2r. reflexivity. Qed.
Lemma bridge_or : Q2R (oddsr a b c d) = OR (Q2R a) (Q2R b) (Q2R c) (Q2R d).
Proof.
  unfold oddsr, OR. assert (0 < b * c)%Q by nra. q2r. reflexivity.
Qed.
Lemma bridge_var_lnrr : Q2R (var_lnrr a b c d) = GenProofs_calc.var_lnRR (Q2R a) (Q2R b) (Q2R c) (Q2R d).
Proof. unfold var_lnrr, GenProofs_calc.var_lnRR. q2r. reflexivity. Qed.
Lemma bridge_var_rd : Q2R (var_rd a b c d) = GenProofs_calc.var_RD (Q2R a) (Q2R b) (Q2R c) (Q2R d).
Proof. unfold var_rd, GenProofs_calc.var_RD. q2r. reflexivity. Qed.
Lemma bridge_var_lnor : Q2R (var_lnor a b c d) = GenProofs_calc.var_lnOR (Q2R a) (Q2R b) (Q2R c) (Q2R d).
Proof. unfold var_lnor, GenProofs_calc.var_lnOR. q2r. reflexivity. Qed.
Lemma bridge_acr : Q2R (acr a b c d) = ACR (Q2R a) (Q2R b) (Q2R c) (Q2R d).
Proof. unfold acr, ACR. q2r. reflexivity. Qed.
Lemma bridge_paf : Q2R (paf a b c d) = PAF (Q2R a) (Q2R b) (Q2R c) (Q2R d).
Proof.
  unfold paf, PAF. assert (0 < (a + c) / (a + b + c + d))%Q by (apply pos_div; lra). q2r. reflexivity.
Qed.
End Bridge.

Lemma bridge_irr a c t1 t2 : (0 < a)%Q -> (0 < c)%Q -> (0 < t1)%Q -> (0 < t2)%Q ->
  Q2R (irr a c t1 t2) = IRR (Q2R a) (Q2R c) (Q2R t1) (Q2R t2).
Proof.
  intros. unfold irr, IRR. assert (0 < c / t2)%Q by (apply Qlt_shift_div_l; lra). q2r. reflexivity.
Qed.
Lemma bridge_ird a c t1 t2 : (0 < t1)%Q -> (0 < t2)%Q ->
  Q2R (ird a c t1 t2) = IRD (Q2R a) (Q2R c) (Q2R t1) (Q2R t2).
Proof. intros. unfold ird, IRD. q2r. reflexivity. Qed.

Lemma bridge_all (a b c d : Q) : (0 < a)%Q -> (0 < b)%Q -> (0 < c)%Q -> (0 < d)%Q ->
  Q2R (rr a b c d) = RR (Q2R a) (Q2R b) (Q2R c) (Q2R d) /\
  Q2R (rd a b c d) = RD (Q2R a) (Q2R b) (Q2R c) (Q2R d) /\
  Q2R (oddsr a b c d) = OR (Q2R a) (Q2R b) (Q2R c) (Q2R d) /\
  Q2R (acr a b c d) = ACR (Q2R a) (Q2R b) (Q2R c) (Q2R d) /\
  Q2R (paf a b c d) = PAF (Q2R a) (Q2R b) (Q2R c) (Q2R d).
Proof.
  intros Ha Hb Hc Hd. repeat split;
    [ eapply bridge_rr | eapply bridge_rd | eapply bridge_or | eapply bridge_acr | eapply bridge_paf ]; eassumption.
Qed.
