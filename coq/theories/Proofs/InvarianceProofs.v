(* C08 -- invariance / equivariance of the estimator models under relabelling of the data:
   row permutation, recoding of the treatment, change of units of the outcome, recoding of stratum / level codes. *)
From Coq Require Import QArith ZArith List Bool Arith Lia Lra Lqa Permutation Setoid Morphisms FinFun.
From Zepid Require Import Base.QSum Base.QUtil Base.Rows Proofs.RowsProofs Model.Estimators Proofs.EstimatorsProofs
     Model.Variance Proofs.VarianceProofs Spec.Measures Model.Frames Model.Snm Model.Invariance.
Import ListNotations.
Open Scope Q_scope.

(* ================================================================================================
   0. generic list / sum lemmas *)
Lemma Permutation_filter' {A} (p : A -> bool) l l' : Permutation l l' -> Permutation (filter p l) (filter p l').
Proof.
  induction 1 as [|x l l' _ IH|x y l|l l' l'' _ IH1 _ IH2]; simpl.
  - apply perm_nil.
  - destruct (p x); [apply perm_skip|]; exact IH.
  - destruct (p x), (p y); try apply Permutation_refl. apply perm_swap.
  - eapply perm_trans; eassumption.
Qed.

Lemma filter_map_comm {A B} (p : B -> bool) (g : A -> B) l :
  filter p (map g l) = map g (filter (fun x => p (g x)) l).
Proof. induction l as [|x xs IH]; simpl; [reflexivity|]. destruct (p (g x)); simpl; rewrite IH; reflexivity. Qed.

Lemma Qlen_perm {A} (l l' : list A) : Permutation l l' -> Qlen l = Qlen l'.
Proof. intros H. unfold Qlen. rewrite (Permutation_length H). reflexivity. Qed.
Lemma Qlen_map {A B} (g : A -> B) l : Qlen (map g l) = Qlen l.
Proof. unfold Qlen. rewrite map_length. reflexivity. Qed.

Lemma Qsum_filter_perm {A} (f : A -> Q) p l l' : Permutation l l' -> Qsum f (filter p l) == Qsum f (filter p l').
Proof. intros H. apply Qsum_Permutation. apply Permutation_filter'. exact H. Qed.

Lemma Forall2_map_same {A B C} (R : B -> C -> Prop) (f : A -> B) (g : A -> C) l :
  (forall x, In x l -> R (f x) (g x)) -> Forall2 R (map f l) (map g l).
Proof.
  induction l as [|x xs IH]; simpl; intros H; constructor.
  - apply H. left; reflexivity.
  - apply IH. intros y Hy. apply H. right; exact Hy.
Qed.

Lemma Qinv_div x y : / (x / y) == y / x.
Proof. unfold Qdiv. rewrite Qinv_mult_distr, Qinv_involutive. ring. Qed.

(* ================================================================================================
   1. ROW PERMUTATION *)
Section Perm.
Variables l l' : list row.
Hypothesis HP : Permutation l l'.

Lemma strata_perm : Permutation (strata l) (strata l').
Proof.
  apply NoDup_Permutation; [apply strata_nodup|apply strata_nodup|].
  intros s. unfold strata. rewrite !nodup_In. split; apply Permutation_in; apply Permutation_map;
    [exact HP|symmetry; exact HP].
Qed.
Lemma cell_perm (f : row -> Q) s : Qsum f (cellrows s l) == Qsum f (cellrows s l').
Proof. unfold cellrows. apply Qsum_filter_perm. exact HP. Qed.
Lemma Nw_perm s : Nw s l == Nw s l'. Proof. apply cell_perm. Qed.
Lemma Naw_perm s a : Naw s a l == Naw s a l'. Proof. apply cell_perm. Qed.
Lemma Nobs_perm s a : Nobs s a l == Nobs s a l'. Proof. apply cell_perm. Qed.
Lemma Ysum_perm s a : Ysum s a l == Ysum s a l'. Proof. apply cell_perm. Qed.
Lemma ybar_perm s a : ybar s a l == ybar s a l'.
Proof. unfold ybar. rewrite Ysum_perm, Nobs_perm. reflexivity. Qed.
Lemma tw_perm t s : tw t s l == tw t s l'.
Proof. destruct t; cbn [tw]; [apply Nw_perm|apply Naw_perm|apply Naw_perm]. Qed.

Theorem std_perm t a : std t a l == std t a l'.
Proof.
  unfold std. apply Qdiv_comp.
  - rewrite (Qsum_Permutation _ _ _ strata_perm). apply Qsum_ext_all. intros s. rewrite tw_perm, ybar_perm. reflexivity.
  - rewrite (Qsum_Permutation _ _ _ strata_perm). apply Qsum_ext_all. intros s. apply tw_perm.
Qed.

Theorem arm_mean_perm W a : arm_mean W a l == arm_mean W a l'.
Proof. unfold arm_mean, arm_num, arm_den. rewrite !(Qsum_Permutation _ _ _ HP). reflexivity. Qed.
Theorem iptw_mu_perm stab t n c1 c0 a : iptw_mu stab t n c1 c0 a l == iptw_mu stab t n c1 c0 a l'.
Proof. unfold iptw_mu. apply arm_mean_perm. Qed.
Theorem gf_marginal_perm t a : gf_marginal t a l == gf_marginal t a l'.
Proof. unfold gf_marginal. rewrite !(Qsum_filter_perm _ _ _ _ HP). reflexivity. Qed.
Theorem aipw_mean_perm f : aipw_mean f l == aipw_mean f l'.
Proof. unfold aipw_mean, obs_rows. rewrite !(Qsum_filter_perm _ _ _ _ HP). reflexivity. Qed.
Theorem tmle_mean_perm a : tmle_mean a l == tmle_mean a l'.
Proof. unfold tmle_mean. rewrite (Qsum_Permutation _ _ _ HP), (Qlen_perm _ _ HP). reflexivity. Qed.
Lemma aipw_rd_perm : aipw_rd l == aipw_rd l'.
Proof. unfold aipw_rd. rewrite !aipw_mean_perm. reflexivity. Qed.
Lemma tmle_rd_perm : tmle_rd l == tmle_rd l'.
Proof. unfold tmle_rd. rewrite !tmle_mean_perm. reflexivity. Qed.
Lemma Qmean_perm f : Qmean f l == Qmean f l'.
Proof. unfold Qmean. rewrite (Qsum_Permutation _ _ _ HP), (Qlen_perm _ _ HP). reflexivity. Qed.
End Perm.

(* sample variance and influence-curve variance *)
Lemma Qmean_list_perm v v' : Permutation v v' -> Qmean_list v == Qmean_list v'.
Proof. intros H. rewrite !Qmean_list_eq, (Qsum_Permutation _ _ _ H), (Qlen_perm _ _ H). reflexivity. Qed.
Lemma var_ddof1_perm v v' : Permutation v v' -> var_ddof1 v == var_ddof1 v'.
Proof.
  intros H. rewrite !var_ddof1_eq, (Qlen_perm _ _ H). apply Qdiv_comp; [|reflexivity].
  rewrite (Qsum_Permutation _ _ _ H). apply Qsum_ext_all. intros x. rewrite (Qmean_list_perm _ _ H). reflexivity.
Qed.
Lemma keep_some_perm v v' : Permutation v v' -> Permutation (keep_some v) (keep_some v').
Proof. intros H. unfold keep_some. apply Permutation_flat_map. exact H. Qed.
Theorem ic_var_perm v v' n : Permutation v v' -> ic_var v n == ic_var v' n.
Proof.
  intros H. unfold ic_var. rewrite (var_ddof1_perm (map Qred (keep_some v)) (map Qred (keep_some v'))); [reflexivity|].
  apply Permutation_map. apply keep_some_perm. exact H.
Qed.

Section PermVar.
Variables l l' : list row.
Hypothesis HP : Permutation l l'.
Theorem aipw_var_rd_perm : aipw_var_rd l == aipw_var_rd l'.
Proof.
  unfold aipw_var_rd. rewrite (Qred_complete _ _ (aipw_rd_perm l l' HP)), (Qlen_perm _ _ HP).
  apply ic_var_perm. apply Permutation_map. exact HP.
Qed.
Theorem aipw_var_lnrr_perm : aipw_var_lnrr l == aipw_var_lnrr l'.
Proof.
  unfold aipw_var_lnrr. rewrite (Qred_complete _ _ (Qmean_perm l l' HP q1)), (Qred_complete _ _ (Qmean_perm l l' HP q0)),
    (Qlen_perm _ _ HP).
  apply ic_var_perm. apply Permutation_map. exact HP.
Qed.
Theorem tmle_var_rd_perm : tmle_var_rd l == tmle_var_rd l'.
Proof.
  unfold tmle_var_rd. rewrite (Qred_complete _ _ (tmle_rd_perm l l' HP)), (Qlen_perm _ _ HP).
  apply ic_var_perm. apply Permutation_map. exact HP.
Qed.
Theorem tmle_var_lnrr_perm : tmle_var_lnrr l == tmle_var_lnrr l'.
Proof.
  unfold tmle_var_lnrr. rewrite (Qred_complete _ _ (tmle_mean_perm l l' HP true)),
    (Qred_complete _ _ (tmle_mean_perm l l' HP false)), (Qlen_perm _ _ HP).
  apply ic_var_perm. apply Permutation_map. exact HP.
Qed.
Theorem tmle_var_lnor_perm : tmle_var_lnor l == tmle_var_lnor l'.
Proof.
  unfold tmle_var_lnor. rewrite (Qred_complete _ _ (tmle_mean_perm l l' HP true)),
    (Qred_complete _ _ (tmle_mean_perm l l' HP false)), (Qlen_perm _ _ HP).
  apply ic_var_perm. apply Permutation_map. exact HP.
Qed.

Lemma sw_num_ext W mu mu' a k : mu == mu' -> sw_num W mu a k == sw_num W mu' a k.
Proof. intros E. unfold sw_num. apply Qsum_ext_all. intros r. rewrite E. reflexivity. Qed.
Theorem sw_var_mu_perm W a : sw_var_mu W a l == sw_var_mu W a l'.
Proof.
  unfold sw_var_mu. cbv zeta. rewrite (sw_num_ext W _ _ a l (arm_mean_perm l l' HP W a)).
  unfold sw_num, arm_den. rewrite !(Qsum_Permutation _ _ _ HP). reflexivity.
Qed.
Theorem sw_var_rd_perm W : sw_var_rd W l == sw_var_rd W l'.
Proof. unfold sw_var_rd. rewrite !sw_var_mu_perm. reflexivity. Qed.
Theorem sw_var_lnrr_perm W : sw_var_lnrr W l == sw_var_lnrr W l'.
Proof. unfold sw_var_lnrr. cbv zeta. rewrite !sw_var_mu_perm, !(arm_mean_perm l l' HP). reflexivity. Qed.
Theorem sw_var_lnor_perm W : sw_var_lnor W l == sw_var_lnor W l'.
Proof. unfold sw_var_lnor. cbv zeta. rewrite !sw_var_mu_perm, !(arm_mean_perm l l' HP). reflexivity. Qed.
End PermVar.

(* everything at once *)
Theorem perm_invariant l l' : Permutation l l' ->
  (forall stab t n c1 c0 a, iptw_mu stab t n c1 c0 a l == iptw_mu stab t n c1 c0 a l') /\
  (forall t a, gf_marginal t a l == gf_marginal t a l') /\
  (forall f, aipw_mean f l == aipw_mean f l') /\
  (forall a, tmle_mean a l == tmle_mean a l') /\
  (forall W a, arm_mean W a l == arm_mean W a l') /\
  (forall t a, std t a l == std t a l') /\
  (forall W, sw_var_rd W l == sw_var_rd W l' /\ sw_var_lnrr W l == sw_var_lnrr W l' /\ sw_var_lnor W l == sw_var_lnor W l') /\
  (aipw_var_rd l == aipw_var_rd l' /\ aipw_var_lnrr l == aipw_var_lnrr l') /\
  (tmle_var_rd l == tmle_var_rd l' /\ tmle_var_lnrr l == tmle_var_lnrr l' /\ tmle_var_lnor l == tmle_var_lnor l').
Proof.
  intros HP. repeat split; intros.
  - apply iptw_mu_perm; exact HP.
  - apply gf_marginal_perm; exact HP.
  - apply aipw_mean_perm; exact HP.
  - apply tmle_mean_perm; exact HP.
  - apply arm_mean_perm; exact HP.
  - apply std_perm; exact HP.
  - apply sw_var_rd_perm; exact HP.
  - apply sw_var_lnrr_perm; exact HP.
  - apply sw_var_lnor_perm; exact HP.
  - apply aipw_var_rd_perm; exact HP.
  - apply aipw_var_lnrr_perm; exact HP.
  - apply tmle_var_rd_perm; exact HP.
  - apply tmle_var_lnrr_perm; exact HP.
  - apply tmle_var_lnor_perm; exact HP.
Qed.

(* ================================================================================================
   2. affine maps of a list of influence values: var(c x + e) = c^2 var(x) *)
Definition aff (c e : Q) (x y : Q) : Prop := y == c * x + e.
Lemma aff_sum c e v v' : Forall2 (aff c e) v v' -> Qsum (fun x => x) v' == c * Qsum (fun x => x) v + e * Qlen v.
Proof.
  induction 1 as [|x y v v' Hxy _ IH].
  - unfold Qlen. simpl. ring.
  - unfold aff in Hxy. cbn [Qsum]. rewrite IH, Hxy. unfold Qlen. cbn [length]. rewrite Nat2Z.inj_succ. unfold Z.succ.
    rewrite inject_Z_plus. ring.
Qed.
Lemma aff_len c e v v' : Forall2 (aff c e) v v' -> Qlen v' = Qlen v.
Proof.
  intros H. unfold Qlen. f_equal. f_equal. induction H as [|x y v v' _ _ IH]; simpl; [reflexivity|]. rewrite IH. reflexivity.
Qed.
Lemma aff_mean c e v v' : v <> [] -> Forall2 (aff c e) v v' -> Qmean_list v' == c * Qmean_list v + e.
Proof.
  intros Hne H. rewrite !Qmean_list_eq, (aff_sum c e v v' H), (aff_len c e v v' H).
  pose proof (Qlen_pos v Hne) as Hp. field. intros E. rewrite E in Hp. lra.
Qed.
Lemma aff_sumsq c e m m' v v' : m' == c * m + e -> Forall2 (aff c e) v v' ->
  Qsum (fun y => (y - m') * (y - m')) v' == c * c * Qsum (fun x => (x - m) * (x - m)) v.
Proof.
  intros Em. induction 1 as [|x y v v' Hxy _ IH]; [simpl; ring|].
  unfold aff in Hxy. cbn [Qsum]. rewrite IH, Hxy, Em. ring.
Qed.
Theorem var_ddof1_affine c e v v' : Forall2 (aff c e) v v' -> var_ddof1 v' == c * c * var_ddof1 v.
Proof.
  intros H. rewrite !var_ddof1_eq, (aff_len c e v v' H). destruct v as [|x v].
  - inversion H; subst. simpl. unfold Qdiv. ring.
  - rewrite (aff_sumsq c e (Qmean_list (x :: v)) (Qmean_list v') (x :: v) v'); [unfold Qdiv; ring| |exact H].
    apply aff_mean; [discriminate|exact H].
Qed.
Definition oaff (c e : Q) (x y : option Q) : Prop :=
  match x, y with Some a, Some b => b == c * a + e | None, None => True | _, _ => False end.
Lemma keep_some_aff c e v v' : Forall2 (oaff c e) v v' ->
  Forall2 (aff c e) (map Qred (keep_some v)) (map Qred (keep_some v')).
Proof.
  induction 1 as [|x y v v' Hxy _ IH]; [constructor|].
  destruct x as [a|], y as [b|]; simpl in *; try contradiction; [|exact IH].
  constructor; [|exact IH]. unfold aff. rewrite !Qred_correct. exact Hxy.
Qed.
Theorem ic_var_affine c e v v' n : Forall2 (oaff c e) v v' -> ic_var v' n == c * c * ic_var v n.
Proof.
  intros H. unfold ic_var. rewrite (var_ddof1_affine c e _ _ (keep_some_aff c e v v' H)). unfold Qdiv. ring.
Qed.

(* ================================================================================================
   3. RECODING THE TREATMENT AS 1 - A *)
Lemma arm_swap a r : arm a (swap_row r) = arm (negb a) r.
Proof. unfold arm. cbn [swap_row trt]. destruct (trt r), a; reflexivity. Qed.
Lemma obs_swap r : obs (swap_row r) = obs r. Proof. reflexivity. Qed.
Lemma yval_swap r : yval (swap_row r) = yval r. Proof. reflexivity. Qed.
Lemma in_target_swap t r : in_target (swap_target t) (swap_row r) = in_target t r.
Proof. destruct t; cbn [swap_target in_target swap_row trt]; rewrite ?negb_involutive; reflexivity. Qed.
Lemma qa_swap a r : qa a (swap_row r) = qa (negb a) r.
Proof. destruct a; reflexivity. Qed.
Lemma one_minus_one_minus x : 1 - (1 - x) == x. Proof. ring. Qed.

Lemma iptw_w_swap stab t n r : iptw_w stab (swap_target t) (1 - n) (swap_row r) == iptw_w stab t n r.
Proof.
  unfold iptw_w. cbn [swap_row trt g1].
  destruct stab, t, (trt r); cbn [swap_target negb ipw_formula]; rewrite ?one_minus_one_minus; reflexivity.
Qed.
Lemma total_w_swap stab t n c1 c0 r :
  total_w stab (swap_target t) (1 - n) c0 c1 (swap_row r) == total_w stab t n c1 c0 r.
Proof.
  unfold total_w. rewrite iptw_w_swap. unfold ipmw_w, m_own. cbn [swap_row trt wt m1 m0].
  destruct (trt r); reflexivity.
Qed.

Section Swap.
Variable l : list row.
Let l' := map swap_row l.

Theorem arm_mean_swap W W' a : (forall r, W' (swap_row r) == W r) -> arm_mean W' a l' == arm_mean W (negb a) l.
Proof.
  intros HW. unfold arm_mean, arm_num, arm_den, l'. rewrite !Qsum_map.
  apply Qdiv_comp; apply Qsum_ext_all; intros r; rewrite arm_swap, obs_swap, ?yval_swap, HW; reflexivity.
Qed.
Theorem iptw_mu_swap stab t n c1 c0 a :
  iptw_mu stab (swap_target t) (1 - n) c0 c1 a l' == iptw_mu stab t n c1 c0 (negb a) l.
Proof. unfold iptw_mu. apply arm_mean_swap. intros r. apply total_w_swap. Qed.
Theorem gf_marginal_swap t a : gf_marginal (swap_target t) a l' == gf_marginal t (negb a) l.
Proof.
  unfold gf_marginal, l'. rewrite !Qsum_filter_ind, !Qsum_map.
  apply Qdiv_comp; apply Qsum_ext_all; intros r; rewrite in_target_swap, ?qa_swap; reflexivity.
Qed.
Lemma pa1_swap r : pa1 (swap_row r) == pa0 r. Proof. unfold pa1, pa0. reflexivity. Qed.
Lemma pa0_swap r : pa0 (swap_row r) == pa1 r.
Proof. unfold pa1, pa0. cbn [swap_row g1 m0]. rewrite one_minus_one_minus. reflexivity. Qed.
Lemma aipw_y1_swap r : aipw_y1 (swap_row r) == aipw_y0 r.
Proof.
  unfold aipw_y1, aipw_y0. cbn [swap_row trt q1]. rewrite yval_swap.
  destruct (trt r); cbn [negb]; rewrite ?pa1_swap; reflexivity.
Qed.
Lemma aipw_y0_swap r : aipw_y0 (swap_row r) == aipw_y1 r.
Proof.
  unfold aipw_y1, aipw_y0. cbn [swap_row trt q0]. rewrite yval_swap.
  destruct (trt r); cbn [negb]; rewrite ?pa0_swap; reflexivity.
Qed.
Theorem aipw_mean_swap f f' : (forall r, f' (swap_row r) == f r) -> aipw_mean f' l' == aipw_mean f l.
Proof.
  intros Hf. unfold aipw_mean, obs_rows, l'. rewrite !Qsum_filter_ind, !Qsum_map.
  apply Qdiv_comp; apply Qsum_ext_all; intros r; rewrite obs_swap, ?Hf; reflexivity.
Qed.
Theorem aipw_rd_swap : aipw_rd l' == - aipw_rd l.
Proof.
  unfold aipw_rd. rewrite (aipw_mean_swap aipw_y0 aipw_y1 aipw_y1_swap), (aipw_mean_swap aipw_y1 aipw_y0 aipw_y0_swap). ring.
Qed.
Theorem aipw_rr_swap : aipw_rr l' == / aipw_rr l.
Proof.
  unfold aipw_rr. rewrite (aipw_mean_swap aipw_y0 aipw_y1 aipw_y1_swap), (aipw_mean_swap aipw_y1 aipw_y0 aipw_y0_swap).
  symmetry. apply Qinv_div.
Qed.
Theorem tmle_mean_swap a : tmle_mean a l' == tmle_mean (negb a) l.
Proof.
  unfold tmle_mean, l'. rewrite Qsum_map, Qlen_map. apply Qdiv_comp; [|reflexivity].
  apply Qsum_ext_all. intros r. rewrite qa_swap. reflexivity.
Qed.
Theorem tmle_rd_swap : tmle_rd l' == - tmle_rd l.
Proof. unfold tmle_rd. rewrite !tmle_mean_swap. cbn [negb]. ring. Qed.
Theorem tmle_rr_swap : tmle_rr l' == / tmle_rr l.
Proof. unfold tmle_rr. rewrite !tmle_mean_swap. cbn [negb]. symmetry. apply Qinv_div. Qed.
Theorem tmle_or_swap : tmle_or l' == / tmle_or l.
Proof. unfold tmle_or, odds. rewrite !tmle_mean_swap. cbn [negb]. symmetry. apply Qinv_div. Qed.
Theorem iptw_rd_swap stab t n c1 c0 :
  iptw_rd stab (swap_target t) (1 - n) c0 c1 l' == - iptw_rd stab t n c1 c0 l.
Proof. unfold iptw_rd. rewrite !iptw_mu_swap. cbn [negb]. ring. Qed.
Theorem iptw_rr_swap stab t n c1 c0 :
  iptw_rr stab (swap_target t) (1 - n) c0 c1 l' == / iptw_rr stab t n c1 c0 l.
Proof. unfold iptw_rr. rewrite !iptw_mu_swap. cbn [negb]. symmetry. apply Qinv_div. Qed.
Theorem iptw_or_swap stab t n c1 c0 :
  iptw_or stab (swap_target t) (1 - n) c0 c1 l' == / iptw_or stab t n c1 c0 l.
Proof. unfold iptw_or, odds. rewrite !iptw_mu_swap. cbn [negb]. symmetry. apply Qinv_div. Qed.

(* the specification *)
Lemma strata_swap : strata l' = strata l.
Proof. unfold strata, l'. rewrite map_map. reflexivity. Qed.
Lemma cell_map (g : row -> row) (f : row -> Q) s k : (forall r, st (g r) = st r) ->
  Qsum f (cellrows s (map g k)) == Qsum (fun r => f (g r)) (cellrows s k).
Proof.
  intros Hst. unfold cellrows. rewrite filter_map_comm, Qsum_map.
  rewrite (filter_ext (fun x => in_s s (g x)) (in_s s)); [reflexivity|].
  intros r. unfold in_s. rewrite Hst. reflexivity.
Qed.
Lemma Nw_swap s : Nw s l' == Nw s l.
Proof. unfold Nw, l'. rewrite cell_map by reflexivity. reflexivity. Qed.
Lemma Naw_swap s a : Naw s a l' == Naw s (negb a) l.
Proof. unfold Naw, l'. rewrite cell_map by reflexivity. apply Qsum_ext_all. intros r. rewrite arm_swap. reflexivity. Qed.
Lemma Nobs_swap s a : Nobs s a l' == Nobs s (negb a) l.
Proof. unfold Nobs, l'. rewrite cell_map by reflexivity. apply Qsum_ext_all. intros r. rewrite arm_swap. reflexivity. Qed.
Lemma Ysum_swap s a : Ysum s a l' == Ysum s (negb a) l.
Proof. unfold Ysum, l'. rewrite cell_map by reflexivity. apply Qsum_ext_all. intros r. rewrite arm_swap. reflexivity. Qed.
Lemma tw_swap t s : tw (swap_target t) s l' == tw t s l.
Proof. destruct t; cbn [swap_target tw]; [apply Nw_swap|apply (Naw_swap s false)|apply (Naw_swap s true)]. Qed.
Theorem std_swap t a : std (swap_target t) a l' == std t (negb a) l.
Proof.
  unfold std. rewrite strata_swap. apply Qdiv_comp; apply Qsum_ext_all; intros s; rewrite tw_swap; [|reflexivity].
  unfold ybar. rewrite Ysum_swap, Nobs_swap. reflexivity.
Qed.

(* variances: the influence values change sign (difference, log odds ratio) *)
Theorem aipw_var_rd_swap : aipw_var_rd l' == aipw_var_rd l.
Proof.
  unfold aipw_var_rd, l'. rewrite map_map, Qlen_map.
  rewrite (ic_var_affine (-1) 0 (map (aipw_ic_rd (Qred (aipw_rd l))) l)); [ring|].
  apply Forall2_map_same. intros r _. unfold aipw_ic_rd. rewrite obs_swap. destruct (obs r); [|exact I].
  cbn [oaff]. rewrite !Qred_correct, aipw_y1_swap, aipw_y0_swap. fold l'. rewrite aipw_rd_swap. ring.
Qed.
Lemma h1_swap r : h1 (swap_row r) == - h0 r.
Proof. unfold h1, h0. rewrite pa1_swap. cbn [swap_row trt]. destruct (trt r); cbn [negb ind]; unfold Qdiv; ring. Qed.
Lemma h0_swap r : h0 (swap_row r) == - h1 r.
Proof. unfold h1, h0. rewrite pa0_swap. cbn [swap_row trt]. destruct (trt r); cbn [negb ind]; unfold Qdiv; ring. Qed.
Lemma qs_swap r : qs (swap_row r) = qs r.
Proof. unfold qs. cbn [swap_row trt q1 q0]. destruct (trt r); reflexivity. Qed.
Theorem tmle_var_rd_swap : tmle_var_rd l' == tmle_var_rd l.
Proof.
  unfold tmle_var_rd, l'. rewrite map_map, Qlen_map.
  rewrite (ic_var_affine (-1) 0 (map (tmle_ic_rd (Qred (tmle_rd l))) l)); [ring|].
  apply Forall2_map_same. intros r _. unfold tmle_ic_rd. rewrite obs_swap, yval_swap, qs_swap. cbn [oaff].
  destruct (obs r); rewrite !Qred_correct; fold l'; rewrite tmle_rd_swap, ?h1_swap, ?h0_swap; cbn [swap_row q1 q0]; ring.
Qed.
Theorem tmle_var_lnor_swap : tmle_var_lnor l' == tmle_var_lnor l.
Proof.
  unfold tmle_var_lnor, l'. rewrite map_map, Qlen_map.
  rewrite (ic_var_affine (-1) 0 (map (tmle_ic_or (Qred (tmle_mean true l)) (Qred (tmle_mean false l))) l)); [ring|].
  apply Forall2_map_same. intros r _. unfold tmle_ic_or. rewrite obs_swap, yval_swap, qs_swap. cbn [oaff].
  destruct (obs r); rewrite !Qred_correct; fold l'; rewrite !tmle_mean_swap, ?h1_swap, ?h0_swap; cbn [swap_row q1 q0 negb]; ring.
Qed.
(* log risk ratio: the influence value changes sign on observed rows and on rows with a missing outcome alike
   (the missing-row value is (Q1 - mean Q1)/mean Q1 - (Q0 - mean Q0)/mean Q0 since the repair 4895d4a) *)
Theorem tmle_var_lnrr_swap : tmle_var_lnrr l' == tmle_var_lnrr l.
Proof.
  unfold tmle_var_lnrr, l'. rewrite map_map, Qlen_map.
  rewrite (ic_var_affine (-1) 0 (map (tmle_ic_rr (Qred (tmle_mean true l)) (Qred (tmle_mean false l))) l)); [ring|].
  apply Forall2_map_same. intros r _. unfold tmle_ic_rr. rewrite obs_swap, yval_swap, qs_swap. cbn [oaff].
  destruct (obs r); rewrite !Qred_correct; fold l'; rewrite !tmle_mean_swap, ?h1_swap, ?h0_swap; cbn [swap_row q1 q0 negb];
    unfold Qdiv; ring.
Qed.

(* sandwich variance of the marginal structural model *)
Theorem sw_var_mu_swap W W' a : (forall r, W' (swap_row r) == W r) -> sw_var_mu W' a l' == sw_var_mu W (negb a) l.
Proof.
  intros HW. unfold sw_var_mu. cbv zeta. rewrite (sw_num_ext W' _ _ a l' (arm_mean_swap W W' a HW)).
  unfold sw_num, arm_den, l'. rewrite !Qsum_map.
  apply Qdiv_comp; [|apply Qmult_comp]; apply Qsum_ext_all; intros r; rewrite arm_swap, obs_swap, ?yval_swap, HW; reflexivity.
Qed.
Theorem sw_var_rd_swap W W' : (forall r, W' (swap_row r) == W r) -> sw_var_rd W' l' == sw_var_rd W l.
Proof. intros HW. unfold sw_var_rd. rewrite !(sw_var_mu_swap W W' _ HW). cbn [negb]. ring. Qed.
Theorem sw_var_lnrr_swap W W' : (forall r, W' (swap_row r) == W r) -> sw_var_lnrr W' l' == sw_var_lnrr W l.
Proof.
  intros HW. unfold sw_var_lnrr. cbv zeta. rewrite !(sw_var_mu_swap W W' _ HW), !(arm_mean_swap W W' _ HW). cbn [negb]. ring.
Qed.
Theorem sw_var_lnor_swap W W' : (forall r, W' (swap_row r) == W r) -> sw_var_lnor W' l' == sw_var_lnor W l.
Proof.
  intros HW. unfold sw_var_lnor. cbv zeta. rewrite !(sw_var_mu_swap W W' _ HW), !(arm_mean_swap W W' _ HW). cbn [negb]. ring.
Qed.
End Swap.

(* The log-risk-ratio influence curve of AIPTW in the source is NOT equivariant (the model of Model.Variance mirrors the
   source term by term, C06 compares it with the reported SE on every run): it adds (Q1 - mean Q1) and (Q0 - mean Q0)
   with the SAME sign and without the 1/mean factors, so exchanging the arms does not negate the influence value.
   (TMLE.fit did the same on rows with a missing outcome until the repair 4895d4a.) *)
Definition mk (s : nat) (a : bool) (y : option Q) (g q1v q0v : Q) : row :=
  {| st := s; trt := a; yv := y; wt := 1; g1 := g; q1 := q1v; q0 := q0v; m1 := 1; m0 := 1 |}.
Definition swap_witness : list row :=
  [ mk 0 true (Some 1) (1#2) (3#4) (1#4); mk 0 true (Some 0) (1#2) (3#4) (1#4); mk 0 false (Some 0) (1#2) (3#4) (1#4);
    mk 1 true (Some 1) (1#4) (1#2) (1#8); mk 1 false (Some 1) (1#4) (1#2) (1#8); mk 1 false (Some 0) (1#4) (1#2) (1#8) ].
Theorem aipw_var_lnrr_swap_fails :
  exists l, EstimatorsProofs.complete l /\ ~ aipw_var_lnrr (map swap_row l) == aipw_var_lnrr l.
Proof.
  exists swap_witness. split.
  - intros r Hr. vm_compute in Hr. repeat (destruct Hr as [<-|Hr]; [reflexivity|]). contradiction.
  - vm_compute. discriminate.
Qed.
(* summary statement for the point estimates and the difference-scale / odds-ratio variances *)
Theorem swap_treatment l :
  let l' := map swap_row l in
  (forall stab t n c1 c0 a, iptw_mu stab (swap_target t) (1 - n) c0 c1 a l' == iptw_mu stab t n c1 c0 (negb a) l) /\
  (forall t a, gf_marginal (swap_target t) a l' == gf_marginal t (negb a) l) /\
  (aipw_mean aipw_y1 l' == aipw_mean aipw_y0 l /\ aipw_mean aipw_y0 l' == aipw_mean aipw_y1 l) /\
  (forall a, tmle_mean a l' == tmle_mean (negb a) l) /\
  (forall t a, std (swap_target t) a l' == std t (negb a) l) /\
  (forall stab t n c1 c0, iptw_rd stab (swap_target t) (1 - n) c0 c1 l' == - iptw_rd stab t n c1 c0 l /\
                          iptw_rr stab (swap_target t) (1 - n) c0 c1 l' == / iptw_rr stab t n c1 c0 l /\
                          iptw_or stab (swap_target t) (1 - n) c0 c1 l' == / iptw_or stab t n c1 c0 l) /\
  (aipw_rd l' == - aipw_rd l /\ aipw_rr l' == / aipw_rr l) /\
  (tmle_rd l' == - tmle_rd l /\ tmle_rr l' == / tmle_rr l /\ tmle_or l' == / tmle_or l) /\
  (forall stab t n c1 c0,
     sw_var_rd (total_w stab (swap_target t) (1 - n) c0 c1) l' == sw_var_rd (total_w stab t n c1 c0) l /\
     sw_var_lnrr (total_w stab (swap_target t) (1 - n) c0 c1) l' == sw_var_lnrr (total_w stab t n c1 c0) l /\
     sw_var_lnor (total_w stab (swap_target t) (1 - n) c0 c1) l' == sw_var_lnor (total_w stab t n c1 c0) l) /\
  (aipw_var_rd l' == aipw_var_rd l) /\
  (tmle_var_rd l' == tmle_var_rd l /\ tmle_var_lnor l' == tmle_var_lnor l /\ tmle_var_lnrr l' == tmle_var_lnrr l).
Proof.
  cbv zeta. repeat split; intros.
  - apply iptw_mu_swap.
  - apply gf_marginal_swap.
  - apply (aipw_mean_swap l aipw_y0 aipw_y1 aipw_y1_swap).
  - apply (aipw_mean_swap l aipw_y1 aipw_y0 aipw_y0_swap).
  - apply tmle_mean_swap.
  - apply std_swap.
  - apply iptw_rd_swap.
  - apply iptw_rr_swap.
  - apply iptw_or_swap.
  - apply aipw_rd_swap.
  - apply aipw_rr_swap.
  - apply tmle_rd_swap.
  - apply tmle_rr_swap.
  - apply tmle_or_swap.
  - apply sw_var_rd_swap. intros r. apply total_w_swap.
  - apply sw_var_lnrr_swap. intros r. apply total_w_swap.
  - apply sw_var_lnor_swap. intros r. apply total_w_swap.
  - apply aipw_var_rd_swap.
  - apply tmle_var_rd_swap.
  - apply tmle_var_lnor_swap.
  - apply tmle_var_lnrr_swap.
Qed.

(* ================================================================================================
   4. CHANGE OF UNITS OF THE OUTCOME, y -> c y + d *)
Lemma obs_scale c d r : obs (scale_row c d r) = obs r.
Proof. unfold obs. cbn [scale_row yv]. destruct (yv r); reflexivity. Qed.
Lemma yval_scale c d r : obs r = true -> yval (scale_row c d r) == c * yval r + d.
Proof. unfold obs, yval. cbn [scale_row yv]. destruct (yv r); [reflexivity|discriminate]. Qed.
Lemma arm_scale c d a r : arm a (scale_row c d r) = arm a r. Proof. reflexivity. Qed.
Lemma qa_scale c d a r : qa a (scale_row c d r) == c * qa a r + d.
Proof. destruct a; reflexivity. Qed.
(* an indicator-weighted outcome term *)
Lemma ind_obs_scale c d r (k : Q) :
  ind (obs r) * k * yval (scale_row c d r) == c * (ind (obs r) * k * yval r) + d * (ind (obs r) * k).
Proof.
  destruct (obs r) eqn:E; [rewrite (yval_scale c d r E); cbn [ind]; ring|cbn [ind]; ring].
Qed.

Section Scale.
Variables c d : Q.
Variable l : list row.
Let l' := map (scale_row c d) l.

Lemma arm_den_scale W W' a : (forall r, W' (scale_row c d r) == W r) -> arm_den W' a l' == arm_den W a l.
Proof.
  intros HW. unfold arm_den, l'. rewrite Qsum_map. apply Qsum_ext_all. intros r.
  rewrite arm_scale, obs_scale, HW. reflexivity.
Qed.
Lemma arm_num_scale W W' a : (forall r, W' (scale_row c d r) == W r) ->
  arm_num W' a l' == c * arm_num W a l + d * arm_den W a l.
Proof.
  intros HW. unfold arm_num, arm_den, l'. rewrite Qsum_map, <- !Qsum_scal, <- Qsum_plus. apply Qsum_ext_all. intros r.
  rewrite arm_scale, obs_scale, HW.
  setoid_replace (ind (arm a r) * ind (obs r) * W r * yval (scale_row c d r))
    with (ind (arm a r) * (ind (obs r) * W r * yval (scale_row c d r))) by ring.
  rewrite ind_obs_scale. ring.
Qed.
Theorem arm_mean_scale W W' a : (forall r, W' (scale_row c d r) == W r) -> ~ arm_den W a l == 0 ->
  arm_mean W' a l' == c * arm_mean W a l + d.
Proof.
  intros HW Hd. unfold arm_mean. rewrite (arm_num_scale W W' a HW), (arm_den_scale W W' a HW). field. exact Hd.
Qed.
Lemma total_w_scale stab t n c1 c0 r : total_w stab t n c1 c0 (scale_row c d r) == total_w stab t n c1 c0 r.
Proof. reflexivity. Qed.
Theorem iptw_mu_scale stab t n c1 c0 a : ~ arm_den (total_w stab t n c1 c0) a l == 0 ->
  iptw_mu stab t n c1 c0 a l' == c * iptw_mu stab t n c1 c0 a l + d.
Proof. intros Hd. unfold iptw_mu. apply arm_mean_scale; [intros r; apply total_w_scale|exact Hd]. Qed.
Theorem iptw_rd_scale stab t n c1 c0 :
  ~ arm_den (total_w stab t n c1 c0) true l == 0 -> ~ arm_den (total_w stab t n c1 c0) false l == 0 ->
  iptw_rd stab t n c1 c0 l' == c * iptw_rd stab t n c1 c0 l.
Proof. intros H1 H0. unfold iptw_rd. rewrite !iptw_mu_scale by assumption. ring. Qed.

Theorem gf_marginal_scale t a : ~ Qsum wt (filter (in_target t) l) == 0 ->
  gf_marginal t a l' == c * gf_marginal t a l + d.
Proof.
  intros Hd. unfold gf_marginal, l'. rewrite filter_map_comm.
  change (filter (fun x => in_target t (scale_row c d x)) l) with (filter (in_target t) l).
  set (k := filter (in_target t) l) in *. rewrite !Qsum_map.
  change (Qsum (fun b => wt (scale_row c d b)) k) with (Qsum wt k).
  assert (E : Qsum (fun b => wt (scale_row c d b) * qa a (scale_row c d b)) k ==
              c * Qsum (fun r => wt r * qa a r) k + d * Qsum wt k).
  { rewrite <- !Qsum_scal, <- Qsum_plus. apply Qsum_ext_all. intros r. rewrite qa_scale. cbn [scale_row wt]. ring. }
  rewrite E. field. exact Hd.
Qed.
Theorem gf_diff_scale t : ~ Qsum wt (filter (in_target t) l) == 0 ->
  gf_marginal t true l' - gf_marginal t false l' == c * (gf_marginal t true l - gf_marginal t false l).
Proof. intros Hd. rewrite !gf_marginal_scale by exact Hd. ring. Qed.

(* AIPTW: the weight denominators actually divided by must be non-zero *)
Definition pa_ok (r : row) : Prop := (trt r = true -> ~ pa1 r == 0) /\ (trt r = false -> ~ pa0 r == 0).
Lemma aipw_y1_scale r : obs r = true -> pa_ok r -> aipw_y1 (scale_row c d r) == c * aipw_y1 r + d.
Proof.
  intros Ho [H1 _]. unfold aipw_y1. change (pa1 (scale_row c d r)) with (pa1 r). cbn [scale_row trt q1].
  destruct (trt r); [|reflexivity]. rewrite (yval_scale c d r Ho). field. apply H1. reflexivity.
Qed.
Lemma aipw_y0_scale r : obs r = true -> pa_ok r -> aipw_y0 (scale_row c d r) == c * aipw_y0 r + d.
Proof.
  intros Ho [_ H0]. unfold aipw_y0. change (pa0 (scale_row c d r)) with (pa0 r). cbn [scale_row trt q0].
  destruct (trt r); [reflexivity|]. rewrite (yval_scale c d r Ho). field. apply H0. reflexivity.
Qed.
Hypothesis Hpa : forall r, In r l -> obs r = true -> pa_ok r.
Lemma obs_rows_scale : obs_rows l' = map (scale_row c d) (obs_rows l).
Proof.
  unfold obs_rows, l'. rewrite filter_map_comm. f_equal. apply filter_ext. intros r. apply obs_scale.
Qed.
Theorem aipw_mean_scale f : (forall r, In r l -> obs r = true -> f (scale_row c d r) == c * f r + d) ->
  ~ Qsum wt (obs_rows l) == 0 -> aipw_mean f l' == c * aipw_mean f l + d.
Proof.
  intros Hf Hd. unfold aipw_mean. rewrite obs_rows_scale.
  assert (Hin : forall r, In r (obs_rows l) -> In r l /\ obs r = true) by (intros r Hr; apply filter_In in Hr; exact Hr).
  set (k := obs_rows l) in *. rewrite !Qsum_map.
  change (Qsum (fun b => wt (scale_row c d b)) k) with (Qsum wt k).
  assert (E : Qsum (fun b => wt (scale_row c d b) * f (scale_row c d b)) k ==
              c * Qsum (fun r => wt r * f r) k + d * Qsum wt k).
  { rewrite <- !Qsum_scal, <- Qsum_plus. apply Qsum_ext. intros r Hr. destruct (Hin r Hr) as [Hl Ho].
    rewrite (Hf r Hl Ho). cbn [scale_row wt]. ring. }
  rewrite E. field. exact Hd.
Qed.
Theorem aipw_rd_scale : ~ Qsum wt (obs_rows l) == 0 -> aipw_rd l' == c * aipw_rd l.
Proof.
  intros Hd. unfold aipw_rd.
  rewrite (aipw_mean_scale aipw_y1), (aipw_mean_scale aipw_y0); try exact Hd; [ring| |].
  - intros r Hr Ho. apply aipw_y0_scale; [exact Ho|apply Hpa; assumption].
  - intros r Hr Ho. apply aipw_y1_scale; [exact Ho|apply Hpa; assumption].
Qed.
Theorem aipw_var_rd_scale : ~ Qsum wt (obs_rows l) == 0 -> aipw_var_rd l' == c * c * aipw_var_rd l.
Proof.
  intros Hd. unfold aipw_var_rd, l'. rewrite map_map, Qlen_map.
  apply (ic_var_affine c 0). apply Forall2_map_same. intros r Hr. unfold aipw_ic_rd. rewrite obs_scale.
  destruct (obs r) eqn:Eo; [|exact I]. cbn [oaff]. rewrite !Qred_correct. fold l'. rewrite (aipw_rd_scale Hd).
  rewrite aipw_y1_scale, aipw_y0_scale; try exact Eo; try (apply Hpa; assumption). ring.
Qed.
End Scale.

Section ScaleTmle.
Variables c d : Q.
Variable l : list row.
Let l' := map (scale_row c d) l.
Hypothesis Hne : l <> [].
(* rows hold the TARGETED predictions; that those of the rescaled data are c Q* + d is the R-level statement
   tmle_continuous_scale_pos / _neg below *)
Theorem tmle_mean_scale a : tmle_mean a l' == c * tmle_mean a l + d.
Proof.
  unfold tmle_mean, l'. rewrite Qsum_map, Qlen_map.
  rewrite (Qsum_ext_all (fun b => qa a (scale_row c d b)) (fun r => c * qa a r + d)) by (intros r; apply qa_scale).
  rewrite Qsum_plus, Qsum_scal, Qsum_const. fold (Qlen l). pose proof (Qlen_pos l Hne) as Hp.
  field. intros E. rewrite E in Hp. lra.
Qed.
Theorem tmle_rd_scale : tmle_rd l' == c * tmle_rd l.
Proof. unfold tmle_rd. rewrite !tmle_mean_scale. ring. Qed.
Theorem tmle_var_rd_scale : tmle_var_rd l' == c * c * tmle_var_rd l.
Proof.
  unfold tmle_var_rd, l'. rewrite map_map, Qlen_map.
  apply (ic_var_affine c 0). apply Forall2_map_same. intros r Hr. unfold tmle_ic_rd. cbn [oaff].
  rewrite obs_scale. change (h1 (scale_row c d r)) with (h1 r). change (h0 (scale_row c d r)) with (h0 r).
  assert (Eq : qs (scale_row c d r) == c * qs r + d) by (unfold qs; cbn [scale_row trt q1 q0]; destruct (trt r); reflexivity).
  destruct (obs r) eqn:Eo; rewrite !Qred_correct; fold l'; rewrite tmle_rd_scale; cbn [scale_row q1 q0];
    [rewrite (yval_scale c d r Eo), Eq|]; ring.
Qed.
End ScaleTmle.

Section ScaleSandwich.
Variables c d : Q.
Variable l : list row.
Let l' := map (scale_row c d) l.
Variables W W' : row -> Q.
Hypothesis HW : forall r, W' (scale_row c d r) == W r.
Theorem sw_var_mu_scale a : ~ arm_den W a l == 0 -> sw_var_mu W' a l' == c * c * sw_var_mu W a l.
Proof.
  intros Hd. unfold sw_var_mu. cbv zeta. unfold l'.
  rewrite (sw_num_ext W' _ _ a (map (scale_row c d) l) (arm_mean_scale c d l W W' a HW Hd)).
  rewrite (arm_den_scale c d l W W' a HW).
  assert (E : sw_num W' (c * arm_mean W a l + d) a (map (scale_row c d) l) == c * c * sw_num W (arm_mean W a l) a l).
  { unfold sw_num. rewrite Qsum_map, <- Qsum_scal. apply Qsum_ext_all. intros r.
    rewrite arm_scale, obs_scale, HW. destruct (obs r) eqn:Eo; [rewrite (yval_scale c d r Eo)|]; cbn [ind]; ring. }
  rewrite E. unfold Qdiv. ring.
Qed.
Theorem sw_var_rd_scale : ~ arm_den W true l == 0 -> ~ arm_den W false l == 0 ->
  sw_var_rd W' l' == c * c * sw_var_rd W l.
Proof. intros H1 H0. unfold sw_var_rd. rewrite !sw_var_mu_scale by assumption. ring. Qed.
End ScaleSandwich.

Section ScaleStd.
Variables c d : Q.
Variable l : list row.
Let l' := map (scale_row c d) l.
Lemma strata_scale : strata l' = strata l.
Proof. unfold strata, l'. rewrite map_map. reflexivity. Qed.
Lemma Nobs_scale s a : Nobs s a l' == Nobs s a l.
Proof.
  unfold Nobs, l'. rewrite cell_map by reflexivity. apply Qsum_ext_all. intros r. rewrite obs_scale. reflexivity.
Qed.
Lemma Ysum_scale s a : Ysum s a l' == c * Ysum s a l + d * Nobs s a l.
Proof.
  unfold Ysum, Nobs, l'. rewrite cell_map by reflexivity. rewrite <- !Qsum_scal, <- Qsum_plus.
  apply Qsum_ext_all. intros r. rewrite arm_scale, obs_scale. cbn [scale_row wt].
  destruct (obs r) eqn:Eo; [rewrite (yval_scale c d r Eo)|]; cbn [ind]; ring.
Qed.
Lemma tw_scale t s : tw t s l' == tw t s l.
Proof.
  destruct t; cbn [tw]; unfold Nw, Naw, l'; rewrite cell_map by reflexivity; reflexivity.
Qed.
Theorem std_scale t a : (forall s, In s (strata l) -> ~ Nobs s a l == 0) -> nonempty_target t l ->
  std t a l' == c * std t a l + d.
Proof.
  intros Hpos Ht. unfold std. rewrite strata_scale.
  assert (E1 : Qsum (fun s => tw t s l' * ybar s a l') (strata l) ==
               c * Qsum (fun s => tw t s l * ybar s a l) (strata l) + d * Qsum (fun s => tw t s l) (strata l)).
  { rewrite <- !Qsum_scal, <- Qsum_plus. apply Qsum_ext. intros s Hs. rewrite tw_scale. unfold ybar.
    rewrite Ysum_scale, Nobs_scale. field. apply Hpos. exact Hs. }
  rewrite E1, (Qsum_ext_all (fun s => tw t s l') (fun s => tw t s l)) by (intros s; apply tw_scale).
  field. exact Ht.
Qed.
Theorem std_diff_scale t : (forall s a, In s (strata l) -> ~ Nobs s a l == 0) -> nonempty_target t l ->
  std t true l' - std t false l' == c * (std t true l - std t false l).
Proof. intros Hpos Ht. rewrite !std_scale; try exact Ht; [ring| |]; intros s Hs; apply Hpos; exact Hs. Qed.
End ScaleStd.

(* summary: mean differences scale by c, are unaffected by d; variances scale by c^2 *)
Theorem scale_outcome c d l :
  let l' := map (scale_row c d) l in
  (forall stab t n c1 c0,
     ~ arm_den (total_w stab t n c1 c0) true l == 0 -> ~ arm_den (total_w stab t n c1 c0) false l == 0 ->
     iptw_rd stab t n c1 c0 l' == c * iptw_rd stab t n c1 c0 l /\
     sw_var_rd (total_w stab t n c1 c0) l' == c * c * sw_var_rd (total_w stab t n c1 c0) l) /\
  (forall t, ~ Qsum wt (filter (in_target t) l) == 0 ->
     gf_marginal t true l' - gf_marginal t false l' == c * (gf_marginal t true l - gf_marginal t false l)) /\
  ((forall r, In r l -> obs r = true -> pa_ok r) -> ~ Qsum wt (obs_rows l) == 0 ->
     aipw_rd l' == c * aipw_rd l /\ aipw_var_rd l' == c * c * aipw_var_rd l) /\
  (l <> [] -> tmle_rd l' == c * tmle_rd l /\ tmle_var_rd l' == c * c * tmle_var_rd l) /\
  (forall t, (forall s a, In s (strata l) -> ~ Nobs s a l == 0) -> nonempty_target t l ->
     std t true l' - std t false l' == c * (std t true l - std t false l)).
Proof.
  cbv zeta. repeat split; intros.
  - apply iptw_rd_scale; assumption.
  - apply sw_var_rd_scale; [intros r; apply total_w_scale|assumption|assumption].
  - apply gf_diff_scale; assumption.
  - apply aipw_rd_scale; assumption.
  - apply aipw_var_rd_scale; assumption.
  - apply tmle_rd_scale; assumption.
  - apply tmle_var_rd_scale; assumption.
  - apply std_diff_scale; assumption.
Qed.

(* ================================================================================================
   5. RECODING OF STRATUM CODES *)
Section Relabel.
Variable f : nat -> nat.
Hypothesis Hinj : forall x y, f x = f y -> x = y.
Variable l : list row.
Let l' := map (relabel_row f) l.

(* the estimator models never look at the stratum code *)
Theorem arm_mean_relabel W a : arm_mean (fun r => W r) a l' == arm_mean (fun r => W (relabel_row f r)) a l.
Proof. unfold arm_mean, arm_num, arm_den, l'. rewrite !Qsum_map. reflexivity. Qed.
Theorem iptw_mu_relabel stab t n c1 c0 a : iptw_mu stab t n c1 c0 a l' == iptw_mu stab t n c1 c0 a l.
Proof. unfold iptw_mu, arm_mean, arm_num, arm_den, l'. rewrite !Qsum_map. reflexivity. Qed.
Theorem gf_marginal_relabel t a : gf_marginal t a l' == gf_marginal t a l.
Proof. unfold gf_marginal, l'. rewrite filter_map_comm, !Qsum_map. reflexivity. Qed.
Theorem aipw_mean_relabel g : (forall r, g (relabel_row f r) == g r) -> aipw_mean g l' == aipw_mean g l.
Proof.
  intros Hg. unfold aipw_mean, obs_rows, l'. rewrite filter_map_comm, !Qsum_map.
  apply Qdiv_comp; [|reflexivity]. apply Qsum_ext_all. intros r. rewrite Hg. reflexivity.
Qed.
Theorem tmle_mean_relabel a : tmle_mean a l' == tmle_mean a l.
Proof. unfold tmle_mean, l'. rewrite Qsum_map, Qlen_map. reflexivity. Qed.

(* the specification: strata are only compared for equality *)
Lemma strata_relabel : Permutation (strata l') (map f (strata l)).
Proof.
  apply NoDup_Permutation.
  - apply strata_nodup.
  - apply Injective_map_NoDup; [exact Hinj|apply strata_nodup].
  - intros s. unfold strata, l'. rewrite nodup_In, map_map, !in_map_iff. split.
    + intros [r [<- Hr]]. exists (st r). split; [reflexivity|]. apply nodup_In. apply in_map. exact Hr.
    + intros [s0 [<- Hs]]. apply nodup_In in Hs. apply in_map_iff in Hs as [r [<- Hr]]. exists r. split; [reflexivity|exact Hr].
Qed.
Lemma cell_relabel (g : row -> Q) s : Qsum g (cellrows (f s) l') == Qsum (fun r => g (relabel_row f r)) (cellrows s l).
Proof.
  unfold cellrows, l'. rewrite filter_map_comm, Qsum_map.
  rewrite (filter_ext (fun x => in_s (f s) (relabel_row f x)) (in_s s)); [reflexivity|].
  intros r. unfold in_s. cbn [relabel_row st]. destruct (Nat.eqb_spec (st r) s) as [->|ne].
  - apply Nat.eqb_refl.
  - apply Nat.eqb_neq. intros E. apply ne. apply Hinj. exact E.
Qed.
Lemma tw_relabel t s : tw t (f s) l' == tw t s l.
Proof. destruct t; cbn [tw]; unfold Nw, Naw; rewrite cell_relabel; reflexivity. Qed.
Lemma ybar_relabel s a : ybar (f s) a l' == ybar s a l.
Proof. unfold ybar, Ysum, Nobs. rewrite !cell_relabel. reflexivity. Qed.
Theorem std_relabel t a : std t a l' == std t a l.
Proof.
  unfold std. rewrite !(Qsum_Permutation _ _ _ strata_relabel), !Qsum_map.
  apply Qdiv_comp; apply Qsum_ext_all; intros s; rewrite tw_relabel, ?ybar_relabel; reflexivity.
Qed.
End Relabel.

Theorem relabel_strata (f : nat -> nat) l : (forall x y, f x = f y -> x = y) ->
  let l' := map (relabel_row f) l in
  (forall t a, std t a l' == std t a l) /\
  (forall stab t n c1 c0 a, iptw_mu stab t n c1 c0 a l' == iptw_mu stab t n c1 c0 a l) /\
  (forall t a, gf_marginal t a l' == gf_marginal t a l) /\
  (aipw_mean aipw_y1 l' == aipw_mean aipw_y1 l /\ aipw_mean aipw_y0 l' == aipw_mean aipw_y0 l) /\
  (forall a, tmle_mean a l' == tmle_mean a l).
Proof.
  intros Hinj. cbv zeta. repeat split; intros.
  - apply std_relabel. exact Hinj.
  - apply iptw_mu_relabel.
  - apply gf_marginal_relabel.
  - apply aipw_mean_relabel. intros r. reflexivity.
  - apply aipw_mean_relabel. intros r. reflexivity.
  - apply tmle_mean_relabel.
Qed.

(* ================================================================================================
   6. EFFECT-MEASURE FRAMES (zepid.base): row order and level codes *)
Lemma ncell_perm rows rows' lv b : Permutation rows rows' -> ncell rows lv b = ncell rows' lv b.
Proof. intros H. unfold ncell. apply Qlen_perm. apply Permutation_filter'. exact H. Qed.
Lemma ptime_perm rows rows' lv : Permutation rows rows' -> ptime rows lv == ptime rows' lv.
Proof. intros H. unfold ptime. apply Qsum_filter_perm. exact H. Qed.
Theorem measures_for_perm rows rows' ref lv : Permutation rows rows' ->
  measures_for rows ref lv = measures_for rows' ref lv.
Proof.
  intros H. unfold measures_for, table4. rewrite !(ncell_perm rows rows' _ _ H). reflexivity.
Qed.
Lemma measures_rate_comp a c t1 t1' t2 t2' : t1 == t1' -> t2 == t2' ->
  Forall2 Qeq (measures_rate a c t1 t2) (measures_rate a c t1' t2').
Proof.
  intros E1 E2. unfold measures_rate, irr, var_lnirr, ird, var_ird, irate, var_irate.
  repeat constructor; rewrite ?E1, ?E2; reflexivity.
Qed.
Theorem rates_for_perm rows rows' ref lv : Permutation rows rows' ->
  Forall2 Qeq (rates_for rows ref lv) (rates_for rows' ref lv).
Proof.
  intros H. unfold rates_for. cbv zeta. rewrite !(ncell_perm rows rows' _ _ H). cbn [app].
  constructor; [reflexivity|]. constructor; [reflexivity|].
  constructor; [apply ptime_perm; exact H|]. constructor; [apply ptime_perm; exact H|].
  apply measures_rate_comp; apply ptime_perm; exact H.
Qed.
Theorem missing_counts_perm rows rows' : Permutation rows rows' -> missing_counts rows = missing_counts rows'.
Proof.
  intros H. unfold missing_counts, miss_e, miss_d, miss_ed.
  rewrite !(Qlen_perm _ _ (Permutation_filter' _ _ _ H)). reflexivity.
Qed.

Section FRelabel.
Variable f : Z -> Z.
Hypothesis Hinj : forall x y, f x = f y -> x = y.
Lemma e_is_relabel lv r : e_is (f lv) (frelabel f r) = e_is lv r.
Proof.
  unfold e_is. cbn [frelabel fe]. destruct (fe r) as [v|]; [|reflexivity].
  destruct (Z.eqb_spec v lv) as [->|ne]; [apply Z.eqb_refl|].
  apply Z.eqb_neq. intros E. apply ne. apply Hinj. exact E.
Qed.
Lemma ncell_relabel rows lv b : ncell (map (frelabel f) rows) (f lv) b = ncell rows lv b.
Proof.
  unfold ncell. rewrite filter_map_comm, Qlen_map. f_equal. apply filter_ext. intros r.
  rewrite e_is_relabel. reflexivity.
Qed.
Lemma ptime_relabel rows lv : ptime (map (frelabel f) rows) (f lv) == ptime rows lv.
Proof.
  unfold ptime. rewrite filter_map_comm, Qsum_map.
  rewrite (filter_ext (fun x => e_is (f lv) (frelabel f x) && y_obs (frelabel f x)) (fun r => e_is lv r && y_obs r));
    [reflexivity|]. intros r. rewrite e_is_relabel. reflexivity.
Qed.
Theorem measures_for_relabel rows ref lv :
  measures_for (map (frelabel f) rows) (f ref) (f lv) = measures_for rows ref lv.
Proof. unfold measures_for, table4. rewrite !ncell_relabel. reflexivity. Qed.
Theorem rates_for_relabel rows ref lv :
  Forall2 Qeq (rates_for (map (frelabel f) rows) (f ref) (f lv)) (rates_for rows ref lv).
Proof.
  unfold rates_for. cbv zeta. rewrite !ncell_relabel. cbn [app].
  constructor; [reflexivity|]. constructor; [reflexivity|].
  constructor; [apply ptime_relabel|]. constructor; [apply ptime_relabel|].
  apply measures_rate_comp; apply ptime_relabel.
Qed.
Theorem missing_counts_relabel rows : missing_counts (map (frelabel f) rows) = missing_counts rows.
Proof.
  assert (Ee : forall r, e_obs (frelabel f r) = e_obs r) by (intros r; unfold e_obs; cbn [frelabel fe]; destruct (fe r); reflexivity).
  unfold missing_counts, miss_e, miss_d, miss_ed. rewrite !filter_map_comm, !Qlen_map.
  rewrite (filter_ext (fun x => negb (e_obs (frelabel f x)) && y_obs (frelabel f x)) (fun r => negb (e_obs r) && y_obs r))
    by (intros r; rewrite Ee; reflexivity).
  rewrite (filter_ext (fun x => e_obs (frelabel f x) && negb (y_obs (frelabel f x))) (fun r => e_obs r && negb (y_obs r)))
    by (intros r; rewrite Ee; reflexivity).
  rewrite (filter_ext (fun x => negb (e_obs (frelabel f x)) && negb (y_obs (frelabel f x))) (fun r => negb (e_obs r) && negb (y_obs r)))
    by (intros r; rewrite Ee; reflexivity).
  reflexivity.
Qed.
End FRelabel.

Theorem frames_invariant rows rows' (f : Z -> Z) ref lv :
  Permutation rows rows' -> (forall x y, f x = f y -> x = y) ->
  measures_for rows' ref lv = measures_for rows ref lv /\
  Forall2 Qeq (rates_for rows' ref lv) (rates_for rows ref lv) /\
  missing_counts rows' = missing_counts rows /\
  measures_for (map (frelabel f) rows) (f ref) (f lv) = measures_for rows ref lv /\
  Forall2 Qeq (rates_for (map (frelabel f) rows) (f ref) (f lv)) (rates_for rows ref lv) /\
  missing_counts (map (frelabel f) rows) = missing_counts rows.
Proof.
  intros HP Hinj. repeat split.
  - symmetry. apply measures_for_perm. exact HP.
  - apply rates_for_perm. symmetry. exact HP.
  - symmetry. apply missing_counts_perm. exact HP.
  - apply measures_for_relabel. exact Hinj.
  - apply rates_for_relabel. exact Hinj.
  - apply missing_counts_relabel.
Qed.

(* ================================================================================================
   7. G-ESTIMATION of structural nested models (closed-form solver): linear in Y *)
Lemma nth_map_scal c psi k : nth k (map (Qmult c) psi) 0 == c * nth k psi 0.
Proof.
  revert k. induction psi as [|p ps IH]; intros k.
  - destruct k; cbn [map nth]; ring.
  - destruct k; cbn [map nth]; [reflexivity|apply IH].
Qed.

Section SnmScale.
Variables c d : Q.
Variable l : list srow.
Let l' := map (sscale c d) l.
Lemma Mjk_sscale j k : Mjk j k l' == Mjk j k l.
Proof. unfold Mjk, l'. rewrite Qsum_map. reflexivity. Qed.
Lemma rj_sscale j : rj j l' == c * rj j l + d * Qsum (fun r => sd r * vj j r) l.
Proof.
  unfold rj, l'. rewrite Qsum_map, <- !Qsum_scal, <- Qsum_plus. apply Qsum_ext_all. intros r.
  unfold yvj. change (sd (sscale c d r)) with (sd r). change (vj j (sscale c d r)) with (vj j r).
  cbn [sscale sy]. ring.
Qed.
(* the shift d drops out because the exposure model's score equations make sum_i w_i (A_i - pi_i) V_ij vanish for every
   modifier V_j that is a column of the exposure model (the intercept for the main term 'A'); validated on every run *)
Theorem snm_scale dim psi : solves dim psi l ->
  (forall j, (j < dim)%nat -> Qsum (fun r => sd r * vj j r) l == 0) ->
  solves dim (map (Qmult c) psi) l'.
Proof.
  intros Hs Hz j Hj. rewrite rj_sscale, (Hz j Hj), <- (Hs j Hj). unfold Mpsi.
  rewrite (Qsum_ext_all (fun k => Mjk j k l' * nth k (map (Qmult c) psi) 0) (fun k => c * (Mjk j k l * nth k psi 0)))
    by (intros k; rewrite Mjk_sscale, nth_map_scal; ring).
  rewrite Qsum_scal. ring.
Qed.
Theorem snm1_scale : Qsum sd l == 0 -> snm1_num l' / snm1_den l' == c * (snm1_num l / snm1_den l).
Proof.
  intros Hz.
  assert (En : snm1_num l' == c * snm1_num l + d * Qsum sd l).
  { unfold snm1_num, l'. rewrite Qsum_map, <- !Qsum_scal, <- Qsum_plus. apply Qsum_ext_all. intros r.
    change (sd (sscale c d r)) with (sd r). cbn [sscale sy]. ring. }
  assert (Ed : snm1_den l' == snm1_den l) by (unfold snm1_den, l'; rewrite Qsum_map; reflexivity).
  rewrite En, Ed, Hz. unfold Qdiv. ring.
Qed.
End SnmScale.

Lemma sd_sswap r : sd (sswap r) == - sd r.
Proof. unfold sd. cbn [sswap sw sa spi]. destruct (sa r); cbn [negb ind]; ring. Qed.
(* one-parameter model psi A: recoding the treatment as 1 - A (fitted propensities follow) negates psi *)
Theorem snm1_swap l : Qsum sd l == 0 ->
  snm1_num (map sswap l) / snm1_den (map sswap l) == - (snm1_num l / snm1_den l).
Proof.
  intros Hz.
  assert (En : snm1_num (map sswap l) == - snm1_num l).
  { unfold snm1_num. rewrite Qsum_map, <- Qsum_opp. apply Qsum_ext_all. intros r. rewrite sd_sswap. cbn [sswap sy]. ring. }
  assert (Ed : snm1_den (map sswap l) == snm1_den l - Qsum sd l).
  { unfold snm1_den. rewrite Qsum_map, <- Qsum_minus. apply Qsum_ext_all. intros r. rewrite sd_sswap.
    cbn [sswap sa]. destruct (sa r); cbn [negb ind]; ring. }
  rewrite En, Ed, Hz. setoid_replace (snm1_den l - 0) with (snm1_den l) by ring. unfold Qdiv. ring.
Qed.
(* ... and is invariant under row permutation *)
Theorem snm_perm dim psi l l' : Permutation l l' -> solves dim psi l -> solves dim psi l'.
Proof.
  intros HP Hs j Hj. specialize (Hs j Hj). unfold Mpsi, Mjk, rj in *.
  rewrite <- (Qsum_Permutation _ _ _ HP).
  rewrite (Qsum_ext_all (fun k => Qsum (fun r => sd r * av j r * av k r) l' * nth k psi 0)
                        (fun k => Qsum (fun r => sd r * av j r * av k r) l * nth k psi 0))
    by (intros k; rewrite (Qsum_Permutation _ _ _ HP); reflexivity).
  exact Hs.
Qed.

(* ================================================================================================
   8. GENERALIZABILITY / TRANSPORTABILITY estimators (IPSW, GTransportFormula, AIPSW) *)
From Zepid Require Import Model.Generalize.
Lemma gstrata_perm l l' : Permutation l l' -> Permutation (gstrata l) (gstrata l').
Proof.
  intros HP. apply NoDup_Permutation; [apply NoDup_nodup|apply NoDup_nodup|].
  intros s. unfold gstrata. rewrite !nodup_In. split; apply Permutation_in; apply Permutation_map;
    [exact HP|symmetry; exact HP].
Qed.
Theorem generalize_perm l l' : Permutation l l' ->
  (forall c a, ipsw_risk c a l == ipsw_risk c a l') /\ (forall gn a, gt_risk gn a l == gt_risk gn a l') /\
  (forall c a, aipsw_risk c a l == aipsw_risk c a l') /\ (forall gn a, gstd gn a l == gstd gn a l').
Proof.
  intros HP. repeat split; intros.
  - unfold ipsw_risk, ipsw_num, ipsw_den. rewrite !(Qsum_Permutation _ _ _ HP). reflexivity.
  - unfold gt_risk. rewrite !(Qsum_Permutation _ _ _ HP). reflexivity.
  - unfold aipsw_risk. rewrite !(Qsum_Permutation _ _ _ HP). reflexivity.
  - assert (Et : forall s, tgt_w gn s l == tgt_w gn s l').
    { intros s. unfold tgt_w, cN, cNS. destruct gn; rewrite !(Qsum_Permutation _ _ _ HP); reflexivity. }
    assert (Ey : forall s, ybarS s a l == ybarS s a l').
    { intros s. unfold ybarS, cYS, cNSa. rewrite !(Qsum_Permutation _ _ _ HP). reflexivity. }
    unfold gstd. rewrite !(Qsum_Permutation _ _ _ (gstrata_perm l l' HP)).
    apply Qdiv_comp; apply Qsum_ext_all; intros s; rewrite Et, ?Ey; reflexivity.
Qed.

Lemma g_arm_swap a r : g_arm a (gswap r) = g_arm (negb a) r.
Proof. unfold g_arm. cbn [gswap ga]. destruct (ga r), a; reflexivity. Qed.
Lemma gqa_swap a r : gqa a (gswap r) = gqa (negb a) r.
Proof. destruct a; reflexivity. Qed.
Lemma tot_w_swap c r : tot_w (cfg_swap c) (gswap r) == tot_w c r.
Proof.
  unfold tot_w, trt_w. cbn [cfg_swap gswap gen stabS rx stabA nS nA ps pa ga].
  destruct (rx c); [|reflexivity]. apply Qmult_comp; [reflexivity|].
  destruct (stabA c), (ga r); cbn [negb ipw_formula]; rewrite ?one_minus_one_minus; reflexivity.
Qed.
Theorem generalize_swap c gn a l :
  ipsw_risk (cfg_swap c) a (map gswap l) == ipsw_risk c (negb a) l /\
  gt_risk gn a (map gswap l) == gt_risk gn (negb a) l /\
  aipsw_risk (cfg_swap c) a (map gswap l) == aipsw_risk c (negb a) l.
Proof.
  repeat split.
  - unfold ipsw_risk, ipsw_num, ipsw_den. rewrite !Qsum_map.
    apply Qdiv_comp; apply Qsum_ext_all; intros r; rewrite g_arm_swap, tot_w_swap; reflexivity.
  - unfold gt_risk. rewrite !Qsum_map. apply Qdiv_comp; apply Qsum_ext_all; intros r; rewrite ?gqa_swap; reflexivity.
  - unfold aipsw_risk, aug. rewrite !Qsum_map.
    apply Qdiv_comp; apply Qsum_ext_all; intros r; rewrite ?g_arm_swap, ?tot_w_swap, ?gqa_swap; reflexivity.
Qed.
Lemma gqa_scale c d a r : gqa a (gscale c d r) == c * gqa a r + d.
Proof. destruct a; reflexivity. Qed.
Theorem generalize_scale c d cf gn a l :
  (~ ipsw_den cf a l == 0 -> ipsw_risk cf a (map (gscale c d) l) == c * ipsw_risk cf a l + d) /\
  (~ Qsum (fun r => ind (in_tgt gn r) * 1) l == 0 -> gt_risk gn a (map (gscale c d) l) == c * gt_risk gn a l + d) /\
  (~ Qsum (fun r => ind (in_tgt (gen cf) r) * 1) l == 0 ->
     aipsw_risk cf a (map (gscale c d) l) == c * aipsw_risk cf a l + d).
Proof.
  repeat split; intros Hd.
  - unfold ipsw_risk. assert (En : ipsw_num cf a (map (gscale c d) l) == c * ipsw_num cf a l + d * ipsw_den cf a l).
    { unfold ipsw_num, ipsw_den. rewrite Qsum_map, <- !Qsum_scal, <- Qsum_plus. apply Qsum_ext_all. intros r.
      change (tot_w cf (gscale c d r)) with (tot_w cf r). change (g_arm a (gscale c d r)) with (g_arm a r).
      cbn [gscale smp gy]. ring. }
    assert (Ed : ipsw_den cf a (map (gscale c d) l) == ipsw_den cf a l) by (unfold ipsw_den; rewrite Qsum_map; reflexivity).
    rewrite En, Ed. field. exact Hd.
  - unfold gt_risk in *. rewrite !Qsum_map.
    change (Qsum (fun b => ind (in_tgt gn (gscale c d b)) * 1) l) with (Qsum (fun r => ind (in_tgt gn r) * 1) l).
    assert (E : Qsum (fun b => ind (in_tgt gn (gscale c d b)) * gqa a (gscale c d b)) l ==
                c * Qsum (fun r => ind (in_tgt gn r) * gqa a r) l + d * Qsum (fun r => ind (in_tgt gn r) * 1) l).
    { rewrite <- !Qsum_scal, <- Qsum_plus. apply Qsum_ext_all. intros r. rewrite gqa_scale.
      change (in_tgt gn (gscale c d r)) with (in_tgt gn r). ring. }
    rewrite E. field. exact Hd.
  - unfold aipsw_risk in *. rewrite !Qsum_map.
    change (Qsum (fun b => ind (in_tgt (gen cf) (gscale c d b)) * 1) l) with (Qsum (fun r => ind (in_tgt (gen cf) r) * 1) l).
    assert (E : Qsum (fun b => ind (in_tgt (gen cf) (gscale c d b)) * gqa a (gscale c d b) + aug cf a (gscale c d b)) l ==
                c * Qsum (fun r => ind (in_tgt (gen cf) r) * gqa a r + aug cf a r) l +
                d * Qsum (fun r => ind (in_tgt (gen cf) r) * 1) l).
    { rewrite <- !Qsum_scal, <- Qsum_plus. apply Qsum_ext_all. intros r. unfold aug. rewrite !gqa_scale.
      change (in_tgt (gen cf) (gscale c d r)) with (in_tgt (gen cf) r).
      change (tot_w cf (gscale c d r)) with (tot_w cf r). change (g_arm a (gscale c d r)) with (g_arm a r).
      cbn [gscale smp gy]. ring. }
    rewrite E. field. exact Hd.
Qed.
