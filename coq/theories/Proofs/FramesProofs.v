From Coq Require Import QArith ZArith List Bool Lia.
From Zepid Require Import Base.QSum Base.QUtil Spec.Measures Model.Frames.
Import ListNotations.
Open Scope Q_scope.

Lemma filter_filter {A} (p q : A -> bool) l : filter p (filter q l) = filter (fun x => q x && p x) l.
Proof. induction l as [|x xs IH]; simpl; [reflexivity|]. destruct (q x); simpl; [destruct (p x)|]; rewrite IH; reflexivity. Qed.
Lemma filter_ext_in' {A} (p q : A -> bool) l : (forall x, p x = q x) -> filter p l = filter q l.
Proof. intros H. apply filter_ext. exact H. Qed.

Lemma ncell_complete rows l b : ncell (filter complete rows) l b = ncell rows l b.
Proof.
  unfold ncell. rewrite filter_filter. f_equal. apply filter_ext. intros r.
  unfold complete, e_obs, y_obs, e_is, y_is. destruct (fe r), (fy r); simpl; try reflexivity; rewrite ?andb_false_r; reflexivity.
Qed.
Lemma ptime_complete rows l : ptime (filter complete rows) l = ptime rows l.
Proof.
  unfold ptime. rewrite filter_filter. f_equal. apply filter_ext. intros r.
  unfold complete, e_obs, y_obs, e_is. destruct (fe r), (fy r); simpl; try reflexivity; rewrite ?andb_false_r; reflexivity.
Qed.

(* rows missing the exposure or the outcome never influence any reported measure *)
Theorem frames_ignore_missing rows ref l :
  measures_for (filter complete rows) ref l = measures_for rows ref l /\
  rates_for (filter complete rows) ref l = rates_for rows ref l.
Proof.
  unfold measures_for, rates_for, table4. rewrite !ncell_complete, !ptime_complete. split; reflexivity.
Qed.

(* ... and are counted: the three counters partition the incomplete rows *)
Theorem missing_counts_partition rows :
  miss_e rows + miss_d rows + miss_ed rows + Qlen (filter complete rows) == Qlen rows.
Proof.
  unfold miss_e, miss_d, miss_ed. rewrite <- !Qsum_ind_count, <- !Qsum_plus, <- Qsum_one.
  apply Qsum_ext_all. intros r. unfold complete. destruct (e_obs r), (y_obs r); simpl; ring.
Qed.

(* cells of distinct (level, outcome) pairs are disjoint and cover the complete rows of that level *)
Theorem level_cells rows l :
  ncell rows l true + ncell rows l false == Qlen (filter (fun r => e_is l r && y_obs r) rows).
Proof.
  unfold ncell. rewrite <- !Qsum_ind_count, <- Qsum_plus. apply Qsum_ext_all. intros r.
  unfold y_is, y_obs. destruct (e_is l r), (fy r) as [[|]|]; simpl; ring.
Qed.
