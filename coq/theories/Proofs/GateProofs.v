From Coq Require Import QArith List Bool.
From Zepid Require Import Model.Gate.
Import ListNotations.

Lemma filter_idem {A} (p : A -> bool) l : filter p (filter p l) = filter p l.
Proof. induction l as [|x l IH]; simpl; [reflexivity|]. destruct (p x) eqn:E; simpl; rewrite ?E, IH; reflexivity. Qed.
Lemma filter_filter_impl {A} (p q : A -> bool) l : (forall x, p x = true -> q x = true) -> filter p (filter q l) = filter p l.
Proof.
  intros H. induction l as [|x l IH]; simpl; [reflexivity|]. destruct (q x) eqn:Eq; simpl; rewrite IH.
  - reflexivity.
  - destruct (p x) eqn:Ep; [|reflexivity]. rewrite (H x Ep) in Eq. discriminate.
Qed.

Theorem gate_idem d rows : gate d (gate d rows) = gate d rows.
Proof. unfold gate. apply filter_idem. Qed.

(* rows with a missing exposure or covariate never influence what the estimator analyses *)
Theorem gate_ignores_incomplete d rows : gate d (delete_incomplete rows) = gate d rows.
Proof.
  unfold gate, delete_incomplete. apply filter_filter_impl. intros r. destruct d; [|tauto].
  unfold complete. intros H. apply andb_true_iff in H. tauto.
Qed.
Theorem miss_flag_ignores_incomplete rows : miss_flag (delete_incomplete rows) = miss_flag rows /\
  observed_indicator (delete_incomplete rows) = observed_indicator rows.
Proof. unfold miss_flag, observed_indicator. rewrite gate_ignores_incomplete. split; reflexivity. Qed.

(* estimators that drop every incomplete row analyse exactly the complete cases *)
Theorem dropall_is_complete_case rows :
  gate true rows = filter complete rows /\ gate true (gate false rows) = gate true rows /\
  Forall (fun r => complete r = true) (gate true rows).
Proof.
  unfold gate. repeat split.
  - apply filter_filter_impl. intros r H. unfold complete in H. apply andb_true_iff in H. tauto.
  - apply Forall_forall. intros r H. apply filter_In in H. tauto.
Qed.
(* with no outcome missing the two gates coincide *)
Theorem gates_agree_without_missing_outcome rows : miss_flag rows = false -> gate true rows = gate false rows.
Proof.
  unfold miss_flag, gate. intros H. induction rows as [|r rows IH]; simpl in *; [reflexivity|].
  unfold complete at 1. destruct (keepY r) eqn:E; simpl in *.
  - apply orb_false_iff in H as [H1 H2]. apply negb_false_iff in H1. rewrite H1. simpl. f_equal. apply IH. exact H2.
  - apply IH. exact H.
Qed.
