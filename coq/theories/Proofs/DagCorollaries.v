(* C18: consequences that need both the unbounded development (DagProofs) and the exhaustive computation
   (DagExhaustive). *)
From Coq Require Import List Arith Bool PeanoNat Lia NArith.
Import ListNotations.
From Zepid Require Import Model.Dag Proofs.DagProofs Proofs.DagExhaustive.

Lemma wf5_all : forallb (fun os => forallb (fun e => mem (fst e) [0; 1; 2; 3; 4] && mem (snd e) [0; 1; 2; 3; 4])
                                          (edges (graph5 os))) all_orient5 = true.
Proof. vm_cast_no_check (eq_refl true). Qed.

Lemma wf_graph5 os : In os all_orient5 -> wf (graph5 os).
Proof.
  intros Hin u v H.
  pose proof (proj1 (forallb_forall _ _) wf5_all os Hin) as Hall. cbv beta in Hall.
  pose proof (proj1 (forallb_forall _ _) Hall (u, v) H) as He. cbv beta in He. cbn [fst snd] in He.
  apply andb_true_iff in He. destruct He as [H1 H2]. apply mem_In in H1. apply mem_In in H2.
  split; [exact H1 | exact H2].
Qed.

(* on the 5-node universe the walk-based specification, the textbook path-by-path criterion and the
   algorithm coincide -- at Prop level *)
Theorem path_spec_upto5 os Z : In os all_orient5 -> is_dag (graph5 os) = true -> In Z (candidates (graph5 os) 0 1) ->
  (valid_pathb (graph5 os) 0 1 Z = true <-> valid_spec (graph5 os) 0 1 Z).
Proof.
  intros Hin Hd HZ. destruct (alg_eq_spec_upto5 os Hin Hd Z HZ) as [_ H]. rewrite H.
  apply specb_reflects_spec. apply wf_graph5; auto.
Qed.

(* the shipped moralisation loop rejects a back-door admissible set (Prop-level statement of D8) *)
Theorem old_moralisation_refuted_spec :
  exists (p : list op) (Z : list nat),
    let g := run_prog 0 1 p in
    acyclic g /\ In Z (candidates g 0 1) /\ valid_spec g 0 1 Z /\ valid_old g 0 1 Z = false.
Proof.
  exists d8_prog, [3]. cbv zeta.
  destruct old_moralisation_refuted as [_ [Hs [_ [_ Ho]]]].
  split; [apply run_prog_acyclic; discriminate|]. split; [vm_compute; tauto|]. split; [|exact Ho].
  apply specb_reflects_spec; [apply run_prog_wf | exact Hs].
Qed.
