(* C02 -- Exact finite-sample double robustness of AIPTW and TMLE (AIPSW: see the generalize development). *)
From Coq Require Import QArith List.
From Zepid Require Import Base.QSum Base.QUtil Base.Rows Proofs.RowsProofs Model.Estimators Proofs.EstimatorsProofs
     Model.Generalize Proofs.GeneralizeProofs GenProofs.GenProofs_gener.
From ZepidGen Require Import Gen_gener_Q.
Import ListNotations.
Open Scope Q_scope.

(* outcome model saturated; the propensity is ANY function of the stratum (the fit of any sub-model of the
   saturated treatment model, the empty model included, is one) *)
Theorem C02_aipw_outcome_saturated : forall l, complete l -> no_miss_model l -> positivity l ->
  forall gs a, sat_q l -> (forall r, In r l -> g1 r == gs (st r)) ->
  (forall s, In s (strata l) -> ~ gs s == 0 /\ ~ 1 - gs s == 0) ->
  aipw_mean (aipw_ya a) l == std TAll a l.
Proof. exact aipw_Qsat. Qed.
(* treatment model saturated; the outcome predictions are ANY function of stratum and arm *)
Theorem C02_aipw_treatment_saturated : forall l, complete l -> no_miss_model l -> positivity l ->
  forall th a, sat_g l -> (forall r, In r l -> q1 r == th (st r) true /\ q0 r == th (st r) false) ->
  aipw_mean (aipw_ya a) l == std TAll a l.
Proof. exact aipw_gsat. Qed.
Theorem C02_aipw_ya_is_translated : forall r, aipw_ya true r = aipw_y1 r /\ aipw_ya false r = aipw_y0 r.
Proof. exact (fun r => conj (aipw_ya_true r) (aipw_ya_false r)). Qed.
(* TMLE, treatment (and missingness) model saturated: any targeted predictions that are functions of the
   stratum and solve the score equation give the standardised mean *)
Theorem C02_tmle_treatment_saturated : forall l, unit_weights l -> positivity l ->
  forall a Qs, sat_g l -> sat_m l -> (forall r, In r l -> qa a r == Qs (st r)) ->
  tmle_score a l == 0 -> tmle_mean a l == std TAll a l.
Proof. exact tmle_gsat. Qed.
(* TMLE, outcome model saturated: leaving the predictions untouched (epsilon = 0) solves the score equation for
   ANY clever-covariate denominator that is a function of the stratum, and the plug-in is the standardised mean *)
Theorem C02_tmle_outcome_saturated : forall l, unit_weights l -> positivity l ->
  forall a ps, sat_q l -> (forall r, In r l -> trt r = a -> EstimatorsProofs.pa a r == ps (st r)) ->
  tmle_score a l == 0 /\ tmle_mean a l == std TAll a l.
Proof. exact tmle_Qsat. Qed.
(* misspecifying both sides does move the estimate *)
Theorem C02_both_wrong_moves :
  exists l, positivity l /\ complete l /\ ~ aipw_mean aipw_y1 l == std TAll true l.
Proof. exact aipw_both_wrong_moves. Qed.

(* ---- AIPSW (generalize and transport: gen c selects the target population; gstd is the sample cell means
   standardised over all rows resp. the non-sampled rows) *)
(* outcome model saturated: the total weight of the sampled rows may be ANY function of the stratum, stabilised or not *)
Theorem C02_aipsw_outcome_saturated : forall (l : list grow) (c : gcfg), gpositivity l ->
  forall (a : bool) (kap : nat -> Q), sat_Q l ->
  (forall r : grow, In r l -> smp r = true -> ga r = a -> tot_w c r == kap (gs r)) ->
  aipsw_risk c a l == gstd (gen c) a l.
Proof. exact aipsw_Qsat. Qed.
(* sampling and treatment models saturated, UNSTABILISED weights: outcome predictions may be ANY function of stratum and arm *)
Theorem C02_aipsw_weights_saturated_unstabilized : forall (l : list grow) (c : gcfg), gpositivity l ->
  nonempty_tgt (gen c) l -> forall (a : bool) (th : nat -> bool -> Q),
  stabS c = false -> rx c = true -> stabA c = false -> sat_S l -> sat_A l ->
  (forall r : grow, In r l -> gq1 r == th (gs r) true /\ gq0 r == th (gs r) false) ->
  aipsw_risk c a l == gstd (gen c) a l.
Proof. exact aipsw_wsat. Qed.
(* with STABILISED weights (the default) and a wrong outcome model AIPSW is NOT the standardised estimate: the property
   as stated ("stabilized or unstabilized") is refuted for the faithful model -- recorded as a known finding *)
Theorem C02_aipsw_stabilized_refuted :
  exists l : list grow, gpositivity l /\ sat_S l /\ sat_A l /\
    (forall r : grow, In r l -> gq1 r == 1 # 2 /\ gq0 r == 1 # 2) /\
    (forall gn stab : bool, nS (wit_cfg gn stab) == marg_S l /\ nA (wit_cfg gn stab) == marg_A l) /\
    (forall gn : bool, nonempty_tgt gn l) /\
    (forall gn a : bool, aipsw_risk (wit_cfg gn false) a l == gstd gn a l) /\
    (forall gn : bool, ~ aipsw_risk (wit_cfg gn true) true l == gstd gn true l).
Proof. exact aipsw_stabilized_wsat_refuted. Qed.

Example C02_nonvacuous :
  aipw_mean aipw_y1 witness_rows == 3 # 4 /\ std TAll true witness_rows == 5 # 6.
Proof. vm_compute. split; reflexivity. Qed.

(* the estimate AIPSW.fit computes in the CURRENT source (translated on every run) is the aipsw_risk of the theorems above *)
Theorem C02_src_aipsw_fit : forall c junk a l,
  (match gen c, a with
   | true, true => aipsw_fit_gen_r1_Q | true, false => aipsw_fit_gen_r0_Q
   | false, true => aipsw_fit_trn_r1_Q | false, false => aipsw_fit_trn_r0_Q end) (aview c junk l) == aipsw_risk c a l.
Proof. exact gen_aipsw_fit. Qed.

Print Assumptions C02_aipw_outcome_saturated.
Print Assumptions C02_aipw_treatment_saturated.
Print Assumptions C02_aipw_ya_is_translated.
Print Assumptions C02_tmle_treatment_saturated.
Print Assumptions C02_tmle_outcome_saturated.
Print Assumptions C02_both_wrong_moves.
Print Assumptions C02_aipsw_outcome_saturated.
Print Assumptions C02_aipsw_weights_saturated_unstabilized.
Print Assumptions C02_aipsw_stabilized_refuted.
Print Assumptions C02_src_aipsw_fit.
