(* C05 -- Inverse probability weights equal their documented definitions.
   Only the property theorems (closed by `exact`), non-vacuity examples and Print Assumptions.
   Specification: Spec.WeightSpec (written from the docstrings).  Model: Model.Ipw (+ the formulas translated
   from iptw_calculator on every run, ZepidGen.Gen_weights_Q).  Fitted logistic models are oracles: their
   predictions are data; the run validates their score equations. *)
From Coq Require Import QArith ZArith List Bool Permutation Sorted.
From Zepid Require Import Base.QSum Base.QUtil Model.Bounds Spec.WeightSpec Model.Ipw Proofs.IpwProofs
  GenProofs.GenProofs_weights GenProofs.GenProofs_siptw.
From ZepidGen Require Import Gen_weights_Q Gen_siptw_Q.
Import ListNotations.
Open Scope Q_scope.

(* ---- IPTW: each translated source expression is the documented weight *)
Theorem C05_source_unstab_population : forall a d, ~ d == 0 -> ~ 1 - d == 0 ->
  exists x, iptw_unstab_population_Q a d = [Some x] /\ x == spec_iptw false Population a d 1.
Proof. exact gen_unstab_population. Qed.
Theorem C05_source_unstab_exposed : forall a d, ~ 1 - d == 0 ->
  exists x, iptw_unstab_exposed_Q a d = [Some x] /\ x == spec_iptw false Exposed a d 1.
Proof. exact gen_unstab_exposed. Qed.
Theorem C05_source_unstab_unexposed : forall a d, ~ d == 0 ->
  exists x, iptw_unstab_unexposed_Q a d = [Some x] /\ x == spec_iptw false Unexposed a d 1.
Proof. exact gen_unstab_unexposed. Qed.
Theorem C05_source_stab_population : forall a d n, ~ d == 0 -> ~ 1 - d == 0 ->
  exists x, iptw_stab_population_Q a d n = [Some x] /\ x == spec_iptw true Population a d n.
Proof. exact gen_stab_population. Qed.
Theorem C05_source_stab_exposed : forall a d n, ~ 1 - d == 0 -> ~ n == 0 ->
  exists x, iptw_stab_exposed_Q a d n = [Some x] /\ x == spec_iptw true Exposed a d n.
Proof. exact gen_stab_exposed. Qed.
Theorem C05_source_stab_unexposed : forall a d n, ~ d == 0 -> ~ 1 - n == 0 ->
  exists x, iptw_stab_unexposed_Q a d n = [Some x] /\ x == spec_iptw true Unexposed a d n.
Proof. exact gen_stab_unexposed. Qed.

(* the dispatch over (stabilized, standardize): inverse probability of the treatment received, SMR odds *)
Theorem C05_iptw_is_ip_of_received : forall stab t a d n,
  0 < d -> d < 1 -> (stab = true -> 0 < n /\ n < 1) ->
  exists x, iptw_weight stab t a d n = Some x /\ x == spec_iptw stab t a d n.
Proof. exact iptw_is_ip_of_received. Qed.

(* with `bound` the weight is the documented weight at the clipped probabilities (no positivity needed) *)
Theorem C05_iptw_bounded_is_spec : forall stab t lo hi a d n, 0 < lo -> lo <= hi -> hi < 1 ->
  exists x, iptw_row stab t (Some (lo, hi)) (a, d, n) = (seq_clip1 lo hi d, seq_clip1 lo hi n, Some x) /\
            seq_clip1 lo hi d == clip1 lo hi d /\ seq_clip1 lo hi n == clip1 lo hi n /\
            x == spec_iptw stab t a (clip1 lo hi d) (clip1 lo hi n).
Proof. exact iptw_bounded_is_spec. Qed.

(* ---- StochasticIPTW *)
(* the first-to-last overwrite loop leaves the probability of the LAST condition that holds on the row *)
Theorem C05_stochastic_overwrite : forall a conds,
  stoch_numer_cond a conds = option_map (pr_received a) (last_match conds).
Proof. exact stoch_numer_cond_last. Qed.
(* weight = plan probability of the received treatment over its fitted probability (times the user weight) *)
Theorem C05_stochastic_weight : forall r,
  match plan_prob (s_plan r) with
  | Some pbar => exists w, stoch_weight r = Some w /\ w == spec_stochastic (s_a r) pbar (s_pd r) * s_w r
  | None => stoch_weight r = None
  end.
Proof. exact stochastic_weight. Qed.
Theorem C05_stochastic_weight_exclusive : forall r l1 p l2,
  s_plan r = Conditional (l1 ++ (true, p) :: l2) ->
  forallb (fun cp => negb (fst cp)) l1 = true -> forallb (fun cp => negb (fst cp)) l2 = true ->
  exists w, stoch_weight r = Some w /\ w == pr_received (s_a r) p / pr_received (s_a r) (s_pd r) * s_w r.
Proof. exact stochastic_weight_exclusive. Qed.

(* ---- IPMW, monotone patterns, any number of variables K and rows *)
Theorem C05_ipmw_monotone_product : forall stab rows K r,
  (forall k, (k < K)%nat -> fitted rows k = false -> den_at k r == 1) ->
  (stab = true -> forall k, (k < K)%nat -> fitted rows k = false -> num_at k r == 1) ->
  oQeq (ipmw_monotone stab rows K r)
       (spec_ipmw stab (obs (K - 1) r) (map (fun k => num_at k r) (seq 0 K)) (map (fun k => den_at k r) (seq 0 K))).
Proof. exact ipmw_monotone_product. Qed.
Theorem C05_ipmw_inverse_product : forall rows K r,
  (forall k, (k < K)%nat -> fitted rows k = false -> den_at k r == 1) -> obs (K - 1) r = true ->
  exists w, ipmw_monotone false rows K r = Some w /\ w == 1 / Qprod (fun k => den_at k r) (seq 0 K).
Proof. exact ipmw_monotone_unstab_inverse_product. Qed.
(* including the overall-uniform shortcut taken by regression_models *)
Theorem C05_ipmw_code_is_spec : forall stab rows K r,
  monotone_ok rows K = true -> (0 < K)%nat -> In r rows ->
  (forall k, (k < K)%nat -> fitted rows k = false -> den_at k r == 1) ->
  (stab = true -> forall k, (k < K)%nat -> fitted rows k = false -> num_at k r == 1) ->
  oQeq (ipmw_code stab rows K r)
       (spec_ipmw stab (forallb (fun k => obs k r) (seq 0 K))
                  (map (fun k => num_at k r) (seq 0 K)) (map (fun k => den_at k r) (seq 0 K))).
Proof. exact ipmw_code_is_spec. Qed.
(* rows unobserved on any variable get no weight, all others get one *)
Theorem C05_ipmw_unobserved_none : forall stab rows K r,
  monotone_ok rows K = true -> (0 < K)%nat -> In r rows ->
  (ipmw_code stab rows K r = None <-> exists k, (k < K)%nat /\ obs k r = false).
Proof. exact ipmw_unobserved_none. Qed.
(* models saturated in a common stratum: the product telescopes to n_s / #{fully observed in s} *)
Theorem C05_ipmw_telescopes : forall rows K r,
  monotone_ok rows K = true -> (0 < K)%nat -> In r rows -> sat_fit den_at rows K r ->
  0 < cnt_obs rows (m_s r) (K - 1) -> obs (K - 1) r = true ->
  exists w, ipmw_monotone false rows K r = Some w /\ w == cnt_all rows (m_s r) / cnt_obs rows (m_s r) (K - 1).
Proof. exact ipmw_telescopes. Qed.

(* ---- IPCW on long data, any number of subjects and rows *)
Theorem C05_ipcw_running_product : forall l i r, StronglySorted key_lt l -> nth_error l i = Some r ->
  exists w, nth_error (ipcw_weights l) i = Some w /\ w == cspec_weight l r.
Proof. exact ipcw_running_product. Qed.
Theorem C05_ipcw_weight_is_spec_of_input : forall input s r w,
  Permutation s input -> StronglySorted key_lt s -> In (r, w) (combine s (ipcw_weights s)) ->
  w == cspec_weight input r.
Proof. exact ipcw_weight_is_spec_of_input. Qed.
Theorem C05_ipcw_sort_invariant : forall s1 s2 r w1 w2,
  Permutation s1 s2 -> StronglySorted key_lt s1 -> StronglySorted key_lt s2 ->
  In (r, w1) (combine s1 (ipcw_weights s1)) -> In (r, w2) (combine s2 (ipcw_weights s2)) -> w1 == w2.
Proof. exact ipcw_sort_invariant. Qed.
Theorem C05_uncensored_spec : forall tmax l i r, StronglySorted key_lt l -> nth_error l i = Some r ->
  exists u, nth_error (uncensored_code tmax l) i = Some u /\
    (u = false <-> (forall x, In x l -> c_id x = c_id r -> c_time x <= c_time r) /\ c_event r = false /\ ~ c_time r == tmax).
Proof. exact uncensored_spec. Qed.
Theorem C05_uncensored_of_input : forall tmax input s i r, Permutation s input -> StronglySorted key_lt s ->
  nth_error s i = Some r ->
  nth_error (uncensored_code tmax s) i = Some (spec_uncensored c_id c_time c_event tmax input r).
Proof. exact uncensored_of_input. Qed.

(* ---- non-vacuity *)
Example C05_nonvacuous_iptw :
  0 < (1#4) /\ (1#4) < 1 /\ 0 < (2#5) /\ (2#5) < 1 /\
  map (fun c => match c with (s, t, a) => match iptw_weight s t a (1#4) (2#5) with Some x => Qred x | None => 0 end end)
      [(false, Population, true); (false, Population, false); (true, Population, true); (true, Population, false);
       (false, Exposed, false); (true, Exposed, false); (false, Unexposed, true); (true, Unexposed, true);
       (true, Exposed, true); (false, Unexposed, false)]
  = [4; 4#3; 8#5; 4#5; 1#3; 1#2; 3; 2; 1; 1] /\
  iptw_row true Population (Some (3#10, 7#10)) (true, 1#4, 2#5) = (3#10, 2#5, Some ((2#5) / (3#10))).
Proof. vm_compute. repeat split; reflexivity. Qed.

Definition ex_srow (a : bool) (c0 c1 : bool) : srow :=
  {| s_a := a; s_y := 1; s_pd := 1#4; s_w := 2; s_plan := Conditional [(c0, 3#4); (c1, 9#10)] |}.
Example C05_nonvacuous_stochastic :
  option_map Qred (stoch_weight (ex_srow true true false)) = Some 6 /\
  option_map Qred (stoch_weight (ex_srow false false true)) = Some (4#15) /\
  option_map Qred (stoch_weight (ex_srow true true true)) = Some (36#5) /\     (* overlap: the later condition wins *)
  stoch_weight (ex_srow true false false) = None /\
  stoch_marginal [ex_srow true true false; ex_srow true false false] = None.
Proof. vm_compute. repeat split; reflexivity. Qed.

(* three variables, the last two uniform; one stratum of four rows; saturated fits 3/4 and 2/3 *)
Definition ex_mrows : list mrow :=
  let mk o := {| m_s := 0; m_obs := o; m_den := [3#4; 2#3; 0]; m_num := [1; 1; 1] |} in
  [mk [true; true; true]; mk [true; true; true]; mk [true; false; false]; mk [false; false; false]].
Example C05_nonvacuous_ipmw :
  let r := nth 0 ex_mrows (Build_mrow 0 [] [] []) in
  monotone_ok ex_mrows 3 = true /\ overall_uniform ex_mrows 3 = false /\
  map (fitted ex_mrows) [0; 1; 2]%nat = [true; true; false] /\
  map (fun x => option_map Qred (ipmw_code false ex_mrows 3 x)) ex_mrows = [Some 2; Some 2; None; None] /\
  In r ex_mrows /\ 0 < cnt_obs ex_mrows (m_s r) 2 /\ obs 2 r = true /\
  Qred (cnt_all ex_mrows 0 / cnt_obs ex_mrows 0 2) = 2 /\
  sat_fit den_at ex_mrows 3 r.
Proof.
  cbv zeta. repeat split; try (vm_compute; reflexivity); try (left; reflexivity).
  intros k Hk F. destruct k as [|[|[|k]]]; try (vm_compute; reflexivity); try discriminate F.
  exfalso. apply (Nat.lt_irrefl 3). apply (Nat.le_lt_trans _ (S (S (S k)))); [|exact Hk].
  do 3 apply le_n_S. apply Nat.le_0_l.
Qed.

Definition ex_crows : list crow :=
  [ {| c_id := 1; c_time := 1; c_event := false; c_num := 9#10; c_den := 4#5 |};
    {| c_id := 1; c_time := 2; c_event := false; c_num := 4#5; c_den := 1#2 |};
    {| c_id := 2; c_time := 1; c_event := false; c_num := 9#10; c_den := 3#4 |};
    {| c_id := 2; c_time := 2; c_event := false; c_num := 4#5; c_den := 2#3 |};
    {| c_id := 2; c_time := 3; c_event := false; c_num := 7#10; c_den := 1#2 |};
    {| c_id := 3; c_time := 1; c_event := true; c_num := 9#10; c_den := 9#10 |} ].
Example C05_nonvacuous_ipcw :
  StronglySorted key_lt ex_crows /\
  uncensored_code (max_time ex_crows) ex_crows = [true; false; true; true; true; true] /\
  map Qred (ipcw_weights ex_crows) = [9#8; 9#5; 6#5; 36#25; 252#125; 1] /\
  map (fun r => Qred (cspec_weight (rev ex_crows) r)) ex_crows = [9#8; 9#5; 6#5; 36#25; 252#125; 1] /\
  map (cspec_uncensored (rev ex_crows)) ex_crows = [true; false; true; true; true; true].
Proof.
  split; [|vm_compute; repeat split; reflexivity].
  unfold ex_crows.
  repeat (first [apply SSorted_nil | apply SSorted_cons | apply Forall_nil | apply Forall_cons]);
    first [left; reflexivity | right; split; reflexivity].
Qed.

(* ---- StochasticIPTW.fit in the CURRENT source (translated on every run) is the model the theorems above are about *)
Theorem C05_src_stochastic_weight : forall r, src_weight r = stoch_weight r.
Proof. exact gen_siptw_weight. Qed.
Theorem C05_src_stochastic_unweighted : forall ipw, siptw_ipw_w_Q ipw 1 == ipw.
Proof. exact gen_siptw_unweighted. Qed.
Theorem C05_src_stochastic_marginal : forall rows,
  match all_some (map src_weight rows), stoch_marginal rows with
  | Some ws, Some m => siptw_marginal_Q (combine ws (map s_y rows)) == m
  | None, None => True
  | _, _ => False
  end.
Proof. exact gen_siptw_marginal. Qed.
Theorem C05_src_stochastic_last_condition_decides : forall a cs,
  fold_left (siptw_numer_step_Q a) cs siptw_numer_start_Q =
  match last_match cs with Some p => Some (if a then p else 1 - p) | None => None end.
Proof. exact gen_siptw_last_match. Qed.

Print Assumptions C05_source_unstab_population.
Print Assumptions C05_source_unstab_exposed.
Print Assumptions C05_source_unstab_unexposed.
Print Assumptions C05_source_stab_population.
Print Assumptions C05_source_stab_exposed.
Print Assumptions C05_source_stab_unexposed.
Print Assumptions C05_iptw_is_ip_of_received.
Print Assumptions C05_iptw_bounded_is_spec.
Print Assumptions C05_stochastic_overwrite.
Print Assumptions C05_stochastic_weight.
Print Assumptions C05_stochastic_weight_exclusive.
Print Assumptions C05_ipmw_monotone_product.
Print Assumptions C05_ipmw_inverse_product.
Print Assumptions C05_ipmw_code_is_spec.
Print Assumptions C05_ipmw_unobserved_none.
Print Assumptions C05_ipmw_telescopes.
Print Assumptions C05_ipcw_running_product.
Print Assumptions C05_ipcw_weight_is_spec_of_input.
Print Assumptions C05_ipcw_sort_invariant.
Print Assumptions C05_uncensored_spec.
Print Assumptions C05_uncensored_of_input.
Print Assumptions C05_src_stochastic_weight.
Print Assumptions C05_src_stochastic_unweighted.
Print Assumptions C05_src_stochastic_marginal.
Print Assumptions C05_src_stochastic_last_condition_decides.
