(* C19 -- No-assumption bounds on the risk difference are valid and sharp.
   This file contains only the property theorems (closed by `exact`), their non-vacuity examples and
   Print Assumptions. *)
From Coq Require Import QArith List.
From Zepid Require Import Base.QSum Base.QUtil Model.RdBounds Proofs.RdBoundsProofs GenProofs.GenProofs_rdbounds GenProofs.GenProofs_basefit Model.Frames.
From ZepidGen Require Import Gen_rdbounds_Q Gen_basefit_Q.
Import ListNotations.
Open Scope Q_scope.

(* every completion of the unobserved potential outcomes keeps the causal RD inside [lower, upper] *)
Theorem C19_bounds_valid : forall cs : list cunit, cs <> [] ->
  lower (map fst cs) <= causal_rd cs /\ causal_rd cs <= upper (map fst cs).
Proof. exact bounds_valid. Qed.

Theorem C19_lower_attained : forall us : list unit,
  map fst (complete_low us) = us /\ causal_rd (complete_low us) == lower us.
Proof. exact lower_attained. Qed.

Theorem C19_upper_attained : forall us : list unit,
  map fst (complete_high us) = us /\ causal_rd (complete_high us) == upper us.
Proof. exact upper_attained. Qed.

Theorem C19_width_one : forall us : list unit, us <> [] -> upper us - lower us == 1.
Proof. exact width_one. Qed.

Theorem C19_contains_rd : forall a b c d, 0 < a -> 0 < b -> 0 < c -> 0 < d ->
  lower_counts a b c d <= a / (a + b) - c / (c + d) /\ a / (a + b) - c / (c + d) <= upper_counts a b c d.
Proof. exact contains_rd. Qed.

(* the closed forms in counts are the bounds of the unit-level specification *)
Theorem C19_counts_are_bounds : forall us : list unit,
  0 < cell is_a us + cell is_b us -> 0 < cell is_c us + cell is_d us ->
  lower_counts (cell is_a us) (cell is_b us) (cell is_c us) (cell is_d us) == lower us /\
  upper_counts (cell is_a us) (cell is_b us) (cell is_c us) (cell is_d us) == upper us.
Proof. exact counts_are_bounds. Qed.

(* the expressions translated from the source ARE those closed forms *)
Theorem C19_source_lower : forall a b c d, 0 < a + b -> 0 < c + d ->
  exists x, rdbounds_fr_lower_Q a b (a + b + c + d) (c / (c + d)) (a / (a + b)) = [Some x] /\
            x == lower_counts a b c d.
Proof. exact gen_lower_is_spec. Qed.
Theorem C19_source_upper : forall a b c d, 0 < a + b -> 0 < c + d ->
  exists x, rdbounds_fr_upper_Q a b (a + b + c + d) (c / (c + d)) (a / (a + b)) = [Some x] /\
            x == upper_counts a b c d.
Proof. exact gen_upper_is_spec. Qed.

(* the formula shipped before the repair (1 - r1 where r0 belongs) is refuted *)
Theorem C19_old_formula_refuted :
  exists cs : list cunit, cs <> [] /\
    let us := map fst cs in
    causal_rd cs < old_lower_counts (cell is_a us) (cell is_b us) (cell is_c us) (cell is_d us).
Proof. exact old_bounds_refuted. Qed.

(* non-vacuity: a concrete table meets every hypothesis above *)
Example C19_nonvacuous :
  let us := table 2 1 1 3 in
  us <> [] /\ 0 < cell is_a us + cell is_b us /\ 0 < cell is_c us + cell is_d us /\
  lower us == - (2 # 7) /\ upper us == 5 # 7 /\ rd_range us = (Qred (lower us), Qred (upper us)).
Proof. vm_compute. repeat split; discriminate. Qed.

(* the n of RiskDifference.fit in the CURRENT source: the rows with exposure and outcome both observed *)
Theorem C19_src_n_counts_complete_rows : forall rows, base_rd_n_Q rows = Qlen (filter complete rows).
Proof. exact gen_base_rd_n. Qed.

Print Assumptions C19_bounds_valid.
Print Assumptions C19_lower_attained.
Print Assumptions C19_upper_attained.
Print Assumptions C19_width_one.
Print Assumptions C19_contains_rd.
Print Assumptions C19_counts_are_bounds.
Print Assumptions C19_source_lower.
Print Assumptions C19_source_upper.
Print Assumptions C19_old_formula_refuted.
Print Assumptions C19_src_n_counts_complete_rows.
