(* C20 -- Super learner weights are convex and built from out-of-fold predictions; StepwiseSL and AIC. *)
From Coq Require Import QArith ZArith List Bool Arith Reals.
From Zepid Require Import Base.QUtil Base.QSum Model.Bounds Model.SuperLearner Model.Stepwise
     Proofs.SuperLearnerProofs Proofs.SuperLearnerR Proofs.StepwiseProofs GenProofs.GenProofs_slcoef.
From ZepidGen Require Import Gen_slcoef_Q.
Import ListNotations.
Open Scope Q_scope.

(* KFold(k, shuffle=False): k consecutive blocks that tile 0..n-1, so every row is in exactly one test block;
   the first n mod k blocks have n/k + 1 rows, the others n/k; each training set is the complement of its block *)
Theorem C20_kfold_partition : forall n k, (1 <= k)%nat ->
  length (kfold_tests n k) = k /\
  concat (kfold_tests n k) = seq 0 n /\
  (forall i, (i < n)%nat -> ncount i (concat (kfold_tests n k)) = 1%nat) /\
  (forall f, (f < k)%nat -> length (nth f (kfold_tests n k) []) = (n / k + (if f <? n mod k then 1 else 0))%nat) /\
  (forall f, (f < k)%nat -> forall i,
      In i (fst (nth f (kfold n k) ([], []))) <-> (i < n)%nat /\ ~ In i (snd (nth f (kfold n k) ([], [])))).
Proof. exact kfold_partition. Qed.

(* every cv_pred[i, c] was produced exactly once, by a clone of candidate c that was fitted exactly once, on
   exactly the rows outside the block containing i *)
Theorem C20_holdout_discipline : forall n m k, (1 <= k)%nat -> Holdout (cv_schedule m (kfold n k)) n m.
Proof. exact holdout_discipline. Qed.
Theorem C20_holdout_checker_sound : forall evs n m, holdout_b evs n m = true -> Holdout evs n m.
Proof. exact holdout_b_sound. Qed.
(* step 7: only retained candidates are fitted again, on all rows, each by its own fresh clone *)
Theorem C20_refit_all_rows : forall n m t0 retained t c rows,
  In (FitC t c rows) (refit_schedule n m t0 retained) ->
  rows = seq 0 n /\ (c < m)%nat /\ t = (t0 + c)%nat /\ retained c = true.
Proof. exact refit_all_rows. Qed.
Theorem C20_refit_retained : forall n m t0 retained c,
  (c < m)%nat -> retained c = true -> In (FitC (t0 + c) c (seq 0 n)) (refit_schedule n m t0 retained).
Proof. exact refit_retained. Qed.

(* whatever nnls returned: thresholded at sqrt(eps) and normalised, the weights are >= 0 and sum to one ... *)
Theorem C20_coef_convex : forall raw c,
  normalise raw = Some c -> length c = length raw /\ Forall (fun x => 0 <= x) c /\ Qtotal c == 1.
Proof. exact coef_convex. Qed.
(* ... unless every nnls coefficient is below sqrt(eps) (e.g. y identically 0): exactly then they are 0/0 *)
Theorem C20_coef_nan_iff : forall raw, normalise raw = None <-> Forall (fun c => c < thr) raw.
Proof. exact normalise_none_iff. Qed.
(* SuperLearner.coefficients incl. the discrete option: one-hot on the first largest weight *)
Theorem C20_coefficients : forall discrete raw c,
  sl_coefficients discrete raw = Some c ->
  length c = length raw /\ Forall (fun x => 0 <= x) c /\ Qtotal c == 1 /\
  (discrete = true -> exists norm, normalise raw = Some norm /\ c = one_hot (length norm) (argmax norm) /\
                                   (argmax norm < length norm)%nat /\
                                   (forall j, (j < length norm)%nat -> nth j norm 0 <= nth (argmax norm) norm 0) /\
                                   (forall j, (j < argmax norm)%nat -> nth j norm 0 < nth (argmax norm) norm 0)).
Proof. exact sl_coefficients_convex. Qed.

(* predictions: the coefficient-weighted combination of the candidates carrying weight (a convex combination,
   hence inside their range); discrete = the chosen candidate's prediction itself *)
Theorem C20_sl_predict_is_combination : forall coefs preds lo hi,
  length coefs = length preds -> Forall (fun x => 0 <= x) coefs -> Qtotal coefs == 1 ->
  (forall j, (j < length coefs)%nat -> 0 < nth j coefs 0 -> lo <= nth j preds 0 <= hi) ->
  lo <= sl_predict_l2 coefs preds <= hi.
Proof. exact sl_predict_is_combination. Qed.
Theorem C20_sl_predict_discrete : forall m j preds,
  length preds = m -> (j < m)%nat -> sl_predict_l2 (one_hot m j) preds == nth j preds 0.
Proof. exact sl_predict_discrete. Qed.
(* NLogLik: the same combination on the logit scale, then expit *)
Theorem C20_sl_logodds_hull : forall coefs logits lo hi,
  length coefs = length logits -> Forall (fun x => 0 <= x) coefs -> Qtotal coefs == 1 ->
  (forall j, (j < length coefs)%nat -> 0 < nth j coefs 0 -> lo <= nth j logits 0 <= hi) ->
  lo <= sl_logodds coefs logits <= hi.
Proof. exact sl_logodds_hull. Qed.
Theorem C20_sl_logodds_discrete : forall m j logits,
  length logits = m -> (j < m)%nat -> sl_logodds (one_hot m j) logits == nth j logits 0.
Proof. exact sl_logodds_discrete. Qed.
Theorem C20_expit_logit : forall p : R, (0 < p < 1)%R -> expitR (logitR p) = p.
Proof. exact expit_logit. Qed.
Theorem C20_expit_monotone_range : forall z1 z2 : R, (z1 <= z2)%R -> (expitR z1 <= expitR z2)%R /\ (0 < expitR z1 < 1)%R.
Proof. intros z1 z2 H. split; [apply expit_increasing; exact H | apply expit_range]. Qed.

(* StepwiseSL, for EVERY AIC oracle (NaN = None), both directions, any number of columns:
   the search stops by itself, never returns a model with larger AIC than the one it started from, and
   from the returned model every single admissible step has strictly larger AIC (or no AIC at all) *)
Theorem C20_stepwise_terminates : forall aic fwd p, stepwise aic fwd p <> StepFuel.
Proof. exact stepwise_terminates. Qed.
Theorem C20_stepwise_not_worse : forall aic fwd p c a,
  stepwise aic fwd p = StepOk c a ->
  exists a0, aic (if fwd then [] else seq 0 p) = Some a0 /\ aic c = Some a /\ a <= a0.
Proof. exact stepwise_not_worse. Qed.
Theorem C20_stepwise_local_min : forall aic fwd p c a,
  stepwise aic fwd p = StepOk c a ->
  if fwd then forall v, (v < p)%nat -> ~ In v c -> match aic (c ++ [v]) with Some b => a < b | None => True end
  else forall alt, In alt (deletions c) -> match aic alt with Some b => a < b | None => True end.
Proof. exact stepwise_local_min. Qed.

(* non-vacuity: 7 rows, 3 folds, 2 candidates; weights; a search that moves *)
Example C20_nonvacuous_sl :
  kfold 7 3 = [([3; 4; 5; 6], [0; 1; 2]); ([0; 1; 2; 5; 6], [3; 4]); ([0; 1; 2; 3; 4], [5; 6])]%nat /\
  holdout_b (cv_schedule 2 (kfold 7 3)) 7 2 = true /\
  (exists c, sl_coefficients false [1 # 4; 0; 1 # 2] = Some c /\ Qflat c = Qflat [1 # 3; 0; 2 # 3]) /\
  (exists c, sl_coefficients true [1 # 4; 0; 1 # 2] = Some c /\ Qflat c = Qflat [0; 0; 1]) /\
  sl_coefficients false [0; 1 # 100000000] = None /\
  Qred (sl_predict_l2 [1 # 3; 0; 2 # 3] [3 # 10; 5; 6 # 10]) = 1 # 2.
Proof. repeat split; try (eexists; split); vm_compute; reflexivity. Qed.
Example C20_nonvacuous_holdout_fires :
  holdout_b [Clone 0 0; FitC 0 0 [0; 1; 2]%nat; PredC 0 0 [0; 1]%nat; Clone 1 0; FitC 1 0 [0; 1]%nat; PredC 1 0 [2]%nat] 3 1 = false.
Proof. vm_compute. reflexivity. Qed.
Definition ex_tbl : list (list nat * option Q) :=
  [([], Some 10); ([0%nat], Some 8); ([1%nat], Some 9); ([2%nat], None); ([0; 1]%nat, Some (17 # 2));
   ([0; 2]%nat, Some 7); ([1; 2]%nat, Some 12); ([0; 1; 2]%nat, Some (15 # 2))].
Example C20_nonvacuous_stepwise :
  stepwise (aic_tbl ex_tbl) true 3 = StepOk [0; 2]%nat 7 /\ stepwise (aic_tbl ex_tbl) false 3 = StepOk [0; 2]%nat 7.
Proof. split; vm_compute; reflexivity. Qed.

(* ---- SuperLearner.fit / .predict in the CURRENT source (translated on every run) are the model of the theorems above *)
Theorem C20_src_coefficients : forall raw, src_coefficients raw = normalise raw.
Proof. exact gen_sl_normalise. Qed.
Theorem C20_src_coefficients_convex : forall raw c, src_coefficients raw = Some c ->
  length c = length raw /\ Forall (fun x => 0 <= x) c /\ Qtotal c == 1.
Proof. exact src_coefficients_convex. Qed.
Theorem C20_src_discrete_one_hot : forall m sel, map (fun i => sl_discrete_elem_Q i sel) (seq 0 m) = one_hot m sel.
Proof. exact gen_sl_discrete. Qed.
Theorem C20_src_refit_decision : forall discrete norm c,
  retained_of discrete norm c = if discrete then sl_discrete_refit_Q c (argmax norm) else sl_refit_Q (nth c norm 0).
Proof. exact gen_sl_refit. Qed.
Theorem C20_src_cv_error : forall y p, sl_cv_error_l2_Q y p = cv_error_l2 y p.
Proof. exact gen_sl_cv_error. Qed.
Theorem C20_src_predict : forall coefs preds,
  sl_dot_Q (map (fun cp => sl_used_pred_Q (fst cp) (snd cp)) (combine coefs preds)) coefs == sl_predict_l2 coefs preds.
Proof. exact gen_sl_predict. Qed.

Print Assumptions C20_kfold_partition.
Print Assumptions C20_holdout_discipline.
Print Assumptions C20_holdout_checker_sound.
Print Assumptions C20_refit_all_rows.
Print Assumptions C20_refit_retained.
Print Assumptions C20_coef_convex.
Print Assumptions C20_coef_nan_iff.
Print Assumptions C20_coefficients.
Print Assumptions C20_sl_predict_is_combination.
Print Assumptions C20_sl_predict_discrete.
Print Assumptions C20_sl_logodds_hull.
Print Assumptions C20_sl_logodds_discrete.
Print Assumptions C20_expit_logit.
Print Assumptions C20_expit_monotone_range.
Print Assumptions C20_stepwise_terminates.
Print Assumptions C20_stepwise_not_worse.
Print Assumptions C20_stepwise_local_min.
Print Assumptions C20_src_coefficients.
Print Assumptions C20_src_coefficients_convex.
Print Assumptions C20_src_discrete_one_hot.
Print Assumptions C20_src_refit_decision.
Print Assumptions C20_src_cv_error.
Print Assumptions C20_src_predict.
