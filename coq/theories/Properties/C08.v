(* C08 -- Estimates are invariant / equivariant under relabelling of the data.
   Only property theorems (closed by `exact`), non-vacuity examples, Print Assumptions.
   The estimator models (Model.Estimators, Model.Variance, Model.Generalize, Model.Snm, Model.Frames) carry no row
   index at all: any dependence of the code on index labels is a correspondence failure by construction, found by the
   metamorphic run (harness/props/c08.py), never by a theorem.  That a REFIT of a nuisance model on the transformed
   data returns the transformed fitted values (row order, affine covariate maps, category recoding, 1 - A, c Y + d for
   linear models) is the oracle hypothesis; it is sampled on every run. *)
From Coq Require Import Reals QArith ZArith List Bool Permutation.
From Zepid Require Import Base.QSum Base.QUtil Base.Rows Model.Estimators Proofs.EstimatorsProofs Model.Variance
     Spec.Measures Model.Frames Model.Snm Model.Invariance Proofs.InvarianceProofs
     Base.Expit GenProofs.GenProofs_tmle Proofs.InvarianceR.
From Zepid Require Model.Generalize.
From ZepidGen Require Import Gen_tmle_R.
Import ListNotations.
Open Scope Q_scope.

(* ---- every permutation of the rows: all arm quantities, the specification, all variance estimators *)
Theorem C08_perm_invariant : forall l l', Permutation l l' ->
  (forall stab t n c1 c0 a, iptw_mu stab t n c1 c0 a l == iptw_mu stab t n c1 c0 a l') /\
  (forall t a, gf_marginal t a l == gf_marginal t a l') /\
  (forall f, aipw_mean f l == aipw_mean f l') /\
  (forall a, tmle_mean a l == tmle_mean a l') /\
  (forall W a, arm_mean W a l == arm_mean W a l') /\
  (forall t a, std t a l == std t a l') /\
  (forall W, sw_var_rd W l == sw_var_rd W l' /\ sw_var_lnrr W l == sw_var_lnrr W l' /\ sw_var_lnor W l == sw_var_lnor W l') /\
  (aipw_var_rd l == aipw_var_rd l' /\ aipw_var_lnrr l == aipw_var_lnrr l') /\
  (tmle_var_rd l == tmle_var_rd l' /\ tmle_var_lnrr l == tmle_var_lnrr l' /\ tmle_var_lnor l == tmle_var_lnor l').
Proof. exact perm_invariant. Qed.

(* ---- recoding the treatment as 1 - A (target population, stabilisation constant and missingness constants follow):
   arm-a quantity -> arm-(not a) quantity; differences negated, ratios inverted; variances on the difference and
   log-odds-ratio scale unchanged; TMLE's log-risk-ratio variance unchanged (missing outcomes included) *)
Theorem C08_swap_treatment : forall l,
  let l' := map swap_row l in
  (forall stab t n c1 c0 a, iptw_mu stab (swap_target t) (1 - n) c0 c1 a l' == iptw_mu stab t n c1 c0 (negb a) l) /\
  (forall t a, gf_marginal (swap_target t) a l' == gf_marginal t (negb a) l) /\
  (aipw_mean aipw_y1 l' == aipw_mean aipw_y0 l /\ aipw_mean aipw_y0 l' == aipw_mean aipw_y1 l) /\
  (forall a, tmle_mean a l' == tmle_mean (negb a) l) /\
  (forall t a, std (swap_target t) a l' == std t (negb a) l) /\
  (forall stab t n c1 c0, iptw_rd stab (swap_target t) (1 - n) c0 c1 l' == - iptw_rd stab t n c1 c0 l /\
                          iptw_rr stab (swap_target t) (1 - n) c0 c1 l' == / iptw_rr stab t n c1 c0 l /\
                          iptw_or stab (swap_target t) (1 - n) c0 c1 l' == / iptw_or stab t n c1 c0 l) /\
  (aipw_rd l' == - aipw_rd l /\ aipw_rr l' == / aipw_rr l) /\
  (tmle_rd l' == - tmle_rd l /\ tmle_rr l' == / tmle_rr l /\ tmle_or l' == / tmle_or l) /\
  (forall stab t n c1 c0,
     sw_var_rd (total_w stab (swap_target t) (1 - n) c0 c1) l' == sw_var_rd (total_w stab t n c1 c0) l /\
     sw_var_lnrr (total_w stab (swap_target t) (1 - n) c0 c1) l' == sw_var_lnrr (total_w stab t n c1 c0) l /\
     sw_var_lnor (total_w stab (swap_target t) (1 - n) c0 c1) l' == sw_var_lnor (total_w stab t n c1 c0) l) /\
  (aipw_var_rd l' == aipw_var_rd l) /\
  (tmle_var_rd l' == tmle_var_rd l /\ tmle_var_lnor l' == tmle_var_lnor l /\ tmle_var_lnrr l' == tmle_var_lnrr l).
Proof. exact swap_treatment. Qed.

(* ---- the place where the source's influence curve is NOT equivariant (the model mirrors the source term by term;
   C06 ties it to the reported SE): AIPTW's log-risk-ratio variance (known finding AIPTW.swap.risk_ratio_se) *)
Theorem C08_aipw_lnrr_variance_not_swap_invariant :
  exists l, EstimatorsProofs.complete l /\ ~ aipw_var_lnrr (map swap_row l) == aipw_var_lnrr l.
Proof. exact aipw_var_lnrr_swap_fails. Qed.

(* ---- change of units y -> c y + d (every c, in particular c != 0 of both signs, every d): mean differences are
   multiplied by c and do not depend on d, variances are multiplied by c^2 (standard errors by |c|) *)
Theorem C08_scale_outcome : forall c d l,
  let l' := map (scale_row c d) l in
  (forall stab t n c1 c0,
     ~ arm_den (total_w stab t n c1 c0) true l == 0 -> ~ arm_den (total_w stab t n c1 c0) false l == 0 ->
     iptw_rd stab t n c1 c0 l' == c * iptw_rd stab t n c1 c0 l /\
     sw_var_rd (total_w stab t n c1 c0) l' == c * c * sw_var_rd (total_w stab t n c1 c0) l) /\
  (forall t, ~ Qsum wt (filter (in_target t) l) == 0 ->
     gf_marginal t true l' - gf_marginal t false l' == c * (gf_marginal t true l - gf_marginal t false l)) /\
  ((forall r, In r l -> obs r = true -> pa_ok r) -> ~ Qsum wt (obs_rows l) == 0 ->
     aipw_rd l' == c * aipw_rd l /\ aipw_var_rd l' == c * c * aipw_var_rd l) /\
  (l <> [] -> tmle_rd l' == c * tmle_rd l /\ tmle_var_rd l' == c * c * tmle_var_rd l) /\
  (forall t, (forall s a, In s (strata l) -> ~ Nobs s a l == 0) -> nonempty_target t l ->
     std t true l' - std t false l' == c * (std t true l - std t false l)).
Proof. exact scale_outcome. Qed.
(* arm level: every arm mean moves to c mean + d *)
Theorem C08_scale_arm_means : forall c d l,
  (forall stab t n c1 c0 a, ~ arm_den (total_w stab t n c1 c0) a l == 0 ->
     iptw_mu stab t n c1 c0 a (map (scale_row c d) l) == c * iptw_mu stab t n c1 c0 a l + d) /\
  (forall t a, ~ Qsum wt (filter (in_target t) l) == 0 ->
     gf_marginal t a (map (scale_row c d) l) == c * gf_marginal t a l + d) /\
  (forall a, l <> [] -> tmle_mean a (map (scale_row c d) l) == c * tmle_mean a l + d) /\
  (forall t a, (forall s, In s (strata l) -> ~ Nobs s a l == 0) -> nonempty_target t l ->
     std t a (map (scale_row c d) l) == c * std t a l + d).
Proof.
  exact (fun c d l => conj (fun stab t n c1 c0 a => iptw_mu_scale c d l stab t n c1 c0 a)
          (conj (fun t a => gf_marginal_scale c d l t a)
          (conj (fun a H => tmle_mean_scale c d l H a) (fun t a => std_scale c d l t a)))).
Qed.

(* ---- any injective recoding of the stratum codes *)
Theorem C08_relabel_strata : forall (f : nat -> nat) l, (forall x y, f x = f y -> x = y) ->
  let l' := map (relabel_row f) l in
  (forall t a, std t a l' == std t a l) /\
  (forall stab t n c1 c0 a, iptw_mu stab t n c1 c0 a l' == iptw_mu stab t n c1 c0 a l) /\
  (forall t a, gf_marginal t a l' == gf_marginal t a l) /\
  (aipw_mean aipw_y1 l' == aipw_mean aipw_y1 l /\ aipw_mean aipw_y0 l' == aipw_mean aipw_y0 l) /\
  (forall a, tmle_mean a l' == tmle_mean a l).
Proof. exact relabel_strata. Qed.

(* ---- effect-measure classes: row order and (injectively recoded) level codes *)
Theorem C08_frames_invariant : forall rows rows' (f : Z -> Z) ref lv,
  Permutation rows rows' -> (forall x y, f x = f y -> x = y) ->
  measures_for rows' ref lv = measures_for rows ref lv /\
  Forall2 Qeq (rates_for rows' ref lv) (rates_for rows ref lv) /\
  missing_counts rows' = missing_counts rows /\
  measures_for (map (frelabel f) rows) (f ref) (f lv) = measures_for rows ref lv /\
  Forall2 Qeq (rates_for (map (frelabel f) rows) (f ref) (f lv)) (rates_for rows ref lv) /\
  missing_counts (map (frelabel f) rows) = missing_counts rows.
Proof. exact frames_invariant. Qed.

(* ---- g-estimation of structural nested models, closed-form solver *)
Theorem C08_snm_scale : forall c d l dim psi, solves dim psi l ->
  (forall j, (j < dim)%nat -> Qsum (fun r => sd r * vj j r) l == 0) ->
  solves dim (map (Qmult c) psi) (map (sscale c d) l).
Proof. exact snm_scale. Qed.
Theorem C08_snm1_scale : forall c d l, Qsum sd l == 0 ->
  snm1_num (map (sscale c d) l) / snm1_den (map (sscale c d) l) == c * (snm1_num l / snm1_den l).
Proof. exact snm1_scale. Qed.
Theorem C08_snm1_swap : forall l, Qsum sd l == 0 ->
  snm1_num (map sswap l) / snm1_den (map sswap l) == - (snm1_num l / snm1_den l).
Proof. exact snm1_swap. Qed.
Theorem C08_snm_perm : forall dim psi l l', Permutation l l' -> solves dim psi l -> solves dim psi l'.
Proof. exact snm_perm. Qed.

(* ---- IPSW, GTransportFormula, AIPSW and their specification *)
Theorem C08_generalize_perm : forall l l', Permutation l l' ->
  (forall c a, Generalize.ipsw_risk c a l == Generalize.ipsw_risk c a l') /\
  (forall gn a, Generalize.gt_risk gn a l == Generalize.gt_risk gn a l') /\
  (forall c a, Generalize.aipsw_risk c a l == Generalize.aipsw_risk c a l') /\
  (forall gn a, Generalize.gstd gn a l == Generalize.gstd gn a l').
Proof. exact generalize_perm. Qed.
Theorem C08_generalize_swap : forall c gn a l,
  Generalize.ipsw_risk (cfg_swap c) a (map gswap l) == Generalize.ipsw_risk c (negb a) l /\
  Generalize.gt_risk gn a (map gswap l) == Generalize.gt_risk gn (negb a) l /\
  Generalize.aipsw_risk (cfg_swap c) a (map gswap l) == Generalize.aipsw_risk c (negb a) l.
Proof. exact generalize_swap. Qed.
Theorem C08_generalize_scale : forall c d cf gn a l,
  (~ Generalize.ipsw_den cf a l == 0 ->
     Generalize.ipsw_risk cf a (map (gscale c d) l) == c * Generalize.ipsw_risk cf a l + d) /\
  (~ Qsum (fun r => ind (Generalize.in_tgt gn r) * 1) l == 0 ->
     Generalize.gt_risk gn a (map (gscale c d) l) == c * Generalize.gt_risk gn a l + d) /\
  (~ Qsum (fun r => ind (Generalize.in_tgt (Generalize.gen cf) r) * 1) l == 0 ->
     Generalize.aipsw_risk cf a (map (gscale c d) l) == c * Generalize.aipsw_risk cf a l + d).
Proof. exact generalize_scale. Qed.

(* ---- TMLE, continuous outcome, over R (translated lines of utils.py / TMLE.fit) *)
Section C08R.
Open Scope R_scope.
Theorem C08_tmle_continuous_scale_pos : forall c d mini maxi b, 0 < c -> mini < maxi ->
  (forall y, unit_boundsR (c * y + d) (c * mini + d) (c * maxi + d) b = unit_boundsR y mini maxi b) /\
  (forall qstar, tmle_unit_unbound_R qstar (c * mini + d) (c * maxi + d) = c * tmle_unit_unbound_R qstar mini maxi + d).
Proof. exact tmle_continuous_scale_pos. Qed.
Theorem C08_tmle_continuous_scale_neg : forall c d mini maxi b, c < 0 -> mini < maxi -> b <= 1 / 2 ->
  (forall y, unit_boundsR (c * y + d) (c * maxi + d) (c * mini + d) b = 1 - unit_boundsR y mini maxi b) /\
  (forall rows e e', (exists r, In r rows /\ fst (fst r) <> 0) ->
     score e rows = 0 -> score e' (map reflect_row rows) = 0 ->
     forall q g, 0 < q -> q < 1 ->
       tmle_unit_unbound_R (tmle_Qstar1_R (1 - q) e' g) (c * maxi + d) (c * mini + d) =
         c * tmle_unit_unbound_R (tmle_Qstar1_R q e g) mini maxi + d /\
       tmle_unit_unbound_R (tmle_Qstar0_R (1 - q) e' g) (c * maxi + d) (c * mini + d) =
         c * tmle_unit_unbound_R (tmle_Qstar0_R q e g) mini maxi + d).
Proof. exact tmle_continuous_scale_neg. Qed.
Theorem C08_tmle_epsilon_reflect : forall rows e e', (exists r, In r rows /\ fst (fst r) <> 0) ->
  score e rows = 0 -> score e' (map reflect_row rows) = 0 -> e' = - e.
Proof. exact eps_reflect. Qed.
End C08R.

(* ---- non-vacuity: the hypotheses are met by concrete, non-trivial data, and the conclusions are not 0 = 0 *)
Example C08_nonvacuous_perm :
  Permutation swap_witness (rev swap_witness) /\
  iptw_mu false TAll (1#2) 1 1 true swap_witness == iptw_mu false TAll (1#2) 1 1 true (rev swap_witness) /\
  ~ iptw_mu false TAll (1#2) 1 1 true swap_witness == 0 /\
  ~ std TAll true swap_witness == std TAll false swap_witness /\ ~ aipw_var_rd swap_witness == 0.
Proof. split; [apply Permutation_rev|]. vm_compute. repeat split; try reflexivity; discriminate. Qed.
Example C08_nonvacuous_swap :
  aipw_rd (map swap_row swap_witness) == - aipw_rd swap_witness /\ ~ aipw_rd swap_witness == 0 /\
  tmle_rr (map swap_row swap_witness) == / tmle_rr swap_witness /\ ~ tmle_rr swap_witness == 1 /\
  std TUnexposed true (map swap_row swap_witness) == std TExposed false swap_witness.
Proof. vm_compute. repeat split; try reflexivity; discriminate. Qed.
Example C08_nonvacuous_scale :
  let l := swap_witness in let c := - (5#2) in let d := 7 in
  (forall r, In r l -> obs r = true -> pa_ok r) /\ ~ Qsum wt (obs_rows l) == 0 /\ l <> [] /\
  ~ arm_den (total_w true TAll (1#2) 1 1) true l == 0 /\ ~ arm_den (total_w true TAll (1#2) 1 1) false l == 0 /\
  (forall s a, In s (strata l) -> ~ Nobs s a l == 0) /\ nonempty_target TAll l /\
  aipw_rd (map (scale_row c d) l) == c * aipw_rd l /\ ~ aipw_rd l == 0 /\
  aipw_var_rd (map (scale_row c d) l) == c * c * aipw_var_rd l.
Proof.
  cbv zeta. split; [|split; [|split; [|split; [|split; [|split]]]]].
  - intros r Hr _. vm_compute in Hr. repeat (destruct Hr as [<-|Hr]; [split; intros _; vm_compute; discriminate|]). contradiction.
  - vm_compute. discriminate.
  - discriminate.
  - vm_compute. discriminate.
  - vm_compute. discriminate.
  - intros s a Hs. vm_compute in Hs. destruct Hs as [<-|[<-|[]]]; destruct a; vm_compute; discriminate.
  - vm_compute. repeat split; try reflexivity; discriminate.
Qed.
Example C08_nonvacuous_relabel :
  let f := fun s : nat => (2 * s + 5)%nat in
  (forall x y, f x = f y -> x = y) /\
  strata (map (relabel_row f) swap_witness) <> strata swap_witness /\
  std TAll true (map (relabel_row f) swap_witness) == std TAll true swap_witness.
Proof.
  cbv zeta. split; [intros x y H; apply (f_equal (fun n => (n - 5)%nat)) in H; rewrite !Nat.add_sub in H; apply Nat.mul_cancel_l in H; [exact H|discriminate]|].
  vm_compute. split; [discriminate|reflexivity].
Qed.
Example C08_nonvacuous_snm :
  let l := [ SR true 3 1 (1#2) [1] 0; SR false 1 1 (1#2) [1] 0 ] in
  solves 1 [2] l /\ Qsum sd l == 0 /\ (forall j, (j < 1)%nat -> Qsum (fun r => sd r * vj j r) l == 0) /\
  solves 1 [- (3#1) * 2] (map (sscale (- (3#1)) 4) l).
Proof.
  cbv zeta. split; [|split; [|split]].
  - intros j Hj. destruct j; [vm_compute; reflexivity|inversion Hj; inversion H0].
  - vm_compute. reflexivity.
  - intros j Hj. destruct j; [vm_compute; reflexivity|inversion Hj; inversion H0].
  - intros j Hj. destruct j; [vm_compute; reflexivity|inversion Hj; inversion H0].
Qed.
Example C08_nonvacuous_frames :
  let rows := [ {| fe := Some 1%Z; fy := Some true; ft := Some (3#2) |}; {| fe := Some 0%Z; fy := Some false; ft := Some 2 |};
                {| fe := Some 1%Z; fy := Some false; ft := Some 1 |}; {| fe := Some 0%Z; fy := Some true; ft := None |};
                {| fe := None; fy := Some true; ft := Some 1 |} ] in
  let f := fun z : Z => (7 - 3 * z)%Z in
  (forall x y, f x = f y -> x = y) /\
  measures_for (map (frelabel f) (rev rows)) (f 0%Z) (f 1%Z) = measures_for rows 0%Z 1%Z /\
  nth 0 (measures_for rows 0%Z 1%Z) 0 == 1.
Proof.
  cbv zeta. split; [intros x y H; Lia.lia|]. vm_compute. split; reflexivity.
Qed.

Print Assumptions C08_perm_invariant.
Print Assumptions C08_swap_treatment.
Print Assumptions C08_aipw_lnrr_variance_not_swap_invariant.
Print Assumptions C08_scale_outcome.
Print Assumptions C08_scale_arm_means.
Print Assumptions C08_relabel_strata.
Print Assumptions C08_frames_invariant.
Print Assumptions C08_snm_scale.
Print Assumptions C08_snm1_scale.
Print Assumptions C08_snm1_swap.
Print Assumptions C08_snm_perm.
Print Assumptions C08_generalize_perm.
Print Assumptions C08_generalize_swap.
Print Assumptions C08_generalize_scale.
Print Assumptions C08_tmle_continuous_scale_pos.
Print Assumptions C08_tmle_continuous_scale_neg.
Print Assumptions C08_tmle_epsilon_reflect.
