(* C15 -- G-estimation returns the root of its estimating equations.
   Rows are the complete observations that reach the solver; w is the total weight (user weights x inverse
   probability of missingness weights, 1 when neither is used); pi is the fitted exposure probability (oracle);
   v the modifier vector of the structural nested model (v_0 = 1).  Any number of rows, any number of parameters. *)
From Coq Require Import QArith List Arith Lia.
From Zepid Require Import Base.QSum Base.QUtil Base.Rows Model.Estimators Proofs.EstimatorsProofs Model.Snm Proofs.SnmProofs.
Import ListNotations.
Open Scope Q_scope.

(* whatever np.linalg.solve returns with lhm psi = rha makes every estimating equation
   sum_i w_i (a_i - pi_i) v_ij (y_i - a_i psi.v_i) vanish *)
Theorem C15_snm_estimating_eq : forall dim psi l, solves dim psi l -> forall j, (j < dim)%nat -> esteq dim psi j l == 0.
Proof. exact snm_estimating_eq. Qed.
(* and conversely a root of the estimating equations solves the closed-form system *)
Theorem C15_snm_root_solves : forall dim psi l, (forall j, (j < dim)%nat -> esteq dim psi j l == 0) -> solves dim psi l.
Proof. exact snm_root_solves. Qed.
(* search solver: coefficient 0 on the H(psi) terms (so the augmented fit p is the exposure fit pi) + its score
   equations for those terms  =>  the closed-form equations: both solvers have the same root *)
Theorem C15_snm_search_root : forall dim psi l (p : srow -> Q),
  (forall r, In r l -> p r == spi r) ->
  (forall j, (j < dim)%nat -> Qsum (fun r => sw r * (ind (sa r) - p r) * (Hpsi dim psi r * vj j r)) l == 0) ->
  solves dim psi l.
Proof. exact snm_search_root. Qed.
Theorem C15_snm_one_param : forall psi l,
  (forall r, In r l -> vj 0 r == 1) -> solves 1 psi l -> ~ snm1_den l == 0 ->
  nth 0 psi 0 == snm1_num l / snm1_den l.
Proof. exact snm_one_param. Qed.
(* saturated exposure model on categorical covariates: psi = sum_s n_s p_s (1-p_s) (ybar_s1 - ybar_s0) / sum_s n_s p_s (1-p_s)
   (n_s, p_s weighted when weights are in use) *)
Theorem C15_snm_saturated_weighted_avg : forall psi l,
  l <> [] -> (forall r, In r l -> vj 0 r == 1) -> solves 1 psi l ->
  positivity (base_rows l) -> sat_g (base_rows l) ->
  nth 0 psi 0 == snm_wavg (base_rows l).
Proof. exact snm_saturated_weighted_avg. Qed.
Theorem C15_exec_twins : forall dim psi j k l,
  esteq_x dim psi j l == esteq dim psi j l /\ rj_x j l == rj j l /\ Mjk_x j k l == Mjk j k l.
Proof. exact snm_exec_twins. Qed.

(* non-vacuity: 8 weighted rows in two strata, saturated exposure fit; two-parameter and one-parameter models *)
Definition ex2 : list srow :=
  [ SR true 3 1 (1#2) [1; 0] 0; SR true 5 1 (1#2) [1; 0] 0; SR false 1 1 (1#2) [1; 0] 0; SR false 2 1 (1#2) [1; 0] 0;
    SR true 7 2 (1#3) [1; 1] 1; SR false 2 1 (1#3) [1; 1] 1; SR false 3 1 (1#3) [1; 1] 1; SR false 1 2 (1#3) [1; 1] 1 ].
Definition ex1 : list srow := map (fun r => SR (sa r) (sy r) (sw r) (spi r) [1] (sst r)) ex2.
Example C15_nonvacuous_two_param :
  solves 2 [5#2; 11#4] ex2 /\ esteq 2 [5#2; 11#4] 0 ex2 == 0 /\ esteq 2 [5#2; 11#4] 1 ex2 == 0 /\
  ~ esteq 2 [5#2; 3] 1 ex2 == 0.
Proof.
  split; [|split; [|split]].
  - intros j Hj. destruct j as [|[|j]]; [vm_compute; reflexivity|vm_compute; reflexivity|exfalso; lia].
  - vm_compute. reflexivity.
  - vm_compute. reflexivity.
  - vm_compute. discriminate.
Qed.
Example C15_nonvacuous_saturated :
  solves 1 [57#14] ex1 /\ snm_wavg (base_rows ex1) == 57#14 /\ sat_g (base_rows ex1) /\ positivity (base_rows ex1).
Proof.
  split; [|split; [|split]].
  - intros j Hj. destruct j as [|j]; [vm_compute; reflexivity|exfalso; lia].
  - vm_compute. reflexivity.
  - intros r Hr. vm_compute in Hr. repeat (destruct Hr as [<-|Hr]; [vm_compute; reflexivity|]). contradiction.
  - intros s Hs. vm_compute in Hs.
    destruct Hs as [<-|[<-|[]]]; (split; [|split; [|split]]); vm_compute; reflexivity.
Qed.

Print Assumptions C15_snm_estimating_eq.
Print Assumptions C15_snm_root_solves.
Print Assumptions C15_snm_search_root.
Print Assumptions C15_snm_one_param.
Print Assumptions C15_snm_saturated_weighted_avg.
Print Assumptions C15_exec_twins.
