(* C14 -- Stochastic and conditional treatment plans mean what they say.
   This file contains only the property theorems (closed by `exact`), their non-vacuity examples and
   Print Assumptions.  Models: Model/Stochastic.v (StochasticIPTW.fit, StochasticTMLE.fit,
   TimeFixedGFormula.fit_stochastic, stochastic_check_conditional); proofs: Proofs/StochasticProofs.v. *)
From Coq Require Import QArith Qround List Bool Arith ZArith Permutation.
From Zepid Require Import Base.QSum Base.QUtil Base.Rows Proofs.RowsProofs Model.Estimators Proofs.EstimatorsProofs
  Model.Stochastic Proofs.StochasticProofs GenProofs.GenProofs_gfmarg GenProofs.GenProofs_siptw14 GenProofs.GenProofs_stmle.
From ZepidGen Require Import Gen_gfmarg_Q Gen_siptw_Q Gen_stmle_Q.
Import ListNotations.
Open Scope Q_scope.

(* ---- listing order ------------------------------------------------------------------------------------- *)
(* the loop `for c, prop in zip(conditional, p): x = np.where(eval(c), prop, x)` leaves on a row where at most
   one condition holds the same value for EVERY permutation of the (condition, probability) pairs
   (any number of pairs; used for the StochasticIPTW numerator, the StochasticTMLE clever covariate and the
   Monte-Carlo assignment as specified) *)
Theorem C14_assign_p_perm : forall (pl pl' : list ((row -> bool) * Q)) (r : row),
  Permutation pl pl' -> exclusive_at (map fst pl) r -> assign_pl pl r = assign_pl pl' r.
Proof. exact assign_p_perm. Qed.

(* and that value is the probability listed with THE condition that holds on the row *)
Theorem C14_assign_is_the_match : forall (pl : list ((row -> bool) * Q)) (r : row) c p,
  exclusive_at (map fst pl) r -> In (c, p) pl -> c r = true -> assign_pl pl r = Some p.
Proof. exact assign_is_the_match. Qed.

(* exhaustive conditions leave no NaN; no matching condition leaves NaN *)
Theorem C14_assign_exhaustive : forall (pl : list ((row -> bool) * Q)) (r : row),
  exhaustive_at (map fst pl) r -> exists p, assign_pl pl r = Some p.
Proof. exact assign_exhaustive. Qed.

(* the numerator loop exactly as written in StochasticIPTW.fit / StochasticTMLE.fit (value already specialised to
   the treatment received) is the plan's probability of the received treatment, in every listing order *)
Theorem C14_numer_loop_perm : forall conds ps conds' ps' (r : row),
  Permutation (combine conds ps) (combine conds' ps') -> exclusive_at (map fst (combine conds ps)) r ->
  numer_loop conds ps r = numer_loop conds' ps' r /\
  numer_loop conds ps r = option_map (own (trt r)) (assign_p conds ps r).
Proof. exact numer_loop_perm_value. Qed.

(* stochastic_check_conditional / _check_conditional stay silent exactly on exclusive condition sets *)
Theorem C14_check_exclusive : forall conds l,
  check_exclusive conds l = true <-> forall r, In r l -> exclusive_at conds r.
Proof. exact check_exclusive_spec. Qed.

(* ---- StochasticIPTW: exact mixture ---------------------------------------------------------------------- *)
(* saturated treatment model, positivity, per-row plan probability a function ps of the covariate stratum:
   sum w = n and sum w y / sum w == sum_s n_s (p_s ybar_{s,1} + (1-p_s) ybar_{s,0}) / n, for any data set *)
Theorem C14_stoch_iptw_mixture : forall (l : list row) (ps : nat -> Q) (P : row -> Q),
  (forall r, In r l -> P r == ps (st r)) -> positivity l -> complete l -> sat_g l ->
  siptw_mean P l == mixture ps l /\ Qsum (sw P) l == Qsum wt l.
Proof. exact stoch_iptw_mixture_full. Qed.

(* p = 1 / p = 0 everywhere: the treat-all / treat-none standardised mean (= TimeFixedGFormula all / none with a
   saturated outcome model, = the IPTW arm means with a saturated treatment model: C01) *)
Theorem C14_stoch_iptw_p1_is_all : forall l, positivity l -> complete l -> sat_g l ->
  siptw_mean (pconst 1) l == std TAll true l /\ siptw_mean (pconst 0) l == std TAll false l.
Proof. exact stoch_iptw_p01. Qed.

(* for ANY fitted propensities: p = 1 / p = 0 is the treated / untreated arm mean of the unstabilised IPTW
   marginal structural model *)
Theorem C14_stoch_iptw_p1_is_msm_arm : forall l n, complete l -> no_miss_model l ->
  siptw_mean (pconst 1) l == iptw_mu false TAll n 1 1 true l /\
  siptw_mean (pconst 0) l == iptw_mu false TAll n 1 1 false l.
Proof. exact siptw_p01_is_iptw_arm. Qed.

(* ---- simulating estimators ------------------------------------------------------------------------------- *)
(* one Monte-Carlo sample with a saturated outcome model is a function of the per-stratum treated counts only *)
Theorem C14_stoch_gformula_counts : forall l tr, sat_q l ->
  draw_marginal l tr == counts_marginal (fun s a => kcount s a l tr) l.
Proof. exact stoch_gformula_counts. Qed.

Theorem C14_stoch_same_counts : forall l tr tr', sat_q l ->
  (forall s a, In s (strata l) -> kcount s a l tr == kcount s a l tr') -> draw_marginal l tr == draw_marginal l tr'.
Proof. exact stoch_same_counts. Qed.

(* fit_stochastic(p=1.0): int(1.0 * n) = n rows are selected in every sample, so the Monte-Carlo mean IS the
   treat-all g-formula, for any outcome model, any number of samples, any seed; likewise p = 0.0 *)
Theorem C14_stoch_gf_p1_is_all : forall l draws, draws <> [] ->
  (forall tr, In tr draws -> length tr = length l /\ Z.of_nat (ntrue tr) = treated_count 1 (length l)) ->
  mc_marginal l draws == gf_marginal TAll true l.
Proof. exact stoch_gf_p1_mc. Qed.
Theorem C14_stoch_gf_p0_is_none : forall l draws, draws <> [] ->
  (forall tr, In tr draws -> length tr = length l /\ Z.of_nat (ntrue tr) = treated_count 0 (length l)) ->
  mc_marginal l draws == gf_marginal TAll false l.
Proof. exact stoch_gf_p0_mc. Qed.
(* int(p n) realises the plan probability up to less than one unit *)
Theorem C14_treated_count_bounds : forall p n,
  inject_Z (treated_count p n) <= p * Qnat n /\ p * Qnat n < inject_Z (treated_count p n) + 1.
Proof. exact treated_count_bounds. Qed.

(* the expectation of a sample's marginal over independent Bernoulli(P r) draws is the mixture (saturated outcome
   model): the exact statement behind "equals the mixture within Monte-Carlo error" *)
Theorem C14_stoch_expected_is_mixture : forall (ps : nat -> Q) (P : row -> Q) l,
  sat_q l -> (forall r, In r l -> P r == ps (st r)) ->
  expect (prod_law (map P l)) (draw_marginal l) == mixture ps l.
Proof. exact stoch_expected_is_mixture. Qed.

(* StochasticTMLE: with a saturated outcome model epsilon = 0 solves the targeting score equation for any clever
   covariate that is a function of stratum and arm (the targeted predictions are the cell means) *)
Theorem C14_stmle_score_zero : forall (h : nat -> bool -> Q) (H : row -> Q) l,
  positivity l -> complete l -> sat_q l -> (forall r, In r l -> H r == h (st r) (trt r)) ->
  Qsum (fun r => H r * wt r * (yval r - qa (trt r) r)) l == 0.
Proof. exact stmle_score_zero. Qed.

(* ---- the Monte-Carlo assignment of StochasticTMLE ---------------------------------------------------------- *)
(* AS SPECIFIED (draw of iteration j used where condition j holds): treated with the plan's probability, hence
   order-invariant for exclusive conditions *)
Theorem C14_stmle_spec_law : forall conds ps (r : row), mc_spec_prob conds ps r == oget (assign_p conds ps r).
Proof. exact stmle_spec_law. Qed.
Theorem C14_stmle_spec_perm : forall conds ps conds' ps' (r : row),
  Permutation (combine conds ps) (combine conds' ps') -> exclusive_at (map fst (combine conds ps)) r ->
  mc_spec_prob conds ps r == mc_spec_prob conds' ps' r.
Proof. exact stmle_spec_perm. Qed.

(* AS WRITTEN in StochasticTMLE.fit (every iteration redraws EVERY row): every row is treated with the LAST listed
   probability whatever the conditions are -- so the result depends on the listing order *)
Theorem C14_stmle_code_law : forall conds ps (r : row), length conds = length ps ->
  mc_code_prob conds ps r == oget (last_opt ps).
Proof. exact stmle_code_law. Qed.
Theorem C14_stmle_code_order_dependent : forall (c1 c2 : row -> bool) p1 p2 (r : row), ~ p1 == p2 ->
  ~ mc_code_prob [c1; c2] [p1; p2] r == mc_code_prob [c2; c1] [p2; p1] r.
Proof. exact stmle_code_order_dependent. Qed.
(* concrete witness by vm_compute: strata 0/1, plan (1/5, 9/10) *)
Theorem C14_stmle_mc_refuted :
  let c0 := c_in [0%nat] in let c1 := c_in [1%nat] in
  (forall s, (s < 2)%nat -> exclusive_at [c0; c1] (wrow s) /\ exhaustive_at [c0; c1] (wrow s)) /\
  mc_spec_prob [c0; c1] [1#5; 9#10] (wrow 0) == 1#5 /\ mc_spec_prob [c1; c0] [9#10; 1#5] (wrow 0) == 1#5 /\
  mc_spec_prob [c0; c1] [1#5; 9#10] (wrow 1) == 9#10 /\ mc_spec_prob [c1; c0] [9#10; 1#5] (wrow 1) == 9#10 /\
  mc_code_prob [c0; c1] [1#5; 9#10] (wrow 0) == 9#10 /\ mc_code_prob [c1; c0] [9#10; 1#5] (wrow 0) == 1#5 /\
  mc_code_prob [c0; c1] [1#5; 9#10] (wrow 1) == 9#10 /\ mc_code_prob [c1; c0] [9#10; 1#5] (wrow 1) == 1#5 /\
  ~ mc_code_prob [c0; c1] [1#5; 9#10] (wrow 0) == mc_code_prob [c1; c0] [9#10; 1#5] (wrow 0).
Proof. exact stmle_mc_refuted. Qed.

(* ---- non-vacuity: a concrete 10-row data set (two strata, both arms, both outcome values where it matters) with
   saturated fits meets every hypothesis above, and the quantities are what they should be *)
Definition ex_row (s : nat) (a : bool) (y : Q) (g q1v q0v : Q) : row :=
  {| st := s; trt := a; yv := Some y; wt := 1; g1 := g; q1 := q1v; q0 := q0v; m1 := 1; m0 := 1 |}.
Definition ex_rows : list row :=
  [ ex_row 0 true 1 (3#5) (2#3) (1#2); ex_row 0 true 1 (3#5) (2#3) (1#2); ex_row 0 true 0 (3#5) (2#3) (1#2);
    ex_row 0 false 1 (3#5) (2#3) (1#2); ex_row 0 false 0 (3#5) (2#3) (1#2);
    ex_row 1 true 0 (2#5) (1#2) (1#3); ex_row 1 true 1 (2#5) (1#2) (1#3);
    ex_row 1 false 0 (2#5) (1#2) (1#3); ex_row 1 false 0 (2#5) (1#2) (1#3); ex_row 1 false 1 (2#5) (1#2) (1#3) ].
Definition ex_conds : list (row -> bool) := [c_in [0%nat]; c_in [1%nat]].
Definition ex_plan : plan := Cond ex_conds [1#4; 4#5].
Definition ex_plan_rev : plan := Cond (rev ex_conds) [4#5; 1#4].
Definition ex_ps : nat -> Q := lookup [(0%nat, 1#4); (1%nat, 4#5)] 0.

Lemma ex_in_strata : forall s, In s (strata ex_rows) -> s = 0%nat \/ s = 1%nat.
Proof. intros s H. vm_compute in H. destruct H as [<-|[<-|[]]]; auto. Qed.

Example C14_nonvacuous :
  positivity ex_rows /\ complete ex_rows /\ no_miss_model ex_rows /\ sat_g ex_rows /\ sat_q ex_rows /\
  check_exclusive ex_conds ex_rows = true /\ check_exhaustive ex_conds ex_rows = true /\
  (forall r, In r ex_rows -> plan_p ex_plan r = Some (ex_ps (st r)) /\ plan_p ex_plan_rev r = Some (ex_ps (st r))) /\
  mixture ex_ps ex_rows == 121 # 240 /\
  siptw_marginal ex_plan ex_rows = Some (siptw_mean (of_stratum ex_ps) ex_rows) /\
  siptw_mean (of_stratum ex_ps) ex_rows == 121 # 240 /\
  plan_mean (of_stratum ex_ps) ex_rows == 121 # 240 /\
  (* a draw: its marginal from the rows and from the per-stratum counts *)
  draw_marginal ex_rows [true; false; false; true; false; true; true; true; false; true] == 31 # 60 /\
  counts_marginal (fun s a => kcount s a ex_rows [false; true; true; false; false; true; true; false; true; true]) ex_rows
    == 31 # 60 /\
  treated_count (1#4) 5 = 1%Z /\ treated_count (4#5) 5 = 4%Z.
Proof.
  split; [|split; [|split; [|split; [|split]]]].
  - intros s Hs. destruct (ex_in_strata s Hs) as [->| ->]; vm_compute; repeat split; reflexivity.
  - intros r Hr. vm_compute in Hr. repeat (destruct Hr as [<-|Hr]; [reflexivity|]). contradiction.
  - intros r Hr. vm_compute in Hr. repeat (destruct Hr as [<-|Hr]; [split; reflexivity|]). contradiction.
  - intros r Hr. vm_compute in Hr. repeat (destruct Hr as [<-|Hr]; [vm_compute; reflexivity|]). contradiction.
  - intros r Hr. vm_compute in Hr. repeat (destruct Hr as [<-|Hr]; [split; vm_compute; reflexivity|]). contradiction.
  - split; [vm_compute; reflexivity|]. split; [vm_compute; reflexivity|]. split.
    + intros r Hr. vm_compute in Hr. repeat (destruct Hr as [<-|Hr]; [split; vm_compute; reflexivity|]). contradiction.
    + vm_compute. repeat split; reflexivity.
Qed.

(* ---- tie to the current source ---------------------------------------------------------------------------- *)
(* the per-replicate marginalisation of TimeFixedGFormula.fit_stochastic (regenerated on every run: six branches) is the
   model's weighted mean over the target rows, selected by the OBSERVED exposure, whatever the replicate's predictions;
   a degenerate replicate (everybody assigned a) therefore gives the deterministic plan's gf_marginal *)
Theorem C14_src_fit_stochastic_marginal : forall t f l,
  (match t with TAll => gf_sto_population_w_Q | TExposed => gf_sto_exposed_w_Q | TUnexposed => gf_sto_unexposed_w_Q end) (viewf f l)
  == gf_marginal_f t f l.
Proof. exact gen_sto_w. Qed.
Theorem C14_src_fit_stochastic_marginal_unweighted : forall t f l, (forall r, In r l -> wt r == 1) ->
  (match t with TAll => gf_sto_population_now_Q | TExposed => gf_sto_exposed_now_Q | TUnexposed => gf_sto_unexposed_now_Q end) (viewf f l)
  == gf_marginal_f t f l.
Proof. exact gen_sto_now. Qed.
Theorem C14_src_degenerate_replicate : forall t a l,
  (match t with TAll => gf_sto_population_w_Q | TExposed => gf_sto_exposed_w_Q | TUnexposed => gf_sto_unexposed_w_Q end) (view a l)
  == gf_marginal t a l.
Proof. exact gen_sto_degenerate_w. Qed.

(* ---- StochasticIPTW.fit in the CURRENT source (translated on every run): NaN start, in-order overwrite loop over
   zip(conditional, p) with eval(c) read on the row, np.where(A==1, p, 1-p) for a marginal plan, denominator, weight *)
Theorem C14_src_stoch_iptw_numer : forall pl r, src_stoch_numer pl r = stoch_numer pl r.
Proof. exact gen14_numer. Qed.
Theorem C14_src_stoch_iptw_weight : forall pl r, src_siptw_weight pl r = siptw_weight pl r.
Proof. exact gen14_weight. Qed.

(* ---- the clever covariate of StochasticTMLE.fit in the CURRENT source: the same plan numerator over the fitted probability of
   the treatment received *)
Theorem C14_src_stmle_clever_covariate : forall pl r, src_stmle_haw pl r = stmle_haw pl r.
Proof. exact gen_stmle_haw. Qed.

Print Assumptions C14_assign_p_perm.
Print Assumptions C14_assign_is_the_match.
Print Assumptions C14_assign_exhaustive.
Print Assumptions C14_numer_loop_perm.
Print Assumptions C14_check_exclusive.
Print Assumptions C14_stoch_iptw_mixture.
Print Assumptions C14_stoch_iptw_p1_is_all.
Print Assumptions C14_stoch_iptw_p1_is_msm_arm.
Print Assumptions C14_stoch_gformula_counts.
Print Assumptions C14_stoch_same_counts.
Print Assumptions C14_stoch_gf_p1_is_all.
Print Assumptions C14_stoch_gf_p0_is_none.
Print Assumptions C14_treated_count_bounds.
Print Assumptions C14_stoch_expected_is_mixture.
Print Assumptions C14_stmle_score_zero.
Print Assumptions C14_stmle_spec_law.
Print Assumptions C14_stmle_spec_perm.
Print Assumptions C14_stmle_code_law.
Print Assumptions C14_stmle_code_order_dependent.
Print Assumptions C14_stmle_mc_refuted.
Print Assumptions C14_src_fit_stochastic_marginal.
Print Assumptions C14_src_fit_stochastic_marginal_unweighted.
Print Assumptions C14_src_degenerate_replicate.
Print Assumptions C14_src_stoch_iptw_numer.
Print Assumptions C14_src_stoch_iptw_weight.
Print Assumptions C14_src_stmle_clever_covariate.
