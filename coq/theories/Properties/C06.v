(* C06 -- Reported standard errors and confidence intervals are coherent.
   zq is the standard-normal quantile; the only facts used are positivity above 1/2 and strict monotonicity
   (hypotheses of the theorems; sampled against scipy.stats.norm.ppf at run time). *)
From Coq Require Import Reals QArith List.
From Zepid Require Import Base.Wald Base.QSum Base.Rows Model.Estimators Model.Variance Proofs.VarianceProofs
     GenProofs.GenProofs_calc GenProofs.GenProofs_ic GenProofs.GenProofs_pool GenProofs.GenProofs_wprod GenProofs.GenProofs_xfvar GenProofs.GenProofs_drci GenProofs.GenProofs_xftmle GenProofs.GenProofs_stmle.
From ZepidGen Require Import Gen_calc_R Gen_ic_Q Gen_aipw_Q Gen_pool_Q Gen_wprod_Q Gen_xfvar_Q Gen_drci_R Gen_xftmle_Q Gen_stmle_Q Gen_stmle_R.
Import ListNotations.

Definition zq_ok (zq : R -> R) : Prop :=
  (forall p, (1 / 2 < p)%R -> (p < 1)%R -> (0 < zq p)%R) /\
  (forall p q, (0 < p)%R -> (p < q)%R -> (q < 1)%R -> (zq p < zq q)%R).

Section C06R.
Open Scope R_scope.
Variable zq : R -> R.
Hypothesis Hzq : zq_ok zq.

(* --- generic: an interval est -/+ z(1-alpha/2) se contains est, is nested in alpha, symmetric on its scale *)
Theorem C06_wald_lin_contains : forall est se alpha, 0 < alpha -> alpha < 1 -> 0 <= se ->
  fst (wald_lin zq est se alpha) <= est <= snd (wald_lin zq est se alpha).
Proof. exact (wald_lin_contains zq (proj1 Hzq)). Qed.
Theorem C06_wald_lin_nested : forall est se a1 a2, 0 < a1 -> a1 <= a2 -> a2 < 1 -> 0 <= se ->
  fst (wald_lin zq est se a1) <= fst (wald_lin zq est se a2) /\ snd (wald_lin zq est se a2) <= snd (wald_lin zq est se a1).
Proof. exact (wald_lin_nested zq (proj2 Hzq)). Qed.
Theorem C06_wald_log_contains : forall est se alpha, 0 < est -> 0 < alpha -> alpha < 1 -> 0 <= se ->
  fst (wald_log zq est se alpha) <= est <= snd (wald_log zq est se alpha).
Proof. exact (wald_log_contains zq (proj1 Hzq)). Qed.
Theorem C06_wald_log_nested : forall est se a1 a2, 0 < a1 -> a1 <= a2 -> a2 < 1 -> 0 <= se ->
  fst (wald_log zq est se a1) <= fst (wald_log zq est se a2) /\ snd (wald_log zq est se a2) <= snd (wald_log zq est se a1).
Proof. exact (wald_log_nested zq (proj2 Hzq)). Qed.
Theorem C06_wald_lin_symmetric : forall est se alpha,
  est - fst (wald_lin zq est se alpha) = snd (wald_lin zq est se alpha) - est.
Proof. exact (wald_lin_symmetric zq). Qed.
Theorem C06_wald_log_symmetric : forall est se alpha, 0 < est ->
  ln est - ln (fst (wald_log zq est se alpha)) = ln (snd (wald_log zq est se alpha)) - ln est.
Proof. exact (wald_log_symmetric_on_log_scale zq). Qed.

(* --- the 2x2 calculators translated from source: limits ARE the Wald interval of (estimate, SE) on the documented
   scale, SE IS the square root of the documented variance, and neither estimate nor SE depends on alpha *)
Theorem C06_rr_ci : forall a b c d al, pos4 a b c d ->
  (p4_2 (risk_ratio_R zq a b c d al), p4_3 (risk_ratio_R zq a b c d al)) =
  wald_log zq (p4_1 (risk_ratio_R zq a b c d al)) (p4_4 (risk_ratio_R zq a b c d al)) al.
Proof. exact (rr_ci zq). Qed.
Theorem C06_rd_ci : forall a b c d al, pos4 a b c d ->
  (p4_2 (risk_difference_R zq a b c d al), p4_3 (risk_difference_R zq a b c d al)) =
  wald_lin zq (p4_1 (risk_difference_R zq a b c d al)) (p4_4 (risk_difference_R zq a b c d al)) al.
Proof. exact (rd_ci zq). Qed.
Theorem C06_or_ci : forall a b c d al, pos4 a b c d ->
  (p4_2 (odds_ratio_R zq a b c d al), p4_3 (odds_ratio_R zq a b c d al)) =
  wald_log zq (p4_1 (odds_ratio_R zq a b c d al)) (p4_4 (odds_ratio_R zq a b c d al)) al.
Proof. exact (or_ci zq). Qed.
Theorem C06_irr_ci : forall a c t1 t2 al,
  (p4_2 (incidence_rate_ratio_R zq a c t1 t2 al), p4_3 (incidence_rate_ratio_R zq a c t1 t2 al)) =
  wald_log zq (p4_1 (incidence_rate_ratio_R zq a c t1 t2 al)) (p4_4 (incidence_rate_ratio_R zq a c t1 t2 al)) al.
Proof. exact (irr_ci zq). Qed.
Theorem C06_ird_ci : forall a c t1 t2 al,
  (p4_2 (incidence_rate_difference_R zq a c t1 t2 al), p4_3 (incidence_rate_difference_R zq a c t1 t2 al)) =
  wald_lin zq (p4_1 (incidence_rate_difference_R zq a c t1 t2 al)) (p4_4 (incidence_rate_difference_R zq a c t1 t2 al)) al.
Proof. exact (ird_ci zq). Qed.
Theorem C06_risk_ci : forall e t al,
  (p4_2 (risk_ci_wald_R zq e t al), p4_3 (risk_ci_wald_R zq e t al)) =
  wald_lin zq (p4_1 (risk_ci_wald_R zq e t al)) (p4_4 (risk_ci_wald_R zq e t al)) al.
Proof. exact (risk_wald_ci zq). Qed.
Theorem C06_ir_ci : forall e t al,
  (p4_2 (incidence_rate_ci_R zq e t al), p4_3 (incidence_rate_ci_R zq e t al)) =
  wald_lin zq (p4_1 (incidence_rate_ci_R zq e t al)) (p4_4 (incidence_rate_ci_R zq e t al)) al.
Proof. exact (ir_ci zq). Qed.
Theorem C06_nnt_limits : forall a b c d al, pos4 a b c d ->
  p4_2 (number_needed_to_treat_R zq a b c d al) = inv_opt (p4_2 (risk_difference_R zq a b c d al)) /\
  p4_3 (number_needed_to_treat_R zq a b c d al) = inv_opt (p4_3 (risk_difference_R zq a b c d al)) /\
  p4_4 (number_needed_to_treat_R zq a b c d al) = p4_4 (risk_difference_R zq a b c d al).
Proof. exact (nnt_limits zq). Qed.
Theorem C06_se_formulas : forall a b c d al, pos4 a b c d ->
  p4_4 (risk_ratio_R zq a b c d al) = sqrt (var_lnRR a b c d) /\
  p4_4 (risk_difference_R zq a b c d al) = sqrt (var_RD a b c d) /\
  p4_4 (odds_ratio_R zq a b c d al) = sqrt (var_lnOR a b c d).
Proof. exact (fun a b c d al H => conj (rr_sd zq a b c d al H) (conj (rd_sd zq a b c d al H) (or_sd zq a b c d al H))). Qed.
Theorem C06_rate_se_formulas : forall a c t1 t2 al, 0 < a -> 0 < c -> 0 < t1 -> 0 < t2 ->
  p4_4 (incidence_rate_ratio_R zq a c t1 t2 al) = sqrt (var_lnIRR a c) /\
  p4_4 (incidence_rate_difference_R zq a c t1 t2 al) = sqrt (var_IRD a c t1 t2).
Proof. exact (fun a c t1 t2 al Ha Hc H1 H2 => conj (irr_sd zq a c t1 t2 al Ha Hc) (ird_sd zq a c t1 t2 al H1 H2)). Qed.
Theorem C06_points_indep_alpha : forall a b c d al al', pos4 a b c d ->
  p4_1 (risk_ratio_R zq a b c d al) = p4_1 (risk_ratio_R zq a b c d al') /\
  p4_1 (risk_difference_R zq a b c d al) = p4_1 (risk_difference_R zq a b c d al') /\
  p4_1 (odds_ratio_R zq a b c d al) = p4_1 (odds_ratio_R zq a b c d al') /\
  p4_4 (risk_ratio_R zq a b c d al) = p4_4 (risk_ratio_R zq a b c d al') /\
  p4_4 (risk_difference_R zq a b c d al) = p4_4 (risk_difference_R zq a b c d al') /\
  p4_4 (odds_ratio_R zq a b c d al) = p4_4 (odds_ratio_R zq a b c d al').
Proof. exact (points_indep_alpha zq). Qed.
Theorem C06_variances_nonneg : forall a b c d, pos4 a b c d ->
  0 <= var_lnRR a b c d /\ 0 <= var_RD a b c d /\ 0 < var_lnOR a b c d.
Proof. exact (fun a b c d H => conj (var_lnRR_nonneg a b c d H) (conj (var_RD_nonneg a b c d H) (var_lnOR_pos a b c d H))). Qed.
(* --- AIPTW.fit and TMLE.fit: the limit expressions of the CURRENT source (translated on every run) ARE the Wald interval
   of the reported estimate and standard error, on the additive scale for ATE/RD and on the log scale for RR/OR.
   TMLE.fit uses the literal 1.96 at alpha == 0.05; that is the Wald interval iff the quantile there equals 1.96. *)
Theorem C06_src_aiptw_ci_ate : forall al est v, aiptw_ci_ate_R zq al est v = wald_lin zq est (sqrt v) al.
Proof. exact (gen_aiptw_ate zq). Qed.
Theorem C06_src_aiptw_ci_rd : forall al est v, aiptw_ci_rd_R zq al est v = wald_lin zq est (sqrt v) al.
Proof. exact (gen_aiptw_rd zq). Qed.
Theorem C06_src_aiptw_ci_rr : forall al est se, aiptw_ci_rr_R zq al est se = wald_log zq est se al.
Proof. exact (gen_aiptw_rr zq). Qed.
Theorem C06_src_tmle_ci_ate : forall al est se, tmle_ci_ate_R zq al est se = wald_lin zq est se al.
Proof. exact (gen_tmle_ate zq). Qed.
Theorem C06_src_tmle_ci_rd : forall al est se, tmle_ci_rd_R zq al est se = wald_lin zq est se al.
Proof. exact (gen_tmle_rd zq). Qed.
Theorem C06_src_tmle_ci_rr : forall al est se, tmle_ci_rr_R zq al est se = wald_log zq est se al.
Proof. exact (gen_tmle_rr zq). Qed.
Theorem C06_src_tmle_ci_or : forall al est se, tmle_ci_or_R zq al est se = wald_log zq est se al.
Proof. exact (gen_tmle_or zq). Qed.
Theorem C06_src_tmle_rd_at005 : forall est se, se <> 0 ->
  (tmle_ci_rd_at005_R est se = wald_lin zq est se (5 / 100) <-> zcrit zq (5 / 100) = 196 / 100).
Proof. exact (gen_tmle_rd_at005 zq). Qed.
(* --- StochasticTMLE.fit in the CURRENT source: SE = sqrt(variance)/sqrt(n), i.e. SE^2 = variance / n, and both intervals are the
   Wald interval of the marginal outcome and that SE for every alpha *)
Theorem C06_src_stmle_se : forall v n, 0 <= v -> 0 < n ->
  stmle_marginal_se_R v n * stmle_marginal_se_R v n = v / n /\ stmle_conditional_se_R v n = stmle_marginal_se_R v n /\
  0 <= stmle_marginal_se_R v n.
Proof. exact gen_stmle_se. Qed.
Theorem C06_src_stmle_ci : forall al est se,
  stmle_marginal_ci_R zq al est se = wald_lin zq est se al /\ stmle_conditional_ci_R zq al est se = wald_lin zq est se al.
Proof. exact (gen_stmle_ci zq). Qed.
End C06R.

(* --- influence-curve variances (AIPTW, TMLE, StochasticTMLE), IPTW sandwich closed form, cross-fit pooling (Q) *)
Open Scope Q_scope.
Theorem C06_ic_var_nonneg : forall v n, (2 <= length (keep_some v))%nat -> 0 < n -> 0 <= ic_var v n.
Proof. exact ic_var_nonneg. Qed.
Theorem C06_var_shift_invariant : forall c v, v <> [] -> var_ddof1 (map (fun x => x + c) v) == var_ddof1 v.
Proof. exact var_shift. Qed.
Theorem C06_stmle_var_nonneg : forall v, v <> [] -> 0 <= stmle_var v.
Proof. exact stmle_var_nonneg. Qed.
Theorem C06_sandwich_nonneg : forall W l, 0 <= sw_var_mu W true l /\ 0 <= sw_var_mu W false l /\ 0 <= sw_var_rd W l.
Proof. exact (fun W l => conj (sw_var_mu_nonneg W true l) (conj (sw_var_mu_nonneg W false l) (sw_var_rd_nonneg W l))). Qed.
Theorem C06_pool_var_nonneg : forall use_median pts vars,
  Forall (fun x => 0 <= x) vars -> 0 <= snd (pool use_median pts vars).
Proof. exact pool_var_nonneg. Qed.
Theorem C06_pool_mean_formula : forall pts vars, length pts = length vars -> pts <> [] ->
  snd (pool false pts vars) == meanq vars + meanq (map (fun p => (p - meanq pts) * (p - meanq pts)) pts).
Proof. exact pool_mean_formula. Qed.

(* the influence-curve expressions of the CURRENT source (translated on every run) are those of the variance model *)
Theorem C06_src_tmle_ic_rd : forall psi r, ~ pa1 r == 0 -> ~ pa0 r == 0 ->
  same (tmle_ic_rd_Q (obs r) (h1 r + h0 r) (qs r) (q0 r) (q1 r) (yval r) psi) (tmle_ic_rd psi r).
Proof. exact gen_tmle_ic_rd. Qed.
Theorem C06_src_tmle_ic_ate : forall psi r, ~ pa1 r == 0 -> ~ pa0 r == 0 ->
  same (tmle_ic_ate_Q (obs r) (h1 r + h0 r) (qs r) (q0 r) (q1 r) (yval r) psi) (tmle_ic_rd psi r).
Proof. exact gen_tmle_ic_ate. Qed.
Theorem C06_src_tmle_ic_rr : forall mq1 mq0 r, ~ pa1 r == 0 -> ~ pa0 r == 0 -> ~ mq1 == 0 -> ~ mq0 == 0 ->
  same (tmle_ic_rr_Q (obs r) (h0 r) (h1 r) (qs r) (q0 r) (q1 r) mq0 mq1 (yval r)) (tmle_ic_rr mq1 mq0 r).
Proof. exact gen_tmle_ic_rr. Qed.
Theorem C06_src_tmle_ic_or : forall mq1 mq0 r, ~ pa1 r == 0 -> ~ pa0 r == 0 ->
  ~ mq1 == 0 -> ~ mq0 == 0 -> ~ 1 - mq1 == 0 -> ~ 1 - mq0 == 0 ->
  same (tmle_ic_or_Q (obs r) (h0 r) (h1 r) (qs r) (q0 r) (q1 r) mq0 mq1 (yval r)) (tmle_ic_or mq1 mq0 r).
Proof. exact gen_tmle_ic_or. Qed.
Theorem C06_src_aipw_ic_rd : forall est r, obs r = true ->
  same (aipw_ic_rd_Q est (aipw_y0 r) (aipw_y1 r)) (aipw_ic_rd est r).
Proof. exact gen_aipw_ic_rd. Qed.
Theorem C06_src_aipw_ic_rr : forall mq1 mq0 r, obs r = true -> ~ pa1 r == 0 -> ~ pa0 r == 0 -> ~ mq1 == 0 -> ~ mq0 == 0 ->
  same (aipw_ic_rr_Q (trt r) mq1 mq0 (pa0 r) (pa1 r) (q1 r) (q0 r) (yval r)) (aipw_ic_rr mq1 mq0 r).
Proof. exact gen_aipw_ic_rr. Qed.
Theorem C06_src_aipw_pseudo : forall r, ~ pa1 r == 0 -> ~ pa0 r == 0 ->
  (exists x, aipw_y1_Q (trt r) (pa1 r) (q1 r) (yval r) = [Some x] /\ x == aipw_y1 r) /\
  (exists x, aipw_y0_Q (trt r) (pa0 r) (q0 r) (yval r) = [Some x] /\ x == aipw_y0 r).
Proof. intros r H1 H0; split; [exact (gen_aipw_y1 r H1) | exact (gen_aipw_y0 r H0)]. Qed.

(* the pooling function of the CURRENT source (which aggregate per `method`, which elementwise term) is the model's *)
Theorem C06_src_pool_median : forall pts vars,
  fst (pool_median_Q pts vars) = fst (pool true pts vars) /\ snd (pool_median_Q pts vars) == snd (pool true pts vars).
Proof. exact gen_pool_median. Qed.
Theorem C06_src_pool_mean : forall pts vars,
  fst (pool_mean_Q pts vars) = fst (pool false pts vars) /\ snd (pool_mean_Q pts vars) == snd (pool false pts vars).
Proof. exact gen_pool_mean. Qed.

(* the weight IPTW.fit hands to the GEE in the CURRENT source = user weight x treatment weight x missingness weight *)
Theorem C06_src_iptw_fit_weight : forall stab t n c1 c0 r,
  is_w (iptw_fit_weight_ipmw_w_Q (iptw_w stab t n r) (ipmw_w c1 c0 r) (wt r)) (total_w stab t n c1 c0 r) /\
  (forall j, wt r == 1 -> is_w (iptw_fit_weight_ipmw_now_Q (iptw_w stab t n r) (ipmw_w c1 c0 r) j) (total_w stab t n c1 c0 r)) /\
  (forall j, ipmw_w c1 c0 r == 1 -> is_w (iptw_fit_weight_noipmw_w_Q (iptw_w stab t n r) j (wt r)) (total_w stab t n c1 c0 r)) /\
  (forall j1 j2, wt r == 1 -> ipmw_w c1 c0 r == 1 ->
     is_w (iptw_fit_weight_noipmw_now_Q (iptw_w stab t n r) j1 j2) (total_w stab t n c1 c0 r)).
Proof.
  intros stab t n c1 c0 r. split; [exact (gen_fit_weight_full stab t n c1 c0 r)|]. split; [intros j; exact (gen_fit_weight_no_user stab t n c1 c0 r j)|].
  split; [intros j; exact (gen_fit_weight_no_missing stab t n c1 c0 r j)|]. intros j1 j2; exact (gen_fit_weight_plain stab t n c1 c0 r j1 j2).
Qed.

(* the per-partition variance of the cross-fit AIPTW difference measures in the CURRENT source (the `splits` branch of
   aipw_calculator) is the model: mean over the parts of the within-part sample variance of y1 - y0 - estimate, over n *)
Theorem C06_src_crossfit_aiptw_variance : forall est parts n, xf_aipw_var_Q est parts n == xf_aipw_var est parts n.
Proof. exact gen_xf_aipw_var. Qed.
Theorem C06_crossfit_aiptw_variance_nonneg : forall est parts n,
  parts <> [] -> Forall (fun p => (2 <= length p)%nat) parts -> 0 < n -> 0 <= xf_aipw_var est parts n.
Proof. exact xf_aipw_var_nonneg. Qed.

Example C06_nonvacuous : fst (pool true [1#2; 1#4; 3#4] [1#100; 1#100; 4#100]) == 1 # 2 /\
  snd (pool true [1#2; 1#4; 3#4; 1] [1#100; 1#100; 4#100; 0]) == 157 # 1600 /\
  var_ddof1 [1; 2; 4] == 7 # 3 /\ ic_var [Some 1; None; Some 2; Some 4] 4 == 7 # 12.
Proof. vm_compute. repeat split; reflexivity. Qed.

(* ---- cross-fit TMLE: crossfit.tmle_calculator and the clever covariates of crossfit.targeting_step in the CURRENT source.
   Risk difference / ATE and odds ratio: the variance of a partition IS the influence-curve variance (the influence values of
   TMLE.fit with the means of the part; within-part sample variance, mean over the parts, over n).  Risk ratio: it is NOT -- it
   is xf_tmle_var_rr_code, proved below together with an explicit two-row witness (recorded finding). *)
Theorem C06_src_xf_tmle_estimates : forall all,
  xf_tmle_est_rd_Q all = xf_tmle_est_rd all /\ xf_tmle_est_rr_Q all = xf_tmle_est_rr all /\ xf_tmle_est_or_Q all = xf_tmle_est_or all.
Proof. exact gen_xf_tmle_est. Qed.
Theorem C06_src_xf_tmle_variance_rd : forall est parts n, xf_tmle_var_rd_Q est parts n == xf_tmle_var_rd est parts n.
Proof. exact gen_xf_tmle_var_rd. Qed.
Theorem C06_src_xf_tmle_variance_or : forall est parts n, xf_tmle_var_or_Q est parts n == xf_tmle_var_or parts n.
Proof. exact gen_xf_tmle_var_or. Qed.
Theorem C06_src_xf_tmle_variance_rr_is_code : forall est parts n, xf_tmle_var_rr_Q est parts n == xf_tmle_var_rr_code parts n.
Proof. exact gen_xf_tmle_var_rr_is_code. Qed.
Theorem C06_src_xf_tmle_variance_rr_refuted :
  exists parts n est, 0 < n /\ ~ xf_tmle_var_rr_Q est parts n == xf_tmle_var_rr parts n.
Proof. exact gen_xf_tmle_var_rr_refuted. Qed.
Theorem C06_xf_influence_values_are_tmle : forall est m1 m0 r, obs r = true ->
  tmle_ic_rd est r = Some (xf_ic_rd est (to_x r)) /\ tmle_ic_rr m1 m0 r = Some (xf_ic_rr m1 m0 (to_x r)) /\
  tmle_ic_or m1 m0 r = Some (xf_ic_or m1 m0 (to_x r)).
Proof. exact xf_ic_is_tmle_ic. Qed.
Theorem C06_src_xf_targeting_covariates : forall (a : bool) pa1 pa0 h1w h0w pya pyn,
  xf_ts_h1w_Q a pa1 == ind a / pa1 /\ xf_ts_h0w_Q a pa0 == - (1 - ind a) / pa0 /\
  xf_ts_haw_Q a h0w h1w == h1w + h0w /\ xf_ts_py_o_Q a pya pyn == (if a then pya else pyn).
Proof. exact gen_xf_targeting. Qed.
Theorem C06_xf_tmle_variance_nonneg : forall est parts n, parts <> [] -> Forall (fun p => (2 <= length p)%nat) parts -> 0 < n ->
  0 <= xf_tmle_var_rd est parts n /\ 0 <= xf_tmle_var_rr parts n /\ 0 <= xf_tmle_var_or parts n /\ 0 <= xf_tmle_var_rr_code parts n.
Proof. exact xf_tmle_var_nonneg. Qed.

(* ---- StochasticTMLE variance estimators in the CURRENT source: the mean of the squared influence values; over n it is stmle_var *)
Theorem C06_src_stmle_marginal_variance : forall rows psi, stmle_marginal_variance_Q rows psi == mean_sq (map (stmle_ic psi) rows).
Proof. exact gen_stmle_marginal_variance. Qed.
Theorem C06_src_stmle_conditional_variance : forall rows psi, stmle_conditional_variance_Q rows psi == mean_sq (map stmle_ic_cond rows).
Proof. exact gen_stmle_conditional_variance. Qed.
Theorem C06_src_stmle_var : forall rows psi, stmle_marginal_variance_Q rows psi / Qlen rows == stmle_var (map (stmle_ic psi) rows).
Proof. exact gen_stmle_var. Qed.

Print Assumptions C06_wald_lin_contains.
Print Assumptions C06_wald_lin_nested.
Print Assumptions C06_wald_log_contains.
Print Assumptions C06_wald_log_nested.
Print Assumptions C06_wald_lin_symmetric.
Print Assumptions C06_wald_log_symmetric.
Print Assumptions C06_rr_ci.
Print Assumptions C06_rd_ci.
Print Assumptions C06_or_ci.
Print Assumptions C06_irr_ci.
Print Assumptions C06_ird_ci.
Print Assumptions C06_risk_ci.
Print Assumptions C06_ir_ci.
Print Assumptions C06_nnt_limits.
Print Assumptions C06_se_formulas.
Print Assumptions C06_rate_se_formulas.
Print Assumptions C06_points_indep_alpha.
Print Assumptions C06_variances_nonneg.
Print Assumptions C06_ic_var_nonneg.
Print Assumptions C06_var_shift_invariant.
Print Assumptions C06_stmle_var_nonneg.
Print Assumptions C06_sandwich_nonneg.
Print Assumptions C06_pool_var_nonneg.
Print Assumptions C06_pool_mean_formula.
Print Assumptions C06_src_tmle_ic_rd.
Print Assumptions C06_src_tmle_ic_ate.
Print Assumptions C06_src_tmle_ic_rr.
Print Assumptions C06_src_tmle_ic_or.
Print Assumptions C06_src_aipw_ic_rd.
Print Assumptions C06_src_aipw_ic_rr.
Print Assumptions C06_src_aipw_pseudo.
Print Assumptions C06_src_pool_median.
Print Assumptions C06_src_pool_mean.
Print Assumptions C06_src_iptw_fit_weight.
Print Assumptions C06_src_crossfit_aiptw_variance.
Print Assumptions C06_crossfit_aiptw_variance_nonneg.
Print Assumptions C06_src_aiptw_ci_ate.
Print Assumptions C06_src_aiptw_ci_rd.
Print Assumptions C06_src_aiptw_ci_rr.
Print Assumptions C06_src_tmle_ci_ate.
Print Assumptions C06_src_tmle_ci_rd.
Print Assumptions C06_src_tmle_ci_rr.
Print Assumptions C06_src_tmle_ci_or.
Print Assumptions C06_src_tmle_rd_at005.
Print Assumptions C06_src_xf_tmle_estimates.
Print Assumptions C06_src_xf_tmle_variance_rd.
Print Assumptions C06_src_xf_tmle_variance_or.
Print Assumptions C06_src_xf_tmle_variance_rr_is_code.
Print Assumptions C06_src_xf_tmle_variance_rr_refuted.
Print Assumptions C06_xf_influence_values_are_tmle.
Print Assumptions C06_src_xf_targeting_covariates.
Print Assumptions C06_xf_tmle_variance_nonneg.
Print Assumptions C06_src_stmle_se.
Print Assumptions C06_src_stmle_ci.
Print Assumptions C06_src_stmle_marginal_variance.
Print Assumptions C06_src_stmle_conditional_variance.
Print Assumptions C06_src_stmle_var.
