(* C16 -- Generalize/transport estimators standardise to the stated target population.
   Rows of the combined data carry an effect-modifier stratum code (any number / arity of categorical modifiers
   collapses to one code), so every statement holds for every data-set size and every number of strata.
   gstd true a  = study-sample cell means of arm a standardised over ALL rows (sample + non-sample),
   gstd false a = ... over the NON-sampled rows only.  The fitted nuisance values are oracle fields of the rows;
   "saturated" (sat_S / sat_A / sat_Q) says they are the cell proportions / cell means of the study sample. *)
From Coq Require Import QArith List.
From Zepid Require Import Base.QSum Base.QUtil Base.Rows Model.Estimators Model.Generalize Proofs.GeneralizeProofs GenProofs.GenProofs_gener.
From ZepidGen Require Import Gen_gener_Q.
Import ListNotations.
Open Scope Q_scope.

(* IPSW with treatment weights: stabilised or not (numerators are arbitrary constants in (0,1)) *)
Theorem C16_ipsw_generalize_std : forall l c a, good_consts c -> gpositivity l -> sat_S l -> sat_A l -> l <> [] ->
  gen c = true -> rx c = true -> ipsw_risk c a l == gstd true a l.
Proof. exact ipsw_generalize_std. Qed.
Theorem C16_ipsw_transport_std : forall l c a, good_consts c -> gpositivity l -> sat_S l -> sat_A l ->
  (exists r, In r l /\ smp r = false) -> gen c = false -> rx c = true -> ipsw_risk c a l == gstd false a l.
Proof. exact ipsw_transport_std. Qed.
(* IPSW without a treatment model standardises exactly when the sample's allocation fraction is the same in every
   modifier stratum (the marginally randomised trial the class documents this use for) *)
Theorem C16_ipsw_norx_balanced_std : forall l c, 0 < nS c -> nS c < 1 -> gpositivity l -> sat_S l ->
  forall a rho, rx c = false -> ~ rho == 0 ->
  (forall s, In s (gstrata l) -> cNSa s a l == rho * cNS s l) -> nonempty_tgt (gen c) l ->
  ipsw_risk c a l == gstd (gen c) a l.
Proof. exact ipsw_norx_balanced_is_std. Qed.
(* g-transport formula *)
Theorem C16_gtransport_generalize_std : forall l a, sat_Q l -> gt_risk true a l == gstd true a l.
Proof. exact gtransport_generalize_std. Qed.
Theorem C16_gtransport_transport_std : forall l a, sat_Q l -> gt_risk false a l == gstd false a l.
Proof. exact gtransport_transport_std. Qed.
(* AIPSW: any stabilisation, with or without a treatment model *)
Theorem C16_aipsw_generalize_std : forall l c a, good_consts c -> gpositivity l -> sat_S l ->
  (rx c = true -> sat_A l) -> sat_Q l -> l <> [] -> gen c = true -> aipsw_risk c a l == gstd true a l.
Proof. exact aipsw_generalize_std. Qed.
Theorem C16_aipsw_transport_std : forall l c a, good_consts c -> gpositivity l -> sat_S l ->
  (rx c = true -> sat_A l) -> sat_Q l -> (exists r, In r l /\ smp r = false) -> gen c = false ->
  aipsw_risk c a l == gstd false a l.
Proof. exact aipsw_transport_std. Qed.
(* the risk difference / ratio of each class is the difference / ratio of its two arm risks (by definition of the
   model), hence of the two standardised risks *)
Theorem C16_measures_are_std : forall gn r1 r0 l, r1 == gstd gn true l -> r0 == gstd gn false l ->
  r1 - r0 == gstd_rd gn l /\ r1 / r0 == gstd_rr gn l.
Proof. exact measures_are_std. Qed.
(* rows outside the study sample: whatever is stored as their outcome (and treatment, and treatment-model
   prediction) changes neither any estimate nor the specification *)
Theorem C16_outside_outcomes_irrelevant : forall l l', Forall2 outside_eq l l' -> forall c a,
  ipsw_risk c a l' == ipsw_risk c a l /\ gt_risk (gen c) a l' == gt_risk (gen c) a l /\
  aipsw_risk c a l' == aipsw_risk c a l /\ gstd (gen c) a l' == gstd (gen c) a l.
Proof. exact outside_outcomes_irrelevant. Qed.

(* the generalize target is the all-rows standardisation `std TAll` of Base.Rows (the specification of C01/C02), when a
   row's outcome counts as observed exactly if the row is sampled *)
Theorem C16_generalize_target_is_std_all : forall a l, gstd true a l == std TAll a (map g_to_row l).
Proof. exact gstd_generalize_is_std. Qed.
(* the reducing sums the run evaluates are the models above *)
Theorem C16_exec_twins : forall c a l,
  ipsw_risk_x c a l == ipsw_risk c a l /\ gt_risk_x (gen c) a l == gt_risk (gen c) a l /\ aipsw_risk_x c a l == aipsw_risk c a l.
Proof. intros c a l. split; [apply ipsw_risk_x_eq|split; [apply gt_risk_x_eq|apply aipsw_risk_x_eq]]. Qed.

(* non-vacuity: a 10-row combined data set (6 sampled, 4 not; two modifier strata) with saturated fits *)
Definition ex_rows : list grow := wit_rows_Qsat.
Definition ex_cfg (gn stab use : bool) : gcfg := {| gen := gn; stabS := stab; rx := use; stabA := stab; nS := 3#5; nA := 1#2 |}.
Definition ex_junk : list grow :=
  map (fun r => if smp r then r else
                {| gs := gs r; smp := false; ga := negb (ga r); gy := gy r + 7; ps := ps r; pa := 1 - pa r;
                   gq1 := gq1 r; gq0 := gq0 r |}) ex_rows.
Example C16_nonvacuous :
  gstd true true ex_rows == 2#5 /\ gstd true false ex_rows == 3#10 /\
  gstd false true ex_rows == 1#4 /\ gstd false false ex_rows == 3#8 /\
  (forall gn stab, ipsw_risk (ex_cfg gn stab true) true ex_rows == gstd gn true ex_rows /\
                   gt_risk gn false ex_rows == gstd gn false ex_rows /\
                   aipsw_risk (ex_cfg gn stab false) true ex_rows == gstd gn true ex_rows /\
                   aipsw_risk (ex_cfg gn stab true) false ex_junk == gstd gn false ex_rows).
Proof.
  split; [vm_compute; reflexivity|]. split; [vm_compute; reflexivity|].
  split; [vm_compute; reflexivity|]. split; [vm_compute; reflexivity|].
  intros gn stab. destruct gn, stab; (split; [|split; [|split]]); vm_compute; reflexivity.
Qed.
Example C16_nonvacuous_hyps :
  gpositivity ex_rows /\ nonempty_tgt true ex_rows /\ nonempty_tgt false ex_rows /\
  sat_S ex_rows /\ sat_A ex_rows /\ sat_Q ex_rows /\ Forall2 outside_eq ex_rows ex_junk.
Proof.
  split; [|split; [|split; [|split; [|split; [|split]]]]].
  - intros s Hs. vm_compute in Hs. destruct Hs as [<-|[<-|[]]]; vm_compute; split; reflexivity.
  - vm_compute. discriminate.
  - vm_compute. discriminate.
  - intros r Hr. vm_compute in Hr. repeat (destruct Hr as [<-|Hr]; [vm_compute; reflexivity|]). contradiction.
  - intros r Hr _. vm_compute in Hr. repeat (destruct Hr as [<-|Hr]; [vm_compute; reflexivity|]). contradiction.
  - intros r Hr. vm_compute in Hr. repeat (destruct Hr as [<-|Hr]; [split; vm_compute; reflexivity|]). contradiction.
  - unfold ex_junk. induction ex_rows as [|r l IH]; [constructor|]. cbn [map]. constructor; [|exact IH].
    unfold outside_eq. destruct (smp r) eqn:Es; cbn; rewrite ?Es.
    + repeat split; reflexivity.
    + repeat split; try reflexivity; discriminate.
Qed.

(* ---- the CURRENT source of zepid.causal.generalize.estimators (translated on every run) is the model above *)
(* IPSW.sampling_model: inverse probability of sampling for generalize, inverse odds for transport *)
Theorem C16_src_ipsw_sampling_weight : forall gn stab n d, src_ipsw_samp gn stab n d == samp_w gn stab n d.
Proof. exact gen_ipsw_samp. Qed.
Theorem C16_src_ipsw_sampling_weight_bounded : forall gn stab pb n d,
  src_ipsw_samp_b gn stab pb n d == samp_w gn stab (if stab then pb n else n) (pb d).
Proof. exact gen_ipsw_samp_bounded. Qed.
Theorem C16_src_aipsw_sampling_weight : forall gn stab n d,
  src_aipsw_samp gn stab true n d == samp_w gn stab n d /\ ((gn = true \/ stab = true) -> src_aipsw_samp gn stab false n d == 0).
Proof. exact (fun gn stab n d => conj (gen_aipsw_samp_sampled gn stab n d) (gen_aipsw_samp_outside gn stab n d)). Qed.
(* the weight used by .fit is the product of the sampling weight and (when treatment_model was called) the treatment weight *)
Theorem C16_src_ipsw_total_weight : forall c r w,
  (if rx c then ipsw_fit_ipw_iptw_now_Q else ipsw_fit_ipw_noiptw_now_Q)
     (samp_w (gen c) (stabS c) (nS c) (ps r)) (trt_w true (stabA c) (nA c) (ga r) (pa r)) w == tot_w c r /\
  (if rx c then ipsw_fit_ipw_iptw_w_Q else ipsw_fit_ipw_noiptw_w_Q)
     (samp_w (gen c) (stabS c) (nS c) (ps r)) (trt_w true (stabA c) (nA c) (ga r) (pa r)) w == tot_w c r * w.
Proof. exact gen_ipsw_fit_ipw. Qed.
Theorem C16_src_aipsw_total_weight : forall c r w,
  (if rx c then aipsw_fit_ipw_iptw_now_Q else aipsw_fit_ipw_noiptw_now_Q)
     (samp_w (gen c) (stabS c) (nS c) (ps r)) (trt_w true (stabA c) (nA c) (ga r) (pa r)) w == tot_w c r /\
  (if rx c then aipsw_fit_ipw_iptw_w_Q else aipsw_fit_ipw_noiptw_w_Q)
     (samp_w (gen c) (stabS c) (nS c) (ps r)) (trt_w true (stabA c) (nA c) (ga r) (pa r)) w == tot_w c r * w.
Proof. exact gen_aipsw_fit_ipw. Qed.
(* IPSW.fit: weighted arm means over the rows with selection == 1 *)
Theorem C16_src_ipsw_fit : forall c (a : bool) l, (if a then ipsw_fit_r1_Q else ipsw_fit_r0_Q) (sview c l) == ipsw_risk c a l.
Proof. exact gen_ipsw_fit_risk. Qed.
(* AIPSW.fit: all rows (generalize) / rows with selection == 0 (transport) carry the prediction, sampled rows of the arm the
   weighted residual; whatever the weight column holds outside the study sample is irrelevant *)
Theorem C16_src_aipsw_fit : forall c junk a l,
  (match gen c, a with
   | true, true => aipsw_fit_gen_r1_Q | true, false => aipsw_fit_gen_r0_Q
   | false, true => aipsw_fit_trn_r1_Q | false, false => aipsw_fit_trn_r0_Q end) (aview c junk l) == aipsw_risk c a l.
Proof. exact gen_aipsw_fit. Qed.
(* GTransportFormula.fit: mean prediction over all rows (generalize) / over the rows with selection == 0 (transport) *)
Theorem C16_src_gtransport_fit : forall w gn a l,
  (match gn, a with
   | true, true => gt_fit_gen_now_r1_Q | true, false => gt_fit_gen_now_r0_Q
   | false, true => gt_fit_trn_now_r1_Q | false, false => gt_fit_trn_now_r0_Q end) (tview w l) == gt_risk gn a l.
Proof. exact gen_gt_fit_unweighted. Qed.
Theorem C16_src_gtransport_fit_weighted : forall w gn a l,
  (match gn, a with
   | true, true => gt_fit_gen_w_r1_Q | true, false => gt_fit_gen_w_r0_Q
   | false, true => gt_fit_trn_w_r1_Q | false, false => gt_fit_trn_w_r0_Q end) (tview w l) == gt_risk_w w gn a l.
Proof. exact gen_gt_fit_weighted. Qed.
Theorem C16_gtransport_unit_weights : forall gn a l, gt_risk_w (fun _ => 1) gn a l == gt_risk gn a l.
Proof. exact gt_risk_w_unit. Qed.


Print Assumptions C16_ipsw_generalize_std.
Print Assumptions C16_ipsw_transport_std.
Print Assumptions C16_ipsw_norx_balanced_std.
Print Assumptions C16_gtransport_generalize_std.
Print Assumptions C16_gtransport_transport_std.
Print Assumptions C16_aipsw_generalize_std.
Print Assumptions C16_aipsw_transport_std.
Print Assumptions C16_measures_are_std.
Print Assumptions C16_outside_outcomes_irrelevant.
Print Assumptions C16_exec_twins.
Print Assumptions C16_generalize_target_is_std_all.
Print Assumptions C16_src_ipsw_sampling_weight.
Print Assumptions C16_src_ipsw_sampling_weight_bounded.
Print Assumptions C16_src_aipsw_sampling_weight.
Print Assumptions C16_src_ipsw_total_weight.
Print Assumptions C16_src_aipsw_total_weight.
Print Assumptions C16_src_ipsw_fit.
Print Assumptions C16_src_aipsw_fit.
Print Assumptions C16_src_gtransport_fit.
Print Assumptions C16_src_gtransport_fit_weighted.
Print Assumptions C16_gtransport_unit_weights.
