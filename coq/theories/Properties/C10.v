(* C10 -- Incomplete rows are handled exactly as documented. *)
From Coq Require Import QArith List Bool.
From Zepid Require Import Base.QSum Base.QUtil Base.Rows Proofs.RowsProofs Model.Estimators Proofs.EstimatorsProofs
     Model.Gate Proofs.GateProofs Model.Frames Proofs.FramesProofs GenProofs.GenProofs_gate.
From ZepidGen Require Import Gen_gate_Q.
Import ListNotations.
Open Scope Q_scope.

(* the gate: rows with a missing exposure or covariate never influence a causal estimator *)
Theorem C10_gate_ignores_incomplete : forall d rows, gate d (delete_incomplete rows) = gate d rows.
Proof. exact gate_ignores_incomplete. Qed.
Theorem C10_gate_idem : forall d rows, gate d (gate d rows) = gate d rows.
Proof. exact gate_idem. Qed.
Theorem C10_missing_flag_ignores_incomplete : forall rows,
  miss_flag (delete_incomplete rows) = miss_flag rows /\ observed_indicator (delete_incomplete rows) = observed_indicator rows.
Proof. exact miss_flag_ignores_incomplete. Qed.
(* estimators documented to drop every incomplete row equal their complete-case analysis *)
Theorem C10_dropall_is_complete_case : forall rows,
  gate true rows = filter Gate.complete rows /\ gate true (gate false rows) = gate true rows /\
  Forall (fun r => Gate.complete r = true) (gate true rows).
Proof. exact dropall_is_complete_case. Qed.
Theorem C10_gates_agree_without_missing_outcome : forall rows, miss_flag rows = false -> gate true rows = gate false rows.
Proof. exact gates_agree_without_missing_outcome. Qed.
(* effect-measure classes ignore and count rows missing exposure or outcome *)
Theorem C10_measures_ignore_missing : forall rows ref l,
  measures_for (filter Frames.complete rows) ref l = measures_for rows ref l /\
  rates_for (filter Frames.complete rows) ref l = rates_for rows ref l.
Proof. exact frames_ignore_missing. Qed.
Theorem C10_measures_count_missing : forall rows,
  miss_e rows + miss_d rows + miss_ed rows + Qlen (filter Frames.complete rows) == Qlen rows.
Proof. exact missing_counts_partition. Qed.
(* estimators that keep rows with a missing outcome: with saturated treatment and missingness models IPTW standardises
   the OBSERVED-outcome stratum means over the strata of ALL retained rows (std uses ybar = observed-outcome cell mean
   and the stratum weights Nw of all rows) ... *)
Theorem C10_iptw_missing_std : forall (l : list row) (n c1 c0 : Q),
  0 < n -> n < 1 -> ~ c1 == 0 -> ~ c0 == 0 -> positivity l -> sat_g l -> sat_m l ->
  forall stab a, nonempty_target TAll l -> iptw_mu stab TAll n c1 c0 a l == std TAll a l.
Proof. exact (fun l n c1 c0 H0 H1 Hc1 Hc0 Hp Hg Hm stab a => iptw_is_std l n c1 c0 H0 H1 Hc1 Hc0 Hp Hg Hm stab TAll a). Qed.
(* ... and so does TMLE *)
Theorem C10_tmle_missing_std : forall l, unit_weights l -> positivity l ->
  forall a Qs, sat_g l -> sat_m l -> (forall r, In r l -> qa a r == Qs (st r)) ->
  tmle_score a l == 0 -> tmle_mean a l == std TAll a l.
Proof. exact tmle_gsat. Qed.
(* outcome models are fitted on observed outcomes only: a saturated outcome model returns the observed-outcome cell
   means and the g-formula standardises them over all retained rows *)
Theorem C10_gformula_missing_std : forall t a l, sat_q l -> gf_marginal t a l == std t a l.
Proof. exact gformula_is_std. Qed.

Definition ex10 : list raw :=
  [ {| rid := 0; rx := Some true; rc := [Some 1]; ry := Some 1 |}; {| rid := 1; rx := None; rc := [Some 1]; ry := Some 0 |};
    {| rid := 2; rx := Some false; rc := [None]; ry := Some 1 |}; {| rid := 3; rx := Some false; rc := [Some 0]; ry := None |} ].
Example C10_nonvacuous :
  kept_ids false ex10 = [0; 3]%nat /\ kept_ids true ex10 = [0%nat] /\ miss_flag ex10 = true /\
  observed_indicator ex10 = [true; false].
Proof. vm_compute. repeat split; reflexivity. Qed.

(* check_input_data of the CURRENT source (regenerated on every run: the dropna subsets that count and keep rows in the two
   branches, and the missing-outcome flag) is the gate of the model; with C10_gate_ignores_incomplete: rows missing the exposure
   or a covariate never reach an estimator, rows missing only the outcome are kept exactly by the keep-outcome estimators *)
Theorem C10_src_gate : forall rows,
  gate_drop_all_Q rows = gate true rows /\ gate_keep_Q rows = gate false rows /\ miss_flag_Q rows = miss_flag rows.
Proof. intros rows. split; [apply gen_gate_drop_all|split; [apply gen_gate_keep|apply gen_miss_flag]]. Qed.

Print Assumptions C10_gate_ignores_incomplete.
Print Assumptions C10_gate_idem.
Print Assumptions C10_missing_flag_ignores_incomplete.
Print Assumptions C10_dropall_is_complete_case.
Print Assumptions C10_gates_agree_without_missing_outcome.
Print Assumptions C10_measures_ignore_missing.
Print Assumptions C10_measures_count_missing.
Print Assumptions C10_iptw_missing_std.
Print Assumptions C10_tmle_missing_std.
Print Assumptions C10_gformula_missing_std.
Print Assumptions C10_src_gate.
