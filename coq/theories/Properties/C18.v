(* C18 -- Adjustment sets are exactly the back-door admissible sets.
   Only the property theorems (closed by `exact`), non-vacuity examples and Print Assumptions.
   Model: Model/Dag.v (graph = node list + arrow list in insertion order; programs of add_arrow / add_arrows /
   add_from_networkx; valid_alg = _check_valid_adjustment_set_ with the repaired, order-independent moralisation;
   valid_old = the loop as shipped).  valid_spec = no descendant of the exposure in Z and no active walk between
   exposure and outcome in the graph without the exposure's out-arrows. *)
From Coq Require Import List Arith Bool NArith Relations.
From Zepid Require Import Model.Dag Proofs.DagProofs Proofs.DagExhaustive Proofs.DagCorollaries.
Import ListNotations.

(* ---- unbounded: any number of nodes, any program, any candidate set *)
Theorem C18_adjustment_sets_exact : forall (x y : nat) (p : list op) (Z : list nat),
  let g := run_prog x y p in
  In Z (adjustment_sets g x y) <-> In Z (candidates g x y) /\ valid_spec g x y Z.
Proof. exact adjustment_sets_exact_prog. Qed.

Theorem C18_alg_sound : forall g x y Z, wf g -> In x (nodes g) -> In y (nodes g) -> ~ In y Z ->
  valid_alg g x y Z = true -> valid_spec g x y Z.
Proof. exact alg_sound. Qed.

Theorem C18_alg_complete : forall g x y Z, wf g -> In x (nodes g) -> In y (nodes g) -> ~ In y Z ->
  valid_spec g x y Z -> valid_alg g x y Z = true.
Proof. exact alg_complete. Qed.

(* the candidates are sub-lists of the nodes other than exposure and outcome, and every such sub-list is one *)
Theorem C18_candidates_sound : forall g x y Z, In Z (candidates g x y) -> incl Z (nodes g) /\ ~ In x Z /\ ~ In y Z.
Proof. exact candidates_ok. Qed.
Theorem C18_candidates_complete : forall g x y s,
  subseq s (filter (fun v => negb (v =? x) && negb (v =? y)) (nodes g)) -> In s (candidates g x y).
Proof. exact candidates_complete. Qed.

(* the specification evaluated by the check run (closure over walk states) is the Prop-level specification *)
Theorem C18_executable_spec_reflects : forall g x y Z, wf g -> (valid_specb g x y Z = true <-> valid_spec g x y Z).
Proof. exact specb_reflects_spec. Qed.

Theorem C18_minimal_are_smallest : forall g x y s,
  In s (minimal_adjustment_sets g x y) <->
  In s (adjustment_sets g x y) /\ forall t, In t (adjustment_sets g x y) -> length s <= length t.
Proof. exact minimal_sets_exact. Qed.

(* ---- arrows that would create a cycle are rejected and leave the graph unchanged *)
Theorem C18_add_arrow_cycle_unchanged : forall x y g o, apply_op x y g o = None -> step_op x y g o = g.
Proof. exact add_arrow_cycle_unchanged. Qed.

Theorem C18_add_arrow_rejects_iff_cycle : forall g u v, wf g -> acyclic g ->
  (add_arrow g u v = None <-> clos_refl_trans nat (Edge g) v u).
Proof. exact add_arrow_rejects_iff_cycle. Qed.

Theorem C18_add_arrow_keeps_dag : forall g u v g', wf g -> add_arrow g u v = Some g' ->
  wf g' /\ acyclic g' /\ (forall a b, In (a, b) (edges g') <-> In (a, b) (edges g) \/ (a, b) = (u, v)).
Proof. exact add_arrow_keeps_dag. Qed.

Theorem C18_add_arrows_keeps_dag : forall g ps g', wf g -> add_arrows g ps = Some g' ->
  wf g' /\ acyclic g' /\ (forall a b, In (a, b) (edges g') <-> In (a, b) (edges g) \/ In (a, b) ps).
Proof. exact add_arrows_keeps_dag. Qed.

Theorem C18_programs_keep_dag : forall x y p, x <> y ->
  wf (run_prog x y p) /\ acyclic (run_prog x y p) /\ In x (nodes (run_prog x y p)) /\ In y (nodes (run_prog x y p)).
Proof.
  exact (fun x y p H => conj (@run_prog_wf x y p) (conj (@run_prog_acyclic x y p H) (run_prog_nodes x y p))).
Qed.

(* ---- bounded, by computation: all 19683 orientation vectors (8816 DAGs) on 5 nodes x all candidate sets *)
Theorem C18_alg_eq_spec_upto5 : forall os, In os all_orient5 -> is_dag (graph5 os) = true ->
  forall Z, In Z (candidates (graph5 os) 0 1) ->
    valid_alg (graph5 os) 0 1 Z = valid_specb (graph5 os) 0 1 Z /\
    valid_pathb (graph5 os) 0 1 Z = valid_specb (graph5 os) 0 1 Z.
Proof. exact alg_eq_spec_upto5. Qed.

Theorem C18_orientations_complete : forall os, length os = 9 -> Forall (fun o => o < 3) os -> In os all_orient5.
Proof. exact (orient_vectors_complete 9). Qed.

(* the textbook path-by-path criterion agrees with the active-walk specification on that universe *)
Theorem C18_path_spec_upto5 : forall os Z, In os all_orient5 -> is_dag (graph5 os) = true ->
  In Z (candidates (graph5 os) 0 1) ->
  (valid_pathb (graph5 os) 0 1 Z = true <-> valid_spec (graph5 os) 0 1 Z).
Proof. exact path_spec_upto5. Qed.

(* ---- design defect D8: the moralisation loop as shipped loses admissible sets *)
Theorem C18_old_moralisation_refuted :
  exists (p : list op) (Z : list nat),
    let g := run_prog 0 1 p in
    acyclic g /\ In Z (candidates g 0 1) /\ valid_spec g 0 1 Z /\ valid_old g 0 1 Z = false.
Proof. exact old_moralisation_refuted_spec. Qed.

Theorem C18_old_moralisation_upto5 :
  (forallb (fun os => fst (old_stat os)) all_orient5,
   N.of_nat (length (filter (fun os => snd (old_stat os)) all_orient5))) = (true, 22%N).
Proof. exact old_moralisation_upto5. Qed.

(* ---- non-vacuity: M-bias with a direct effect  A -> X, A -> B <- C, C -> Y, X -> Y  built by a program that
   also contains a rejected (cycle-closing) arrow *)
Example C18_nonvacuous :
  let p := [AddArrows [(2, 0); (2, 3); (4, 3)]; AddArrow 1 2; AddArrow 4 1] in
  let g := run_prog 0 1 p in
  is_dag g = true /\ apply_op 0 1 (run_prog 0 1 [AddArrows [(2, 0); (2, 3); (4, 3)]]) (AddArrow 1 2) = None /\
  nodes g = [0; 1; 2; 3; 4] /\
  adjustment_sets g 0 1 = [[]; [2]; [4]; [2; 3]; [2; 4]; [3; 4]; [2; 3; 4]] /\
  spec_sets g 0 1 = adjustment_sets g 0 1 /\ ~ In [3] (adjustment_sets g 0 1) /\
  minimal_adjustment_sets g 0 1 = [[]] /\ length (candidates g 0 1) = 8.
Proof. vm_compute. repeat split; try reflexivity. intros H; repeat (destruct H as [H | H]; [discriminate|]); exact H. Qed.

Example C18_nonvacuous_spec :
  let g := run_prog 0 1 [AddArrows [(2, 0); (2, 3); (4, 3); (4, 1)]] in
  wf g /\ acyclic g /\ valid_spec g 0 1 [2] /\ ~ valid_spec g 0 1 [3].
Proof.
  cbv zeta. split; [apply run_prog_wf|]. split; [apply run_prog_acyclic; discriminate|]. split.
  - apply specb_reflects_spec; [apply run_prog_wf | vm_compute; reflexivity].
  - intros H. apply specb_reflects_spec in H; [|apply run_prog_wf]. vm_compute in H. discriminate.
Qed.

Print Assumptions C18_adjustment_sets_exact.
Print Assumptions C18_alg_sound.
Print Assumptions C18_alg_complete.
Print Assumptions C18_candidates_sound.
Print Assumptions C18_candidates_complete.
Print Assumptions C18_executable_spec_reflects.
Print Assumptions C18_minimal_are_smallest.
Print Assumptions C18_add_arrow_cycle_unchanged.
Print Assumptions C18_add_arrow_rejects_iff_cycle.
Print Assumptions C18_add_arrow_keeps_dag.
Print Assumptions C18_add_arrows_keeps_dag.
Print Assumptions C18_programs_keep_dag.
Print Assumptions C18_alg_eq_spec_upto5.
Print Assumptions C18_orientations_complete.
Print Assumptions C18_path_spec_upto5.
Print Assumptions C18_old_moralisation_refuted.
Print Assumptions C18_old_moralisation_upto5.
