(* C18 -- Adjustment sets are exactly the back-door admissible sets. *)
From Coq Require Import List Arith Bool NArith.
From Zepid Require Import Model.Dag Proofs.DagExhaustive Proofs.DagProofs.
Import ListNotations.

Theorem C18_alg_eq_spec_upto5 : forall os, In os all_orient5 -> is_dag (graph5 os) = true ->
  forall Z, In Z (candidates (graph5 os) 0 1) ->
    valid_alg (graph5 os) 0 1 Z = valid_specb (graph5 os) 0 1 Z /\
    valid_pathb (graph5 os) 0 1 Z = valid_specb (graph5 os) 0 1 Z.
Proof. exact alg_eq_spec_upto5. Qed.

Print Assumptions C18_alg_eq_spec_upto5.
