(* C17 -- Probability truncation clips exactly and is applied wherever requested. *)
From Coq Require Import QArith ZArith List.
From Zepid Require Import Base.QUtil Model.Bounds Proofs.BoundsProofs GenProofs.GenProofs_pbounds GenProofs.GenProofs_gener Model.Generalize.
From ZepidGen Require Import Gen_pbounds_Q Gen_gener_Q.
Import ListNotations.
Open Scope Q_scope.

(* a single float b (<= 1/2) bounds to the elementwise clip to [b, 1-b]; a pair to [lo, hi] *)
Theorem C17_symmetric_is_clip : forall b l, 0 <= b -> b <= 1 # 2 ->
  exists r, bounded (BFloat b) l = Some r /\ Forall2 Qeq r (clip b (1 - b) l).
Proof. exact symmetric_is_clip. Qed.
Theorem C17_pair_is_clip : forall lo hi l, 0 <= lo -> lo <= hi -> hi <= 1 ->
  exists r, bounded (BPair lo hi) l = Some r /\ Forall2 Qeq r (clip lo hi l).
Proof. exact pair_is_clip. Qed.
(* the in-order masked assignments of the code are the clip for every lo <= hi *)
Theorem C17_seq_clip_is_clip : forall lo hi l, lo <= hi -> Forall2 Qeq (seq_clip lo hi l) (clip lo hi l).
Proof. exact seq_clip_is_clip. Qed.
Theorem C17_clip_in_range : forall lo hi l, lo <= hi -> Forall (fun v => lo <= v /\ v <= hi) (clip lo hi l).
Proof. exact clip_in_range. Qed.
Theorem C17_clip_length : forall lo hi l, length (clip lo hi l) = length l /\ length (seq_clip lo hi l) = length l.
Proof. exact clip_length. Qed.
Theorem C17_clip_idem : forall lo hi l, lo <= hi -> Forall2 Qeq (clip lo hi (clip lo hi l)) (clip lo hi l).
Proof. exact clip_idem. Qed.
(* a bound that no probability reaches gives results identical to no bound *)
Theorem C17_clip_id_if_inside : forall lo hi l, Forall (fun v => lo <= v /\ v <= hi) l -> Forall2 Qeq (clip lo hi l) l.
Proof. exact clip_id_if_inside. Qed.
(* weights built from clipped probabilities never exceed 1/lo (and 1/(1-hi) for the complement) *)
Theorem C17_weights_bounded : forall lo hi d, 0 < lo -> lo <= hi -> hi < 1 ->
  inv_w lo hi d <= 1 / lo /\ inv_w0 lo hi d <= 1 / (1 - hi) /\ 0 < inv_w lo hi d /\ 0 < inv_w0 lo hi d.
Proof. exact weights_le_inv_lo. Qed.
(* values outside [0,1], descending pairs, strings and integers are rejected; nothing else is *)
Theorem C17_validate_rejects : forall s,
  validate s = None <->
  match s with
  | BFloat b => b < 0 \/ 1 < b
  | BStr | BInt _ | BPairStr => True
  | BPair lo hi => hi < lo \/ lo < 0 \/ 1 < hi
  end.
Proof. exact validate_rejects. Qed.
Theorem C17_validate_accepts : forall s lo hi, validate s = Some (lo, hi) ->
  match s with
  | BFloat b => 0 <= b /\ b <= 1 /\ lo = b /\ hi = 1 - b
  | BPair l h => l <= h /\ 0 <= l /\ h <= 1 /\ lo = l /\ hi = h
  | _ => False
  end.
Proof. exact validate_accepts. Qed.

Example C17_nonvacuous :
  bounded (BFloat (1#10)) [1#100; 1#2; 99#100] = Some [1#10; 1#2; 1 - (1#10)] /\
  bounded (BPair (1#5) (7#10)) [1#100; 1#2; 99#100] = Some [1#5; 1#2; 7#10] /\
  bounded (BPair (7#10) (1#5)) [1#2] = None /\ bounded (BInt 1) [1#2] = None /\ bounded BStr [1#2] = None.
Proof. vm_compute. repeat split; reflexivity. Qed.

(* probability_bounds of the CURRENT source (translated on every run: rejection tests and masked assignments of the float
   and of the pair branch, per element) is the model's validate + seq_clip1, and on accepted bounds the clip *)
Theorem C17_src_float_branch : forall b v, oeq (pb_float_Q b v) (model_elem (BFloat b) v).
Proof. exact gen_pb_float. Qed.
Theorem C17_src_pair_branch : forall lo hi v, oeq (pb_pair_Q lo hi v) (model_elem (BPair lo hi) v).
Proof. exact gen_pb_pair. Qed.
Theorem C17_src_float_is_clip : forall b v, 0 <= b -> b <= 1 - b ->
  exists x, pb_float_Q b v = Some x /\ x == clip1 b (1 - b) v.
Proof. exact gen_pb_float_is_clip. Qed.

(* IPSW.sampling_model(bound=...) in the CURRENT source: every fitted probability entering the weight has passed through
   probability_bounds (pb) first -- the denominator always, the numerator exactly when it is a fitted one (stabilized=True);
   the unstabilised weight does not depend on a numerator at all *)
Theorem C17_src_ipsw_sampling_bounds_applied : forall gn stab pb n d,
  src_ipsw_samp_b gn stab pb n d == samp_w gn stab (if stab then pb n else n) (pb d).
Proof. exact gen_ipsw_samp_bounded. Qed.
Theorem C17_src_ipsw_unstabilized_ignores_numerator : forall gn pb n n' d,
  src_ipsw_samp_b gn false pb n d == src_ipsw_samp_b gn false pb n' d.
Proof. exact gen_ipsw_samp_unstab_ignores_numerator. Qed.

Print Assumptions C17_symmetric_is_clip.
Print Assumptions C17_pair_is_clip.
Print Assumptions C17_seq_clip_is_clip.
Print Assumptions C17_clip_in_range.
Print Assumptions C17_clip_length.
Print Assumptions C17_clip_idem.
Print Assumptions C17_clip_id_if_inside.
Print Assumptions C17_weights_bounded.
Print Assumptions C17_validate_rejects.
Print Assumptions C17_validate_accepts.
Print Assumptions C17_src_float_branch.
Print Assumptions C17_src_pair_branch.
Print Assumptions C17_src_float_is_clip.
Print Assumptions C17_src_ipsw_sampling_bounds_applied.
Print Assumptions C17_src_ipsw_unstabilized_ignores_numerator.
