(* C03 -- TMLE targeting solves the efficient score equations and stays in range.
   The R-level theorems are about the lines of TMLE.fit translated from /repo on every run. *)
From Coq Require Import Reals List QArith.
From Zepid Require Import Base.Expit GenProofs.GenProofs_tmle Base.QSum Base.Rows Model.Estimators.
From ZepidGen Require Import Gen_tmle_R.
Import ListNotations.
Open Scope R_scope.

Theorem C03_clever_covariates : forall a g1 g0,
  tmle_H1W_R a g1 = indR a / g1 /\ tmle_H0W_R a g0 = - (1 - indR a) / g0.
Proof. exact clever_covariates. Qed.
(* the score equations the fluctuation GLM solves are the two efficient-score equations of the property *)
Theorem C03_scores_are_efficient_scores : forall rows,
  sumR (fun '(a, g1, g0, res) => tmle_H1W_R a g1 * res) rows = 0 ->
  sumR (fun '(a, g1, g0, res) => tmle_H0W_R a g0 * res) rows = 0 ->
  sumR (fun '(a, g1, g0, res) => indR a / g1 * res) rows = 0 /\
  sumR (fun '(a, g1, g0, res) => (1 - indR a) / g0 * res) rows = 0.
Proof. exact scores_are_efficient_scores. Qed.
(* Qstar (prediction of the fluctuation model) and the hand-computed Qstar1 / Qstar0 agree on their arms *)
Theorem C03_update_consistent_treated : forall q1 e0 e1 g1 g0,
  expit (logit q1 + (e0 * tmle_H1W_R true g1 + e1 * tmle_H0W_R true g0)) = tmle_Qstar1_R q1 e0 g1.
Proof. exact update_consistent_treated. Qed.
Theorem C03_update_consistent_untreated : forall q0 e0 e1 g1 g0,
  expit (logit q0 + (e0 * tmle_H1W_R false g1 + e1 * tmle_H0W_R false g0)) = tmle_Qstar0_R q0 e1 g0.
Proof. exact update_consistent_untreated. Qed.
Theorem C03_range_binary : forall q e g, 0 < tmle_Qstar1_R q e g < 1 /\ 0 < tmle_Qstar0_R q e g < 1.
Proof. exact qstar_range. Qed.
Theorem C03_range_continuous : forall q e g mini maxi, mini <= maxi ->
  mini <= tmle_unit_unbound_R (tmle_Qstar1_R q e g) mini maxi <= maxi.
Proof. exact unbound_range_strict. Qed.
Theorem C03_unbound_range : forall ystar mini maxi, 0 <= ystar -> ystar <= 1 -> mini <= maxi ->
  mini <= tmle_unit_unbound_R ystar mini maxi <= maxi.
Proof. exact unbound_range. Qed.
Theorem C03_epsilon_zero_is_identity : forall q g, 0 < q -> q < 1 -> tmle_Qstar1_R q 0 g = q /\ tmle_Qstar0_R q 0 g = q.
Proof. exact qstar_eps0. Qed.
(* the score of an arm is strictly decreasing in epsilon, so its root is unique *)
Theorem C03_score_root_unique : forall e1 e2 rows, (exists r, In r rows /\ fst (fst r) <> 0) ->
  score e1 rows = 0 -> score e2 rows = 0 -> e1 = e2.
Proof. exact score_root_unique. Qed.
(* the unit-interval map of a continuous outcome (translated tmle_unit_bounds): range, identity inside the band,
   exact round trip with the back-transformation *)
Theorem C03_unit_bounds_range : forall y mini maxi b, b <= 1 / 2 -> b <= tmle_unit_bounds_R y mini maxi b <= 1 - b.
Proof. exact unit_bounds_range. Qed.
Theorem C03_unit_bounds_roundtrip : forall y mini maxi b, mini < maxi ->
  b <= (y - mini) / (maxi - mini) -> (y - mini) / (maxi - mini) <= 1 - b ->
  tmle_unit_unbound_R (tmle_unit_bounds_R y mini maxi b) mini maxi = y.
Proof. exact bounds_unbound_roundtrip. Qed.
Theorem C03_bounded_outcome_back_in_range : forall y mini maxi b, mini <= maxi -> 0 <= b -> b <= 1 / 2 ->
  mini <= tmle_unit_unbound_R (tmle_unit_bounds_R y mini maxi b) mini maxi <= maxi.
Proof. exact bounds_unbound_range. Qed.
(* the reported measures are literally the plug-in functions of the means of the targeted predictions *)
Theorem C03_plugin_exact : forall l : list row,
  (tmle_rd l == tmle_mean true l - tmle_mean false l)%Q /\
  (tmle_rr l == tmle_mean true l / tmle_mean false l)%Q /\
  (tmle_or l == odds (tmle_mean true l) / odds (tmle_mean false l))%Q.
Proof. exact (fun l => conj (Qeq_refl _) (conj (Qeq_refl _) (Qeq_refl _))). Qed.

Example C03_nonvacuous :
  score 0 [(2, 0, 1); (2, 0, 0)] = 0 /\ (exists r, In r [(2, 0, 1); (2, 0, 0)] /\ fst (fst r) <> 0).
Proof.
  split.
  - simpl. replace (0 + 0 * 2) with 0 by ring. unfold expit. rewrite Ropp_0, exp_0. field.
  - exists (2, 0, 1). split; [left; reflexivity|simpl; Lra.lra].
Qed.

Print Assumptions C03_clever_covariates.
Print Assumptions C03_scores_are_efficient_scores.
Print Assumptions C03_update_consistent_treated.
Print Assumptions C03_update_consistent_untreated.
Print Assumptions C03_range_binary.
Print Assumptions C03_range_continuous.
Print Assumptions C03_unbound_range.
Print Assumptions C03_epsilon_zero_is_identity.
Print Assumptions C03_score_root_unique.
Print Assumptions C03_plugin_exact.
Print Assumptions C03_unit_bounds_range.
Print Assumptions C03_unit_bounds_roundtrip.
Print Assumptions C03_bounded_outcome_back_in_range.
