(* C11 -- Calls never modify the caller's data, and refitting is history-independent.   *(partial)*
   The theorems settle the INTENDED semantics of an estimator object (Model/History.v): for every estimator family
   (any number of specification slots, any set of slots required by fit, any pure result function `compute`) and every
   call list.  What they cannot exhibit -- aliasing of the caller's DataFrame/arrays, in-place writes, stale caches in
   the Python objects -- is decided by the correspondence run of harness/props/c11.py over call histories on the real
   classes.  Only property theorems (closed by `exact`), non-vacuity examples, Print Assumptions. *)
From Coq Require Import List Bool Arith ZArith.
From Zepid Require Import Model.History Proofs.HistoryProofs.
Import ListNotations.

Section C11.
Variables frame spec args out dout : Type.
Variable nslots : nat.
Variable required : list nat.
Variable diag_required : nat -> list nat.
Variable diag_needs_results : nat -> bool.
Variable compute : frame -> list (option spec) -> args -> out.      (* the estimator's pure result function *)
Variable diagf : nat -> frame -> list (option spec) -> option out -> dout.

Notation step := (step frame spec args out dout nslots required diag_required diag_needs_results compute diagf).
Notation run := (run frame spec args out dout nslots required diag_required diag_needs_results compute diagf).
Notation trace := (trace frame spec args out dout nslots required diag_required diag_needs_results compute diagf).
Notation wrun := (wrun frame spec args out dout nslots required diag_required diag_needs_results compute diagf).
Notation init := (init frame spec out nslots).
Notation construct := (construct frame spec out nslots).

(* after ANY list of calls the whole object (stored data, every specification component, results) equals a freshly
   constructed object given, per slot, only the specification in force at the last fit, that fit's arguments, and then
   the specifications in force at the end *)
Theorem C11_refit_history_independent : forall (fr : frame) (ops : list (@op spec args)),
  run (init fr) ops = run (init fr) (normal_form spec args nslots ops).
Proof. exact (refit_history_independent frame spec args out dout nslots required diag_required diag_needs_results compute diagf). Qed.

(* the form quoted in the property: fit after any history = fit of a fresh object that received only the LAST
   specification of each slot *)
Theorem C11_refit_result_fresh : forall (fr : frame) (ops : list (@op spec args)) (a : args),
  results _ _ _ (run (init fr) (ops ++ [Fit a])) =
  results _ _ _ (run (init fr) (canon spec args nslots (spec_table spec args nslots ops) ++ [Fit a])).
Proof. exact (refit_result_fresh frame spec args out dout nslots required diag_required diag_needs_results compute diagf). Qed.
Theorem C11_fit_output_fresh : forall (fr : frame) (ops : list (@op spec args)) (a : args),
  snd (step (run (init fr) ops) (Fit a)) =
  snd (step (run (init fr) (canon spec args nslots (spec_table spec args nslots ops))) (Fit a)).
Proof. exact (fit_output_fresh frame spec args out dout nslots required diag_required diag_needs_results compute diagf). Qed.

(* each call overwrites exactly the component it owns: the specification components are the last specification per slot,
   the result component is compute(stored data, specifications at the last fit, its arguments) *)
Theorem C11_specs_are_last_specifications : forall (fr : frame) (ops : list (@op spec args)),
  specs _ _ _ (run (init fr) ops) = spec_table spec args nslots ops.
Proof. exact (specs_run frame spec args out dout nslots required diag_required diag_needs_results compute diagf). Qed.
Theorem C11_results_are_last_fit : forall (fr : frame) (ops : list (@op spec args)),
  results _ _ _ (run (init fr) ops) = results_spec frame spec args out nslots required compute fr ops.
Proof. exact (results_run frame spec args out dout nslots required diag_required diag_needs_results compute diagf). Qed.

(* asking for results while a required slot was never specified raises (fit and summary), and leaves the object alone *)
Theorem C11_unspecified_raises : forall (fr : frame) (ops : list (@op spec args)) (s : nat) (a : args),
  In s required -> last_specified spec args s ops = None ->
  snd (step (run (init fr) ops) (Fit a)) = OErr /\ snd (step (run (init fr) ops) Summary) = OErr /\
  fst (step (run (init fr) ops) (Fit a)) = run (init fr) ops.
Proof. exact (unspecified_raises frame spec args out dout nslots required diag_required diag_needs_results compute diagf). Qed.

(* no call ever writes the caller's frame, and the object's stored copy stays the constructed one *)
Theorem C11_user_frame_const : forall (w : world frame spec out) (ops : list (@op spec args)), fst (wrun w ops) = fst w.
Proof. exact (user_frame_const frame spec args out dout nslots required diag_required diag_needs_results compute diagf). Qed.
Theorem C11_construct_then_calls : forall (user : frame) (ops : list (@op spec args)),
  fst (wrun (construct user) ops) = user /\ stored _ _ _ (snd (wrun (construct user) ops)) = user.
Proof. exact (construct_then_calls_leave_user_frame frame spec args out dout nslots required diag_required diag_needs_results compute diagf). Qed.

(* summary() / diagnostics interleaved anywhere change neither the state nor the output of any later call *)
Theorem C11_summary_diagnostics_pure : forall (st : state frame spec out) (pre obs post : list (@op spec args)),
  Forall (pure_op spec args) obs ->
  run st (pre ++ obs ++ post) = run st (pre ++ post) /\ trace (run st (pre ++ obs)) post = trace (run st pre) post.
Proof. exact (summary_diagnostics_pure frame spec args out dout nslots required diag_required diag_needs_results compute diagf). Qed.
Theorem C11_only_mutating_calls_matter : forall (st : state frame spec out) (ops : list (@op spec args)),
  run st ops = run st (filter (mutating spec args) ops).
Proof. exact (run_filter_mutating frame spec args out dout nslots required diag_required diag_needs_results compute diagf). Qed.
End C11.

(* non-vacuity: a 3-slot class (slots 0 and 2 required, e.g. IPTW: treatment model, missing model, MSM) driven through
   fit-before-specify, respecification, refit, interleaved summary/diagnostics.  The free result function shows which
   specification is in force: the result is (frame 7, [spec 9; none; spec 6], fit arguments 3), the early calls raise
   (code 1), and the fresh object of the normal form reaches the same result. *)
Example C11_nonvacuous_history :
  eval_history 3 [0; 2] [([0], false); ([0; 2], true)] 7%Z
    [Fit 1%Z; Specify 0 5%Z; Summary; Diagnostics 1; Specify 2 6%Z; Fit 2%Z; Specify 0 9%Z; Diagnostics 1; Fit 3%Z; Specify 1 4%Z; Summary]
  = (7%Z, [1; 0; 1; 1; 0; 0; 0; 0; 0; 0; 0]%Z, [Some 9%Z; Some 4%Z; Some 6%Z],
     Some (7%Z, [Some 9%Z; None; Some 6%Z], 3%Z),
     [(0, 0, 9); (0, 2, 6); (1, 3, 0); (0, 0, 9); (0, 1, 4); (0, 2, 6)]%Z,
     Some (7%Z, [Some 9%Z; None; Some 6%Z], 3%Z)).
Proof. vm_compute. reflexivity. Qed.
(* the hypotheses of C11_unspecified_raises are satisfiable and its conclusion is not trivially true of every state *)
Example C11_nonvacuous_guard :
  In 2 [0; 2] /\ @last_specified Z Z 2 [Specify 0 5%Z; Fit 1%Z; Specify 1 8%Z] = None /\
  eval_history 3 [0; 2] [] 1%Z [Specify 0 5%Z; Fit 1%Z; Specify 2 6%Z; Fit 2%Z; Summary]
  = (1%Z, [0; 1; 0; 0; 0]%Z, [Some 5%Z; None; Some 6%Z], Some (1%Z, [Some 5%Z; None; Some 6%Z], 2%Z),
     [(0, 0, 5); (0, 2, 6); (1, 2, 0); (0, 0, 5); (0, 2, 6)]%Z, Some (1%Z, [Some 5%Z; None; Some 6%Z], 2%Z)).
Proof. vm_compute. repeat split; auto. Qed.

Print Assumptions C11_refit_history_independent.
Print Assumptions C11_refit_result_fresh.
Print Assumptions C11_fit_output_fresh.
Print Assumptions C11_specs_are_last_specifications.
Print Assumptions C11_results_are_last_fit.
Print Assumptions C11_unspecified_raises.
Print Assumptions C11_user_frame_const.
Print Assumptions C11_construct_then_calls.
Print Assumptions C11_summary_diagnostics_pure.
Print Assumptions C11_only_mutating_calls_matter.
