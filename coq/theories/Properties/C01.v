(* C01 -- Saturated nuisance models reproduce nonparametric standardisation.
   Rows carry a stratum code (any number / arity of categorical covariates collapses to one code), so the
   theorems hold for every data set size, every number of strata, every outcome type (only the cell score
   equation "fitted value = observed-outcome cell mean" of a saturated GLM is used), (frequency-)weighted or not. *)
From Coq Require Import QArith List.
From Zepid Require Import Base.QSum Base.QUtil Base.Rows Proofs.RowsProofs Model.Estimators Proofs.EstimatorsProofs
     GenProofs.GenProofs_gfmarg GenProofs.GenProofs_drest.
From ZepidGen Require Import Gen_gfmarg_Q Gen_drest_Q.
Import ListNotations.
Open Scope Q_scope.

(* IPTW: all 6 weight schemes (stabilised or not x population / exposed / unexposed), optional saturated
   missingness weights (c1, c0 = stabilising constants of the two arms), arm means of the saturated MSM *)
Theorem C01_iptw_arm_mean_is_std : forall (l : list row) (n c1 c0 : Q),
  0 < n -> n < 1 -> ~ c1 == 0 -> ~ c0 == 0 -> positivity l -> sat_g l -> sat_m l ->
  forall stab t a, nonempty_target t l -> iptw_mu stab t n c1 c0 a l == std t a l.
Proof. exact iptw_is_std. Qed.
Theorem C01_iptw_measures : forall (l : list row) (n c1 c0 : Q),
  0 < n -> n < 1 -> ~ c1 == 0 -> ~ c0 == 0 -> positivity l -> sat_g l -> sat_m l ->
  forall stab t, nonempty_target t l ->
  iptw_rd stab t n c1 c0 l == std t true l - std t false l /\
  iptw_rr stab t n c1 c0 l == std t true l / std t false l /\
  iptw_or stab t n c1 c0 l == odds (std t true l) / odds (std t false l).
Proof. exact iptw_measures_are_std. Qed.
(* TimeFixedGFormula under treat-all / treat-none, every standardisation target *)
Theorem C01_gformula_is_std : forall t a l, sat_q l -> gf_marginal t a l == std t a l.
Proof. exact gformula_is_std. Qed.
(* AIPTW and TMLE with both sides saturated: instances of the double-robustness theorems of C02 *)
Theorem C01_aipw_is_std : forall l, complete l -> no_miss_model l -> positivity l ->
  forall th a, sat_g l -> (forall r, In r l -> q1 r == th (st r) true /\ q0 r == th (st r) false) ->
  aipw_mean (aipw_ya a) l == std TAll a l.
Proof. exact aipw_gsat. Qed.
Theorem C01_tmle_is_std : forall l, unit_weights l -> positivity l ->
  forall a Qs, sat_g l -> sat_m l -> (forall r, In r l -> qa a r == Qs (st r)) ->
  tmle_score a l == 0 -> tmle_mean a l == std TAll a l.
Proof. exact tmle_gsat. Qed.

(* non-vacuity: an 8-row data set with two strata meets positivity and the saturation hypotheses *)
Definition ex_rows : list row :=
  let mk s a y g qq1 qq0 := {| st := s; trt := a; yv := Some y; wt := 1; g1 := g; q1 := qq1; q0 := qq0; m1 := 1; m0 := 1 |} in
  [ mk 0%nat true 1 (3#4) (2#3) 0; mk 0%nat true 0 (3#4) (2#3) 0; mk 0%nat true 1 (3#4) (2#3) 0; mk 0%nat false 0 (3#4) (2#3) 0;
    mk 1%nat true 1 (1#4) 1 (1#3); mk 1%nat false 0 (1#4) 1 (1#3); mk 1%nat false 1 (1#4) 1 (1#3); mk 1%nat false 0 (1#4) 1 (1#3) ].
Example C01_nonvacuous :
  std TAll true ex_rows == 5 # 6 /\ std TAll false ex_rows == 1 # 6 /\
  iptw_mu false TAll (1#2) 1 1 true ex_rows == 5 # 6 /\ gf_marginal TAll true ex_rows == 5 # 6 /\
  aipw_mean aipw_y1 ex_rows == 5 # 6 /\ std TExposed true ex_rows == 3 # 4 /\
  iptw_mu true TExposed (1#2) 1 1 false ex_rows == std TExposed false ex_rows.
Proof. vm_compute. repeat split; reflexivity. Qed.

(* the marginalisation of TimeFixedGFormula.fit in the CURRENT source (six branches: weights or not x standardize target,
   regenerated on every run) is gf_marginal of the model; with C01_gformula_is_std: it is the standardised mean *)
Theorem C01_src_gformula_weighted : forall a l,
  gf_fit_population_w_Q (view a l) == gf_marginal TAll a l /\ gf_fit_exposed_w_Q (view a l) == gf_marginal TExposed a l /\
  gf_fit_unexposed_w_Q (view a l) == gf_marginal TUnexposed a l.
Proof. intros a l. split; [apply gen_gf_population_w|split; [apply gen_gf_exposed_w|apply gen_gf_unexposed_w]]. Qed.
Theorem C01_src_gformula_unweighted : forall t a l, (forall r, In r l -> wt r == 1) ->
  (match t with TAll => gf_fit_population_now_Q | TExposed => gf_fit_exposed_now_Q | TUnexposed => gf_fit_unexposed_now_Q end) (view a l)
  == gf_marginal t a l.
Proof. exact gen_gf_now. Qed.

(* ---- the point-estimate lines of aipw_calculator and TMLE.fit in the CURRENT source (translated on every run) are the
   estimators of the theorems above.  AIPTW's difference is taken over the rows with an observed outcome (y1 - y0 is NaN as soon
   as one pseudo-outcome is); its ratio is the ratio of the same two means when no outcome is missing -- with a missing outcome
   np.nanmean(y1) and np.nanmean(y0) run over different rows (last theorem; outside the properties, which compare AIPTW with
   the standardised estimate on complete outcomes only). *)
Theorem C01_src_aiptw_difference : forall l, aipw_est_diff_w_Q (pview l) == aipw_rd l.
Proof. exact gen_aipw_diff_w. Qed.
Theorem C01_src_aiptw_difference_unweighted : forall l, (forall r, In r l -> wt r == 1) -> ~ Qlen (obs_rows l) == 0 ->
  aipw_est_diff_now_Q (pview l) == aipw_rd l.
Proof. exact gen_aipw_diff_now. Qed.
Theorem C01_src_aiptw_ratio : forall l, (forall r, In r l -> obs r = true) ->
  aipw_est_ratio_w_Q (pview l) == aipw_rr l /\ ((forall r, In r l -> wt r == 1) -> aipw_est_ratio_now_Q (pview l) == aipw_rr l).
Proof. exact (fun l H => conj (gen_aipw_ratio_w l H) (gen_aipw_ratio_now l H)). Qed.
Theorem C01_src_tmle_plugins : forall l, ~ Qlen l == 0 ->
  tmle_est_rd_Q (tview l) == tmle_rd l /\ tmle_est_ate_Q (tview l) == tmle_rd l /\
  tmle_est_rr_Q (tview l) == tmle_rr l /\ tmle_est_or_Q (tview l) == tmle_or l.
Proof. exact gen_tmle_est. Qed.
Theorem C01_aiptw_ratio_with_missing_outcome_uses_other_rows :
  ~ aipw_est_ratio_now_Q (pview ratio_example) == aipw_rr ratio_example.
Proof. exact aipw_ratio_missing_differs. Qed.

Print Assumptions C01_iptw_arm_mean_is_std.
Print Assumptions C01_iptw_measures.
Print Assumptions C01_gformula_is_std.
Print Assumptions C01_aipw_is_std.
Print Assumptions C01_tmle_is_std.
Print Assumptions C01_src_gformula_weighted.
Print Assumptions C01_src_gformula_unweighted.
Print Assumptions C01_src_aiptw_difference.
Print Assumptions C01_src_aiptw_difference_unweighted.
Print Assumptions C01_src_aiptw_ratio.
Print Assumptions C01_src_tmle_plugins.
Print Assumptions C01_aiptw_ratio_with_missing_outcome_uses_other_rows.
