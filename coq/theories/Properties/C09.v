(* C09 -- An integer weights column is equivalent to replicating rows. *)
From Coq Require Import QArith List.
From Zepid Require Import Base.QSum Base.QUtil Base.Rows Proofs.RowsProofs Model.Estimators Proofs.EstimatorsProofs
     Proofs.ReplicateProofs.
Import ListNotations.
Open Scope Q_scope.

(* the arithmetic core, for ANY summand: a sum over physically replicated rows is the multiplicity-weighted sum *)
Theorem C09_sum_replicate : forall (A : Type) (m : A -> nat) (f : A -> Q) (l : list A),
  Qsum f (replicate_rows m l) == Qsum (fun x => inject_Z (Z.of_nat (m x)) * f x) l.
Proof. exact (fun A => @Qsum_replicate A). Qed.
(* hence every weight-linear sum over the weighted rows equals the sum over the replicated rows *)
Theorem C09_weighted_sum_eq_replicated : forall F m l, wlinear F l ->
  Qsum F (with_w m l) == Qsum F (replicate_rows m l).
Proof. exact sum_weighted_eq_replicated. Qed.
(* a frequency-weighted fit solves the score equations of the replicated data: the same nuisance values serve both *)
Theorem C09_score_eq_replicate : forall (x res : row -> Q) (m : row -> nat) (l : list row),
  (forall r w, x (set_wt r w) = x r) -> (forall r w, res (set_wt r w) = res r) -> unit_weights l ->
  Qsum (fun r => wt r * (x r * res r)) (with_w m l) == Qsum (fun r => wt r * (x r * res r)) (replicate_rows m l).
Proof. exact score_eq_replicate. Qed.
Theorem C09_iptw : forall l m, unit_weights l -> forall stab t n c1 c0 a,
  iptw_mu stab t n c1 c0 a (with_w m l) == iptw_mu stab t n c1 c0 a (replicate_rows m l).
Proof. exact iptw_weighted_eq_rep. Qed.
Theorem C09_gformula : forall l m, unit_weights l -> forall t a,
  gf_marginal t a (with_w m l) == gf_marginal t a (replicate_rows m l).
Proof. exact gformula_weighted_eq_rep. Qed.
Theorem C09_aipw : forall l m, unit_weights l -> aipw_rd (with_w m l) == aipw_rd (replicate_rows m l).
Proof. exact aipw_rd_weighted_eq_rep. Qed.
Theorem C09_aggregates : forall l m, unit_weights l -> forall s a,
  Nw s (with_w m l) == Nw s (replicate_rows m l) /\ Naw s a (with_w m l) == Naw s a (replicate_rows m l) /\
  Nobs s a (with_w m l) == Nobs s a (replicate_rows m l) /\ Ysum s a (with_w m l) == Ysum s a (replicate_rows m l).
Proof. exact aggregates_weighted_eq_rep. Qed.

Definition ex9 : list row :=
  let mk s a y g := {| st := s; trt := a; yv := Some y; wt := 1; g1 := g; q1 := 1#2; q0 := 1#4; m1 := 1; m0 := 1 |} in
  [ mk 0%nat true 1 (2#3); mk 0%nat false 0 (2#3); mk 1%nat true 0 (1#3); mk 1%nat false 1 (1#3) ].
Example C09_nonvacuous :
  let m := fun r : row => if trt r then 3%nat else 2%nat in
  length (replicate_rows m ex9) = 10%nat /\
  iptw_mu false TAll (1#2) 1 1 true (with_w m ex9) == iptw_mu false TAll (1#2) 1 1 true (replicate_rows m ex9) /\
  gf_marginal TExposed true (with_w m ex9) == 1 # 2.
Proof. vm_compute. repeat split; reflexivity. Qed.

Print Assumptions C09_sum_replicate.
Print Assumptions C09_weighted_sum_eq_replicated.
Print Assumptions C09_score_eq_replicate.
Print Assumptions C09_iptw.
Print Assumptions C09_gformula.
Print Assumptions C09_aipw.
Print Assumptions C09_aggregates.
