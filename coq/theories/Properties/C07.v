(* C07 -- Effect measures from counts and from data frames match their definitions.
   Only property theorems (closed by `exact`), non-vacuity examples, Print Assumptions. *)
From Coq Require Import Reals QArith Qreals List ZArith.
From Zepid Require Import Base.QSum Base.QUtil Spec.Measures Model.Frames Proofs.FramesProofs
     GenProofs.GenProofs_calc Proofs.MeasuresBridge GenProofs.GenProofs_basefit.
From ZepidGen Require Import Gen_basefit_Q Gen_calc_R.
Import ListNotations.

Section C07.
Variable zq : R -> R.   (* the normal quantile; irrelevant to every statement of this file *)
Open Scope R_scope.

(* --- the translated count functions return the textbook measures, for all positive real cells *)
Theorem C07_risk_ratio : forall a b c d al, pos4 a b c d -> p4_1 (risk_ratio_R zq a b c d al) = RR a b c d.
Proof. exact (rr_point zq). Qed.
Theorem C07_risk_difference : forall a b c d al, pos4 a b c d -> p4_1 (risk_difference_R zq a b c d al) = RD a b c d.
Proof. exact (rd_point zq). Qed.
Theorem C07_odds_ratio : forall a b c d al, pos4 a b c d -> p4_1 (odds_ratio_R zq a b c d al) = OR a b c d.
Proof. exact (or_point zq). Qed.
Theorem C07_nnt : forall a b c d al, pos4 a b c d -> RD a b c d <> 0 ->
  p4_1 (number_needed_to_treat_R zq a b c d al) = Some (1 / RD a b c d).
Proof. exact (nnt_point zq). Qed.
Theorem C07_nnt_infinite : forall a b c d al, pos4 a b c d -> RD a b c d = 0 ->
  p4_1 (number_needed_to_treat_R zq a b c d al) = None.
Proof. exact (nnt_point_inf zq). Qed.
Theorem C07_incidence_rate_ratio : forall a c t1 t2 al, 0 < a -> 0 < c -> 0 < t1 -> 0 < t2 ->
  p4_1 (incidence_rate_ratio_R zq a c t1 t2 al) = IRR a c t1 t2.
Proof. exact (irr_point zq). Qed.
Theorem C07_incidence_rate_difference : forall a c t1 t2 al, 0 < t1 -> 0 < t2 ->
  p4_1 (incidence_rate_difference_R zq a c t1 t2 al) = IRD a c t1 t2.
Proof. exact (ird_point zq). Qed.
Theorem C07_acr : forall a b c d, pos4 a b c d -> attributable_community_risk_R a b c d = ACR a b c d.
Proof. exact acr_point. Qed.
Theorem C07_paf : forall a b c d, pos4 a b c d -> population_attributable_fraction_R a b c d = PAF a b c d.
Proof. exact paf_point. Qed.

(* --- zero or negative cells are rejected, and nothing else is: the guards are exactly cell positivity *)
Theorem C07_guards : forall a b c d al,
  (risk_ratio_guard_R a b c d al <-> pos4 a b c d) /\ (risk_difference_guard_R a b c d al <-> pos4 a b c d) /\
  (odds_ratio_guard_R a b c d al <-> pos4 a b c d) /\ (number_needed_to_treat_guard_R a b c d al <-> pos4 a b c d) /\
  (attributable_community_risk_guard_R a b c d <-> pos4 a b c d) /\
  (population_attributable_fraction_guard_R a b c d <-> pos4 a b c d).
Proof.
  exact (fun a b c d al => conj (rr_guard zq a b c d al) (conj (rd_guard zq a b c d al) (conj (or_guard zq a b c d al)
          (conj (nnt_guard zq a b c d al) (conj (acr_guard zq a b c d) (paf_guard zq a b c d)))))).
Qed.
Theorem C07_rate_guards : forall a c t1 t2 al,
  (incidence_rate_ratio_guard_R a c t1 t2 al <-> (0 < a /\ 0 < c /\ 0 <= t2 /\ 0 <= t1)) /\
  (incidence_rate_difference_guard_R a c t1 t2 al <-> (0 < a /\ 0 < c /\ 0 <= t2 /\ 0 <= t1)).
Proof. exact (fun a c t1 t2 al => conj (irr_guard zq a c t1 t2 al) (ird_guard zq a c t1 t2 al)). Qed.

(* --- swapping the exposure groups negates differences / inverts ratios, standard error unchanged *)
Theorem C07_swap_rd : forall a b c d al, pos4 a b c d ->
  p4_1 (risk_difference_R zq c d a b al) = - p4_1 (risk_difference_R zq a b c d al) /\
  p4_4 (risk_difference_R zq c d a b al) = p4_4 (risk_difference_R zq a b c d al).
Proof. exact (rd_swap_groups zq). Qed.
Theorem C07_swap_rr : forall a b c d al, pos4 a b c d ->
  p4_1 (risk_ratio_R zq c d a b al) = / p4_1 (risk_ratio_R zq a b c d al) /\
  p4_4 (risk_ratio_R zq c d a b al) = p4_4 (risk_ratio_R zq a b c d al).
Proof. exact (rr_swap_groups zq). Qed.
Theorem C07_swap_or : forall a b c d al, pos4 a b c d ->
  p4_1 (odds_ratio_R zq c d a b al) = / p4_1 (odds_ratio_R zq a b c d al) /\
  p4_4 (odds_ratio_R zq c d a b al) = p4_4 (odds_ratio_R zq a b c d al).
Proof. exact (or_swap_groups zq). Qed.
Theorem C07_swap_irr : forall a c t1 t2 al, 0 < a -> 0 < c -> 0 < t1 -> 0 < t2 ->
  p4_1 (incidence_rate_ratio_R zq c a t2 t1 al) = / p4_1 (incidence_rate_ratio_R zq a c t1 t2 al) /\
  p4_4 (incidence_rate_ratio_R zq c a t2 t1 al) = p4_4 (incidence_rate_ratio_R zq a c t1 t2 al).
Proof. exact (irr_swap_groups zq). Qed.
Theorem C07_swap_ird : forall a c t1 t2 al, 0 < t1 -> 0 < t2 ->
  p4_1 (incidence_rate_difference_R zq c a t2 t1 al) = - p4_1 (incidence_rate_difference_R zq a c t1 t2 al) /\
  p4_4 (incidence_rate_difference_R zq c a t2 t1 al) = p4_4 (incidence_rate_difference_R zq a c t1 t2 al).
Proof. exact (ird_swap_groups zq). Qed.
(* --- transposing the table leaves the odds ratio and its standard error unchanged *)
Theorem C07_transpose_or : forall a b c d al, pos4 a b c d ->
  p4_1 (odds_ratio_R zq a c b d al) = p4_1 (odds_ratio_R zq a b c d al) /\
  p4_4 (odds_ratio_R zq a c b d al) = p4_4 (odds_ratio_R zq a b c d al).
Proof. exact (or_transpose zq). Qed.
End C07.

(* --- the executable Q specification the implementation is compared with IS the textbook definition *)
Theorem C07_spec_bridge : forall a b c d : Q, (0 < a)%Q -> (0 < b)%Q -> (0 < c)%Q -> (0 < d)%Q ->
  Q2R (rr a b c d) = RR (Q2R a) (Q2R b) (Q2R c) (Q2R d) /\
  Q2R (rd a b c d) = RD (Q2R a) (Q2R b) (Q2R c) (Q2R d) /\
  Q2R (oddsr a b c d) = OR (Q2R a) (Q2R b) (Q2R c) (Q2R d) /\
  Q2R (acr a b c d) = ACR (Q2R a) (Q2R b) (Q2R c) (Q2R d) /\
  Q2R (paf a b c d) = PAF (Q2R a) (Q2R b) (Q2R c) (Q2R d).
Proof. exact bridge_all. Qed.

(* --- data-frame classes: rows missing exposure or outcome never influence a measure, and are counted *)
Theorem C07_frames_ignore_missing : forall rows ref l,
  measures_for (filter complete rows) ref l = measures_for rows ref l /\
  rates_for (filter complete rows) ref l = rates_for rows ref l.
Proof. exact frames_ignore_missing. Qed.
Theorem C07_missing_counts : forall rows,
  (miss_e rows + miss_d rows + miss_ed rows + Qlen (filter complete rows) == Qlen rows)%Q.
Proof. exact missing_counts_partition. Qed.

(* --- the cross-tabulation lines of the six classes in the CURRENT source of zepid/base.py (translated on every run): which
   row mask is counted (or which person-time summed) for which parameter of the calculator, and the missing-data counts *)
Theorem C07_src_base_tables : forall rows rf l,
  base_rr_call_Q rows rf l = table4 rows rf l /\ base_rd_call_Q rows rf l = table4 rows rf l /\
  base_nnt_call_Q rows rf l = table4 rows rf l /\ base_or_call_Q rows rf l = table4 rows rf l.
Proof. exact gen_base_tables. Qed.
Theorem C07_src_base_rate_tables : forall rows rf l,
  base_irr_call_Q rows rf l = (ncell rows l true, ptime rows l, ncell rows rf true, ptime rows rf) /\
  base_ird_call_Q rows rf l = (ncell rows l true, ptime rows l, ncell rows rf true, ptime rows rf).
Proof. exact gen_base_rate_tables. Qed.
Theorem C07_src_base_missing_counts : forall rows,
  Forall2 Qeq (base_rr_missing_Q rows) (missing_counts rows) /\
  base_rd_missing_Q rows = base_rr_missing_Q rows /\ base_nnt_missing_Q rows = base_rr_missing_Q rows /\
  base_or_missing_Q rows = base_rr_missing_Q rows /\ base_irr_missing_Q rows = base_rr_missing_Q rows /\
  base_ird_missing_Q rows = base_rr_missing_Q rows.
Proof. exact (fun rows => conj (gen_base_missing_rr rows) (gen_base_missing rows)). Qed.

(* non-vacuity *)
Example C07_nonvacuous : pos4 45 55 21 79 /\ RD 45 55 21 79 <> 0.
Proof. unfold pos4, RD. repeat split; try Lra.lra. Qed.
Example C07_frames_nonvacuous :
  let rows := [ {| fe := Some 1%Z; fy := Some true; ft := Some (3#2) |}; {| fe := Some 1%Z; fy := None; ft := Some 5%Q |};
                {| fe := Some 0%Z; fy := Some false; ft := None |}; {| fe := None; fy := Some true; ft := Some 1%Q |} ] in
  (ncell rows 1 true == 1 /\ ptime rows 1 == 3#2 /\ miss_e rows == 1 /\ miss_d rows == 1)%Q.
Proof. vm_compute. repeat split; reflexivity. Qed.

Print Assumptions C07_risk_ratio.
Print Assumptions C07_risk_difference.
Print Assumptions C07_odds_ratio.
Print Assumptions C07_nnt.
Print Assumptions C07_nnt_infinite.
Print Assumptions C07_incidence_rate_ratio.
Print Assumptions C07_incidence_rate_difference.
Print Assumptions C07_acr.
Print Assumptions C07_paf.
Print Assumptions C07_guards.
Print Assumptions C07_rate_guards.
Print Assumptions C07_swap_rd.
Print Assumptions C07_swap_rr.
Print Assumptions C07_swap_or.
Print Assumptions C07_swap_irr.
Print Assumptions C07_swap_ird.
Print Assumptions C07_transpose_or.
Print Assumptions C07_spec_bridge.
Print Assumptions C07_frames_ignore_missing.
Print Assumptions C07_missing_counts.
Print Assumptions C07_src_base_tables.
Print Assumptions C07_src_base_rate_tables.
Print Assumptions C07_src_base_missing_counts.
