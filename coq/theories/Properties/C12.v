(* C12 -- Longitudinal g-formula estimators reproduce the nonparametric g-formula. *)
From Coq Require Import QArith ZArith List Bool.
From Zepid Require Import Base.QSum Base.QUtil Model.Icg Model.Survival Proofs.IcgProofs Proofs.SurvivalProofs.
Import ListNotations.
Open Scope Q_scope.

(* IterativeCondGFormula, any number of time points K >= 1, any static plan, any survival-type wide data set
   (Y_k in {0,1}, missing after the first event) with positivity for the plan: the backward loop with sequential
   regressions saturated in (treatment history, covariate history) returns exactly the nonparametric g-formula
   cumulative risk obtained by direct stratification (nested sums of conditional cell proportions) *)
Theorem C12_icg_eq_np_gformula : forall K (plan : planrow) rows, (0 < K)%nat -> length plan = K -> rows <> [] ->
  forallb (surv_wfb K) rows = true -> positivityb plan rows = true ->
  exists v, icg_fit K (PlanRow plan) rows = Some (Some v) /\ v == np_gformula plan rows.
Proof. exact icg_eq_np_gformula. Qed.

(* the nested sums equal the textbook g-formula
   sum_k sum_{l_0..l_k} h_k(l) prod_{j<k} (1 - h_j(l)) prod_{j<=k} f_j(l_j | l_0..l_{j-1}),   for every data set *)
Theorem C12_np_nested_eq_flat : forall plan rows, np_gformula plan rows == np_gformula_flat plan rows.
Proof. exact np_nested_eq_flat. Qed.

(* a plan given as one row and the same plan repeated for every individual give the same result (any regression) *)
Theorem C12_icg_plan_rows_irrelevant : forall reg K p ps rows, length p = K -> length ps = length rows ->
  Forall (eq p) ps -> icg_fit_gen reg K (PlanRows ps) rows = icg_fit_gen reg K (PlanRow p) rows.
Proof. exact icg_plan_rows_irrelevant. Qed.

(* one time point: IterativeCondGFormula = TimeFixedGFormula with the same model (any regression oracle, any outcome
   values) ... *)
Theorem C12_icg_K1_eq_timefixed : forall reg a rows, forallb complete1 rows = true ->
  icg_fit_gen reg 1 (PlanRow [a]) rows = Some (tfg_fit reg a (map (fun r => ob r 0) rows)).
Proof. exact icg_K1_eq_timefixed. Qed.
(* ... and with the saturated model both are the standardised mean over the covariate strata *)
Theorem C12_timefixed_saturated_is_standardisation : forall a os, os <> [] ->
  (forall o, In o os -> is_some (tr o) && is_some (cov o) && is_some (out o) = true) ->
  (forall o, In o os -> exists o', In o' os /\ tr o' = Some a /\ cov o' = cov o) ->
  exists v, tfg_fit cellmean_reg a os = Some v /\ v == std1 a os.
Proof. exact tfg_saturated_is_standardisation. Qed.

(* SurvivalGFormula, hazard model saturated in arm x period, no covariates, treat-all / treat-none: every row of the
   (sorted) person-period frame and the marginal at every period equal the discrete-time product-limit cumulative
   incidence 1 - prod_{k<=t} (1 - d_{a,k}/n_{a,k}) of the assigned arm *)
Theorem C12_survival_is_product_limit : forall tr rows, tr <> TNatural ->
  let s := sort_pp rows in
  pp_wfb s = true -> pp_binaryb s = true ->
  (forall i, (i < length s)%nat ->
     nth i (surv_predicted tr rows) 0 == product_limit s (assign tr pp0) (ptime (nth i s pp0))) /\
  (forall t v, surv_marginal tr rows t = Some v -> v == product_limit s (assign tr pp0) t).
Proof. exact survival_is_product_limit. Qed.
(* for ANY hazard function of (arm, period) (natural course included): the j-th period of an individual gets
   1 - prod_{k<=j} (1 - h_{a,k}) *)
Theorem C12_survival_row_is_product : forall hz tr s i, pp_wf_at s i = true ->
  cuminc_at hz tr s i == 1 - Qprod (fun k => 1 - hz (assign tr (nth i s pp0)) k) (seq 1 (ptime (nth i s pp0))).
Proof. exact survival_is_product_limit_row. Qed.
(* for ANY predicted hazards in [0,1] (any model, any frame): within an individual the predicted cumulative incidence
   is non-decreasing along its rows and lies in [0,1] *)
Theorem C12_survival_monotone_bounded : forall (hz : hazard) tr s i j,
  (forall a t, 0 <= hz a t /\ hz a t <= 1) -> (i <= j)%nat -> (j < length s)%nat ->
  pid (nth i s pp0) = pid (nth j s pp0) ->
  0 <= cuminc_at hz tr s i /\ cuminc_at hz tr s i <= cuminc_at hz tr s j /\ cuminc_at hz tr s j <= 1.
Proof. exact survival_monotone_bounded. Qed.
(* the executable form evaluated by the run is the definition the theorems are about *)
Theorem C12_predicted_is_cuminc : forall hz tr s, predicted hz tr s = map (cuminc_at hz tr s) (seq 0 (length s)).
Proof. exact predicted_eq. Qed.

Theorem C12_marginals_is_marginal : forall tr rows ts, surv_marginals tr rows ts = map (surv_marginal tr rows) ts.
Proof. exact surv_marginals_eq. Qed.

(* ---- non-vacuity: concrete data satisfying the hypotheses, with non-trivial values *)
Definition o (a l : bool) (y : Q) : obs := mkObs (Some a) (Some l) (Some y).
Definition ex_rows : list row := [
  [o true false 0; o false false 0]; [o true false 0; o false false 1]; [o true false 0; o false true 1];
  [o true false 1; nob];             [o true true 0; o false false 0];  [o true true 0; o false true 1];
  [o true true 0; o false true 0];   [o false false 0; o true false 1]; [o false true 0; o true true 0];
  [o false true 1; nob];             [o true true 0; o true false 1];   [o false false 0; o false true 0];
  [o true false 0; o false false 0]].
Example C12_nonvacuous_icg :
  forallb (surv_wfb 2) ex_rows = true /\ positivityb [true; false] ex_rows = true /\
  icg_fit 2 (PlanRow [true; false]) ex_rows = Some (Some (57 # 130)) /\
  Qred (np_gformula [true; false] ex_rows) = 57 # 130 /\ Qred (np_gformula_flat [true; false] ex_rows) = 57 # 130 /\
  icg_fit 2 (PlanRows (repeat [true; false] 13)) ex_rows = Some (Some (57 # 130)) /\
  icg_fit 2 (PlanRows (repeat [true; false] 12)) ex_rows = None /\ icg_fit 2 (PlanRow [true]) ex_rows = None.
Proof. vm_compute. repeat split; reflexivity. Qed.

Definition ex1 : list row :=
  [[o true false 1]; [o true false 0]; [o true true 1]; [o false false 0]; [o false true 1]; [o false true 0];
   [o true true 1]; [o true false 0]].
Example C12_nonvacuous_K1 :
  forallb complete1 ex1 = true /\ icg_fit 1 (PlanRow [true]) ex1 = Some (Some (2 # 3)) /\
  tfg_fit cellmean_reg true (map (fun r => ob r 0) ex1) = Some (2 # 3) /\
  Qred (std1 true (map (fun r => ob r 0) ex1)) = 2 # 3.
Proof. vm_compute. repeat split; reflexivity. Qed.

Definition ex_pp : list pprow := [
  mkPP 3 true 2 1; mkPP 1 true 1 0; mkPP 1 true 2 0; mkPP 1 true 3 1; mkPP 2 false 1 0; mkPP 2 false 2 0;
  mkPP 3 true 1 0; mkPP 4 false 1 1; mkPP 5 true 1 0; mkPP 6 false 1 0; mkPP 6 false 2 1; mkPP 6 false 3 0;
  mkPP 7 true 1 0; mkPP 7 true 2 0; mkPP 7 true 3 0].
Example C12_nonvacuous_survival :
  pp_wfb (sort_pp ex_pp) = true /\ pp_binaryb (sort_pp ex_pp) = true /\
  map Qred (surv_predicted TAll ex_pp) =
    [0; 1 # 3; 2 # 3; 0; 1 # 3; 0; 1 # 3; 0; 0; 0; 1 # 3; 2 # 3; 0; 1 # 3; 2 # 3] /\
  Qred (product_limit (sort_pp ex_pp) true 3) = 2 # 3 /\
  match surv_marginal TAll ex_pp 3 with Some v => Qred v = 2 # 3 | None => False end /\
  surv_marginal TAll ex_pp 4 = None.
Proof. vm_compute. repeat split; reflexivity. Qed.

Print Assumptions C12_icg_eq_np_gformula.
Print Assumptions C12_np_nested_eq_flat.
Print Assumptions C12_icg_plan_rows_irrelevant.
Print Assumptions C12_icg_K1_eq_timefixed.
Print Assumptions C12_timefixed_saturated_is_standardisation.
Print Assumptions C12_survival_is_product_limit.
Print Assumptions C12_survival_row_is_product.
Print Assumptions C12_survival_monotone_bounded.
Print Assumptions C12_predicted_is_cuminc.
Print Assumptions C12_marginals_is_marginal.
