(* C04 -- Cross-fit estimators never predict for a row with a model trained on that row. *)
From Coq Require Import ZArith List Bool Arith Permutation.
From Zepid Require Import Model.Crossfit Proofs.CrossfitProofs.
Import ListNotations.

(* _sample_split_ : for every sampler within the DataFrame.sample contract, every n and every k >= 1 the parts
   are n_splits many, duplicate-free as a whole (hence pairwise disjoint), a permutation of the analysed rows,
   the first k-1 of size floor(n/k) and the last of size n - (k-1) floor(n/k) *)
Theorem C04_split_partition : forall pick rows k,
  PickSpec pick -> NoDup rows -> 1 <= k -> PartitionSpec rows k (sample_split pick rows k).
Proof. exact split_partition. Qed.
Theorem C04_split_disjoint : forall pick rows k, PickSpec pick -> NoDup rows -> 1 <= k ->
  forall i j x, i <> j -> In x (nth i (sample_split pick rows k) []) -> In x (nth j (sample_split pick rows k) []) -> False.
Proof. exact split_disjoint. Qed.
(* near-equal: the last part has floor(n/k) + (n mod k) rows, n mod k < k *)
Theorem C04_split_sizes : forall pick rows k, PickSpec pick -> NoDup rows -> 1 <= k ->
  length (nth (k - 1) (sample_split pick rows k) []) = length rows / k + length rows mod k /\ length rows mod k < k.
Proof. exact split_sizes. Qed.

(* Python's a_models[i-1], y_models[i-2] taken literally (negative index = from the end) *)
Theorem C04_pair_single_ne : forall k i, 2 <= k -> i < k ->
  exists j, py_index k (Z.of_nat i - 1) = Some j /\ j < k /\ j <> i.
Proof. exact pair_single_ne. Qed.
Theorem C04_pair_double_ne : forall k i, 3 <= k -> i < k ->
  exists ja jy, py_index k (Z.of_nat i - 1) = Some ja /\ py_index k (Z.of_nat i - 2) = Some jy /\
                ja < k /\ jy < k /\ ja <> i /\ jy <> i /\ ja <> jy.
Proof. exact pair_double_ne. Qed.

(* one partition: the parts are a partition; every analysed row is predicted exactly once per nuisance
   (Pr(A|L), E(Y|A=1,L), E(Y|A=0,L)), by a learner copy that was fitted exactly once, on a part not containing
   the row; double cross-fit: the two learners used for a row were fitted on different (disjoint) parts *)
Theorem C04_no_leak : forall double pick rows k,
  PickSpec pick -> NoDup rows -> min_splits double <= k ->
  exists sp evs, crossfit_partition double pick rows k = ROk sp evs /\
                 PartitionSpec rows k sp /\ NoLeak evs rows /\ (double = true -> DoubleSep evs).
Proof. exact no_leak. Qed.
(* n_splits < 2 (single) or < 3 (double) is rejected *)
Theorem C04_guards : forall double pick rows k,
  k < min_splits double -> crossfit_partition double pick rows k = RValueError.
Proof. exact guards. Qed.

(* fit(): every partition obeys the above, whatever seeds the generator hands out; and the whole result is a
   function of random_state *)
Theorem C04_fit_all_partitions : forall (E : Type) choice pick_of (est : list (list Z) -> E) double rows k nparts rs,
  (forall seed, PickSpec (pick_of seed)) -> NoDup rows -> min_splits double <= k ->
  Forall (fun re => exists sp evs, fst re = ROk sp evs /\ PartitionSpec rows k sp /\ NoLeak evs rows /\
                                   (double = true -> DoubleSep evs) /\ snd re = Some (est sp))
         (crossfit_fit E choice pick_of est double rows k nparts rs).
Proof. exact fit_all_partitions. Qed.
Theorem C04_seeds_deterministic : forall (E : Type) choice pick_of (est : list (list Z) -> E) double rows k nparts rs1 rs2,
  rs1 = rs2 ->
  crossfit_fit E choice pick_of est double rows k nparts rs1 = crossfit_fit E choice pick_of est double rows k nparts rs2.
Proof. exact seeds_deterministic. Qed.

(* the executable specification run on the implementation's own splits / call log is sound *)
Theorem C04_partition_checker_sound : forall rows k sp,
  NoDup rows -> partition_ok_b rows k sp = true -> PartitionSpec rows k sp.
Proof. exact partition_ok_b_sound. Qed.
Theorem C04_no_leak_checker_sound : forall evs rows, no_leak_b evs rows = true -> NoLeak evs rows.
Proof. exact no_leak_b_sound. Qed.
Theorem C04_double_sep_checker_sound : forall evs, double_sep_b evs = true -> DoubleSep evs.
Proof. exact double_sep_b_sound. Qed.
Theorem C04_pick_checker_sound : forall rem m out,
  pick_ok_b rem m out = true -> NoDup out /\ incl out rem /\ length out = m.
Proof. exact pick_ok_b_sound. Qed.

(* hypotheses are satisfiable: a sampler within the contract, 7 rows, 3 parts (sizes 2,2,3), double cross-fit *)
Example C04_nonvacuous :
  PickSpec pick_first /\ NoDup [10; 11; 12; 13; 14; 15; 16]%Z /\
  crossfit_partition true pick_first [10; 11; 12; 13; 14; 15; 16]%Z 3 =
    ROk [[10; 11]; [12; 13]; [14; 15; 16]]%Z
        [Fit RA 0 [10; 11]; Fit RA 1 [12; 13]; Fit RA 2 [14; 15; 16];
         Fit RY 0 [10; 11]; Fit RY 1 [12; 13]; Fit RY 2 [14; 15; 16];
         Predict PA 2 [10; 11]; Predict PY1 1 [10; 11]; Predict PY0 1 [10; 11];
         Predict PA 0 [12; 13]; Predict PY1 2 [12; 13]; Predict PY0 2 [12; 13];
         Predict PA 1 [14; 15; 16]; Predict PY1 0 [14; 15; 16]; Predict PY0 0 [14; 15; 16]]%Z.
Proof.
  split; [exact pick_first_spec|]. split; [|vm_compute; reflexivity].
  apply nodup_b_NoDup. vm_compute. reflexivity.
Qed.
(* the guards are not decoration: without them the literal indexing leaks, and the checker sees it *)
Example C04_nonvacuous_guard_needed :
  (exists evs, schedule true 2 [[1]; [2]]%Z = Some evs /\ no_leak_b evs [1; 2]%Z = false) /\
  (exists evs, schedule false 1 [[1; 2]]%Z = Some evs /\ no_leak_b evs [1; 2]%Z = false).
Proof. split; eexists; split; vm_compute; reflexivity. Qed.

Print Assumptions C04_split_partition.
Print Assumptions C04_split_disjoint.
Print Assumptions C04_split_sizes.
Print Assumptions C04_pair_single_ne.
Print Assumptions C04_pair_double_ne.
Print Assumptions C04_no_leak.
Print Assumptions C04_guards.
Print Assumptions C04_fit_all_partitions.
Print Assumptions C04_seeds_deterministic.
Print Assumptions C04_partition_checker_sound.
Print Assumptions C04_no_leak_checker_sound.
Print Assumptions C04_double_sep_checker_sound.
Print Assumptions C04_pick_checker_sound.
