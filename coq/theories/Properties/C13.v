(* C13 -- Monte Carlo g-formula simulates well-formed histories obeying the plan.

   `run lm c n picks long draws` is the model of MonteCarloGFormula.fit(..., sample=n, low_memory=lm) of
   Model/MonteCarlo.v: c = plan, exposure column, covariate models, lags, censoring model, t_max;  long = the
   long-format input;  picks / draws = everything numpy drew (the rows DataFrame.sample chose; per step and per row
   still simulated the values returned inside _predict).  Every theorem is for ALL picks and ALL draws (= all
   seeds), all sample sizes n, all t_max >= 1, all inputs, all covariate/lag/censoring configurations. *)
From Coq Require Import QArith ZArith List Bool Lia Permutation Sorting.Sorted.
From Zepid Require Import Model.MonteCarlo Proofs.MonteCarloProofs.
Import ListNotations.
Open Scope Z_scope.

(* exactly `sample` simulated individuals: every record belongs to a uid in 0..n-1 and carries the id of the row
   sampled for it; every uid has a record; the low-memory output has exactly one record per uid, in order *)
Theorem C13_exactly_sample_units : forall c n picks long draws, (1 <= c_tmax c)%nat -> forall lm,
  (forall r, In r (run lm c n picks long draws) ->
     exists u, (u < n)%nat /\ ruid r = Z.of_nat u /\ oid (r_unit r) = l_id (nth (nth u picks O) (baseline long) row0)) /\
  (forall u, (u < n)%nat -> exists r, In r (run lm c n picks long draws) /\ ruid r = Z.of_nat u) /\
  map ruid (run true c n picks long draws) = zseq n.
Proof. exact exactly_sample_units. Qed.

(* the table individuals are sampled from consists of rows of the input *)
Theorem C13_baseline_rows_are_input_rows : forall long b, In b (baseline long) -> In b long.
Proof. exact baseline_incl. Qed.

Theorem C13_at_most_one_event : forall c n picks long draws, (1 <= c_tmax c)%nat -> forall lm x,
  (length (filter (fun r => has_uid x r && routc r) (run lm c n picks long draws)) <= 1)%nat.
Proof. exact at_most_one_event. Qed.

(* a record with an event or with simulated censoring is the last one of its individual *)
Theorem C13_no_record_after_event_or_censor : forall c n picks long draws, (1 <= c_tmax c)%nat -> forall lm r1 r2,
  In r1 (run lm c n picks long draws) -> In r2 (run lm c n picks long draws) ->
  ruid r1 = ruid r2 -> rterminal r1 = true -> rtin r2 <= rtin r1.
Proof. exact no_record_after_event_or_censor. Qed.

(* unit-length intervals inside [0, t_max]; whoever reaches t_max is censored there *)
Theorem C13_no_record_beyond_tmax : forall c n picks long draws lm r, In r (run lm c n picks long draws) ->
  0 <= rtin r /\ rtout r = rtin r + 1 /\ rtout r <= Z.of_nat (c_tmax c) /\ (rtout r = Z.of_nat (c_tmax c) -> runc r = false).
Proof. exact record_times. Qed.

(* time_in = 0, 1, 2, ..., k-1 for some 1 <= k <= t_max, in output order *)
Theorem C13_intervals_consecutive_from_0 : forall c n picks long draws, (1 <= c_tmax c)%nat -> forall u, (u < n)%nat ->
  exists k, (1 <= k <= c_tmax c)%nat /\ map rtin (history (Z.of_nat u) (run false c n picks long draws)) = zseq k.
Proof. exact intervals_consecutive_from_0. Qed.

(* 'all' gives 1, 'none' gives 0, 'natural' the drawn value; a custom rule holds on the row's simulated columns
   (the rule sees the natural-course draw d in the exposure column, as in the code) *)
Theorem C13_plan_obeyed : forall c n picks long draws lm r, In r (run lm c n picks long draws) ->
  match c_plan c with
  | PAll => get (c_expo c) (r_seen r) = 1%Q
  | PNone => get (c_expo c) (r_seen r) = 0%Q
  | PNatural => exists d, get (c_expo c) (r_seen r) = b2q d
  | PCustom rule => exists d, get (c_expo c) (r_seen r) = b2q (rule (rtin r) (set (c_expo c) (b2q d) (r_seen r)))
  end.
Proof. exact plan_obeyed. Qed.

Theorem C13_custom_rule_obeyed : forall c n picks long draws rule, c_plan c = PCustom rule ->
  (forall i e x, rule i (set (c_expo c) x e) = rule i e) ->
  forall lm r, In r (run lm c n picks long draws) -> get (c_expo c) (r_seen r) = b2q (rule (rtin r) (r_seen r)).
Proof. exact custom_rule_obeyed. Qed.

(* the exposure column of predicted_outcomes is that exposure (unless the user lags INTO the exposure column) *)
Theorem C13_output_exposure : forall c n picks long draws, ~ In (c_expo c) (map snd (c_lags c)) ->
  forall lm r, In r (run lm c n picks long draws) -> rexpo c r = get (c_expo c) (r_seen r).
Proof. exact stacked_exposure. Qed.

(* each lagged variable, as the step's models see it, equals the previous interval's value of its source; in the
   first interval it is the sampled row's value.  Needs: the lags dict is ordered so that no source was overwritten
   by an earlier entry (lags_ok), and no lagged variable is itself a modelled covariate or the exposure. *)
Theorem C13_lags_are_previous : forall c n picks long draws, lags_ok [] (c_lags c) -> lag_targets_free c ->
  forall r, In r (run false c n picks long draws) -> forall k v, In (k, v) (c_lags c) ->
    (rtin r = 0 -> exists u, (u < n)%nat /\ ruid r = Z.of_nat u
                             /\ get v (r_seen r) = get v (l_env (nth (nth u picks O) (baseline long) row0))) /\
    (forall r', In r' (run false c n picks long draws) -> ruid r' = ruid r -> rtin r' = rtin r + 1 ->
       get v (r_seen r') = get k (r_seen r)).
Proof. exact lags_are_previous_pairs. Qed.

(* same seed (= same picks and draws): the low-memory output is exactly the last record of every history of the
   full output *)
Theorem C13_low_memory_is_last_of_full : forall c n picks long draws, (1 <= c_tmax c)%nat ->
  run true c n picks long draws = lasts n (run false c n picks long draws).
Proof. exact low_memory_is_last_of_full. Qed.

(* predicted_outcomes is the stacked frames sorted by (uid, time_in) *)
Theorem C13_output_is_sorted_stack : forall c n picks long draws lm,
  Permutation (run lm c n picks long draws) (stacked lm c (init_pop n picks (baseline long)) draws) /\
  StronglySorted rle (run lm c n picks long draws).
Proof. exact output_is_sorted_stack. Qed.

(* ---------------------------------------------------------------------------------------------- non-vacuity *)
(* columns: 0 = A (exposure), 1 = L (time-varying covariate), 2 = W, 3 = lag_A, 4 = lag_L *)
Definition ex_env (a l w la ll : Q) : env := [(0%nat, a); (1%nat, l); (2%nat, w); (3%nat, la); (4%nat, ll)].
Definition ex_long : list lrow :=
  [ mkL 7 1 2 (ex_env 1 1 0 0 1); mkL 7 0 1 (ex_env 0 1 0 0 0);
    mkL 3 0 1 (ex_env 1 0 1 0 1); mkL 3 1 2 (ex_env 1 1 1 1 0); mkL 3 2 3 (ex_env 0 0 1 1 1) ].
(* treat when L == 1 or previously treated *)
Definition ex_cfg : cfg :=
  mkCfg (PCustom (reval (ROr (REq 1%nat 1) (REq 3%nat 1)))) 0%nat [(1, 1%nat)] [(0%nat, 3%nat); (1%nat, 4%nat)] true 3.
Definition ex_draws : list (list udraw) :=
  [ [mkDraw [1%Q] false false true; mkDraw [0%Q] true false true; mkDraw [0%Q] false false false];
    [mkDraw [0%Q] false false true; mkDraw [1%Q] false true true];
    [mkDraw [1%Q] true true true] ].
Definition ex_show (r : record) := (ruid r, oid (r_unit r), rtin r, rtout r, routc r, runc r,
                                    map (fun v => Qnum (get v (r_seen r))) [0%nat; 1%nat; 3%nat; 4%nat]).

Example C13_nonvacuous_hypotheses :
  (1 <= c_tmax ex_cfg)%nat /\ lags_ok [] (c_lags ex_cfg) /\ lag_targets_free ex_cfg /\
  ~ In (c_expo ex_cfg) (map snd (c_lags ex_cfg)) /\
  (forall i e x, reval (ROr (REq 1%nat 1) (REq 3%nat 1)) i (set (c_expo ex_cfg) x e) = reval (ROr (REq 1%nat 1) (REq 3%nat 1)) i e).
Proof.
  split; [vm_compute; lia|]. split; [apply lags_okb_ok; reflexivity|]. split; [apply lag_targets_freeb_ok; reflexivity|].
  split; [vm_compute; intuition discriminate|].
  intros i e x. simpl. rewrite !get_set_other by discriminate. reflexivity.
Qed.

(* three individuals drawn from two baseline rows (id 3 twice); one censored in the first step, one with an event
   in the second, one followed to t_max with an event there *)
Example C13_nonvacuous_run :
  map l_id (baseline ex_long) = [3; 7] /\
  map ex_show (run false ex_cfg 3 [1%nat; 0%nat; 1%nat] ex_long ex_draws) =
    [ (0, 7, 0, 1, false, true,  [1; 1; 0; 0]);
      (0, 7, 1, 2, false, true,  [1; 0; 1; 1]);
      (0, 7, 2, 3, true,  false, [1; 1; 1; 0]);
      (1, 3, 0, 1, false, true,  [0; 0; 0; 1]);
      (1, 3, 1, 2, true,  true,  [1; 1; 0; 0]);
      (2, 7, 0, 1, false, false, [0; 0; 0; 0]) ] /\
  map ex_show (run true ex_cfg 3 [1%nat; 0%nat; 1%nat] ex_long ex_draws) =
    [ (0, 7, 2, 3, true,  false, [1; 1; 1; 0]);
      (1, 3, 1, 2, true,  true,  [1; 1; 0; 0]);
      (2, 7, 0, 1, false, false, [0; 0; 0; 0]) ] /\
  spec_trace ex_cfg 3 [1%nat; 0%nat; 1%nat] (baseline ex_long)
             (map (fun r => mkRec (mkUnit (ruid r) (oid (r_unit r)) (rtin r) (rtout r) (routc r) (runc r) (r_seen r)) (r_seen r))
                  (run false ex_cfg 3 [1%nat; 0%nat; 1%nat] ex_long ex_draws))
    = [true; true; true; true; true].
Proof. vm_compute. repeat split; reflexivity. Qed.

Print Assumptions C13_exactly_sample_units.
Print Assumptions C13_baseline_rows_are_input_rows.
Print Assumptions C13_at_most_one_event.
Print Assumptions C13_no_record_after_event_or_censor.
Print Assumptions C13_no_record_beyond_tmax.
Print Assumptions C13_intervals_consecutive_from_0.
Print Assumptions C13_plan_obeyed.
Print Assumptions C13_custom_rule_obeyed.
Print Assumptions C13_output_exposure.
Print Assumptions C13_lags_are_previous.
Print Assumptions C13_low_memory_is_last_of_full.
Print Assumptions C13_output_is_sorted_stack.
