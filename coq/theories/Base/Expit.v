(* expit / logit over R (used by the definitions translated from TMLE.fit) *)
From Coq Require Import Reals Lra.
Open Scope R_scope.

Definition expit (x : R) : R := 1 / (1 + exp (- x)).
Definition logit (p : R) : R := ln (p / (1 - p)).

Lemma expit_pos x : 0 < expit x.
Proof. unfold expit. apply Rdiv_lt_0_compat; [lra|]. pose proof (exp_pos (- x)). lra. Qed.
Lemma expit_lt1 x : expit x < 1.
Proof.
  unfold expit. pose proof (exp_pos (- x)) as H.
  apply Rmult_lt_reg_r with (1 + exp (- x)); [lra|]. field_simplify; lra.
Qed.
Lemma expit_range x : 0 < expit x < 1.
Proof. split; [apply expit_pos|apply expit_lt1]. Qed.
Lemma expit_incr x y : x < y -> expit x < expit y.
Proof.
  intros H. unfold expit. pose proof (exp_pos (- x)). pose proof (exp_pos (- y)).
  assert (exp (- y) < exp (- x)) by (apply exp_increasing; lra).
  unfold Rdiv. rewrite !Rmult_1_l. apply Rinv_lt_contravar; [apply Rmult_lt_0_compat; lra|lra].
Qed.
Lemma expit_mono x y : x <= y -> expit x <= expit y.
Proof. intros H. destruct H as [H|H]; [left; apply expit_incr; exact H|right; rewrite H; reflexivity]. Qed.
Lemma expit_logit p : 0 < p -> p < 1 -> expit (logit p) = p.
Proof.
  intros H0 H1. unfold expit, logit.
  assert (Hq : 0 < p / (1 - p)) by (apply Rdiv_lt_0_compat; lra).
  rewrite exp_Ropp, exp_ln by exact Hq. field. lra.
Qed.
