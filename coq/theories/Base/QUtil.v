(* Small executable helpers shared by generated code, models and the case printer. *)
From Coq Require Import QArith List Bool ZArith.
Import ListNotations.
Open Scope Q_scope.

Definition Qlt_bool (x y : Q) : bool := negb (Qle_bool y x).
Definition Qmaxq (x y : Q) : Q := if Qle_bool x y then y else x.
Definition Qminq (x y : Q) : Q := if Qle_bool x y then x else y.

(* canonical printing: every rational as reduced numerator, denominator; None as 0,0 *)
Definition Qpair (q : Q) : list Z := let r := Qred q in [Qnum r; Zpos (Qden r)].
Definition Qflat (l : list Q) : list (list Z) := map Qpair l.
Definition Qopair (q : option Q) : list Z := match q with Some x => Qpair x | None => [0%Z; 0%Z] end.
Definition Qoflat (l : list (option Q)) : list (list Z) := map Qopair l.

Definition QofZ (z : Z) : Q := inject_Z z.
Definition Qnat (n : nat) : Q := inject_Z (Z.of_nat n).
