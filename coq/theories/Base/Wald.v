(* Generic Wald intervals over R.  The standard-normal quantile is a Section variable `zq` with the only
   two facts the properties use (positive above 1/2, strictly increasing on (0,1)); both are sampled against
   scipy.stats.norm.ppf at run time (oracle validation), never proved. *)
From Coq Require Import Reals Lra.
Open Scope R_scope.

Section Wald.
Variable zq : R -> R.
Hypothesis zq_pos : forall p, 1/2 < p -> p < 1 -> 0 < zq p.
Hypothesis zq_incr : forall p q, 0 < p -> p < q -> q < 1 -> zq p < zq q.

Definition zcrit (alpha : R) : R := zq (1 - alpha / 2).
Definition wald_lin (est se alpha : R) : R * R := (est - zcrit alpha * se, est + zcrit alpha * se).
Definition wald_log (est se alpha : R) : R * R :=
  (exp (ln est - zcrit alpha * se), exp (ln est + zcrit alpha * se)).

Lemma zcrit_pos alpha : 0 < alpha -> alpha < 1 -> 0 < zcrit alpha.
Proof. intros H0 H1. unfold zcrit. apply zq_pos; lra. Qed.

Lemma zcrit_decr a1 a2 : 0 < a1 -> a1 < a2 -> a2 < 1 -> zcrit a2 < zcrit a1.
Proof. intros H0 H1 H2. unfold zcrit. apply zq_incr; lra. Qed.

Lemma zcrit_antimono a1 a2 : 0 < a1 -> a1 <= a2 -> a2 < 1 -> zcrit a2 <= zcrit a1.
Proof.
  intros H0 H1 H2. destruct (Req_dec a1 a2) as [->|Hne]; [lra|].
  left. apply zcrit_decr; lra.
Qed.

Theorem wald_lin_contains est se alpha :
  0 < alpha -> alpha < 1 -> 0 <= se ->
  fst (wald_lin est se alpha) <= est <= snd (wald_lin est se alpha).
Proof.
  intros H0 H1 Hse. pose proof (zcrit_pos alpha H0 H1) as Hz. unfold wald_lin; simpl.
  assert (0 <= zcrit alpha * se) by (apply Rmult_le_pos; lra). lra.
Qed.

Theorem wald_lin_nested est se a1 a2 :
  0 < a1 -> a1 <= a2 -> a2 < 1 -> 0 <= se ->
  fst (wald_lin est se a1) <= fst (wald_lin est se a2) /\
  snd (wald_lin est se a2) <= snd (wald_lin est se a1).
Proof.
  intros H0 H1 H2 Hse. pose proof (zcrit_antimono a1 a2 H0 H1 H2) as Hz. unfold wald_lin; simpl.
  assert (zcrit a2 * se <= zcrit a1 * se) by (apply Rmult_le_compat_r; lra). lra.
Qed.

Theorem wald_lin_symmetric est se alpha :
  est - fst (wald_lin est se alpha) = snd (wald_lin est se alpha) - est.
Proof. unfold wald_lin; simpl. lra. Qed.

Theorem wald_lin_strict est se alpha :
  0 < alpha -> alpha < 1 -> 0 < se ->
  fst (wald_lin est se alpha) < est < snd (wald_lin est se alpha).
Proof.
  intros H0 H1 Hse. pose proof (zcrit_pos alpha H0 H1) as Hz. unfold wald_lin; simpl.
  assert (0 < zcrit alpha * se) by (apply Rmult_lt_0_compat; lra). lra.
Qed.

Lemma exp_le_mono x y : x <= y -> exp x <= exp y.
Proof. intros [H|H]; [left; apply exp_increasing; exact H| right; rewrite H; reflexivity]. Qed.

Theorem wald_log_contains est se alpha :
  0 < est -> 0 < alpha -> alpha < 1 -> 0 <= se ->
  fst (wald_log est se alpha) <= est <= snd (wald_log est se alpha).
Proof.
  intros He H0 H1 Hse. pose proof (zcrit_pos alpha H0 H1) as Hz. unfold wald_log; simpl.
  assert (0 <= zcrit alpha * se) by (apply Rmult_le_pos; lra).
  rewrite <- (exp_ln est He) at 2 3. split; apply exp_le_mono; lra.
Qed.

Theorem wald_log_nested est se a1 a2 :
  0 < a1 -> a1 <= a2 -> a2 < 1 -> 0 <= se ->
  fst (wald_log est se a1) <= fst (wald_log est se a2) /\
  snd (wald_log est se a2) <= snd (wald_log est se a1).
Proof.
  intros H0 H1 H2 Hse. pose proof (zcrit_antimono a1 a2 H0 H1 H2) as Hz. unfold wald_log; simpl.
  assert (zcrit a2 * se <= zcrit a1 * se) by (apply Rmult_le_compat_r; lra).
  split; apply exp_le_mono; lra.
Qed.

Theorem wald_log_symmetric_on_log_scale est se alpha :
  0 < est ->
  ln est - ln (fst (wald_log est se alpha)) = ln (snd (wald_log est se alpha)) - ln est.
Proof. intros He. unfold wald_log; simpl. rewrite !ln_exp. lra. Qed.

Theorem wald_log_positive est se alpha : 0 < fst (wald_log est se alpha).
Proof. unfold wald_log; simpl. apply exp_pos. Qed.

End Wald.
