(* Sums over lists in Q with the setoid equality ==.  Definitions AND lemmas (base library). *)
From Coq Require Import QArith List Lia Permutation Bool Setoid Morphisms.
Import ListNotations.
Open Scope Q_scope.

Section QSum.
Context {A : Type}.

Fixpoint Qsum (f : A -> Q) (l : list A) : Q :=
  match l with
  | [] => 0
  | x :: xs => f x + Qsum f xs
  end.

(* executable variant, reducing after every addition (same value up to ==) *)
Fixpoint Qsumr (f : A -> Q) (l : list A) : Q :=
  match l with
  | [] => 0
  | x :: xs => Qred (f x + Qsumr f xs)
  end.

Lemma Qsumr_eq f l : Qsumr f l == Qsum f l.
Proof. induction l as [|x xs IH]; cbn [Qsumr Qsum]; [reflexivity|]. rewrite Qred_correct, IH. reflexivity. Qed.

Lemma Qsum_ext f g l : (forall x, In x l -> f x == g x) -> Qsum f l == Qsum g l.
Proof.
  induction l as [|x xs IH]; simpl; intros H; [reflexivity|].
  rewrite (H x (or_introl eq_refl)), IH; [reflexivity|]. intros y Hy. apply H. right; exact Hy.
Qed.

Lemma Qsum_ext_all f g l : (forall x, f x == g x) -> Qsum f l == Qsum g l.
Proof. intros H. apply Qsum_ext. intros x _. apply H. Qed.

Lemma Qsum_plus f g l : Qsum (fun x => f x + g x) l == Qsum f l + Qsum g l.
Proof. induction l as [|x xs IH]; simpl; [ring|]. rewrite IH. ring. Qed.

Lemma Qsum_minus f g l : Qsum (fun x => f x - g x) l == Qsum f l - Qsum g l.
Proof. induction l as [|x xs IH]; simpl; [ring|]. rewrite IH. ring. Qed.

Lemma Qsum_scal c f l : Qsum (fun x => c * f x) l == c * Qsum f l.
Proof. induction l as [|x xs IH]; simpl; [ring|]. rewrite IH. ring. Qed.

Lemma Qsum_scal_r c f l : Qsum (fun x => f x * c) l == Qsum f l * c.
Proof. induction l as [|x xs IH]; simpl; [ring|]. rewrite IH. ring. Qed.

Lemma Qsum_opp f l : Qsum (fun x => - f x) l == - Qsum f l.
Proof. induction l as [|x xs IH]; simpl; [ring|]. rewrite IH. ring. Qed.

Lemma Qsum_const c l : Qsum (fun _ => c) l == inject_Z (Z.of_nat (length l)) * c.
Proof.
  induction l as [|x xs IH]; [simpl; ring|].
  cbn [Qsum length]. rewrite IH, Nat2Z.inj_succ. unfold Z.succ. rewrite inject_Z_plus. ring.
Qed.

Lemma Qsum_zero f l : (forall x, In x l -> f x == 0) -> Qsum f l == 0.
Proof.
  intros H. rewrite (Qsum_ext f (fun _ => 0) l H), Qsum_const. ring.
Qed.

Lemma Qsum_app f l1 l2 : Qsum f (l1 ++ l2) == Qsum f l1 + Qsum f l2.
Proof. induction l1 as [|x xs IH]; simpl; [ring|]. rewrite IH. ring. Qed.

Lemma Qsum_filter_split (p : A -> bool) f l :
  Qsum f l == Qsum f (filter p l) + Qsum f (filter (fun x => negb (p x)) l).
Proof.
  induction l as [|x xs IH]; simpl; [ring|]. destruct (p x); simpl; rewrite IH; ring.
Qed.

Lemma Qsum_filter_ind (p : A -> bool) f l :
  Qsum f (filter p l) == Qsum (fun x => (if p x then 1 else 0) * f x) l.
Proof.
  induction l as [|x xs IH]; simpl; [reflexivity|]. destruct (p x); simpl; rewrite IH; ring.
Qed.

Lemma Qsum_nonneg f l : (forall x, In x l -> 0 <= f x) -> 0 <= Qsum f l.
Proof.
  induction l as [|x xs IH]; simpl; intros H; [apply Qle_refl|].
  rewrite <- (Qplus_0_l 0). apply Qplus_le_compat; [apply H; left; reflexivity|].
  apply IH. intros y Hy. apply H. right; exact Hy.
Qed.

Lemma Qsum_le f g l : (forall x, In x l -> f x <= g x) -> Qsum f l <= Qsum g l.
Proof.
  induction l as [|x xs IH]; simpl; intros H; [apply Qle_refl|].
  apply Qplus_le_compat; [apply H; left; reflexivity|]. apply IH. intros y Hy. apply H. right; exact Hy.
Qed.

Lemma Qsum_Permutation f l l' : Permutation l l' -> Qsum f l == Qsum f l'.
Proof.
  induction 1 as [|x l l' _ IH|x y l|l l' l'' _ IH1 _ IH2]; simpl.
  - reflexivity.
  - rewrite IH; reflexivity.
  - ring.
  - rewrite IH1; exact IH2.
Qed.

End QSum.

Lemma Qsum_map {A B} (g : B -> A) f (l : list B) : Qsum f (map g l) == Qsum (fun b => f (g b)) l.
Proof. induction l as [|x xs IH]; simpl; [reflexivity|]. rewrite IH. reflexivity. Qed.

Lemma Qsum_flat_map {A B} (g : B -> list A) f (l : list B) :
  Qsum f (flat_map g l) == Qsum (fun b => Qsum f (g b)) l.
Proof. induction l as [|x xs IH]; simpl; [reflexivity|]. rewrite Qsum_app, IH. reflexivity. Qed.

Lemma Qsum_repeat {A} f (x : A) n : Qsum f (repeat x n) == inject_Z (Z.of_nat n) * f x.
Proof.
  induction n as [|n IH]; [simpl; ring|].
  cbn [repeat Qsum]. rewrite IH, Nat2Z.inj_succ. unfold Z.succ. rewrite inject_Z_plus. ring.
Qed.

(* physical replication of rows: row x repeated (m x) times *)
Definition replicate_rows {A} (m : A -> nat) (l : list A) : list A := flat_map (fun x => repeat x (m x)) l.

Lemma Qsum_replicate {A} (m : A -> nat) f l :
  Qsum f (replicate_rows m l) == Qsum (fun x => inject_Z (Z.of_nat (m x)) * f x) l.
Proof.
  unfold replicate_rows. rewrite Qsum_flat_map. apply Qsum_ext_all. intros x. apply Qsum_repeat.
Qed.

(* swapping two finite sums *)
Lemma Qsum_swap {A B} (f : A -> B -> Q) (la : list A) (lb : list B) :
  Qsum (fun a => Qsum (fun b => f a b) lb) la == Qsum (fun b => Qsum (fun a => f a b) la) lb.
Proof.
  induction la as [|a la IH]; simpl.
  - symmetry. apply Qsum_zero. intros; reflexivity.
  - rewrite IH, <- Qsum_plus. reflexivity.
Qed.



(* partition of a sum by a nat-valued key ranging over a NoDup list of keys that covers the list *)
Lemma Qsum_by_key {A} (key : A -> nat) (keys : list nat) (f : A -> Q) (l : list A) :
  NoDup keys -> (forall x, In x l -> In (key x) keys) ->
  Qsum f l == Qsum (fun k => Qsum f (filter (fun x => Nat.eqb (key x) k) l)) keys.
Proof.
  intros Hnd Hcov. induction l as [|x xs IH].
  - simpl. symmetry. apply Qsum_zero. intros; reflexivity.
  - cbn [Qsum]. rewrite IH by (intros y Hy; apply Hcov; right; exact Hy).
    assert (Hin : In (key x) keys) by (apply Hcov; left; reflexivity).
    clear IH Hcov.
    (* sum over keys of [key x = k] * f x = f x *)
    assert (E : forall k, Qsum f (filter (fun y => Nat.eqb (key y) k) (x :: xs)) ==
                          (if Nat.eqb (key x) k then f x else 0) + Qsum f (filter (fun y => Nat.eqb (key y) k) xs)).
    { intros k. simpl. destruct (Nat.eqb (key x) k); simpl; ring. }
    rewrite (Qsum_ext_all _ _ keys E), Qsum_plus.
    apply Qplus_comp; [|reflexivity].
    induction keys as [|k ks IHk]; [contradiction|].
    inversion Hnd as [|k' ks' Hk Hks]; subst. cbn [Qsum].
    destruct (Nat.eqb_spec (key x) k) as [e|ne].
    + rewrite Qsum_zero; [ring|]. intros k' Hk'. destruct (Nat.eqb_spec (key x) k'); [|reflexivity].
      exfalso. apply Hk. congruence.
    + destruct Hin as [e|Hin]; [congruence|]. rewrite <- IHk by assumption. ring.
Qed.

(* indicator *)
Definition ind (b : bool) : Q := if b then 1 else 0.

Definition Qlen {A} (l : list A) : Q := inject_Z (Z.of_nat (length l)).

Lemma Qsum_ind_count {A} (p : A -> bool) (l : list A) : Qsum (fun x => ind (p x)) l == Qlen (filter p l).
Proof.
  unfold Qlen. induction l as [|x xs IH]; [reflexivity|]. cbn [Qsum filter]. rewrite IH.
  destruct (p x); cbn [ind length]; [|ring]. rewrite Nat2Z.inj_succ. unfold Z.succ. rewrite inject_Z_plus. ring.
Qed.

Lemma Qsum_one {A} (l : list A) : Qsum (fun _ => 1) l == Qlen l.
Proof. rewrite Qsum_const. unfold Qlen. ring. Qed.

Lemma Qlen_nonneg {A} (l : list A) : 0 <= Qlen l.
Proof. unfold Qlen. replace 0 with (inject_Z 0) by reflexivity. rewrite <- Zle_Qle. lia. Qed.

Lemma Qlen_pos {A} (l : list A) : l <> [] -> 0 < Qlen l.
Proof. unfold Qlen. destruct l; [congruence|]. intros _. replace 0 with (inject_Z 0) by reflexivity.
  rewrite <- Zlt_Qlt. simpl length. lia. Qed.

Definition Qmean {A} (f : A -> Q) (l : list A) : Q := Qsum f l / Qlen l.
