(* Analysis rows of the causal estimators, cell aggregates and the standardisation specification.
   A row carries its covariate-stratum code, treatment, outcome (None = missing), user (frequency) weight
   and the nuisance predictions the estimator attached to it (oracle values; their meaning is fixed by
   hypotheses of the theorems, never here). *)
From Coq Require Import QArith List Bool Arith Lia Lra Lqa.
From Zepid Require Import Base.QSum Base.QUtil.
Import ListNotations.
Open Scope Q_scope.

Record row := {
  st : nat;            (* covariate stratum code *)
  trt : bool;          (* treatment received *)
  yv : option Q;       (* outcome, None = missing *)
  wt : Q;              (* user weight (1 when no weights column) *)
  g1 : Q;              (* fitted Pr(A=1 | L) *)
  q1 : Q; q0 : Q;      (* fitted outcome under A=1 / A=0 *)
  m1 : Q; m0 : Q       (* fitted Pr(outcome observed | A=1, L) / (A=0, L); 1 when no missing model *)
}.

Definition in_s (s : nat) (r : row) : bool := Nat.eqb (st r) s.
Definition arm (a : bool) (r : row) : bool := Bool.eqb (trt r) a.
Definition obs (r : row) : bool := match yv r with Some _ => true | None => false end.
Definition yval (r : row) : Q := match yv r with Some y => y | None => 0 end.

Definition strata (l : list row) : list nat := nodup Nat.eq_dec (map st l).
Definition cellrows (s : nat) (l : list row) : list row := filter (in_s s) l.

(* weighted cell aggregates *)
Definition Nw (s : nat) (l : list row) : Q := Qsum wt (cellrows s l).
Definition Naw (s : nat) (a : bool) (l : list row) : Q := Qsum (fun r => ind (arm a r) * wt r) (cellrows s l).
Definition Nobs (s : nat) (a : bool) (l : list row) : Q :=
  Qsum (fun r => ind (arm a r) * ind (obs r) * wt r) (cellrows s l).
Definition Ysum (s : nat) (a : bool) (l : list row) : Q :=
  Qsum (fun r => ind (arm a r) * ind (obs r) * wt r * yval r) (cellrows s l).
Definition ybar (s : nat) (a : bool) (l : list row) : Q := Ysum s a l / Nobs s a l.

(* standardisation targets: weight of a stratum *)
Inductive target := TAll | TExposed | TUnexposed.
Definition tw (t : target) (s : nat) (l : list row) : Q :=
  match t with TAll => Nw s l | TExposed => Naw s true l | TUnexposed => Naw s false l end.

(* THE SPECIFICATION: observed-outcome cell means of arm a standardised over the stratum distribution of t *)
Definition std (t : target) (a : bool) (l : list row) : Q :=
  Qsum (fun s => tw t s l * ybar s a l) (strata l) / Qsum (fun s => tw t s l) (strata l).

(* Hajek (ratio) weighted arm mean with per-row total weight W, over rows with an observed outcome *)
Definition arm_num (W : row -> Q) (a : bool) (l : list row) : Q :=
  Qsum (fun r => ind (arm a r) * ind (obs r) * W r * yval r) l.
Definition arm_den (W : row -> Q) (a : bool) (l : list row) : Q :=
  Qsum (fun r => ind (arm a r) * ind (obs r) * W r) l.
Definition arm_mean (W : row -> Q) (a : bool) (l : list row) : Q := arm_num W a l / arm_den W a l.
