(* Aggregates over lists of rationals used by cross-fit pooling: numpy's median (mean of the two middle order
   statistics for an even count) and mean.  Definitions only. *)
From Coq Require Import QArith List Bool.
From Zepid Require Import Base.QSum.
Import ListNotations.
Open Scope Q_scope.

Fixpoint insertq (x : Q) (l : list Q) : list Q :=
  match l with [] => [x] | y :: ys => if Qle_bool x y then x :: l else y :: insertq x ys end.
Definition sortq (l : list Q) : list Q := fold_right insertq [] l.
Definition median (l : list Q) : Q :=
  let s := sortq l in let n := length s in
  if Nat.even n then (nth (n / 2 - 1) s 0 + nth (n / 2) s 0) / 2 else nth (n / 2) s 0.
Definition meanq (l : list Q) : Q := Qsum (fun x => x) l / Qlen l.
