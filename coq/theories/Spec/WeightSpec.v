(* C05 -- SPECIFICATION of the inverse probability weights, written from the class docstrings of
   zepid.causal.ipw (IPTW, StochasticIPTW, IPMW, IPCW), NOT from the code.  Definitions only.

   IPTW docstring:     stabilized  pi_i = Pr(A=a) / Pr(A=a|L=l);   unstabilized  pi_i = 1 / Pr(A=a|L=l)
                       SMR to exposed:    1 if A=1,  Pr(A=1|L)/Pr(A=0|L) if A=0
                       SMR to unexposed:  Pr(A=0|L)/Pr(A=1|L) if A=1,  1 if A=0
                       (stabilized SMR weights multiply the odds by the inverse marginal odds, Sato & Matsuyama 2003)
   StochasticIPTW:     pi_i = Pr*(A=a|L) / Pr(A=a|L)      (plan probability over observed probability)
   IPMW:               pi_i = Pr(M=0) / Pr(M=0|L=l)  resp.  1 / Pr(M=0|L=l); monotone: product of the conditional
                       observation probabilities, each given the previous variable observed
   IPCW:               pi_i(t) = prod_{R_k <= t} Pr(C_i > R_k) / Pr(C_i > R_k | L, C_i > R_{k-1})  *)
From Coq Require Import QArith ZArith List Bool.
Import ListNotations.
Open Scope Q_scope.

Inductive target := Population | Exposed | Unexposed.

(* probability, under P(A=1) = p, of the treatment level a actually received *)
Definition pr_received (a : bool) (p : Q) : Q := if a then p else 1 - p.

Definition odds (p : Q) : Q := p / (1 - p).

(* d = P^(A=1|L_i) (denominator model), n = P^(A=1 | numerator covariates) (only read when stabilised) *)
Definition spec_iptw (stab : bool) (t : target) (a : bool) (d n : Q) : Q :=
  match t with
  | Population => (if stab then pr_received a n else 1) / pr_received a d
  | Exposed => if a then 1 else odds d * (if stab then (1 - n) / n else 1)
  | Unexposed => if a then ((1 - d) / d) * (if stab then n / (1 - n) else 1) else 1
  end.

(* stochastic plan: pbar = probability of treatment under the plan for this row, pd = P^(A=1|L_i) *)
Definition spec_stochastic (a : bool) (pbar pd : Q) : Q := pr_received a pbar / pr_received a pd.

(* missing-data weight of a row whose conditional observation probabilities are pis (one per variable, each
   conditional on the previous variable being observed) and numerator probabilities nus *)
Fixpoint Qprod_list (l : list Q) : Q := match l with [] => 1 | x :: xs => x * Qprod_list xs end.

Definition spec_ipmw (stab fully_observed : bool) (nus pis : list Q) : option Q :=
  if fully_observed then Some ((if stab then Qprod_list nus else 1) / Qprod_list pis) else None.

(* censoring weights on long data: a row is (subject, time, ...); the weight at a row is the product over that
   subject's rows up to and including it, in time order, of numerator over denominator probability of remaining
   uncensored.  Position-free: stated over ANY ordering of the input rows. *)
Section Ipcw.
Context {A : Type} (sid : A -> Z) (time : A -> Q) (event : A -> bool) (num den : A -> Q).

Definition upto (r x : A) : bool := (sid x =? sid r)%Z && Qle_bool (time x) (time r).

Definition spec_ipcw (l : list A) (r : A) : Q := Qprod_list (map (fun x => num x / den x) (filter (upto r) l)).

(* a subject's last row: no row of the same subject has a later time *)
Definition is_last (l : list A) (r : A) : bool :=
  forallb (fun x => implb (sid x =? sid r)%Z (Qle_bool (time x) (time r))) l.

(* documented indicator: 0 exactly on a subject's last row without event and with time <> max time *)
Definition spec_uncensored (tmax : Q) (l : list A) (r : A) : bool :=
  negb (is_last l r && negb (event r) && negb (Qeq_bool (time r) tmax)).
End Ipcw.
