(* Textbook definitions of the 2x2 effect measures over Q (executable specification). *)
From Coq Require Import QArith.
Open Scope Q_scope.

Definition risk (e t : Q) := e / t.
Definition var_risk (e t : Q) := (e / t) * (1 - e / t) / t.
Definition var_risk_hyper (e t : Q) := e * (t - e) / (t * t * (t - 1)).
Definition irate (e t : Q) := e / t.
Definition var_irate (e t : Q) := e / (t * t).

Definition rr (a b c d : Q) := (a / (a + b)) / (c / (c + d)).
Definition rd (a b c d : Q) := a / (a + b) - c / (c + d).
Definition oddsr (a b c d : Q) := (a * d) / (b * c).
Definition var_lnrr (a b c d : Q) := 1 / a - 1 / (a + b) + 1 / c - 1 / (c + d).
Definition var_rd (a b c d : Q) :=
  (a / (a + b)) * (1 - a / (a + b)) / (a + b) + (c / (c + d)) * (1 - c / (c + d)) / (c + d).
Definition var_lnor (a b c d : Q) := 1 / a + 1 / b + 1 / c + 1 / d.
Definition irr (a c t1 t2 : Q) := (a / t1) / (c / t2).
Definition ird (a c t1 t2 : Q) := a / t1 - c / t2.
Definition var_lnirr (a c : Q) := 1 / a + 1 / c.
Definition var_ird (a c t1 t2 : Q) := a / (t1 * t1) + c / (t2 * t2).
Definition acr (a b c d : Q) := (a + c) / (a + b + c + d) - c / (c + d).
Definition paf (a b c d : Q) := ((a + c) / (a + b + c + d) - c / (c + d)) / ((a + c) / (a + b + c + d)).

(* all at once, for the case printer *)
Definition measures4 (a b c d : Q) : list Q :=
  (rr a b c d :: var_lnrr a b c d :: rd a b c d :: var_rd a b c d :: oddsr a b c d :: var_lnor a b c d ::
   acr a b c d :: paf a b c d :: risk a (a + b) :: var_risk a (a + b) :: risk c (c + d) :: var_risk c (c + d) :: nil)%list.
Definition measures_rate (a c t1 t2 : Q) : list Q :=
  (irr a c t1 t2 :: var_lnirr a c :: ird a c t1 t2 :: var_ird a c t1 t2 :: irate a t1 :: var_irate a t1 ::
   irate c t2 :: var_irate c t2 :: nil)%list.
