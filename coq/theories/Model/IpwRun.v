(* C05 -- case runners for the correspondence run (harness glue, definitions only).
   The implementation's floats enter as exact rationals; every comparison  |x - q| <= tol * max(1, |q|)  is made HERE
   and only the indices of disagreeing rows are printed (printing hundreds of large rationals per case costs
   seconds, evaluating them milliseconds).  `*_val` functions print the expected values of one row for reports. *)
From Coq Require Import QArith ZArith List Bool.
From Zepid Require Import Base.QSum Base.QUtil Model.Bounds Spec.WeightSpec Model.Ipw.
Import ListNotations.
Open Scope Q_scope.

(* a float: m / 2^e *)
Definition dy (m : Z) (e : nat) : Q := Qmake m (Pos.shiftl_nat 1 e).

Definition Qabsq (x : Q) : Q := if Qle_bool 0 x then x else - x.
Definition closeb (tol x q : Q) : bool := Qle_bool (Qabsq (x - q)) (tol * Qmaxq 1 (Qabsq q)).
Definition ocloseb (tol : Q) (x q : option Q) : bool :=
  match x, q with Some a, Some b => closeb tol a b | None, None => true | _, _ => false end.

(* indices at which the implementation's value x disagrees with the expected q *)
Fixpoint badidx (tol : Q) (i : nat) (xs qs : list (option Q)) : list nat :=
  match xs, qs with
  | x :: xs', q :: qs' => (if ocloseb tol x q then [] else [i]) ++ badidx tol (S i) xs' qs'
  | [], [] => []
  | _, _ => [i]                                  (* different lengths are a disagreement *)
  end.
(* expected value None = no documented value for this row (skipped) *)
Fixpoint badidx_skip (tol : Q) (i : nat) (xs : list (option Q)) (es : list (option (option Q))) : list nat :=
  match xs, es with
  | x :: xs', e :: es' =>
      (match e with Some q => if ocloseb tol x q then [] else [i] | None => [] end) ++ badidx_skip tol (S i) xs' es'
  | [], [] => []
  | _, _ => [i]
  end.
Fixpoint badbool (i : nat) (xs ys : list bool) : list nat :=
  match xs, ys with
  | x :: xs', y :: ys' => (if Bool.eqb x y then [] else [i]) ++ badbool (S i) xs' ys'
  | [], [] => []
  | _, _ => [i]
  end.
Fixpoint mapi {A B} (f : nat -> A -> B) (i : nat) (l : list A) : list B :=
  match l with [] => [] | x :: xs => f i x :: mapi f (S i) xs end.
Definition Qp (q : Q) : list Z := let r := Qred q in [Qnum r; Zpos (Qden r)].
Definition Qop (q : option Q) : list Z := match q with Some x => Qp x | None => [0%Z; 0%Z] end.

(* ------------------------------------------------------------------------------------------------ IPTW *)
(* a: treatment; rd, rn: probabilities fitted without bound; d, n, w: __denom__, __numer__, iptw of the run.
   codes: 1 probabilities used <> clip of the fitted ones, 2 weight <> model, 3 weight <> specification at the
   probabilities used, 4 weight <> translated source expression *)
Fixpoint iptw_chk (tol : Q) (stab : bool) (t : target) (bd : option (Q * Q))
    (tw : option (bool -> Q -> Q -> list (option Q))) (i : nat)
    (a : list bool) (rd rn d n w : list Q) : list (nat * nat) :=
  match a, rd, rn, d, n, w with
  | a0 :: a', rd0 :: rd', rn0 :: rn', d0 :: d', n0 :: n', w0 :: w' =>
      let res := iptw_row stab t bd (a0, rd0, rn0) in
      let e1 := if closeb tol d0 (fst (fst res)) && (negb stab || closeb tol n0 (snd (fst res))) then [] else [(i, 1%nat)] in
      let e2 := if ocloseb tol (Some w0) (snd res) then [] else [(i, 2%nat)] in
      let e3 := if closeb tol w0 (spec_iptw stab t a0 d0 n0) then [] else [(i, 3%nat)] in
      let e4 := match tw with
                | None => []
                | Some f => match f a0 d0 n0 with
                            | [Some x] => if closeb tol w0 x then [] else [(i, 4%nat)]
                            | _ => [(i, 4%nat)]
                            end
                end in
      e1 ++ e2 ++ e3 ++ e4 ++ iptw_chk tol stab t bd tw (S i) a' rd' rn' d' n' w'
  | [], [], [], [], [], [] => []
  | _, _, _, _, _, _ => [(i, 0%nat)]
  end.
Definition iptw_val (stab : bool) (t : target) (bd : option (Q * Q)) (a : bool) (rd rn d n : Q) : list (list Z) :=
  let res := iptw_row stab t bd (a, rd, rn) in
  [Qp (fst (fst res)); Qp (snd (fst res)); Qop (snd res); Qp (spec_iptw stab t a d n)].

(* IPTW.missing_model; codes: 2 model, 3 specification *)
Fixpoint miss_chk (tol : Q) (stab : bool) (bd : option (Q * Q)) (clipf : Q -> Q) (i : nat)
    (o : list bool) (d n : list Q) (w : list (option Q)) : list (nat * nat) :=
  match o, d, n, w with
  | o0 :: o', d0 :: d', n0 :: n', w0 :: w' =>
      (if ocloseb tol w0 (iptw_missing_row stab bd (o0, d0, n0)) then [] else [(i, 2%nat)]) ++
      (if ocloseb tol w0 (spec_ipmw stab o0 [n0] [clipf d0]) then [] else [(i, 3%nat)]) ++
      miss_chk tol stab bd clipf (S i) o' d' n' w'
  | [], [], [], [] => []
  | _, _, _, _ => [(i, 0%nat)]
  end.

(* ------------------------------------------------------------------------------------- StochasticIPTW *)
Fixpoint mk_srows (pl : nat -> plan) (i : nat) (a : list bool) (y pd w : list Q) : list srow :=
  match a, y, pd, w with
  | a0 :: a', y0 :: y', p0 :: p', w0 :: w' => Build_srow a0 y0 p0 w0 (pl i) :: mk_srows pl (S i) a' y' p' w'
  | _, _, _, _ => []
  end.
(* truths: one list (over rows) per condition *)
Definition cond_plan (truths : list (list bool)) (ps : list Q) (i : nat) : plan :=
  Conditional (combine (map (fun t => nth i t false) truths) ps).
(* documented weight per row: pb = None: conditions not exclusive on the row (no documented value);
   Some None: no condition holds (NaN);  Some (Some p): the plan probability *)
Definition stoch_expect (r : srow) (pb : option (option Q)) : option (option Q) :=
  match pb with
  | None => None
  | Some None => Some None
  | Some (Some p) => Some (Some (spec_stochastic (s_a r) p (s_pd r) * s_w r))
  end.
Definition stoch_chk (tol : Q) (rows : list srow) (iw : list (option Q)) (pbs : list (option (option Q)))
    (mo : option Q) : nat * list nat * list nat * bool :=
  (length rows, badidx tol 0 iw (map stoch_weight rows), badidx_skip tol 0 iw (map2 stoch_expect rows pbs),
   ocloseb tol mo (stoch_marginal rows)).
Definition stoch_val (rows : list srow) (i : nat) : list (list Z) :=
  [Qop (match nth_error rows i with Some r => stoch_weight r | None => None end); Qop (stoch_marginal rows)].

(* ------------------------------------------------------------------------------------------------ IPMW *)
(* per row: stratum, observed flags, recorded predictions per variable (None where no model was fitted) *)
Record rawm := { w_s : nat; w_o : list bool; w_d : list (option Q); w_n : list (option Q) }.
Definition fillo (f : Q) (l : list (option Q)) : list Q :=
  map (fun o => match o with Some x => x | None => f end) l.
Definition mkm (fill : Q) (byid : bool) (i : nat) (x : rawm) : mrow :=
  Build_mrow (if byid then i else w_s x) (w_o x) (fillo fill (w_d x)) (fillo fill (w_n x)).
Definition full (K : nat) (r : mrow) : bool := forallb (fun k => obs k r) (seq 0 K).
Definition ipmw_spec_row (stab : bool) (K : nat) (r : mrow) : option Q :=
  spec_ipmw stab (full K r) (map (fun k => num_at k r) (seq 0 K)) (map (fun k => den_at k r) (seq 0 K)).
(* the model reads 0 where no model was fitted (it must not look), the specification reads 1 *)
Definition ipmw_chk (tol tolfit : Q) (stab : bool) (K : nat) (raws : list rawm) (w : list (option Q)) (tele : bool) :=
  let rows := mapi (mkm 0 false) 0 raws in
  let rid := mapi (mkm 0 true) 0 raws in
  let srows := mapi (mkm 1 false) 0 raws in
  (ipmw_fits rows K, map (fun k => map m_s (train rid k)) (seq 0 K), monotone_ok rows K,
   badidx tol 0 w (map (ipmw_code stab rows K) rows),
   badidx tol 0 w (map (ipmw_spec_row stab K) srows),
   if tele then badidx_skip tolfit 0 w
       (map (fun r => if full K r then Some (Some (cnt_all rows (m_s r) / cnt_obs rows (m_s r) (K - 1))) else None) rows)
   else []).
Definition ipmw_val (stab : bool) (K : nat) (raws : list rawm) (i : nat) : list (list Z) :=
  let rows := mapi (mkm 0 false) 0 raws in
  let srows := mapi (mkm 1 false) 0 raws in
  [Qop (match nth_error rows i with Some r => ipmw_code stab rows K r | None => None end);
   Qop (match nth_error srows i with Some r => ipmw_spec_row stab K r | None => None end);
   Qop (match nth_error rows i with Some r => Some (cnt_all rows (m_s r) / cnt_obs rows (m_s r) (K - 1)) | None => None end)].

(* ------------------------------------------------------------------------------------------------ IPCW *)
Definition crow0 : crow := Build_crow 0 0 false 0 0.
(* s: the frame as sorted by the implementation, with ITS predictions; perm: for each row of the caller's
   input, its position in s; u, cn, cd, w: __uncensored__, __cnumer__, __cdenom__, Weight in the order of s *)
Definition ipcw_chk (tol : Q) (s : list crow) (perm : list nat) (u : list bool) (cn cd w : list Q) :=
  let input := map (fun j => nth j s crow0) perm in
  let so := map (@Some Q) in
  (sorted_bool s, length input,
   badbool 0 u (uncensored_code (max_time input) s),
   badidx tol 0 (so cn) (so (cumprod_by_id c_num [] s)),
   badidx tol 0 (so cd) (so (cumprod_by_id c_den [] s)),
   badidx tol 0 (so w) (so (ipcw_weights s)),
   badbool 0 u (map (cspec_uncensored input) s),
   badidx tol 0 (so w) (so (map (cspec_weight input) s))).
Definition ipcw_val (s : list crow) (perm : list nat) (i : nat) : list (list Z) :=
  let input := map (fun j => nth j s crow0) perm in
  let r := nth i s crow0 in
  [Qp (nth i (cumprod_by_id c_num [] s) 0); Qp (nth i (cumprod_by_id c_den [] s) 0); Qp (nth i (ipcw_weights s) 0);
   Qp (cspec_weight input r);
   [if nth i (uncensored_code (max_time input) s) true then 1%Z else 0%Z; if cspec_uncensored input r then 1%Z else 0%Z]].
