(* C19 -- no-assumption (Manski) bounds on the sample causal risk difference.  Definitions only. *)
From Coq Require Import QArith List Bool.
From Zepid Require Import Base.QSum Base.QUtil.
Import ListNotations.
Open Scope Q_scope.

(* an observed unit: exposure received and outcome observed *)
Record unit := { ua : bool; uy : bool }.

(* a completed unit: the unit together with the value of the potential outcome that was NOT observed *)
Definition cunit := (unit * bool)%type.
Definition Y1 (c : cunit) : bool := if ua (fst c) then uy (fst c) else snd c.
Definition Y0 (c : cunit) : bool := if ua (fst c) then snd c else uy (fst c).

Definition causal_rd (cs : list cunit) : Q :=
  (Qsum (fun c => ind (Y1 c)) cs - Qsum (fun c => ind (Y0 c)) cs) / Qlen cs.

(* cells of the 2x2 table, textbook lettering: a = exposed with outcome, b = exposed without,
   c = unexposed with outcome, d = unexposed without *)
Definition is_a (u : unit) := ua u && uy u.
Definition is_b (u : unit) := ua u && negb (uy u).
Definition is_c (u : unit) := negb (ua u) && uy u.
Definition is_d (u : unit) := negb (ua u) && negb (uy u).
Definition cell (p : unit -> bool) (us : list unit) : Q := Qlen (filter p us).

(* specification: the sharp bounds in closed form *)
Definition lower (us : list unit) : Q := - (cell is_b us + cell is_c us) / Qlen us.
Definition upper (us : list unit) : Q := (cell is_a us + cell is_d us) / Qlen us.
Definition obs_rd (us : list unit) : Q :=
  cell is_a us / (cell is_a us + cell is_b us) - cell is_c us / (cell is_c us + cell is_d us).

(* the extreme completions *)
Definition complete_low (us : list unit) : list cunit := map (fun u => (u, ua u)) us.
Definition complete_high (us : list unit) : list cunit := map (fun u => (u, negb (ua u))) us.

(* the bounds as a function of the four counts (what the implementation computes from) *)
Definition lower_counts (a b c d : Q) : Q :=
  let n := a + b + c + d in (a / (a + b)) * ((a + b) / n) - (c / (c + d)) * (1 - (a + b) / n) - (a + b) / n.
Definition upper_counts (a b c d : Q) : Q :=
  let n := a + b + c + d in (a / (a + b)) * ((a + b) / n) + (1 - (a + b) / n) - (c / (c + d)) * (1 - (a + b) / n).

(* the formula that shipped before the repair (kept to state its refutation) *)
Definition old_lower_counts (a b c d : Q) : Q :=
  let n := a + b + c + d in let ri := a / (a + b) in ri * ((a + b) / n) - (1 - ri) * (1 - (a + b) / n) - (a + b) / n.
Definition old_upper_counts (a b c d : Q) : Q :=
  let n := a + b + c + d in let ri := a / (a + b) in ri * ((a + b) / n) + (1 - (a + b) / n) - (1 - ri) * (1 - (a + b) / n).

(* executable exhaustive range over all completions (for the correspondence run; 2^n completions) *)
Fixpoint completions (us : list unit) : list (list cunit) :=
  match us with
  | [] => [[]]
  | u :: r => let cs := completions r in map (cons (u, false)) cs ++ map (cons (u, true)) cs
  end.
Definition Qmin_list (d : Q) (l : list Q) : Q := fold_left Qminq l d.
Definition Qmax_list (d : Q) (l : list Q) : Q := fold_left Qmaxq l d.
Definition rd_range (us : list unit) : Q * Q :=
  let v := map causal_rd (completions us) in (Qmin_list 2 v, Qmax_list (-2) v).

(* raw data rows: exposure (true = the non-reference level) and outcome, either possibly missing;
   only rows with both observed enter the table *)
Definition of_rows (rows : list (option bool * option bool)) : list unit :=
  flat_map (fun r => match r with (Some a, Some y) => [{| ua := a; uy := y |}] | _ => [] end) rows.

Definition table (a b c d : nat) : list unit :=
  repeat {| ua := true; uy := true |} a ++ repeat {| ua := true; uy := false |} b ++
  repeat {| ua := false; uy := true |} c ++ repeat {| ua := false; uy := false |} d.
