(* Stochastic / conditional treatment plans (C14): StochasticIPTW.fit, StochasticTMLE.fit,
   TimeFixedGFormula.fit_stochastic, stochastic_check_conditional.  Definitions only.

   Rows are the annotated rows of Base.Rows (stratum code, treatment, outcome, user weight, fitted
   Pr(A=1|L) in g1, fitted outcome under A=1 / A=0 in q1 / q0).  A condition string such as
   "df['L0']==1" is a boolean function of the row. *)
From Coq Require Import QArith Qround List Bool Arith ZArith.
From Zepid Require Import Base.QSum Base.QUtil Base.Rows Model.Estimators.
Import ListNotations.
Open Scope Q_scope.

Notation cond := (row -> bool) (only parsing).

(* ------------------------------------------------------------------------------------------------
   the overwrite loop shared by the three classes:
       x = NaN
       for c, prop in zip(conditional, p):  x = np.where(eval(c), <value of prop>, x)
   first to last; a later matching condition overwrites an earlier one; None = NaN *)
Definition assign_step (r : row) (cur : option Q) (cp : cond * Q) : option Q :=
  if fst cp r then Some (snd cp) else cur.
Definition assign_pl (pl : list (cond * Q)) (r : row) : option Q := fold_left (assign_step r) pl None.
Definition assign_p (conds : list cond) (ps : list Q) (r : row) : option Q := assign_pl (combine conds ps) r.

(* what the plan says about a row: the probability of the LAST listed condition that holds on it *)
Fixpoint last_opt {A} (l : list A) : option A :=
  match l with [] => None | [x] => Some x | _ :: tl => last_opt tl end.
Definition matching (pl : list (cond * Q)) (r : row) : list (cond * Q) := filter (fun cp => fst cp r) pl.
Definition plan_value (pl : list (cond * Q)) (r : row) : option Q := option_map snd (last_opt (matching pl r)).

(* exclusive / exhaustive at a row, and the data-level check of stochastic_check_conditional /
   TimeFixedGFormula._check_conditional: a = sum_c [c holds]; warn iff any a > 1 *)
Definition n_true (conds : list cond) (r : row) : nat := length (filter (fun c => c r) conds).
Definition exclusive_at (conds : list cond) (r : row) : Prop := (n_true conds r <= 1)%nat.
Definition exhaustive_at (conds : list cond) (r : row) : Prop := (1 <= n_true conds r)%nat.
Definition check_exclusive (conds : list cond) (l : list row) : bool :=
  forallb (fun r => Nat.leb (n_true conds r) 1) l.          (* true = no warning *)
Definition check_exhaustive (conds : list cond) (l : list row) : bool :=
  forallb (fun r => Nat.leb 1 (n_true conds r)) l.

(* a plan as the code receives it: conditional=None with one p, or zip(conditional, p) *)
Inductive plan :=
| Uncond (p : Q)
| Cond (conds : list cond) (ps : list Q).
Definition plan_p (pl : plan) (r : row) : option Q :=
  match pl with Uncond p => Some p | Cond cs ps => assign_p cs ps r end.

(* ------------------------------------------------------------------------------------------------
   StochasticIPTW.fit
     _numer_ : the loop above with value np.where(A==1, prop, 1-prop)
     _denom_ = np.where(A==1, pdenom, 1-pdenom);  _ipw_ = _numer_/_denom_ [times weights];
     marginal_outcome = np.average(Y, weights=_ipw_) *)
Definition own (a : bool) (p : Q) : Q := if a then p else 1 - p.
(* the loop exactly as written: the value assigned already depends on the row's treatment *)
Definition numer_step (r : row) (cur : option Q) (cp : cond * Q) : option Q :=
  if fst cp r then Some (own (trt r) (snd cp)) else cur.
Definition numer_loop (conds : list cond) (ps : list Q) (r : row) : option Q :=
  fold_left (numer_step r) (combine conds ps) None.
Definition stoch_numer (pl : plan) (r : row) : option Q :=
  match pl with Uncond p => Some (own (trt r) p) | Cond cs ps => numer_loop cs ps r end.
Definition stoch_denom (r : row) : Q := own (trt r) (g1 r).
Definition siptw_weight (pl : plan) (r : row) : option Q :=
  match stoch_numer pl r with Some nu => Some (nu / stoch_denom r * wt r) | None => None end.
(* the clever covariate of StochasticTMLE is the same ratio without the user weight *)
Definition stmle_haw (pl : plan) (r : row) : option Q :=
  match stoch_numer pl r with Some nu => Some (nu / stoch_denom r) | None => None end.

(* total version for a per-row plan probability P (used by the theorems) *)
Definition sw (P : row -> Q) (r : row) : Q := own (trt r) (P r) / stoch_denom r * wt r.
Definition siptw_mean (P : row -> Q) (l : list row) : Q :=
  Qsum (fun r => sw P r * yval r) l / Qsum (sw P) l.
Definition is_some {A} (o : option A) : bool := match o with Some _ => true | None => false end.
Definition oget (o : option Q) : Q := match o with Some x => x | None => 0 end.
(* np.average: NaN (None) as soon as one weight is NaN *)
Definition siptw_marginal (pl : plan) (l : list row) : option Q :=
  if forallb (fun r => is_some (plan_p pl r)) l
  then Some (siptw_mean (fun r => oget (plan_p pl r)) l) else None.

(* THE SPECIFICATION: stratum-by-stratum mixture standardised over the covariate distribution *)
Definition mixture (ps : nat -> Q) (l : list row) : Q :=
  Qsum (fun s => Nw s l * (ps s * ybar s true l + (1 - ps s) * ybar s false l)) (strata l)
  / Qsum (fun s => Nw s l) (strata l).
(* the plan probability of a stratum read off its first row (plans in the runs are functions of the stratum) *)
Definition stratum_p (pl : plan) (l : list row) (s : nat) : Q :=
  match cellrows s l with r :: _ => oget (plan_p pl r) | [] => 0 end.
Definition mixture_plan (pl : plan) (l : list row) : Q := mixture (stratum_p pl l) l.

(* ------------------------------------------------------------------------------------------------
   simulating estimators: one Monte-Carlo sample = one vector of drawn treatments (parallel to the rows);
   its marginal is the (weighted) mean of the outcome predictions under the drawn treatment.
   TimeFixedGFormula.fit_stochastic: q1/q0 are the outcome model's predictions.
   StochasticTMLE.fit: q1/q0 are the targeted predictions expit(logit(Q) + epsilon), wt = 1. *)
Definition draw_marginal (l : list row) (tr : list bool) : Q :=
  Qsum (fun x => wt (fst x) * qa (snd x) (fst x)) (combine l tr) / Qsum wt l.
Definition mc_marginal (l : list row) (draws : list (list bool)) : Q :=
  Qsum (draw_marginal l) draws / Qlen draws.
(* (weighted) number of rows of stratum s drawn into arm a *)
Definition kcount (s : nat) (a : bool) (l : list row) (tr : list bool) : Q :=
  Qsum (fun x => ind (Nat.eqb (st (fst x)) s) * ind (Bool.eqb (snd x) a) * wt (fst x)) (combine l tr).
Definition counts_marginal (k : nat -> bool -> Q) (l : list row) : Q :=
  Qsum (fun s => k s true * ybar s true l + k s false * ybar s false l) (strata l) / Qsum wt l.
(* expected marginal of one sample under ANY law that treats row r with probability P r *)
Definition plan_mean (P : row -> Q) (l : list row) : Q :=
  Qsum (fun r => wt r * (P r * q1 r + (1 - P r) * q0 r)) l / Qsum wt l.
(* exact variance of one sample's marginal when rows are treated independently (StochasticTMLE) *)
Definition indep_var (P : row -> Q) (l : list row) : Q :=
  Qsum (fun r => wt r * wt r * (P r * (1 - P r)) * ((q1 r - q0 r) * (q1 r - q0 r))) l / (Qsum wt l * Qsum wt l).

(* TimeFixedGFormula.fit_stochastic selects int(p * n) rows without replacement, overall or within each
   condition (np.random.choice(index, size=int(prop*shape[0]), replace=False)) *)
Definition treated_count (p : Q) (n : nat) : Z := Qfloor (p * Qnat n).
Definition select (l : list row) (c : cond) : list row := filter c l.
Definition ntrue (tr : list bool) : nat := length (filter (fun b => b) tr).

(* ------------------------------------------------------------------------------------------------
   Monte-Carlo assignment of StochasticTMLE, per row, as a function of the Bernoulli draws made for that
   row in the successive iterations of `for c, prop in zip(conditional, p)` *)
(* AS SPECIFIED: the draw of iteration j is used only where condition j holds *)
Definition mc_spec_step (r : row) (cur : option bool) (cd : cond * bool) : option bool :=
  if fst cd r then Some (snd cd) else cur.
Definition mc_spec (conds : list cond) (ds : list bool) (r : row) : option bool :=
  fold_left (mc_spec_step r) (combine conds ds) None.
(* AS WRITTEN in StochasticTMLE.fit:   df[exposure] = np.nan
                                       for c, prop in zip(conditional, p):
                                           df[exposure] = np.random.binomial(n=1, p=prop, size=df.shape[0])
   every iteration overwrites EVERY row; the condition c is never evaluated *)
Definition mc_code_step (r : row) (cur : option bool) (cd : cond * bool) : option bool := Some (snd cd).
Definition mc_code (conds : list cond) (ds : list bool) (r : row) : option bool :=
  fold_left (mc_code_step r) (combine conds ds) None.

(* finite product law of independent Bernoulli draws: draw j is 1 with probability p_j *)
Definition bern (p : Q) : list (bool * Q) := [(true, p); (false, 1 - p)].
Fixpoint prod_law (ps : list Q) : list (list bool * Q) :=
  match ps with
  | [] => [([], 1)]
  | p :: tl => flat_map (fun bw => map (fun dw => (fst bw :: fst dw, snd bw * snd dw)) (prod_law tl)) (bern p)
  end.
Definition expect {A} (law : list (A * Q)) (f : A -> Q) : Q := Qsum (fun xw => snd xw * f (fst xw)) law.
Definition is_treated (o : option bool) : bool := match o with Some true => true | _ => false end.
(* probability that the row ends up treated *)
Definition law_treated (assign : list cond -> list bool -> row -> option bool)
           (conds : list cond) (ps : list Q) (r : row) : Q :=
  expect (prod_law ps) (fun ds => ind (is_treated (assign conds ds r))).

(* per-row treatment probability of one Monte-Carlo sample: specification and current code *)
Definition mc_spec_prob (conds : list cond) (ps : list Q) (r : row) : Q := law_treated mc_spec conds ps r.
Definition mc_code_prob (conds : list cond) (ps : list Q) (r : row) : Q := law_treated mc_code conds ps r.

(* ------------------------------------------------------------------------------------------------
   helpers for the run: conditions as the harness writes them *)
Definition c_in (codes : list nat) : cond := fun r => existsb (Nat.eqb (st r)) codes.   (* df['S'].isin(codes) *)
Definition pconst (p : Q) : row -> Q := fun _ => p.
Definition of_stratum (ps : nat -> Q) : row -> Q := fun r => ps (st r).
(* table lookup nat -> Q with default *)
Fixpoint lookup (tbl : list (nat * Q)) (d : Q) (s : nat) : Q :=
  match tbl with [] => d | (k, v) :: tl => if Nat.eqb k s then v else lookup tl d s end.

(* ------------------------------------------------------------------------------------------------
   TimeFixedGFormula.fit_stochastic realises a probability p on a group of m rows as int(p*m)/m *)
Definition realised (p : Q) (m : nat) : Q := inject_Z (treated_count p m) / Qnat m.
Definition plan_conds (pl : plan) : list cond := match pl with Uncond _ => [] | Cond cs _ => cs end.
Definition gf_pi (pl : plan) (l : list row) (r : row) : option Q :=
  match pl with
  | Uncond p => Some (realised p (length l))
  | Cond cs ps => assign_pl (map (fun cp => (fst cp, realised (snd cp) (length (select l (fst cp))))) (combine cs ps)) r
  end.
Definition gf_counts (pl : plan) (l : list row) : list Z :=
  match pl with
  | Uncond p => [treated_count p (length l)]
  | Cond cs ps => map (fun cp => treated_count (snd cp) (length (select l (fst cp)))) (combine cs ps)
  end.
Definition stratum_of (f : row -> option Q) (l : list row) (s : nat) : Q :=
  match cellrows s l with r :: _ => oget (f r) | [] => 0 end.

(* ------------------------------------------------------------------------------------------------
   canonical reports evaluated by the run (harness/props/c14.py) *)
(* per frame: strata in order of appearance, cell means, cell sizes, treat-all / treat-none standardised means *)
Definition frame_report (l : list row) :=
  (map Z.of_nat (strata l),
   Qflat (map (fun s => ybar s true l) (strata l)), Qflat (map (fun s => ybar s false l) (strata l)),
   Qflat (map (fun s => Nw s l) (strata l)),
   Qflat [std TAll true l; std TAll false l; gf_marginal TAll true l; gf_marginal TAll false l;
          iptw_mu false TAll (1#2) 1 1 true l; iptw_mu false TAll (1#2) 1 1 false l]).
(* per plan (listing order as given): hypotheses, specification, StochasticIPTW model, plan probabilities by stratum *)
Definition plan_report (pl : plan) (l : list row) :=
  (check_exclusive (plan_conds pl) l,
   match pl with Uncond _ => true | Cond cs _ => check_exhaustive cs l end,
   Qpair (mixture_plan pl l),
   Qopair (siptw_marginal pl l),
   Qoflat (map (siptw_weight pl) l),
   Qflat (map (stratum_p pl l) (strata l)),
   Qpair (indep_var (fun r => oget (plan_p pl r)) l),
   (Qpair (mixture (stratum_of (gf_pi pl l) l) l), Qflat (map (stratum_of (gf_pi pl l) l) (strata l)), gf_counts pl l)).
(* per listing order only the loop's outputs *)
Definition order_report (pl : plan) (l : list row) :=
  (Qopair (siptw_marginal pl l), Qoflat (map (siptw_weight pl) l), Qoflat (map (stmle_haw pl) l)).
(* per simulated run: marginal of the first recorded draws from the rows, and the Monte-Carlo mean from the mean
   per-stratum counts (tables stratum -> mean number of rows drawn into arm 1 / arm 0) *)
Definition sim_report (l : list row) (heads : list (list bool)) (k1 k0 : list (nat * Q)) :=
  (Qflat (map (draw_marginal l) heads),
   Qpair (counts_marginal (fun s a => if a then lookup k1 0 s else lookup k0 0 s) l)).
