(* C17 -- probability truncation (zepid.calc.utils.probability_bounds).  Definitions only. *)
From Coq Require Import QArith ZArith List Bool.
From Zepid Require Import Base.QUtil.
Import ListNotations.
Open Scope Q_scope.

(* what the caller may pass as `bounds` *)
Inductive bspec :=
| BFloat (b : Q)            (* a python float *)
| BStr                      (* a str *)
| BInt (z : Z)              (* a python int *)
| BPair (lo hi : Q)         (* a collection whose first two entries are floats *)
| BPairStr.                 (* a collection containing a str among its first two entries *)

(* decision table of the implementation: Some (lo, hi) = accepted, None = ValueError *)
Definition validate (s : bspec) : option (Q * Q) :=
  match s with
  | BFloat b => if Qlt_bool b 0 || Qlt_bool 1 b then None else Some (b, 1 - b)
  | BStr => None
  | BInt _ => None
  | BPairStr => None
  | BPair lo hi => if Qlt_bool hi lo then None
                   else if Qlt_bool lo 0 || Qlt_bool 1 hi then None else Some (lo, hi)
  end.

(* the two masked assignments, in the order the code performs them *)
Definition seq_clip1 (lo hi v : Q) : Q :=
  let v1 := if Qlt_bool v lo then lo else v in
  if Qlt_bool hi v1 then hi else v1.
Definition seq_clip (lo hi : Q) (l : list Q) : list Q := map (seq_clip1 lo hi) l.

(* specification: elementwise clip *)
Definition clip1 (lo hi v : Q) : Q := Qmaxq lo (Qminq hi v).
Definition clip (lo hi : Q) (l : list Q) : list Q := map (clip1 lo hi) l.

Definition bounded (s : bspec) (l : list Q) : option (list Q) :=
  match validate s with Some (lo, hi) => Some (seq_clip lo hi l) | None => None end.

(* weights built from a clipped probability *)
Definition inv_w (lo hi d : Q) : Q := 1 / clip1 lo hi d.
Definition inv_w0 (lo hi d : Q) : Q := 1 / (1 - clip1 lo hi d).
