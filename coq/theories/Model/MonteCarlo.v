(* C13 -- the time loop of MonteCarloGFormula.fit (zepid/causal/gformula/TimeVary.py) as an executable state
   machine.  Definitions only.

   Everything random is an INPUT: the positions `picks` that DataFrame.sample(n=sample, replace=True) drew from
   the table of baseline rows, and, per time step and per unit still simulated at that step (in frame order),
   the values np.random.binomial / np.random.normal returned inside _predict for the covariate models (in
   execution order), the exposure model, the outcome model and the censoring model.  The theorems quantify over
   all such streams, of any shape (a stream that is too short is padded with d0). *)
From Coq Require Import QArith ZArith List Bool Arith.
Import ListNotations.
Open Scope Z_scope.

(* ---------------------------------------------------------------------------------------------- columns *)
Definition var := nat.                       (* a column label *)
Definition env := list (var * Q).            (* the numeric columns of one row *)

Fixpoint get (v : var) (e : env) : Q :=
  match e with
  | [] => 0%Q
  | (k, x) :: e' => if Nat.eqb k v then x else get v e'
  end.
(* g[v] = x for one row: overwrite the column, or add it *)
Fixpoint set (v : var) (x : Q) (e : env) : env :=
  match e with
  | [] => [(v, x)]
  | (k, y) :: e' => if Nat.eqb k v then (v, x) :: e' else (k, y) :: set v x e'
  end.
Definition b2q (b : bool) : Q := if b then 1%Q else 0%Q.

(* one row of the frame `g` *)
Record unit := mkUnit {
  uid : Z;        (* uid_g_zepid : 0 .. sample-1 *)
  oid : Z;        (* idvar of the sampled individual *)
  tin : Z;        (* time_in *)
  tout : Z;       (* time_out *)
  outc : bool;    (* outcome *)
  unc : bool;     (* 'uncensored' *)
  uenv : env      (* exposure, covariates, lagged variables, baseline covariates *)
}.

(* what one Monte-Carlo step appends for one row: the row as stacked (after the lag update), and the columns as
   they stood when the step's models had been applied and out_recode ran (before the lag update) *)
Record record := mkRec { r_unit : unit; r_seen : env }.
Definition ruid (r : record) := uid (r_unit r).
Definition rtin (r : record) := tin (r_unit r).
Definition rtout (r : record) := tout (r_unit r).
Definition routc (r : record) := outc (r_unit r).
Definition runc (r : record) := unc (r_unit r).

(* ---------------------------------------------------------------------------------------------- generic *)
(* stable insertion sort: `a` goes before the first element it is <= to *)
Fixpoint insert {A} (leb : A -> A -> bool) (a : A) (l : list A) : list A :=
  match l with
  | [] => [a]
  | y :: l' => if leb a y then a :: l else y :: insert leb a l'
  end.
Definition isort {A} (leb : A -> A -> bool) (l : list A) : list A := fold_right (insert leb) [] l.

(* apply f to every row with the draw at the same position; missing draws are d0 *)
Fixpoint map_draw {A B D} (d0 : D) (f : A -> D -> B) (us : list A) (ds : list D) : list B :=
  match us with
  | [] => []
  | u :: us' => match ds with
                | [] => f u d0 :: map_draw d0 f us' []
                | d :: ds' => f u d :: map_draw d0 f us' ds'
                end
  end.

(* ---------------------------------------------------------------------------------------------- inputs *)
(* a row of the long-format input *)
Record lrow := mkL { l_id : Z; l_tin : Z; l_tout : Z; l_env : env }.
Definition row0 : lrow := mkL 0 0 0 [].

(* __init__: sort_values(by=[idvar, time_out]);  fit: rows with groupby(idvar).cumcount() == 0 *)
Definition lrow_leb (a b : lrow) : bool :=
  (l_id a <? l_id b) || ((l_id a =? l_id b) && (l_tout a <=? l_tout b)).
Fixpoint firsts (prev : option Z) (l : list lrow) : list lrow :=
  match l with
  | [] => []
  | r :: l' => match prev with
               | Some p => if p =? l_id r then firsts prev l' else r :: firsts (Some (l_id r)) l'
               | None => r :: firsts (Some (l_id r)) l'
               end
  end.
Definition baseline (long : list lrow) : list lrow := firsts None (isort lrow_leb long).

(* the draws of one step for one row *)
Record udraw := mkDraw {
  d_cov : list Q;   (* covariate models, in execution order *)
  d_exp : bool;     (* exposure model (natural course); unused under 'all' / 'none' *)
  d_out : bool;     (* outcome model *)
  d_cens : bool     (* censoring model: the simulated 'uncensored' indicator; unused without censoring model *)
}.
Definition d0 : udraw := mkDraw [] false false false.

Inductive plan :=
| PAll | PNone | PNatural
| PCustom (rule : Z -> env -> bool).    (* eval(treatment) row by row: time_in and the columns *)

Record cfg := mkCfg {
  c_plan : plan;
  c_expo : var;                   (* exposure column *)
  c_covs : list (Z * var);        (* add_covariate_model calls, in call order: (label, covariate) *)
  c_lags : list (var * var);      (* lags dict in iteration order: source -> lagged variable *)
  c_cens : bool;                  (* censoring_model was specified *)
  c_tmax : nat                    (* int(t_max) *)
}.

(* cov_model_order = sorted(range(n), key=labels.__getitem__)  (stable) *)
Definition cov_order (c : cfg) : list var :=
  map snd (isort (fun a b : Z * var => fst a <=? fst b) (c_covs c)).

(* ---------------------------------------------------------------------------------------------- one step *)
Fixpoint set_covs (cs : list var) (ds : list Q) (e : env) : env :=
  match cs with
  | [] => e
  | v :: cs' => match ds with
                | [] => set_covs cs' [] (set v 0%Q e)
                | d :: ds' => set_covs cs' ds' (set v d e)
                end
  end.

Definition apply_plan (p : plan) (a : var) (i : Z) (d : bool) (e : env) : env :=
  match p with
  | PAll => set a 1%Q e
  | PNone => set a 0%Q e
  | PNatural => set a (b2q d) e
  | PCustom rule => let e1 := set a (b2q d) e in set a (b2q (rule i e1)) e1
  end.

(* for k, v in lags.items(): g[v] = g[k]   -- sequential *)
Definition shift (lags : list (var * var)) (e : env) : env :=
  fold_left (fun e' kv => set (snd kv) (get (fst kv) e') e') lags e.

Definition is_last (c : cfg) (i : Z) : bool := i =? Z.of_nat (c_tmax c) - 1.

Definition step1 (c : cfg) (i : Z) (u : unit) (d : udraw) : record :=
  let e1 := set_covs (cov_order c) (d_cov d) (uenv u) in             (* predict time-varying covariates *)
  let e2 := apply_plan (c_plan c) (c_expo c) i (d_exp d) e1 in        (* predict exposure / apply plan   *)
  let y1 := d_out d in                                               (* predict outcome; time_out = i+1 *)
  let un1 := if c_cens c then d_cens d else unc u in                 (* predict censoring               *)
  let y2 := if c_cens c then (if un1 then y1 else false) else y1 in
  let un2 := if is_last c i then false else un1 in                   (* last iteration: everyone censored *)
  mkRec (mkUnit (uid u) (oid u) i (i + 1) y2 un2 (shift (c_lags c) e2)) e2.

(* g.loc[(g[outcome] == 0) & (g['uncensored'] == 1)] *)
Definition at_risk (u : unit) : bool := negb (outc u) && unc u.
(* (g[outcome] > 0) | (g['uncensored'] == 0) *)
Definition terminal (u : unit) : bool := outc u || negb (unc u).
Definition rterminal (r : record) : bool := terminal (r_unit r).

(* ---------------------------------------------------------------------------------------------- the loop *)
(* for i in range(int(t_max)): ... ; returns, per step, the frame g at the end of the step *)
Fixpoint loop (c : cfg) (fuel : nat) (i : Z) (pop : list unit) (draws : list (list udraw)) : list (list record) :=
  match fuel with
  | O => []
  | S f =>
      let g := filter at_risk pop in
      let recs := map_draw d0 (step1 c i) g (hd [] draws) in
      recs :: loop c f (i + 1) (map r_unit recs) (tl draws)
  end.

Definition steps (c : cfg) (pop : list unit) (draws : list (list udraw)) : list (list record) :=
  loop c (c_tmax c) 0 pop draws.

(* mc_simulated_data: everything, or (low_memory) only rows that failed or were censored in the step *)
Definition stacked (lm : bool) (c : cfg) (pop : list unit) (draws : list (list udraw)) : list record :=
  concat (map (fun recs => if lm then filter rterminal recs else recs) (steps c pop draws)).

(* sort_values(by=['uid_g_zepid', time_in]) *)
Definition rec_leb (a b : record) : bool :=
  (ruid a <? ruid b) || ((ruid a =? ruid b) && (rtin a <=? rtin b)).
Definition output (lm : bool) (c : cfg) (pop : list unit) (draws : list (list udraw)) : list record :=
  isort rec_leb (stacked lm c pop draws).

(* gs = first rows .sample(n=sample, replace=True); uid_g_zepid = 0..sample-1; outcome = 0; uncensored = 1 *)
Definition init_unit (base : list lrow) (picks : list nat) (u : nat) : unit :=
  let b := nth (nth u picks O) base row0 in
  mkUnit (Z.of_nat u) (l_id b) (l_tin b) (l_tout b) false true (l_env b).
Definition init_pop (sample : nat) (picks : list nat) (base : list lrow) : list unit :=
  map (init_unit base picks) (seq 0 sample).

Definition run (lm : bool) (c : cfg) (sample : nat) (picks : list nat) (long : list lrow)
               (draws : list (list udraw)) : list record :=
  output lm c (init_pop sample picks (baseline long)) draws.

(* ---------------------------------------------------------------------------------------------- vocabulary of the specification *)
Definition has_uid (x : Z) (r : record) : bool := ruid r =? x.
Definition history (x : Z) (out : list record) : list record := filter (has_uid x) out.
Definition zseq (k : nat) : list Z := map Z.of_nat (seq 0 k).
(* the last record of every history, unit by unit *)
Definition last_of (l : list record) : list record := match rev l with [] => [] | r :: _ => [r] end.
Definition lasts (sample : nat) (out : list record) : list record :=
  flat_map (fun u => last_of (history (Z.of_nat u) out)) (seq 0 sample).
(* the exposure column of the stacked row *)
Definition rexpo (c : cfg) (r : record) : Q := get (c_expo c) (uenv (r_unit r)).

(* the sequential lag assignments mean "every lagged variable := its source" when no source has been
   overwritten by an earlier assignment and no lagged variable is assigned twice *)
Fixpoint lags_ok (done : list var) (lags : list (var * var)) : Prop :=
  match lags with
  | [] => True
  | (k, v) :: rest => ~ In k done /\ ~ In v (map snd rest) /\ lags_ok (v :: done) rest
  end.
Fixpoint lags_okb (done : list var) (lags : list (var * var)) : bool :=
  match lags with
  | [] => true
  | (k, v) :: rest => negb (existsb (Nat.eqb k) done) && negb (existsb (Nat.eqb v) (map snd rest))
                      && lags_okb (v :: done) rest
  end.

(* ---------------------------------------------------------------------------------------------- custom rules used by the run *)
Inductive rexp :=
| RTrue | RFalse
| REq (v : var) (q : Q)          (* g[v] == q *)
| RGe (v : var) (q : Q)          (* g[v] >= q *)
| RTimeGe (z : Z)                (* g[time_in] >= z *)
| RAnd (a b : rexp) | ROr (a b : rexp) | RNot (a : rexp).
Fixpoint reval (x : rexp) (i : Z) (e : env) : bool :=
  match x with
  | RTrue => true | RFalse => false
  | REq v q => Qeq_bool (get v e) q
  | RGe v q => Qle_bool q (get v e)
  | RTimeGe z => z <=? i
  | RAnd a b => reval a i e && reval b i e
  | ROr a b => reval a i e || reval b i e
  | RNot a => negb (reval a i e)
  end.

(* ---------------------------------------------------------------------------------------------- printing *)
Definition Qp (q : Q) : list Z := let r := Qred q in [Qnum r; Zpos (Qden r)].
Definition zb (b : bool) : Z := if b then 1 else 0.
(* (uid, id, time_in, time_out, outcome, uncensored, stacked columns, columns seen in the step) *)
Definition print_rec (vars : list var) (r : record) :=
  (ruid r, oid (r_unit r), rtin r, rtout r, zb (routc r), zb (runc r),
   map (fun v => Qp (get v (uenv (r_unit r)))) vars, map (fun v => Qp (get v (r_seen r))) vars).
Definition print_recs (vars : list var) (l : list record) := map (print_rec vars) l.
Definition print_base (vars : list var) (l : list lrow) :=
  map (fun b => (l_id b, l_tin b, l_tout b, map (fun v => Qp (get v (l_env b))) vars)) l.

(* ---------------------------------------------------------------------------------------------- boolean specification
   evaluated by the run on what the IMPLEMENTATION produced (the rows recorded at out_recode, every step) *)
Definition Zin (x : Z) (l : list Z) : bool := existsb (Z.eqb x) l.
Fixpoint zlist_eqb (a b : list Z) : bool :=
  match a, b with
  | [], [] => true
  | x :: a', y :: b' => (x =? y) && zlist_eqb a' b'
  | _, _ => false
  end.
Fixpoint all_but_last_nonterminal (l : list record) : bool :=
  match l with
  | [] => true
  | [r] => rterminal r
  | r :: l' => negb (rterminal r) && all_but_last_nonterminal l'
  end.
Definition spec_history (tmax : nat) (h : list record) : bool :=
  zlist_eqb (map rtin h) (zseq (length h)) && (1 <=? length h)%nat && (length h <=? tmax)%nat
  && forallb (fun r => rtout r =? rtin r + 1) h
  && (length (filter routc h) <=? 1)%nat
  && all_but_last_nonterminal h.
Definition spec_plan (c : cfg) (r : record) : bool :=
  let a := get (c_expo c) (r_seen r) in
  match c_plan c with
  | PAll => Qeq_bool a 1
  | PNone => Qeq_bool a 0
  | PNatural => Qeq_bool a 0 || Qeq_bool a 1
  | PCustom rule =>      (* the rule was evaluated with the natural-course draw d in the exposure column *)
      existsb (fun d => Qeq_bool a (b2q (rule (rtin r) (set (c_expo c) (b2q d) (r_seen r))))) [false; true]
  end.
Fixpoint spec_lags_hist (lags : list (var * var)) (prev : env) (h : list record) : bool :=
  match h with
  | [] => true
  | r :: h' => forallb (fun kv : var * var => Qeq_bool (get (snd kv) (r_seen r)) (get (fst kv) prev)) lags
               && spec_lags_hist lags (r_seen r) h'
  end.
(* first interval: the lagged variables hold the baseline row's values *)
Definition spec_lags_first (lags : list (var * var)) (b : env) (h : list record) : bool :=
  match h with
  | [] => true
  | r :: h' => forallb (fun kv : var * var => Qeq_bool (get (snd kv) (r_seen r)) (get (snd kv) b)) lags
               && spec_lags_hist lags (r_seen r) h'
  end.
(* trace: rows as recorded (r_unit carries the seen columns too); sorted by (uid, time_in) by the harness *)
Definition spec_trace (c : cfg) (sample : nat) (picks : list nat) (base : list lrow) (trace : list record)
  : list bool :=
  let us := seq 0 sample in
  [ forallb (fun r => (0 <=? ruid r) && (ruid r <? Z.of_nat sample)) trace;
    forallb (fun u => spec_history (c_tmax c) (history (Z.of_nat u) trace)) us;
    forallb (spec_plan c) trace;
    forallb (fun u => spec_lags_first (c_lags c) (l_env (nth (nth u picks O) base row0))
                        (history (Z.of_nat u) trace)) us;
    forallb (fun u => forallb (fun r => oid (r_unit r) =? l_id (nth (nth u picks O) base row0))
                        (history (Z.of_nat u) trace)) us ].
