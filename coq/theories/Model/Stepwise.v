(* C20 -- StepwiseSL.fit (zepid/superlearner/estimators.py): AIC-driven backward / forward search.
   Definitions only.  Columns of the expanded design Xu are positions 0..p-1; a model is the list of its
   columns in the order the code holds them (the intercept is always present).  `aic` is the oracle for
   sm.GLM(y, [1, Xu[:, cols]], family).fit().aic ; None = NaN. *)
From Coq Require Import QArith List Bool Arith.
From Zepid Require Import Base.QUtil.
Import ListNotations.

Section Stepwise.
  Variable aic : list nat -> option Q.

  (* the running minimum of one sweep: None = (None, +inf); a candidate replaces it iff its AIC is a number
     strictly below the best so far (NaN < x is False; the first of equal minima is kept) *)
  Definition sweep_step (best : option (list nat * Q)) (alt : list nat) : option (list nat * Q) :=
    match aic alt with
    | None => best
    | Some a => match best with
                | None => Some (alt, a)
                | Some (_, b) => if Qlt_bool a b then Some (alt, a) else best
                end
    end.
  Definition sweep (alts : list (list nat)) : option (list nat * Q) := fold_left sweep_step alts None.

  (* itertools.combinations(best_cols, len(best_cols) - 1): omit the last column first, ..., the first last *)
  Fixpoint remove_nth (i : nat) (l : list nat) : list nat :=
    match l, i with
    | [], _ => []
    | _ :: t, O => t
    | x :: t, S i' => x :: remove_nth i' t
    end.
  Definition deletions (cols : list nat) : list (list nat) :=
    map (fun i => remove_nth i cols) (rev (seq 0 (length cols))).
  (* for var in vars_to_select: alt = best_cols + (var,) *)
  Definition additions (cols vars : list nat) : list (list nat) := map (fun v => cols ++ [v]) vars.
  Definition remove_var (v : nat) (vars : list nat) : list nat := filter (fun x => negb (x =? v)%nat) vars.

  (* while best_aic >= best_alt_aic: accept the alternative; stop at the intercept-only model.
     Some (cols, aic) = returned model ; None = fuel exhausted *)
  Fixpoint backward_loop (fuel : nat) (cur : list nat) (cur_aic : Q) : option (list nat * Q) :=
    match fuel with
    | O => None
    | S f =>
        match cur with
        | [] => Some (cur, cur_aic)
        | _ => match sweep (deletions cur) with
               | Some (alt, a) => if Qle_bool a cur_aic then backward_loop f alt a else Some (cur, cur_aic)
               | None => Some (cur, cur_aic)
               end
        end
    end.

  Fixpoint forward_loop (fuel : nat) (cur vars : list nat) (cur_aic : Q) : option (list nat * Q) :=
    match fuel with
    | O => None
    | S f =>
        match vars with
        | [] => Some (cur, cur_aic)
        | _ => match sweep (additions cur vars) with
               | Some (alt, a) =>
                   if Qle_bool a cur_aic then forward_loop f alt (remove_var (last alt O) vars) a
                   else Some (cur, cur_aic)
               | None => Some (cur, cur_aic)
               end
        end
    end.

  Inductive step_result :=
  | StepValueError                         (* backward: the full model's AIC is NaN *)
  | StepCrash                              (* forward: NaN AIC of the null model leaves best_model unbound *)
  | StepFuel                               (* never happens (theorem) *)
  | StepOk (cols : list nat) (a : Q).

  Definition backward (p : nat) : step_result :=
    match aic (seq 0 p) with
    | None => StepValueError
    | Some a0 => match backward_loop (S p) (seq 0 p) a0 with Some (c, a) => StepOk c a | None => StepFuel end
    end.
  Definition forward (p : nat) : step_result :=
    match aic [] with
    | None => StepCrash
    | Some a0 => match forward_loop (S p) [] (seq 0 p) a0 with Some (c, a) => StepOk c a | None => StepFuel end
    end.
  Definition stepwise (fwd : bool) (p : nat) : step_result := if fwd then forward p else backward p.
End Stepwise.

(* table-driven oracle for the correspondence run: AICs recomputed by statsmodels, keyed by the sorted column set *)
Fixpoint nlist_eqb (a b : list nat) : bool :=
  match a, b with
  | [], [] => true
  | x :: a', y :: b' => (x =? y)%nat && nlist_eqb a' b'
  | _, _ => false
  end.
Fixpoint insert_sorted (x : nat) (l : list nat) : list nat :=
  match l with [] => [x] | y :: t => if (x <=? y)%nat then x :: l else y :: insert_sorted x t end.
Definition sort_cols (l : list nat) : list nat := fold_right insert_sorted [] l.
Fixpoint lookup_aic (tbl : list (list nat * option Q)) (key : list nat) : option (option Q) :=
  match tbl with
  | [] => None
  | (k, v) :: t => if nlist_eqb k key then Some v else lookup_aic t key
  end.
(* a model outside the table is reported as AIC -1000000000 so that the search would pick it and the
   correspondence fail loudly rather than silently skip it *)
Definition aic_tbl (tbl : list (list nat * option Q)) (cols : list nat) : option Q :=
  match lookup_aic tbl (sort_cols cols) with Some v => v | None => Some (-(1000000000 # 1)) end.

(* the property's two claims as executable checks on a returned column list (evaluated on the implementation's
   cols_optim with the recomputed table; tol absorbs float rounding of the recomputation) *)
Definition step_not_worse_b (aic : list nat -> option Q) (fwd : bool) (p : nat) (tol : Q) (cols : list nat) : bool :=
  match aic cols, aic (if fwd then [] else seq 0 p) with
  | Some a, Some a0 => Qle_bool (a - tol) a0
  | _, _ => false
  end.
Definition step_alternatives (fwd : bool) (p : nat) (cols : list nat) : list (list nat) :=
  if fwd then additions cols (filter (fun v => negb (existsb (Nat.eqb v) cols)) (seq 0 p)) else deletions cols.
Definition step_local_min_b (aic : list nat -> option Q) (fwd : bool) (p : nat) (tol : Q) (cols : list nat) : bool :=
  match aic cols with
  | Some a => forallb (fun alt => match aic alt with Some b => Qle_bool (a - tol) b | None => true end)
                      (step_alternatives fwd p cols)
  | None => false
  end.

(* number of columns of _all_order_interactions_(X, order) for X with p columns: sum_{j=1..order+1} C(p, j) *)
Fixpoint choose (n k : nat) : nat :=
  match k, n with
  | O, _ => 1
  | S _, O => 0
  | S k', S n' => choose n' k' + choose n' k
  end.
Definition n_columns (p order : nat) : nat := fold_right plus 0%nat (map (fun j => choose p (S j)) (seq 0 (S order))).

Definition print_step (r : step_result) : Z * list Z * list Z :=
  match r with
  | StepValueError => (1%Z, [], [])
  | StepCrash => (2%Z, [], [])
  | StepFuel => (3%Z, [], [])
  | StepOk cols a => (0%Z, map Z.of_nat cols, Qpair a)
  end.
