(* C06 -- variance estimators: influence-curve variance (AIPTW, TMLE, StochasticTMLE), the closed form of the
   weight-robust sandwich of the IPTW marginal structural model saturated in A, cross-fit pooling.
   Definitions only. *)
From Coq Require Import QArith List Bool.
From Zepid Require Import Base.QSum Base.QUtil Base.QAgg Base.Rows Model.Estimators.
From Zepid Require Export Base.QAgg.
Import ListNotations.
Open Scope Q_scope.

(* nan-variance with ddof = 1 of the available influence values, over the number of ALL rows n *)
Definition keep_some (v : list (option Q)) : list Q :=
  flat_map (fun x => match x with Some q => [q] | None => [] end) v.
Definition ic_var (v : list (option Q)) (n : Q) : Q := var_ddof1 (map Qred (keep_some v)) / n.

(* AIPTW influence values (rows with a missing outcome give no value) *)
Definition aipw_ic_rd (est : Q) (r : row) : option Q :=
  if obs r then Some (aipw_y1 r - aipw_y0 r - est) else None.
Definition aipw_ic_rr (mq1 mq0 : Q) (r : row) : option Q :=
  if obs r then
    let a := ind (trt r) in let py := a * q1 r + (1 - a) * q0 r in
    Some (a * (yval r - py) / (mq1 * pa1 r) + (q1 r - mq1) - (1 - a) * (yval r - py) / (mq0 * pa0 r) + (q0 r - mq0))
  else None.
Definition aipw_var_rd (l : list row) : Q := ic_var (map (aipw_ic_rd (Qred (aipw_rd l))) l) (Qlen l).
Definition aipw_var_lnrr (l : list row) : Q :=
  ic_var (map (aipw_ic_rr (Qred (Qmean q1 l)) (Qred (Qmean q0 l))) l) (Qlen l).

(* TMLE influence values; rows' q1/q0 are the targeted predictions, qs the targeted prediction at the observed A *)
Definition qs (r : row) : Q := if trt r then q1 r else q0 r.
Definition h1 (r : row) : Q := ind (trt r) / pa1 r.
Definition h0 (r : row) : Q := - (1 - ind (trt r)) / pa0 r.
Definition tmle_ic_rd (psi : Q) (r : row) : option Q :=
  Some (if obs r then (h1 r + h0 r) * (yval r - qs r) + (q1 r - q0 r) - psi else (q1 r - q0 r) - psi).
Definition tmle_ic_rr (mq1 mq0 : Q) (r : row) : option Q :=
  Some (if obs r then 1 / mq1 * (h1 r * (yval r - qs r) + q1 r - mq1) - 1 / mq0 * (- h0 r * (yval r - qs r) + q0 r - mq0)
        else (q1 r - mq1) / mq1 - (q0 r - mq0) / mq0).
Definition tmle_ic_or (mq1 mq0 : Q) (r : row) : option Q :=
  Some (if obs r then 1 / (mq1 * (1 - mq1)) * (h1 r * (yval r - qs r) + q1 r) - 1 / (mq0 * (1 - mq0)) * (- h0 r * (yval r - qs r) + q0 r)
        else 1 / (mq1 * (1 - mq1)) * q1 r - 1 / (mq0 * (1 - mq0)) * q0 r).
Definition tmle_var_rd (l : list row) : Q := ic_var (map (tmle_ic_rd (Qred (tmle_rd l))) l) (Qlen l).
Definition tmle_var_lnrr (l : list row) : Q := ic_var (map (tmle_ic_rr (Qred (tmle_mean true l)) (Qred (tmle_mean false l))) l) (Qlen l).
Definition tmle_var_lnor (l : list row) : Q := ic_var (map (tmle_ic_or (Qred (tmle_mean true l)) (Qred (tmle_mean false l))) l) (Qlen l).

(* cross-fit AIPTW (difference measures): the variance of one partition is the MEAN over its parts of the within-part sample
   variance (ddof 1) of the influence values y1 - y0 - estimate, over the number of rows n (aipw_calculator with `splits`);
   a part is the list of its rows' pseudo-outcome pairs (y1, y0) *)
Definition xf_part_var (est : Q) (part : list (Q * Q)) : Q := var_ddof1 (map (fun p => fst p - snd p - est) part).
Definition xf_aipw_var (est : Q) (parts : list (list (Q * Q))) (n : Q) : Q := meanq (map (xf_part_var est) parts) / n.

(* cross-fit TMLE (crossfit.tmle_calculator): a row as the function receives it -- outcome, targeted predictions under A=1 / A=0 /
   the observed A, the clever covariates H1, H0 and HA = H1 + H0 (crossfit.targeting_step).  The influence values are the
   expressions of TMLE.fit (tmle_ic_* above, see VarianceProofs / GenProofs_xftmle.xf_ic_is_tmle_ic) with the means of the PART;
   the variance of one partition is the mean over its parts of the within-part sample variance (ddof 1), over n. *)
Record xrow := { x_y : Q; x_q1 : Q; x_q0 : Q; x_qa : Q; x_h1 : Q; x_h0 : Q; x_ha : Q }.
Definition xf_ic_rd (est : Q) (r : xrow) : Q := x_ha r * (x_y r - x_qa r) + (x_q1 r - x_q0 r) - est.
Definition xf_ic_rr (m1 m0 : Q) (r : xrow) : Q :=
  1 / m1 * (x_h1 r * (x_y r - x_qa r) + x_q1 r - m1) - 1 / m0 * (- x_h0 r * (x_y r - x_qa r) + x_q0 r - m0).
Definition xf_ic_or (m1 m0 : Q) (r : xrow) : Q :=
  1 / (m1 * (1 - m1)) * (x_h1 r * (x_y r - x_qa r) + x_q1 r) - 1 / (m0 * (1 - m0)) * (- x_h0 r * (x_y r - x_qa r) + x_q0 r).
Definition xf_over_parts (pv : list xrow -> Q) (parts : list (list xrow)) (n : Q) : Q := meanq (map pv parts) / n.
Definition xf_tmle_var_rd (est : Q) := xf_over_parts (fun p => var_ddof1 (map (xf_ic_rd est) p)).
Definition xf_tmle_var_rr := xf_over_parts (fun p => var_ddof1 (map (xf_ic_rr (meanq (map x_q1 p)) (meanq (map x_q0 p))) p)).
Definition xf_tmle_var_or := xf_over_parts (fun p => var_ddof1 (map (xf_ic_or (meanq (map x_q1 p)) (meanq (map x_q0 p))) p)).
(* what crossfit.tmle_calculator computes for the risk ratio INSTEAD: the centred prediction q_a - mean is not divided by the
   mean (a misplaced parenthesis; recorded finding, the value is pinned by the repository's own tests) *)
Definition xf_ic_rr_code (m1 m0 : Q) (r : xrow) : Q :=
  1 / m1 * (x_h1 r * (x_y r - x_qa r)) + x_q1 r - m1 - (1 / m0 * (- x_h0 r * (x_y r - x_qa r)) + x_q0 r - m0).
Definition xf_tmle_var_rr_code := xf_over_parts (fun p => var_ddof1 (map (xf_ic_rr_code (meanq (map x_q1 p)) (meanq (map x_q0 p))) p)).
(* point estimates *)
Definition xf_tmle_est_rd (all : list xrow) : Q := meanq (map (fun r => x_q1 r - x_q0 r) all).
Definition xf_tmle_est_rr (all : list xrow) : Q := meanq (map x_q1 all) / meanq (map x_q0 all).
Definition xf_tmle_est_or (all : list xrow) : Q :=
  (meanq (map x_q1 all) / (1 - meanq (map x_q1 all))) / (meanq (map x_q0 all) / (1 - meanq (map x_q0 all))).

(* StochasticTMLE: mean of squared influence values over n (no ddof correction), per the cited estimator *)
Definition mean_sq (v : list Q) : Q := Qsum (fun x => x * x) v / Qlen v.
Definition stmle_var (v : list Q) : Q := mean_sq v / Qlen v.

(* a row as StochasticTMLE's variance estimators see it: clever covariate, outcome, initial prediction at the observed
   treatment, mean over the Monte-Carlo replicates of the targeted prediction under the plan *)
Record zrow := { z_h : Q; z_y : Q; z_q : Q; z_qs : Q }.
Definition stmle_ic (psi : Q) (r : zrow) : Q := z_h r * (z_y r - z_q r) + z_qs r - psi.
Definition stmle_ic_cond (r : zrow) : Q := z_h r * (z_y r - z_q r).

(* weight-robust (independence working correlation, one cluster per row) sandwich of the MSM saturated in A *)
Definition sw_num (W : row -> Q) (mu : Q) (a : bool) (l : list row) : Q :=
  Qsum (fun r => ind (arm a r) * ind (obs r) * (W r * W r) * ((yval r - mu) * (yval r - mu))) l.
Definition sw_var_mu (W : row -> Q) (a : bool) (l : list row) : Q :=
  let mu := arm_mean W a l in sw_num W mu a l / (arm_den W a l * arm_den W a l).
Definition sw_var_rd (W : row -> Q) (l : list row) : Q := sw_var_mu W true l + sw_var_mu W false l.
Definition sw_var_lnrr (W : row -> Q) (l : list row) : Q :=
  let m1 := arm_mean W true l in let m0 := arm_mean W false l in
  sw_var_mu W true l / (m1 * m1) + sw_var_mu W false l / (m0 * m0).
Definition sw_var_lnor (W : row -> Q) (l : list row) : Q :=
  let m1 := arm_mean W true l in let m0 := arm_mean W false l in
  sw_var_mu W true l / ((m1 * (1 - m1)) * (m1 * (1 - m1))) + sw_var_mu W false l / ((m0 * (1 - m0)) * (m0 * (1 - m0))).

(* cross-fit pooling over partitions (zepid.causal.doublyrobust.crossfit.calculate_joint_estimate) *)
(* insertq / sortq / median / meanq: Base.QAgg *)
Definition pool (use_median : bool) (pts vars : list Q) : Q * Q :=
  let c := if use_median then median pts else meanq pts in
  let v := map (fun pv => snd pv + (fst pv - c) * (fst pv - c)) (combine pts vars) in
  (c, if use_median then median v else meanq v).
