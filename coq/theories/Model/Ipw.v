(* C05 -- executable models of the inverse-probability-weight glue of zepid.causal.ipw.  Definitions only.
   Every fitted logistic model is an ORACLE: its predictions enter as data (exact rationals of the floats the
   implementation used).  What is modelled is everything the code does around the fits. *)
From Coq Require Import QArith ZArith List Bool.
From Zepid Require Import Base.QSum Base.QUtil Model.Bounds Spec.WeightSpec.
From ZepidGen Require Import Gen_weights_Q.
Import ListNotations.
Open Scope Q_scope.

(* products over lists (QSum's multiplicative sibling) *)
Fixpoint Qprod {A} (f : A -> Q) (l : list A) : Q :=
  match l with [] => 1 | x :: xs => f x * Qprod f xs end.

(* ------------------------------------------------------------------------------------------------ IPTW *)
(* iptw_calculator: the if/elif dispatch is modelled by hand, the six leaves are the TRANSLATED expressions *)
Definition iptw_code (stab : bool) (t : target) (a : bool) (d n : Q) : list (option Q) :=
  if stab then
    match t with
    | Population => iptw_stab_population_Q a d n
    | Exposed => iptw_stab_exposed_Q a d n
    | Unexposed => iptw_stab_unexposed_Q a d n
    end
  else
    match t with
    | Population => iptw_unstab_population_Q a d
    | Exposed => iptw_unstab_exposed_Q a d
    | Unexposed => iptw_unstab_unexposed_Q a d
    end.

Definition iptw_weight (stab : bool) (t : target) (a : bool) (d n : Q) : option Q :=
  match iptw_code stab t a d n with [Some x] => Some x | _ => None end.

(* `bound`: both probability vectors go through probability_bounds (Model.Bounds.seq_clip1) first *)
Definition bound1 (b : option (Q * Q)) (v : Q) : Q :=
  match b with Some (lo, hi) => seq_clip1 lo hi v | None => v end.

(* one row: (treatment received, raw denominator prediction, raw numerator prediction) -> (d used, n used, weight) *)
Definition iptw_row (stab : bool) (t : target) (b : option (Q * Q)) (r : bool * Q * Q) : Q * Q * option Q :=
  let '(a, d, n) := r in
  let d' := bound1 b d in let n' := bound1 b n in
  (d', n', iptw_weight stab t a d' n').
Definition iptw_rows stab t b (rows : list (bool * Q * Q)) := map (iptw_row stab t b) rows.

(* IPTW.missing_model: n/d where the outcome is observed, NaN otherwise; only d is bounded *)
Definition iptw_missing_row (stab : bool) (b : option (Q * Q)) (r : bool * Q * Q) : option Q :=
  let '(observed, d, n) := r in
  if observed then Some ((if stab then n else 1) / bound1 b d) else None.

(* ------------------------------------------------------------------------------------- StochasticIPTW *)
(* conditional plan: `_numer_` starts as NaN; for each (condition, p) in the order given, rows where the
   condition holds are OVERWRITTEN with p (treated) or 1-p (untreated); other rows keep their value.
   A row carries the truth value of every condition on it. *)
Definition stoch_step (a : bool) (cur : option Q) (cp : bool * Q) : option Q :=
  if fst cp then Some (if a then snd cp else 1 - snd cp) else cur.
Definition stoch_numer_cond (a : bool) (conds : list (bool * Q)) : option Q :=
  fold_left (stoch_step a) conds None.

Inductive plan :=
| Marginal (p : Q)                       (* conditional=None: np.where(A==1, p, 1-p) *)
| Conditional (conds : list (bool * Q)). (* per row: (does condition j hold on this row, p_j) *)

Definition stoch_numer (a : bool) (pl : plan) : option Q :=
  match pl with
  | Marginal p => Some (if a then p else 1 - p)
  | Conditional cs => stoch_numer_cond a cs
  end.

(* the last condition that holds on the row (None when none does) *)
Fixpoint last_match (conds : list (bool * Q)) : option Q :=
  match conds with
  | [] => None
  | (c, p) :: tl => match last_match tl with Some q => Some q | None => if c then Some p else None end
  end.

Record srow := { s_a : bool; s_y : Q; s_pd : Q; s_w : Q; s_plan : plan }.

Definition stoch_denom (r : srow) : Q := if s_a r then s_pd r else 1 - s_pd r.
(* weight of a row (None = NaN); s_w = 1 when no `weights` column is given *)
Definition stoch_weight (r : srow) : option Q :=
  match stoch_numer (s_a r) (s_plan r) with
  | Some nu => Some (nu / stoch_denom r * s_w r)
  | None => None
  end.

Fixpoint all_some {A} (l : list (option A)) : option (list A) :=
  match l with
  | [] => Some []
  | None :: _ => None
  | Some x :: tl => match all_some tl with Some r => Some (x :: r) | None => None end
  end.

(* np.average(y, weights=w): NaN as soon as one weight is NaN *)
Definition stoch_marginal (rows : list srow) : option Q :=
  match all_some (map stoch_weight rows) with
  | Some ws => Some (Qsum (fun p => fst p * snd p) (combine ws (map s_y rows)) / Qsum (fun w => w) ws)
  | None => None
  end.

(* ------------------------------------------------------------------------------------------------ IPMW *)
(* a row: stratum code (only read by the telescoping theorem), observed-flag per missing variable (in the order
   the user lists them), and the oracle predictions on THIS row of the denominator / numerator model of each
   variable (entry k is ignored when variable k is not fitted) *)
Record mrow := { m_s : nat; m_obs : list bool; m_den : list Q; m_num : list Q }.

Definition obs (k : nat) (r : mrow) : bool := nth k (m_obs r) false.
Definition den_at (k : nat) (r : mrow) : Q := nth k (m_den r) 1.
Definition num_at (k : nat) (r : mrow) : Q := nth k (m_num r) 1.

(* _check_uniform(miss1 = j, miss2 = k): prod(notnull j, notnull k) equals notnull j on every row *)
Definition uniform_pair (rows : list mrow) (j k : nat) : bool :=
  forallb (fun r => Bool.eqb (obs j r && obs k r) (obs j r)) rows.
(* _check_overall_uniform: prod over all variables equals notnull of the first *)
Definition overall_uniform (rows : list mrow) (K : nat) : bool :=
  forallb (fun r => Bool.eqb (forallb (fun k => obs k r) (seq 0 K)) (obs 0 r)) rows.
(* monotone (what _check_monotone is meant to accept): observed on a later variable => observed on the previous *)
Definition monotone_ok (rows : list mrow) (K : nat) : bool :=
  forallb (fun r => forallb (fun j => implb (obs (S j) r) (obs j r)) (seq 0 (K - 1))) rows.

(* variable k gets a model unless its pattern is uniform with its predecessor *)
Definition fitted (rows : list mrow) (k : nat) : bool :=
  match k with O => true | S j => negb (uniform_pair rows j k) end.
(* the rows that model is fitted on: everyone for the first variable, else those observed on the previous one *)
Definition train (rows : list mrow) (k : nat) : list mrow :=
  match k with O => rows | S j => filter (obs j) rows end.

(* product over the variables of the predictions of the models that were fitted (on the full data) *)
Definition prod_fitted (sel : nat -> mrow -> Q) (rows : list mrow) (K : nat) (r : mrow) : Q :=
  Qprod (fun k => if fitted rows k then sel k r else 1) (seq 0 K).

(* _monotone_variables + fit(): numer/denom where the LAST variable is observed, NaN elsewhere *)
Definition ipmw_monotone (stab : bool) (rows : list mrow) (K : nat) (r : mrow) : option Q :=
  if obs (K - 1) r
  then Some ((if stab then prod_fitted num_at rows K r else 1) / prod_fitted den_at rows K r)
  else None.

(* _single_variable on the first variable (also the path taken for a str `missing_variable`) *)
Definition ipmw_single (stab : bool) (r : mrow) : option Q :=
  if obs 0 r then Some ((if stab then num_at 0 r else 1) / den_at 0 r) else None.

(* regression_models: overall-uniform data take the single-variable path with the first model *)
Definition ipmw_code (stab : bool) (rows : list mrow) (K : nat) (r : mrow) : option Q :=
  if overall_uniform rows K then ipmw_single stab r else ipmw_monotone stab rows K r.

(* which variables get a model on the path actually taken (for the correspondence with the recorded fits) *)
Definition ipmw_fits (rows : list mrow) (K : nat) : list bool :=
  if overall_uniform rows K then map (fun k => Nat.eqb k 0) (seq 0 K) else map (fitted rows) (seq 0 K).

(* stratum counts for the telescoping theorem *)
Definition in_s (s : nat) (r : mrow) : bool := Nat.eqb (m_s r) s.
Definition cnt_all (rows : list mrow) (s : nat) : Q := Qlen (filter (in_s s) rows).
Definition cnt_obs (rows : list mrow) (s k : nat) : Q := Qlen (filter (fun r => in_s s r && obs k r) rows).

(* ------------------------------------------------------------------------------------------------ IPCW *)
Record crow := { c_id : Z; c_time : Q; c_event : bool; c_num : Q; c_den : Q }.

Definition max_time (l : list crow) : Q :=
  match l with [] => 0 | r :: tl => fold_left Qmaxq (map c_time tl) (c_time r) end.

(* on the frame sorted by (id, time):  np.where((id != id.shift(-1)) & (event == 0), 0, 1), then
   np.where(time == max(time), 1, .) *)
Fixpoint uncensored_code (tmax : Q) (l : list crow) : list bool :=
  match l with
  | [] => []
  | r :: tl =>
      let lastrow := match tl with [] => true | r' :: _ => negb (c_id r =? c_id r')%Z end in
      (if Qeq_bool (c_time r) tmax then true else negb (lastrow && negb (c_event r))) :: uncensored_code tmax tl
  end.

(* groupby(id).cumprod(): running product per id value, in list order (an accumulator per id) *)
Fixpoint lookup (k : Z) (acc : list (Z * Q)) : Q :=
  match acc with [] => 1 | (k', v) :: tl => if (k =? k')%Z then v else lookup k tl end.
Fixpoint cumprod_by_id (f : crow -> Q) (acc : list (Z * Q)) (l : list crow) : list Q :=
  match l with
  | [] => []
  | r :: tl => let p := lookup (c_id r) acc * f r in p :: cumprod_by_id f ((c_id r, p) :: acc) tl
  end.

Fixpoint map2 {A B C} (f : A -> B -> C) (la : list A) (lb : list B) : list C :=
  match la, lb with a :: ta, b :: tb => f a b :: map2 f ta tb | _, _ => [] end.

(* Weight = __cnumer__ / __cdenom__ *)
Definition ipcw_weights (l : list crow) : list Q :=
  map2 Qdiv (cumprod_by_id c_num [] l) (cumprod_by_id c_den [] l).

(* sort order of the constructor: by id, then time (strict version: no two rows share subject and time) *)
Definition key_le (r r' : crow) : Prop := (c_id r < c_id r')%Z \/ (c_id r = c_id r' /\ c_time r <= c_time r').
Definition key_lt (r r' : crow) : Prop := (c_id r < c_id r')%Z \/ (c_id r = c_id r' /\ c_time r < c_time r').
Definition key_le_bool (r r' : crow) : bool :=
  (c_id r <? c_id r')%Z || ((c_id r =? c_id r')%Z && Qle_bool (c_time r) (c_time r')).
Fixpoint sorted_bool (l : list crow) : bool :=
  match l with
  | [] => true
  | r :: tl => match tl with [] => true | r' :: _ => key_le_bool r r' && sorted_bool tl end
  end.

(* the specification instantiated on crow *)
Definition cspec_weight (l : list crow) (r : crow) : Q := spec_ipcw c_id c_time c_num c_den l r.
Definition cspec_uncensored (l : list crow) (r : crow) : bool :=
  spec_uncensored c_id c_time c_event (max_time l) l r.
