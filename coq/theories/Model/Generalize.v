(* Executable models of the point estimates of zepid.causal.generalize: IPSW, GTransportFormula, AIPSW, over rows of
   the COMBINED data set (study sample S=1 stacked on a sample of the target S=0), and the specification they are
   compared with: study-sample cell means standardised to the effect-modifier distribution of the stated target.
   Definitions only.

   A row carries the effect-modifier stratum code, the sampling indicator, treatment and outcome (both meaningless
   for a non-sampled row: whatever is stored there is multiplied by the indicator [smp r] = 0, see
   GeneralizeProofs.outside_outcomes_irrelevant) and the nuisance predictions the estimator attached to it
   (oracle values; their meaning is fixed by hypotheses of the theorems, never here). *)
From Coq Require Import QArith List Bool Arith.
From Zepid Require Import Base.QSum Base.QUtil Base.Rows Model.Estimators.
Import ListNotations.
Open Scope Q_scope.

Record grow := {
  gs : nat;            (* effect-modifier stratum code *)
  smp : bool;          (* S: row belongs to the study sample *)
  ga : bool;           (* treatment (junk when smp = false) *)
  gy : Q;              (* outcome (junk when smp = false) *)
  ps : Q;              (* fitted Pr(S=1 | W)  -- denominator of the sampling weight *)
  pa : Q;              (* fitted Pr(A=1 | W) from the treatment model -- denominator of the treatment weight *)
  gq1 : Q; gq0 : Q     (* outcome-model predictions under A=1 / A=0 *)
}.

Definition g_in (s : nat) (r : grow) : bool := Nat.eqb (gs r) s.
Definition g_arm (a : bool) (r : grow) : bool := Bool.eqb (ga r) a.
Definition gstrata (l : list grow) : list nat := nodup Nat.eq_dec (map gs l).

(* cell aggregates of the combined data (indicator sums over all rows) *)
Definition cN (s : nat) (l : list grow) : Q := Qsum (fun r => ind (g_in s r) * 1) l.
Definition cNS (s : nat) (l : list grow) : Q := Qsum (fun r => ind (g_in s r) * ind (smp r)) l.
Definition cNSa (s : nat) (a : bool) (l : list grow) : Q :=
  Qsum (fun r => ind (g_in s r) * (ind (smp r) * ind (g_arm a r))) l.
Definition cYS (s : nat) (a : bool) (l : list grow) : Q :=
  Qsum (fun r => ind (g_in s r) * (ind (smp r) * ind (g_arm a r) * gy r)) l.
(* mean outcome of the SAMPLED rows of stratum s that received a *)
Definition ybarS (s : nat) (a : bool) (l : list grow) : Q := cYS s a l / cNSa s a l.

(* weight of a stratum in the target: all rows (generalize) or the non-sampled rows only (transport) *)
Definition tgt_w (gen : bool) (s : nat) (l : list grow) : Q := if gen then cN s l else cN s l - cNS s l.

(* THE SPECIFICATION: sample cell means of arm a standardised over the modifier distribution of the target *)
Definition gstd (gen : bool) (a : bool) (l : list grow) : Q :=
  Qsum (fun s => tgt_w gen s l * ybarS s a l) (gstrata l) / Qsum (fun s => tgt_w gen s l) (gstrata l).
Definition gstd_rd gen l := gstd gen true l - gstd gen false l.
Definition gstd_rr gen l := gstd gen true l / gstd gen false l.

(* ---- weights (mirror IPSW.sampling_model / AIPSW.sampling_model and iptw_calculator(standardize='population')) *)
Record gcfg := {
  gen : bool;          (* generalize=True / False (transport) *)
  stabS : bool;        (* sampling_model(stabilized=...) *)
  rx : bool;           (* treatment_model() was called *)
  stabA : bool;        (* treatment_model(stabilized=...) *)
  nS : Q;              (* fitted numerator Pr(S=1) of the stabilised sampling weight *)
  nA : Q               (* fitted numerator Pr(A=1) of the stabilised treatment weight *)
}.
(* inverse probability (generalize) resp. inverse odds (transport) of sampling *)
Definition samp_w (gn stab : bool) (n d : Q) : Q :=
  match gn, stab with
  | true, true => n / d
  | true, false => 1 / d
  | false, true => ((1 - d) / d) * (n / (1 - n))
  | false, false => (1 - d) / d
  end.
Definition trt_w (use stab : bool) (n : Q) (a : bool) (d : Q) : Q :=
  if use then ipw_formula stab TAll n a d else 1.
Definition tot_w (c : gcfg) (r : grow) : Q :=
  samp_w (gen c) (stabS c) (nS c) (ps r) * trt_w (rx c) (stabA c) (nA c) (ga r) (pa r).

(* ---- IPSW.fit: weighted averages of the outcome in the two arms of the study sample *)
Definition ipsw_num (c : gcfg) (a : bool) (l : list grow) : Q :=
  Qsum (fun r => ind (smp r) * ind (g_arm a r) * tot_w c r * gy r) l.
Definition ipsw_den (c : gcfg) (a : bool) (l : list grow) : Q :=
  Qsum (fun r => ind (smp r) * ind (g_arm a r) * tot_w c r) l.
Definition ipsw_risk (c : gcfg) (a : bool) (l : list grow) : Q := ipsw_num c a l / ipsw_den c a l.
Definition ipsw_rd c l := ipsw_risk c true l - ipsw_risk c false l.
Definition ipsw_rr c l := ipsw_risk c true l / ipsw_risk c false l.

(* ---- GTransportFormula.fit: mean prediction over all rows (generalize) or over the non-sampled rows (transport) *)
Definition in_tgt (gn : bool) (r : grow) : bool := if gn then true else negb (smp r).
Definition gqa (a : bool) (r : grow) : Q := if a then gq1 r else gq0 r.
Definition gt_risk (gn : bool) (a : bool) (l : list grow) : Q :=
  Qsum (fun r => ind (in_tgt gn r) * gqa a r) l / Qsum (fun r => ind (in_tgt gn r) * 1) l.
Definition gt_rd gn l := gt_risk gn true l - gt_risk gn false l.
Definition gt_rr gn l := gt_risk gn true l / gt_risk gn false l.

(* ---- AIPSW.fit: prediction on the target rows + weighted residual of the sampled rows that received a.
   generalize: mean over ALL rows of (q_a + I(S=1,A=a) w (y - q_a));
   transport:  sum of (I(S=1,A=a) w (y - q_a) + (1-S) q_a) over the sum of (1-S). *)
Definition aug (c : gcfg) (a : bool) (r : grow) : Q :=
  ind (smp r) * ind (g_arm a r) * (tot_w c r * (gy r - gqa a r)).
Definition aipsw_risk (c : gcfg) (a : bool) (l : list grow) : Q :=
  Qsum (fun r => ind (in_tgt (gen c) r) * gqa a r + aug c a r) l / Qsum (fun r => ind (in_tgt (gen c) r) * 1) l.
Definition aipsw_rd c l := aipsw_risk c true l - aipsw_risk c false l.
Definition aipsw_rr c l := aipsw_risk c true l / aipsw_risk c false l.

(* ---- executable twins that reduce after every addition (same values up to ==, GeneralizeProofs.*_x_eq); the run
   evaluates these, because exact rationals of binary floats make unreduced sums explode *)
Definition ipsw_risk_x (c : gcfg) (a : bool) (l : list grow) : Q :=
  Qsumr (fun r => ind (smp r) * ind (g_arm a r) * tot_w c r * gy r) l /
  Qsumr (fun r => ind (smp r) * ind (g_arm a r) * tot_w c r) l.
Definition gt_risk_x (gn : bool) (a : bool) (l : list grow) : Q :=
  Qsumr (fun r => ind (in_tgt gn r) * gqa a r) l / Qsumr (fun r => ind (in_tgt gn r) * 1) l.
Definition aipsw_risk_x (c : gcfg) (a : bool) (l : list grow) : Q :=
  Qsumr (fun r => ind (in_tgt (gen c) r) * gqa a r + aug c a r) l / Qsumr (fun r => ind (in_tgt (gen c) r) * 1) l.

(* ---- what the run prints: [risk1; risk0; rd; rr] of each estimator and of the specification *)
Definition quad (r1 r0 : Q) : list Q := [r1; r0; r1 - r0; r1 / r0].
Definition ipsw_out c l := quad (ipsw_risk_x c true l) (ipsw_risk_x c false l).
Definition gt_out gn l := quad (gt_risk_x gn true l) (gt_risk_x gn false l).
Definition aipsw_out c l := quad (aipsw_risk_x c true l) (aipsw_risk_x c false l).
Definition gstd_out gn l := quad (gstd gn true l) (gstd gn false l).

(* cell proportions / means the saturated fits must reproduce (oracle validation in the run) *)
Definition sat_ps (s : nat) (l : list grow) : Q := cNS s l / cN s l.
Definition sat_pa (s : nat) (l : list grow) : Q := cNSa s true l / cNS s l.
Definition cells_out (l : list grow) : list (nat * list Q) :=
  map (fun s => (s, [sat_ps s l; sat_pa s l; ybarS s true l; ybarS s false l])) (gstrata l).

(* ---- how the run writes a case: the raw combined rows once, the fitted nuisance values as tables indexed by
   the stratum code (the run checks that the implementation's per-row values are constant within a stratum) *)
Record graw := { rs : nat; rsmp : bool; ra : bool; ry : Q }.
Definition GR (s : nat) (sm a : bool) (y : Q) : graw := {| rs := s; rsmp := sm; ra := a; ry := y |}.
Definition attach (tps tpa tq1 tq0 : list Q) (r : graw) : grow :=
  {| gs := rs r; smp := rsmp r; ga := ra r; gy := ry r;
     ps := nth (rs r) tps 0; pa := nth (rs r) tpa 0; gq1 := nth (rs r) tq1 0; gq0 := nth (rs r) tq0 0 |}.
Definition attach_all tps tpa tq1 tq0 (l : list graw) : list grow := map (attach tps tpa tq1 tq0) l.
Definition bare (l : list graw) : list grow := attach_all [] [] [] [] l.
Definition Cfg (gn sS use sA : bool) (n_s n_a : Q) : gcfg :=
  {| gen := gn; stabS := sS; rx := use; stabA := sA; nS := n_s; nA := n_a |}.

(* ---- the frames as the code of the fit methods sees them (argument types of the definitions regenerated from the source,
   ZepidGen.Gen_gener_Q; GenProofs_gener proves those equal to the models above) *)
Record scol := { sc_a : bool; sc_y : Q; sc_ipw : Q }.     (* a row of IPSW.sample: exposure, outcome, '__ipw__' *)
Record acol := {                                            (* a row of AIPSW.df *)
  ac_s : bool;         (* self.sample (boolean mask) *)
  ac_a : bool;         (* exposure == 1 *)
  ac_S : Q;            (* the selection column used arithmetically *)
  ac_y : Q; ac_ipw : Q; ac_q1 : Q; ac_q0 : Q }.
Record tcol := { tc_s : bool; tc_q1 : Q; tc_q0 : Q; tc_w : Q }.   (* a row of GTransportFormula.df: selection, predictions, weight *)
