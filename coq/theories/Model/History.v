(* C11 -- the object state machine shared by the estimator families of zEpid.  Definitions only.

   An estimator object keeps (i) its own copy of the analysis data (`stored`; the model carries an abstract
   token for it), (ii) one component per specification call (`specs`: slot k holds the specification last
   given for slot k -- exposure/treatment model, outcome model, missing model, MSM, ... -- or None),
   (iii) the results of the last successful fit.  `compute` is the estimator's pure result function.
   What this model cannot exhibit -- Python aliasing, in-place writes, stale caches -- is decided by the
   correspondence run of harness/props/c11.py over call histories. *)
From Coq Require Import List Bool Arith ZArith.
Import ListNotations.

Section History.
Variables frame spec args out dout : Type.
Variable nslots : nat.                              (* number of specification slots of the class *)
Variable required : list nat.                       (* slots fit() needs *)
Variable diag_required : nat -> list nat.           (* slots diagnostic d needs *)
Variable diag_needs_results : nat -> bool.          (* does diagnostic d need a completed fit *)
Variable compute : frame -> list (option spec) -> args -> out.
Variable diagf : nat -> frame -> list (option spec) -> option out -> dout.

Record state := mkState { stored : frame; specs : list (option spec); results : option out }.

Inductive op :=
| Specify (s : nat) (v : spec)
| Fit (a : args)
| Summary
| Diagnostics (d : nat).

Inductive output :=
| OErr                       (* an exception *)
| OUnit
| OFit (r : out)
| OSummary (r : out)
| ODiag (x : dout).

Fixpoint set_nth {A : Type} (n : nat) (x : A) (l : list A) : list A :=
  match l, n with
  | [], _ => []
  | _ :: t, O => x :: t
  | h :: t, S k => h :: set_nth k x t
  end.

Definition is_some {A : Type} (o : option A) : bool := match o with Some _ => true | None => false end.
Definition specified (sp : list (option spec)) (s : nat) : bool := is_some (nth s sp None).
Definition ready (sp : list (option spec)) : bool := forallb (specified sp) required.
Definition diag_ready (st : state) (d : nat) : bool :=
  forallb (specified (specs st)) (diag_required d) && (negb (diag_needs_results d) || is_some (results st)).

Definition step (st : state) (o : op) : state * output :=
  match o with
  | Specify s v =>
      if s <? nslots then (mkState (stored st) (set_nth s (Some v) (specs st)) (results st), OUnit) else (st, OErr)
  | Fit a =>
      if ready (specs st)
      then let r := compute (stored st) (specs st) a in (mkState (stored st) (specs st) (Some r), OFit r)
      else (st, OErr)
  | Summary => match results st with Some r => (st, OSummary r) | None => (st, OErr) end
  | Diagnostics d =>
      if diag_ready st d then (st, ODiag (diagf d (stored st) (specs st) (results st))) else (st, OErr)
  end.

Definition init (fr : frame) : state := mkState fr (repeat None nslots) None.
Definition run (st : state) (ops : list op) : state := fold_left (fun s o => fst (step s o)) ops st.
Fixpoint trace (st : state) (ops : list op) : list output :=
  match ops with
  | [] => []
  | o :: t => snd (step st o) :: trace (fst (step st o)) t
  end.

(* the world: the caller's frame next to the object; construction copies, step never writes the caller's side *)
Definition world := (frame * state)%type.
Definition construct (user : frame) : world := (user, init user).
Definition wstep (w : world) (o : op) : world := (fst w, fst (step (snd w) o)).
Definition wrun (w : world) (ops : list op) : world := fold_left wstep ops w.

(* ---- history-free characterisation: what a reader of the call list would say is in force ---- *)
Definition last_specified (s : nat) (ops : list op) : option spec :=
  fold_left (fun acc o => match o with Specify s' v => if s' =? s then Some v else acc | _ => acc end) ops None.
Definition spec_table (ops : list op) : list (option spec) := map (fun s => last_specified s ops) (seq 0 nslots).

(* the calls before the last Fit, and that Fit's arguments *)
Fixpoint last_fit (ops : list op) : option (list op * args) :=
  match ops with
  | [] => None
  | o :: t =>
      match last_fit t with
      | Some (pre, a) => Some (o :: pre, a)
      | None => match o with Fit a => Some ([], a) | _ => None end
      end
  end.

Definition results_spec (fr : frame) (ops : list op) : option out :=
  match last_fit ops with
  | None => None
  | Some (pre, a) => if ready (spec_table pre) then Some (compute fr (spec_table pre) a) else None
  end.

(* a fresh object is driven with one Specify per specified slot, in slot order *)
Definition canon (tbl : list (option spec)) : list op :=
  flat_map (fun s => match nth s tbl None with Some v => [Specify s v] | None => [] end) (seq 0 nslots).
Definition normal_form (ops : list op) : list op :=
  match last_fit ops with
  | None => canon (spec_table ops)
  | Some (pre, a) => canon (spec_table pre) ++ [Fit a] ++ canon (spec_table ops)
  end.

Definition mutating (o : op) : bool := match o with Specify _ _ | Fit _ => true | Summary | Diagnostics _ => false end.
Definition pure_op (o : op) : Prop := mutating o = false.
End History.

Arguments Specify {spec args} s v.
Arguments Fit {spec args} a.
Arguments Summary {spec args}.
Arguments Diagnostics {spec args} d.
Arguments OErr {out dout}.
Arguments OUnit {out dout}.
Arguments OFit {out dout} r.
Arguments OSummary {out dout} r.
Arguments ODiag {out dout} x.

(* ---- executable instance used by the correspondence run: specifications, fit arguments and the stored frame are
        integer tokens, and the result function is FREE: the result is the triple it may depend on ---- *)
Definition zout := (Z * list (option Z) * Z)%type.
Definition zcompute (fr : Z) (sp : list (option Z)) (a : Z) : zout := (fr, sp, a).
Definition zdiag (d : nat) (fr : Z) (sp : list (option Z)) (r : option zout) : nat := d.
Definition dtab_req (dtab : list (list nat * bool)) (d : nat) : list nat := fst (nth d dtab ([], false)).
Definition dtab_res (dtab : list (list nat * bool)) (d : nat) : bool := snd (nth d dtab ([], false)).

Definition zstate := state Z Z zout.
Definition zop := @op Z Z.
Definition zstep (nslots : nat) (required : list nat) (dtab : list (list nat * bool)) :=
  step Z Z Z zout nat nslots required (dtab_req dtab) (dtab_res dtab) zcompute zdiag.

Definition code_out (o : @output zout nat) : Z := match o with OErr => 1%Z | _ => 0%Z end.
Definition code_op (o : zop) : Z * Z * Z :=
  match o with
  | Specify s v => (0%Z, Z.of_nat s, v)
  | Fit a => (1%Z, a, 0%Z)
  | Summary => (2%Z, 0%Z, 0%Z)
  | Diagnostics d => (3%Z, Z.of_nat d, 0%Z)
  end.

(* what the harness asks for one executed history of a class:
   (user frame after, Ok/Error per call, specification in force per slot, result of the object,
    the call list of the equivalent fresh object, result of that fresh object) *)
Definition eval_history (nslots : nat) (required : list nat) (dtab : list (list nat * bool)) (user : Z) (ops : list zop) :=
  let w := wrun Z Z Z zout nat nslots required (dtab_req dtab) (dtab_res dtab) zcompute zdiag
                (construct Z Z zout nslots user) ops in
  let st0 := init Z Z zout nslots user in
  let nf := normal_form Z Z nslots ops in
  let stn := run Z Z Z zout nat nslots required (dtab_req dtab) (dtab_res dtab) zcompute zdiag st0 nf in
  (fst w,
   map code_out (trace Z Z Z zout nat nslots required (dtab_req dtab) (dtab_res dtab) zcompute zdiag st0 ops),
   specs Z Z zout (snd w),
   results Z Z zout (snd w),
   map code_op nf,
   results Z Z zout stn).
