(* C20 -- SuperLearner (zepid/superlearner/stackers.py).  Definitions only.
   Rows are positions 0..n-1 (KFold without shuffling is positional); candidates are positions 0..m-1. *)
From Coq Require Import QArith ZArith List Bool Arith.
From Zepid Require Import Base.QUtil Base.QSum Model.Bounds.
Import ListNotations.

(* ------------------------------------------------------------------ sklearn KFold(k, shuffle=False).split(range(n)) *)
(* the first n mod k folds have n/k + 1 rows, the others n/k; folds are consecutive blocks *)
Definition fold_sizes (n k : nat) : list nat :=
  map (fun f => n / k + (if f <? n mod k then 1 else 0))%nat (seq 0 k).
Fixpoint blocks (start : nat) (sizes : list nat) : list (list nat) :=
  match sizes with [] => [] | s :: t => seq start s :: blocks (start + s) t end.
Definition kfold_tests (n k : nat) : list (list nat) := blocks 0 (fold_sizes n k).
Definition nmem (x : nat) (l : list nat) : bool := existsb (Nat.eqb x) l.
Definition complement (n : nat) (test : list nat) : list nat := filter (fun i => negb (nmem i test)) (seq 0 n).
(* (train, test) per fold *)
Definition kfold (n k : nat) : list (list nat * list nat) := map (fun t => (complement n t, t)) (kfold_tests n k).
(* sklearn raises ValueError unless 2 <= k <= n *)
Definition kfold_guard (n k : nat) : bool := (2 <=? k)%nat && (k <=? n)%nat.

(* ------------------------------------------------------------------ schedule of calls to the candidate learners *)
Inductive sl_event :=
| Clone (t c : nat)                       (* the t-th copy made by sklearn.clone is a copy of candidate c *)
| FitC (t c : nat) (rows : list nat)      (* copy t (of candidate c) fitted on rows *)
| PredC (t c : nat) (rows : list nat).    (* copy t (of candidate c) predicts rows *)

(* for train, test in KFold: for est_id in range(n_est): clone, fit(train), predict(test) *)
Definition cv_step (m : nat) (folds : list (list nat * list nat)) (fc : nat * nat) : list sl_event :=
  let '(f, c) := fc in
  let '(tr, te) := nth f folds ([], []) in
  let t := (f * m + c)%nat in [Clone t c; FitC t c tr; PredC t c te].
Definition cv_schedule (m : nat) (folds : list (list nat * list nat)) : list sl_event :=
  flat_map (cv_step m folds) (list_prod (seq 0 (length folds)) (seq 0 m)).

(* Step 7: every candidate is cloned again; only retained ones are fitted, on all rows *)
Definition refit_schedule (n m t0 : nat) (retained : nat -> bool) : list sl_event :=
  flat_map (fun c => Clone (t0 + c) c :: (if retained c then [FitC (t0 + c) c (seq 0 n)] else [])) (seq 0 m).
(* predict(X'): candidates with coefficient > 0 predict all new rows, in candidate order *)
Definition predict_schedule (m t0 : nat) (coefs : list Q) (rows : list nat) : list sl_event :=
  flat_map (fun c => if Qlt_bool 0 (nth c coefs 0) then [PredC (t0 + c) c rows] else []) (seq 0 m).

(* ------------------------------------------------------------------ coefficients *)
(* np.sqrt(np.finfo(np.double).eps) = 2^-26 exactly *)
Definition thr : Q := 1 # 67108864.
Definition threshold (raw : list Q) : list Q := map (fun c => if Qlt_bool c thr then 0 else c) raw.
Definition Qtotal (l : list Q) : Q := Qsum (fun x => x) l.
(* coefs / np.sum(coefs); None = 0/0 (NaN coefficients) *)
Definition normalise (raw : list Q) : option (list Q) :=
  let t := threshold raw in
  let s := Qtotal t in
  if Qeq_bool s 0 then None else Some (map (fun c => c / s) t).
(* np.argmax: first position of the maximum *)
Fixpoint argmax_from (best_i : nat) (best : Q) (i : nat) (l : list Q) : nat :=
  match l with
  | [] => best_i
  | x :: r => if Qlt_bool best x then argmax_from i x (S i) r else argmax_from best_i best (S i) r
  end.
Definition argmax (l : list Q) : nat := match l with [] => O | x :: r => argmax_from 0 x 1 r end.
Definition one_hot (m j : nat) : list Q := map (fun i => if (i =? j)%nat then 1 else 0) (seq 0 m).
Definition sl_coefficients (discrete : bool) (raw : list Q) : option (list Q) :=
  match normalise raw with
  | None => None
  | Some c => Some (if discrete then one_hot (length c) (argmax c) else c)
  end.
Definition retained_of (discrete : bool) (norm : list Q) (c : nat) : bool :=
  if discrete then (c =? argmax norm)%nat else Qlt_bool 0 (nth c norm 0).

(* cross-validated L2 error of one candidate: sum (y - yhat)^2 / n *)
Definition cv_error_l2 (y p : list Q) : Q :=
  Qsum (fun yp => (fst yp - snd yp) * (fst yp - snd yp)) (combine y p) / Qnat (length y).

(* ------------------------------------------------------------------ predictions *)
Definition lincomb (coefs vals : list Q) : Q := Qsum (fun cv => fst cv * snd cv) (combine coefs vals).
(* the column of a candidate whose coefficient is not > 0 is set to 0 instead of calling it *)
Definition used_preds (coefs preds : list Q) : list Q :=
  map (fun cp => if Qlt_bool 0 (fst cp) then snd cp else 0) (combine coefs preds).
(* L2: np.dot(cv_pred, coefficients) for one new row; preds = the candidates' predictions for that row *)
Definition sl_predict_l2 (coefs preds : list Q) : Q := lincomb coefs (used_preds coefs preds).
(* NLogLik: columns clipped to [b, 1-b], combined on the logit scale, back-transformed.  logit / expit are not
   rational: the model returns the exact pre-image (coefficients and clipped probabilities); the prediction is
   expit (sum_j coef_j * logit q_j), see Proofs.SuperLearnerProofs for the statement over R. *)
Definition sl_nll_args (b : Q) (coefs preds : list Q) : list Q := clip b (1 - b) (used_preds coefs preds).
(* the same linear combination applied to (oracle) logit values *)
Definition sl_logodds (coefs logits : list Q) : Q := lincomb coefs logits.

(* ------------------------------------------------------------------ the whole fit, given the nnls output *)
Inductive sl_result :=
| SLValueError                     (* KFold rejects the number of folds *)
| SLNaN (evs : list sl_event)      (* all nnls coefficients below the threshold: coefficients are NaN *)
| SLOk (coefs : list Q) (norm : list Q) (evs : list sl_event).
Definition sl_fit (discrete : bool) (n m k : nat) (raw : list Q) : sl_result :=
  if negb (kfold_guard n k) then SLValueError
  else let cv := cv_schedule m (kfold n k) in
       match normalise raw with
       | None =>
           (* the code goes on with NaN weights: `NaN > 0` is False, so nothing is refitted; with discrete=True
              np.argmax of an all-NaN vector is 0, candidate 0 is refitted and gets coefficient 1.
              norm = [] stands for the NaN weight vector kept in est_performance *)
           let refit := refit_schedule n m (k * m) (fun c => if discrete then (c =? 0)%nat else false) in
           if discrete then SLOk (one_hot m 0) [] (cv ++ refit) else SLNaN (cv ++ refit)
       | Some norm =>
           let coefs := if discrete then one_hot (length norm) (argmax norm) else norm in
           SLOk coefs norm (cv ++ refit_schedule n m (k * m) (retained_of discrete norm))
       end.

(* ------------------------------------------------------------------ specification on an observed log *)
Fixpoint ncount (x : nat) (l : list nat) : nat :=
  match l with [] => O | y :: t => ((if (x =? y)%nat then 1 else 0) + ncount x t)%nat end.
Definition cv_pred_rows (c : nat) (evs : list sl_event) : list nat :=
  flat_map (fun e => match e with PredC _ c' rows => if (c =? c')%nat then rows else [] | _ => [] end) evs.
Definition fit_rows (t : nat) (evs : list sl_event) : list (list nat) :=
  flat_map (fun e => match e with FitC t' _ rows => if (t =? t')%nat then [rows] else [] | _ => [] end) evs.
Definition clones_of (t : nat) (evs : list sl_event) : list nat :=
  flat_map (fun e => match e with Clone t' c => if (t =? t')%nat then [c] else [] | _ => [] end) evs.

(* every row is held out exactly once per candidate; the copy that predicts it is a clone of that candidate,
   fitted exactly once, on exactly the rows outside the predicted block *)
Definition Holdout (evs : list sl_event) (n m : nat) : Prop :=
  forall i c, (i < n)%nat -> (c < m)%nat ->
    ncount i (cv_pred_rows c evs) = 1%nat /\
    forall t rows, In (PredC t c rows) evs -> In i rows ->
      clones_of t evs = [c] /\
      exists tr, fit_rows t evs = [tr] /\ ~ In i tr /\
                 forall j, (j < n)%nat -> (In j tr <-> ~ In j rows).

Definition nlist_disjoint_cover (n : nat) (tr rows : list nat) : bool :=
  forallb (fun j => xorb (nmem j tr) (nmem j rows)) (seq 0 n).
Definition holdout_b (evs : list sl_event) (n m : nat) : bool :=
  forallb (fun i => forallb (fun c =>
    (ncount i (cv_pred_rows c evs) =? 1)%nat &&
    forallb (fun e => match e with
      | PredC t c' rows =>
          if (c =? c')%nat && nmem i rows then
            match clones_of t evs, fit_rows t evs with
            | [c''], [tr] => (c'' =? c)%nat && negb (nmem i tr) && nlist_disjoint_cover n tr rows
            | _, _ => false
            end
          else true
      | _ => true end) evs) (seq 0 m)) (seq 0 n).

(* ------------------------------------------------------------------ printing *)
Definition zn (n : nat) : Z := Z.of_nat n.
Definition enc_sl (e : sl_event) : Z * Z * Z * list Z :=
  match e with
  | Clone t c => (0%Z, zn t, zn c, [])
  | FitC t c rows => (1%Z, zn t, zn c, map zn rows)
  | PredC t c rows => (2%Z, zn t, zn c, map zn rows)
  end.
Definition dec_sl (x : Z * Z * Z * list Z) : sl_event :=
  let '(tag, t, c, rows) := x in
  if (tag =? 0)%Z then Clone (Z.to_nat t) (Z.to_nat c)
  else if (tag =? 1)%Z then FitC (Z.to_nat t) (Z.to_nat c) (map Z.to_nat rows)
  else PredC (Z.to_nat t) (Z.to_nat c) (map Z.to_nat rows).
(* status 0 ok / 1 ValueError / 2 NaN coefficients ; coefficients ; normalised (pre-discrete) ; events *)
Definition print_sl (r : sl_result) : Z * list (list Z) * list (list Z) * list (Z * Z * Z * list Z) :=
  match r with
  | SLValueError => (1%Z, [], [], [])
  | SLNaN evs => (2%Z, [], [], map enc_sl evs)
  | SLOk coefs norm evs => (0%Z, Qflat coefs, Qflat norm, map enc_sl evs)
  end.
