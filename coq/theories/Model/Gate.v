(* C10 -- the input gate of the causal estimators (zepid.causal.utils.check_input_data). Definitions only. *)
From Coq Require Import QArith List Bool.
Import ListNotations.

Record raw := { rid : nat; rx : option bool; rc : list (option Q); ry : option Q }.
Definition is_some {A} (o : option A) : bool := match o with Some _ => true | None => false end.
Definition cov_ok (r : raw) : bool := forallb is_some (rc r).
(* rows that survive when only the outcome may be missing *)
Definition keepY (r : raw) : bool := is_some (rx r) && cov_ok r.
Definition complete (r : raw) : bool := keepY r && is_some (ry r).
(* drop_all = True: estimators documented to drop every incomplete row *)
Definition gate (drop_all : bool) (rows : list raw) : list raw := filter (if drop_all then complete else keepY) rows.
Definition miss_flag (rows : list raw) : bool := existsb (fun r => negb (is_some (ry r))) (gate false rows).
Definition observed_indicator (rows : list raw) : list bool := map (fun r => is_some (ry r)) (gate false rows).
(* the data set with every row missing the exposure or a covariate physically deleted *)
Definition delete_incomplete (rows : list raw) : list raw := filter keepY rows.
Definition kept_ids (drop_all : bool) (rows : list raw) : list nat := map rid (gate drop_all rows).
