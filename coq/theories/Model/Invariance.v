(* C08 -- the relabellings of a data set under which the estimators must be invariant / equivariant, as operations on
   the models' rows, plus the rational twin of TMLE's unit-interval map and what the run prints.  Definitions only. *)
From Coq Require Import QArith ZArith List Bool.
From Zepid Require Import Base.QSum Base.QUtil Base.Rows Model.Estimators Model.Variance Model.Frames Model.Snm.
Import ListNotations.
Open Scope Q_scope.

(* ---- recoding the binary treatment as 1 - A: the fitted nuisance values of the recoded data are those of the
   original with the roles of the arms exchanged (that a refit returns exactly these is the oracle hypothesis of the
   theorems: an MLE is equivariant under relabelling the response / a regressor; sampled on every run) *)
Definition swap_row (r : row) : row :=
  {| st := st r; trt := negb (trt r); yv := yv r; wt := wt r; g1 := 1 - g1 r;
     q1 := q0 r; q0 := q1 r; m1 := m0 r; m0 := m1 r |}.
Definition swap_target (t : target) : target :=
  match t with TAll => TAll | TExposed => TUnexposed | TUnexposed => TExposed end.

(* ---- change of units of the outcome, y -> c y + d (fitted outcome values follow; propensities do not move) *)
Definition scale_y (c d : Q) (y : option Q) : option Q := match y with Some v => Some (c * v + d) | None => None end.
Definition scale_row (c d : Q) (r : row) : row :=
  {| st := st r; trt := trt r; yv := scale_y c d (yv r); wt := wt r; g1 := g1 r;
     q1 := c * q1 r + d; q0 := c * q0 r + d; m1 := m1 r; m0 := m0 r |}.

(* ---- recoding of the covariate-stratum codes *)
Definition relabel_row (f : nat -> nat) (r : row) : row :=
  {| st := f (st r); trt := trt r; yv := yv r; wt := wt r; g1 := g1 r; q1 := q1 r; q0 := q0 r; m1 := m1 r; m0 := m0 r |}.

(* ---- effect-measure frames: recoding of the exposure level codes *)
Definition frelabel (f : Z -> Z) (r : frow) : frow :=
  {| fe := match fe r with Some v => Some (f v) | None => None end; fy := fy r; ft := ft r |}.

(* ---- g-estimation rows *)
Definition sscale (c d : Q) (r : srow) : srow :=
  {| sa := sa r; sy := c * sy r + d; sw := sw r; spi := spi r; sv := sv r; sst := sst r |}.
Definition sswap (r : srow) : srow :=
  {| sa := negb (sa r); sy := sy r; sw := sw r; spi := 1 - spi r; sv := sv r; sst := sst r |}.

(* ---- TMLE's map of a continuous outcome to the unit interval (zepid/causal/doublyrobust/utils.py), rational twin:
   the two np.where are applied in the source's order *)
Definition ub_q (b v : Q) : Q :=
  let v1 := if Qlt_bool v b then b else v in if Qlt_bool (1 - b) v1 then 1 - b else v1.
Definition unit_bounds_q (y mini maxi b : Q) : Q := ub_q b ((y - mini) / (maxi - mini)).
Definition unit_unbound_q (ystar mini maxi : Q) : Q := ystar * (maxi - mini) + mini.

(* ---- what the run prints for one annotated data set: arm quantities of every estimator model, the specification,
   and the variance estimators.  W = total_w stab t n c1 c0. *)
Definition est_out (stab : bool) (t : target) (n c1 c0 : Q) (l : list row) : list Q :=
  let W := total_w stab t n c1 c0 in
  [ iptw_mu stab t n c1 c0 true l; iptw_mu stab t n c1 c0 false l;
    gf_marginal t true l; gf_marginal t false l;
    aipw_mean aipw_y1 l; aipw_mean aipw_y0 l;
    tmle_mean true l; tmle_mean false l;
    std t true l; std t false l;
    sw_var_rd W l; aipw_var_rd l; tmle_var_rd l ].
(* permutation of a list by a list of positions (the run passes the positions it shuffled with) *)
Definition permute {A} (d : A) (pos : list nat) (l : list A) : list A := map (fun i => nth i l d) pos.
Definition row0 : row := {| st := 0%nat; trt := false; yv := None; wt := 0; g1 := 0; q1 := 0; q0 := 0; m1 := 0; m0 := 0 |}.

(* ---- generalizability / transportability rows (Model.Generalize) *)
From Zepid Require Import Model.Generalize.
Definition gswap (r : grow) : grow :=
  {| gs := gs r; smp := smp r; ga := negb (ga r); gy := gy r; ps := ps r; pa := 1 - pa r; gq1 := gq0 r; gq0 := gq1 r |}.
Definition gscale (c d : Q) (r : grow) : grow :=
  {| gs := gs r; smp := smp r; ga := ga r; gy := c * gy r + d; ps := ps r; pa := pa r;
     gq1 := c * gq1 r + d; gq0 := c * gq0 r + d |}.
Definition cfg_swap (c : gcfg) : gcfg :=
  {| gen := gen c; stabS := stabS c; rx := rx c; stabA := stabA c; nS := nS c; nA := 1 - nA c |}.
