(* C12 -- SurvivalGFormula (zepid/causal/gformula/TimeFixed.py) on person-period data.  Definitions only. *)
From Coq Require Import QArith Qround ZArith List Bool Arith.
From Zepid Require Import Base.QSum Base.QUtil Model.Icg.
Import ListNotations.
Open Scope Q_scope.

(* one person-period: id, baseline treatment arm, period number, event indicator of that period.  Censored
   individuals simply stop contributing rows (rows with a missing value are dropped by check_input_data). *)
Record pprow := mkPP { pid : nat; parm : bool; ptime : nat; pev : Q }.
Definition pp0 : pprow := mkPP 0 false 0 0.

Inductive trt := TAll | TNone | TNatural.
Definition assign (t : trt) (r : pprow) : bool :=
  match t with TAll => true | TNone => false | TNatural => parm r end.

(* self.gf.sort_values(by=[idvar, time]).reset_index(drop=True) *)
Definition pp_leb (a b : pprow) : bool := (pid a <? pid b) || ((pid a =? pid b) && (ptime a <=? ptime b)).
Fixpoint insert_pp (x : pprow) (l : list pprow) : list pprow :=
  match l with [] => [x] | y :: ys => if pp_leb x y then x :: l else y :: insert_pp x ys end.
Definition sort_pp (l : list pprow) : list pprow := fold_right insert_pp [] l.

(* the pooled logistic model as an oracle: predicted discrete hazard by (arm, period) *)
Definition hazard := bool -> nat -> Q.
(* saturated in arm x period: cell proportion of events *)
Definition pp_cell (a : bool) (t : nat) (r : pprow) : bool := Bool.eqb (parm r) a && (ptime r =? t).
Definition cell_haz (rows : list pprow) : hazard := fun a t =>
  let c := filter (pp_cell a t) rows in Qsum pev c / Qlen c.

(* g[outcome] = 1 - predict(g);  1 - g.groupby(id)[outcome].cumprod() : value of the row at position i *)
Definition same_id (r : pprow) (x : pprow) : bool := pid x =? pid r.
Definition cuminc_at (hz : hazard) (tr : trt) (s : list pprow) (i : nat) : Q :=
  1 - Qprod (fun x => 1 - hz (assign tr x) (ptime x)) (filter (same_id (nth i s pp0)) (firstn (S i) s)).

(* executable form: the factor of every row is computed once *)
Definition factors (hz : hazard) (tr : trt) (s : list pprow) : list (pprow * Q) :=
  combine s (map (fun r => 1 - hz (assign tr r) (ptime r)) s).
Definition cuminc_fac (fs : list (pprow * Q)) (i : nat) : Q :=
  1 - Qprod snd (filter (fun p => same_id (fst (nth i fs (pp0, 0))) (fst p)) (firstn (S i) fs)).
Definition predicted (hz : hazard) (tr : trt) (s : list pprow) : list Q :=
  let fs := factors hz tr s in map (cuminc_fac fs) (seq 0 (length s)).

(* g.groupby(t)[outcome].mean() at period t (None: no row has that period) *)
Definition marginal_of (s : list pprow) (pred : list Q) (t : nat) : option Q :=
  let sel := filter (fun p => ptime (fst p) =? t) (combine s pred) in
  match sel with [] => None | _ => Some (Qsum snd sel / Qlen sel) end.
Definition marginal_at (hz : hazard) (tr : trt) (s : list pprow) (t : nat) : option Q :=
  marginal_of s (predicted hz tr s) t.

(* the estimator with the saturated hazard model *)
Definition surv_predicted (tr : trt) (rows : list pprow) : list Q :=
  let s := sort_pp rows in predicted (cell_haz s) tr s.
Definition surv_marginal (tr : trt) (rows : list pprow) (t : nat) : option Q :=
  let s := sort_pp rows in marginal_at (cell_haz s) tr s t.
(* the same for a list of periods, the predictions computed once (what the run evaluates) *)
Definition surv_marginals (tr : trt) (rows : list pprow) (ts : list nat) : list (option Q) :=
  let s := sort_pp rows in let p := predicted (cell_haz s) tr s in map (marginal_of s p) ts.
(* the estimator with whatever hazards the fitted model returned (table indexed like the sorted rows) *)
Definition table_haz (s : list pprow) (tab : list Q) : list (pprow * Q) := combine s (map (fun h => 1 - h) tab).
Definition predicted_tab (s : list pprow) (tab : list Q) : list Q :=
  let fs := table_haz s tab in map (cuminc_fac fs) (seq 0 (length s)).

(* ------------------------------------------------------------------------------------------------ specification *)
(* discrete-time product-limit (Kaplan-Meier) cumulative incidence of arm a by period t:
   1 - prod_{k<=t} (1 - d_{a,k} / n_{a,k}),  d = events, n = person-periods at risk *)
Definition n_at (rows : list pprow) (a : bool) (k : nat) : Q := Qlen (filter (pp_cell a k) rows).
Definition d_at (rows : list pprow) (a : bool) (k : nat) : Q :=
  Qlen (filter (fun r => pp_cell a k r && Qeq_bool (pev r) 1) rows).
Definition product_limit (rows : list pprow) (a : bool) (t : nat) : Q :=
  1 - Qprod (fun k => 1 - d_at rows a k / n_at rows a k) (seq 1 t).

(* ------------------------------------------------------------------------------------------------ executable hypotheses *)
Fixpoint ln_eqb (a b : list nat) : bool :=
  match a, b with [], [] => true | x :: xs, y :: ys => (x =? y) && ln_eqb xs ys | _, _ => false end.
(* person-period format at position i of the sorted frame: the rows of that id so far are its periods 1..j in
   order, all with the same arm *)
Definition pp_wf_at (s : list pprow) (i : nat) : bool :=
  let r := nth i s pp0 in
  let own := filter (same_id r) (firstn (S i) s) in
  ln_eqb (map ptime own) (seq 1 (ptime r)) && forallb (fun x => Bool.eqb (parm x) (parm r)) own.
Definition pp_wfb (s : list pprow) : bool := forallb (pp_wf_at s) (seq 0 (length s)).
Definition pp_binaryb (s : list pprow) : bool := forallb (fun r => Qeq_bool (pev r) 0 || Qeq_bool (pev r) 1) s.

(* printer for values with 400-bit dyadic denominators (printing those in decimal dominates the evaluation):
   floor (q * 10^15), i.e. q to 15 decimals, error < 1e-15 *)
Definition Qapprox15 (l : list Q) : list Z := map (fun q => Qfloor (q * inject_Z (10 ^ 15))) l.
