(* Data-frame side of the effect-measure classes (zepid/base.py): cross-tabulation with missing values.
   Definitions only. *)
From Coq Require Import QArith ZArith List Bool.
From Zepid Require Import Base.QSum Base.QUtil Spec.Measures.
Import ListNotations.
Open Scope Q_scope.

(* one row: exposure level code, binary outcome, person-time; None = missing (NaN) *)
Record frow := { fe : option Z; fy : option bool; ft : option Q }.

Definition e_is (l : Z) (r : frow) : bool := match fe r with Some v => Z.eqb v l | None => false end.
Definition y_is (b : bool) (r : frow) : bool := match fy r with Some v => Bool.eqb v b | None => false end.
Definition y_obs (r : frow) : bool := match fy r with Some _ => true | None => false end.
Definition e_obs (r : frow) : bool := match fe r with Some _ => true | None => false end.
Definition complete (r : frow) : bool := e_obs r && y_obs r.

(* NaN compares false in a pandas mask: a row enters a cell only when both values are present and equal *)
Definition ncell (rows : list frow) (l : Z) (b : bool) : Q := Qlen (filter (fun r => e_is l r && y_is b r) rows).
(* person-time of a level among rows with exposure and outcome observed; a missing time contributes 0 (nansum) *)
Definition tval (r : frow) : Q := match ft r with Some t => t | None => 0 end.
Definition ptime (rows : list frow) (l : Z) : Q := Qsum tval (filter (fun r => e_is l r && y_obs r) rows).

Definition miss_ed (rows : list frow) : Q := Qlen (filter (fun r => negb (e_obs r) && negb (y_obs r)) rows).
Definition miss_e (rows : list frow) : Q := Qlen (filter (fun r => negb (e_obs r) && y_obs r) rows).
Definition miss_d (rows : list frow) : Q := Qlen (filter (fun r => e_obs r && negb (y_obs r)) rows).

(* the table of a level against the reference, textbook lettering *)
Definition table4 (rows : list frow) (ref l : Z) : Q * Q * Q * Q :=
  (ncell rows l true, ncell rows l false, ncell rows ref true, ncell rows ref false).

Definition measures_for (rows : list frow) (ref l : Z) : list Q :=
  let '(a, b, c, d) := table4 rows ref l in
  [a; b; c; d] ++ measures4 a b c d.
Definition rates_for (rows : list frow) (ref l : Z) : list Q :=
  let a := ncell rows l true in let c := ncell rows ref true in
  let t1 := ptime rows l in let t2 := ptime rows ref in
  [a; c; t1; t2] ++ measures_rate a c t1 t2.
Definition missing_counts (rows : list frow) : list Q := [miss_e rows; miss_d rows; miss_ed rows].
