(* C04 -- cross-fit estimators (zepid/causal/doublyrobust/crossfit.py).  Definitions only.
   Row identifiers are integers (Z); split / model positions are nat. *)
From Coq Require Import ZArith List Bool Arith Permutation.
Import ListNotations.

(* ------------------------------------------------------------------ small executable list helpers *)
Definition zmem (x : Z) (l : list Z) : bool := existsb (Z.eqb x) l.
Fixpoint nodup_b (l : list Z) : bool :=
  match l with [] => true | x :: t => negb (zmem x t) && nodup_b t end.
Fixpoint zlist_eqb (a b : list Z) : bool :=
  match a, b with
  | [], [] => true
  | x :: a', y :: b' => Z.eqb x y && zlist_eqb a' b'
  | _, _ => false
  end.
Fixpoint zcount (x : Z) (l : list Z) : nat :=
  match l with [] => O | y :: t => (if Z.eqb x y then 1 else 0) + zcount x t end.

(* data_to_sample.loc[data_to_sample.index.difference(s.index)] : the remainder keeps the (sorted) frame order *)
Definition remove_all (s rem : list Z) : list Z := filter (fun x => negb (zmem x s)) rem.

(* ------------------------------------------------------------------ _sample_split_ *)
Section Split.
  (* oracle for DataFrame.sample(n=m, random_state=RandomState(seed)) : receiver's ids, m |-> sampled ids *)
  Variable pick : list Z -> nat -> list Z.

  (* for i in range(n_splits-1): s = sample(n); splits.append(s); data_to_sample = remainder;  then append remainder *)
  Fixpoint split_loop (j m : nat) (rem : list Z) : list (list Z) :=
    match j with
    | O => [rem]
    | S j' => let s := pick rem m in s :: split_loop j' m (remove_all s rem)
    end.

  (* n = int(data.shape[0] / n_splits) *)
  Definition sample_split (rows : list Z) (k : nat) : list (list Z) :=
    split_loop (k - 1) (length rows / k) rows.
End Split.

(* what the theorems assume of DataFrame.sample (validated on every recorded call) *)
Definition PickSpec (pick : list Z -> nat -> list Z) : Prop :=
  forall rem m, NoDup rem -> m <= length rem ->
    NoDup (pick rem m) /\ incl (pick rem m) rem /\ length (pick rem m) = m.
Definition pick_ok_b (rem : list Z) (m : nat) (out : list Z) : bool :=
  nodup_b out && forallb (fun x => zmem x rem) out && (length out =? m).

(* table-driven oracle used by the correspondence run: the recorded (receiver, result) pairs of this partition *)
Fixpoint lookup_pick (tbl : list (list Z * list Z)) (rem : list Z) : option (list Z) :=
  match tbl with
  | [] => None
  | (r, s) :: t => if zlist_eqb r rem then Some s else lookup_pick t rem
  end.
Definition pick_tbl (tbl : list (list Z * list Z)) (rem : list Z) (m : nat) : list Z :=
  match lookup_pick tbl rem with Some s => s | None => firstn m rem end.

(* ------------------------------------------------------------------ Python list indexing, taken literally *)
(* l[z] for a list of length len: Some position, None = IndexError *)
Definition py_index (len : nat) (z : Z) : option nat :=
  if (0 <=? z)%Z then (if (z <? Z.of_nat len)%Z then Some (Z.to_nat z) else None)
  else if (0 <=? Z.of_nat len + z)%Z then Some (Z.to_nat (Z.of_nat len + z)) else None.

(* pairing_exposure = [i - 1 for i in range(n_splits)]
   pairing_outcome  = pairing_exposure (single) | [i - 2 for i in range(n_splits)] (double) *)
Definition pairing_exposure (k : nat) : list Z := map (fun i => (Z.of_nat i - 1)%Z) (seq 0 k).
Definition pairing_outcome (double : bool) (k : nat) : list Z :=
  if double then map (fun i => (Z.of_nat i - 2)%Z) (seq 0 k) else pairing_exposure k.

(* ------------------------------------------------------------------ schedule of calls to the user's learners *)
Inductive role := RA | RY.                 (* treatment learner / outcome learner *)
Inductive pkind := PA | PY1 | PY0.         (* Pr(A=1|L) ; E(Y|A=1,L) ; E(Y|A=0,L) *)
Inductive event :=
| Fit (r : role) (j : nat) (ids : list Z)          (* j-th deep copy of learner r fitted on ids *)
| Predict (p : pkind) (j : nat) (ids : list Z).    (* the copy fitted j-th is asked to predict ids *)

Definition role_of (p : pkind) : role := match p with PA => RA | _ => RY end.
Definition role_eqb (a b : role) : bool := match a, b with RA, RA | RY, RY => true | _, _ => false end.
Definition pkind_eqb (a b : pkind) : bool :=
  match a, b with PA, PA | PY1, PY1 | PY0, PY0 => true | _, _ => false end.

(* _treatment_nuisance_ / _outcome_nuisance_ : one deep copy fitted per split, in order *)
Fixpoint fits_from (r : role) (off : nat) (sp : list (list Z)) : list event :=
  match sp with [] => [] | s :: t => Fit r off s :: fits_from r (S off) t end.
Definition fits (r : role) (sp : list (list Z)) : list event := fits_from r 0 sp.

(* one turn of `for id, ep, op in zip(range(n_splits), pairing_exposure, pairing_outcome)` *)
Definition pred_step (sp : list (list Z)) (iep : nat * (Z * Z)) : option (list event) :=
  let '(i, (ep, op)) := iep in
  match py_index (length sp) ep, py_index (length sp) op with
  | Some ja, Some jy =>
      let s := nth i sp [] in Some [Predict PA ja s; Predict PY1 jy s; Predict PY0 jy s]
  | _, _ => None
  end.
Fixpoint opt_concat {A} (l : list (option (list A))) : option (list A) :=
  match l with
  | [] => Some []
  | None :: _ => None
  | Some x :: t => match opt_concat t with Some r => Some (x ++ r) | None => None end
  end.
Definition schedule (double : bool) (k : nat) (sp : list (list Z)) : option (list event) :=
  match opt_concat (map (pred_step sp)
                        (combine (seq 0 k) (combine (pairing_exposure k) (pairing_outcome double k)))) with
  | Some ps => Some (fits RA sp ++ fits RY sp ++ ps)
  | None => None
  end.

(* ------------------------------------------------------------------ one partition, with the guards of fit() *)
Inductive result :=
| RValueError                                   (* n_splits < 2 (single) / < 3 (double) *)
| RIndexError                                   (* a pairing index outside the model list *)
| ROk (sp : list (list Z)) (evs : list event).
Definition min_splits (double : bool) : nat := if double then 3 else 2.
Definition crossfit_partition (double : bool) (pick : list Z -> nat -> list Z) (rows : list Z) (k : nat) : result :=
  if k <? min_splits double then RValueError
  else let sp := sample_split pick rows k in
       match schedule double k sp with Some evs => ROk sp evs | None => RIndexError end.

(* fit(): seeds = RandomState(random_state).choice(range(5000000), size=n_partitions, replace=False);
   partition j uses seeds[j].  `choice` and the seeded sampler are oracles (functions of their arguments);
   `est` stands for everything computed from a partition's splits by deterministic learners. *)
Section Fit.
  Variable E : Type.
  Variable choice : Z -> nat -> list Z.
  Variable pick_of : Z -> list Z -> nat -> list Z.
  Variable est : list (list Z) -> E.
  Definition partition_estimate (r : result) : option E :=
    match r with ROk sp _ => Some (est sp) | _ => None end.
  Definition crossfit_fit (double : bool) (rows : list Z) (k nparts : nat) (random_state : Z)
    : list (result * option E) :=
    map (fun seed => let r := crossfit_partition double (pick_of seed) rows k in (r, partition_estimate r))
        (firstn nparts (choice random_state nparts)).
End Fit.

(* ------------------------------------------------------------------ the specification, as predicates on what was observed *)
(* ids predicted for nuisance p, over the whole log *)
Definition pred_ids (p : pkind) (evs : list event) : list Z :=
  flat_map (fun e => match e with Predict q _ ids => if pkind_eqb p q then ids else [] | _ => [] end) evs.
Definition fit_sets (r : role) (j : nat) (evs : list event) : list (list Z) :=
  flat_map (fun e => match e with Fit r' j' ids => if role_eqb r r' && (j =? j') then [ids] else [] | _ => [] end) evs.

(* every analysed row is predicted exactly once per nuisance, by a copy fitted (once) on rows not containing it *)
Definition NoLeak (evs : list event) (rows : list Z) : Prop :=
  forall x, In x rows -> forall p,
    zcount x (pred_ids p evs) = 1 /\
    forall j ids, In (Predict p j ids) evs -> In x ids ->
      exists tr, fit_sets (role_of p) j evs = [tr] /\ ~ In x tr.

(* double cross-fit: the treatment and the outcome learner used for a row were fitted on two different
   (here: disjoint) parts *)
Definition DoubleSep (evs : list event) : Prop :=
  forall x p ja jy ia iy, p <> PA ->
    In (Predict PA ja ia) evs -> In x ia -> In (Predict p jy iy) evs -> In x iy ->
    ja <> jy /\
    forall ta ty, In ta (fit_sets RA ja evs) -> In ty (fit_sets RY jy evs) -> forall z, In z ta -> ~ In z ty.

Definition PartitionSpec (rows : list Z) (k : nat) (sp : list (list Z)) : Prop :=
  length sp = k /\
  NoDup (concat sp) /\
  Permutation (concat sp) rows /\
  (forall i, i < k - 1 -> length (nth i sp []) = length rows / k) /\
  length (nth (k - 1) sp []) = length rows - (k - 1) * (length rows / k).

(* executable versions, evaluated on the implementation's own log / splits *)
Definition partition_ok_b (rows : list Z) (k : nat) (sp : list (list Z)) : bool :=
  (length sp =? k) && nodup_b (concat sp) && (length (concat sp) =? length rows)
  && forallb (fun x => zmem x (concat sp)) rows
  && forallb (fun i => length (nth i sp []) =? length rows / k) (seq 0 (k - 1))
  && (length (nth (k - 1) sp []) =? length rows - (k - 1) * (length rows / k)).

Definition no_leak_b (evs : list event) (rows : list Z) : bool :=
  forallb (fun x => forallb (fun p =>
    (zcount x (pred_ids p evs) =? 1) &&
    forallb (fun e => match e with
                      | Predict q j ids =>
                          if pkind_eqb p q && zmem x ids
                          then match fit_sets (role_of p) j evs with [tr] => negb (zmem x tr) | _ => false end
                          else true
                      | _ => true end) evs) [PA; PY1; PY0]) rows.

Definition disjoint_b (a b : list Z) : bool := forallb (fun z => negb (zmem z b)) a.
Definition double_sep_b (evs : list event) : bool :=
  forallb (fun ea => match ea with
    | Predict PA ja ia =>
        forallb (fun ey => match ey with
          | Predict PA _ _ => true
          | Predict _ jy iy =>
              if disjoint_b ia iy then true
              else negb (ja =? jy) &&
                   forallb (fun ta => forallb (fun ty => disjoint_b ta ty) (fit_sets RY jy evs)) (fit_sets RA ja evs)
          | _ => true end) evs
    | _ => true end) evs.

(* ------------------------------------------------------------------ printing for the correspondence run *)
Definition zn (n : nat) : Z := Z.of_nat n.
Definition enc_event (e : event) : Z * Z * list Z :=
  match e with
  | Fit RA j ids => (0%Z, zn j, ids)
  | Fit RY j ids => (1%Z, zn j, ids)
  | Predict PA j ids => (2%Z, zn j, ids)
  | Predict PY1 j ids => (3%Z, zn j, ids)
  | Predict PY0 j ids => (4%Z, zn j, ids)
  end.
Definition dec_event (t : Z * Z * list Z) : event :=
  let '(tag, j, ids) := t in
  let jn := Z.to_nat j in
  if (tag =? 0)%Z then Fit RA jn ids else if (tag =? 1)%Z then Fit RY jn ids
  else if (tag =? 2)%Z then Predict PA jn ids else if (tag =? 3)%Z then Predict PY1 jn ids
  else Predict PY0 jn ids.
(* status 0 = ok, 1 = ValueError, 2 = IndexError *)
Definition print_result (r : result) : Z * list (list Z) * list (Z * Z * list Z) :=
  match r with
  | RValueError => (1%Z, [], [])
  | RIndexError => (2%Z, [], [])
  | ROk sp evs => (0%Z, sp, map enc_event evs)
  end.
