(* C12 -- IterativeCondGFormula (zepid/causal/gformula/TimeVary.py) and the one-time-point TimeFixedGFormula
   (zepid/causal/gformula/TimeFixed.py) on wide data, and the nonparametric g-formula.  Definitions only. *)
From Coq Require Import QArith ZArith List Bool Arith.
From Zepid Require Import Base.QSum Base.QUtil.
Import ListNotations.
Open Scope Q_scope.

(* ------------------------------------------------------------------------------------------------ wide data *)
(* one time point of one individual: treatment A_k, binary covariate L_k, outcome Y_k (None = NaN) *)
Record obs := mkObs { tr : option bool; cov : option bool; out : option Q }.
Definition nob : obs := mkObs None None None.
Definition row := list obs.                      (* time points 0 .. K-1 *)
Definition ob (r : row) (k : nat) : obs := nth k r nob.

Definition is_some {A} (o : option A) : bool := match o with Some _ => true | None => false end.
Definition oval (o : option Q) : Q := match o with Some v => v | None => 0 end.

Fixpoint opt_all (l : list (option bool)) : option (list bool) :=
  match l with
  | [] => Some []
  | x :: xs => match x, opt_all xs with Some b, Some bs => Some (b :: bs) | _, _ => None end
  end.
(* history of the first m time points of a column; None when any entry is missing *)
Definition histn (f : obs -> option bool) (r : row) (m : nat) : option (list bool) := opt_all (map f (firstn m r)).

Fixpoint lb_eqb (a b : list bool) : bool :=
  match a, b with
  | [], [] => true
  | x :: xs, y :: ys => Bool.eqb x y && lb_eqb xs ys
  | _, _ => false
  end.
Definition oeqb (o : option (list bool)) (l : list bool) : bool := match o with Some x => lb_eqb x l | None => false end.

(* ------------------------------------------------------------------------------------------------ regression oracle *)
(* a cell of the design of the k-th sequential regression: (treatment history, covariate history), both of
   length k+1.  A training row is (cell or None when a model variable is missing, response or None = NaN);
   patsy drops rows with a None. *)
Definition cell := (list bool * list bool)%type.
Definition cell_eqb (c d : cell) : bool := lb_eqb (fst c) (fst d) && lb_eqb (snd c) (snd d).
Definition trainrow := (option cell * option Q)%type.
Definition in_train (c : cell) (t : trainrow) : bool :=
  match fst t, snd t with Some d, Some _ => cell_eqb d c | _, _ => false end.
Definition regressor := list trainrow -> cell -> option Q.

(* the oracle of a model saturated in the cells: prediction = mean response of the training rows of the cell
   (None: the cell is empty, the fitted model says nothing determinate there) *)
Definition cellmean_reg : regressor := fun train c =>
  let sel := filter (in_train c) train in
  match sel with
  | [] => None
  | _ => Some (Qred (Qsumr (fun t => oval (snd t)) sel / Qlen sel))
  end.

Definition tcell (r : row) (m : nat) : option cell :=
  match histn tr r m, histn cov r m with Some a, Some l => Some (a, l) | _, _ => None end.

(* ------------------------------------------------------------------------------------------------ treatment plans *)
Definition planrow := list bool.
Inductive plan_spec :=
| PlanRow (p : planrow)              (* treatments=[a_0, .., a_{K-1}] : tiled over the individuals *)
| PlanRows (ps : list planrow).      (* one row per individual *)

(* as documented: "either a single row or the same number of rows as the input DataFrame", K columns *)
Definition expand_plan (n K : nat) (s : plan_spec) : option (list planrow) :=
  match s with
  | PlanRow p => if length p =? K then Some (repeat p n) else None
  | PlanRows ps => if (length ps =? n) && forallb (fun p => length p =? K) ps then Some ps else None
  end.

(* ------------------------------------------------------------------------------------------------ the backward loop *)
Definition rp := (row * planrow)%type.

(* df[d] = np.where(df[prior_predict].isna(), df[d], df[prior_predict]) *)
Definition pseudo (k : nat) (r : row) (p : option Q) : option Q :=
  match p with Some v => Some v | None => out (ob r k) end.

(* smf.glm(d ~ m_k, df): model k uses A_0..A_k and L_0..L_k *)
Definition train_of (k : nat) (rps : list rp) (ps : list (option Q)) : list trainrow :=
  map (fun x => (tcell (fst (fst x)) (S k), snd x)) (combine rps ps).

(* tf[exposure] = tf[treat_plan]; df[pred] = np.where(df[d].isna(), nan, fm.predict(tf)) *)
Definition predict_row (fm : cell -> option Q) (k : nat) (x : rp * option Q) : option Q :=
  match snd x with
  | None => None
  | Some _ => match histn cov (fst (fst x)) (S k) with
              | None => None
              | Some lh => fm (firstn (S k) (snd (fst x)), lh)
              end
  end.

Definition pseudo_col (k : nat) (rps : list rp) (pred : list (option Q)) : list (option Q) :=
  map (fun x => pseudo k (fst (fst x)) (snd x)) (combine rps pred).

Definition icg_step (reg : regressor) (k : nat) (rps : list rp) (pred : list (option Q)) : list (option Q) :=
  let ps := pseudo_col k rps pred in
  let fm := reg (train_of k rps ps) in
  map (predict_row fm k) (combine rps ps).

(* time points K-1, K-2, .., 0 (the first pass has no earlier prediction: pred = all None) *)
Fixpoint icg_loop (reg : regressor) (k : nat) (rps : list rp) (pred : list (option Q)) : list (option Q) :=
  match k with
  | O => pred
  | S k' => icg_loop reg k' rps (icg_step reg k' rps pred)
  end.

Fixpoint somes (l : list (option Q)) : list Q :=
  match l with [] => [] | Some v :: xs => v :: somes xs | None :: xs => somes xs end.
(* np.mean of a Series skips NaN; NaN when nothing is left *)
Definition mean_skipna (l : list (option Q)) : option Q :=
  let ys := somes l in
  match ys with [] => None | _ => Some (Qred (Qsumr (fun y => y) ys / Qlen ys)) end.

(* None = ValueError (plan of the wrong shape), Some None = NaN, Some (Some v) = marginal_outcome *)
Definition icg_fit_gen (reg : regressor) (K : nat) (s : plan_spec) (rows : list row) : option (option Q) :=
  match expand_plan (length rows) K s with
  | None => None
  | Some plans => Some (mean_skipna (icg_loop reg K (combine rows plans) (repeat None (length rows))))
  end.
Definition icg_fit := icg_fit_gen cellmean_reg.

(* the intermediates the run compares: for k = K-1 .. 0 the response column handed to the k-th regression and
   the prediction column that comes back *)
Fixpoint icg_trace (reg : regressor) (k : nat) (rps : list rp) (pred : list (option Q))
  : list (list (option Q) * list (option Q)) :=
  match k with
  | O => []
  | S k' => let ps := pseudo_col k' rps pred in
            let pr := icg_step reg k' rps pred in
            (ps, pr) :: icg_trace reg k' rps pr
  end.
Definition icg_trace_of (K : nat) (s : plan_spec) (rows : list row) :=
  match expand_plan (length rows) K s with
  | None => []
  | Some plans => icg_trace cellmean_reg K (combine rows plans) (repeat None (length rows))
  end.

(* ------------------------------------------------------------------------------------------------ TimeFixedGFormula, one time point *)
(* binary exposure, no weights, standardize='population': rows with missing A or L are dropped, the outcome
   model is fitted on rows with Y, every kept row is predicted under A := a, np.mean of the predictions *)
Definition tfg_fit (reg : regressor) (a : bool) (rows : list obs) : option Q :=
  let kept := filter (fun o => is_some (tr o) && is_some (cov o)) rows in
  let train := map (fun o => (match tr o, cov o with Some x, Some l => Some ([x], [l]) | _, _ => None end, out o)) kept in
  let fm := reg train in
  mean_skipna (map (fun o => match cov o with Some l => fm ([a], [l]) | None => None end) kept).

(* ------------------------------------------------------------------------------------------------ specification *)
(* event-free through the time points 0 .. k-1 *)
Definition event_free (y : option Q) : bool := match y with Some v => Qeq_bool v 0 | None => false end.
Definition survivedb (r : row) (k : nat) : bool := forallb (fun j => event_free (out (ob r j))) (seq 0 k).

(* still event-free at the start of interval k, with treatment history ah and covariate history lh *)
Definition riskset (k : nat) (ah lh : list bool) (r : row) : bool :=
  survivedb r k && oeqb (histn tr r (length ah)) ah && oeqb (histn cov r (length lh)) lh.
Definition Ncell (rows : list row) (k : nat) (ah lh : list bool) : Q := Qlen (filter (riskset k ah lh) rows).

(* discrete hazard of interval k among those who followed the plan through k and have covariate history lh
   (|lh| = k+1): cell mean of Y_k *)
Definition haz (plan : planrow) (rows : list row) (k : nat) (lh : list bool) : Q :=
  let c := filter (riskset k (firstn (S k) plan) lh) rows in
  Qsum (fun r => oval (out (ob r k))) c / Qlen c.
(* P(L_k = l | event-free at k, followed the plan through k-1, covariate history lh), |lh| = k *)
Definition fprop (plan : planrow) (rows : list row) (k : nat) (lh : list bool) (l : bool) : Q :=
  Ncell rows k (firstn k plan) (lh ++ [l]) / Ncell rows k (firstn k plan) lh.

(* nested form: risk accumulated from interval k on, given covariate history lh (|lh| = k), d intervals left *)
Fixpoint np_rec (plan : planrow) (rows : list row) (d k : nat) (lh : list bool) : Q :=
  match d with
  | O => 0
  | S d' => Qsum (fun l => fprop plan rows k lh l *
                           (haz plan rows k (lh ++ [l]) + (1 - haz plan rows k (lh ++ [l])) * np_rec plan rows d' (S k) (lh ++ [l])))
                 [false; true]
  end.
Definition np_gformula (plan : planrow) (rows : list row) : Q := np_rec plan rows (length plan) 0 [].

(* textbook (flat) form:  sum_k sum_{l_0..l_k} h_k * prod_{j<k} (1-h_j) * prod_{j<=k} f_j *)
Fixpoint all_hists (m : nat) : list (list bool) :=
  match m with O => [[]] | S m' => map (cons false) (all_hists m') ++ map (cons true) (all_hists m') end.
Fixpoint Qprod {A} (f : A -> Q) (l : list A) : Q := match l with [] => 1 | x :: xs => f x * Qprod f xs end.
Definition np_term (plan : planrow) (rows : list row) (k : nat) (lh : list bool) : Q :=
  Qprod (fun j => fprop plan rows j (firstn j lh) (nth j lh false)) (seq 0 (S k)) *
  Qprod (fun j => 1 - haz plan rows j (firstn (S j) lh)) (seq 0 k) *
  haz plan rows k lh.
Definition np_gformula_flat (plan : planrow) (rows : list row) : Q :=
  Qsum (fun k => Qsum (np_term plan rows k) (all_hists (S k))) (seq 0 (length plan)).

(* one time point: standardisation over the covariate strata *)
Definition std1 (a : bool) (os : list obs) : Q :=
  Qsum (fun l => let s := filter (fun o => oeqb (opt_all [cov o]) [l]) os in
                 let c := filter (fun o => oeqb (opt_all [tr o]) [a]) s in
                 (Qlen s / Qlen os) * (Qsum (fun o => oval (out o)) c / Qlen c)) [false; true].

(* ------------------------------------------------------------------------------------------------ executable hypotheses *)
(* survival-type rows: K time points; Y_k is present exactly while event-free, is 0 or 1, and A_k, L_k are
   present while Y_k is *)
Definition surv_wfb (K : nat) (r : row) : bool :=
  (length r =? K) &&
  forallb (fun k => Bool.eqb (is_some (out (ob r k))) (survivedb r k) &&
                    match out (ob r k) with Some y => Qeq_bool y 0 || Qeq_bool y 1 | None => true end &&
                    (negb (is_some (out (ob r k))) || (is_some (tr (ob r k)) && is_some (cov (ob r k)))))
          (seq 0 K).
(* positivity: every covariate history seen among those at risk at k also occurs, at risk at k, under the plan *)
Definition positivityb (plan : planrow) (rows : list row) : bool :=
  forallb (fun k => forallb (fun r => negb (survivedb r k) ||
                                      match histn cov r (S k) with
                                      | Some lh => existsb (riskset k (firstn (S k) plan) lh) rows
                                      | None => false
                                      end) rows)
          (seq 0 (length plan)).

(* printers for the run *)
Definition icg_print (o : option (option Q)) : list Z :=
  match o with None => [2%Z; 0%Z] | Some None => [0%Z; 0%Z] | Some (Some v) => Qpair v end.
