(* Model of zepid/causal/causalgraph/dag.py (DirectedAcyclicGraph) -- definitions only.

   graph      = node list in insertion order (as networkx keeps it) + edge list in insertion order, over nat
   programs   = add_arrow / add_arrows / add_from_networkx; a cycle-creating call returns None (the
                implementation raises DAGError) and the state machine keeps the previous graph
   valid_alg  = _check_valid_adjustment_set_, step by step, with moralisation done from a SNAPSHOT of the
                parent lists (the order-independent, repaired algorithm)
   valid_old  = the same with the moralisation loop exactly as shipped: directed marriage edges are
                appended to the graph that is being iterated (design defect D8)
   valid_spec = the property: no descendant of the exposure in Z, and exposure/outcome not d-connected
                (active walks with arrival direction) in the graph without the exposure's out-arrows
   valid_specb= its executable rendering (closure over walk states); valid_pathb = the textbook
                path-by-path rendering (simple paths of the skeleton, collider / non-collider test). *)
From Coq Require Import List Arith Bool PeanoNat Relations NArith.
Import ListNotations.

(* ------------------------------------------------------------------ transitive closure (Warshall) *)
Section Closure.
  Context {A : Type} (eqb : A -> A -> bool).

  Definition memb (a : A) (l : list A) : bool := existsb (eqb a) l.
  Definition unionb (a b : list A) : list A := a ++ filter (fun v => negb (memb v a)) b.

  Fixpoint look (T : list (A * list A)) (u : A) : list A :=
    match T with
    | [] => []
    | (k, s) :: T' => if eqb u k then s else look T' u
    end.

  (* memoise f on univ (call-by-value: the table is built once, when the closure is created) *)
  Definition tabulate (univ : list A) (f : A -> list A) : A -> list A :=
    let T := map (fun u => (u, f u)) univ in fun u => look T u.

  (* allow k as an intermediate node *)
  Definition tc_step (univ : list A) (s : A -> list A) (k : A) : A -> list A :=
    let sk := s k in
    tabulate univ (fun u => let su := s u in if memb k su then unionb su sk else su).

  (* tc univ succ u = the nodes reachable from u in >= 1 step (u in univ; intermediates in univ) *)
  Definition tc (univ : list A) (succ : A -> list A) : A -> list A :=
    fold_left (tc_step univ) univ (tabulate univ succ).
End Closure.

(* ------------------------------------------------------------------ graphs *)
Record graph := mkG { nodes : list nat; edges : list (nat * nat) }.

Definition mem : nat -> list nat -> bool := memb Nat.eqb.
Definition edge_eqb (e f : nat * nat) : bool := (fst e =? fst f) && (snd e =? snd f).
Definition has_edge (es : list (nat * nat)) (u v : nat) : bool :=
  existsb (fun e => (fst e =? u) && (snd e =? v)) es.
Definition succs (es : list (nat * nat)) (u : nat) : list nat := map snd (filter (fun e => fst e =? u) es).
Definition preds (es : list (nat * nat)) (v : nat) : list nat := map fst (filter (fun e => snd e =? v) es).

(* R u = strict descendants of u (networkx.descendants); ancestors are read off the same table *)
Definition reach_tbl (ns : list nat) (es : list (nat * nat)) : nat -> list nat := tc Nat.eqb ns (succs es).
Definition descendants (g : graph) (u : nat) : list nat := reach_tbl (nodes g) (edges g) u.
Definition ancestors (g : graph) (t : nat) : list nat :=
  let R := reach_tbl (nodes g) (edges g) in filter (fun v => mem t (R v)) (nodes g).
Definition is_dag_tbl (ns : list nat) (R : nat -> list nat) : bool := forallb (fun u => negb (mem u (R u))) ns.
Definition is_dag (g : graph) : bool := is_dag_tbl (nodes g) (reach_tbl (nodes g) (edges g)).

(* ------------------------------------------------------------------ building graphs (networkx semantics) *)
Definition add_node (n : nat) (ns : list nat) : list nat := if mem n ns then ns else ns ++ [n].
Definition add_edge_raw (g : graph) (u v : nat) : graph :=
  mkG (add_node v (add_node u (nodes g)))
      (if has_edge (edges g) u v then edges g else edges g ++ [(u, v)]).
Definition add_edges_raw (g : graph) (ps : list (nat * nat)) : graph :=
  fold_left (fun g p => add_edge_raw g (fst p) (snd p)) ps g.

Definition empty_graph : graph := mkG [] [].
Definition init_graph (x y : nat) : graph := add_edge_raw empty_graph x y.   (* __init__ *)

Definition add_arrow (g : graph) (u v : nat) : option graph :=
  let g' := add_edge_raw g u v in if is_dag g' then Some g' else None.
Definition add_arrows (g : graph) (ps : list (nat * nat)) : option graph :=
  let g' := add_edges_raw g ps in if is_dag g' then Some g' else None.
(* network = DiGraph(); add_nodes_from(ns); add_edges_from(es)  (ns duplicate-free) *)
Definition from_networkx (x y : nat) (ns : list nat) (es : list (nat * nat)) : option graph :=
  let g' := add_edges_raw (mkG ns []) es in
  if is_dag g' && mem x (nodes g') && mem y (nodes g') then Some g' else None.

Inductive op :=
| AddArrow (u v : nat)
| AddArrows (ps : list (nat * nat))
| FromNx (ns : list nat) (es : list (nat * nat)).

Definition apply_op (x y : nat) (g : graph) (o : op) : option graph :=
  match o with
  | AddArrow u v => add_arrow g u v
  | AddArrows ps => add_arrows g ps
  | FromNx ns es => from_networkx x y ns es
  end.
(* a rejected call raises and leaves the object as it was *)
Definition step_op (x y : nat) (g : graph) (o : op) : graph :=
  match apply_op x y g o with Some g' => g' | None => g end.
Definition run_prog (x y : nat) (p : list op) : graph := fold_left (step_op x y) p (init_graph x y).

(* what `list(dag.edges)` shows: by source in node order, then insertion order (also the order in which
   DiGraph.copy() re-inserts the edges, hence the order of every predecessor list inside the check) *)
Definition edges_view (g : graph) : list (nat * nat) :=
  flat_map (fun u => filter (fun e => fst e =? u) (edges g)) (nodes g).

(* trace of a program: after every call (accepted?, nodes, edges as viewed) *)
Fixpoint trace_prog (x y : nat) (g : graph) (p : list op) : list (bool * (list nat * list (nat * nat))) :=
  match p with
  | [] => []
  | o :: p' =>
      match apply_op x y g o with
      | Some g' => (true, (nodes g', edges_view g')) :: trace_prog x y g' p'
      | None => (false, (nodes g, edges_view g)) :: trace_prog x y g p'
      end
  end.

(* ------------------------------------------------------------------ the algorithm *)
(* Step 2: keep x, y, Z and every ancestor (in the ORIGINAL graph) of one of them *)
Definition keep_nodes (R : nat -> list nat) (ns : list nat) (xyz : list nat) : list nat :=
  filter (fun v => mem v xyz || existsb (fun t => mem t (R v)) xyz) ns.
Definition sub_edges (keep : list nat) (es : list (nat * nat)) : list (nat * nat) :=
  filter (fun e => mem (fst e) keep && mem (snd e) keep) es.
(* Step 3 *)
Definition drop_out (x : nat) (es : list (nat * nat)) : list (nat * nat) := filter (fun e => negb (fst e =? x)) es.

Fixpoint pairs {A : Type} (l : list A) : list (A * A) :=       (* itertools.combinations(l, 2) *)
  match l with
  | [] => []
  | a :: t => map (pair a) t ++ pairs t
  end.
(* Step 4, repaired: marriages computed from the parent lists of the graph as it is BEFORE any marriage *)
Definition marriages (es : list (nat * nat)) (keep : list nat) : list (nat * nat) :=
  flat_map (fun n => pairs (preds es n)) keep.
(* Step 4, as shipped: `for n in dag: sources = list(dag.predecessors(n)); for s1, s2 in combinations(sources, 2):
   if not (dag.has_edge(s2, s1) or dag.has_edge(s1, s2)): dag.add_edge(s1, s2)` -- the new arrow s1 -> s2 makes
   s1 a predecessor of s2 for every later n *)
Definition marry_old (es : list (nat * nat)) (n : nat) : list (nat * nat) :=
  fold_left (fun es p => if has_edge es (snd p) (fst p) || has_edge es (fst p) (snd p) then es else es ++ [p])
            (pairs (preds es n)) es.
Definition moralise_old (es : list (nat * nat)) (keep : list nat) : list (nat * nat) := fold_left marry_old keep es.

(* Steps 5, 6: forget directions, delete Z, path between x and y? *)
Definition uadj (es : list (nat * nat)) (u v : nat) : bool := has_edge es u v || has_edge es v u.
Definition connected (U : list nat) (adj : nat -> nat -> bool) (x y : nat) : bool :=
  (x =? y) || mem y (tc Nat.eqb U (fun u => filter (adj u) U) x).

Definition valid_core (old : bool) (R : nat -> list nat) (ns : list nat) (es : list (nat * nat))
           (x y : nat) (Z : list nat) : bool :=
  if existsb (fun z => mem z (R x)) Z then false          (* Step 1 *)
  else
    let keep := keep_nodes R ns (x :: y :: Z) in
    let es2 := drop_out x (sub_edges keep es) in
    let mes := if old then moralise_old es2 keep else es2 ++ marriages es2 keep in
    let U := filter (fun v => negb (mem v Z)) keep in
    negb (connected U (uadj mes) x y).

Definition valid_alg (g : graph) (x y : nat) (Z : list nat) : bool :=
  valid_core false (reach_tbl (nodes g) (edges g)) (nodes g) (edges g) x y Z.
(* the shipped loop works on `graph.copy()`: edges (hence parent lists) ordered by source in node order *)
Definition valid_old (g : graph) (x y : nat) (Z : list nat) : bool :=
  valid_core true (reach_tbl (nodes g) (edges g)) (nodes g) (edges_view g) x y Z.

(* ------------------------------------------------------------------ enumeration of candidate sets *)
Fixpoint combs {A : Type} (l : list A) (k : nat) : list (list A) :=     (* itertools.combinations(l, k) *)
  match k, l with
  | 0, _ => [[]]
  | S _, [] => []
  | S k', a :: t => map (cons a) (combs t k') ++ combs t k
  end.
Definition all_subsets {A : Type} (l : list A) : list (list A) := flat_map (combs l) (seq 0 (S (length l))).
Definition candidates (g : graph) (x y : nat) : list (list nat) :=
  all_subsets (filter (fun v => negb (v =? x) && negb (v =? y)) (nodes g)).

Definition adjustment_sets_with (old : bool) (g : graph) (x y : nat) : list (list nat) :=
  let R := reach_tbl (nodes g) (edges g) in
  let ns := nodes g in
  let es := if old then edges_view g else edges g in
  filter (valid_core old R ns es x y) (candidates g x y).
Definition adjustment_sets := adjustment_sets_with false.
Definition adjustment_sets_old := adjustment_sets_with true.

(* `[s for s in valid if len(s) == len(min(valid, key=len))]` (an empty `valid` gives [] without evaluating min) *)
Definition min_len (s0 : list nat) (rest : list (list nat)) : nat :=
  fold_left (fun m s => Nat.min m (length s)) rest (length s0).
Definition minimal_of (vs : list (list nat)) : list (list nat) :=
  match vs with
  | [] => []
  | s0 :: rest => filter (fun s => length s =? min_len s0 rest) vs
  end.
Definition minimal_adjustment_sets (g : graph) (x y : nat) := minimal_of (adjustment_sets g x y).

(* ------------------------------------------------------------------ the specification *)
Section Spec.
  Variable g : graph.
  Variables x y : nat.
  Variable Z : list nat.

  Definition Edge (u v : nat) : Prop := In (u, v) (edges g).
  Definition EdgeH (u v : nat) : Prop := In (u, v) (edges g) /\ u <> x.      (* arrows out of x removed *)
  Definition Desc (u v : nat) : Prop := clos_trans nat Edge u v.             (* v is a descendant of u *)
  Definition AnZ (v : nat) : Prop := exists z, In z Z /\ clos_refl_trans nat EdgeH v z.

  (* active walks from x; the flag is the arrival direction: true = against an arrow (or the start),
     false = along an arrow *)
  Inductive walk : nat -> bool -> Prop :=
  | w_start : walk x true
  | w_up_parent v p : walk v true -> ~ In v Z -> EdgeH p v -> walk p true          (* chain  <- v <- *)
  | w_up_child v c : walk v true -> ~ In v Z -> EdgeH v c -> walk c false          (* fork   <- v -> *)
  | w_down_child v c : walk v false -> ~ In v Z -> EdgeH v c -> walk c false       (* chain  -> v -> *)
  | w_down_parent v p : walk v false -> AnZ v -> EdgeH p v -> walk p true.         (* collider -> v <- *)

  Definition dconn : Prop := exists d, walk y d.
  Definition valid_spec : Prop := (forall z, In z Z -> ~ Desc x z) /\ ~ dconn.
End Spec.

(* executable rendering: closure over walk states (node, arrival direction) *)
Definition st := (nat * bool)%type.
Definition st_eqb (a b : st) : bool := (fst a =? fst b) && Bool.eqb (snd a) (snd b).
Definition states (ns : list nat) : list st := flat_map (fun v => [(v, true); (v, false)]) ns.
Definition walk_succ (eH : list (nat * nat)) (Z : list nat) (anz : nat -> bool) (s : st) : list st :=
  let (v, d) := s in
  let ups := map (fun p => (p, true)) (preds eH v) in
  let downs := map (fun c => (c, false)) (succs eH v) in
  if d then (if mem v Z then [] else ups ++ downs)
  else (if mem v Z then [] else downs) ++ (if anz v then ups else []).

Definition dconnb_core (RH : nat -> list nat) (ns : list nat) (eH : list (nat * nat)) (x y : nat) (Z : list nat) : bool :=
  let anz := fun v => existsb (fun z => (v =? z) || mem z (RH v)) Z in
  let T := tc st_eqb (states ns) (walk_succ eH Z anz) (x, true) in
  (x =? y) || memb st_eqb (y, true) T || memb st_eqb (y, false) T.

Definition valid_spec_core (RG RH : nat -> list nat) (ns : list nat) (es : list (nat * nat)) (x y : nat) (Z : list nat) : bool :=
  negb (existsb (fun z => mem z (RG x)) Z) && negb (dconnb_core RH ns (drop_out x es) x y Z).
Definition valid_specb (g : graph) (x y : nat) (Z : list nat) : bool :=
  valid_spec_core (reach_tbl (nodes g) (edges g)) (reach_tbl (nodes g) (drop_out x (edges g)))
                  (nodes g) (edges g) x y Z.
Definition spec_sets (g : graph) (x y : nat) : list (list nat) :=
  let RG := reach_tbl (nodes g) (edges g) in
  let RH := reach_tbl (nodes g) (drop_out x (edges g)) in
  filter (valid_spec_core RG RH (nodes g) (edges g) x y) (candidates g x y).

(* textbook rendering: Z blocks every (simple) path between x and y of the graph without x's out-arrows;
   a path is blocked at an interior non-collider in Z or at an interior collider with no descendant-or-self in Z *)
Fixpoint simple_paths (fuel : nat) (nbrs : nat -> list nat) (visited : list nat) (u y : nat) : list (list nat) :=
  match fuel with
  | 0 => []
  | S f =>
      if u =? y then [[y]]
      else flat_map (fun w => if mem w (u :: visited) then []
                              else map (cons u) (simple_paths f nbrs (u :: visited) w y)) (nbrs u)
  end.
Fixpoint path_active (eH : list (nat * nat)) (Z : list nat) (anz : nat -> bool) (p : list nat) : bool :=
  match p with
  | a :: ((m :: b :: _) as t) =>
      (if has_edge eH a m && has_edge eH b m then anz m else negb (mem m Z)) && path_active eH Z anz t
  | _ => true
  end.
Definition valid_path_core (RG RH : nat -> list nat) (ns : list nat) (es : list (nat * nat)) (x y : nat) (Z : list nat) : bool :=
  let eH := drop_out x es in
  let anz := fun v => existsb (fun z => (v =? z) || mem z (RH v)) Z in
  let nbrs := fun u => unionb Nat.eqb (succs eH u) (preds eH u) in
  negb (existsb (fun z => mem z (RG x)) Z) &&
  negb (existsb (path_active eH Z anz) (simple_paths (S (length ns)) nbrs [] x y)).
Definition valid_pathb (g : graph) (x y : nat) (Z : list nat) : bool :=
  valid_path_core (reach_tbl (nodes g) (edges g)) (reach_tbl (nodes g) (drop_out x (edges g)))
                  (nodes g) (edges g) x y Z.

(* ------------------------------------------------------------------ the 5-node universe *)
(* nodes 0 (exposure), 1 (outcome), 2, 3, 4; arrow 0 -> 1 always present; each of the other 9 pairs is
   absent (0), oriented low -> high (1) or high -> low (2) *)
Definition free_pairs5 : list (nat * nat) := [(0,2); (0,3); (0,4); (1,2); (1,3); (1,4); (2,3); (2,4); (3,4)].
Fixpoint orient_vectors (n : nat) : list (list nat) :=
  match n with
  | 0 => [[]]
  | S n' => flat_map (fun o => map (cons o) (orient_vectors n')) [0; 1; 2]
  end.
Fixpoint oriented (ps : list (nat * nat)) (os : list nat) : list (nat * nat) :=
  match ps, os with
  | (i, j) :: ps', o :: os' =>
      match o with
      | 0 => oriented ps' os'
      | 1 => (i, j) :: oriented ps' os'
      | _ => (j, i) :: oriented ps' os'
      end
  | _, _ => []
  end.
Definition graph5 (os : list nat) : graph := mkG [0; 1; 2; 3; 4] ((0, 1) :: oriented free_pairs5 os).
Definition all_orient5 : list (list nat) := orient_vectors 9.

(* ------------------------------------------------------------------ canonical output for the harness *)
Definition flat_edges (es : list (nat * nat)) : list (list nat) := map (fun e => [fst e; snd e]) es.
Definition undirected_reach (g : graph) : nat -> list nat :=
  tc Nat.eqb (nodes g) (fun a => filter (uadj (edges g) a) (nodes g)).
Definition path_sets (g : graph) (x y : nat) : list (list nat) := filter (valid_pathb g x y) (candidates g x y).

(* compact output (printing dominates the evaluation otherwise): a node set as a bit mask over node numbers,
   a family of candidate sets as a bit mask over positions in the candidate list *)
Definition mask (l : list nat) : N := fold_left (fun a v => N.lor a (N.shiftl 1%N (N.of_nat v))) l 0%N.
Definition admit_mask (f : list nat -> bool) (cands : list (list nat)) : N :=
  fst (fold_left (fun ab Z => ((if f Z then N.lor (fst ab) (snd ab) else fst ab), N.double (snd ab))) cands (0%N, 1%N)).
Definition list_eqb (a b : list nat) : bool := (length a =? length b) && forallb (fun p => fst p =? snd p) (combine a b).
Definition sel_mask (sel cands : list (list nat)) : N := admit_mask (fun Z => existsb (list_eqb Z) sel) cands.

(* coverage instrumentation (not used by any theorem): the algorithm with ONE step ablated.  A generated case
   "exercises" a step iff ablating it changes the answer for some candidate set of that case.
   k = 1: descendant test omitted; 2: ancestors of the adjustment set dropped from the ancestral subgraph (only
   x, y, Z and the ancestors of x and y kept) -- matters exactly when a collider that is not an ancestor of x or y
   has a proper descendant in Z; 3: no ancestral restriction (whole graph moralised); 4: moralisation omitted *)
Definition valid_ablate (k : nat) (R : nat -> list nat) (ns : list nat) (es : list (nat * nat))
           (x y : nat) (Z : list nat) : bool :=
  if negb (k =? 1) && existsb (fun z => mem z (R x)) Z then false
  else
    let keep := match k with
                | 2 => filter (fun v => mem v (x :: y :: Z) || existsb (fun t => mem t (R v)) [x; y]) ns
                | 3 => ns
                | _ => keep_nodes R ns (x :: y :: Z)
                end in
    let es2 := drop_out x (sub_edges keep es) in
    let mes := if k =? 4 then es2 else es2 ++ marriages es2 keep in
    let U := filter (fun v => negb (mem v Z)) keep in
    negb (connected U (uadj mes) x y).

(* one correspondence case: the program the implementation ran, and the list it reported *)
Definition case_out (x y : nat) (prog : list op) (impl_sets : list (list nat)) :=
  let g := run_prog x y prog in
  let ns := nodes g in
  let es := edges g in
  let R := reach_tbl ns es in
  let RH := reach_tbl ns (drop_out x es) in
  let cands := candidates g x y in
  let alg := filter (valid_core false R ns es x y) cands in
  let UR := undirected_reach g in
  (trace_prog x y (init_graph x y) prog,
   cands,
   [sel_mask alg cands;
    admit_mask (valid_spec_core R RH ns es x y) cands;
    admit_mask (valid_core true R ns (edges_view g) x y) cands;
    admit_mask (valid_path_core R RH ns es x y) cands;
    sel_mask (minimal_of alg) cands;
    sel_mask (minimal_of impl_sets) cands;
    N.of_nat (length (minimal_of impl_sets));
    admit_mask (valid_ablate 1 R ns es x y) cands;
    admit_mask (valid_ablate 2 R ns es x y) cands;
    admit_mask (valid_ablate 3 R ns es x y) cands;
    admit_mask (valid_ablate 4 R ns es x y) cands],
   map (fun v => mask (R v)) ns,
   map (fun t => mask (filter (fun v => mem t (R v)) ns)) ns,
   map (fun v => mask (UR v)) ns).
