(* Executable model of GEstimationSNM (zepid/causal/snm/g_estimation.py), closed-form solver, and of the estimating
   equations it is meant to solve.  Definitions only.

   A row is one COMPLETE observation that reaches the solver (fit() drops rows with a missing outcome first):
   treatment a, outcome y, total weight w (user weight x inverse probability of missingness weight; 1 when neither
   is in use), fitted Pr(A=1|L) pi (oracle value of the exposure model), and the vector v of effect modifiers of the
   structural nested model psi'V*A (v_0 = 1 for the main term 'A', v_j = L_j for a product term 'A:L_j').
   sst is a covariate-stratum code, used only by the saturated-exposure-model statement. *)
From Coq Require Import QArith List Bool Arith.
From Zepid Require Import Base.QSum Base.QUtil Base.Rows.
Import ListNotations.
Open Scope Q_scope.

Record srow := {
  sa : bool;           (* treatment (binary_exposure_only=True) *)
  sy : Q;              (* outcome *)
  sw : Q;              (* weight *)
  spi : Q;             (* fitted Pr(A=1 | L) *)
  sv : list Q;         (* V: modifiers of the structural nested model, v_0 = 1 *)
  sst : nat            (* covariate stratum code *)
}.

Definition vj (j : nat) (r : srow) : Q := nth j (sv r) 0.
(* diff = (A - pred) [* weights]   (lines 471-473) *)
Definition sd (r : srow) : Q := sw r * (ind (sa r) - spi r).
(* column j of patsy.dmatrix(snm - 1): A * V_j;  column j of the y-matrix (outcome renamed as the exposure): Y * V_j *)
Definition av (j : nat) (r : srow) : Q := ind (sa r) * vj j r.
Definition yvj (j : nat) (r : srow) : Q := sy r * vj j r.
(* lhm = (snm * diff)' snm ;  rha = sum(y_matrix * diff)   (lines 476-480) *)
Definition Mjk (j k : nat) (l : list srow) : Q := Qsum (fun r => sd r * av j r * av k r) l.
Definition rj (j : nat) (l : list srow) : Q := Qsum (fun r => sd r * yvj j r) l.
(* np.linalg.solve(lhm, rha) is an oracle: it returns psi with lhm psi = rha *)
Definition Mpsi (dim : nat) (psi : list Q) (j : nat) (l : list srow) : Q :=
  Qsum (fun k => Mjk j k l * nth k psi 0) (seq 0 dim).
Definition solves (dim : nat) (psi : list Q) (l : list srow) : Prop :=
  forall j, (j < dim)%nat -> Mpsi dim psi j l == rj j l.

(* ---- the specification: H(psi) = Y - psi'V A is uncorrelated with treatment given the exposure model *)
Definition dotn (dim : nat) (p v : list Q) : Q := Qsum (fun k => nth k p 0 * nth k v 0) (seq 0 dim).
Definition Hpsi (dim : nat) (psi : list Q) (r : srow) : Q := sy r - ind (sa r) * dotn dim psi (sv r).
Definition esteq (dim : nat) (psi : list Q) (j : nat) (l : list srow) : Q :=
  Qsum (fun r => sd r * vj j r * Hpsi dim psi r) l.

(* one-parameter model *)
Definition snm1_num (l : list srow) : Q := Qsum (fun r => sd r * sy r) l.
Definition snm1_den (l : list srow) : Q := Qsum (fun r => sd r * ind (sa r)) l.

(* the same rows seen as analysis rows of Base.Rows (stratum, treatment, outcome, weight, fitted propensity) *)
Definition to_row (r : srow) : row :=
  {| st := sst r; trt := sa r; yv := Some (sy r); wt := sw r; g1 := spi r; q1 := 0; q0 := 0; m1 := 1; m0 := 1 |}.
Definition base_rows (l : list srow) : list row := map to_row l.
(* weighted average of the stratum-specific mean differences with weights n_s p_s (1 - p_s) *)
Definition pS (s : nat) (L : list row) : Q := Naw s true L / Nw s L.
Definition wavg_w (s : nat) (L : list row) : Q := Nw s L * pS s L * (1 - pS s L).
Definition snm_wavg (L : list row) : Q :=
  Qsum (fun s => wavg_w s L * (ybar s true L - ybar s false L)) (strata L) / Qsum (fun s => wavg_w s L) (strata L).

(* ---- executable twins (reduce after every addition) and what the run prints *)
Definition Mjk_x j k l := Qsumr (fun r => sd r * av j r * av k r) l.
Definition rj_x j l := Qsumr (fun r => sd r * yvj j r) l.
Definition esteq_x dim psi j l := Qsumr (fun r => sd r * vj j r * Hpsi dim psi r) l.
Definition snm_out (dim : nat) (psi : list Q) (l : list srow) : list (list Q) :=
  [ map (fun j => esteq_x dim psi j l) (seq 0 dim);
    map (fun j => rj_x j l) (seq 0 dim);
    flat_map (fun j => map (fun k => Mjk_x j k l) (seq 0 dim)) (seq 0 dim) ].
Definition SR (a : bool) (y w p : Q) (v : list Q) (s : nat) : srow :=
  {| sa := a; sy := y; sw := w; spi := p; sv := v; sst := s |}.
