(* Executable models of the point estimates of IPTW (marginal structural model saturated in A),
   TimeFixedGFormula, AIPTW and the TMLE plug-in, over annotated rows (Base.Rows).  Definitions only. *)
From Coq Require Import QArith List Bool.
From Zepid Require Import Base.QSum Base.QUtil Base.Rows.
Import ListNotations.
Open Scope Q_scope.

(* ---- inverse probability of treatment weights (mirrors zepid.causal.utils.iptw_calculator; the translated
   definitions in ZepidGen.Gen_weights_Q are proved equal to the documented formulas under C05) *)
Definition ipw_formula (stab : bool) (t : target) (n : Q) (a : bool) (d : Q) : Q :=
  match t, stab with
  | TAll, false => if a then 1 / d else 1 / (1 - d)
  | TAll, true => if a then n / d else (1 - n) / (1 - d)
  | TExposed, false => if a then 1 else d / (1 - d)
  | TExposed, true => if a then 1 else (d / (1 - d)) * ((1 - n) / n)
  | TUnexposed, false => if a then (1 - d) / d else 1
  | TUnexposed, true => if a then ((1 - d) / d) * (n / (1 - n)) else 1
  end.
Definition iptw_w (stab : bool) (t : target) (n : Q) (r : row) : Q := ipw_formula stab t n (trt r) (g1 r).
(* inverse probability of missingness weight: c_a / Pr(observed | A=a received, L); c_a = 1 unstabilised *)
Definition m_own (r : row) : Q := if trt r then m1 r else m0 r.
Definition ipmw_w (c1 c0 : Q) (r : row) : Q := (if trt r then c1 else c0) / m_own r.
Definition total_w (stab : bool) (t : target) (n c1 c0 : Q) (r : row) : Q :=
  wt r * iptw_w stab t n r * ipmw_w c1 c0 r.

(* the GEE with mean model ~A is saturated in A: its fitted means are the weighted arm means *)
Definition iptw_mu (stab : bool) (t : target) (n c1 c0 : Q) (a : bool) (l : list row) : Q :=
  arm_mean (total_w stab t n c1 c0) a l.
Definition odds (p : Q) : Q := p / (1 - p).
Definition iptw_rd stab t n c1 c0 l := iptw_mu stab t n c1 c0 true l - iptw_mu stab t n c1 c0 false l.
Definition iptw_rr stab t n c1 c0 l := iptw_mu stab t n c1 c0 true l / iptw_mu stab t n c1 c0 false l.
Definition iptw_or stab t n c1 c0 l := odds (iptw_mu stab t n c1 c0 true l) / odds (iptw_mu stab t n c1 c0 false l).

(* ---- parametric g-formula: average the predictions under the plan over the target rows *)
Definition in_target (t : target) (r : row) : bool :=
  match t with TAll => true | TExposed => trt r | TUnexposed => negb (trt r) end.
Definition qa (a : bool) (r : row) : Q := if a then q1 r else q0 r.
Definition gf_marginal (t : target) (a : bool) (l : list row) : Q :=
  Qsum (fun r => wt r * qa a r) (filter (in_target t) l) / Qsum wt (filter (in_target t) l).

(* ---- AIPTW pseudo-outcomes (as translated: ZepidGen.Gen_aipw_Q) and their (weighted) nan-mean *)
Definition pa1 (r : row) : Q := g1 r * m1 r.
Definition pa0 (r : row) : Q := (1 - g1 r) * m0 r.
Definition aipw_y1 (r : row) : Q := if trt r then (yval r - q1 r * (1 - pa1 r)) / pa1 r else q1 r.
Definition aipw_y0 (r : row) : Q := if trt r then q0 r else (yval r - q0 r * (1 - pa0 r)) / pa0 r.
Definition obs_rows (l : list row) : list row := filter obs l.
Definition aipw_mean (f : row -> Q) (l : list row) : Q :=
  Qsum (fun r => wt r * f r) (obs_rows l) / Qsum wt (obs_rows l).
Definition aipw_rd (l : list row) : Q := aipw_mean aipw_y1 l - aipw_mean aipw_y0 l.
Definition aipw_rr (l : list row) : Q := aipw_mean aipw_y1 l / aipw_mean aipw_y0 l.

(* the arrays as aipw_calculator's estimate lines see them: pseudo-outcomes (None = NaN) and the weight *)
Record prow := { p_y1 : option Q; p_y0 : option Q; p_w : Q }.
Definition has1 (r : prow) : bool := match p_y1 r with Some _ => true | None => false end.
Definition has0 (r : prow) : bool := match p_y0 r with Some _ => true | None => false end.
Definition both (r : prow) : bool := has1 r && has0 r.
Definition v1 (r : prow) : Q := match p_y1 r with Some x => x | None => 0 end.
Definition v0 (r : prow) : Q := match p_y0 r with Some x => x | None => 0 end.

(* ---- TMLE plug-in: q1/q0 of a row hold the TARGETED predictions Q*1, Q*0; all rows are averaged *)
Definition tmle_mean (a : bool) (l : list row) : Q := Qsum (qa a) l / Qlen l.
Definition tmle_rd (l : list row) : Q := tmle_mean true l - tmle_mean false l.
Definition tmle_rr (l : list row) : Q := tmle_mean true l / tmle_mean false l.
Definition tmle_or (l : list row) : Q := odds (tmle_mean true l) / odds (tmle_mean false l).
(* the efficient-score sums of the A=1 and A=0 clever covariates over rows with an observed outcome *)
Definition tmle_score1 (l : list row) : Q :=
  Qsum (fun r => ind (trt r) * ind (obs r) * (yval r - q1 r) / pa1 r) l.
Definition tmle_score0 (l : list row) : Q :=
  Qsum (fun r => ind (negb (trt r)) * ind (obs r) * (yval r - q0 r) / pa0 r) l.

(* influence-curve style variance: sample variance (ddof 1) of the non-missing values over the number of rows *)
Definition Qmean_list (v : list Q) : Q := Qred (Qsumr (fun x => x) v / Qlen v).
Definition var_ddof1 (v : list Q) : Q :=
  let m := Qmean_list v in Qred (Qsumr (fun x => Qred ((x - m) * (x - m))) v / (Qlen v - 1)).
(* (Qred / Qsumr only keep the fractions reduced while evaluating; both are the identity up to ==) *)
