#!/bin/bash
# usage: tools/try_seed.sh <worktree> <PROP> [more PROPs]  -- confirm a seeded change and run checks against it.
# Runs in a scratch copy of /verif (so that concurrently running checks on /repo are not disturbed); the
# documented equivalent is: git -C /repo apply <diff>; ./check <PROP>; git -C /repo checkout -- .
WT=$1; shift
MUT=${MUT:-/tmp/verif-mut}
set -u
cd $WT || exit 2
if [ -z "${RECHECK:-}" ]; then
git diff -- zepid > change.diff
echo "== demo WITH change";  PYTHONPATH=$WT timeout 300 /venv/bin/python demo.py > $WT/.try_demo_with.log 2>&1; echo "exit=$?"; tail -2 $WT/.try_demo_with.log | cut -c1-300
git checkout -q -- zepid
echo "== demo WITHOUT change"; PYTHONPATH=$WT timeout 300 /venv/bin/python demo.py > $WT/.try_demo_without.log 2>&1; echo "exit=$?"; tail -1 $WT/.try_demo_without.log | cut -c1-200
git apply change.diff
echo "== baseline tests with change"
PYTHONPATH=$WT timeout 1200 /venv/bin/python -m pytest -q -p no:cacheprovider --timeout=900 -rA tests/ 2>/dev/null > $WT/.try_pytest.log
tail -1 $WT/.try_pytest.log
python3 - <<PY
import json,re
base=set(json.load(open('/root/.vp/BASELINE.json'))['stable_pass'])
passed=set()
for l in open('$WT/.try_pytest.log'):
    m=re.match(r'PASSED (\S+)',l)
    if m:
        parts=m.group(1).split('::')
        passed.add(parts[0][:-3].replace('/','.')+'.'+'::'.join(parts[1:]) if len(parts)>2 else parts[0][:-3].replace('/','.')+'::'+parts[1])
missing=base-passed
print('stable_pass still passing: %d/%d'%(len(base)-len(missing),len(base)), sorted(missing)[:5])
PY
fi
mkdir -p $MUT
rsync -a --delete --exclude 'run/' --exclude '.git' --exclude 'replays/' /verif/ $MUT/
cd $MUT
for P in "$@"; do
  echo "== ./check $P against the changed tree"
  ZEPID_REPO=$WT timeout 3000 ./check $P 2>&1 | grep -v "^KNOWN" | tail -6 | cut -c1-600
done
