#!/usr/bin/env python3
"""print a markdown table: per property -> theorems, axioms, quick wall time, evaluations, known findings (from evidence/)"""
import json, glob, os, re
V = os.path.dirname(os.path.dirname(os.path.abspath(__file__)))
kf = json.load(open(os.path.join(V, 'known_findings.json')))['findings']
print('| id | theorems | axioms (Print Assumptions) | last evidence: tier, evaluations, programs, wall | fixed / known findings |')
print('|----|----------|----------------------------|-------------------------------------------------|------------------------|')
for f in sorted(glob.glob(os.path.join(V, 'evidence', 'C*.json'))):
    e = json.load(open(f)); c = e['coverage']; pid = e['property_id']
    ax = [t for t in c['trusted_base'] if t.startswith('standard-library axioms')][0].split(': ', 1)[1]
    ax = 'none' if ax.startswith('none') else ', '.join(a.split('.')[-1] for a in ax.split(', '))
    nf = sum(1 for k in kf if k['property'] == pid and k['status'] == 'fixed')
    nk = sum(1 for k in kf if k['property'] == pid and k['status'] == 'known')
    print('| %s | %d | %s | %s, %d, %d, %.0f s | %d / %d |' % (pid, c['obligations'], ax, e['tier'], c['evaluations'], c['programs'], e['wall_s'], nf, nk))
