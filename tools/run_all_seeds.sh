#!/bin/bash
# Regression over every stored seeded change: apply it to a scratch worktree of /repo HEAD, run the property's quick
# check against that tree (in a scratch copy of /verif, ZEPID_REPO=<worktree>), record caught / missed.
# usage: tools/run_all_seeds.sh [seed-id ...]      -> writes seeded/RESULTS.md
#        SHARD=k/N tools/run_all_seeds.sh          -> every N-th seed starting at k, writes seeded/RESULTS.k.md (own scratch
#                                                     worktree and /verif copy, so that shards can run side by side);
#        tools/merge_seed_results.py joins the shard tables into seeded/RESULTS.md
set -u
V=/verif; K=""; N=1
if [ -n "${SHARD:-}" ]; then K=${SHARD%/*}; N=${SHARD#*/}; fi
WT=/tmp/wt-all$K; MUTD=/tmp/verif-mut$K; OUT=$V/seeded/RESULTS${K:+.$K}.md
git -C /repo worktree remove --force $WT 2>/dev/null; git -C /repo worktree prune
git -C /repo worktree add -q --detach $WT HEAD
mkdir -p $MUTD
rsync -a --delete --exclude 'run/' --exclude '.git' --exclude 'replays/' $V/ $MUTD/
SEEDS="$@"; [ -z "$SEEDS" ] && SEEDS=$(ls -d $V/seeded/*/ | xargs -n1 basename)
[ -n "$K" ] && SEEDS=$(echo $SEEDS | tr ' ' '\n' | awk -v k=$K -v n=$N 'NR % n == k % n')
{ echo "# Seeded changes vs. the current checks"; echo; echo "repo HEAD $(git -C /repo rev-parse --short HEAD), verif HEAD $(git -C $V rev-parse --short HEAD), $(date -u +%FT%TZ)"; echo;
  echo "| seed | property | result | violation keys (first 3) | wall |"; echo "|---|---|---|---|---|"; } > $OUT
for id in $SEEDS; do
  d=$V/seeded/$id; P=$(python3 -c "import json;print(json.load(open('$d/meta.json'))['breaks_property'])")
  if python3 -c "import json,sys;sys.exit(0 if json.load(open('$d/meta.json')).get('obsolete') else 1)"; then
    echo "| $id | $P | obsolete (behaviour-preserving on the current tree, see meta.json) | | |" >> $OUT; echo "$id $P obsolete"; continue; fi
  git -C $WT checkout -q -- . ; git -C $WT clean -fdq
  if ! git -C $WT apply $d/patch.diff 2>/dev/null; then echo "| $id | $P | PATCH-DOES-NOT-APPLY | | |" >> $OUT; continue; fi
  t0=$(date +%s)
  PS=$(python3 -c "import json;m=json.load(open('$d/meta.json'));print(' '.join(m.get('checked_by',[m['breaks_property']])))")
  log=$(cd $MUTD && rm -rf replays && for Q in $PS; do ZEPID_REPO=$WT timeout 3000 ./check $Q 2>&1; done)
  t1=$(date +%s)
  n=$(echo "$log" | grep -c '^VIOLATION')
  keys=$(cd $MUTD && ls replays/*.json 2>/dev/null | head -40 | xargs -r python3 -c "
import json,sys
ks=[]
for f in sys.argv[1:]:
    k=json.load(open(f))['key']
    if k not in ks: ks.append(k)
print(', '.join(ks[:3]))" )
  res=MISSED; [ "$n" -gt 0 ] && res="caught ($n)"
  echo "| $id | $P | $res | $keys | $((t1-t0))s |" >> $OUT
  echo "$id $P $res $((t1-t0))s"
done
git -C /repo worktree remove --force $WT; git -C /repo worktree prune; rm -rf $MUTD
