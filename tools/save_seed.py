#!/usr/bin/env python3
"""tools/save_seed.py <seed-id> <worktree> <property> <caught-by / notes> : store a confirmed seeded change"""
import json, os, shutil, subprocess, sys
sid, wt, prop, notes = sys.argv[1:5]
d = os.path.join(os.path.dirname(os.path.dirname(os.path.abspath(__file__))), 'seeded', sid)
os.makedirs(d, exist_ok=True)
shutil.copy(os.path.join(wt, 'change.diff'), os.path.join(d, 'patch.diff'))
shutil.copy(os.path.join(wt, 'demo.py'), os.path.join(d, 'demo.py'))
base = subprocess.check_output(['git', '-C', '/repo', 'rev-parse', '--short', 'HEAD']).decode().strip()
files = [l[6:].strip() for l in open(os.path.join(d, 'patch.diff')) if l.startswith('+++ b/')]
json.dump({'breaks_property': prop, 'files': files, 'applies_to_repo_commit': base, 'needs_to_manifest': notes.split('|')[0].strip(),
           'what_was_run': ['tools/try_seed.sh <worktree> %s  (demo.py fails with / passes without the change; all 257 stable baseline tests still pass; ./check %s against the changed tree)' % (prop, prop),
                            'equivalent: git -C /repo apply seeded/%s/patch.diff; ./check %s; git -C /repo checkout -- .' % (sid, prop)],
           'result': notes.split('|')[1].strip() if '|' in notes else ''}, open(os.path.join(d, 'meta.json'), 'w'), indent=1)
print('saved', d)
