#!/usr/bin/env python3
"""join seeded/RESULTS.<k>.md (written by SHARD=k/N tools/run_all_seeds.sh) into seeded/RESULTS.md"""
import glob, os, re, subprocess
V = '/verif'
rows, heads = [], []
byid = {}
# rows of an earlier full run are kept for the seeds that were not run again (their row says which trees they were run against)
files = ([V + '/seeded/RESULTS.md'] if os.path.exists(V + '/seeded/RESULTS.md') else []) + sorted(glob.glob(V + '/seeded/RESULTS.*.md'))
for f in files:
    head = ''
    for l in open(f):
        if l.startswith('repo HEAD'):
            head = l.strip()
            heads.append(head)
        elif l.startswith('| ') and not l.startswith('| seed') and not l.startswith('|---'):
            cells = [c.strip() for c in l.strip().strip('|').split('|')]
            if len(cells) == 5:
                cells.append(head.split(',')[0].replace('repo HEAD ', '') + ' / ' + (head.split(',')[1].replace(' verif HEAD ', '') if ',' in head else ''))
            byid[cells[0]] = '| ' + ' | '.join(cells) + ' |'
rows = sorted(byid.values())
caught = sum('caught' in r for r in rows)
obsolete = sum('obsolete' in r for r in rows)
with open(V + '/seeded/RESULTS.md', 'w') as o:
    o.write('# Seeded changes vs. the current checks\n\n%s\n\n%d seeds, %d caught, %d obsolete, %d not caught by the quick check of the property they break\n\n'
            % ('latest run: ' + heads[-1] if heads else '', len(rows), caught, obsolete, len(rows) - caught - obsolete))
    o.write('| seed | property | result | violation keys (first 3) | wall | run against repo / verif commit |\n|---|---|---|---|---|---|\n')
    o.write('\n'.join(rows) + '\n')
for f in glob.glob(V + '/seeded/RESULTS.*.md'):
    os.remove(f)
print(len(rows), 'seeds,', caught, 'caught')
