#!/usr/bin/env python3
"""join seeded/RESULTS.<k>.md (written by SHARD=k/N tools/run_all_seeds.sh) into seeded/RESULTS.md"""
import glob, os, re, subprocess
V = '/verif'
rows, heads = [], []
for f in sorted(glob.glob(V + '/seeded/RESULTS.*.md')):
    for l in open(f):
        if l.startswith('repo HEAD'):
            heads.append(l.strip())
        elif l.startswith('| ') and not l.startswith('| seed') and not l.startswith('|---'):
            rows.append(l.rstrip())
rows.sort()
caught = sum('caught' in r for r in rows)
obsolete = sum('obsolete' in r for r in rows)
with open(V + '/seeded/RESULTS.md', 'w') as o:
    o.write('# Seeded changes vs. the current checks\n\n%s\n\n%d seeds, %d caught, %d obsolete, %d not caught by the quick check of the property they break\n\n'
            % (heads[0] if heads else '', len(rows), caught, obsolete, len(rows) - caught - obsolete))
    o.write('| seed | property | result | violation keys (first 3) | wall |\n|---|---|---|---|---|\n')
    o.write('\n'.join(rows) + '\n')
for f in glob.glob(V + '/seeded/RESULTS.*.md'):
    os.remove(f)
print(len(rows), 'seeds,', caught, 'caught')
