#!/usr/bin/env python3
"""(re)write /verif/MANIFEST.json from the table below; run after adding a property check."""
import json, os
V = os.path.dirname(os.path.dirname(os.path.abspath(__file__)))
props = [json.loads(l) for l in open(os.path.join(V, 'properties.jsonl'))]
CLAIMS = json.load(open(os.path.join(V, 'tools', 'claims.json')))
checks, na = [], []
for p in props:
    pid = p['id']
    c = CLAIMS.get(pid)
    if not c or not os.path.exists(os.path.join(V, 'harness', 'props', pid.lower() + '.py')):
        na.append({'property_id': pid, 'reason': (c or {}).get('na_reason', 'check not built yet in this development (Coq model and driver pending); see DESIGN.md section 8')})
        continue
    checks.append({
        'property_id': pid,
        'quick_cmd': './check %s --tier quick' % pid,
        'thorough_cmd': './check %s --tier thorough' % pid,
        'evidence_file': 'evidence/%s.json' % pid,
        'replay_cmd_template': './check %s --replay {path}' % pid,
        'engine': 'coq-proof+correspondence',
        'level_claimed': {'category': 'proof', 'text': c['text'], 'design_ref': 'DESIGN.md section 8, ' + pid},
        'level_note': c['note'],
        'technique': c['technique'],
    })
m = {
    'version': 1,
    'setup_cmd': './check --setup',
    'hooks': {'guard': 'ZEPID_VERIF', 'enable': 'checks export ZEPID_VERIF=1 and PYTHONPATH=/repo before importing zepid (no build step; pure Python)',
              'baseline_off_cmd': 'cd /repo && env -u ZEPID_VERIF /venv/bin/python -m pytest -ra -q -p no:cacheprovider --timeout=900 --continue-on-collection-errors',
              'source_commits': CLAIMS.get('_hook_commits', []), 'add_only': True},
    'engines': [{'name': 'coq-proof+correspondence', 'path': 'check', 'serves_properties': [c['property_id'] for c in checks],
                 'kind_free_text': 'Rocq/Coq 8.16.1 theorems about (a) definitions regenerated from /repo by a fail-closed Python-ast translator and (b) hand-written executable Gallina models tied to /repo by differential execution (cases evaluated with vm_compute inside Coq)'}],
    'checks': checks,
    'not_applicable': na,
    'notes': 'Every check: translate -> make -k -> Print Assumptions audit -> correspondence + property-on-implementation run -> evidence. A broken proof/translation/correspondence triggers a failing-input search; see DESIGN.md section 6. known_findings.json lists recorded and fixed defects.',
}
json.dump(m, open(os.path.join(V, 'MANIFEST.json'), 'w'), indent=1)
print('claimed', [c['property_id'] for c in checks])
