#!/usr/bin/env python3
"""print a python source file without docstrings/blank lines (reading aid)"""
import ast, sys
src = open(sys.argv[1]).read()
tree = ast.parse(src)
skip = set()
for node in ast.walk(tree):
    if isinstance(node, (ast.FunctionDef, ast.ClassDef, ast.Module)):
        b = node.body
        if b and isinstance(b[0], ast.Expr) and isinstance(getattr(b[0], 'value', None), ast.Constant) and isinstance(b[0].value.value, str):
            for i in range(b[0].lineno, b[0].end_lineno + 1):
                skip.add(i)
lo = int(sys.argv[2]) if len(sys.argv) > 2 else 1
hi = int(sys.argv[3]) if len(sys.argv) > 3 else 10**9
for i, l in enumerate(src.splitlines(), 1):
    if i in skip or not l.strip() or i < lo or i > hi: continue
    print(f"{i:5d} {l}")
