"""Shared helpers for the estimator properties (C01, C02, C03, C06, C08, C09, C10): run the real estimators,
collect the per-row nuisance values they used, render annotated rows for the Coq model (Base.Rows)."""
from fractions import Fraction

import numpy as np
import pandas as pd

from common import qlit

IMPORTS = ['Zepid.Base.QSum', 'Zepid.Base.QUtil', 'Zepid.Base.Rows', 'Zepid.Proofs.RowsProofs', 'Zepid.Model.Estimators']


def snap(x, n, tol=1e-7):
    """cell proportions / cell means have denominators <= n: snap a float to that rational when it is one
    (the snap error is the oracle validation of a saturated fit); otherwise keep 12 decimals."""
    fr = Fraction(float(x)).limit_denominator(max(int(n), 1))
    if abs(float(fr) - float(x)) <= tol * max(1.0, abs(float(x))):
        return fr, True
    return Fraction(float(x)).limit_denominator(10 ** 12), False


def snap_mean(x, n, y_den):
    """cell means of outcomes recorded with y_den decimals denominators: denominators up to n * y_den"""
    return snap(x, n * y_den)


def coq_rows(S, A, Y, W=None, g1=None, q1=None, q0=None, m1=None, m0=None):
    n = len(S)
    one = Fraction(1)
    zero = Fraction(0)

    def col(v, d):
        return [d] * n if v is None else list(v)
    W, g1, q1, q0, m1, m0 = col(W, one), col(g1, Fraction(1, 2)), col(q1, zero), col(q0, zero), col(m1, one), col(m0, one)
    out = []
    for i in range(n):
        y = Y[i]
        ys = 'None' if y is None or (isinstance(y, float) and y != y) else 'Some %s' % qlit(y)
        out.append('{| st := %d%%nat; trt := %s; yv := %s; wt := %s; g1 := %s; q1 := %s; q0 := %s; m1 := %s; m0 := %s |}'
                   % (int(S[i]), 'true' if A[i] else 'false', ys, qlit(W[i]), qlit(g1[i]), qlit(q1[i]), qlit(q0[i]),
                      qlit(m1[i]), qlit(m0[i])))
    return '[' + ';\n '.join(out) + ']'


def frac_y(y, y_round=3):
    if y is None or (isinstance(y, float) and y != y):
        return None
    return Fraction(str(round(float(y), y_round + 3))) if float(y) != int(y) else Fraction(int(y))


def snap_vec(v, n, mult=1):
    out, ok = [], True
    for x in v:
        fr, good = snap(x, n * mult)
        out.append(fr)
        ok = ok and good
    return out, ok


class Garbage:
    """a 'badly misspecified' learner: returns a fixed table of values indexed by the stratum code found in
    column `col` of X (the harness passes the formula 'S' (+ 'A'), so X carries S (and A))."""

    def __init__(self, table1, table0=None, col=0, acol=None):
        self.table1, self.table0, self.col, self.acol = table1, table0, col, acol

    def get_params(self, deep=False):
        return {'table1': self.table1, 'table0': self.table0, 'col': self.col, 'acol': self.acol}

    def set_params(self, **p):
        for k, v in p.items():
            setattr(self, k, v)
        return self

    def fit(self, X, y):
        return self

    def _val(self, X):
        X = np.asarray(X)
        s = X[:, self.col].astype(int)
        if self.acol is None or self.table0 is None:
            return np.array([self.table1[k] for k in s], dtype=float)
        a = X[:, self.acol].astype(int)
        return np.array([self.table1[k] if ai == 1 else self.table0[k] for k, ai in zip(s, a)], dtype=float)

    def predict(self, X):
        return self._val(X)

    def predict_proba(self, X):
        p = self._val(X)
        return np.column_stack([1 - p, p])


class CellProba:
    """a saturated learner with the scikit-learn classifier interface only (fit / predict_proba with one column per class, no
    predict): the fitted probability of a row is the mean of y over the training rows with the same design row"""

    def __init__(self):
        self.cells = {}

    def get_params(self, deep=False):
        return {}

    def set_params(self, **p):
        return self

    def fit(self, X, y):
        X, y = np.asarray(X, dtype=float), np.asarray(y, dtype=float)
        acc = {}
        for row, v in zip(map(tuple, X), y):
            acc.setdefault(row, []).append(v)
        self.cells = {k: float(np.mean(v)) for k, v in acc.items()}
        return self

    def predict_proba(self, X):
        p = np.array([self.cells.get(tuple(r), 0.5) for r in np.asarray(X, dtype=float)], dtype=float)
        return np.column_stack([1 - p, p])


# ---- helpers that are documented as displays / diagnostics / plots: calling them must never change what an estimator
# ---- stores or what it returns later.  poke() calls every one the object has (default arguments, plus iptw_only=False where
# ---- the signature offers it); exceptions are ignored (several helpers do not run on the installed numpy at all).
POKE_METHODS = ['summary', 'positivity', 'standardized_mean_differences', 'run_diagnostics', 'plot_kde', 'plot_boxplot',
                'plot_love', 'plot']


def should_poke(df):
    """a function of the data, so that a replay of the same case makes the same calls"""
    try:
        return (len(df) + int(np.nansum(np.asarray(df.iloc[:, -1], dtype=float)))) % 2 == 0
    except Exception:   # noqa
        return len(df) % 2 == 0


def poke(obj):
    import contextlib
    import inspect
    import io
    import warnings
    import matplotlib
    matplotlib.use('Agg')
    import matplotlib.pyplot as plt
    called = []
    for name in POKE_METHODS:
        m = getattr(obj, name, None)
        if not callable(m):
            continue
        variants = [{}]
        try:
            if 'iptw_only' in inspect.signature(m).parameters and getattr(obj, 'ipmw', None) is not None:
                variants.append({'iptw_only': False})
        except (TypeError, ValueError):
            pass
        for kw in variants:
            try:
                with contextlib.redirect_stdout(io.StringIO()), warnings.catch_warnings():
                    warnings.simplefilter('ignore')
                    m(**kw)
                called.append(name)
            except Exception:   # noqa
                pass
            finally:
                plt.close('all')
    return called


def scramble(df):
    """what a caller may do to HIS OWN frame after handing it to an estimator (in place, same object): permute every
    column's values, overwrite, drop rows.  An estimator analyses the data it was given at construction."""
    n = len(df)
    perm = np.random.RandomState(7).permutation(n)
    for c in list(df.columns):
        df[c] = df[c].to_numpy()[perm[::-1] if c == df.columns[0] else perm]
    df.drop(df.index[: max(1, n // 3)], inplace=True)
