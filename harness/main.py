"""./check <ID>|all [--tier quick|thorough] [--replay file] | --setup"""
import argparse
import importlib
import json
import os
import sys
import time
import traceback

HERE = os.path.dirname(os.path.abspath(__file__))
sys.path.insert(0, HERE)
import common  # noqa: E402
from common import Ctx, coq_build, vo_ok, make_errors, theorem_names, print_assumptions, audit_sources, STD_AXIOMS  # noqa: E402


def available():
    out = []
    for f in sorted(os.listdir(os.path.join(HERE, 'props'))):
        if f.startswith('c') and f.endswith('.py'):
            out.append(f[:-3].upper())
    return out


def run_property(pid, tier, seed, replay=None):
    common.setup_env()
    ctx = Ctx(pid, tier, seed)
    mod = importlib.import_module('props.' + pid.lower())
    gen, log = coq_build()
    ctx.gen = gen
    # ---- ties
    for g in getattr(mod, 'GEN_GROUPS', []):
        if not gen.get(g, {}).get('ok'):
            ctx.broken_ties.append('translator: group %s no longer translates: %s' % (g, gen.get(g, {}).get('error')))
    prop_v = mod.PROP_FILE
    names = theorem_names(prop_v)
    prop_ok = vo_ok(prop_v)
    if not prop_ok:
        ctx.broken_ties.append('proof: %s does not compile: %s' % (prop_v, make_errors(log)))
    ctx.model_ok = all(vo_ok(m) for m in getattr(mod, 'MODEL_FILES', []))
    if not ctx.model_ok:
        ctx.broken_ties.append('model: one of %s does not compile: %s' % (getattr(mod, 'MODEL_FILES', []), make_errors(log)))
    bad = audit_sources()
    if bad:
        ctx.violation('audit', 'forbidden vernacular in the development: ' + '; '.join(bad[:5]), {'lines': bad}, no_input=True)
    axioms = set()
    if prop_ok:
        ax, out = print_assumptions(ctx, prop_v, names)
        if ax is None:
            ctx.broken_ties.append('Print Assumptions failed: ' + out[-500:])
        else:
            axioms = ax
            extra = {a for a in ax if a not in STD_AXIOMS and not a.startswith(('PrimInt63', 'PrimFloat', 'Uint63', 'Coq.'))}
            extra = {a for a in extra if a.split('.')[-1] not in {x.split('.')[-1] for x in STD_AXIOMS}}
            if extra:
                ctx.violation('axioms', 'theorems depend on axioms outside the standard library: %s' % sorted(extra),
                              {'print_assumptions': out[-3000:]}, no_input=True)
    # ---- thorough tier: independent re-check of the compiled property file and everything it depends on
    if tier == 'thorough' and prop_ok and not replay:
        import subprocess
        mod_name = 'Zepid.' + prop_v[len('theories/'):-2].replace('/', '.')
        try:
            p = subprocess.run(['timeout', '2400', 'coqchk', '-silent', '-o', '-Q', os.path.join(common.COQ, 'theories'), 'Zepid',
                                '-Q', os.path.join(common.COQ, 'gen'), 'ZepidGen', mod_name],
                               stdout=subprocess.PIPE, stderr=subprocess.STDOUT, text=True)
            out = p.stdout
            tail = out[out.find('* Theory'):] if '* Theory' in out else out[-1500:]
            ctx.extra['coqchk'] = {'exit': p.returncode, 'summary': tail[-2500:]}
            if p.returncode == 124:
                ctx.notes.append('coqchk timed out after 2400 s (not judged)')
            elif p.returncode != 0:
                ctx.violation('coqchk', 'coqchk rejected %s: %s' % (mod_name, out[-600:]), {'output': out[-3000:]}, no_input=True)
            else:
                import re as _re
                for sec in ('relying on type-in-type', 'relying on unsafe (co)fixpoints', 'whose positivity is assumed'):
                    m = _re.search(_re.escape(sec) + r':\s*(.*)', out)
                    if m and '<none>' not in m.group(1):
                        ctx.violation('coqchk', 'coqchk reports constants %s: %s' % (sec, m.group(1)[:200]), {'output': tail}, no_input=True)
                ax = _re.findall(r'^\s{4}(\S+)\s*$', tail, flags=_re.M)
                bad_ax = [a for a in ax if a.split('.')[-1] not in {x.split('.')[-1] for x in STD_AXIOMS}]
                if bad_ax:
                    ctx.violation('coqchk-axioms', 'coqchk lists axioms outside the standard library: %s' % bad_ax, {'output': tail}, no_input=True)
        except OSError as e:
            ctx.notes.append('coqchk not run: %r' % (e,))
    # ---- the run itself (search with the thorough budget when a tie is broken)
    if ctx.broken_ties and tier == 'quick':
        ctx.quick = False
        ctx.notes.append('tie broken: searching for a failing input with the thorough budget')
    try:
        if replay:
            payload = json.load(open(replay))
            mod.replay(ctx, payload.get('payload'))
        else:
            mod.run(ctx)
    except Exception as e:   # a crash of the harness is never silently a pass
        ctx.violation('harness-crash', 'the check itself crashed: %r' % (e,), {'traceback': traceback.format_exc()}, no_input=True)
    if ctx.broken_ties and not any(not v['no_input'] for v in ctx.violations):
        ctx.violation('tie-broken', 'property no longer shown: ' + ' | '.join(ctx.broken_ties)[:1500],
                      {'broken': ctx.broken_ties, 'theorems': names, 'file': prop_v}, no_input=True)
    discharged = len(names) if prop_ok else 0
    return ctx.finish(len(names), discharged, names, axioms, getattr(mod, 'TRUSTED', []), getattr(mod, 'RULE', ''))


def main():
    ap = argparse.ArgumentParser()
    ap.add_argument('pid', nargs='?')
    ap.add_argument('--tier', default=os.environ.get('VERIF_TIER', 'quick'), choices=['quick', 'thorough'])
    ap.add_argument('--replay')
    ap.add_argument('--setup', action='store_true')
    a = ap.parse_args()
    seed = int(os.environ.get('VERIF_SEED', '20260930'))
    if a.setup:
        common.setup_env()
        t = time.time()
        gen, log = coq_build()
        print(json.dumps(gen))
        err = make_errors(log)
        if err:
            print(err)
        print('setup: coq build finished in %.0fs' % (time.time() - t))
        return 0
    if a.pid == 'all':
        rc = 0
        for p in available():
            rc |= os.system('%s %s %s --tier %s' % (sys.executable, os.path.abspath(__file__), p, a.tier)) and 1
        return rc
    return run_property(a.pid.upper(), a.tier, seed, a.replay)


if __name__ == '__main__':
    sys.exit(main())
