"""Structured random data for the causal estimators.  Every choice comes from the python `random.Random`
handed in (itself derived from VERIF_SEED)."""
import itertools
import math

import numpy as np
import pandas as pd


def _expit(x):
    return 1.0 / (1.0 + math.exp(-x))


def cat_frame(rng, n_cov=None, arities=None, cell=(2, 6), outcome='binary', y_round=2):
    """categorical covariates; every covariate stratum contains both arms, and for a binary outcome every
    (stratum, arm) cell contains both outcome values (so saturated logistic MLEs exist).
    Returns (df, meta).  Columns: L0.., A, Y, S (stratum code, not used by models)."""
    n_cov = n_cov or rng.choice([1, 1, 2, 2, 3])
    arities = arities or [rng.choice([2, 2, 3, 4]) if n_cov < 3 else rng.choice([2, 2, 3]) for _ in range(n_cov)]
    strata = list(itertools.product(*[range(k) for k in arities]))
    rows = []
    for s_code, lv in enumerate(strata):
        base = rng.uniform(-1.0, 1.0)
        eff = rng.uniform(-0.8, 1.2)
        for a in (0, 1):
            m = rng.randint(*cell)
            ys = []
            if outcome == 'binary':
                p = _expit(base + eff * a)
                ys = [1 if rng.random() < p else 0 for _ in range(m)]
                if sum(ys) == 0:
                    ys[rng.randrange(m)] = 1
                if sum(ys) == m:
                    ys[rng.randrange(m)] = 0
            elif outcome == 'normal':
                ys = [round(rng.gauss(10 + 3 * base + 2 * eff * a, 2.0), y_round) for _ in range(m)]
            elif outcome == 'poisson':
                lam = math.exp(0.5 + 0.5 * base + 0.4 * eff * a)
                ys = [int(np.random.RandomState(rng.randrange(2 ** 31)).poisson(lam)) for _ in range(m)]
                if sum(ys) == 0:
                    ys[0] = 1
            for y in ys:
                rows.append(list(lv) + [a, y, s_code])
    rng.shuffle(rows)
    cols = ['L%d' % i for i in range(n_cov)] + ['A', 'Y', 'S']
    df = pd.DataFrame(rows, columns=cols)
    df['Y'] = df['Y'].astype(float)
    sat = ' * '.join('C(L%d)' % i for i in range(n_cov))
    meta = {'n_cov': n_cov, 'arities': arities, 'outcome': outcome, 'n': len(df), 'n_strata': len(strata),
            'sat_L': sat, 'sat_AL': 'A * ' + sat if n_cov else 'A',
            'sub_models': sub_models(n_cov)}
    return df, meta


def sub_models(n_cov):
    """strict sub-models of the saturated covariate formula (right-hand sides without treatment)"""
    out = ['1']
    terms = ['C(L%d)' % i for i in range(n_cov)]
    if n_cov >= 2:
        out.append(' + '.join(terms))          # main effects only
        out.append(terms[0])                    # dropped covariates
    out.append('L0')                            # wrong functional form (ordinal code as linear)
    return out


def mixed_frame(rng, n=None, outcome='binary', missing=None, n_cont=None, n_cat=None, extreme=False):
    """continuous + categorical predictors, non-saturated models (logistic MLE exists with overwhelming
    probability: moderate coefficients, n >= 60).  Columns W0.. (continuous), C0.. (binary/ternary), A, Y."""
    n = n or rng.randint(60, 160)
    n_cont = rng.choice([1, 2]) if n_cont is None else n_cont
    n_cat = rng.choice([0, 1, 2]) if n_cat is None else n_cat
    rs = np.random.RandomState(rng.randrange(2 ** 31))
    d = {}
    lin = np.zeros(n)
    for i in range(n_cont):
        d['W%d' % i] = np.round(rs.normal(size=n), 3)
        lin += rng.uniform(-0.6, 0.6) * d['W%d' % i]
    for i in range(n_cat):
        d['C%d' % i] = rs.randint(0, rng.choice([2, 3]), size=n)
        lin += rng.uniform(-0.5, 0.5) * d['C%d' % i]
    df = pd.DataFrame(d)
    if extreme:
        # near-violation of positivity: a strong continuous confounder, fitted Pr(A=1|W) down to 1e-6 .. 1e-9 in the tail
        df['A'] = rs.binomial(1, 1 / (1 + np.exp(-(rng.uniform(3.0, 5.0) * d['W0'] + rng.uniform(-0.3, 0.3)))))
        k = np.argsort(d['W0'])
        df.loc[k[:3], 'A'] = 0
        df.loc[k[-3:], 'A'] = 1
        df.loc[k[len(k) // 2 - 2:len(k) // 2 + 2], 'A'] = [0, 1, 1, 0]      # overlap in the middle: the MLE exists
    else:
        df['A'] = rs.binomial(1, 1 / (1 + np.exp(-(lin * 0.8 + rng.uniform(-0.3, 0.3)))))
    ylin = 0.7 * lin + rng.uniform(-0.5, 0.9) * df['A'] + rng.uniform(-0.4, 0.4)
    if outcome == 'binary':
        df['Y'] = rs.binomial(1, 1 / (1 + np.exp(-ylin))).astype(float)
    elif outcome == 'normal':
        df['Y'] = np.round(5 + 2 * ylin + rs.normal(size=n), 3)
    else:
        df['Y'] = rs.poisson(np.exp(0.3 + 0.4 * ylin)).astype(float)
    covs = [c for c in df.columns if c not in ('A', 'Y')]
    if missing:
        if missing == 'mcar':
            m = rs.binomial(1, 0.15, size=n)
        else:
            m = rs.binomial(1, 1 / (1 + np.exp(-(-1.6 + 0.5 * df['A'] + 0.4 * df[covs[0]]))))
        if m.sum() == 0:
            m[0] = 1
        df.loc[m == 1, 'Y'] = np.nan
    meta = {'covs': covs, 'rhs': ' + '.join(covs), 'outcome': outcome, 'n': n, 'missing': missing}
    return df, meta


def reindex(df, rng, kind=None):
    kind = kind or rng.choice(['range', 'shift', 'shuffle', 'float', 'str', 'dup'])
    df = df.copy()
    n = len(df)
    if kind == 'shift':
        df.index = range(1000, 1000 + n)
    elif kind == 'shuffle':
        idx = list(range(n))
        rng.shuffle(idx)
        df.index = idx
    elif kind == 'float':
        df.index = [i + 0.5 for i in range(n)]
    elif kind == 'str':
        df.index = ['id%03d' % i for i in range(n)]
    elif kind == 'dup':
        df.index = [i // 2 for i in range(n)]
    elif kind == 'nanlabel':    # unknown ids after set_index / an outer merge: some row labels are NaN
        lab = [float(i) for i in range(n)]
        for j in rng.sample(range(n), max(1, n // 12)):
            lab[j] = float('nan')
        df.index = lab
    elif kind == 'gappy':       # a subset of a larger cohort: increasing labels with gaps, mostly >= n
        df.index = sorted(rng.sample(range(3 * n), n))
    return df, kind


# ---- semantic no-ops every estimator must ignore: the caller's row labels and the storage type of a 0/1-coded exposure
DRESS_INDEX = ['range', 'shuffle', 'gappy', 'shift', 'str', 'nanlabel']
DRESS_ADTYPE = ['int64', 'float64', 'uint8', 'int8', 'int32', 'float32']


def dress(df, rng, i=None, col='A'):
    """returns (frame with other row labels / exposure storage type, description).  i cycles the kinds deterministically."""
    kind = DRESS_INDEX[i % len(DRESS_INDEX)] if i is not None else rng.choice(DRESS_INDEX)
    adt = DRESS_ADTYPE[(i // 2) % len(DRESS_ADTYPE)] if i is not None else rng.choice(DRESS_ADTYPE)
    df, kind = reindex(df, rng, kind)
    if col in df.columns and adt != 'int64' and df[col].notna().all():
        df[col] = df[col].astype(adt)
    else:
        adt = str(df[col].dtype) if col in df.columns else 'int64'
    return df, {'index': kind, 'adtype': adt}


def pack_frame(df):
    """JSON-able copy of a frame that survives a replay: values (NaN -> None), row labels, storage types"""
    return {'data': {c: [None if (isinstance(v, float) and v != v) else (v.item() if hasattr(v, 'item') else v) for v in df[c].tolist()]
                     for c in df.columns},
            'index': [i if isinstance(i, str) else (None if i != i else (int(i) if float(i) == int(i) else float(i))) for i in df.index],
            'dtypes': {c: str(df[c].dtype) for c in df.columns}}


def unpack_frame(p):
    df = pd.DataFrame(p['data'])
    for c, t in (p.get('dtypes') or {}).items():
        if c in df.columns:
            df[c] = df[c].astype(t)
    if p.get('index') is not None:
        df.index = [float('nan') if i is None else i for i in p['index']]
    return df


def add_missing(rng, df, binary):
    """outcomes set to NaN so that every (stratum, arm) cell keeps >= 2 observed outcomes (both values when binary)"""
    df = df.copy()
    for _, idx in df.groupby(['S', 'A']).groups.items():
        idx = list(idx)
        rng.shuffle(idx)
        keep = []
        if binary:
            keep = [next(i for i in idx if df.at[i, 'Y'] == 1.0), next(i for i in idx if df.at[i, 'Y'] == 0.0)]
        else:
            keep = idx[:2]
        rest = [i for i in idx if i not in keep]
        for i in rest[:rng.randint(0, len(rest))]:
            df.at[i, 'Y'] = float('nan')
    return df
